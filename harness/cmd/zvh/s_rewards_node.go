package main

import (
	"fmt"
	"math/big"
	"sort"
	"strings"
	"time"

	g "github.com/zenon-network/go-zenon/chain/genesis/mock"
	"github.com/zenon-network/go-zenon/chain/nom"
	"github.com/zenon-network/go-zenon/common/db"
	"github.com/zenon-network/go-zenon/common/types"
	"github.com/zenon-network/go-zenon/consensus"
	"github.com/zenon-network/go-zenon/verifier"
	"github.com/zenon-network/go-zenon/vm/abi"
	"github.com/zenon-network/go-zenon/vm/constants"
	"github.com/zenon-network/go-zenon/vm/embedded"
	"github.com/zenon-network/go-zenon/vm/embedded/definition"
	"github.com/zenon-network/go-zenon/vm/embedded/implementation"
	"github.com/zenon-network/go-zenon/vm/vm_context"
)

// ---------------------------------------------------------------------------------------------------
// C11 stream `rewards-node`: the part of the property that needs a running chain.
//
// One history = one real node (zenon/mock: chain, consensus, supervisor over leveldb) with a short epoch
// (consensus.EpochDuration = 1..3 election ticks), driven by the harness's own producer loop, which performs the steps
// of pillar/worker.go with the real functions (GenerateMomentum by the elected pillar, GenerateAutoReceive for every
// contract inbox entry, the Update calls of pillar/worker_updater.go) but lets the generator skip slots (pillars
// missing momentums) and decide who calls Update and when. Traffic: stakes entering and being cancelled, sentinels
// registering and revoking, delegations and balances changing, pillars changing their give-percentages and reward
// address, a new pillar registering, Update calls by arbitrary users, CollectReward calls (also twice in a row, also by
// accounts without deposit).
//
// Every contract receive block of the pillar / stake / sentinel / liquidity contract is observed right after it was
// generated (storage of the contract as of that block): the LastEpochUpdate cursor, every RewardDeposit and every
// RewardDepositHistory entry. Printed for the Lean epoch-cursor model (RN-* lines) and judged by model-free MONITORS:
//   cursor     moves only inside a successful Update, by +1 steps, never over an epoch whose end + RewardTimeLimit is
//              later than the acknowledged momentum, and as far as the method promises (all due epochs / at most one)
//   once       history entries of an epoch appear only in the block that moves the cursor over that epoch; an epoch the
//              cursor has passed is never credited again; every epoch the cursor passes is issued (F14 shows up here)
//   emission   per contract, epoch and coin: Σ credited (+ net mint to the liquidity contract itself) <= emission
//   deposits   RewardDeposit(addr) changes exactly by the credited history deltas, minus what a collect paid out
//   collect    a successful CollectReward mints exactly the deposit to the caller (request to the token contract and
//              the token contract's own answer), zeroes it; a collect without deposit fails and changes nothing
// After the history the chain is fed to follower nodes (InsertChain one by one / in batches / in big batches with
// restarts) and cursor, deposits and history entries of every contract are compared between producer and followers.
// ---------------------------------------------------------------------------------------------------

var rnContracts = []types.Address{types.PillarContract, types.StakeContract, types.SentinelContract, types.LiquidityContract}

func rnCName(a types.Address) string {
	switch a {
	case types.PillarContract:
		return "pillar"
	case types.StakeContract:
		return "stake"
	case types.SentinelContract:
		return "sentinel"
	case types.LiquidityContract:
		return "liquidity"
	}
	return "other"
}

func rnABI(a types.Address) *abi.ABIContract {
	switch a {
	case types.PillarContract:
		return &definition.ABIPillars
	case types.StakeContract:
		return &definition.ABIStake
	case types.SentinelContract:
		return &definition.ABISentinel
	case types.LiquidityContract:
		return &definition.ABILiquidity
	}
	return nil
}

// NewNodeWithEpoch starts a mock node whose consensus uses the given epoch duration; the returned function restores
// the package variable (mock.Stop restores it to the custom value, not to the original one).
func NewNodeWithEpoch(d time.Duration) (*Node, func()) {
	orig := consensus.EpochDuration
	consensus.EpochDuration = d
	n := NewNode()
	return n, func() { consensus.EpochDuration = orig }
}

// the package-level knobs a history changes (the repository's own tests change the same ones)
type rnGlobals struct {
	rtl                  int64
	updMin               uint64
	mpe                  int64
	stUnit, stMin, stMax int64
	sLock, sRevoke       int64
	gate                 uint64
	admin                types.Address
	minGuardians         int
	minAdminDelay        uint64
	minSoftDelay         uint64
	pLock, pRevoke       int64
}

func rnSaveGlobals() rnGlobals {
	return rnGlobals{constants.RewardTimeLimit, constants.UpdateMinNumMomentums, constants.MomentumsPerEpoch,
		constants.StakeTimeUnitSec, constants.StakeTimeMinSec, constants.StakeTimeMaxSec,
		constants.SentinelLockTimeWindow, constants.SentinelRevokeTimeWindow, verifier.ReceiverMismatchEnforcementHeight,
		constants.InitialBridgeAdministrator, constants.MinGuardians, constants.MinAdministratorDelay, constants.MinSoftDelay,
		constants.PillarEpochLockTime, constants.PillarEpochRevokeTime}
}
func (x rnGlobals) restore() {
	constants.RewardTimeLimit, constants.UpdateMinNumMomentums, constants.MomentumsPerEpoch = x.rtl, x.updMin, x.mpe
	constants.StakeTimeUnitSec, constants.StakeTimeMinSec, constants.StakeTimeMaxSec = x.stUnit, x.stMin, x.stMax
	constants.SentinelLockTimeWindow, constants.SentinelRevokeTimeWindow = x.sLock, x.sRevoke
	verifier.ReceiverMismatchEnforcementHeight = x.gate
	constants.InitialBridgeAdministrator, constants.MinGuardians = x.admin, x.minGuardians
	constants.MinAdministratorDelay, constants.MinSoftDelay = x.minAdminDelay, x.minSoftDelay
	constants.PillarEpochLockTime, constants.PillarEpochRevokeTime = x.pLock, x.pRevoke
}

type rnCoins struct{ znn, qsr *big.Int }

func rnZero() rnCoins { return rnCoins{new(big.Int), new(big.Int)} }
func (a rnCoins) eq(b rnCoins) bool {
	return a.znn.Cmp(b.znn) == 0 && a.qsr.Cmp(b.qsr) == 0
}
func (a rnCoins) isZero() bool   { return a.znn.Sign() == 0 && a.qsr.Sign() == 0 }
func (a rnCoins) String() string { return a.znn.String() + " " + a.qsr.String() }

type rnHistKey struct {
	addr  types.Address
	epoch uint64
}

// rnState is what the properties talk about, read from one contract's storage
type rnState struct {
	cursor     int64
	lastUpdate uint64
	dep        map[types.Address]rnCoins
	hist       map[rnHistKey]rnCoins
}

func (s *rnState) depOf(a types.Address) rnCoins {
	if v, ok := s.dep[a]; ok {
		return v
	}
	return rnZero()
}
func (s *rnState) histOf(k rnHistKey) rnCoins {
	if v, ok := s.hist[k]; ok {
		return v
	}
	return rnZero()
}

var rnDepositPrefix = []byte{128}
var rnHistoryPrefix = []byte{132}

// rnReadState scans the common key ranges of vm/embedded/definition/common.go (rewardDepositKeyPrefix = 128 ‖ address,
// rewardDepositHistoryKeyPrefix = 132 ‖ address ‖ epoch little-endian) only to learn which entries exist; the values are
// read through the package's own getters.
func rnReadState(storage db.DB) (st *rnState, err error) {
	st = &rnState{dep: map[types.Address]rnCoins{}, hist: map[rnHistKey]rnCoins{}}
	if p := safely(func() {
		var le *definition.LastEpochUpdate
		le, err = definition.GetLastEpochUpdate(storage)
		if err != nil {
			return
		}
		st.cursor = le.LastEpoch
		lu, e2 := definition.GetLastUpdate(storage)
		if e2 != nil {
			err = e2
			return
		}
		st.lastUpdate = lu.Height
		var addrs []types.Address
		it := storage.NewIterator(rnDepositPrefix)
		for it.Next() {
			k := it.Key()
			if len(k) != 1+types.AddressSize {
				err = fmt.Errorf("reward deposit key of length %d", len(k))
				it.Release()
				return
			}
			var a types.Address
			copy(a[:], k[1:])
			addrs = append(addrs, a)
		}
		it.Release()
		for i := range addrs {
			d, e := definition.GetRewardDeposit(storage, &addrs[i])
			if e != nil {
				err = e
				return
			}
			st.dep[addrs[i]] = rnCoins{new(big.Int).Set(d.Znn), new(big.Int).Set(d.Qsr)}
		}
		var keys []rnHistKey
		it = storage.NewIterator(rnHistoryPrefix)
		for it.Next() {
			k := it.Key()
			if len(k) != 1+types.AddressSize+8 {
				err = fmt.Errorf("reward history key of length %d", len(k))
				it.Release()
				return
			}
			var hk rnHistKey
			copy(hk.addr[:], k[1:1+types.AddressSize])
			for i := 0; i < 8; i++ {
				hk.epoch |= uint64(k[1+types.AddressSize+i]) << (8 * uint(i))
			}
			keys = append(keys, hk)
		}
		it.Release()
		for _, hk := range keys {
			a := hk.addr
			d, e := definition.GetRewardDepositHistory(storage, hk.epoch, &a)
			if e != nil {
				err = e
				return
			}
			st.hist[hk] = rnCoins{new(big.Int).Set(d.Znn), new(big.Int).Set(d.Qsr)}
		}
	}); p != "" {
		return nil, fmt.Errorf("panic: %s", p)
	}
	return st, err
}

type rnCfg struct {
	kind       string // normal | lag
	regime     string // origin | accel | bridge
	epochSec   int64
	rtl        int64
	updMin     uint64
	mpe        int64
	autoUpdate bool
	epochs     int
	churn      bool // directed: a pillar registers at the start and is revoked in the first election tick of an epoch; the node is asked for statistics all the time
}

type rnMint struct {
	to     types.Address
	tok    types.ZenonTokenStandard
	amount *big.Int
	why    string
}

type rnRun struct {
	c            *Ctx
	n            *Node
	id           int
	cfg          rnCfg
	genesis      int64
	st           map[types.Address]*rnState
	observed     map[types.Hash]bool   // contract blocks observed in the pool, to be confirmed by the next momentum
	pendingMints map[types.Hash]rnMint // mint requests (descendant block hash) the token contract still has to answer
	stakes       map[types.Address][]types.Hash
	liqTokens    []types.ZenonTokenStandard // tokens with a reward tuple in the liquidity contract (bridge regime)
	liqStakes    map[types.Address][]types.Hash
	failed       bool
	quiet        bool // final phase: no Update calls by the producer
	touched      map[types.Address]bool
	credited     int
	collectedOK  int
	audit        *csAudit // questions asked to the node's consensus module so far
}

func (r *rnRun) fail(format string, a ...interface{}) {
	r.failed = true
	r.c.Fail("rewards-node run=%d [%s %s epoch=%ds rtl=%d updMin=%d auto=%v] h=%d: %s", r.id, r.cfg.kind, r.cfg.regime, r.cfg.epochSec, r.cfg.rtl,
		r.cfg.updMin, r.cfg.autoUpdate, r.n.Height(), fmt.Sprintf(format, a...))
}

// known: a violation that is a recorded finding does not end the history
func (r *rnRun) known(format string, a ...interface{}) {
	was := r.failed
	r.fail(format, a...)
	r.failed = was
}

func (r *rnRun) epochEnd(e int64) int64 { return r.genesis + r.cfg.epochSec*(e+1) }

// due: the sentence of CanPerformEpochUpdate for epoch e at the acknowledged momentum's timestamp
func (r *rnRun) due(e int64, ackTs int64) bool { return ackTs >= r.epochEnd(e)+r.cfg.rtl }

func rnErrName(err error) string {
	switch err {
	case nil:
		return "ok"
	case constants.ErrUpdateTooRecent:
		return "tooRecent"
	case constants.ErrNothingToWithdraw:
		return "nothing"
	case constants.ErrEpochUpdateTooRecent:
		return "epochTooRecent"
	case constants.ErrInvalidRewards:
		return "invalidRewards"
	}
	s := err.Error()
	s = strings.Map(func(c rune) rune {
		if c == ' ' || c == '|' {
			return '_'
		}
		return c
	}, s)
	if len(s) > 60 {
		s = s[:60]
	}
	return "other:" + s
}

// emission of one epoch for a contract and coin, from the real constants functions
func rnEmission(contract types.Address, epoch uint64) rnCoins {
	switch contract {
	case types.PillarContract:
		d, p := constants.PillarRewardPerMomentum(epoch)
		z := new(big.Int).Add(d, p)
		z.Mul(z, big.NewInt(constants.MomentumsPerEpoch))
		return rnCoins{z, new(big.Int)}
	case types.StakeContract:
		return rnCoins{new(big.Int), new(big.Int).Set(constants.StakeQsrRewardPerEpoch(epoch))}
	case types.SentinelContract:
		z, q := constants.SentinelRewardForEpoch(epoch)
		return rnCoins{new(big.Int).Set(z), new(big.Int).Set(q)}
	case types.LiquidityContract:
		z, q := constants.LiquidityRewardForEpoch(epoch)
		return rnCoins{new(big.Int).Set(z), new(big.Int).Set(q)}
	}
	return rnZero()
}

func rnDecodeMint(b *nom.AccountBlock) *definition.MintParam {
	if b.ToAddress != types.TokenContract {
		return nil
	}
	m, err := definition.ABIToken.MethodById(b.Data)
	if err != nil || m.Name != definition.MintMethodName {
		return nil
	}
	p := new(definition.MintParam)
	if definition.ABIToken.UnpackMethod(p, m.Name, b.Data) != nil {
		return nil
	}
	return p
}

func rnIsBurn(b *nom.AccountBlock) bool {
	if b.ToAddress != types.TokenContract {
		return false
	}
	m, err := definition.ABIToken.MethodById(b.Data)
	return err == nil && m.Name == definition.BurnMethodName
}

func rnSortedAddrs(m map[types.Address]bool) []types.Address {
	out := make([]types.Address, 0, len(m))
	for a := range m {
		out = append(out, a)
	}
	sort.Slice(out, func(i, j int) bool { return string(out[i][:]) < string(out[j][:]) })
	return out
}

// rnPre: the entries a stake / sentinel Update is about to split an epoch's amount over (storage before the block)
type rnPre struct {
	stakes    []*definition.StakeInfo
	sentinels []*definition.SentinelInfo
	pillars   []*definition.PillarInfo
	liq       *rnLiqPre // s_rewards_epoch.go
}

func (r *rnRun) preSnapshot(ca types.Address, send *nom.AccountBlock) *rnPre {
	ab := rnABI(ca)
	if ab == nil || (ca != types.StakeContract && ca != types.SentinelContract && ca != types.PillarContract && ca != types.LiquidityContract) {
		return nil
	}
	if m, e := ab.MethodById(send.Data); e != nil || m.Name != definition.UpdateMethodName {
		return nil
	}
	pre := &rnPre{}
	storage := r.n.Chain().GetFrontierAccountStore(ca).Storage()
	if p := safely(func() {
		if ca == types.LiquidityContract {
			pre.liq = r.liqSnapshot()
		} else if ca == types.PillarContract {
			pre.pillars, _ = definition.GetPillarsList(storage, false, definition.AnyPillarType)
		} else if ca == types.StakeContract {
			definition.IterateStakeEntries(storage, func(si *definition.StakeInfo) error {
				cp := *si
				cp.WeightedAmount = new(big.Int).Set(si.WeightedAmount)
				pre.stakes = append(pre.stakes, &cp)
				return nil
			})
		} else {
			definition.IterateSentinelEntries(storage, func(si *definition.SentinelInfo) error {
				cp := *si
				pre.sentinels = append(pre.sentinels, &cp)
				return nil
			})
		}
	}); p != "" {
		return nil
	}
	return pre
}

// amountsLine: the first epoch rewarded by a stake / sentinel Update, with the entries it was computed from, for the Lean
// reward arithmetic (Model/Rewards.lean on the real chain's inputs): credited per address, in order of first appearance.
func (r *rnRun) amountsLine(C types.Address, pre *rnPre, e int64, N *rnState) {
	st, en := r.n.Z.Consensus().FrontierPillarReader().EpochTicker().ToTime(uint64(e))
	var sb strings.Builder
	var order []types.Address
	seen := map[types.Address]bool{}
	note := func(a types.Address) {
		if !seen[a] {
			seen[a] = true
			order = append(order, a)
		}
	}
	n := 0
	if C == types.StakeContract {
		for _, si := range pre.stakes {
			fmt.Fprintf(&sb, " %s %d %d %s", addrName(si.StakeAddress), si.StartTime, si.RevokeTime, si.WeightedAmount)
			note(si.StakeAddress)
			n++
		}
	} else {
		for _, si := range pre.sentinels {
			fmt.Fprintf(&sb, " %s %d %d", addrName(si.Owner), si.RegistrationTimestamp, si.RevokeTimestamp)
			note(si.Owner)
			n++
		}
	}
	var out []string
	for _, a := range order {
		v := N.histOf(rnHistKey{a, uint64(e)})
		if v.isZero() {
			continue
		}
		if C == types.StakeContract {
			out = append(out, addrName(a)+":"+v.qsr.String())
		} else {
			out = append(out, addrName(a)+":"+v.znn.String()+":"+v.qsr.String())
		}
	}
	res := strings.Join(out, " ")
	if res == "" {
		res = "-"
	}
	r.c.Emit("RN-%s-amounts %d %d %d %d%s | %s", rnCName(C), e, st.Unix(), en.Unix(), n, sb.String(), res)
	r.c.Hit("amounts-" + rnCName(C) + "-compared-with-model")
}

// pillarAmountsLine: one epoch rewarded by the pillar contract, with the inputs computeDetailedPillarReward read (epoch
// statistics and delegations from the node's consensus, percentages and reward addresses from the storage before the
// block), for the Lean pillar formula; result = credited per address in order of first appearance.
func (r *rnRun) pillarAmountsLine(pre *rnPre, e int64, ack *nom.Momentum, N *rnState) {
	if p := safely(func() {
		reader := r.n.Z.Consensus().FixedPillarReader(ack.Identifier())
		stats, err := reader.EpochStats(uint64(e))
		if err != nil || stats == nil {
			return
		}
		details, err := reader.GetPillarDelegationsByEpoch(uint64(e))
		if err != nil {
			return
		}
		registered := map[string]bool{}
		for _, pi := range pre.pillars {
			registered[pi.Name] = true
		}
		for nm := range stats.Pillars {
			if !registered[nm] {
				r.c.Hit("pillar-amounts-skipped")
				return
			}
		}
		var sb strings.Builder
		var order []types.Address
		seen := map[types.Address]bool{}
		note := func(a types.Address) {
			if !seen[a] {
				seen[a] = true
				order = append(order, a)
			}
		}
		n := 0
		for _, pi := range pre.pillars {
			ps, ok := stats.Pillars[pi.Name]
			if !ok {
				continue
			}
			n++
			fmt.Fprintf(&sb, " %d %d %s %d %d %s", ps.BlockNum, ps.ExceptedBlockNum, ps.Weight, pi.GiveBlockRewardPercentage, pi.GiveDelegateRewardPercentage, addrName(pi.RewardWithdrawAddress))
			note(pi.RewardWithdrawAddress)
			d, ok := details[pi.Name]
			if !ok {
				sb.WriteString(" x")
				continue
			}
			bs := map[types.Address]bool{}
			for a := range d.Backers {
				bs[a] = true
			}
			bl := rnSortedAddrs(bs)
			fmt.Fprintf(&sb, " %d", len(bl))
			for _, a := range bl {
				fmt.Fprintf(&sb, " %s %s", addrName(a), d.Backers[a])
				note(a)
			}
		}
		var out []string
		for _, a := range order {
			v := N.histOf(rnHistKey{a, uint64(e)})
			if v.znn.Sign() != 0 {
				out = append(out, addrName(a)+":"+v.znn.String())
			}
		}
		res := strings.Join(out, " ")
		if res == "" {
			res = "-"
		}
		r.c.Emit("RN-pillar-amounts %d %d %s %d%s | %s", e, constants.MomentumsPerEpoch, stats.TotalWeight, n, sb.String(), res)
		r.c.Hit("amounts-pillar-compared-with-model")
	}); p != "" {
		r.fail("cannot read the inputs of the pillar reward of epoch %d: %s", e, p)
	}
}

// pillarPremises: the hypotheses of the theorem pillar_epoch_bound, evaluated on the statistics the node's consensus
// reports for a rewarded epoch
func (r *rnRun) pillarPremises(e int64, ack *nom.Momentum) {
	var perr error
	if p := safely(func() {
		stats, err := r.n.Z.Consensus().FixedPillarReader(ack.Identifier()).EpochStats(uint64(e))
		if err != nil || stats == nil {
			perr = fmt.Errorf("EpochStats(%d): %v", e, err)
			return
		}
		names := make([]string, 0, len(stats.Pillars))
		for nm := range stats.Pillars {
			names = append(names, nm)
		}
		sort.Strings(names)
		sumW, sumE, sumP := new(big.Int), uint64(0), uint64(0)
		for _, nm := range names {
			ps := stats.Pillars[nm]
			if ps.BlockNum > ps.ExceptedBlockNum {
				r.fail("premise: epoch %d statistics say pillar %q produced %d momentums of %d expected", e, nm, ps.BlockNum, ps.ExceptedBlockNum)
			}
			if ps.Weight.Sign() < 0 {
				r.fail("premise: epoch %d statistics give pillar %q the negative weight %s", e, nm, ps.Weight)
			}
			sumW.Add(sumW, ps.Weight)
			sumE += ps.ExceptedBlockNum
			sumP += ps.BlockNum
			if ps.BlockNum < ps.ExceptedBlockNum {
				r.c.Hit("pillar-epoch-with-missed-slots")
			}
		}
		if sumW.Cmp(stats.TotalWeight) > 0 {
			r.fail("premise: epoch %d statistics: the pillar weights sum to %s, TotalWeight is %s", e, sumW, stats.TotalWeight)
		}
		if int64(sumE) > constants.MomentumsPerEpoch {
			r.fail("premise: epoch %d statistics expect %d momentums, an epoch has %d slots", e, sumE, constants.MomentumsPerEpoch)
		}
		// function of the chain: the statistics count exactly the momentums the chain has in that epoch
		if inChain := r.epochMomentumCount(e, ack.Height); sumP != inChain || stats.TotalBlocks != inChain {
			r.fail("C11 consensus-statistics: the statistics of epoch %d the pillar reward is computed from count %d produced momentums (TotalBlocks %d), the chain has %d momentums in that epoch: %s", e, sumP, stats.TotalBlocks, inChain, fmtEpochStats(stats, nil))
		}
		r.c.Hit("pillar-premises-checked")
	}); p != "" {
		perr = fmt.Errorf("panic: %s", p)
	}
	if perr != nil {
		r.fail("premise: cannot read the epoch statistics: %v", perr)
	}
}

// observeBlock is called right after a contract receive block was generated and pooled.
func (r *rnRun) observeBlock(tx *nom.AccountBlockTransaction, methodErr error, send *nom.AccountBlock, ack *nom.Momentum, pre *rnPre) {
	c := r.c
	blk := tx.Block
	C := blk.Address
	r.observed[blk.Hash] = true
	if C == types.TokenContract {
		r.observeTokenAnswer(blk, methodErr)
		return
	}
	P := r.st[C]
	if P == nil {
		return
	}
	cn := rnCName(C)
	r.touched[C] = true
	N, err := rnReadState(r.n.Chain().GetFrontierAccountStore(C).Storage())
	if err != nil {
		r.fail("cannot read the storage of the %s contract after block %d: %v", cn, blk.Height, err)
		return
	}
	status := rnErrName(methodErr)
	method := "?"
	if m, e := rnABI(C).MethodById(send.Data); e == nil {
		method = m.Name
	}
	ackTs := ack.Timestamp.Unix()
	c.Hit("recv-" + cn + "." + method + "-" + status)

	// ---- history / deposit deltas (sorted) --------------------------------------------------------
	type credit struct {
		k rnHistKey
		d rnCoins
	}
	var credits []credit
	hkeys := map[rnHistKey]bool{}
	for k := range N.hist {
		hkeys[k] = true
	}
	for k := range P.hist {
		hkeys[k] = true
	}
	for k := range hkeys {
		a, b := P.histOf(k), N.histOf(k)
		if !a.eq(b) {
			credits = append(credits, credit{k, rnCoins{new(big.Int).Sub(b.znn, a.znn), new(big.Int).Sub(b.qsr, a.qsr)}})
		}
	}
	sort.Slice(credits, func(i, j int) bool {
		if credits[i].k.epoch != credits[j].k.epoch {
			return credits[i].k.epoch < credits[j].k.epoch
		}
		return string(credits[i].k.addr[:]) < string(credits[j].k.addr[:])
	})
	dset := map[types.Address]bool{}
	for a := range N.dep {
		dset[a] = true
	}
	for a := range P.dep {
		dset[a] = true
	}
	daddrs := rnSortedAddrs(dset)

	isUpdate := method == definition.UpdateMethodName
	isCollect := method == definition.CollectRewardMethodName
	k := N.cursor - P.cursor

	// ---- MONITOR cursor -------------------------------------------------------------------------
	if k < 0 {
		r.fail("cursor: LastEpochUpdate of the %s contract went back from %d to %d in block %d (%s)", cn, P.cursor, N.cursor, blk.Height, method)
	}
	if k != 0 && !(isUpdate && methodErr == nil) {
		r.fail("cursor: LastEpochUpdate of the %s contract moved %d -> %d in a block that is not a successful Update (%s, %s)", cn, P.cursor, N.cursor, method, status)
	}
	if methodErr != nil {
		// a failed call must leave no trace (the VM resets the storage)
		if k != 0 || len(credits) != 0 || N.lastUpdate != P.lastUpdate {
			r.fail("failed %s call (%s) on the %s contract changed its reward state: cursor %d -> %d, %d history entries changed", method, status, cn, P.cursor, N.cursor, len(credits))
		}
	}
	variant := "loop"
	if isUpdate {
		if C == types.LiquidityContract {
			variant = r.liquidityVariant(send)
		}
		for e := P.cursor + 1; e <= N.cursor; e++ {
			if !r.due(e, ackTs) {
				r.fail("cursor: the %s contract rewarded epoch %d at a momentum with timestamp %d, but the epoch ends at %d and RewardTimeLimit is %d (end+limit = %d)", cn, e, ackTs, r.epochEnd(e), r.cfg.rtl, r.epochEnd(e)+r.cfg.rtl)
			}
		}
		if methodErr == nil {
			next := N.cursor + 1
			switch variant {
			case "loop":
				if r.due(next, ackTs) {
					r.fail("cursor: successful Update of the %s contract at timestamp %d stopped at epoch %d although epoch %d (end+limit = %d) is due", cn, ackTs, N.cursor, next, r.epochEnd(next)+r.cfg.rtl)
				}
			case "liqorigin":
				if r.due(next, ackTs) {
					c.Hit("liq-origin-capped")
				}
				if k > int64(constants.MaxEpochsPerUpdate) {
					r.fail("cursor: one Update of the liquidity contract advanced %d epochs, MaxEpochsPerUpdate is %d", k, constants.MaxEpochsPerUpdate)
				}
			case "liqone":
				if k > 1 {
					r.fail("cursor: post-spork liquidity Update advanced %d epochs in one call", k)
				}
				if k == 0 && r.due(next, ackTs) {
					r.fail("cursor: post-spork liquidity Update at timestamp %d did not reward the due epoch %d", ackTs, next)
				}
			}
			if k > 0 {
				c.Hit(fmt.Sprintf("update-%s-advanced", cn))
				if k > 1 {
					c.Hit(fmt.Sprintf("update-%s-caught-up-several", cn))
				}
			} else {
				c.Hit(fmt.Sprintf("update-%s-nothing-due", cn))
			}
			if P.lastUpdate+constants.UpdateMinNumMomentums > ack.Height {
				r.fail("Update of the %s contract succeeded at height %d, last update was at %d, UpdateMinNumMomentums = %d", cn, ack.Height, P.lastUpdate, constants.UpdateMinNumMomentums)
			}
			if N.lastUpdate != ack.Height {
				r.fail("Update of the %s contract at height %d recorded last-update height %d", cn, ack.Height, N.lastUpdate)
			}
		} else if methodErr == constants.ErrUpdateTooRecent {
			if P.lastUpdate+constants.UpdateMinNumMomentums <= ack.Height {
				r.fail("Update of the %s contract refused as too recent at height %d, last update at %d, UpdateMinNumMomentums = %d", cn, ack.Height, P.lastUpdate, constants.UpdateMinNumMomentums)
			}
		}
	}

	// ---- issuance observed independently of the cursor ------------------------------------------------
	type lmint struct{ z, q *big.Int }
	liqMint := map[int64]lmint{} // net mint to the liquidity contract itself, per epoch
	issued := k
	if isUpdate && methodErr == nil {
		switch {
		case C == types.PillarContract:
			issued = 0
			for e := P.cursor + 1; e <= N.cursor; e++ {
				l, err := definition.GetPillarEpochHistoryList(r.n.Chain().GetFrontierAccountStore(C).Storage(), uint64(e))
				if err == nil && len(l) > 0 {
					issued++
				} else {
					r.fail("once: the pillar contract moved its cursor over epoch %d without recording any pillar epoch history for it", e)
				}
			}
		case variant == "liqorigin":
			// two mint requests per epoch, in epoch order
			ds := blk.DescendantBlocks
			if len(ds)%2 != 0 {
				r.fail("liquidity Update emitted %d descendant blocks (odd)", len(ds))
			}
			issued = int64(len(ds) / 2)
			for i := 0; i+1 < len(ds); i += 2 {
				e := P.cursor + 1 + int64(i/2)
				mz, mq := rnDecodeMint(ds[i]), rnDecodeMint(ds[i+1])
				if mz == nil || mq == nil || mz.TokenStandard != types.ZnnTokenStandard || mq.TokenStandard != types.QsrTokenStandard ||
					mz.ReceiveAddress != types.LiquidityContract || mq.ReceiveAddress != types.LiquidityContract {
					r.fail("liquidity Update: descendant pair %d is not (mint ZNN, mint QSR) to the liquidity contract", i/2)
					continue
				}
				liqMint[e] = lmint{mz.Amount, mq.Amount}
				r.pendingMints[ds[i].Hash] = rnMint{types.LiquidityContract, types.ZnnTokenStandard, mz.Amount, "liquidity emission"}
				r.pendingMints[ds[i+1].Hash] = rnMint{types.LiquidityContract, types.QsrTokenStandard, mq.Amount, "liquidity emission"}
			}
			for e := P.cursor + 1; e <= N.cursor; e++ {
				if _, ok := liqMint[e]; !ok {
					r.known("once: one Update of the liquidity contract (origin method updateLiquidityRewards) moved the cursor %d -> %d at timestamp %d but issued the mint requests of only %d epochs: epoch %d was consumed without being rewarded and can never be rewarded again", P.cursor, N.cursor, ackTs, issued, e)
				}
			}
			if issued > k {
				r.fail("once: liquidity Update issued rewards for %d epochs but moved the cursor by %d", issued, k)
			}
		case variant == "liqone":
			if k == 1 {
				nz, nq := new(big.Int), new(big.Int)
				for _, d := range blk.DescendantBlocks {
					if m := rnDecodeMint(d); m != nil && m.ReceiveAddress == types.LiquidityContract {
						if m.TokenStandard == types.ZnnTokenStandard {
							nz.Add(nz, m.Amount)
						} else if m.TokenStandard == types.QsrTokenStandard {
							nq.Add(nq, m.Amount)
						}
						r.pendingMints[d.Hash] = rnMint{types.LiquidityContract, m.TokenStandard, m.Amount, "liquidity remainder"}
					} else if rnIsBurn(d) {
						c.Hit("liq-additional-reward-burned")
						if d.TokenStandard == types.ZnnTokenStandard {
							nz.Sub(nz, d.Amount)
						} else if d.TokenStandard == types.QsrTokenStandard {
							nq.Sub(nq, d.Amount)
						}
					} else {
						r.fail("post-spork liquidity Update emitted a descendant that is neither a mint to the contract nor a burn: to %s", addrName(d.ToAddress))
					}
				}
				liqMint[N.cursor] = lmint{nz, nq}
			} else if len(blk.DescendantBlocks) != 0 {
				r.fail("post-spork liquidity Update emitted %d descendant blocks without moving the cursor", len(blk.DescendantBlocks))
			}
		}
	} else if !isCollect && methodErr == nil {
		// no other successful method of these contracts may request mints
		for _, d := range blk.DescendantBlocks {
			if m := rnDecodeMint(d); m != nil {
				r.fail("method %s of the %s contract requested a mint of %s %s", method, cn, amt(m.Amount), tokName(m.TokenStandard))
			}
		}
	}

	if isUpdate {
		obs := "err " + status
		if methodErr == nil {
			obs = fmt.Sprintf("ok %d %d", N.cursor, issued)
		}
		c.Emit("RN-update %s %s %d %d | %s", cn, variant, ack.Height, ackTs, obs)
	}

	// ---- MONITOR once: credits only for the epochs this very block moved the cursor over ---------------------------
	for _, cr := range credits {
		e := int64(cr.k.epoch)
		if cr.d.znn.Sign() < 0 || cr.d.qsr.Sign() < 0 {
			r.fail("once: the reward history of %s for epoch %d in the %s contract decreased by %s", addrName(cr.k.addr), e, cn, cr.d)
		}
		if !(e > P.cursor && e <= N.cursor) {
			r.fail("once: block %d of the %s contract (%s) credited %s (znn qsr) to %s for epoch %d, but it moved the epoch cursor %d -> %d: epoch %d %s", blk.Height, cn, method, cr.d, addrName(cr.k.addr), e, P.cursor, N.cursor, e,
				map[bool]string{true: "was already rewarded", false: "has not been reached"}[e <= P.cursor])
		}
		c.Emit("RN-credit %s %d %s %s | ok", cn, e, addrName(cr.k.addr), cr.d)
		r.credited++
	}
	if isUpdate && methodErr == nil && k > 0 {
		if pre != nil && C != types.PillarContract && C != types.LiquidityContract {
			r.amountsLine(C, pre, P.cursor+1, N)
		}
		if pre != nil {
			r.epochLines(C, pre, P, N, ack, blk, variant)
		}
		if C == types.PillarContract {
			for e := P.cursor + 1; e <= N.cursor; e++ {
				r.pillarPremises(e, ack)
				if pre != nil {
					r.pillarAmountsLine(pre, e, ack, N)
				}
			}
		}
	}
	// ---- MONITOR emission: totals of the epochs rewarded by this block ------------------------------------------
	for e := P.cursor + 1; e <= N.cursor; e++ {
		tot := rnZero()
		for hk, v := range N.hist {
			if int64(hk.epoch) == e {
				tot.znn.Add(tot.znn, v.znn)
				tot.qsr.Add(tot.qsr, v.qsr)
			}
		}
		mz, mq := big.NewInt(0), big.NewInt(0)
		if lm, ok := liqMint[e]; ok {
			mz, mq = lm.z, lm.q
			tot.znn.Add(tot.znn, mz)
			tot.qsr.Add(tot.qsr, mq)
		}
		bound := rnEmission(C, uint64(e))
		verdict := "within"
		if tot.znn.Cmp(bound.znn) > 0 || tot.qsr.Cmp(bound.qsr) > 0 {
			verdict = "exceeds"
			r.fail("emission: the %s contract credited %s ZNN and %s QSR for epoch %d, the emission of that epoch for this contract is %s ZNN and %s QSR", cn, tot.znn, tot.qsr, e, bound.znn, bound.qsr)
		}
		if tot.isZero() {
			c.Hit("epoch-" + cn + "-credited-nothing")
		} else {
			c.Hit("epoch-" + cn + "-credited")
			if tot.eq(bound) {
				c.Hit("epoch-" + cn + "-credited-full-emission")
			}
		}
		c.Emit("RN-epoch %s %d %s %s | %s %s", cn, e, mz, mq, tot, verdict)
	}

	// ---- MONITOR deposits / collect --------------------------------------------------------------
	caller := send.Address
	var paid rnCoins = rnZero()
	if isCollect {
		if methodErr == nil {
			before := P.depOf(caller)
			mz, mq := new(big.Int), new(big.Int)
			for _, d := range blk.DescendantBlocks {
				m := rnDecodeMint(d)
				if m == nil {
					r.fail("collect: CollectReward of %s on the %s contract emitted a descendant that is not a mint request", addrName(caller), cn)
					continue
				}
				if m.ReceiveAddress != caller {
					r.fail("collect: CollectReward of %s on the %s contract mints to %s", addrName(caller), cn, addrName(m.ReceiveAddress))
				}
				if d.Amount.Sign() != 0 {
					r.fail("collect: mint request carries amount %s", amt(d.Amount))
				}
				switch m.TokenStandard {
				case types.ZnnTokenStandard:
					mz.Add(mz, m.Amount)
				case types.QsrTokenStandard:
					mq.Add(mq, m.Amount)
				default:
					r.fail("collect: mint of token %s", tokName(m.TokenStandard))
				}
				r.pendingMints[d.Hash] = rnMint{caller, m.TokenStandard, m.Amount, "collect on " + cn}
			}
			paid = rnCoins{mz, mq}
			if !paid.eq(before) {
				r.fail("collect: CollectReward of %s on the %s contract minted %s (znn qsr), the credited deposit was %s", addrName(caller), cn, paid, before)
			}
			if before.isZero() {
				r.fail("collect: CollectReward of %s on the %s contract succeeded with an empty deposit", addrName(caller), cn)
			}
			if !N.depOf(caller).isZero() {
				r.fail("collect: after a successful CollectReward of %s on the %s contract the deposit is still %s: it can be collected again", addrName(caller), cn, N.depOf(caller))
			}
			r.collectedOK++
			c.Hit("collect-paid")
			c.Emit("RN-collect %s %s | ok %s", cn, addrName(caller), paid)
		} else {
			if methodErr == constants.ErrNothingToWithdraw && !P.depOf(caller).isZero() {
				r.fail("collect: CollectReward of %s on the %s contract refused although the deposit is %s", addrName(caller), cn, P.depOf(caller))
			}
			if len(blk.DescendantBlocks) != 0 {
				r.fail("collect: failed CollectReward emitted %d descendant blocks", len(blk.DescendantBlocks))
			}
			c.Hit("collect-refused")
			c.Emit("RN-collect %s %s | err %s", cn, addrName(caller), status)
		}
	}
	for _, a := range daddrs {
		want := rnCoins{new(big.Int).Set(P.depOf(a).znn), new(big.Int).Set(P.depOf(a).qsr)}
		for _, cr := range credits {
			if cr.k.addr == a {
				want.znn.Add(want.znn, cr.d.znn)
				want.qsr.Add(want.qsr, cr.d.qsr)
			}
		}
		if isCollect && methodErr == nil && a == caller {
			want.znn.Sub(want.znn, paid.znn)
			want.qsr.Sub(want.qsr, paid.qsr)
		}
		got := N.depOf(a)
		if !got.eq(want) {
			r.fail("deposits: RewardDeposit of %s in the %s contract is %s after block %d (%s), expected %s = previous %s + credited history entries - collected", addrName(a), cn, got, blk.Height, method, want, P.depOf(a))
		}
		if !got.eq(P.depOf(a)) {
			c.Emit("RN-dep %s %s | %s", cn, addrName(a), got)
		}
	}
	r.st[C] = N
}

func (r *rnRun) liquidityVariant(send *nom.AccountBlock) string {
	store := r.n.Chain().GetFrontierMomentumStore()
	ctx := vm_context.NewAccountContext(store, r.n.Chain().GetFrontierAccountStore(types.LiquidityContract), nil)
	m, err := embedded.GetEmbeddedMethod(ctx, types.LiquidityContract, send.Data)
	if err != nil {
		return "none"
	}
	switch m.(type) {
	case *implementation.UpdateEmbeddedLiquidityMethod:
		return "liqorigin"
	case *implementation.UpdateRewardEmbeddedLiquidityMethod:
		return "liqone"
	}
	return "none"
}

// the token contract's answer to a mint request issued by CollectReward / liquidity Update
func (r *rnRun) observeTokenAnswer(blk *nom.AccountBlock, methodErr error) {
	pm, ok := r.pendingMints[blk.FromBlockHash]
	if !ok {
		return
	}
	delete(r.pendingMints, blk.FromBlockHash)
	if methodErr != nil {
		r.fail("collect: the token contract refused the mint request of %s %s to %s (%s): %v", amt(pm.amount), tokName(pm.tok), addrName(pm.to), pm.why, methodErr)
		return
	}
	if len(blk.DescendantBlocks) != 1 {
		r.fail("collect: the token contract answered the mint request (%s) with %d blocks", pm.why, len(blk.DescendantBlocks))
		return
	}
	d := blk.DescendantBlocks[0]
	if d.ToAddress != pm.to || d.TokenStandard != pm.tok || d.Amount.Cmp(pm.amount) != 0 {
		r.fail("collect: the token contract minted %s %s to %s for a request of %s %s to %s (%s)", amt(d.Amount), tokName(d.TokenStandard), addrName(d.ToAddress), amt(pm.amount), tokName(pm.tok), addrName(pm.to), pm.why)
	}
	r.c.Hit("mint-answered-exact")
}

// produce performs the steps of pillar/worker.go for the slot `gap` slots after the frontier: momentum by the elected
// pillar, auto-receive blocks for every contract, and (cfg.autoUpdate) the Update calls of worker_updater.go.
func (r *rnRun) produce(gap int64) bool {
	ch := r.n.Chain()
	var perr error
	if p := safely(func() {
		prev, err := ch.GetFrontierMomentumStore().GetFrontierMomentum()
		if err != nil {
			perr = err
			return
		}
		tsec := int64(prev.TimestampUnix) + constants.ConsensusConfig.BlockTime*gap
		exp, err := r.n.Z.Consensus().GetMomentumProducer(time.Unix(tsec, 0))
		if err != nil || exp == nil {
			perr = fmt.Errorf("GetMomentumProducer(%d): %v", tsec, err)
			return
		}
		K := keyOf(*exp)
		if K == nil {
			perr = fmt.Errorf("no key for the elected producer %v", exp)
			return
		}
		insert := ch.AcquireInsert("zvh rewards-node momentum")
		blocks := ch.GetNewMomentumContent()
		m := &nom.Momentum{ChainIdentifier: ch.ChainIdentifier(), PreviousHash: prev.Hash, Height: prev.Height + 1,
			TimestampUnix: uint64(tsec), Content: nom.NewMomentumContent(blocks), Version: 1}
		m.EnsureCache()
		tx, err := r.n.Sup.GenerateMomentum(&nom.DetailedMomentum{Momentum: m, AccountBlocks: blocks}, K.Signer)
		if err != nil {
			insert.Unlock()
			perr = fmt.Errorf("GenerateMomentum: %v", err)
			return
		}
		err = ch.AddMomentumTransaction(insert, tx)
		insert.Unlock()
		if err != nil {
			perr = fmt.Errorf("AddMomentumTransaction: %v", err)
			return
		}
		if gap > 1 {
			r.c.HitN("slots-missed", int(gap-1))
		}
		r.c.Hit("momentum")
		// the contract blocks observed in the pool get confirmed unchanged (a momentum may leave some for the next one)
		for _, b := range blocks {
			delete(r.observed, b.Hash)
		}
		r.afterMomentum(tx.Momentum)
		// auto-receive, as worker.work
		store := ch.GetFrontierMomentumStore()
		frontier, _ := store.GetFrontierMomentum()
		for {
			one := false
			for _, ca := range types.EmbeddedContracts {
				ins := ch.AcquireInsert("zvh rewards-node autoreceive")
				as := ch.GetFrontierAccountStore(ca)
				hd := as.SequencerFront(store.GetAccountMailbox(ca))
				if hd == nil {
					ins.Unlock()
					continue
				}
				send, err := store.GetAccountBlock(*hd)
				if err != nil || send == nil {
					ins.Unlock()
					perr = fmt.Errorf("sequencer entry without block: %v", err)
					return
				}
				pre := r.preSnapshot(ca, send)
				res, err := r.n.Sup.GenerateAutoReceive(send)
				if err != nil || res.Transaction == nil {
					ins.Unlock()
					perr = fmt.Errorf("GenerateAutoReceive(%s): %v", addrName(ca), err)
					return
				}
				err = ch.AddAccountBlockTransaction(ins, res.Transaction)
				ins.Unlock()
				if err != nil {
					perr = fmt.Errorf("inserting the receive block of %s: %v", addrName(ca), err)
					return
				}
				r.observeBlock(res.Transaction, res.ReturnedError, send, frontier, pre)
				one = true
			}
			if !one {
				break
			}
		}
		// Update calls by the producing pillar, as worker.updateContracts
		if r.cfg.autoUpdate && !r.quiet {
			for _, ca := range types.EmbeddedWUpdate {
				ctx := vm_context.NewAccountContext(store, ch.GetFrontierAccountStore(ca), nil)
				if implementation.CanPerformUpdate(ctx) == nil {
					if _, err := r.n.Submit(&nom.AccountBlock{BlockType: nom.BlockTypeUserSend, Address: K.Address, ToAddress: ca,
						Data: definition.ABICommon.PackMethodPanic(definition.UpdateMethodName)}); err == nil {
						r.c.Hit("auto-update-sent")
					}
				}
			}
		}
	}); p != "" {
		perr = fmt.Errorf("panic: %s", p)
	}
	if perr != nil {
		r.fail("momentum production failed: %v", perr)
		return false
	}
	return !r.failed
}

// afterMomentum: when every observed pool block is confirmed, the confirmed state of every contract equals the state
// tracked block by block
func (r *rnRun) afterMomentum(m *nom.Momentum) {
	store := r.n.Chain().GetFrontierMomentumStore()
	for _, ca := range rnContracts {
		T := r.st[ca]
		if len(r.observed) == 0 {
			st, err := rnReadState(store.GetAccountStore(ca).Storage())
			if err != nil {
				r.fail("cannot read the confirmed storage of %s: %v", rnCName(ca), err)
				continue
			}
			if st.cursor != T.cursor || len(st.dep) != len(T.dep) || len(st.hist) != len(T.hist) {
				r.fail("the confirmed state of the %s contract at momentum %d (cursor %d, %d deposits, %d history entries) differs from the state after its pooled blocks (cursor %d, %d, %d)", rnCName(ca), m.Height, st.cursor, len(st.dep), len(st.hist), T.cursor, len(T.dep), len(T.hist))
			}
			r.c.Hit("confirmed-state-compared")
		} else {
			r.c.Hit("pool-carry-over")
		}
		if r.touched[ca] {
			r.c.Emit("RN-cursor %s | %d", rnCName(ca), T.cursor)
		}
	}
	r.touched = map[types.Address]bool{}
}

// setupLiquidityStaking (bridge&liquidity regime): guardians, two issued tokens spread over three users, a reward tuple
// per token — the steps of vm/embedded/tests/z_liquidity_test.go, with the mock's own producer, before tracking starts.
func (r *rnRun) setupLiquidityStaking() error {
	n := r.n
	mom := func(k int) error {
		for i := 0; i < k; i++ {
			if _, err := n.Momentum(); err != nil {
				return err
			}
		}
		return nil
	}
	send := func(from, to types.Address, tok types.ZenonTokenStandard, amount *big.Int, data []byte) error {
		if amount == nil {
			amount = big.NewInt(0)
		}
		_, err := n.Submit(&nom.AccountBlock{BlockType: nom.BlockTypeUserSend, Address: from, ToAddress: to, TokenStandard: tok, Amount: amount, Data: data})
		return err
	}
	receiveAll := func(who types.Address) {
		hs, _ := n.Chain().GetFrontierMomentumStore().GetAccountMailbox(who).GetUnreceivedAccountBlockHashes(20)
		for _, h := range hs {
			n.Submit(&nom.AccountBlock{BlockType: nom.BlockTypeUserReceive, Address: who, FromBlockHash: h})
		}
	}
	admin := g.User5.Address
	guardians := []types.Address{g.User1.Address, g.User2.Address, g.User3.Address, g.User4.Address}
	nominate := definition.ABILiquidity.PackMethodPanic(definition.NominateGuardiansMethodName, guardians)
	if err := send(admin, types.LiquidityContract, types.ZnnTokenStandard, nil, nominate); err != nil {
		return err
	}
	if err := mom(int(constants.MinAdministratorDelay) + 4); err != nil {
		return err
	}
	if err := send(admin, types.LiquidityContract, types.ZnnTokenStandard, nil, nominate); err != nil {
		return err
	}
	for i, nm := range []string{"LIQA", "LIQB"} {
		if err := send(g.User1.Address, types.TokenContract, types.ZnnTokenStandard, new(big.Int).Set(constants.TokenIssueAmount),
			definition.ABIToken.PackMethodPanic(definition.IssueMethodName, fmt.Sprintf("liquidity-token-%d", i), nm, "", big.NewInt(100*g.Zexp), big.NewInt(1000*g.Zexp), uint8(6), true, true, false)); err != nil {
			return err
		}
	}
	if err := mom(3); err != nil {
		return err
	}
	receiveAll(g.User1.Address)
	if err := mom(2); err != nil {
		return err
	}
	bm, err := n.Chain().GetFrontierMomentumStore().GetAccountStore(g.User1.Address).GetBalanceMap()
	if err != nil {
		return err
	}
	var toks []types.ZenonTokenStandard
	for t := range bm {
		if t != types.ZnnTokenStandard && t != types.QsrTokenStandard && bm[t].Sign() > 0 {
			toks = append(toks, t)
		}
	}
	sort.Slice(toks, func(i, j int) bool { return string(toks[i][:]) < string(toks[j][:]) })
	if len(toks) != 2 {
		return fmt.Errorf("expected two issued tokens, found %d", len(toks))
	}
	for _, t := range toks {
		for _, u := range []types.Address{g.User2.Address, g.User3.Address} {
			if err := send(g.User1.Address, u, t, big.NewInt(25*g.Zexp), nil); err != nil {
				return err
			}
		}
	}
	if err := mom(2); err != nil {
		return err
	}
	receiveAll(g.User2.Address)
	receiveAll(g.User3.Address)
	pz := uint32(1000 + 1000*r.c.R.Intn(8))
	pq := uint32(1000 + 1000*r.c.R.Intn(8))
	tuple := definition.ABILiquidity.PackMethodPanic(definition.SetTokenTupleMethodName, []string{toks[0].String(), toks[1].String()},
		[]uint32{pz, 10000 - pz}, []uint32{pq, 10000 - pq}, []*big.Int{big.NewInt(1000), big.NewInt(2000)})
	if err := send(admin, types.LiquidityContract, types.ZnnTokenStandard, nil, tuple); err != nil {
		return err
	}
	if err := mom(int(constants.MinSoftDelay) + 4); err != nil {
		return err
	}
	if err := send(admin, types.LiquidityContract, types.ZnnTokenStandard, nil, tuple); err != nil {
		return err
	}
	if err := mom(4); err != nil {
		return err
	}
	info, err := definition.GetLiquidityInfo(n.Chain().GetFrontierAccountStore(types.LiquidityContract).Storage())
	if err != nil {
		return err
	}
	if len(info.TokenTuples) != 2 {
		return fmt.Errorf("token tuples were not set (%d)", len(info.TokenTuples))
	}
	r.liqTokens = toks
	return nil
}

func init() {
	register("rewards-node", func(c *Ctx) {
		for i := 0; i < c.N; i++ {
			rewardsNodeHistory(c, i)
		}
	})
}

func rnPickCfg(c *Ctx, id int) rnCfg {
	cfg := rnCfg{kind: "normal"}
	if v := c.Args["kind"]; v != "" {
		cfg.kind = v
	} else if id%4 == 3 {
		cfg.kind = "lag"
	}
	switch c.Args["regime"] {
	case "origin", "accel", "bridge":
		cfg.regime = c.Args["regime"]
	default:
		cfg.regime = []string{"origin", "bridge", "accel", "origin"}[(id/2)%4]
		if cfg.kind == "lag" {
			cfg.regime = []string{"origin", "bridge"}[(id/4)%2]
		}
	}
	if cfg.kind == "lag" {
		// nobody calls Update for more than MaxEpochsPerUpdate/2 epochs
		// (an epoch of exactly one election tick, 300 s, makes consensus.points.InsertMomentum ask for epoch 2^64-1 and panic)
		cfg.epochSec = 600
		cfg.rtl = []int64{0, 0, 50}[c.R.Intn(3)]
		cfg.updMin = uint64(600 + 20*c.R.Intn(12))
		cfg.autoUpdate = true
		cfg.epochs = 0 // runs until the first update happened, plus a little
	} else {
		cfg.epochSec = []int64{600, 600, 900, 1200}[c.R.Intn(4)]
		cfg.rtl = []int64{0, 0, 10, 75, 300, 640}[c.R.Intn(6)]
		cfg.updMin = uint64([]int{1, 3, 7, 15, 30, 45}[c.R.Intn(6)])
		cfg.autoUpdate = c.R.Intn(3) != 0
		cfg.epochs = 3 + c.R.Intn(4)
		if cfg.epochSec >= 900 {
			cfg.epochs = 3 + c.R.Intn(2)
		}
		if id%4 == 1 && c.Args["churn"] != "0" {
			// 3-4 election ticks per epoch, so that a pillar can be part of some finished ticks of an epoch and absent from later ones
			cfg.churn = true
			cfg.epochSec = []int64{1200, 900}[(id/4)%2]
			cfg.epochs = 3
		}
	}
	cfg.mpe = cfg.epochSec / constants.ConsensusConfig.BlockTime
	return cfg
}

func rewardsNodeHistory(c *Ctx, id int) {
	saved := rnSaveGlobals()
	defer saved.restore()
	cfg := rnPickCfg(c, id)
	verifier.ReceiverMismatchEnforcementHeight = 0
	constants.RewardTimeLimit = cfg.rtl
	constants.MomentumsPerEpoch = cfg.mpe
	constants.StakeTimeUnitSec = 100
	constants.StakeTimeMinSec = 100
	constants.StakeTimeMaxSec = 1200
	constants.SentinelLockTimeWindow = 200
	constants.SentinelRevokeTimeWindow = 150
	// a pillar may be revoked 200 s after its registration for 400 s, and so on (production: 83 + 7 days)
	constants.PillarEpochLockTime = 200
	constants.PillarEpochRevokeTime = 400
	constants.InitialBridgeAdministrator = g.User5.Address
	constants.MinGuardians = 4
	constants.MinAdministratorDelay = 6
	constants.MinSoftDelay = 4
	// sporks are activated with the mock's own producer; keep it from sending Update calls meanwhile
	constants.UpdateMinNumMomentums = 1 << 40

	n, restoreEpoch := NewNodeWithEpoch(time.Duration(cfg.epochSec) * time.Second)
	defer restoreEpoch()
	defer n.Stop()
	r := &rnRun{c: c, n: n, id: id, cfg: cfg, st: map[types.Address]*rnState{}, observed: map[types.Hash]bool{},
		pendingMints: map[types.Hash]rnMint{}, stakes: map[types.Address][]types.Hash{}, touched: map[types.Address]bool{}, liqStakes: map[types.Address][]types.Hash{}}
	r.genesis = n.Chain().GetGenesisMomentum().Timestamp.Unix()
	c.Hit("history-" + cfg.kind + "-" + cfg.regime)

	switch cfg.regime {
	case "accel", "bridge":
		if err := n.ActivateSpork(types.AcceleratorSpork, "spork-accelerator"); err != nil {
			r.fail("spork activation: %v", err)
			return
		}
		if cfg.regime == "bridge" {
			if err := n.ActivateSpork(types.BridgeAndLiquiditySpork, "spork-bridge"); err != nil {
				r.fail("spork activation: %v", err)
				return
			}
		}
		// let the enforcement height pass and the pool drain
		for i := 0; i < 8; i++ {
			if _, err := n.Momentum(); err != nil {
				r.fail("momentum: %v", err)
				return
			}
		}
		if cfg.regime == "bridge" && cfg.kind == "normal" {
			if err := r.setupLiquidityStaking(); err != nil {
				r.fail("liquidity staking setup: %v", err)
				return
			}
			if len(r.liqTokens) > 0 {
				c.Hit("history-with-liquidity-staking")
			}
		}
	}
	constants.UpdateMinNumMomentums = cfg.updMin

	c.Emit("RN-reset %d %d %d %d %d", r.genesis, cfg.epochSec, cfg.rtl, cfg.updMin, cfg.mpe)
	for _, ca := range rnContracts {
		st, err := rnReadState(n.Chain().GetFrontierAccountStore(ca).Storage())
		if err != nil {
			r.fail("cannot read the initial state of %s: %v", rnCName(ca), err)
			return
		}
		r.st[ca] = st
		c.Emit("RN-init %s %d %d", rnCName(ca), st.cursor, st.lastUpdate)
	}

	users := []types.Address{g.User1.Address, g.User2.Address, g.User3.Address, g.User4.Address, g.User5.Address}
	rich := []types.Address{g.User1.Address, g.User2.Address, g.Pillar4.Address, g.Pillar5.Address, g.Pillar6.Address}
	actors := append(append([]types.Address{}, users...), g.Pillar1.Address, g.Pillar2.Address, g.Pillar3.Address, g.Pillar4.Address, g.Pillar5.Address, g.Pillar6.Address)
	pillarNames := []string{g.Pillar1Name, g.Pillar2Name, g.Pillar3Name}
	pillarOwner := map[string]types.Address{g.Pillar1Name: g.Pillar1.Address, g.Pillar2Name: g.Pillar2.Address, g.Pillar3Name: g.Pillar3.Address}
	newPillarTried := false

	submit := func(kind string, tpl *nom.AccountBlock) *nom.AccountBlock {
		b, err := n.Submit(tpl)
		if err != nil {
			c.Hit("send-rejected-" + kind)
			return nil
		}
		c.Hit("send-" + kind)
		return b
	}
	call := func(kind string, from, to types.Address, tok types.ZenonTokenStandard, amount *big.Int, data []byte) *nom.AccountBlock {
		if amount == nil {
			amount = big.NewInt(0)
		}
		return submit(kind, &nom.AccountBlock{BlockType: nom.BlockTypeUserSend, Address: from, ToAddress: to, TokenStandard: tok, Amount: amount, Data: data})
	}
	znn := func(x int64) *big.Int { return new(big.Int).Mul(big.NewInt(x), big.NewInt(g.Zexp)) }
	pick := func(l []types.Address) types.Address { return l[c.R.Intn(len(l))] }

	registerLate := func() {
		if !newPillarTried {
			newPillarTried = true
			from := g.Pillar7.Address
			call("pillar-deposit", from, types.PillarContract, types.QsrTokenStandard, znn(200000), definition.ABIPillars.PackMethodPanic(definition.DepositQsrMethodName))
			call("pillar-register", from, types.PillarContract, types.ZnnTokenStandard, new(big.Int).Set(constants.PillarStakeAmount), definition.ABIPillars.PackMethodPanic(definition.RegisterMethodName,
				"TEST-pillar-late", g.Pillar7.Address, g.Pillar7.Address, uint8(c.R.Intn(101)), uint8(c.R.Intn(101))))
			pillarNames = append(pillarNames, "TEST-pillar-late")
			pillarOwner["TEST-pillar-late"] = g.Pillar7.Address
		}
	}
	action := func() {
		x := c.R.Intn(100)
		switch {
		case x < 14: // stake
			from := pick(actors)
			dur := int64(1+c.R.Intn(4)) * constants.StakeTimeUnitSec
			if b := call("stake", from, types.StakeContract, types.ZnnTokenStandard, znn(int64(1+c.R.Intn(40))), definition.ABIStake.PackMethodPanic(definition.StakeMethodName, dur)); b != nil {
				r.stakes[from] = append(r.stakes[from], b.Hash)
			}
		case x < 24: // cancel a stake (due or not)
			from := pick(actors)
			if l := r.stakes[from]; len(l) > 0 {
				call("stake-cancel", from, types.StakeContract, types.ZnnTokenStandard, nil, definition.ABIStake.PackMethodPanic(definition.CancelStakeMethodName, l[c.R.Intn(len(l))]))
			}
		case x < 32: // sentinel: deposit + register
			from := pick(rich)
			call("sentinel-deposit", from, types.SentinelContract, types.QsrTokenStandard, new(big.Int).Set(constants.SentinelQsrDepositAmount), definition.ABISentinel.PackMethodPanic(definition.DepositQsrMethodName))
			call("sentinel-register", from, types.SentinelContract, types.ZnnTokenStandard, new(big.Int).Set(constants.SentinelZnnRegisterAmount), definition.ABISentinel.PackMethodPanic(definition.RegisterSentinelMethodName))
		case x < 38: // sentinel revoke
			call("sentinel-revoke", pick(rich), types.SentinelContract, types.ZnnTokenStandard, nil, definition.ABISentinel.PackMethodPanic(definition.RevokeSentinelMethodName))
		case x < 48: // delegate / undelegate
			from := pick(actors)
			if c.R.Intn(4) == 0 {
				call("undelegate", from, types.PillarContract, types.ZnnTokenStandard, nil, definition.ABIPillars.PackMethodPanic(definition.UndelegateMethodName))
			} else {
				call("delegate", from, types.PillarContract, types.ZnnTokenStandard, nil, definition.ABIPillars.PackMethodPanic(definition.DelegateMethodName, pillarNames[c.R.Intn(len(pillarNames))]))
			}
		case x < 56: // balances (delegation weights) change
			from, to := pick(users), pick(users)
			bal, _ := n.Chain().GetFrontierAccountStore(from).GetBalance(types.ZnnTokenStandard)
			if bal != nil && bal.Sign() > 0 {
				a := new(big.Int).Rand(c.R, bal)
				a.Div(a, big.NewInt(int64(2+c.R.Intn(6))))
				call("transfer", from, to, types.ZnnTokenStandard, a, nil)
			}
		case x < 61: // receive something pending
			who := pick(actors)
			hs, _ := n.Chain().GetFrontierMomentumStore().GetAccountMailbox(who).GetUnreceivedAccountBlockHashes(5)
			for _, h := range hs {
				submit("receive", &nom.AccountBlock{BlockType: nom.BlockTypeUserReceive, Address: who, FromBlockHash: h})
			}
		case x < 66: // a pillar changes its percentages / reward address
			name := pillarNames[c.R.Intn(len(pillarNames))]
			owner := pillarOwner[name]
			info, err := definition.GetPillarInfo(n.Chain().GetFrontierAccountStore(types.PillarContract).Storage(), name)
			if err == nil {
				rew := info.RewardWithdrawAddress
				if c.R.Intn(3) == 0 {
					rew = pick(actors)
				}
				call("pillar-update", owner, types.PillarContract, types.ZnnTokenStandard, nil, definition.ABIPillars.PackMethodPanic(definition.UpdatePillarMethodName,
					name, info.BlockProducingAddress, rew, uint8(c.R.Intn(101)), uint8(c.R.Intn(101))))
			}
		case x < 69: // a new pillar enters mid-epoch
			registerLate()
		case x < 75 && len(r.liqTokens) > 0: // liquidity staking (bridge regime): stake, cancel, additional reward
			from := []types.Address{g.User1.Address, g.User2.Address, g.User3.Address}[c.R.Intn(3)]
			switch c.R.Intn(5) {
			case 0, 1:
				tok := r.liqTokens[c.R.Intn(len(r.liqTokens))]
				dur := int64(1+c.R.Intn(6)) * constants.StakeTimeUnitSec
				if b := call("liq-stake", from, types.LiquidityContract, tok, big.NewInt(int64(2000+c.R.Intn(5000000))), definition.ABILiquidity.PackMethodPanic(definition.LiquidityStakeMethodName, dur)); b != nil {
					r.liqStakes[from] = append(r.liqStakes[from], b.Hash)
				}
			case 2:
				if l := r.liqStakes[from]; len(l) > 0 {
					call("liq-cancel", from, types.LiquidityContract, types.ZnnTokenStandard, nil, definition.ABILiquidity.PackMethodPanic(definition.CancelLiquidityStakeMethodName, l[c.R.Intn(len(l))]))
				}
			default:
				// two calls with the same parameters, a soft delay apart, set the additional reward paid out of the contract's own balance
				k := int64(c.R.Intn(3))
				call("liq-additional-reward", g.User5.Address, types.LiquidityContract, types.ZnnTokenStandard, nil, definition.ABILiquidity.PackMethodPanic(definition.SetAdditionalRewardMethodName,
					znn(10*k), znn(100*k)))
			}
		case x < 77 && newPillarTried && !cfg.churn: // the late pillar leaves again (only inside its revoke window; otherwise the call fails)
			call("pillar-revoke", g.Pillar7.Address, types.PillarContract, types.ZnnTokenStandard, nil, definition.ABIPillars.PackMethodPanic(definition.RevokeMethodName, "TEST-pillar-late"))
		case x < 81: // anyone may call Update
			ca := rnContracts[c.R.Intn(len(rnContracts))]
			call("update-"+rnCName(ca), pick(actors), ca, types.ZnnTokenStandard, nil, definition.ABICommon.PackMethodPanic(definition.UpdateMethodName))
		default: // CollectReward: accounts with and without deposit, sometimes twice in a row
			ca := rnContracts[c.R.Intn(len(rnContracts))]
			who := pick(actors)
			if c.R.Intn(3) != 0 {
				// prefer an account that has something to collect
				var have []types.Address
				for a, v := range r.st[ca].dep {
					if !v.isZero() && keyOf(a) != nil {
						have = append(have, a)
					}
				}
				sort.Slice(have, func(i, j int) bool { return string(have[i][:]) < string(have[j][:]) })
				if len(have) > 0 {
					who = have[c.R.Intn(len(have))]
				}
			}
			call("collect-"+rnCName(ca), who, ca, types.ZnnTokenStandard, nil, definition.ABICommon.PackMethodPanic(definition.CollectRewardMethodName))
			if c.R.Intn(2) == 0 {
				call("collect-again-"+rnCName(ca), who, ca, types.ZnnTokenStandard, nil, definition.ABICommon.PackMethodPanic(definition.CollectRewardMethodName))
			}
		}
	}

	startTs := int64(0)
	if m, err := n.Chain().GetFrontierMomentumStore().GetFrontierMomentum(); err == nil {
		startTs = m.Timestamp.Unix()
	}
	frontierTs := func() int64 {
		m, _ := n.Chain().GetFrontierMomentumStore().GetFrontierMomentum()
		return m.Timestamp.Unix()
	}
	gapOf := func() int64 {
		if c.R.Intn(7) == 0 {
			return int64(2 + c.R.Intn(3))
		}
		return 1
	}
	switch cfg.kind {
	case "lag":
		// quiet chain (a few stakes and delegations at the start) until the pillars' first Update is allowed, then one more epoch
		target := int64(cfg.updMin) + 2 + int64(cfg.epochSec/10) + int64(c.R.Intn(20))
		for i := 0; !r.failed && int64(n.Height()) < target; i++ {
			if i < 40 && c.R.Intn(3) == 0 {
				action()
			} else if i >= 40 && c.R.Intn(25) == 0 {
				action()
			}
			if !r.produce(gapOf()) {
				break
			}
		}
	default:
		endTs := startTs + int64(cfg.epochs)*cfg.epochSec + cfg.rtl + 20
		tickSec := constants.ConsensusConfig.BlockTime * int64(constants.ConsensusConfig.NodeCount)
		ticksPerEpoch := cfg.epochSec / tickSec
		lateRevoked, regTick := false, int64(-1)
		if cfg.churn {
			registerLate()
			regTick = (frontierTs() - r.genesis) / tickSec
		}
		for !r.failed && frontierTs() < endTs {
			for k := c.R.Intn(3); k > 0; k-- {
				action()
			}
			if cfg.churn && !lateRevoked {
				// directed: the late pillar is part of the elections (two ticks after its registration); it is revoked in the first
				// tick of an epoch, so it is part of the first two ticks of that epoch and absent from the rest
				tick := (frontierTs() - r.genesis) / tickSec
				if tick >= regTick+3 && tick%ticksPerEpoch == 0 && n.Height()%3 == 0 {
					if info, err := definition.GetPillarInfo(n.Chain().GetFrontierAccountStore(types.PillarContract).Storage(), "TEST-pillar-late"); err == nil {
						fm, _ := n.Chain().GetFrontierMomentumStore().GetFrontierMomentum()
						if info.RevokeTime != 0 {
							lateRevoked = true
							c.Hit("late-pillar-revoked-at-epoch-start")
						} else if ok, _ := implementation.PillarGetRevokeStatus(info, fm); ok {
							call("pillar-revoke-directed", g.Pillar7.Address, types.PillarContract, types.ZnnTokenStandard, nil, definition.ABIPillars.PackMethodPanic(definition.RevokeMethodName, "TEST-pillar-late"))
						}
					}
				}
			}
			if !r.produce(gapOf()) {
				break
			}
			// the node is asked for consensus statistics (as the RPC layer does for its clients), each answer is compared
			if c.Args["audit"] != "0" && c.R.Intn(map[bool]int{true: 3, false: 8}[cfg.churn]) == 0 {
				r.consensusAudit(1+c.R.Intn(3), c.R.Intn(4) == 0)
			}
		}
	}
	if r.failed {
		return
	}
	// final round: everybody collects twice, then two quiet momentums
	for _, ca := range rnContracts {
		for _, a := range actors {
			if !r.st[ca].depOf(a).isZero() && c.R.Intn(2) == 0 {
				call("collect-final-"+rnCName(ca), a, ca, types.ZnnTokenStandard, nil, definition.ABICommon.PackMethodPanic(definition.CollectRewardMethodName))
				call("collect-final-again-"+rnCName(ca), a, ca, types.ZnnTokenStandard, nil, definition.ABICommon.PackMethodPanic(definition.CollectRewardMethodName))
			}
		}
	}
	r.quiet = true
	for i := 0; i < 4 && !r.failed; i++ {
		r.produce(1)
	}
	if r.failed {
		return
	}
	if len(r.observed) != 0 {
		r.fail("%d pooled contract blocks observed by the monitors were never confirmed", len(r.observed))
	}
	if len(r.pendingMints) != 0 {
		r.fail("collect: %d mint requests were never answered by the token contract", len(r.pendingMints))
	}
	c.HitN("credits", r.credited)
	c.Hit("history-complete")
	if c.Args["audit"] != "0" && c.Args["audit"] != "ask-only" {
		r.finalAudit()
		if r.failed {
			return
		}
	}
	r.followers()
}

// followers: the finished chain is fed to second nodes; they must accept every momentum and hold the same reward state.
func (r *rnRun) followers() {
	c := r.c
	aStore := r.n.Chain().GetFrontierMomentumStore()
	H := r.n.Height()
	var chainA []*nom.DetailedMomentum
	for h := uint64(2); h <= H; h++ {
		m, err := aStore.GetMomentumByHeight(h)
		if err != nil || m == nil {
			r.fail("producer has no momentum %d", h)
			return
		}
		dm, err := aStore.PrefetchMomentum(m)
		if err != nil {
			r.fail("prefetch %d: %v", h, err)
			return
		}
		chainA = append(chainA, dm)
	}
	type sched struct {
		name     string
		maxBatch int
		restart  int
	}
	scheds := []sched{{"one-by-one", 1, 0}, {"batches", 2 + c.R.Intn(60), 0}, {"big-batches+restart", 40 + c.R.Intn(200), 1}}
	if c.Args["followers"] == "0" {
		return
	}
	// keep the quick tier affordable: all three schedules on short chains, two on long ones
	if len(chainA) > 300 {
		scheds = scheds[1:]
	}
	for _, sc := range scheds {
		f, err := newZFollower("")
		if err != nil {
			r.fail("follower: %v", err)
			return
		}
		ok := func() bool {
			pos, batches := 0, 0
			for pos < len(chainA) {
				size := 1 + c.R.Intn(sc.maxBatch)
				if pos+size > len(chainA) {
					size = len(chainA) - pos
				}
				idx, err := f.InsertChain(chainA[pos : pos+size])
				if err != nil {
					bad := chainA[pos : pos+size][maxInt(idx, 0)].Momentum
					r.fail("same-on-all-nodes: follower (%s) refuses the producer's momentum %d (%d account blocks): index=%d err=%v", sc.name, bad.Height, len(bad.Content), idx, err)
					return false
				}
				pos += size
				batches++
				c.Hit("follower-batch")
				if sc.name == "batches" && c.Args["audit"] != "0" && c.R.Intn(3) == 0 {
					// this follower is asked for statistics while it syncs (the other followers never are)
					safely(func() {
						fm, err := f.ch.GetFrontierMomentumStore().GetFrontierMomentum()
						if err != nil {
							return
						}
						e := (fm.Timestamp.Unix() - r.genesis) / r.cfg.epochSec
						rd := f.cons.FrontierPillarReader()
						for k := 1 + c.R.Intn(3); k > 0; k-- {
							rd.EpochStats(uint64(e))
						}
						if e > 0 {
							rd.EpochStats(uint64(e - 1))
						}
						rd.GetPillarWeights()
						c.Hit("follower-asked-while-syncing")
					})
				}
				if sc.restart > 0 && batches%sc.restart == 0 && pos < len(chainA) {
					if err := f.Restart(); err != nil {
						r.fail("follower restart: %v", err)
						return false
					}
					c.Hit("follower-restart")
				}
			}
			return true
		}()
		if ok {
			fs := f.ch.GetFrontierMomentumStore()
			for _, ca := range rnContracts {
				A := r.st[ca]
				B, err := rnReadState(fs.GetAccountStore(ca).Storage())
				if err != nil {
					r.fail("same-on-all-nodes: cannot read follower storage of %s: %v", rnCName(ca), err)
					continue
				}
				if A.cursor != B.cursor {
					r.fail("same-on-all-nodes: LastEpochUpdate of %s is %d on the producer and %d on the follower (%s)", rnCName(ca), A.cursor, B.cursor, sc.name)
				}
				ds := map[types.Address]bool{}
				for a := range A.dep {
					ds[a] = true
				}
				for a := range B.dep {
					ds[a] = true
				}
				for _, a := range rnSortedAddrs(ds) {
					if !A.depOf(a).eq(B.depOf(a)) {
						r.fail("same-on-all-nodes: RewardDeposit of %s in %s is %s on the producer and %s on the follower (%s)", addrName(a), rnCName(ca), A.depOf(a), B.depOf(a), sc.name)
					}
					c.Hit("follower-deposit-compared")
				}
				hs := map[rnHistKey]bool{}
				for k := range A.hist {
					hs[k] = true
				}
				for k := range B.hist {
					hs[k] = true
				}
				hl := make([]rnHistKey, 0, len(hs))
				for k := range hs {
					hl = append(hl, k)
				}
				sort.Slice(hl, func(i, j int) bool {
					if hl[i].epoch != hl[j].epoch {
						return hl[i].epoch < hl[j].epoch
					}
					return string(hl[i].addr[:]) < string(hl[j].addr[:])
				})
				for _, k := range hl {
					if !A.histOf(k).eq(B.histOf(k)) {
						r.fail("same-on-all-nodes: RewardDepositHistory of %s for epoch %d in %s is %s on the producer and %s on the follower (%s)", addrName(k.addr), k.epoch, rnCName(ca), A.histOf(k), B.histOf(k), sc.name)
					}
					c.Hit("follower-history-compared")
				}
			}
			c.Hit("follower-" + sc.name + "-synced")
		}
		f.Destroy()
		if !ok {
			return
		}
	}
}
