package main

import (
	"bytes"
	"fmt"
	"go/ast"
	"go/parser"
	"go/printer"
	"go/token"
	"os"
	"path/filepath"
	"strings"
)

// DbErr: AST scan of chain/account and chain/account/mailbox (the per-account store and the inbox of an account) for
// every place that READS the database, together with the shape in which the error of the read is handled.
//
// A read site is
//   - a call (or a method value) whose selector is a read method of the interface common/db.DB: Get, Has, NewIterator, Changes;
//   - a call of a package-level function of common/db that takes a DB and returns more than a bare error
//     (GetEntryByHash, GetEntryByHeight, GetFrontierIdentifier, GetIdentifierByHash, DisableNotFound, ...);
//   - a call, on the receiver of the calling method or as a plain function, of a function of the scanned package itself that
//     returns an error as its last result and (transitively) contains a read site (Frontier, ByHeight, GetChainPlasma, ...);
//   - every function of the scanned packages with a parameter of type error (parseAccountBlock(data, err)): the read is made
//     by the caller, the error is judged there.
//
// Per site: (file:function:callee, how the results are bound, the name bound to the error result, handling tokens).
// The error binding is the identifier at the position of the callee's error result ("_" = discarded), "" when the callee
// has no error result, "<returned>" / "<arg:f>" when the results are handed on as they are, "<dropped>" for a call
// statement, "<expr>" inside a larger expression, "<funcvalue>" for a method value.
// Handling tokens, in source order from the binding to the end of the variables' scope (re-assignment ends it):
// `if(<condition>){` ... `}` / `}else{` for every if statement whose condition mentions a bound variable, with every
// return / break / continue / goto / panic inside; `return <results>` for other returns that mention a bound variable;
// `use:<callee>` for every call that takes a bound variable as an argument or calls a method of it.
func init() {
	factGens = append(factGens, func(repo string) (*factFile, error) {
		dbFuncs, dbMeths, err := dbReadAPI(filepath.Join(repo, "common", "db"))
		if err != nil {
			return nil, err
		}
		var rows []string
		for _, pk := range []string{"chain/account", "chain/account/mailbox"} {
			r, err := dbReadSites(repo, pk, dbFuncs, dbMeths)
			if err != nil {
				return nil, err
			}
			rows = append(rows, r...)
		}
		if len(rows) == 0 {
			return nil, fmt.Errorf("dberr: no database read site found in chain/account")
		}
		f := newFactFile("DbErr")
		f.raw("-- chain/account, chain/account/mailbox: every database read with the handling of its error:\n")
		f.raw("-- (file:function:callee, binding of the results, name bound to the error result, handling tokens in source order)\n")
		f.raw("def accountDbReadSites : List (String × String × String × List String) := [\n%s\n]\n", strings.Join(rows, ",\n"))
		return f, nil
	})
}

// errPos: index of the error result of a callee (-1 = none), nres: number of results
type dbSig struct{ nres, errPos int }

func dbeSigOf(ft *ast.FuncType) dbSig {
	s := dbSig{0, -1}
	if ft.Results == nil {
		return s
	}
	for _, fld := range ft.Results.List {
		n := len(fld.Names)
		if n == 0 {
			n = 1
		}
		for i := 0; i < n; i++ {
			if id, ok := fld.Type.(*ast.Ident); ok && id.Name == "error" {
				s.errPos = s.nres
			}
			s.nres++
		}
	}
	return s
}

func dbeGoFiles(dir string) ([]string, error) {
	ents, err := os.ReadDir(dir)
	if err != nil {
		return nil, err
	}
	var out []string
	for _, e := range ents {
		name := e.Name()
		if e.IsDir() || !strings.HasSuffix(name, ".go") || strings.HasSuffix(name, "_test.go") || strings.HasSuffix(name, "_verif.go") || strings.HasSuffix(name, ".pb.go") {
			continue
		}
		out = append(out, name)
	}
	return out, nil
}

// dbReadAPI reads common/db: the read methods of interface DB and the package-level functions over a DB.
func dbReadAPI(dir string) (funcs, meths map[string]dbSig, err error) {
	funcs, meths = map[string]dbSig{}, map[string]dbSig{}
	names, err := dbeGoFiles(dir)
	if err != nil {
		return nil, nil, err
	}
	readMeth := map[string]bool{"Get": true, "Has": true, "NewIterator": true, "Changes": true}
	for _, name := range names {
		f, err := parser.ParseFile(token.NewFileSet(), filepath.Join(dir, name), nil, 0)
		if err != nil {
			return nil, nil, err
		}
		for _, d := range f.Decls {
			switch x := d.(type) {
			case *ast.GenDecl:
				for _, sp := range x.Specs {
					ts, ok := sp.(*ast.TypeSpec)
					if !ok || ts.Name.Name != "DB" {
						continue
					}
					it, ok := ts.Type.(*ast.InterfaceType)
					if !ok {
						continue
					}
					for _, m := range it.Methods.List {
						ft, ok := m.Type.(*ast.FuncType)
						if !ok || len(m.Names) != 1 || !readMeth[m.Names[0].Name] {
							continue
						}
						meths[m.Names[0].Name] = dbeSigOf(ft)
					}
				}
			case *ast.FuncDecl:
				if x.Recv != nil || !ast.IsExported(x.Name.Name) || x.Type.Params == nil {
					continue
				}
				takesDB := false
				for _, p := range x.Type.Params.List {
					if id, ok := p.Type.(*ast.Ident); ok && id.Name == "DB" {
						takesDB = true
					}
				}
				s := dbeSigOf(x.Type)
				if takesDB && s.nres > 0 && !(s.nres == 1 && s.errPos == 0) {
					funcs[x.Name.Name] = s
				}
			}
		}
	}
	for m := range readMeth {
		if _, ok := meths[m]; !ok {
			return nil, nil, fmt.Errorf("dberr: interface common/db.DB has no method %s", m)
		}
	}
	return funcs, meths, nil
}

func dbeStr(n ast.Node) string {
	var b bytes.Buffer
	_ = printer.Fprint(&b, token.NewFileSet(), n)
	return strings.Join(strings.Fields(b.String()), " ")
}

func dbeFuncName(fd *ast.FuncDecl) string {
	fn := fd.Name.Name
	if fd.Recv != nil && len(fd.Recv.List) > 0 {
		t := fd.Recv.List[0].Type
		if st, ok := t.(*ast.StarExpr); ok {
			t = st.X
		}
		if id, ok := t.(*ast.Ident); ok {
			fn = id.Name + "." + fn
		}
	}
	return fn
}

func dbeRecvName(fd *ast.FuncDecl) string {
	if fd.Recv != nil && len(fd.Recv.List) == 1 && len(fd.Recv.List[0].Names) == 1 {
		return fd.Recv.List[0].Names[0].Name
	}
	return ""
}

type dbScanner struct {
	dbPkg   string // local name of the import of common/db in the current file
	dbFuncs map[string]dbSig
	dbMeths map[string]dbSig
	local   map[string]dbSig // error-returning readers of the scanned package, by bare function name
	recv    string
}

// readCallee reports whether the selector / identifier e names a database read, and its signature.
func (sc *dbScanner) readCallee(e ast.Expr) (dbSig, bool) {
	switch x := e.(type) {
	case *ast.SelectorExpr:
		if id, ok := x.X.(*ast.Ident); ok && id.Obj == nil && id.Name == sc.dbPkg && sc.dbPkg != "" {
			s, ok := sc.dbFuncs[x.Sel.Name]
			return s, ok
		}
		if s, ok := sc.dbMeths[x.Sel.Name]; ok {
			return s, true
		}
		if id, ok := x.X.(*ast.Ident); ok && sc.recv != "" && id.Name == sc.recv {
			s, ok := sc.local[x.Sel.Name]
			return s, ok
		}
	case *ast.Ident:
		if x.Obj != nil {
			if _, isFunc := x.Obj.Decl.(*ast.FuncDecl); !isFunc {
				return dbSig{}, false
			}
		}
		s, ok := sc.local[x.Name]
		return s, ok
	}
	return dbSig{}, false
}

func dbReadSites(repo, pk string, dbFuncs, dbMeths map[string]dbSig) ([]string, error) {
	dir := filepath.Join(repo, pk)
	names, err := dbeGoFiles(dir)
	if err != nil {
		return nil, err
	}
	type pfile struct {
		name  string
		f     *ast.File
		dbPkg string
	}
	var files []pfile
	for _, name := range names {
		f, err := parser.ParseFile(token.NewFileSet(), filepath.Join(dir, name), nil, 0)
		if err != nil {
			return nil, err
		}
		pf := pfile{name: name, f: f}
		for _, im := range f.Imports {
			if strings.HasSuffix(strings.Trim(im.Path.Value, "\"`"), "/common/db") {
				pf.dbPkg = "db"
				if im.Name != nil {
					pf.dbPkg = im.Name.Name
				}
			}
		}
		files = append(files, pf)
	}
	// error-returning functions of the package that (transitively) read the database: fixpoint
	local := map[string]dbSig{}
	for changed := true; changed; {
		changed = false
		for _, pf := range files {
			for _, d := range pf.f.Decls {
				fd, ok := d.(*ast.FuncDecl)
				if !ok || fd.Body == nil {
					continue
				}
				s := dbeSigOf(fd.Type)
				if _, done := local[fd.Name.Name]; done || s.errPos < 0 {
					continue
				}
				sc := &dbScanner{pf.dbPkg, dbFuncs, dbMeths, local, dbeRecvName(fd)}
				reads := false
				selName := map[*ast.Ident]bool{}
				ast.Inspect(fd.Body, func(n ast.Node) bool {
					if se, ok := n.(*ast.SelectorExpr); ok {
						selName[se.Sel] = true
					}
					if id, ok := n.(*ast.Ident); ok && selName[id] {
						return true
					}
					if e, ok := n.(ast.Expr); ok && !reads {
						if _, ok := sc.readCallee(e); ok {
							reads = true
						}
					}
					return !reads
				})
				if reads {
					local[fd.Name.Name] = s
					changed = true
				}
			}
		}
	}
	var rows []string
	for _, pf := range files {
		for _, d := range pf.f.Decls {
			fd, ok := d.(*ast.FuncDecl)
			if !ok || fd.Body == nil {
				continue
			}
			sc := &dbScanner{pf.dbPkg, dbFuncs, dbMeths, local, dbeRecvName(fd)}
			where := fmt.Sprintf("%s/%s:%s", pk, pf.name, dbeFuncName(fd))
			// functions that are handed the error of a read made by their caller
			if fd.Type.Params != nil {
				var ps, tracked []string
				errName := ""
				for _, p := range fd.Type.Params.List {
					for _, n := range p.Names {
						ps = append(ps, n.Name+" "+dbeStr(p.Type))
						tracked = append(tracked, n.Name)
						if id, ok := p.Type.(*ast.Ident); ok && id.Name == "error" {
							errName = n.Name
						}
					}
				}
				if errName != "" {
					rows = append(rows, dbRow(where+":param", strings.Join(ps, ", "), errName, dbeHandling(fd.Body.List, tracked)))
				}
			}
			rows = append(rows, sc.sites(where, fd.Body)...)
		}
	}
	return rows, nil
}

func dbRow(site, binding, errName string, toks []string) string {
	q := make([]string, len(toks))
	for i, t := range toks {
		q[i] = fmt.Sprintf("%q", t)
	}
	return fmt.Sprintf("  (%q, %q, %q, [%s])", site, binding, errName, strings.Join(q, ", "))
}

// sites walks a function body with a parent stack and emits one row per read site.
func (sc *dbScanner) sites(where string, body *ast.BlockStmt) []string {
	var rows []string
	var stack []ast.Node
	selName := map[*ast.Ident]bool{} // the name part of a selector is judged with the selector, not on its own
	ast.Inspect(body, func(n ast.Node) bool {
		if n == nil {
			stack = stack[:len(stack)-1]
			return true
		}
		stack = append(stack, n)
		if se, ok := n.(*ast.SelectorExpr); ok {
			selName[se.Sel] = true
		}
		if id, ok := n.(*ast.Ident); ok && selName[id] {
			return true
		}
		e, ok := n.(ast.Expr)
		if !ok {
			return true
		}
		sig, ok := sc.readCallee(e)
		if !ok {
			return true
		}
		parent := func(i int) ast.Node {
			if len(stack)-1-i < 0 {
				return nil
			}
			return stack[len(stack)-1-i]
		}
		site := where + ":" + dbeStr(e)
		call, isCall := parent(1).(*ast.CallExpr)
		if !isCall || call.Fun != e {
			rows = append(rows, dbRow(site, "", "<funcvalue>", nil))
			return true
		}
		switch p := parent(2).(type) {
		case *ast.AssignStmt:
			if len(p.Rhs) == 1 && p.Rhs[0] == ast.Expr(call) {
				var lhs, tracked []string
				for _, l := range p.Lhs {
					s := dbeStr(l)
					lhs = append(lhs, s)
					if id, ok := l.(*ast.Ident); ok && id.Name != "_" {
						tracked = append(tracked, id.Name)
					}
				}
				errName := ""
				if sig.errPos >= 0 {
					errName = "?"
					if len(p.Lhs) == sig.nres {
						errName = lhs[sig.errPos]
					}
				}
				var window []ast.Stmt
				known := true
				switch gp := parent(3).(type) {
				case *ast.BlockStmt:
					window = dbeAfter(gp.List, p)
				case *ast.CaseClause:
					window = dbeAfter(gp.Body, p)
				case *ast.CommClause:
					window = dbeAfter(gp.Body, p)
				case *ast.IfStmt:
					cp := *gp
					cp.Init = nil
					window = []ast.Stmt{&cp}
				default:
					known = false
				}
				toks := dbeHandling(window, tracked)
				if !known {
					toks = append([]string{"scope?"}, toks...)
				}
				rows = append(rows, dbRow(site, strings.Join(lhs, ", ")+" "+p.Tok.String(), errName, toks))
				return true
			}
			rows = append(rows, dbRow(site, "", "<expr>", nil))
		case *ast.ValueSpec:
			var lhs, tracked []string
			for _, id := range p.Names {
				lhs = append(lhs, id.Name)
				if id.Name != "_" {
					tracked = append(tracked, id.Name)
				}
			}
			errName := ""
			if sig.errPos >= 0 {
				errName = "?"
				if len(p.Names) == sig.nres {
					errName = lhs[sig.errPos]
				}
			}
			var window []ast.Stmt
			if ds, ok := parent(4).(*ast.DeclStmt); ok {
				if blk, ok := parent(5).(*ast.BlockStmt); ok {
					window = dbeAfter(blk.List, ds)
				}
			}
			rows = append(rows, dbRow(site, "var "+strings.Join(lhs, ", ")+" =", errName, dbeHandling(window, tracked)))
		case *ast.ReturnStmt:
			rows = append(rows, dbRow(site, "", "<returned>", nil))
		case *ast.CallExpr:
			if p.Fun == ast.Expr(call) {
				rows = append(rows, dbRow(site, "", "<expr>", nil))
			} else {
				rows = append(rows, dbRow(site, "", "<arg:"+dbeStr(p.Fun)+">", nil))
			}
		case *ast.ExprStmt, *ast.DeferStmt, *ast.GoStmt:
			rows = append(rows, dbRow(site, "", "<dropped>", nil))
		default:
			rows = append(rows, dbRow(site, "", "<expr>", nil))
		}
		return true
	})
	return rows
}

func dbeAfter(list []ast.Stmt, s ast.Stmt) []ast.Stmt {
	for i, x := range list {
		if x == s {
			return list[i+1:]
		}
	}
	return nil
}

// handling: the tokens described at the top of the file for the variables `tracked` over the statements `window`.
func dbeHandling(window []ast.Stmt, tracked []string) []string {
	h := &dbeHandler{killed: map[string]bool{}}
	live := map[string]bool{}
	for _, t := range tracked {
		live[t] = true
	}
	h.stmts(window, live, false)
	return h.toks
}

type dbeHandler struct {
	toks   []string
	killed map[string]bool // re-assigned with `=`: dead for the rest of the function
}

func (h *dbeHandler) isLive(live map[string]bool, name string) bool {
	return live[name] && !h.killed[name]
}

// mentions: does the expression / statement mention a live variable (selector field names do not count)
func (h *dbeHandler) mentions(n ast.Node, live map[string]bool) bool {
	if n == nil {
		return false
	}
	found := false
	ast.Inspect(n, func(x ast.Node) bool {
		switch y := x.(type) {
		case *ast.SelectorExpr:
			if h.mentions(y.X, live) {
				found = true
			}
			return false
		case *ast.KeyValueExpr:
			if h.mentions(y.Value, live) {
				found = true
			}
			if _, isId := y.Key.(*ast.Ident); !isId && h.mentions(y.Key, live) {
				found = true
			}
			return false
		case *ast.Ident:
			if h.isLive(live, y.Name) {
				found = true
			}
		}
		return !found
	})
	return found
}

// direct: the expression mentions a live variable outside any nested call
func (h *dbeHandler) direct(e ast.Expr, live map[string]bool) bool {
	found := false
	ast.Inspect(e, func(x ast.Node) bool {
		switch y := x.(type) {
		case *ast.CallExpr, *ast.FuncLit:
			return false
		case *ast.SelectorExpr:
			if h.direct(y.X, live) {
				found = true
			}
			return false
		case *ast.Ident:
			if h.isLive(live, y.Name) {
				found = true
			}
		}
		return !found
	})
	return found
}

// uses: `use:<callee>` for every call in n that takes a live variable as an argument or is a method call on one;
// panic / DealWithErr are reported whenever their arguments mention one at any depth.
func (h *dbeHandler) uses(n ast.Node, live map[string]bool) {
	if n == nil {
		return
	}
	ast.Inspect(n, func(x ast.Node) bool {
		c, ok := x.(*ast.CallExpr)
		if !ok {
			return true
		}
		hit := false
		if se, ok := c.Fun.(*ast.SelectorExpr); ok && h.direct(se.X, live) {
			hit = true
		}
		fun := dbeStr(c.Fun)
		stops := fun == "panic" || strings.HasSuffix(fun, "DealWithErr")
		for _, a := range c.Args {
			if h.direct(a, live) || (stops && h.mentions(a, live)) {
				hit = true
			}
		}
		if hit {
			h.toks = append(h.toks, "use:"+fun)
		}
		return true
	})
}

// define: names (re)bound by an assignment stop being the tracked variable
func (h *dbeHandler) rebind(s ast.Stmt, live map[string]bool) {
	as, ok := s.(*ast.AssignStmt)
	if !ok {
		return
	}
	for _, l := range as.Lhs {
		id, ok := l.(*ast.Ident)
		if !ok || !live[id.Name] {
			continue
		}
		if as.Tok == token.DEFINE {
			delete(live, id.Name) // shadowed for the rest of this block
		} else if as.Tok == token.ASSIGN {
			h.killed[id.Name] = true
		}
	}
}

func dbeCopyLive(live map[string]bool) map[string]bool {
	c := map[string]bool{}
	for k, v := range live {
		c[k] = v
	}
	return c
}

func (h *dbeHandler) stmts(list []ast.Stmt, live map[string]bool, guarded bool) {
	live = dbeCopyLive(live)
	for _, s := range list {
		h.stmt(s, live, guarded)
	}
}

func (h *dbeHandler) stmt(s ast.Stmt, live map[string]bool, guarded bool) {
	switch x := s.(type) {
	case nil:
	case *ast.BlockStmt:
		h.stmts(x.List, live, guarded)
	case *ast.LabeledStmt:
		h.stmt(x.Stmt, live, guarded)
	case *ast.IfStmt:
		in := dbeCopyLive(live)
		if x.Init != nil {
			h.uses(x.Init, in)
			h.rebind(x.Init, in)
		}
		if h.mentions(x.Cond, in) {
			h.toks = append(h.toks, "if("+dbeStr(x.Cond)+"){")
			h.stmts(x.Body.List, in, true)
			if x.Else != nil {
				h.toks = append(h.toks, "}else{")
				h.stmt(x.Else, in, true)
			}
			h.toks = append(h.toks, "}")
		} else {
			h.uses(x.Cond, in)
			h.stmts(x.Body.List, in, guarded)
			h.stmt(x.Else, in, guarded)
		}
	case *ast.ForStmt:
		in := dbeCopyLive(live)
		if x.Init != nil {
			h.uses(x.Init, in)
			h.rebind(x.Init, in)
		}
		h.uses(x.Cond, in)
		h.uses(x.Post, in)
		h.stmts(x.Body.List, in, guarded)
	case *ast.RangeStmt:
		h.uses(x.X, live)
		in := dbeCopyLive(live)
		for _, kv := range []ast.Expr{x.Key, x.Value} {
			if id, ok := kv.(*ast.Ident); ok && x.Tok == token.DEFINE {
				delete(in, id.Name)
			}
		}
		h.stmts(x.Body.List, in, guarded)
	case *ast.SwitchStmt:
		in := dbeCopyLive(live)
		if x.Init != nil {
			h.uses(x.Init, in)
			h.rebind(x.Init, in)
		}
		g := guarded
		if h.mentions(x.Tag, in) {
			h.toks = append(h.toks, "switch("+dbeStr(x.Tag)+"){")
			g = true
		}
		for _, c := range x.Body.List {
			cc := c.(*ast.CaseClause)
			cg := g
			for _, e := range cc.List {
				if h.mentions(e, in) {
					cg = true
				}
			}
			if cg {
				if cc.List == nil {
					h.toks = append(h.toks, "default:")
				} else {
					var es []string
					for _, e := range cc.List {
						es = append(es, dbeStr(e))
					}
					h.toks = append(h.toks, "case "+strings.Join(es, ", ")+":")
				}
			}
			h.stmts(cc.Body, in, cg)
		}
		if g && !guarded {
			h.toks = append(h.toks, "}")
		}
	case *ast.TypeSwitchStmt:
		h.uses(x.Assign, live)
		for _, c := range x.Body.List {
			h.stmts(c.(*ast.CaseClause).Body, live, guarded)
		}
	case *ast.SelectStmt:
		for _, c := range x.Body.List {
			cc := c.(*ast.CommClause)
			h.uses(cc.Comm, live)
			h.stmts(cc.Body, live, guarded)
		}
	case *ast.ReturnStmt:
		if guarded || h.mentions(x, live) {
			h.toks = append(h.toks, dbeStr(x))
		}
	case *ast.BranchStmt:
		if guarded {
			h.toks = append(h.toks, dbeStr(x))
		}
	default:
		// expression statements, assignments, declarations, defer, go, send, inc/dec
		if guarded {
			if es, ok := x.(*ast.ExprStmt); ok {
				if c, ok := es.X.(*ast.CallExpr); ok && !h.mentions(c, live) {
					if fun := dbeStr(c.Fun); fun == "panic" || strings.HasSuffix(fun, "DealWithErr") {
						h.toks = append(h.toks, fun)
					}
				}
			}
		}
		h.uses(x, live)
		h.rebind(x, live)
	}
}
