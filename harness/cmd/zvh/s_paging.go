package main

import (
	"github.com/zenon-network/go-zenon/rpc/api"
)

func randU32(c *Ctx) uint32 {
	switch c.R.Intn(6) {
	case 0:
		b := []uint32{0, 1, 2, 3, 9, 10, 11, 49, 50, 51, 1023, 1024, 1025, 4194303, 4194304, 4194305, 1<<31 - 1, 1 << 31, 1<<32 - 2, 1<<32 - 1}
		return b[c.R.Intn(len(b))]
	case 1:
		return uint32(c.R.Intn(2000))
	case 2:
		return uint32(1)<<uint(c.R.Intn(32)) + uint32(c.R.Intn(3)) - 1
	case 3:
		return uint32(c.R.Intn(20))
	default:
		return c.R.Uint32()
	}
}

func init() {
	register("paging", func(c *Ctx) {
		one := func(i, n, l uint32) {
			s, e := api.GetRange(i, n, l)
			c.Emit("get-range %d %d %d | %d %d", i, n, l, s, e)
			// model-free monitor: statement = slice [min(i*n,l), min(i*n+n,l)) over unbounded integers
			ws := uint64(i) * uint64(n)
			we := ws + uint64(n)
			if ws > uint64(l) {
				ws = uint64(l)
			}
			if we > uint64(l) {
				we = uint64(l)
			}
			if uint64(s) != ws || uint64(e) != we {
				c.Fail("GetRange(%d,%d,%d)=(%d,%d), unbounded arithmetic gives (%d,%d)", i, n, l, s, e, ws, we)
			}
			if uint64(i)*uint64(n) >= 1<<32 || uint64(i)*uint64(n)+uint64(n) >= 1<<32 {
				c.Hit("range-wide")
			} else if ws == we {
				c.Hit("range-empty")
			} else {
				c.Hit("range-nonempty")
			}
		}
		one(4194304, 1024, 10)
		for i := 0; i < c.N; i++ {
			one(randU32(c), randU32(c), randU32(c))
		}
		// page sweeps: the pages of a list partition it
		for k := 0; k < c.N/50+1; k++ {
			l := uint32(c.R.Intn(300))
			n := uint32(c.R.Intn(60) + 1)
			covered := uint32(0)
			for i := uint32(0); ; i++ {
				s, e := api.GetRange(i, n, l)
				c.Emit("get-range %d %d %d | %d %d", i, n, l, s, e)
				if s != covered && s != l {
					c.Fail("pages of list len %d size %d: page %d starts at %d, expected %d", l, n, i, s, covered)
				}
				if e-s > n {
					c.Fail("page longer than page size")
				}
				covered = e
				if s == l {
					break
				}
			}
			c.Hit("page-sweep")
		}
	})
}
