package main

import (
	"bytes"
	"crypto/sha256"
	"encoding"
	"encoding/hex"
	"encoding/json"
	"fmt"
	"math/rand"
	"os"
	"os/exec"
	"path/filepath"
	"reflect"
	"runtime"
	"sort"
	"strconv"
	"strings"
	"sync/atomic"
	"time"

	"github.com/inconshreveable/log15"

	"github.com/zenon-network/go-zenon/chain"
	"github.com/zenon-network/go-zenon/chain/genesis"
	g "github.com/zenon-network/go-zenon/chain/genesis/mock"
	"github.com/zenon-network/go-zenon/common"
	"github.com/zenon-network/go-zenon/common/db"
	"github.com/zenon-network/go-zenon/common/types"
)

// ---------------------------------------------------------------------------------------------------
// genesis stream, scenario "PURE FUNCTION OF THE CONFIGURATION" (C20: the genesis momentum - hash, content and full
// initial state - is a pure function of the genesis configuration, independent of ... PROCESS).
//
// What a Go program can read besides its argument: the clock (the code base's own common.Clock and time.Now), the time zone
// (TZ / time.Local), GOMAXPROCS, the working directory, environment variables, the process-wide math/rand state, and whatever
// differs between two processes (pid, start time, address space). One configuration is built
//   * several times in THIS process, each time with one of these changed (and once with all of them changed),
//   * from a genesis FILE (every member written out / every zero scalar member and empty list LEFT OUT) under two clocks,
//   * in CHILD processes started with another environment, time zone, GOMAXPROCS, working directory and clock,
//   * again at the end of the run, at least 1.1 s of real time later (a direct time.Now() cannot be swapped),
// and every construction must give the same print: hash, header fields, serialised momentum, dump of the state patch
// and (where a ledger is started) the digest of the byte-exact key space of the ledger after chain.Init.
// Model-free header clause: Version = 1, Height = 1, PreviousHash = 0, ChainIdentifier / TimestampUnix / Data are the
// configuration's ChainIdentifier / uint64(GenesisTimestampSec) / ExtraData - for every value, the zero value (member left
// out of the file) included. The same header is a `gen-header` line for the model (Genesis.genesisHeader).
// Restart: a ledger created under clock t is restarted with the UNCHANGED configuration (built anew, and read from the
// file) under later clocks: must start.
//
// The configurations: the generated one and a copy with its scalar members on BOUNDARY values in rotation
// (GenesisTimestampSec 0 / 1 / -1 / 2^31-1 / 2^31 / 2^32 / 2^63-1 / -2^63, ChainIdentifier 0 / 1 / 2^32 / 2^63 / 2^64-1,
// ExtraData empty / one byte / long / non-ASCII / characters JSON escapes; every fourth: the integer members of the list
// entries zero; every fifth: empty lists written as nil); once per run the configuration with EVERYTHING left out
// (`{"SporkAddress": …, "PillarConfig": {}, …}`) under every timestamp of the table, and the mock genesis.
// ---------------------------------------------------------------------------------------------------

// gnClock is the one value the stream stores in common.Clock (once, before anything else runs): real time unless fixed.
type gnClock struct {
	on  atomic.Bool
	sec atomic.Int64
}

func (k *gnClock) Now() time.Time {
	if k.on.Load() {
		return time.Unix(k.sec.Load(), 0)
	}
	return time.Now()
}

var gnTheClock = &gnClock{}

func gnInstallClock()      { common.Clock = gnTheClock }
func gnFixClock(sec int64) { gnTheClock.sec.Store(sec); gnTheClock.on.Store(true) }
func gnRealClock()         { gnTheClock.on.Store(false) }
func gnClockName() string {
	if gnTheClock.on.Load() {
		return fmt.Sprintf("common.Clock fixed at %d", gnTheClock.sec.Load())
	}
	return "real clock"
}

// gnPrint: everything observable of one construction of the genesis
type gnPrint struct {
	hash    string // momentum hash
	header  string // Version ChainIdentifier Height TimestampUnix Data
	prev    string // PreviousHash
	content string // digest of the serialised momentum (all fields, content headers, ChangesHash)
	state   string // digest of the dump of the genesis transaction's patch (the full initial state as written to the ledger)
	ledger  string // digest of the ledger's key space after chain.Init on an empty in-memory database ("" = not taken)
}

func shortSum(b []byte) string {
	s := sha256.Sum256(b)
	return fmt.Sprintf("%d:%s", len(b), hex.EncodeToString(s[:10]))
}

func genesisPrint(cfg *genesis.GenesisConfig, ledger bool) (p gnPrint, kind string) {
	if pn := safely(func() {
		gen := genesis.NewGenesis(cfg)
		m := gen.GetGenesisMomentum()
		p.hash = hex.EncodeToString(m.Hash.Bytes())
		p.header = fmt.Sprintf("%d %d %d %d %s", m.Version, m.ChainIdentifier, m.Height, m.TimestampUnix, hx(m.Data))
		p.prev = hex.EncodeToString(m.PreviousHash.Bytes())
		ser, err := m.Serialize()
		if err != nil {
			p.content = "error: " + err.Error()
		} else {
			p.content = shortSum(ser)
		}
		p.state = shortSum(gen.GetGenesisTransaction().Changes.Dump())
		if ledger {
			man := db.NewMemDBManager(db.NewMemDB())
			ch := chain.NewChain(man, gen)
			if err := ch.Init(); err != nil {
				p.ledger = "error: " + err.Error()
			} else {
				p.ledger = digestDB(man.Frontier())
			}
			ch.Stop()
		}
	}); pn != "" {
		return p, "panic: " + strings.SplitN(pn, "\n", 2)[0]
	}
	return p, "ok"
}

func (p gnPrint) String() string {
	return fmt.Sprintf("hash=%s header=[%s] serialised=%s state-patch=%s ledger=%s", shortHash(p.hash), p.header, p.content, p.state, p.ledger)
}

// diff names the parts of two prints that differ ("" = none); a ledger digest is compared when both were taken
func (p gnPrint) diff(q gnPrint) string {
	var d []string
	if p.hash != q.hash {
		d = append(d, fmt.Sprintf("hash %s vs %s", shortHash(p.hash), shortHash(q.hash)))
	}
	if p.header != q.header {
		d = append(d, fmt.Sprintf("header (Version ChainIdentifier Height TimestampUnix Data) [%s] vs [%s]", p.header, q.header))
	}
	if p.prev != q.prev {
		d = append(d, "PreviousHash")
	}
	if p.content != q.content {
		d = append(d, "serialised momentum")
	}
	if p.state != q.state {
		d = append(d, "state patch")
	}
	if p.ledger != "" && q.ledger != "" && p.ledger != q.ledger {
		d = append(d, fmt.Sprintf("ledger key space %s vs %s", p.ledger, q.ledger))
	}
	return strings.Join(d, "; ")
}

// hidden subcommand: `zvh genesis-print-child <config.json> <real|unix seconds>` prints the print of the configuration
// built in this (fresh) process under the given clock.
func init() {
	if len(os.Args) == 4 && os.Args[1] == "genesis-print-child" {
		log15.Root().SetHandler(log15.DiscardHandler())
		stdout := os.Stdout
		if devnull, err := os.OpenFile(os.DevNull, os.O_WRONLY, 0); err == nil {
			os.Stdout = devnull
		}
		raw, err := os.ReadFile(os.Args[2])
		cfg := new(genesis.GenesisConfig)
		if err == nil {
			err = json.Unmarshal(raw, cfg)
		}
		if err != nil {
			fmt.Fprintln(stdout, "error", err)
			os.Exit(3)
		}
		if sec, err := strconv.ParseInt(os.Args[3], 10, 64); err == nil {
			gnInstallClock()
			gnFixClock(sec)
		}
		p, kind := genesisPrint(cfg, true)
		fmt.Fprintf(stdout, "%s|%s|%s|%s|%s|%s|%s\n", kind, p.hash, p.header, p.prev, p.content, p.state, p.ledger)
		os.Exit(0)
	}
}

func genesisPrintChild(c *Ctx, tmp, tag string, cfg *genesis.GenesisConfig, clock string, env []string, dir string) (p gnPrint, kind string) {
	raw, _ := json.Marshal(cfg)
	fn := filepath.Join(tmp, "pure-child.json")
	os.WriteFile(fn, raw, 0o600)
	self := os.Args[0]
	if abs, err := filepath.Abs(self); err == nil {
		self = abs
	}
	cmd := exec.Command(self, "genesis-print-child", fn, clock)
	cmd.Env = env
	cmd.Dir = dir
	out, err := cmd.Output()
	f := strings.Split(strings.TrimSpace(string(out)), "|")
	if err != nil || len(f) != 7 {
		return p, fmt.Sprintf("child failed: %v %q", err, strings.TrimSpace(string(out)))
	}
	return gnPrint{hash: f[1], header: f[2], prev: f[3], content: f[4], state: f[5], ledger: f[6]}, f[0]
}

// ---- the surroundings of a process ------------------------------------------------------------------------------------

type gnEnv struct {
	name  string
	apply func() (restore func())
}

var gnClockTable = []int64{1700000000, 1700040000, 0, 1, 999999999, 1 << 31, 4102444800, 253402300799, 1000000000, -1}
var gnZoneTable = []struct {
	name string
	off  int
}{{"UTC", 0}, {"zv+14", 14 * 3600}, {"zv-12", -12 * 3600}, {"zv+0545", 5*3600 + 45*60}}
var gnEnvVars = []string{"TZ", "HOME", "USER", "HOSTNAME", "LANG", "LC_ALL", "SOURCE_DATE_EPOCH", "ZENON_GENESIS_TIMESTAMP", "GENESIS_TIMESTAMP",
	"ZNN_CHAIN_ID", "ZENON_NETWORK", "GOMAXPROCS", "TMPDIR", "PWD"}

func gnEnvClock(sec int64) gnEnv {
	return gnEnv{fmt.Sprintf("common.Clock fixed at %d", sec), func() func() { gnFixClock(sec); return gnRealClock }}
}
func gnEnvZone(i int) gnEnv {
	z := gnZoneTable[i%len(gnZoneTable)]
	return gnEnv{"time.Local = " + z.name, func() func() {
		old := time.Local
		time.Local = time.FixedZone(z.name, z.off)
		return func() { time.Local = old }
	}}
}
func gnEnvProcs(i int) gnEnv {
	n := []int{1, 2, 3, runtime.NumCPU()}[i%4]
	return gnEnv{fmt.Sprintf("GOMAXPROCS = %d", n), func() func() {
		old := runtime.GOMAXPROCS(n)
		return func() { runtime.GOMAXPROCS(old) }
	}}
}
func gnEnvCwd(dir string) gnEnv {
	return gnEnv{"working directory = " + dir, func() func() {
		old, err := os.Getwd()
		if err != nil || os.Chdir(dir) != nil {
			return func() {}
		}
		return func() { os.Chdir(old) }
	}}
}
func gnEnvVarsSet(i int) gnEnv {
	val := []string{"", "0", "1", "1700000000", "zv-" + strconv.Itoa(i), "Pacific/Kiritimati"}[i%6]
	return gnEnv{fmt.Sprintf("environment %v = %q", gnEnvVars, val), func() func() {
		type ov struct {
			v  string
			ok bool
		}
		old := map[string]ov{}
		for _, k := range gnEnvVars {
			v, ok := os.LookupEnv(k)
			old[k] = ov{v, ok}
			if k == "TMPDIR" || k == "PWD" {
				continue // read by this harness itself
			}
			os.Setenv(k, val)
		}
		return func() {
			for k, o := range old {
				if o.ok {
					os.Setenv(k, o.v)
				} else {
					os.Unsetenv(k)
				}
			}
		}
	}}
}
func gnEnvRand(i int) gnEnv {
	return gnEnv{fmt.Sprintf("math/rand seeded with %d and advanced %d draws", i, i%7), func() func() {
		rand.Seed(int64(i))
		for j := 0; j < i%7; j++ {
			rand.Int63()
		}
		return func() {}
	}}
}
func gnEnvAll(es ...gnEnv) gnEnv {
	names := make([]string, len(es))
	for i, e := range es {
		names[i] = e.name
	}
	return gnEnv{strings.Join(names, " + "), func() func() {
		rs := make([]func(), len(es))
		for i, e := range es {
			rs[i] = e.apply()
		}
		return func() {
			for i := len(rs) - 1; i >= 0; i-- {
				rs[i]()
			}
		}
	}}
}

// ---- boundary values of the scalar members ------------------------------------------------------------------------------

var gnTimestampTable = []int64{0, 1, -1, 1<<31 - 1, 1 << 31, 1 << 32, 1<<63 - 1, -1 << 63, 1000000000}
var gnChainIdTable = []uint64{0, 1, 1 << 32, 1 << 63, 1<<64 - 1, 321, 3}
var gnExtraDataTable = []string{"", "x", strings.Repeat("zv-extra-data-", 40), "ζ-генезис-創世", `q"b\s</&>'`}

// gnBoundaryCfg: a deep copy of cfg with the scalar members of the configuration on boundary values (rotation j; the three
// tables have pairwise coprime lengths); consistency of the sums is untouched.
func gnBoundaryCfg(cfg *genesis.GenesisConfig, j int) *genesis.GenesisConfig {
	out := cloneCfg(cfg)
	out.GenesisTimestampSec = gnTimestampTable[j%len(gnTimestampTable)]
	out.ChainIdentifier = gnChainIdTable[j%len(gnChainIdTable)]
	out.ExtraData = gnExtraDataTable[j%len(gnExtraDataTable)]
	if j%4 == 3 {
		// the integer members of the list entries on their zero value
		for _, p := range out.PillarConfig.Pillars {
			p.RegistrationTime, p.RevokeTime, p.GiveBlockRewardPercentage, p.GiveDelegateRewardPercentage, p.PillarType = 0, 0, 0, 0, 0
		}
		for _, l := range out.PillarConfig.LegacyEntries {
			l.PillarCount = 0
		}
		for _, t := range out.TokenConfig.Tokens {
			t.Decimals, t.IsMintable, t.IsBurnable, t.IsUtility, t.TokenDomain = 0, false, false, false, ""
		}
		for _, f := range out.PlasmaConfig.Fusions {
			f.ExpirationHeight = 0
		}
		if out.SporkConfig != nil {
			for _, s := range out.SporkConfig.Sporks {
				if !s.Activated {
					s.EnforcementHeight, s.Description = 0, ""
				}
			}
		}
	}
	if j%5 == 4 {
		// empty lists as nil (what a file without the member decodes to)
		if len(out.PillarConfig.Delegations) == 0 {
			out.PillarConfig.Delegations = nil
		}
		if len(out.PillarConfig.LegacyEntries) == 0 {
			out.PillarConfig.LegacyEntries = nil
		}
		if len(out.PlasmaConfig.Fusions) == 0 {
			out.PlasmaConfig.Fusions = nil
		}
		if len(out.SwapConfig.Entries) == 0 {
			out.SwapConfig.Entries = nil
		}
		if out.SporkConfig != nil && len(out.SporkConfig.Sporks) == 0 {
			out.SporkConfig.Sporks = nil
		}
	}
	return out
}

// gnMinimalCfg: everything that can be left out of a genesis file is left out (CheckFieldsExist wants the six sections)
func gnMinimalCfg() *genesis.GenesisConfig {
	sa := types.ParseAddressPanic("z1qqv2fnc3avjg39dcste4c5lag7l42xyykjf49w")
	return &genesis.GenesisConfig{SporkAddress: &sa, PillarConfig: &genesis.PillarContractConfig{}, TokenConfig: &genesis.TokenContractConfig{},
		PlasmaConfig: &genesis.PlasmaContractConfig{}, SwapConfig: &genesis.SwapContractConfig{}, GenesisBlocks: &genesis.GenesisBlocksConfig{}}
}

// ---- a genesis file with every zero scalar member and every empty list left out ---------------------------------------------

var (
	gnJSONMarshaler = reflect.TypeOf((*json.Marshaler)(nil)).Elem()
	gnTextMarshaler = reflect.TypeOf((*encoding.TextMarshaler)(nil)).Elem()
)

// gnOmitZeroJSON writes v as encoding/json does, except that struct members of integer / string / bool type holding their
// zero value, nil pointers and empty slices are LEFT OUT (decoding gives the zero value / nil back). Amounts (*big.Int),
// addresses, hashes, token standards and map entries are written as they are. left = number of members left out.
func gnOmitZeroJSON(v reflect.Value, left *int) (out []byte, omit bool) {
	t := v.Type()
	if t.Implements(gnJSONMarshaler) || t.Implements(gnTextMarshaler) {
		isNil := v.Kind() == reflect.Ptr && v.IsNil()
		b, err := json.Marshal(v.Interface())
		if err != nil {
			panic(err)
		}
		return b, isNil
	}
	switch v.Kind() {
	case reflect.Ptr:
		if v.IsNil() {
			return []byte("null"), true
		}
		b, _ := gnOmitZeroJSON(v.Elem(), left)
		return b, false
	case reflect.Struct:
		var sb bytes.Buffer
		sb.WriteByte('{')
		n := 0
		for i := 0; i < t.NumField(); i++ {
			f := t.Field(i)
			if f.PkgPath != "" {
				continue
			}
			name := f.Name
			if tag, ok := f.Tag.Lookup("json"); ok {
				tn := strings.Split(tag, ",")[0]
				if tn == "-" {
					continue
				}
				if tn != "" {
					name = tn
				}
			}
			b, om := gnOmitZeroJSON(v.Field(i), left)
			if om {
				*left++
				continue
			}
			if n > 0 {
				sb.WriteByte(',')
			}
			n++
			k, _ := json.Marshal(name)
			sb.Write(k)
			sb.WriteByte(':')
			sb.Write(b)
		}
		sb.WriteByte('}')
		return sb.Bytes(), false
	case reflect.Slice:
		if v.Len() == 0 {
			return []byte("[]"), true
		}
		var sb bytes.Buffer
		sb.WriteByte('[')
		for i := 0; i < v.Len(); i++ {
			if i > 0 {
				sb.WriteByte(',')
			}
			b, _ := gnOmitZeroJSON(v.Index(i), left)
			sb.Write(b)
		}
		sb.WriteByte(']')
		return sb.Bytes(), false
	case reflect.Map:
		type kv struct{ k, v []byte }
		var es []kv
		for _, mk := range v.MapKeys() {
			kt, err := mk.Interface().(encoding.TextMarshaler).MarshalText()
			if err != nil {
				panic(err)
			}
			k, _ := json.Marshal(string(kt))
			b, _ := gnOmitZeroJSON(v.MapIndex(mk), left)
			es = append(es, kv{k, b})
		}
		sort.Slice(es, func(i, j int) bool { return bytes.Compare(es[i].k, es[j].k) < 0 })
		var sb bytes.Buffer
		sb.WriteByte('{')
		for i, e := range es {
			if i > 0 {
				sb.WriteByte(',')
			}
			sb.Write(e.k)
			sb.WriteByte(':')
			sb.Write(e.v)
		}
		sb.WriteByte('}')
		return sb.Bytes(), false
	case reflect.Bool, reflect.Int, reflect.Int8, reflect.Int16, reflect.Int32, reflect.Int64,
		reflect.Uint, reflect.Uint8, reflect.Uint16, reflect.Uint32, reflect.Uint64, reflect.String:
		b, err := json.Marshal(v.Interface())
		if err != nil {
			panic(err)
		}
		return b, v.IsZero()
	}
	b, err := json.Marshal(v.Interface())
	if err != nil {
		panic(err)
	}
	return b, false
}

// gnReadFile: genesis.ReadGenesisConfigFromFile on the given text, mapped to a print of hash + header
func gnReadFile(fn string, raw []byte) (p gnPrint, kind string) {
	if err := os.WriteFile(fn, raw, 0o600); err != nil {
		return p, "write: " + err.Error()
	}
	if pn := safely(func() {
		gen, err := genesis.ReadGenesisConfigFromFile(fn)
		switch {
		case err != nil:
			kind = "error: " + err.Error()
		case gen == nil:
			kind = "nil-nil"
		default:
			m := gen.GetGenesisMomentum()
			p.hash = hex.EncodeToString(m.Hash.Bytes())
			p.header = fmt.Sprintf("%d %d %d %d %s", m.Version, m.ChainIdentifier, m.Height, m.TimestampUnix, hx(m.Data))
			p.state = shortSum(gen.GetGenesisTransaction().Changes.Dump())
			kind = "ok"
		}
	}); pn != "" {
		return p, "panic: " + strings.SplitN(pn, "\n", 2)[0]
	}
	return p, kind
}

// gnCfgSummary: the scalar members of a configuration (a long ExtraData shortened)
func gnCfgSummary(cfg *genesis.GenesisConfig) string {
	sa := "nil"
	if cfg.SporkAddress != nil {
		sa = cfg.SporkAddress.String()
	}
	ed := fmt.Sprintf("%q", cfg.ExtraData)
	if len(cfg.ExtraData) > 40 {
		ed = fmt.Sprintf("%q… (%d bytes)", cfg.ExtraData[:28], len(cfg.ExtraData))
	}
	return fmt.Sprintf("{ChainIdentifier:%d ExtraData:%s GenesisTimestampSec:%d SporkAddress:%s …}", cfg.ChainIdentifier, ed, cfg.GenesisTimestampSec, sa)
}

// ---- the scenario ----------------------------------------------------------------------------------------------------------

type gnLate struct {
	tag  string
	cfg  *genesis.GenesisConfig
	base gnPrint
	at   time.Time
}

// gnHeaderClause: the header of the genesis momentum is the configuration's (model-free) + the line for the model
func gnHeaderClause(c *Ctx, tag, how string, cfg *genesis.GenesisConfig, p gnPrint) {
	c.Emit("gen-header %d %d %s | %s", cfg.ChainIdentifier, cfg.GenesisTimestampSec, hx([]byte(cfg.ExtraData)), p.header)
	want := fmt.Sprintf("1 %d 1 %d %s", cfg.ChainIdentifier, uint64(cfg.GenesisTimestampSec), hx([]byte(cfg.ExtraData)))
	if p.header != want || strings.Trim(p.prev, "0") != "" {
		c.Fail("genesis momentum header is not the configuration's: configuration %s (%s) built %s gives the header (Version ChainIdentifier Height TimestampUnix Data) [%s] PreviousHash %s, the configuration says [%s] and no previous momentum; hash %s",
			gnCfgSummary(cfg), tag, how, p.header, shortHash(p.prev), want, p.hash)
	}
}

func gnPureFail(c *Ctx, tag string, cfg *genesis.GenesisConfig, howA string, a gnPrint, howB string, b gnPrint) {
	raw, _ := json.Marshal(cfg)
	if len(raw) > 1500 {
		raw = append(raw[:1500], "…"...)
	}
	c.Fail("genesis is not a function of the configuration alone: ONE configuration %s (%s) built [A] %s and [B] %s gives two genesis momentums that differ in: %s. [A] %s [B] %s. Configuration: %s",
		gnCfgSummary(cfg), tag, howA, howB, a.diff(b), a, b, raw)
}

// genesisPure: see the head of the file. k = index of the configuration in the run.
func genesisPure(c *Ctx, tmp string, id string, cfg *genesis.GenesisConfig, k int, late *[]gnLate) {
	variants := []struct {
		tag string
		cfg *genesis.GenesisConfig
	}{{id, cfg}, {fmt.Sprintf("%s with boundary scalars #%d", id, k), gnBoundaryCfg(cfg, k)}}
	for vi, v := range variants {
		if vi == 1 {
			if cr := checkReal(v.cfg); cr != "ok" {
				c.Fail("boundary values of the scalar members make the validators refuse a consistent configuration (%s): %s", cr, gnCfgSummary(v.cfg))
				continue
			}
			c.Hit(fmt.Sprintf("pure-boundary:ts=%d", v.cfg.GenesisTimestampSec))
			c.Hit(fmt.Sprintf("pure-boundary:chain=%d", v.cfg.ChainIdentifier))
			c.Hit(fmt.Sprintf("pure-boundary:extra-len=%d", len(v.cfg.ExtraData)))
		}
		genesisPureOne(c, tmp, v.tag, v.cfg, 2*k+vi, (vi == 1 && (k < 9 || k%3 == 0)) || (vi == 0 && k%10 == 5), vi == 1 && (k < 9 || k%6 == 0), vi == 1 && k < 9, late)
	}
}

func genesisPureOne(c *Ctx, tmp, tag string, cfg *genesis.GenesisConfig, j int, restart, child, keepForLater bool, late *[]gnLate) {
	gnRealClock()
	how0 := "in this process under the real clock"
	base, kind := genesisPrint(cloneCfg(cfg), true)
	if kind != "ok" {
		c.Fail("NewGenesis / chain.Init on an accepted configuration: %s (%s, %s)", kind, tag, gnCfgSummary(cfg))
		return
	}
	c.Hit("pure-config")
	gnHeaderClause(c, tag, how0, cfg, base)
	if late != nil && keepForLater && len(*late) < 16 {
		*late = append(*late, gnLate{tag, cfg, base, time.Now()})
	}
	// 1. the surroundings of the process, one at a time and all at once
	cwd := filepath.Join(tmp, "pure-cwd")
	os.MkdirAll(cwd, 0o700)
	nc := len(gnClockTable)
	envs := []gnEnv{gnEnvClock(gnClockTable[j%nc]), gnEnvClock(gnClockTable[(j+1)%nc]), gnEnvClock(gnClockTable[(j+5)%nc]),
		gnEnvZone(j), gnEnvProcs(j), gnEnvCwd([]string{cwd, "/", os.TempDir()}[j%3]), gnEnvVarsSet(j), gnEnvRand(j)}
	envs = append(envs, gnEnvAll(gnEnvClock(gnClockTable[(j+2)%nc]), gnEnvZone(j+1), gnEnvProcs(j+1), gnEnvCwd(cwd), gnEnvVarsSet(j+1), gnEnvRand(j+3)))
	for i, e := range envs {
		restore := e.apply()
		p, kind := genesisPrint(cloneCfg(cfg), i == len(envs)-1)
		restore()
		c.Hit("pure-env:" + []string{"clock", "clock", "clock", "time-zone", "gomaxprocs", "working-directory", "environment", "math-rand", "all-at-once"}[i])
		if kind != "ok" {
			c.Fail("NewGenesis on an accepted configuration under [%s]: %s (%s)", e.name, kind, tag)
			continue
		}
		how := "in this process with " + e.name
		gnHeaderClause(c, tag, how, cfg, p)
		if d := base.diff(p); d != "" {
			gnPureFail(c, tag, cfg, how0, base, how, p)
		}
	}
	// 2. the genesis FILE: every member written out, and every zero scalar member / empty list left out, under two clocks
	if accepted := checkReal(cfg) == "ok"; accepted {
		full, _ := json.Marshal(cfg)
		left := 0
		omitted, _ := gnOmitZeroJSON(reflect.ValueOf(cfg), &left)
		c.HitN("pure-file-members-left-out", left)
		fn := filepath.Join(tmp, "pure-genesis.json")
		for fi, raw := range [][]byte{full, omitted} {
			what := []string{"a genesis file with every member written out", "a genesis file with the zero scalar members and empty lists LEFT OUT"}[fi]
			for ci, sec := range []int64{gnClockTable[j%nc], gnClockTable[(j+1)%nc]} {
				gnFixClock(sec)
				p, kind := gnReadFile(fn, raw)
				gnRealClock()
				how := fmt.Sprintf("by ReadGenesisConfigFromFile from %s, common.Clock fixed at %d", what, sec)
				c.Hit(fmt.Sprintf("pure-file:%d:%d:%s", fi, ci, strings.Fields(kind)[0]))
				if kind != "ok" {
					c.Fail("a consistent configuration is not read from its genesis file: %s (%s, %s): %s", kind, tag, what, raw[:min(len(raw), 600)])
					continue
				}
				if p.hash != base.hash || p.header != base.header || p.state != base.state {
					p.prev, p.content = base.prev, base.content
					gnPureFail(c, tag, cfg, how0, base, how, p)
				}
			}
		}
		// 3. restart on the OWN database with the UNCHANGED configuration at later clocks
		if restart {
			dir := filepath.Join(tmp, fmt.Sprintf("pure-db-%d", j))
			t1 := gnClockTable[j%2] // 1700000000 / 1700040000
			gnFixClock(t1)
			h1, _ := genesisHash(cloneCfg(cfg))
			r1 := startChain(dir, cloneCfg(cfg))
			c.Emit("gen-startup empty %s | %s", h1, r1)
			if r1 != "started" {
				gnRealClock()
				c.Fail("node does not start on an empty database with an accepted configuration: %s (%s, %s)", r1, tag, gnCfgSummary(cfg))
			} else {
				for _, dt := range []int64{1, 40000, 400000000} {
					gnFixClock(t1 + dt)
					h2, _ := genesisHash(cloneCfg(cfg))
					r2 := startChain(dir, cloneCfg(cfg))
					c.Emit("gen-startup %s %s | %s", h1, h2, r2)
					c.Hit("pure-restart-later-clock:" + r2)
					if r2 != "started" {
						c.Fail("a node restarted on its OWN database with the UNCHANGED configuration is not started: %s - database created when common.Clock read %d (genesis %s), restart when it read %d (the unchanged configuration now gives genesis %s); configuration %s (%s)",
							r2, t1, shortHash(h1), t1+dt, shortHash(h2), gnCfgSummary(cfg), tag)
					}
				}
				gnRealClock()
				// … and with the configuration read from its file (members left out), real clock
				r3 := "not-read"
				var h3 string
				if pn := safely(func() {
					os.WriteFile(fn, omitted, 0o600)
					gen, err := genesis.ReadGenesisConfigFromFile(fn)
					if err != nil || gen == nil {
						return
					}
					h3 = hex.EncodeToString(gen.GetGenesisMomentum().Hash.Bytes())
					man := db.NewLevelDBManager(dir)
					ch := chain.NewChain(man, gen)
					err = ch.Init()
					ch.Stop()
					switch {
					case err == nil:
						r3 = "started"
					case strings.Contains(err.Error(), "genesis state is incorrect"):
						r3 = "refused"
					default:
						r3 = "error"
					}
				}); pn != "" {
					r3 = "panic"
				}
				if h3 != "" {
					c.Emit("gen-startup %s %s | %s", h1, h3, r3)
				}
				c.Hit("pure-restart-from-file:" + r3)
				if r3 != "started" {
					c.Fail("a node restarted on its OWN database with the UNCHANGED configuration, read from its genesis file under the real clock, is not started: %s - database created when common.Clock read %d (genesis %s), the file now gives genesis %s; configuration %s (%s)",
						r3, t1, shortHash(h1), shortHash(h3), gnCfgSummary(cfg), tag)
				}
			}
			gnRealClock()
			os.RemoveAll(dir)
		}
	}
	// 4. a CHILD process with another environment, time zone, GOMAXPROCS, working directory and clock
	if child {
		clock := "real"
		if j%3 != 0 {
			clock = strconv.FormatInt(gnClockTable[(j+3)%nc], 10)
		}
		env := []string{"TZ=" + []string{"UTC", "Pacific/Kiritimati", "America/St_Johns"}[j%3], fmt.Sprintf("GOMAXPROCS=%d", 1+j%3),
			"HOME=/nonexistent", "USER=zv" + strconv.Itoa(j), "HOSTNAME=zv-host-" + strconv.Itoa(j), "SOURCE_DATE_EPOCH=1", "LANG=C", "TMPDIR=" + tmp}
		p, kind := genesisPrintChild(c, tmp, tag, cfg, clock, env, cwd)
		how := fmt.Sprintf("in a child process (clock %s, %s, %s, working directory %s)", clock, env[0], env[1], cwd)
		c.Hit("pure-child-process")
		if kind != "ok" {
			c.Fail("genesis in a child process: %s (%s, %s)", kind, tag, gnCfgSummary(cfg))
		} else {
			gnHeaderClause(c, tag, how, cfg, p)
			if d := base.diff(p); d != "" {
				gnPureFail(c, tag, cfg, how0, base, how, p)
			}
		}
	}
}

// genesisPureDirected: once per run - the configuration with everything left out, under every timestamp / chain identifier /
// ExtraData of the tables, and the mock genesis with its scalar members on the boundary values.
func genesisPureDirected(c *Ctx, tmp string, late *[]gnLate) {
	min0 := gnMinimalCfg()
	if cr := checkReal(min0); cr != "ok" {
		c.Fail("the configuration with everything left out is refused by the validators: %s", cr)
		return
	}
	n := len(gnTimestampTable)
	if len(gnChainIdTable) > n {
		n = len(gnChainIdTable)
	}
	for j := 0; j < n; j++ {
		cfg := gnMinimalCfg()
		cfg.GenesisTimestampSec = gnTimestampTable[j%len(gnTimestampTable)]
		if j > 0 {
			cfg.ChainIdentifier = gnChainIdTable[j%len(gnChainIdTable)]
			cfg.ExtraData = gnExtraDataTable[j%len(gnExtraDataTable)]
		}
		c.Hit("pure-directed-minimal")
		genesisPureOne(c, tmp, fmt.Sprintf("minimal configuration #%d", j), cfg, 2*j+1, j < 3, j < 2, j < 2, late)
	}
	for j := 0; j < 3; j++ {
		cfg := gnBoundaryCfg(g.EmbeddedGenesis, j*9) // timestamp 0 with three chain identifiers / ExtraData values
		if checkReal(cfg) != "ok" {
			continue
		}
		c.Hit("pure-directed-mock")
		genesisPureOne(c, tmp, fmt.Sprintf("mock genesis with boundary scalars #%d", j*9), cfg, 2*j, j == 0, j == 0, j == 0, late)
	}
}

// genesisPureLate: the constructions of the start of the run repeated at its end - at least 1.1 s of REAL time later, the real
// clock in force - in this process and in a child process.
func genesisPureLate(c *Ctx, tmp string, late []gnLate) {
	gnRealClock()
	for i, l := range late {
		if d := 1100*time.Millisecond - time.Since(l.at); d > 0 {
			time.Sleep(d)
		}
		secs := int(time.Since(l.at) / time.Second)
		p, kind := genesisPrint(cloneCfg(l.cfg), true)
		how := fmt.Sprintf("in this process under the real clock at least %d s later", secs)
		c.Hit("pure-late-rebuild")
		if kind != "ok" {
			c.Fail("NewGenesis on an accepted configuration, second time: %s (%s)", kind, l.tag)
			continue
		}
		if d := l.base.diff(p); d != "" {
			gnPureFail(c, l.tag, l.cfg, "in this process under the real clock", l.base, how, p)
		}
		if i < 2 {
			env := append(os.Environ(), "TZ=UTC")
			p, kind := genesisPrintChild(c, tmp, l.tag, l.cfg, "real", env, tmp)
			c.Hit("pure-late-child")
			if kind != "ok" {
				c.Fail("genesis in a child process: %s (%s)", kind, l.tag)
			} else if d := l.base.diff(p); d != "" {
				gnPureFail(c, l.tag, l.cfg, "in this process under the real clock", l.base,
					fmt.Sprintf("in a child process under the real clock at least %d s later", secs), p)
			}
		}
	}
}
