package main

// wallet stream, part 11 (round-5 seeds C19-r5-1, C19-r5-2): a key file is a function of (entropy, password, salt, nonce)
// and of nothing else —
//   (a) not of the process environment: key files are created and opened under every pair of scheduler widths
//       (runtime.GOMAXPROCS 1, 2, 3, 4, 16); kfCreate compares the stored cipher text with the reference
//       AES-256-GCM(argon2id(pw, salt; t=1, m=64 MiB, p=4), nonce, entropy) computed by the harness with constant
//       parameters, so a KDF parameter that follows the host is seen on the first file written under a narrow scheduler;
//   (b) not of what the process does between Encrypt and a later use of the SAME object: key file objects are held in
//       memory while the wallet's random source is drained (GetEntropyCSPRNG in the sizes the node uses, further
//       Encrypt calls), then every held object must still carry its salt / nonce / cipher text, decrypt with its
//       password to its entropy, and do so again after Write + ReadKeyFile;
//   (c) slices handed out by GetEntropyCSPRNG are private: writing into one never changes another, earlier or later.

import (
	"bytes"
	"fmt"
	"path/filepath"
	"runtime"

	"github.com/zenon-network/go-zenon/wallet"
)

func walletEnvIndependence(c *Ctx, dir string) {
	old := runtime.GOMAXPROCS(0)
	defer runtime.GOMAXPROCS(old)
	widths := []int{1, 2, 3, 4, 16}
	// (a) create under a, open under every b
	type made struct {
		kf *wallet.KeyFile
		o  *kfOrigin
		a  int
	}
	var files []made
	for i, a := range widths {
		if c.Tier != "thorough" && (a == 2 || a == 16) && c.R.Intn(2) == 0 {
			continue
		}
		runtime.GOMAXPROCS(a)
		e := make([]byte, []int{16, 24, 32}[i%3])
		c.R.Read(e)
		pw := fmt.Sprintf("env-%d-%s", a, pwOwnRandom(c))
		kf, o := kfCreate(c, filepath.Join(dir, fmt.Sprintf("env-%d.json", a)), e, pw)
		if kf == nil {
			c.Fail("C19 environment: a key file created under runtime.GOMAXPROCS(%d) is not AES-256-GCM(argon2id(pw, salt; 1, 64 MiB, 4 lanes, 32), nonce, entropy) — the stored file depends on the host (see the message above)", a)
			continue
		}
		files = append(files, made{kf, o, a})
		c.Hit(fmt.Sprintf("env-create:%d", a))
	}
	for _, m := range files {
		for _, b := range widths {
			runtime.GOMAXPROCS(b)
			// through the object and through the file
			ks, kind := kfTryDecrypt(m.kf, m.o.pw)
			if kind != "ok" || !bytes.Equal(ks.Entropy, m.o.entropy) {
				c.Fail("C19 environment: key file created under GOMAXPROCS(%d) does not decrypt with its own password %q under GOMAXPROCS(%d): %s — a key file must decrypt with its password to exactly the entropy it was created from (entropy %x)", m.a, m.o.pw, b, kind, m.o.entropy)
			}
			if b == 1 || b == 16 {
				rk, err := wallet.ReadKeyFile(m.kf.Path)
				if err != nil {
					c.Fail("C19 environment: ReadKeyFile(%s): %v", m.kf.Path, err)
					continue
				}
				ks2, kind2 := kfTryDecrypt(rk, m.o.pw)
				if kind2 != "ok" || !bytes.Equal(ks2.Entropy, m.o.entropy) {
					c.Fail("C19 environment: the FILE written under GOMAXPROCS(%d) does not open with its password under GOMAXPROCS(%d): %s", m.a, b, kind2)
				}
				if _, k3 := kfTryDecrypt(rk, m.o.pw+" "); k3 == "ok" {
					c.Fail("C19 environment: under GOMAXPROCS(%d) the file opens with a different password", b)
				}
			}
			c.Hit(fmt.Sprintf("env-open:%d->%d", m.a, b))
		}
	}
	runtime.GOMAXPROCS(old)

	// (c) privacy of the random slices
	var held [][]byte
	var copies [][]byte
	sizes := []int{8, 12, 16, 32, 64, 1, 0, 24, 4096, 100}
	for i := 0; i < 400; i++ {
		s := wallet.GetEntropyCSPRNG(sizes[c.R.Intn(len(sizes))])
		held = append(held, s)
		copies = append(copies, append([]byte{}, s...))
	}
	for i, s := range held {
		for j := range s[:cap(s)][:len(s)] {
			s[j] ^= 0xa5
		}
		_ = i
	}
	for i := range held {
		want := copies[i]
		for j := range want {
			if held[i][j] != want[j]^0xa5 {
				c.Fail("C19 random source: GetEntropyCSPRNG results share memory: slice %d (len %d) changed when the others were written", i, len(want))
				break
			}
		}
	}
	c.Hit("entropy-private")

	// (b) held objects while the random source is drained
	type heldKf struct {
		kf     *wallet.KeyFile
		o      *kfOrigin
		serial string
	}
	var hk []heldKf
	n := 3
	for i := 0; i < n; i++ {
		e := make([]byte, []int{16, 32, 24}[i%3])
		c.R.Read(e)
		pw := "held-" + pwOwnRandom(c)
		kf, o := kfCreate(c, filepath.Join(dir, fmt.Sprintf("held-%d.json", i)), e, pw)
		if kf == nil {
			continue
		}
		hk = append(hk, heldKf{kf, o, kfSerial(kf)})
		// drain between the creations too
		drain := 0
		for drain < 3*4096+c.R.Intn(9000) {
			k := []int{8, 8, 8, 12, 16, 32}[c.R.Intn(6)]
			wallet.GetEntropyCSPRNG(k)
			drain += k
		}
	}
	// a long drain in the node's own sizes: PoW seeds (8), nonces (12), salts (16), plus a few whole Encrypt calls
	total := 0
	for total < 64*1024 {
		k := []int{8, 8, 8, 8, 12, 16, 32, 64}[c.R.Intn(8)]
		wallet.GetEntropyCSPRNG(k)
		total += k
	}
	for i := 0; i < 2; i++ {
		e := make([]byte, 16)
		c.R.Read(e)
		if ks, err := wallet.KeyStoreFromEntropyVerif(e); err == nil {
			ks.Encrypt("drain")
		}
	}
	for i, h := range hk {
		if !bytes.Equal(h.kf.Crypto.CipherData, h.o.ct) || !bytes.Equal(h.kf.Crypto.AesNonce, h.o.nonce) || !bytes.Equal(h.kf.Crypto.Argon2Params.Salt, h.o.salt) {
			c.Fail("C19 held key file %d: the object returned by Encrypt changed while it was only held (the process drew %d bytes of randomness and encrypted other key stores meanwhile): cipherData/nonce/salt were %x/%x/%x, are %s", i, total, h.o.ct, h.o.nonce, h.o.salt, kfFieldsTok(h.kf))
		} else if got := kfSerial(h.kf); got != h.serial {
			c.Fail("C19 held key file %d: serialised form changed while the object was only held: was %s, is %s", i, h.serial, got)
		}
		ks, kind := kfTryDecrypt(h.kf, h.o.pw)
		if kind != "ok" || !bytes.Equal(ks.Entropy, h.o.entropy) {
			c.Fail("C19 held key file %d: does not decrypt with its own password %q after being held in memory: %s — a key file must decrypt with its password to exactly the entropy it was created from (entropy %x)", i, h.o.pw, kind, h.o.entropy)
		}
		h.kf.Path = filepath.Join(dir, fmt.Sprintf("held-%d-late.json", i))
		if err := h.kf.Write(); err != nil {
			c.Fail("C19 held key file %d: Write: %v", i, err)
			continue
		}
		rk, err := wallet.ReadKeyFile(h.kf.Path)
		if err != nil {
			c.Fail("C19 held key file %d: ReadKeyFile after a late Write: %v", i, err)
			continue
		}
		ks2, kind2 := kfTryDecrypt(rk, h.o.pw)
		if kind2 != "ok" || !bytes.Equal(ks2.Entropy, h.o.entropy) {
			c.Fail("C19 held key file %d: the file WRITTEN from an object that had been held in memory does not open with its password: %s (entropy %x lost)", i, kind2, h.o.entropy)
		}
		c.Hit("held-keyfile")
	}
}
