package main

import (
	"encoding/json"
	"fmt"
	"math/big"

	"github.com/zenon-network/go-zenon/chain/nom"
	"github.com/zenon-network/go-zenon/common/types"
	"github.com/zenon-network/go-zenon/rpc/api"
	"github.com/zenon-network/go-zenon/vm/constants"
	"github.com/zenon-network/go-zenon/vm/embedded/definition"
)

// ---------------------------------------------------------------------------------------------------
// ledger stream, hostile numeric fields (C01): user send blocks whose amount is not an ordinary amount, delivered through
// EVERY way a block can reach the ledger of a node:
//   template   Supervisor.GenerateFromTemplate (the node's own wallet path) + insertion
//   raw        a block completed by hand (all fields, hash, signature with the account's key) -> Supervisor.ApplyBlock
//   proto      the same block through the wire form first (Serialize / DeserializeAccountBlock: what a peer sends)
//   json-nom   the same block through nom.AccountBlock's JSON form, the amount / nonce TEXT altered there, decoded by the
//              real UnmarshalJSON, hash and signature made for what the decoder produced -> ApplyBlock
//   json-rpc   the JSON parameter of ledger.publishRawTransaction: api.AccountBlock JSON (the RPC's own decoder, which
//              ignores a malformed nonce) -> LedgerApi.PublishRawTransaction on an in-process API object
// amounts: -a for an affordable a, -1, -balance, -(balance+1), -2^254, -(2^255-1), -2^255, -2^256, 2^255-1, 2^255, 2^256-1,
// 2^256, 2^256+a, balance, balance+1, 0, a; JSON texts in addition: "+a", zero-padded, "-0", "-00a", spaces, "a.0", "1e3",
// "0x10", "", "-", "--a", a unicode minus, a JSON number instead of a string; nonce texts: 16 hex digits, upper case, too
// short / long, empty, "0x"-prefixed, not hex. The hash of a block covers only the absolute value of the amount, so every
// negative amount comes with a hash and signature that are valid for the block.
// After EVERY attempt the conservation monitor of the pool state runs; an accepted block goes through recordAccepted (own
// balance changed by exactly the recorded amount) and is part of the history from then on (received later, confirmed,
// replayed by the Lean ledger model, conservation at every momentum).
// ---------------------------------------------------------------------------------------------------

type hostileAmount struct {
	name string
	f    func(bal, a *big.Int) *big.Int
}

func bigPow2i(k uint) *big.Int { return new(big.Int).Lsh(big.NewInt(1), k) }
func bigNeg(x *big.Int) *big.Int { return new(big.Int).Neg(x) }

var hostileAmounts = []hostileAmount{
	{"-a", func(bal, a *big.Int) *big.Int { return bigNeg(a) }},
	{"-1", func(bal, a *big.Int) *big.Int { return big.NewInt(-1) }},
	{"-balance", func(bal, a *big.Int) *big.Int { return bigNeg(bal) }},
	{"-(balance+1)", func(bal, a *big.Int) *big.Int { return bigNeg(new(big.Int).Add(bal, big.NewInt(1))) }},
	{"-2^254", func(bal, a *big.Int) *big.Int { return bigNeg(bigPow2i(254)) }},
	{"-(2^255-1)", func(bal, a *big.Int) *big.Int { return bigNeg(new(big.Int).Sub(bigPow2i(255), big.NewInt(1))) }},
	{"-2^255", func(bal, a *big.Int) *big.Int { return bigNeg(bigPow2i(255)) }},
	{"-2^256", func(bal, a *big.Int) *big.Int { return bigNeg(bigPow2i(256)) }},
	{"2^255-1", func(bal, a *big.Int) *big.Int { return new(big.Int).Sub(bigPow2i(255), big.NewInt(1)) }},
	{"2^255", func(bal, a *big.Int) *big.Int { return bigPow2i(255) }},
	{"2^256-1", func(bal, a *big.Int) *big.Int { return new(big.Int).Sub(bigPow2i(256), big.NewInt(1)) }},
	{"2^256", func(bal, a *big.Int) *big.Int { return bigPow2i(256) }},
	{"2^256+a", func(bal, a *big.Int) *big.Int { return new(big.Int).Add(bigPow2i(256), a) }},
	{"2^256-a", func(bal, a *big.Int) *big.Int { return new(big.Int).Sub(bigPow2i(256), a) }},
	{"balance", func(bal, a *big.Int) *big.Int { return new(big.Int).Set(bal) }},
	{"balance+1", func(bal, a *big.Int) *big.Int { return new(big.Int).Add(bal, big.NewInt(1)) }},
	{"0", func(bal, a *big.Int) *big.Int { return big.NewInt(0) }},
	{"a", func(bal, a *big.Int) *big.Int { return new(big.Int).Set(a) }},
}

// textual forms of an amount in JSON (the value is a JSON string unless the form says otherwise)
type hostileText struct {
	name string
	f    func(v *big.Int) string // the raw JSON value (with quotes)
}

func jq(s string) string { b, _ := json.Marshal(s); return string(b) }

var hostileTexts = []hostileText{
	{"plain", func(v *big.Int) string { return jq(v.String()) }},
	{"plus-sign", func(v *big.Int) string { return jq("+" + new(big.Int).Abs(v).String()) }},
	{"minus-sign", func(v *big.Int) string { return jq("-" + new(big.Int).Abs(v).String()) }},
	{"zero-padded", func(v *big.Int) string {
		if v.Sign() < 0 {
			return jq("-000" + new(big.Int).Abs(v).String())
		}
		return jq("000" + v.String())
	}},
	{"minus-zero", func(v *big.Int) string { return jq("-0") }},
	{"leading-space", func(v *big.Int) string { return jq(" " + v.String()) }},
	{"trailing-space", func(v *big.Int) string { return jq(v.String() + " ") }},
	{"decimal-point", func(v *big.Int) string { return jq(v.String() + ".0") }},
	{"exponent", func(v *big.Int) string { return jq("-1e3") }},
	{"hex", func(v *big.Int) string { return jq("-0x10") }},
	{"empty", func(v *big.Int) string { return jq("") }},
	{"lone-minus", func(v *big.Int) string { return jq("-") }},
	{"double-minus", func(v *big.Int) string { return jq("--" + new(big.Int).Abs(v).String()) }},
	{"unicode-minus", func(v *big.Int) string { return jq("−" + new(big.Int).Abs(v).String()) }},
	{"underscores", func(v *big.Int) string { return jq("-1_000") }},
	{"json-number", func(v *big.Int) string { return v.String() }},
}

var hostileNonces = []string{`"0000000000000000"`, `"00000000000000AB"`, `"00000000000000ab"`, `""`, `"00"`, `"0x0000000000000000"`, `"000000000000000000"`, `"zz00000000000000"`, `"-000000000000001"`}

// handSend: a user send completed by hand on the current frontier of `from` (plasma paid by fused plasma: the ledger
// stream's senders all have the maximum fused), not yet hashed
func (r *ledgerRun) handSend(from, to types.Address, tok types.ZenonTokenStandard, amount *big.Int, data []byte) *nom.AccountBlock {
	n := r.n
	fm, _ := n.Chain().GetFrontierMomentumStore().GetFrontierMomentum()
	fr, _ := n.Chain().GetFrontierAccountStore(from).Frontier()
	prev := types.ZeroHashHeight
	if fr != nil {
		prev = fr.Identifier()
	}
	b := &nom.AccountBlock{Version: 1, ChainIdentifier: n.Chain().ChainIdentifier(), BlockType: nom.BlockTypeUserSend, Address: from, Height: prev.Height + 1,
		PreviousHash: prev.Hash, MomentumAcknowledged: fm.Identifier(), ToAddress: to, TokenStandard: tok, Amount: amount, Data: data}
	b.FusedPlasma = uint64(len(data))*constants.ABByteDataPlasma + constants.AccountBlockBasePlasma
	return b
}

func signBlock(b *nom.AccountBlock) bool {
	kp := keyOf(b.Address)
	if kp == nil {
		return false
	}
	ok := true
	if p := safely(func() {
		b.Hash = b.ComputeHash()
		sig, _, pub, err := kp.Signer(b.Hash.Bytes())
		if err != nil {
			ok = false
			return
		}
		b.Signature, b.PublicKey = sig, pub
	}); p != "" {
		return false
	}
	return ok
}

// alterJSON replaces the raw values of top-level fields of a JSON object
func alterJSON(raw []byte, repl map[string]string) ([]byte, error) {
	var m map[string]json.RawMessage
	if err := json.Unmarshal(raw, &m); err != nil {
		return nil, err
	}
	for k, v := range repl {
		m[k] = json.RawMessage(v)
	}
	return json.Marshal(m)
}

// hostileBurst: `budget` attempts; (path, amount, text) are taken in rotation from `round` so that every path meets every
// amount over a run, plus random draws
func (r *ledgerRun) hostileBurst(users, everyone []types.Address, tok types.ZenonTokenStandard, round, budget int) {
	c, n := r.c, r.n
	paths := []string{"template", "raw", "proto", "json-nom", "json-rpc"}
	for k := 0; k < budget && !r.failed; k++ {
		from := users[c.R.Intn(len(users))]
		to := everyone[c.R.Intn(len(everyone))]
		if c.R.Intn(6) == 0 {
			to = types.TokenContract // e.g. a Burn call with a hostile amount
		}
		if k > 0 && c.R.Intn(3) == 0 {
			tok = []types.ZenonTokenStandard{types.ZnnTokenStandard, types.QsrTokenStandard}[c.R.Intn(2)]
		}
		if c.R.Intn(5) == 0 && to != types.TokenContract {
			// a data-only send: no token standard at all — the amount rules still apply (it must be exactly zero)
			tok = types.ZeroTokenStandard
			c.Hit("hostile-zero-token-standard")
		}
		bal, _ := n.Chain().GetFrontierAccountStore(from).GetBalance(tok)
		if bal == nil {
			bal = new(big.Int)
		}
		a := big.NewInt(int64(1 + c.R.Intn(1000)))
		if bal.Sign() > 0 && c.R.Intn(2) == 0 {
			a = new(big.Int).Add(new(big.Int).Rand(c.R, bal), big.NewInt(1))
		}
		idx := round*budget + k
		path := paths[idx%len(paths)]
		ha := hostileAmounts[(idx/len(paths))%len(hostileAmounts)]
		if k%2 == 1 {
			ha = hostileAmounts[c.R.Intn(len(hostileAmounts))]
		}
		v := ha.f(bal, a)
		var data []byte
		if to == types.TokenContract {
			data = tokenBurnCall
		}
		before := r.balancesOf(from)
		label := path + ":" + ha.name
		var hash types.Hash
		switch path {
		case "template":
			b, err := n.Submit(&nom.AccountBlock{BlockType: nom.BlockTypeUserSend, Address: from, ToAddress: to, TokenStandard: tok, Amount: v, Data: data})
			if err == nil {
				hash = b.Hash
			}
		case "raw", "proto":
			b := r.handSend(from, to, tok, v, data)
			if !signBlock(b) {
				c.Hit("hostile-unsignable")
				continue
			}
			deliver := b
			if path == "proto" {
				var nb *nom.AccountBlock
				if p := safely(func() { nb = cloneBlock(b) }); p != "" || nb == nil {
					c.Hit("hostile-not-serializable:" + ha.name)
					r.poolMonitor(nil)
					continue
				}
				deliver = nb
			}
			if err := n.SubmitExternal(deliver); err == nil {
				hash = b.Hash
			}
		default: // the JSON forms
			b := r.handSend(from, to, tok, new(big.Int).Abs(v), data)
			if v.BitLen() > 300 {
				b.Amount = big.NewInt(1)
			}
			signBlock(b)
			var raw []byte
			var err error
			if path == "json-rpc" {
				raw, err = json.Marshal(&api.AccountBlock{AccountBlock: *b})
			} else {
				raw, err = json.Marshal(b)
			}
			if err != nil {
				c.Hit("hostile-json-marshal-failed")
				continue
			}
			ht := hostileTexts[(idx/(len(paths)*2))%len(hostileTexts)]
			if c.R.Intn(3) == 0 {
				ht = hostileTexts[c.R.Intn(len(hostileTexts))]
			}
			repl := map[string]string{"amount": ht.f(v)}
			label += ":" + ht.name
			c.Hit("hostile-json-text:" + ht.name)
			if c.R.Intn(4) == 0 {
				nt := hostileNonces[c.R.Intn(len(hostileNonces))]
				repl["nonce"] = nt
				label += ":nonce" + nt
			}
			raw, err = alterJSON(raw, repl)
			if err != nil {
				c.Hit("hostile-json-alter-failed")
				continue
			}
			// what does the real decoder make of it? The sender signs THAT block.
			decode := func(raw []byte) (*nom.AccountBlock, *api.AccountBlock, error) {
				if path == "json-rpc" {
					ab := new(api.AccountBlock)
					var derr error
					if p := safely(func() { derr = json.Unmarshal(raw, ab) }); p != "" {
						return nil, nil, fmt.Errorf("panic: %s", p)
					}
					return &ab.AccountBlock, ab, derr
				}
				nb := new(nom.AccountBlock)
				var derr error
				if p := safely(func() { derr = json.Unmarshal(raw, nb) }); p != "" {
					return nil, nil, fmt.Errorf("panic: %s", p)
				}
				return nb, nil, derr
			}
			dec, _, derr := decode(raw)
			if derr != nil || dec == nil || dec.Amount == nil {
				c.Hit("hostile-json-decoder-refuses:" + ht.name)
				r.poolMonitor(nil)
				continue
			}
			c.Hit(fmt.Sprintf("hostile-json-decoded-sign:%d", dec.Amount.Sign()))
			if !signBlock(dec) {
				c.Hit("hostile-unsignable")
				continue
			}
			hj, _ := json.Marshal(dec.Hash)
			sj, _ := json.Marshal(dec.Signature)
			pj, _ := json.Marshal(dec.PublicKey)
			raw, err = alterJSON(raw, map[string]string{"hash": string(hj), "signature": string(sj), "publicKey": string(pj)})
			if err != nil {
				continue
			}
			fin, finApi, derr := decode(raw)
			if derr != nil || fin == nil {
				c.Hit("hostile-json-decoder-refuses-final")
				continue
			}
			if path == "json-rpc" {
				l := api.NewLedgerApi(n.Z)
				var perr error
				if p := safely(func() { perr = l.PublishRawTransaction(finApi) }); p != "" {
					perr = fmt.Errorf("panic: %s", p)
				}
				_ = perr // the RPC answers nil even when the insertion fails: the ledger decides below
				if held, _ := n.Chain().GetFrontierAccountStore(from).ByHash(fin.Hash); held != nil {
					hash = fin.Hash
				}
			} else if err := n.SubmitExternal(fin); err == nil {
				hash = fin.Hash
			}
		}
		statsLabel := path + ":" + ha.name
		if hash.IsZero() {
			c.Hit("hostile-refused:" + statsLabel)
			c.Hit("hostile-refused")
			r.poolMonitor(nil) // a refused block must leave nothing behind either
			continue
		}
		c.Hit("hostile-accepted:" + statsLabel)
		c.Hit("hostile-accepted")
		r.note = fmt.Sprintf("submitted through path %s with amount %s (%s) to %s", label, amt(v), tokName(tok), addrName(to))
		r.recordAccepted("hostile-"+path, from, hash, before)
		r.note = ""
	}
}

var tokenBurnCall = definition.ABIToken.PackMethodPanic(definition.BurnMethodName)
