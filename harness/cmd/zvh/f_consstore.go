package main

import (
	"fmt"
	"go/ast"
	"io/fs"
	"os"
	"path/filepath"
	"sort"
	"strings"

	"google.golang.org/protobuf/reflect/protoreflect"

	"github.com/zenon-network/go-zenon/consensus/storage"
	"github.com/zenon-network/go-zenon/vm/constants"
)

// Facts for the consensus store model (Model/ConsensusStore.lean, Props/C05Store.lean; C05 + C11):
//   - the key prefixes of consensus/storage/db.go (live constants) and the source of the two key constructors;
//   - the protobuf schema of the four generated message types, read from their DESCRIPTORS (name, number, kind,
//     cardinality) — not from struct tags, so that `repeated bytes` and `fixed32` are told apart;
//   - the composite literals of the hand-written Marshal / Unmarshal methods (target field, source expression);
//   - the Go types of the containers Marshal iterates (a map for Point.Pillars: the record order is not canonical);
//   - every zero-argument `.Marshal()` call of the tree and every use of its result (the bytes go to db.Put only:
//     nothing hashes or compares them);
//   - the size of the LRU caches a node runs with (expression in NewConsensus + its value for the live constants).

func descSchema(f *factFile, name string, md protoreflect.MessageDescriptor) {
	fields := md.Fields()
	ss := []string{}
	for i := 0; i < fields.Len(); i++ {
		fd := fields.Get(i)
		card := "singular"
		if fd.Cardinality() == protoreflect.Repeated {
			card = "repeated"
		}
		if fd.IsMap() {
			card = "map"
		}
		if fd.HasPresence() && fd.Kind() != protoreflect.MessageKind {
			card += "+presence"
		}
		ss = append(ss, fmt.Sprintf("(%q, %d, %q, %q)", string(fd.Name()), int(fd.Number()), fd.Kind().String(), card))
	}
	f.raw("def %s : List (String × Nat × String × String) := [\n  %s]\n", name, strings.Join(ss, ",\n  "))
}

// marshalCallSites lists, for every non-test .go file of the tree, the functions that contain a zero-argument call
// `<x>.Marshal()` and every expression statement / call in that function that mentions the variable the result was
// assigned to (other than the assignment itself and the `err` handling).
func marshalCallSites(repo string) (callers []string, uses []string, err error) {
	var files []string
	err = filepath.WalkDir(repo, func(p string, d fs.DirEntry, e error) error {
		if e != nil {
			return e
		}
		if d.IsDir() {
			if n := d.Name(); n == ".git" || n == "vendor" || n == "node_modules" {
				return filepath.SkipDir
			}
			return nil
		}
		if strings.HasSuffix(p, ".go") && !strings.HasSuffix(p, "_test.go") && !strings.HasSuffix(p, "_verif.go") && !strings.HasSuffix(p, ".pb.go") {
			files = append(files, p)
		}
		return nil
	})
	if err != nil {
		return
	}
	sort.Strings(files)
	for _, p := range files {
		src, e := os.ReadFile(p)
		if e != nil {
			return nil, nil, e
		}
		if !strings.Contains(string(src), ".Marshal()") {
			continue
		}
		rel, _ := filepath.Rel(repo, p)
		fset, af, e := parseFile(repo, rel)
		if e != nil {
			return nil, nil, e
		}
		pk := &astPkg{fset: fset}
		for _, d := range af.Decls {
			fd, ok := d.(*ast.FuncDecl)
			if !ok || fd.Body == nil {
				continue
			}
			results := []string{}
			ast.Inspect(fd.Body, func(n ast.Node) bool {
				as, ok := n.(*ast.AssignStmt)
				if !ok || len(as.Rhs) != 1 {
					return true
				}
				c, ok := as.Rhs[0].(*ast.CallExpr)
				if !ok || len(c.Args) != 0 {
					return true
				}
				if s, ok := c.Fun.(*ast.SelectorExpr); ok && s.Sel.Name == "Marshal" {
					if id, ok := as.Lhs[0].(*ast.Ident); ok {
						results = append(results, id.Name)
					}
				}
				return true
			})
			// a `.Marshal()` call whose result is not bound to a plain variable is reported as such
			bare := 0
			ast.Inspect(fd.Body, func(n ast.Node) bool {
				if c, ok := n.(*ast.CallExpr); ok && len(c.Args) == 0 {
					if s, ok := c.Fun.(*ast.SelectorExpr); ok && s.Sel.Name == "Marshal" {
						bare++
					}
				}
				return true
			})
			if bare == 0 {
				continue
			}
			callers = append(callers, filepath.ToSlash(rel)+":"+fd.Name.Name)
			if bare != len(results) {
				uses = append(uses, fmt.Sprintf("%s: %d Marshal() calls, %d bound to a variable", fd.Name.Name, bare, len(results)))
			}
			for _, v := range results {
				ast.Inspect(fd.Body, func(n ast.Node) bool {
					c, ok := n.(*ast.CallExpr)
					if !ok {
						return true
					}
					mentions := false
					for _, a := range c.Args {
						ast.Inspect(a, func(m ast.Node) bool {
							if id, ok := m.(*ast.Ident); ok && id.Name == v {
								mentions = true
							}
							return true
						})
					}
					if mentions {
						uses = append(uses, pk.exprString(c))
						return false
					}
					return true
				})
				// any other mention (return, assignment to something else, indexing …)
				ast.Inspect(fd.Body, func(n ast.Node) bool {
					switch s := n.(type) {
					case *ast.ReturnStmt:
						for _, r := range s.Results {
							if id, ok := r.(*ast.Ident); ok && id.Name == v {
								uses = append(uses, "return "+v)
							}
						}
					case *ast.AssignStmt:
						for _, r := range s.Rhs {
							ast.Inspect(r, func(m ast.Node) bool {
								if _, isCall := m.(*ast.CallExpr); isCall {
									return false // calls are listed above
								}
								if id, ok := m.(*ast.Ident); ok && id.Name == v {
									uses = append(uses, pk.exprString(s))
								}
								return true
							})
						}
					}
					return true
				})
			}
		}
	}
	return
}

func init() {
	factGens = append(factGens, func(repo string) (*factFile, error) {
		f := newFactFile("ConsStore")
		f.raw("-- consensus/storage/db.go (live constants)\n")
		f.nat("csPrefixPeriodPoint", int(storage.PrefixPeriodPoint))
		f.nat("csPrefixEpochPoint", int(storage.PrefixEpochPoint))
		f.nat("csNumPointTypes", storage.NumPointTypes)
		f.nat("csPrefixElectionResult", int(storage.PrefixElectionResult))
		f.nat("csPointKeyLen", len(storage.CreatePointKey(0, 0)))
		f.nat("csElectionKeyLen", len(storage.CreateElectionResultKey([32]byte{})))

		f.raw("\n-- protobuf descriptors of the generated message types: (field, number, kind, cardinality)\n")
		descSchema(f, "csElectionDataSchema", (&storage.ElectionDataProto{}).ProtoReflect().Descriptor())
		descSchema(f, "csPillarDelegationSchema", (&storage.PillarDelegationProto{}).ProtoReflect().Descriptor())
		descSchema(f, "csConsensusPointSchema", (&storage.ConsensusPointProto{}).ProtoReflect().Descriptor())
		descSchema(f, "csProducerDetailSchema", (&storage.ProducerDetailProto{}).ProtoReflect().Descriptor())
		f.raw("def csProtoSyntax : List String := [%q, %q]\n",
			(&storage.ElectionDataProto{}).ProtoReflect().Descriptor().ParentFile().Syntax().String(),
			(&storage.ConsensusPointProto{}).ProtoReflect().Descriptor().ParentFile().Syntax().String())

		pkg, err := parsePkgDir(filepath.Join(repo, "consensus", "storage"))
		if err != nil {
			return nil, err
		}
		f.raw("\n-- hand-written Marshal / Unmarshal: composite literals (target field, source expression)\n")
		for _, s := range []struct{ recv, name, lit, lean string }{
			{"ElectionData", "Marshal", "PillarDelegationProto", "csDelegationProtoAssign"},
			{"ElectionData", "Unmarshal", "types.PillarDelegation", "csDelegationAssign"},
			{"Point", "Unmarshal", "ProducerDetail", "csProducerDetailAssign"},
		} {
			ps, err := pkg.compositeAssign(s.recv, s.name, s.lit)
			if err != nil {
				return nil, err
			}
			pairList(f, s.lean, ps)
		}
		f.raw("\n-- containers the Marshal methods iterate: struct field types and the range expressions, in source order\n")
		for _, st := range []struct{ name, lean string }{{"ElectionData", "csElectionDataFields"}, {"Point", "csPointFields"}, {"ProducerDetail", "csProducerDetailFields"}} {
			fl, err := pkg.structFields(st.name)
			if err != nil {
				return nil, err
			}
			pairList(f, st.lean, fl)
		}
		rangesOverMap := false
		for _, m := range []struct{ recv, lean string }{{"ElectionData", "csElectionMarshalRanges"}, {"Point", "csPointMarshalRanges"}} {
			fd, _, err := pkg.method(m.recv, "Marshal")
			if err != nil {
				return nil, err
			}
			rs := []string{}
			ast.Inspect(fd.Body, func(n ast.Node) bool {
				if r, ok := n.(*ast.RangeStmt); ok {
					rs = append(rs, pkg.exprString(r.X))
				}
				return true
			})
			f.strList(m.lean, rs)
			if m.recv == "Point" {
				fl, _ := pkg.structFields("Point")
				for _, x := range rs {
					for _, fld := range fl {
						if x == "p."+fld[0] && strings.HasPrefix(fld[1], "map[") {
							rangesOverMap = true
						}
					}
				}
			}
		}
		f.raw("def csPointMarshalRangesOverMap : Bool := %v\n", rangesOverMap)

		f.raw("\n-- key constructors (source)\n")
		for _, s := range []struct{ name, lean string }{{"CreatePointKey", "src_CreatePointKey"}, {"CreateElectionResultKey", "src_CreateElectionResultKey"}} {
			src, err := pkg.funcSource("", s.name)
			if err != nil {
				return nil, err
			}
			f.raw("def %s : String := %q\n", s.lean, src)
		}

		f.raw("\n-- every zero-argument `.Marshal()` call in the non-test, non-generated sources of the tree, and every use of its result\n")
		callers, uses, err := marshalCallSites(repo)
		if err != nil {
			return nil, err
		}
		f.strList("csMarshalCallers", callers)
		f.strList("csMarshalResultUses", uses)

		f.raw("\n-- consensus/consensus.go NewConsensus: size of the election cache and of each point cache\n")
		fset, cs, err := parseFile(repo, "consensus/consensus.go")
		if err != nil {
			return nil, err
		}
		cpk := &astPkg{fset: fset}
		nc := findFunc(cs, "", "NewConsensus")
		if nc == nil {
			return nil, fmt.Errorf("consensus/consensus.go: NewConsensus not found")
		}
		expr, args := "", []string{}
		ast.Inspect(nc.Body, func(n ast.Node) bool {
			switch s := n.(type) {
			case *ast.AssignStmt:
				if id, ok := s.Lhs[0].(*ast.Ident); ok && id.Name == "cacheSize" && len(s.Rhs) == 1 {
					expr = cpk.exprString(s.Rhs[0])
				}
			case *ast.CallExpr:
				if cpk.exprString(s.Fun) == "storage.NewConsensusDB" {
					for _, a := range s.Args {
						args = append(args, cpk.exprString(a))
					}
				}
			}
			return true
		})
		f.raw("def csCacheSizeExpr : String := %q\n", expr)
		f.strList("csNewConsensusDBArgs", args)
		f.nat("csCacheSize", 7*24*60*60/(constants.ConsensusConfig.BlockTime*int64(constants.ConsensusConfig.NodeCount)))
		return f, nil
	})
}
