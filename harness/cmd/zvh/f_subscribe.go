package main

import (
	"fmt"
	"go/ast"
	"go/parser"
	"go/token"
	"path/filepath"
	"sort"
	"strings"
)

// Subscribe: AST facts of rpc/api/subscribe about the confinement of the subscription table (Server.subscriptions) to the
// worker goroutine. The momentum listener (Server.InsertMomentum) runs on the inserting goroutine, the Api methods on the
// goroutines of the RPC server: both may only hand over through channels.
//
//	subscribeAccess   (function, kind) for every selector `.subscriptions` (whatever it is selected from) and every
//	                  `subscriptions:` field of a composite literal, in source order; kinds: composite-init, assign,
//	                  write-index, delete, range, read-index, read (any other use: the map value itself escapes)
//	subscribeCallers  (callee, caller, viaGo) for every function that reaches such an access - directly or through calls
//	                  that stay on the calling goroutine - and every reference to it in the package: a selector or a plain
//	                  identifier with the function's name, whatever it is selected from (call, method value, defer alike:
//	                  names of unexported methods cannot belong to another package, so this over-approximates only);
//	                  viaGo = the reference stands in a `go` statement or in a function literal started by one, so the
//	                  callee runs on a new goroutine, not on the caller's
//	subscribeGoSites  function:started expression for every `go` statement of the package
func init() {
	factGens = append(factGens, func(repo string) (*factFile, error) {
		dir := filepath.Join(repo, "rpc", "api", "subscribe")
		names, err := dbeGoFiles(dir)
		if err != nil {
			return nil, err
		}
		type fn struct {
			name string // Type.method or function
			bare string
			decl *ast.FuncDecl
		}
		var fns []fn
		for _, name := range names {
			f, err := parser.ParseFile(token.NewFileSet(), filepath.Join(dir, name), nil, 0)
			if err != nil {
				return nil, err
			}
			for _, d := range f.Decls {
				if fd, ok := d.(*ast.FuncDecl); ok && fd.Body != nil {
					fns = append(fns, fn{dbeFuncName(fd), fd.Name.Name, fd})
				}
			}
		}
		byBare := map[string][]string{} // bare name -> full names (several receiver types may share a method name)
		for _, f := range fns {
			byBare[f.bare] = append(byBare[f.bare], f.name)
		}
		// one pass per function: accesses, references to package functions (with the go flag), go statements
		type ref struct {
			callee, caller string
			viaGo          bool
		}
		var access, goSites []string
		var refs []ref
		direct := map[string]bool{}
		for _, f := range fns {
			var stack []ast.Node
			selName := map[*ast.Ident]bool{}
			goLits := map[*ast.FuncLit]bool{}
			inGo := func() bool {
				for _, n := range stack {
					switch x := n.(type) {
					case *ast.GoStmt:
						return true
					case *ast.FuncLit:
						if goLits[x] {
							return true
						}
					}
				}
				return false
			}
			addRef := func(bare string) {
				for _, full := range byBare[bare] {
					refs = append(refs, ref{full, f.name, inGo()})
				}
			}
			ast.Inspect(f.decl.Body, func(n ast.Node) bool {
				if n == nil {
					stack = stack[:len(stack)-1]
					return true
				}
				stack = append(stack, n)
				parent := func(i int) ast.Node {
					if len(stack)-1-i < 0 {
						return nil
					}
					return stack[len(stack)-1-i]
				}
				switch x := n.(type) {
				case *ast.GoStmt:
					what := dbeStr(x.Call.Fun)
					if lit, ok := x.Call.Fun.(*ast.FuncLit); ok {
						goLits[lit] = true
						what = "func"
					}
					goSites = append(goSites, fmt.Sprintf("%q", f.name+":"+what))
				case *ast.KeyValueExpr:
					if id, ok := x.Key.(*ast.Ident); ok && id.Name == "subscriptions" {
						if _, ok := parent(1).(*ast.CompositeLit); ok {
							access = append(access, fmt.Sprintf("(%q, %q)", f.name, "composite-init"))
							direct[f.name] = true
							selName[id] = true
						}
					}
				case *ast.SelectorExpr:
					selName[x.Sel] = true
					if x.Sel.Name == "subscriptions" {
						// climb through index expressions and parentheses
						i := 1
						indexed := false
						var cur ast.Node = x
						for {
							switch p := parent(i).(type) {
							case *ast.IndexExpr:
								if p.X == cur {
									indexed = true
									cur = p
									i++
									continue
								}
							case *ast.ParenExpr:
								cur = p
								i++
								continue
							}
							break
						}
						kind := "read"
						if indexed {
							kind = "read-index"
						}
						switch p := parent(i).(type) {
						case *ast.AssignStmt:
							for _, l := range p.Lhs {
								if l == cur {
									kind = "assign"
									if indexed {
										kind = "write-index"
									}
								}
							}
						case *ast.IncDecStmt:
							kind = "write-index"
						case *ast.RangeStmt:
							if p.X == cur {
								kind = "range"
							}
						case *ast.CallExpr:
							if id, ok := p.Fun.(*ast.Ident); ok && id.Name == "delete" && len(p.Args) > 0 && p.Args[0] == cur {
								kind = "delete"
							}
						case *ast.UnaryExpr:
							if p.Op == token.AND {
								kind = "read" // address taken: escapes
							}
						}
						access = append(access, fmt.Sprintf("(%q, %q)", f.name, kind))
						direct[f.name] = true
					} else if _, ok := byBare[x.Sel.Name]; ok {
						addRef(x.Sel.Name)
					}
				case *ast.Ident:
					if selName[x] {
						return true
					}
					if _, ok := byBare[x.Name]; ok {
						if x.Obj != nil {
							if _, isFunc := x.Obj.Decl.(*ast.FuncDecl); !isFunc {
								return true // a local variable / parameter of that name
							}
						}
						if kv, ok := parent(1).(*ast.KeyValueExpr); ok && kv.Key == ast.Expr(x) {
							return true // field name of a composite literal
						}
						addRef(x.Name)
					}
				}
				return true
			})
		}
		if len(access) == 0 {
			return nil, fmt.Errorf("subscribe: no access to .subscriptions found in %s", dir)
		}
		// functions that reach an access on their own goroutine: fixpoint over the references that are not behind `go`
		reach := map[string]bool{}
		for k := range direct {
			reach[k] = true
		}
		for changed := true; changed; {
			changed = false
			for _, r := range refs {
				if !r.viaGo && reach[r.callee] && !reach[r.caller] {
					reach[r.caller] = true
					changed = true
				}
			}
		}
		var reaching []string
		for k := range reach {
			reaching = append(reaching, k)
		}
		sort.Strings(reaching)
		seen := map[string]bool{}
		var callers []string
		for _, r := range refs {
			if !reach[r.callee] {
				continue
			}
			s := fmt.Sprintf("(%q, %q, %v)", r.callee, r.caller, r.viaGo)
			if !seen[s] {
				seen[s] = true
				callers = append(callers, s)
			}
		}
		sort.Strings(callers)
		// what the goroutines hand to one another: the value of every channel send, and every write to a field
		var sends, writes []string
		for _, fd := range fns {
			params := map[string]bool{}
			if fd.decl.Recv != nil {
				for _, p := range fd.decl.Recv.List {
					for _, nm := range p.Names {
						params[nm.Name] = true
					}
				}
			}
			for _, p := range fd.decl.Type.Params.List {
				for _, nm := range p.Names {
					params[nm.Name] = true
				}
			}
			// every right-hand side a local identifier is ever given in this function
			assigned := map[string][]ast.Expr{}
			ast.Inspect(fd.decl.Body, func(n ast.Node) bool {
				switch x := n.(type) {
				case *ast.AssignStmt:
					for i, l := range x.Lhs {
						if id, ok := l.(*ast.Ident); ok {
							if len(x.Rhs) == len(x.Lhs) {
								assigned[id.Name] = append(assigned[id.Name], x.Rhs[i])
							} else {
								assigned[id.Name] = append(assigned[id.Name], nil) // multi-value: not looked into
							}
						}
					}
					for _, l := range x.Lhs {
						root := l
						for {
							switch y := root.(type) {
							case *ast.IndexExpr:
								root = y.X
								continue
							case *ast.ParenExpr:
								root = y.X
								continue
							case *ast.StarExpr:
								root = y.X
								continue
							}
							break
						}
						if sel, ok := root.(*ast.SelectorExpr); ok {
							writes = append(writes, fmt.Sprintf("(%q, %q)", fd.name, sel.Sel.Name))
						}
					}
				case *ast.IncDecStmt:
					if sel, ok := x.X.(*ast.SelectorExpr); ok {
						writes = append(writes, fmt.Sprintf("(%q, %q)", fd.name, sel.Sel.Name))
					}
				case *ast.ValueSpec:
					for i, nm := range x.Names {
						if i < len(x.Values) {
							assigned[nm.Name] = append(assigned[nm.Name], x.Values[i])
						} else {
							assigned[nm.Name] = append(assigned[nm.Name], &ast.CompositeLit{}) // zero value
						}
					}
				case *ast.RangeStmt:
					for _, e := range []ast.Expr{x.Key, x.Value} {
						if id, ok := e.(*ast.Ident); ok {
							assigned[id.Name] = append(assigned[id.Name], nil)
						}
					}
				}
				return true
			})
			// fresh: allocated by this function for this send - a composite literal (or its address), make(...), the result
			// of a call of a package function, or append(<the same local>, ...) of a local that is otherwise fresh
			var freshExpr func(e ast.Expr, self string) bool
			freshExpr = func(e ast.Expr, self string) bool {
				switch x := e.(type) {
				case nil:
					return false
				case *ast.CompositeLit:
					return true
				case *ast.UnaryExpr:
					_, ok := x.X.(*ast.CompositeLit)
					return ok && x.Op == token.AND
				case *ast.CallExpr:
					if id, ok := x.Fun.(*ast.Ident); ok {
						switch {
						case id.Name == "make" || id.Name == "new":
							return true
						case id.Name == "append":
							if len(x.Args) == 0 {
								return false
							}
							a0, ok := x.Args[0].(*ast.Ident)
							return ok && self != "" && a0.Name == self
						default:
							_, isPkgFn := byBare[id.Name]
							if id.Obj != nil { // (resolved in the file: must be the function, not a local of that name)
								_, isFunc := id.Obj.Decl.(*ast.FuncDecl)
								return isPkgFn && isFunc
							}
							return isPkgFn
						}
					}
				}
				return false
			}
			ast.Inspect(fd.decl.Body, func(n ast.Node) bool {
				st, ok := n.(*ast.SendStmt)
				if !ok {
					return true
				}
				origin := "shared: " + dbeStr(st.Value)
				if freshExpr(st.Value, "") {
					origin = "fresh"
				} else if id, ok := st.Value.(*ast.Ident); ok {
					rhs, local := assigned[id.Name]
					switch {
					case params[id.Name]:
						origin = "param"
					case local && len(rhs) > 0:
						origin = "fresh"
						for _, e := range rhs {
							if !freshExpr(e, id.Name) {
								origin = "shared: " + id.Name + " = " + dbeStr(e)
								if e == nil {
									origin = "shared: " + id.Name
								}
								break
							}
						}
					}
				}
				sends = append(sends, fmt.Sprintf("(%q, %q, %q)", fd.name, dbeStr(st.Chan), origin))
				return true
			})
		}
		f := newFactFile("Subscribe")
		f.raw("-- every channel send of the package: (function, channel, where the value comes from); fresh = allocated by the\n")
		f.raw("-- sending function for this send (composite literal, make, result of a package function, append to such a local)\n")
		f.raw("def subscribeChanSends : List (String × String × String) := [\n  %s\n]\n", strings.Join(sends, ",\n  "))
		f.raw("-- every assignment to a field (selector on the left-hand side, also indexed / incremented): (function, field)\n")
		f.raw("def subscribeFieldWrites : List (String × String) := [\n  %s\n]\n", strings.Join(writes, ",\n  "))
		f.raw("-- rpc/api/subscribe: every access to the subscription table (function, kind), in source order\n")
		f.raw("def subscribeAccess : List (String × String) := [\n  %s\n]\n", strings.Join(access, ",\n  "))
		f.raw("-- functions that reach such an access without leaving their goroutine (directly or through calls)\n")
		f.strList("subscribeReaching", reaching)
		f.raw("-- every reference in the package to one of them: (callee, caller, the reference is started with `go`)\n")
		f.raw("def subscribeCallers : List (String × String × Bool) := [\n  %s\n]\n", strings.Join(callers, ",\n  "))
		f.raw("-- the `go` statements of the package\n")
		f.raw("def subscribeGoSites : List String := [%s]\n", strings.Join(goSites, ", "))
		return f, nil
	})
}
