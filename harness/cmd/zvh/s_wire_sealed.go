package main

// The "re-sealed" families of the frame and disc streams (C15). A corrupted copy of a valid frame / packet is stopped by the
// outermost check (MAC, hash) and never reaches the code behind it. A remote peer, however, holds its own keys: it can wrap ANY
// inner bytes in a correct hash, a correct signature, a correct MAC. The generators here mutate the inner bytes first and seal
// them afterwards with the harness's key, so that every length and every shape of the inner payload reaches the parsing code:
//
//	disc:  payload lengths 0, 1, 2, … (the empty payload has not even a packet-type byte), every truncation of the body, every
//	       packet-type byte, every number of list fields, trailing bytes, datagrams of 1279 / 1280 / 1281 bytes, expired and
//	       unexpired requests — through decodePacket under recover AND to a live ListenUDP node, which must keep answering an
//	       honest ping;
//	frame: frame contents of length 0, 1, …, code encodings that are empty / truncated / non-canonical / lists / wider than 64
//	       bits, padding boundaries, non-zero padding — through rlpxFrameRW.ReadMsg.
//
// The oracles are model-free: "malformed ⇒ error, never a panic, never a delivered message; well-formed ⇒ exactly these bytes".

import (
	"bytes"
	"crypto/aes"
	"crypto/cipher"
	"crypto/ecdsa"
	"fmt"
	"hash"
	"net"
	"time"

	"github.com/ethereum/go-ethereum/crypto"
	"github.com/ethereum/go-ethereum/rlp"
	"golang.org/x/crypto/sha3"

	"github.com/zenon-network/go-zenon/p2p/discover"
)

// ---- discovery -------------------------------------------------------------------------------------------

// sealPacket wraps an inner payload (packet-type byte + RLP body — or anything else, or nothing) the way a sender does:
// signature over keccak256(payload), then keccak256(signature ‖ payload) in front.
func sealPacket(priv *ecdsa.PrivateKey, payload []byte) []byte {
	sig, err := crypto.Sign(crypto.Keccak256(payload), priv)
	if err != nil {
		panic(err)
	}
	pkt := make([]byte, 32+len(sig)+len(payload))
	copy(pkt[32:], sig)
	copy(pkt[32+len(sig):], payload)
	copy(pkt, crypto.Keccak256(pkt[32:]))
	return pkt
}

// mirrors of the four request structures (the statement's wire format), used as the oracle of "well-formed"
type (
	dEndpoint struct {
		IP  net.IP
		UDP uint16
		TCP uint16
	}
	dPing struct {
		Version    uint
		From, To   dEndpoint
		Expiration uint64
	}
	dPong struct {
		To         dEndpoint
		ReplyTok   []byte
		Expiration uint64
	}
	dFindnode struct {
		Target     discover.NodeID
		Expiration uint64
	}
	dNode struct {
		IP  net.IP
		UDP uint16
		TCP uint16
		ID  discover.NodeID
	}
	dNeighbors struct {
		Nodes      []dNode
		Expiration uint64
	}
)

// discWellFormed: does the payload consist of a known packet-type byte followed by exactly one RLP value of that type's shape?
func discWellFormed(payload []byte) bool {
	if len(payload) < 1 {
		return false
	}
	var v interface{}
	switch payload[0] {
	case 1:
		v = new(dPing)
	case 2:
		v = new(dPong)
	case 3:
		v = new(dFindnode)
	case 4:
		v = new(dNeighbors)
	default:
		return false
	}
	return rlp.DecodeBytes(payload[1:], v) == nil
}

type sealedCase struct {
	label   string
	payload []byte
}

// discBodies: a valid body (RLP) for each packet type, as raw list elements so that fields can be dropped and added.
func discBodyFields(kind byte, id discover.NodeID, exp uint64, nNodes int) []interface{} {
	ep := dEndpoint{IP: net.IPv4(127, 0, 0, 1).To4(), UDP: 30303, TCP: 30303}
	switch kind {
	case 1:
		return []interface{}{uint(discover.Version), ep, ep, exp}
	case 2:
		return []interface{}{ep, make([]byte, 32), exp}
	case 3:
		return []interface{}{id, exp}
	default:
		nodes := make([]dNode, nNodes)
		for i := range nodes {
			nodes[i] = dNode{IP: net.IPv4(10, 0, 0, byte(i+1)).To4(), UDP: uint16(i + 1), TCP: uint16(i + 1), ID: id}
		}
		return []interface{}{nodes, exp}
	}
}

// discSweep: the directed family around every boundary of the inner payload. Deterministic given the arguments.
func discSweep(id discover.NodeID, future uint64) []sealedCase {
	var out []sealedCase
	add := func(label string, p []byte) { out = append(out, sealedCase{label, append([]byte{}, p...)}) }
	// no payload at all, and a payload that is a packet-type byte only: every type byte
	add("len0", nil)
	for t := 0; t < 256; t++ {
		add("type-only", []byte{byte(t)})
	}
	for kind := byte(1); kind <= 4; kind++ {
		fields := discBodyFields(kind, id, future, 2)
		body := mustRlp(fields)
		full := append([]byte{kind}, body...)
		// every truncation of the payload: lengths 1 … len-1 (0 is above), and the full payload
		for n := 1; n <= len(full); n++ {
			add("truncated", full[:n])
		}
		// the same body under every packet-type byte
		for t := 0; t < 256; t++ {
			add("type-sweep", append([]byte{byte(t)}, body...))
		}
		// trailing bytes behind a complete body
		for _, tail := range [][]byte{{0}, {0x80}, {0xc0}, {0xff}, {1, 2, 3}, bytes.Repeat([]byte{0xaa}, 64)} {
			add("trailing", append(append([]byte{}, full...), tail...))
		}
		// every number of list fields 0 … n+2 (dropped from the end, extra ones appended), an empty string instead of the list
		for k := 0; k <= len(fields)+2; k++ {
			fs := append([]interface{}{}, fields...)
			for len(fs) < k {
				fs = append(fs, uint64(len(fs)))
			}
			add("fields", append([]byte{kind}, mustRlp(fs[:k])...))
		}
		add("fields", []byte{kind, 0x80})
		// a list header that promises more / less than follows
		for _, d := range []int{-2, -1, 1, 2, 55, 56} {
			b := append([]byte{}, full...)
			if len(b) > 2 && b[1] >= 0xc0 && b[1] <= 0xf7 && int(b[1])+d >= 0xc0 && int(b[1])+d <= 0xf7 {
				b[1] = byte(int(b[1]) + d)
				add("listlen", b)
			} else if len(b) > 3 && b[1] == 0xf8 && int(b[2])+d >= 56 && int(b[2])+d <= 255 {
				b[2] = byte(int(b[2]) + d)
				add("listlen", b)
			}
		}
		// expiration: past, now-ish, future, extremes
		now := uint64(time.Now().Unix())
		for _, exp := range []uint64{0, 1, now - 1, now + 2, future, 1<<63 - 1, 1 << 63, 1<<64 - 1} {
			add("expiration", append([]byte{kind}, mustRlp(discBodyFields(kind, id, exp, 1))...))
		}
	}
	// wrong protocol version in a ping, an expiration wider than 64 bits, an IP of a wrong size
	ep := dEndpoint{IP: net.IPv4(127, 0, 0, 1).To4(), UDP: 1, TCP: 1}
	for _, v := range []uint{0, 3, 5, 1 << 31} {
		add("ping-version", append([]byte{1}, mustRlp([]interface{}{v, ep, ep, future})...))
	}
	add("wide-expiration", append([]byte{3}, mustRlp([]interface{}{id, make([]byte, 9)})...))
	for _, n := range []int{0, 1, 3, 5, 15, 16, 17, 64} {
		e := dEndpoint{IP: make(net.IP, n), UDP: 1, TCP: 1}
		add("ip-size", append([]byte{1}, mustRlp([]interface{}{uint(discover.Version), e, e, future})...))
	}
	// neighbors with 0 … 16 nodes, and datagrams of exactly 1279, 1280, 1281 bytes (the read buffer is 1280 bytes): a neighbors
	// list padded with nodes, then a trailing-garbage variant of every such size
	for n := 0; n <= 16; n++ {
		add("neighbors-n", append([]byte{4}, mustRlp(discBodyFields(4, id, future, n))...))
	}
	head := discover.HeadSizeVerif
	for _, total := range []int{1279, 1280, 1281, 1400} {
		// a valid ping followed by padding up to the size
		p := append([]byte{1}, mustRlp(discBodyFields(1, id, future, 0))...)
		for len(p)+head < total {
			p = append(p, 0)
		}
		add("oversize-padded", p[:total-head])
		// a neighbors body that is itself of that size: nodes of ~79 bytes each, the last bytes adjusted with an extra field
		for extra := 0; extra < 300; extra++ {
			fs := discBodyFields(4, id, future, 13)
			if extra > 0 {
				fs = append(fs, make([]byte, extra))
			}
			q := append([]byte{4}, mustRlp(fs)...)
			if len(q)+head == total {
				add("oversize-wellformed-list", q)
				break
			}
		}
	}
	return out
}

// discRandomSealed: one random member of the family.
func discRandomSealed(c *Ctx, id discover.NodeID, future uint64) sealedCase {
	kind := byte(1 + c.R.Intn(4))
	exp := []uint64{future, future, future, 0, 1, 1<<63 - 1, 1 << 63, 1<<64 - 1}[c.R.Intn(8)]
	fields := discBodyFields(kind, id, exp, c.R.Intn(13))
	full := append([]byte{kind}, mustRlp(fields)...)
	switch c.R.Intn(8) {
	case 0:
		return sealedCase{"r-truncated", full[:c.R.Intn(len(full)+1)]}
	case 1:
		full[0] = byte(c.R.Intn(256))
		return sealedCase{"r-type", full}
	case 2:
		tail := make([]byte, 1+c.R.Intn(40))
		c.R.Read(tail)
		return sealedCase{"r-trailing", append(full, tail...)}
	case 3:
		k := c.R.Intn(len(fields) + 3)
		fs := append([]interface{}{}, fields...)
		for len(fs) < k {
			fs = append(fs, uint64(c.R.Intn(300)))
		}
		return sealedCase{"r-fields", append([]byte{kind}, mustRlp(fs[:k])...)}
	case 4:
		pos := 1 + c.R.Intn(len(full)-1)
		full[pos] ^= 1 << uint(c.R.Intn(8))
		return sealedCase{"r-flip", full}
	case 5:
		p := make([]byte, c.R.Intn(6))
		c.R.Read(p)
		return sealedCase{"r-short-garbage", p}
	case 6:
		p := make([]byte, 1+c.R.Intn(120))
		c.R.Read(p)
		p[0] = kind
		return sealedCase{"r-garbage-body", p}
	default:
		return sealedCase{"r-valid", full}
	}
}

// discLive is a real discovery node on a loopback socket plus the sockets of the remote peers.
type discLive struct {
	tab      *discover.Table
	addr     *net.UDPAddr
	sock     *net.UDPConn // hostile / honest senders that never answer the node's own pings
	honest   *ecdsa.PrivateKey
	bondSock *net.UDPConn // a peer that completes the bond (answers the node's ping), so that its findnode requests are served
	bondKey  *ecdsa.PrivateKey
	sent     int
}

func newDiscLive() (*discLive, error) {
	nodeKey, err := crypto.GenerateKey()
	if err != nil {
		return nil, err
	}
	tab, err := discover.ListenUDP(nodeKey, "127.0.0.1:0", nil, "")
	if err != nil {
		return nil, err
	}
	l := &discLive{tab: tab, addr: &net.UDPAddr{IP: net.IPv4(127, 0, 0, 1), Port: int(tab.Self().UDP)}}
	if l.sock, err = net.ListenUDP("udp", &net.UDPAddr{IP: net.IPv4(127, 0, 0, 1)}); err != nil {
		tab.Close()
		return nil, err
	}
	if l.bondSock, err = net.ListenUDP("udp", &net.UDPAddr{IP: net.IPv4(127, 0, 0, 1)}); err != nil {
		l.sock.Close()
		tab.Close()
		return nil, err
	}
	l.honest, _ = crypto.GenerateKey()
	l.bondKey, _ = crypto.GenerateKey()
	return l, nil
}

func (l *discLive) close() {
	l.sock.Close()
	l.bondSock.Close()
	l.tab.Close()
}

func discFuture() uint64 { return uint64(time.Now().Add(15 * time.Second).Unix()) }

// pingPong sends an honest ping from `sock` and waits for the pong that echoes its hash. While waiting it answers the node's
// own pings when answer is set (that completes the bond). Three attempts of 2 s each: loopback datagrams can be dropped.
func (l *discLive) pingPong(sock *net.UDPConn, key *ecdsa.PrivateKey, answer bool) bool {
	me := sock.LocalAddr().(*net.UDPAddr)
	for attempt := 0; attempt < 3; attempt++ {
		from := dEndpoint{IP: net.IPv4(127, 0, 0, 1).To4(), UDP: uint16(me.Port), TCP: uint16(me.Port)}
		to := dEndpoint{IP: net.IPv4(127, 0, 0, 1).To4(), UDP: uint16(l.addr.Port)}
		ping := sealPacket(key, append([]byte{1}, mustRlp([]interface{}{uint(discover.Version), from, to, discFuture()})...))
		if _, err := sock.WriteToUDP(ping, l.addr); err != nil {
			continue
		}
		deadline := time.Now().Add(2 * time.Second)
		buf := make([]byte, 1500)
		got := false
		for {
			sock.SetReadDeadline(deadline)
			n, _, err := sock.ReadFromUDP(buf)
			if err != nil {
				break
			}
			if n <= discover.HeadSizeVerif {
				continue
			}
			payload := buf[discover.HeadSizeVerif:n]
			switch payload[0] {
			case 2:
				var p dPong
				if rlp.DecodeBytes(payload[1:], &p) == nil && bytes.Equal(p.ReplyTok, ping[:32]) {
					got = true
					if answer {
						// the node's own ping follows the pong: keep answering for a moment
						deadline = time.Now().Add(300 * time.Millisecond)
					}
				}
			case 1:
				if answer {
					pong := sealPacket(key, append([]byte{2}, mustRlp([]interface{}{to, append([]byte{}, buf[:32]...), discFuture()})...))
					sock.WriteToUDP(pong, l.addr)
				}
			}
			if got && !answer {
				break
			}
		}
		if got {
			return true
		}
	}
	return false
}

// drain empties a socket's receive queue (replies the node sent to hostile packets).
func drainUDP(sock *net.UDPConn) {
	buf := make([]byte, 1500)
	for {
		sock.SetReadDeadline(time.Now().Add(time.Millisecond))
		if _, _, err := sock.ReadFromUDP(buf); err != nil {
			return
		}
	}
}

// discSealed runs one sealed case: the codec under recover with the model-free oracle, then the live node.
// Returns false when decodePacket panicked (the datagram is then NOT sent to the live node: its read loop has no recover and
// would take the harness down with it — which is the very thing the failure reports).
func discSealed(c *Ctx, priv *ecdsa.PrivateKey, sc sealedCase, live *discLive, viaBond bool) bool {
	pkt := sealPacket(priv, sc.payload)
	wantID := discover.PubkeyID(&priv.PublicKey)
	var (
		kind byte
		id   discover.NodeID
		err  error
		pn   interface{}
	)
	func() {
		defer func() {
			if p := recover(); p != nil {
				pn = p
			}
		}()
		kind, id, _, err = discover.DecodePacketVerif(pkt)
	}()
	c.Hit("sealed-" + sc.label)
	wf := discWellFormed(sc.payload)
	verdict := "rejected"
	desc := fmt.Sprintf("family=%s datagram of %d bytes = correct hash ‖ valid signature ‖ payload of %d bytes [%s]; datagram %x", sc.label,
		len(pkt), len(sc.payload), hexHead(sc.payload, 40), pkt)
	switch {
	case pn != nil:
		verdict = "panic"
		c.Fail("C15 disc class=panic decodePacket panicked (%s) on a correctly hashed and signed datagram — udp.readLoop has no recover, the "+
			"node process ends: %s", firstLine(fmt.Sprint(pn)), desc)
	case err == nil && !wf:
		verdict = "accepted-malformed"
		c.Fail("C15 disc class=accepted-malformed decodePacket accepted (as type %d) a payload that is not a packet-type byte 1..4 followed by "+
			"one RLP value of that type: %s", kind, desc)
	case err == nil && (id != wantID || kind != sc.payload[0]):
		verdict = "accepted-misattributed"
		c.Fail("C15 disc class=misattributed decodePacket returned type %d / sender %x… for a payload of type %d signed by %x…: %s", kind, id[:6],
			sc.payload[0], wantID[:6], desc)
	case err == nil:
		verdict = "accepted"
	}
	c.Hit("sealed-verdict-" + verdict)
	c.Emit("disc sealed-%s %d | %s", sc.label, len(pkt), verdict)
	if pn != nil {
		return false
	}
	if live != nil {
		sock := live.sock
		if viaBond {
			sock = live.bondSock
		}
		sock.WriteToUDP(pkt, live.addr)
		live.sent++
		if live.sent%64 == 0 {
			// do not outrun the node's read loop (loopback drops datagrams when the receive queue is full)
			time.Sleep(2 * time.Millisecond)
			drainUDP(live.sock)
			drainUDP(live.bondSock)
		}
	}
	return true
}

// discLiveCheck: after everything sent so far the node still answers an honest ping.
func discLiveCheck(c *Ctx, live *discLive, after string) bool {
	if live == nil {
		return true
	}
	drainUDP(live.sock)
	ok := live.pingPong(live.sock, live.honest, false)
	c.Hit("live-ping-check")
	v := "pong"
	if !ok {
		v = "silent"
		c.Fail("C15 disc class=live-node-silent a ListenUDP node does not answer an honest ping (3 attempts of 2 s) after %d datagrams; last family: %s",
			live.sent, after)
	}
	c.Emit("disc live-ping %d | %s", live.sent, v)
	return ok
}

// ---- rlpx frames -----------------------------------------------------------------------------------------

// frameSealer writes frames the way rlpxFrameRW.WriteMsg does, but around ANY content bytes (WriteMsg can only produce
// rlp(code) ‖ payload). Header MAC and frame MAC are correct, so ReadMsg gets as far as interpreting the content.
type frameSealer struct {
	enc       cipher.Stream
	macCipher cipher.Block
	egress    hash.Hash
	buf       bytes.Buffer
}

func newFrameSealer(seed []byte) *frameSealer {
	aesKey := crypto.Keccak256(seed, []byte("aes"))
	macKey := crypto.Keccak256(seed, []byte("mac"))
	eg := sha3.NewLegacyKeccak256()
	eg.Write(crypto.Keccak256(seed, []byte("seed")))
	macc, err := aes.NewCipher(macKey)
	if err != nil {
		panic(err)
	}
	encc, err := aes.NewCipher(aesKey)
	if err != nil {
		panic(err)
	}
	return &frameSealer{enc: cipher.NewCTR(encc, make([]byte, encc.BlockSize())), macCipher: macc, egress: eg}
}

func sealUpdateMAC(mac hash.Hash, block cipher.Block, seed []byte) []byte {
	aesbuf := make([]byte, aes.BlockSize)
	block.Encrypt(aesbuf, mac.Sum(nil))
	for i := range aesbuf {
		aesbuf[i] ^= seed[i]
	}
	mac.Write(aesbuf)
	return mac.Sum(nil)[:16]
}

// frame appends one sealed frame. headerRest: the 13 header bytes behind the 24-bit size (nil = the usual zero header);
// pad: the byte used for padding up to the 16-byte boundary.
func (s *frameSealer) frame(content []byte, headerRest []byte, pad byte) {
	head := make([]byte, 32)
	n := len(content)
	head[0], head[1], head[2] = byte(n>>16), byte(n>>8), byte(n)
	if headerRest == nil {
		copy(head[3:], []byte{0xC2, 0x80, 0x80})
	} else {
		copy(head[3:16], headerRest)
	}
	s.enc.XORKeyStream(head[:16], head[:16])
	copy(head[16:], sealUpdateMAC(s.egress, s.macCipher, head[:16]))
	s.buf.Write(head)
	body := append([]byte{}, content...)
	for len(body)%16 != 0 {
		body = append(body, pad)
	}
	s.enc.XORKeyStream(body, body)
	s.egress.Write(body)
	s.buf.Write(body)
	fmacseed := s.egress.Sum(nil)
	s.buf.Write(sealUpdateMAC(s.egress, s.macCipher, fmacseed))
}

// frameOracle: what a frame content means — a leading RLP unsigned integer of at most 64 bits (the message code) and the rest.
func frameOracle(content []byte) (code uint64, rest []byte, ok bool) {
	r := bytes.NewReader(content)
	st := rlp.NewStream(r, 0)
	code, err := st.Uint()
	if err != nil {
		return 0, nil, false
	}
	return code, content[len(content)-r.Len():], true
}

// frameSweepContents: frame contents around every boundary of the code encoding and of the padding.
func frameSweepContents() (out []sealedCase) {
	add := func(label string, p []byte) { out = append(out, sealedCase{label, append([]byte{}, p...)}) }
	add("len0", nil) // a frame without even a message code
	for b := 0; b < 256; b++ {
		add("one-byte", []byte{byte(b)})
	}
	// string headers that promise 1..9 code bytes, with 0..promised+1 bytes following
	for n := 1; n <= 9; n++ {
		for have := 0; have <= n+1; have++ {
			p := []byte{0x80 + byte(n)}
			for i := 0; i < have; i++ {
				p = append(p, byte(0x11*(i+1)))
			}
			add("code-string", p)
		}
	}
	// non-canonical codes: a single byte < 0x80 wrapped in a string header, leading zero bytes, a long-form header
	for _, p := range [][]byte{{0x81, 0x05}, {0x81, 0x7f}, {0x81, 0x80}, {0x82, 0x00, 0x01}, {0x88, 0, 0, 0, 0, 0, 0, 0, 1}, {0xb8, 0x01, 0x05},
		{0xb8, 0x38}, {0xb9, 0x00, 0x01, 0x05}, {0xbf, 0xff, 0xff, 0xff, 0xff, 0xff, 0xff, 0xff, 0xff}} {
		add("code-noncanonical", p)
	}
	// lists where the code should be
	for _, p := range [][]byte{{0xc0}, {0xc1, 0x01}, {0xc1}, {0xf8, 0x01, 0x01}, {0xf8}, {0xff, 0xff, 0xff, 0xff, 0xff, 0xff, 0xff, 0xff, 0xff}} {
		add("code-list", p)
	}
	// a code followed by payloads whose total length walks over the 16-byte padding boundaries
	for _, code := range [][]byte{{0x00}, {0x10}, {0x80}, {0x81, 0x80}, {0x82, 0x01, 0x00}, {0x88, 0x80, 0, 0, 0, 0, 0, 0, 5}} {
		for _, total := range []int{1, 2, 15, 16, 17, 31, 32, 33, 47, 48, 49, 255, 256, 257} {
			if total < len(code) {
				continue
			}
			p := append([]byte{}, code...)
			for len(p) < total {
				p = append(p, byte(len(p)))
			}
			add("code+payload", p)
		}
	}
	return out
}
