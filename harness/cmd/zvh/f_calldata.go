package main

// Facts for C13/T4: every ValidateSendBlock of vm/embedded/implementation overwrites block.Data with the result
// of a PackMethod call before any `return nil`, i.e. an accepted send block carries re-packed call data.
//
//	Gen.validateSendRepack : (receiver type, assigns block.Data from PackMethod, no `return nil` before that)

import (
	"fmt"
	"go/ast"
	"go/token"
	"path/filepath"
	"sort"
	"strings"
)

func init() {
	factGens = append(factGens, func(repo string) (*factFile, error) {
		f := newFactFile("Calldata")
		pkg, err := parsePkgDir(filepath.Join(repo, "vm", "embedded", "implementation"))
		if err != nil {
			return nil, err
		}
		type ent struct {
			name         string
			repack, noNil bool
		}
		var ents []ent
		for _, file := range pkg.files {
			for _, d := range file.Decls {
				fd, ok := d.(*ast.FuncDecl)
				if !ok || fd.Name.Name != "ValidateSendBlock" || fd.Recv == nil || len(fd.Recv.List) != 1 || fd.Body == nil {
					continue
				}
				recv := strings.TrimPrefix(pkg.exprString(fd.Recv.List[0].Type), "*")
				param := ""
				if len(fd.Type.Params.List) == 1 && len(fd.Type.Params.List[0].Names) == 1 {
					param = fd.Type.Params.List[0].Names[0].Name
				}
				packPos := token.NoPos
				ast.Inspect(fd.Body, func(n ast.Node) bool {
					as, ok := n.(*ast.AssignStmt)
					if !ok || len(as.Lhs) == 0 || len(as.Rhs) != 1 {
						return true
					}
					if pkg.exprString(as.Lhs[0]) != param+".Data" {
						return true
					}
					if call, ok := as.Rhs[0].(*ast.CallExpr); ok {
						if sel, ok := call.Fun.(*ast.SelectorExpr); ok && sel.Sel.Name == "PackMethod" && packPos == token.NoPos {
							packPos = as.Pos()
						}
					}
					return true
				})
				noNil := true
				ast.Inspect(fd.Body, func(n ast.Node) bool {
					rs, ok := n.(*ast.ReturnStmt)
					if !ok || len(rs.Results) != 1 {
						return true
					}
					if id, ok := rs.Results[0].(*ast.Ident); ok && id.Name == "nil" && (packPos == token.NoPos || rs.Pos() < packPos) {
						noNil = false
					}
					return true
				})
				ents = append(ents, ent{recv, packPos != token.NoPos, noNil})
			}
		}
		sort.Slice(ents, func(i, j int) bool { return ents[i].name < ents[j].name })
		if len(ents) == 0 {
			return nil, fmt.Errorf("no ValidateSendBlock found in vm/embedded/implementation")
		}
		ss := make([]string, len(ents))
		for i, e := range ents {
			ss[i] = fmt.Sprintf("(%q, %v, %v)", e.name, e.repack, e.noNil)
		}
		f.raw("-- vm/embedded/implementation: (receiver type of ValidateSendBlock, block.Data := PackMethod(…), no `return nil` before it)\n")
		f.raw("def validateSendRepack : List (String × Bool × Bool) := [\n  %s]\n", strings.Join(ss, ",\n  "))
		return f, nil
	})
}
