package main

import (
	"fmt"
	"sort"
	"strings"

	"github.com/zenon-network/go-zenon/common/types"
	"github.com/zenon-network/go-zenon/vm/abi"
	"github.com/zenon-network/go-zenon/vm/embedded/definition"
)

// ---------------------------------------------------------------------------------------------------
// Generated fact Gen/Abi.lean (C09-T3): for every embedded ABI (definition.ABI*), every method's 4-byte selector and
// argument type list as a small type AST, plus every storage variable's type list, plus the sizes the decoder slices by.
// ---------------------------------------------------------------------------------------------------

type namedABI struct {
	name string
	abi  abi.ABIContract
}

// abiTables: the contract ABIs of allContractABIs plus definition.ABICommon (the methods shared by several contracts are
// unpacked against ABICommon by their ValidateSendBlock).
func abiTables() []namedABI {
	out := []namedABI{{"common", definition.ABICommon}}
	for _, ca := range allContractABIs {
		out = append(out, namedABI{embeddedNames[ca.addr][2:], ca.abi})
	}
	sort.Slice(out, func(i, j int) bool { return out[i].name < out[j].name })
	return out
}

// leanAbiTy renders an abi.Type as a term of ZV.Abi.Ty
func leanAbiTy(t abi.Type) string {
	switch t.T {
	case abi.UintTy:
		return fmt.Sprintf("(.uint %d)", t.Size)
	case abi.IntTy:
		return fmt.Sprintf("(.int %d)", t.Size)
	case abi.BoolTy:
		return ".bool"
	case abi.StringTy:
		return ".string"
	case abi.AddressTy:
		return ".address"
	case abi.TokenStandardTy:
		return ".tokenStandard"
	case abi.HashTy:
		return ".hash"
	case abi.BytesTy:
		return ".bytes"
	case abi.FixedBytesTy:
		return fmt.Sprintf("(.fixedBytes %d)", t.Size)
	case abi.SliceTy:
		return fmt.Sprintf("(.slice %s)", leanAbiTy(*t.Elem))
	case abi.ArrayTy:
		return fmt.Sprintf("(.array %d %s)", t.Size, leanAbiTy(*t.Elem))
	}
	panic(fmt.Sprintf("leanAbiTy: unknown abi type %d", t.T))
}

func leanAbiTyList(args abi.Arguments) string {
	ss := make([]string, len(args))
	for i, a := range args {
		ss[i] = leanAbiTy(a.Type)
	}
	return "[" + strings.Join(ss, ", ") + "]"
}

func sortedVariableNames(a abi.ABIContract) []string {
	names := make([]string, 0, len(a.Variables))
	for k := range a.Variables {
		names = append(names, k)
	}
	sort.Strings(names)
	return names
}

func init() {
	factGens = append(factGens, func(repo string) (*factFile, error) {
		f := newFactFile("Abi", "ZenonVerif.Model.AbiTy")
		f.raw("open ZV.Abi\n\n")
		f.nat("abiWordSize", abi.WordSize)
		f.nat("abiAddressSize", types.AddressSize)
		f.nat("abiTokenStandardSize", types.ZenonTokenStandardSize)
		f.nat("abiHashSize", types.HashSize)
		f.raw("\n-- (abi, method, selector bytes, argument types) of every method of every embedded ABI\n")
		f.raw("def abiSignatures : List (String × String × List Nat × List Ty) := [\n")
		var rows []string
		for _, na := range abiTables() {
			for _, name := range sortedMethodNames(na.abi) {
				m := na.abi.Methods[name]
				id := m.Id()
				sel := make([]string, len(id))
				for i, b := range id {
					sel[i] = fmt.Sprint(b)
				}
				rows = append(rows, fmt.Sprintf("  (%q, %q, [%s], %s)", na.name, name, strings.Join(sel, ", "), leanAbiTyList(m.Inputs)))
			}
		}
		f.raw("%s\n]\n", strings.Join(rows, ",\n"))
		f.raw("\n-- (abi, variable, argument types) of every storage variable (decoded from the contract's own storage)\n")
		f.raw("def abiVariables : List (String × String × List Ty) := [\n")
		rows = rows[:0]
		for _, na := range abiTables() {
			for _, name := range sortedVariableNames(na.abi) {
				v := na.abi.Variables[name]
				rows = append(rows, fmt.Sprintf("  (%q, %q, %s)", na.name, name, leanAbiTyList(v.Inputs)))
			}
		}
		f.raw("%s\n]\n", strings.Join(rows, ",\n"))
		return f, nil
	})
}
