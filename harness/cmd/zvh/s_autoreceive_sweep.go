package main

import (
	"fmt"
	"math/big"
	"reflect"
	"sort"
	"time"

	g "github.com/zenon-network/go-zenon/chain/genesis/mock"
	"github.com/zenon-network/go-zenon/common/types"
	"github.com/zenon-network/go-zenon/consensus"
	"github.com/zenon-network/go-zenon/vm/abi"
	"github.com/zenon-network/go-zenon/vm/constants"
	"github.com/zenon-network/go-zenon/vm/embedded/definition"
)

// ---------------------------------------------------------------------------------------------------
// boundary-integer sweep of the autoreceive stream (C09, quantifier "boundary integers ... zero and huge amounts").
//
// The random generators of s_autoreceive_gen.go replace an argument by a boundary value now and then; a bound that is off
// by one lets exactly ONE value through, which a random choice among dozens of values x dozens of arguments does not meet.
// The sweep is systematic instead: for every method of every embedded contract, for every integer argument (scalars and
// the elements of integer slices) and for the block's Amount, every value of the boundary family is sent once, the other
// arguments being those of the canonical valid call of the current world:
//
//   powers     0, 1, 2 and 2^k-1, 2^k, 2^k+1 for k in 7, 8, 15, 16, 31, 32, 62, 63, 64, 127, 128, 254, 255, 256
//   constants  c-1, c, c+1 for every numeric bound of vm/constants (read from the tree under test at run time)
//   state      b-1, b, b+1 for the sender's balance, the contract's balances, and - for calls that name a token - its
//              total supply, maximal supply and the room left (max - total)
//   type       the minimum / maximum of the argument's own type and their neighbours
//   aligned    (j + k*2^b) * u: whole multiples of a unit u the contracts divide durations, amounts and percentages by
//              (1, 100, the fee / percentage totals, 10^8, an hour, a day, the staking / phase units, momentums per hour / epoch,
//              the epoch, the reward tick), whose quotient j + k*2^b falls back into the valid range j = 0, 1, 2, 12, the
//              length of the weights table, canonical value / u when it is narrowed to b = 8, 16, 31, 32, 63, 64 bits -
//              as far as the argument's type can hold them. An argument that is divided or narrowed BEFORE it is
//              range-checked lets exactly these through; the 2^k+-1 neighbours above are not multiples of the unit and are
//              refused by the alignment test long before
//
// Variants per value: the one argument alone; all integer arguments of the method at once (total = max supply,
// znn = qsr funds ...). Amounts: the same family in the canonical token up to the sender's balance, and the upper end of
// the family in a token of maximal supply that the sender owns (issued with total = max = constants.TokenMaxSupplyBig).
// Every accepted call goes through the producer path of s_autoreceive.go, whose monitors see the result: no panic, no
// internal error (= wedged inbox), exactly one receive, applied or exactly refunded, every inbox empty afterwards.
// ---------------------------------------------------------------------------------------------------

func bigPow2(k uint) *big.Int { return new(big.Int).Lsh(big.NewInt(1), k) }

func arAround(out []*big.Int, c *big.Int) []*big.Int {
	return append(out, new(big.Int).Sub(c, big.NewInt(1)), new(big.Int).Set(c), new(big.Int).Add(c, big.NewInt(1)))
}

// arPowFamily: 0, 1, 2 and the neighbours of the powers of two at which the integer types of the code base end
func arPowFamily() []*big.Int {
	out := []*big.Int{big.NewInt(0), big.NewInt(1), big.NewInt(2)}
	for _, k := range []uint{7, 8, 15, 16, 31, 32, 62, 63, 64, 127, 128, 254, 255, 256} {
		out = arAround(out, bigPow2(k))
	}
	return out
}

// arBigConstFamily: the neighbours of every amount bound of vm/constants (package variables: the values of the tree under test)
func arBigConstFamily() []*big.Int {
	var out []*big.Int
	bigs := []*big.Int{
		constants.ProjectZnnMaximumFunds, constants.ProjectQsrMaximumFunds, constants.ProjectCreationAmount,
		constants.PillarStakeAmount, constants.PillarQsrStakeBaseAmount, constants.PillarQsrStakeIncreaseAmount,
		constants.SentinelZnnRegisterAmount, constants.SentinelQsrDepositAmount, constants.StakeMinAmount,
		constants.FuseMinAmount, constants.TokenIssueAmount, constants.TokenMaxSupplyBig,
	}
	for _, b := range bigs {
		out = arAround(out, b)
	}
	return out
}

// arSmallConstFamily: the neighbours of the bounds of durations, percentages, counts, indexes and enumerations
func arSmallConstFamily() []*big.Int {
	var out []*big.Int
	ints := []int64{
		100, int64(constants.TokenMaxDecimals), int64(constants.MaximumFee), int64(constants.LiquidityZnnTotalPercentages), int64(constants.LiquidityQsrTotalPercentages),
		constants.StakeTimeUnitSec, constants.StakeTimeMinSec, constants.StakeTimeMaxSec, 2 * constants.StakeTimeUnitSec, constants.StakeTimeMaxSec + constants.StakeTimeUnitSec,
		int64(len(constants.LiquidityStakeWeights)), int64(constants.MinUnhaltDurationInMomentums), int64(constants.MinAdministratorDelay),
		int64(constants.MinSoftDelay), int64(constants.MinGuardians), int64(constants.SporkMinHeightDelay), int64(constants.VoteAcceptanceThreshold),
		int64(definition.VoteYes), int64(definition.VoteNo), int64(definition.VoteAbstain),
		int64(definition.HashTypeSHA3), int64(definition.HashTypeSHA256), int64(definition.NoMClass), int64(definition.EvmClass),
		int64(constants.DecompressedECDSAPubKeyLength), int64(constants.CompressedECDSAPubKeyLength),
	}
	for _, x := range ints {
		out = arAround(out, big.NewInt(x))
	}
	return out
}

func arSortUniq(l []*big.Int) []*big.Int {
	sort.Slice(l, func(i, j int) bool { return l[i].Cmp(l[j]) < 0 })
	var out []*big.Int
	for _, x := range l {
		if len(out) == 0 || out[len(out)-1].Cmp(x) != 0 {
			out = append(out, x)
		}
	}
	return out
}

// arIntArg converts v to the Go value of an integer ABI type; ok=false when v is not representable in the type
func arIntArg(t abi.Type, v *big.Int) (interface{}, bool) {
	if t.T != abi.UintTy && t.T != abi.IntTy {
		return nil, false
	}
	if t.Kind == reflect.Ptr {
		if t.T == abi.UintTy && (v.Sign() < 0 || v.BitLen() > 256) {
			return nil, false
		}
		if t.T == abi.IntTy && v.BitLen() > 255 {
			return nil, false
		}
		return new(big.Int).Set(v), true
	}
	x := reflect.New(t.Type).Elem()
	if t.T == abi.UintTy {
		if v.Sign() < 0 || v.BitLen() > t.Size {
			return nil, false
		}
		x.SetUint(v.Uint64())
	} else {
		lo := new(big.Int).Neg(bigPow2(uint(t.Size - 1)))
		hi := new(big.Int).Sub(bigPow2(uint(t.Size-1)), big.NewInt(1))
		if v.Cmp(lo) < 0 || v.Cmp(hi) > 0 {
			return nil, false
		}
		x.SetInt(v.Int64())
	}
	return x.Interface(), true
}

// arTypeFamily: the ends of the type itself
func arTypeFamily(t abi.Type) []*big.Int {
	var out []*big.Int
	bits := uint(t.Size)
	if t.T == abi.UintTy {
		out = arAround(out, new(big.Int).Sub(bigPow2(bits), big.NewInt(1)))
	} else {
		out = arAround(out, new(big.Int).Sub(bigPow2(bits-1), big.NewInt(1)))
		out = arAround(out, new(big.Int).Neg(bigPow2(bits-1)))
		out = append(out, big.NewInt(-1), big.NewInt(-2))
		for _, c := range []int64{constants.StakeTimeUnitSec, constants.PhaseTimeUnit, 1 << 32, 1 << 62} {
			out = arAround(out, big.NewInt(-c))
		}
	}
	return out
}

// arUnits: the units the embedded contracts divide durations, amounts and percentages by (values of the tree under test)
func arUnits() []*big.Int {
	us := []int64{1, 100, int64(constants.MaximumFee), int64(constants.LiquidityZnnTotalPercentages), int64(constants.LiquidityQsrTotalPercentages),
		constants.Decimals, constants.RewardTimeLimit, constants.SecsInDay, constants.PhaseTimeUnit, constants.StakeTimeUnitSec,
		constants.MomentumsPerHour, constants.MomentumsPerEpoch, int64(consensus.EpochDuration / time.Second), int64(constants.RewardTickDurationInEpochs)}
	var out []*big.Int
	for _, u := range us {
		if u > 0 {
			out = append(out, big.NewInt(u))
		}
	}
	return arSortUniq(out)
}

// arAlignedFamily: (j + k*2^b) * u for the units u, the valid quotients j and the widths b a quotient may be narrowed to.
// canonical (may be nil) is the argument's value in the canonical valid call: a valid value is a whole number of the
// method's real unit, so the units that divide it are the relevant ones and canonical / u is a valid quotient (u = 1:
// canonical + k*2^b, the value narrowed without a division). Quick tier: the relevant units, j = 1 and canonical / u,
// k = -1, 1, 2 at 8 bits and k = 1 at the wider widths. full: every unit, also j = 0, 2, the number of staking periods,
// the length of the weights table, and k = -1, 1, 2 at every width.
func arAlignedFamily(canonical *big.Int, full bool) []*big.Int {
	var out []*big.Int
	maxUnits := int64(12)
	if constants.StakeTimeUnitSec > 0 {
		maxUnits = constants.StakeTimeMaxSec / constants.StakeTimeUnitSec
	}
	one := big.NewInt(1)
	for _, u := range arUnits() {
		js := []*big.Int{one}
		relevant := false
		if canonical != nil && canonical.Sign() >= 0 {
			if q, m := new(big.Int).QuoRem(canonical, u, new(big.Int)); m.Sign() == 0 {
				relevant = true
				if q.Sign() > 0 && (u.Cmp(one) == 0 || q.BitLen() <= 16) {
					js = append(js, q)
				}
			}
		}
		if !full && !relevant && u.Cmp(one) != 0 {
			continue
		}
		if full {
			js = append(js, big.NewInt(0), big.NewInt(2), big.NewInt(maxUnits), big.NewInt(int64(len(constants.LiquidityStakeWeights))-1))
		}
		for _, j := range arSortUniq(js) {
			for _, b := range []uint{8, 16, 31, 32, 63, 64} {
				ks := []int64{1}
				if full {
					ks = []int64{-1, 1, 2}
				} else if b == 8 {
					ks = []int64{-1, 1, 2}
				}
				for _, k := range ks {
					q := new(big.Int).Add(j, new(big.Int).Mul(big.NewInt(k), bigPow2(b)))
					out = append(out, q.Mul(q, u))
				}
			}
		}
	}
	return arSortUniq(out)
}

// arBigOf: the value of an integer argument (scalar of any integer type, *big.Int, first element of an integer slice), or nil
func arBigOf(a interface{}) *big.Int {
	if a == nil {
		return nil
	}
	if b, ok := a.(*big.Int); ok {
		return b
	}
	v := reflect.ValueOf(a)
	switch v.Kind() {
	case reflect.Int, reflect.Int8, reflect.Int16, reflect.Int32, reflect.Int64:
		return big.NewInt(v.Int())
	case reflect.Uint, reflect.Uint8, reflect.Uint16, reflect.Uint32, reflect.Uint64:
		return new(big.Int).SetUint64(v.Uint())
	case reflect.Slice:
		if v.Len() > 0 {
			return arBigOf(v.Index(0).Interface())
		}
	}
	return nil
}

type arSweep struct {
	w        *arWorld
	base     []*big.Int // powers + amount bounds
	small    []*big.Int // powers + bounds of durations, percentages, counts
	pending  int
	nth      int
	hugeTok  types.ZenonTokenStandard // total = max = TokenMaxSupplyBig, owned by User1
	hugeMint types.ZenonTokenStandard // max = TokenMaxSupplyBig, total 0, mintable, owned by User1
	nHuge    int
}

func (sw *arSweep) flush() bool {
	sw.pending = 0
	r := sw.w.r
	if !r.step() {
		return false
	}
	if r.c.R.Intn(3) == 0 {
		for _, a := range []types.Address{g.User1.Address, g.User2.Address, g.User3.Address, g.Spork.Address, g.User5.Address} {
			sw.w.receiveAll(a)
		}
	}
	return true
}

// send delivers one call of the sweep; false when the history is over (a monitor failed)
func (sw *arSweep) send(to types.Address, method string, spec *arSpec, gen string) bool {
	r := sw.w.r
	call := sw.w.pack(to, method, spec, gen)
	if call == nil {
		return true
	}
	sw.nth++
	blk := r.deliver(call, []string{"tpl", "ext"}[sw.nth%2])
	if r.failed {
		return false
	}
	if blk != nil {
		if spec.onAccept != nil {
			spec.onAccept(blk.Hash)
		}
		sw.pending++
	}
	if sw.pending >= 12+r.c.R.Intn(6) {
		return sw.flush()
	}
	return true
}

func (sw *arSweep) balance(a types.Address, t types.ZenonTokenStandard) *big.Int {
	b, err := sw.w.r.n.Chain().GetFrontierAccountStore(a).GetBalance(t)
	if err != nil || b == nil {
		return big.NewInt(0)
	}
	return b
}

// stateFamily: the neighbours of the amounts the receive of this call compares with
func (sw *arSweep) stateFamily(to types.Address, spec *arSpec) []*big.Int {
	var out []*big.Int
	out = arAround(out, sw.balance(spec.from, spec.tok))
	for _, t := range []types.ZenonTokenStandard{types.ZnnTokenStandard, types.QsrTokenStandard} {
		out = arAround(out, sw.balance(to, t))
	}
	if spec.amount != nil && spec.amount.Sign() > 0 {
		out = arAround(out, spec.amount)
	}
	st := sw.w.r.n.Chain().GetFrontierAccountStore(types.TokenContract).Storage()
	for _, a := range spec.args {
		switch v := a.(type) {
		case types.ZenonTokenStandard:
			if ti, err := definition.GetTokenInfo(st, v); err == nil && ti != nil {
				out = arAround(out, ti.TotalSupply)
				out = arAround(out, ti.MaxSupply)
				out = arAround(out, new(big.Int).Sub(ti.MaxSupply, ti.TotalSupply))
				out = arAround(out, sw.balance(spec.from, v))
			}
		case *big.Int:
			out = arAround(out, v)
		}
	}
	var pos []*big.Int
	for _, x := range out {
		pos = append(pos, x)
	}
	return pos
}

// issueHuge issues a token with max supply = the contract's own bound; total = max (all of it in User1's hands) or 0 (mintable)
func (sw *arSweep) issueHuge(total *big.Int) (types.ZenonTokenStandard, bool) {
	w := sw.w
	r := w.r
	sw.nHuge++
	spec := &arSpec{from: g.User1.Address, tok: types.ZnnTokenStandard, amount: new(big.Int).Set(constants.TokenIssueAmount),
		args: []interface{}{w.name("huge"), fmt.Sprintf("HUGE%d", sw.nHuge), "", new(big.Int).Set(total), new(big.Int).Set(constants.TokenMaxSupplyBig), uint8(0), true, true, false}}
	call := w.pack(types.TokenContract, "IssueToken", spec, "sweep-max-supply-token")
	if call == nil {
		return types.ZeroTokenStandard, true
	}
	blk := r.deliver(call, "tpl")
	if r.failed {
		return types.ZeroTokenStandard, false
	}
	if blk == nil {
		r.c.Hit("sweep-max-supply-token-rejected")
		return types.ZeroTokenStandard, true
	}
	for i := 0; i < 2; i++ {
		if !sw.flush() {
			return types.ZeroTokenStandard, false
		}
	}
	w.receiveAll(g.User1.Address)
	r.c.Hit("sweep-max-supply-token-issued")
	return types.NewZenonTokenStandard(blk.Hash.Bytes()), true
}

// ensureHuge: User1 holds at least v of the maximal-supply token (refunds collected, a fresh token issued when spent)
func (sw *arSweep) ensureHuge(v *big.Int) bool {
	if sw.hugeTok != types.ZeroTokenStandard && sw.balance(g.User1.Address, sw.hugeTok).Cmp(v) >= 0 {
		return true
	}
	if sw.hugeTok != types.ZeroTokenStandard {
		if sw.pending > 0 && !sw.flush() {
			return false
		}
		sw.w.receiveAll(g.User1.Address)
		if sw.balance(g.User1.Address, sw.hugeTok).Cmp(v) >= 0 {
			return true
		}
	}
	t, ok := sw.issueHuge(constants.TokenMaxSupplyBig)
	sw.hugeTok = t
	return ok
}

func arIsIntSlice(t abi.Type) bool {
	return t.T == abi.SliceTy && t.Elem != nil && (t.Elem.T == abi.UintTy || t.Elem.T == abi.IntTy)
}

// withArg returns the canonical spec with argument i (or element 0 / every element of the slice argument i) set to v
func (sw *arSweep) withArg(to types.Address, method string, m abi.Method, idx []int, v *big.Int, allElems bool) *arSpec {
	spec := sw.w.canonical(to, method)
	if spec == nil || len(spec.args) != len(m.Inputs) {
		return nil
	}
	spec.onAccept = nil
	set := 0
	for _, i := range idx {
		t := m.Inputs[i].Type
		if arIsIntSlice(t) {
			old := reflect.ValueOf(spec.args[i])
			n := old.Len()
			if n == 0 {
				n = 1
			}
			nv := reflect.MakeSlice(t.Type, n, n)
			for k := 0; k < n; k++ {
				if k < old.Len() {
					nv.Index(k).Set(old.Index(k))
				}
				if k == 0 || allElems {
					x, ok := arIntArg(*t.Elem, v)
					if !ok {
						continue
					}
					nv.Index(k).Set(reflect.ValueOf(x))
					set++
				}
			}
			spec.args[i] = nv.Interface()
			continue
		}
		x, ok := arIntArg(t, v)
		if !ok {
			continue
		}
		spec.args[i] = x
		set++
	}
	if set == 0 {
		return nil
	}
	if to == types.BridgeContract && sw.w.r.c.Args["noreprove"] == "" { // a signature over the arguments is made again for the changed arguments
		sw.w.reprove(to, method, spec, nil)
	}
	return spec
}

// runIntSweep sweeps the methods whose global index is congruent to part modulo parts
func (w *arWorld) runIntSweep(part, parts int) {
	r := w.r
	c := r.c
	sw := &arSweep{w: w, base: arSortUniq(append(arPowFamily(), arBigConstFamily()...)), small: arSortUniq(append(arPowFamily(), arSmallConstFamily()...))}
	// tokens of maximal supply: the bound of the token contract itself is a boundary input of every method that moves amounts
	var ok bool
	if c.Args["nohuge"] == "" { // (debugging: the sweep without its maximal-supply tokens)
		if !sw.ensureHuge(big.NewInt(1)) {
			return
		}
		if sw.hugeMint, ok = sw.issueHuge(big.NewInt(0)); !ok {
			return
		}
	}
	top := arSortUniq(append(arAround(arAround(arAround(arAround(nil, bigPow2(63)), bigPow2(64)), bigPow2(128)), bigPow2(254)),
		arAround(arAround(nil, bigPow2(255)), constants.TokenMaxSupplyBig)...))
	for _, b := range []uint{32, 63, 64} { // whole coins whose number wraps to 1 when it is narrowed
		q := new(big.Int).Add(bigPow2(b), big.NewInt(1))
		top = append(top, q.Mul(q, big.NewInt(constants.Decimals)))
	}
	top = arSortUniq(top)
	mi := -1
	for _, ca := range allContractABIs {
		for _, method := range arMethodOrder(ca.abi) {
			mi++
			if mi%parts != part {
				continue
			}
			m := ca.abi.Methods[method]
			base := w.canonical(ca.addr, method)
			if base == nil {
				c.Hit("sweep-no-canonical")
				continue
			}
			label := arContractName(ca.addr) + "." + method
			var intIdx []int
			for i, in := range m.Inputs {
				if in.Type.T == abi.UintTy || in.Type.T == abi.IntTy || arIsIntSlice(in.Type) {
					intIdx = append(intIdx, i)
				}
			}
			// the same sweep with the mintable maximal-supply token in place of the canonical token argument
			tokenAlts := []types.ZenonTokenStandard{types.ZeroTokenStandard}
			if len(base.args) == len(m.Inputs) {
				for _, a := range base.args {
					if _, isTok := a.(types.ZenonTokenStandard); isTok && len(intIdx) > 0 && sw.hugeMint != types.ZeroTokenStandard && ca.addr == types.TokenContract {
						tokenAlts = append(tokenAlts, sw.hugeMint)
						break
					}
				}
			}
			for _, alt := range tokenAlts {
				subst := func(s *arSpec) *arSpec {
					if s == nil || alt == types.ZeroTokenStandard {
						return s
					}
					for i, a := range s.args {
						if _, isTok := a.(types.ZenonTokenStandard); isTok {
							s.args[i] = alt
						}
					}
					return s
				}
				// ---- one integer argument at a time
				for _, i := range intIdx {
					t := m.Inputs[i].Type
					et := t
					if arIsIntSlice(t) {
						et = *t.Elem
					}
					var fam []*big.Int
					if et.Kind == reflect.Ptr { // an amount
						fam = append(append(fam, sw.base...), sw.stateFamily(ca.addr, subst(w.canonical(ca.addr, method)))...)
					} else { // a duration, percentage, count, index, enumeration
						fam = append(fam, sw.small...)
					}
					fam = append(fam, arTypeFamily(et)...)
					for _, v := range arSortUniq(fam) {
						spec := subst(sw.withArg(ca.addr, method, m, []int{i}, v, false))
						if spec == nil {
							continue
						}
						c.Hit("sweep-arg")
						if !sw.send(ca.addr, method, spec, "sweep-arg") {
							return
						}
					}
					// whole multiples of the units whose quotient wraps into the valid range when it is narrowed
					inFam := map[string]bool{}
					for _, v := range fam {
						inFam[v.String()] = true
					}
					var canon *big.Int
					if len(base.args) == len(m.Inputs) {
						canon = arBigOf(base.args[i])
					}
					for _, v := range arAlignedFamily(canon, c.Tier == "thorough") {
						if inFam[v.String()] {
							continue
						}
						spec := subst(sw.withArg(ca.addr, method, m, []int{i}, v, false))
						if spec == nil {
							continue
						}
						c.Hit("sweep-arg-aligned")
						if !sw.send(ca.addr, method, spec, "sweep-arg-aligned") {
							return
						}
					}
				}
				// ---- all integer arguments at once (total = max supply, znn = qsr, every slice element)
				multi := len(intIdx) >= 2
				for _, i := range intIdx {
					if arIsIntSlice(m.Inputs[i].Type) {
						multi = true
					}
				}
				if multi {
					anyBig := false
					for _, i := range intIdx {
						t := m.Inputs[i].Type
						if t.Kind == reflect.Ptr || (arIsIntSlice(t) && t.Elem.Kind == reflect.Ptr) {
							anyBig = true
						}
					}
					var fam []*big.Int
					if anyBig {
						fam = append(append(fam, sw.base...), sw.stateFamily(ca.addr, subst(w.canonical(ca.addr, method)))...)
					} else {
						fam = append(fam, sw.small...)
					}
					for _, v := range arSortUniq(fam) {
						spec := subst(sw.withArg(ca.addr, method, m, intIdx, v, true))
						if spec == nil {
							continue
						}
						c.Hit("sweep-all-args")
						if !sw.send(ca.addr, method, spec, "sweep-all-args") {
							return
						}
					}
				}
			}
			// ---- the block's amount, canonical token: the family up to the balance (small values and the neighbours of
			// the canonical amount always; larger ones only while they leave the account able to go on)
			{
				probe := w.canonical(ca.addr, method)
				bal := sw.balance(probe.from, probe.tok)
				limit := new(big.Int).Div(bal, big.NewInt(40))
				fam := append([]*big.Int{}, sw.base...)
				fam = append(fam, sw.stateFamily(ca.addr, probe)...)
				inBase := map[string]bool{}
				for _, v := range fam {
					inBase[v.String()] = true
				}
				if probe.amount != nil && probe.amount.Sign() > 0 { // a method that takes an amount: whole multiples of the units, as above
					fam = append(fam, arAlignedFamily(probe.amount, c.Tier == "thorough")...)
				}
				budget := new(big.Int).Div(bal, big.NewInt(20)) // what the aligned amounts of this method may move together, smallest first
				for _, v := range arSortUniq(fam) {
					if v.Sign() < 0 {
						continue
					}
					if !inBase[v.String()] {
						if v.Cmp(budget) > 0 {
							continue
						}
						budget.Sub(budget, v)
					}
					near := probe.amount != nil && new(big.Int).Abs(new(big.Int).Sub(v, probe.amount)).Cmp(big.NewInt(1)) <= 0
					atBal := new(big.Int).Abs(new(big.Int).Sub(v, bal)).Cmp(big.NewInt(1)) <= 0
					if v.Cmp(limit) > 0 && !near && !(atBal && c.R.Intn(8) == 0) {
						continue
					}
					spec := w.canonical(ca.addr, method)
					spec.onAccept = nil
					spec.amount = new(big.Int).Set(v)
					c.Hit("sweep-amount")
					if !sw.send(ca.addr, method, spec, "sweep-amount") {
						return
					}
				}
			}
			// ---- the block's amount in the token of maximal supply: the upper end of the family
			for _, v := range top {
				if v.BitLen() > 256 || c.Args["nohuge"] != "" {
					continue
				}
				if v.Cmp(constants.TokenMaxSupplyBig) <= 0 && !sw.ensureHuge(v) {
					return
				}
				if sw.hugeTok == types.ZeroTokenStandard {
					break
				}
				spec := w.canonical(ca.addr, method)
				spec.onAccept = nil
				spec.from, spec.tok, spec.amount = g.User1.Address, sw.hugeTok, new(big.Int).Set(v)
				c.Hit("sweep-huge-amount")
				if !sw.send(ca.addr, method, spec, "sweep-huge-amount") {
					return
				}
			}
			c.Hit("sweep-method " + label)
		}
		if !sw.flush() {
			return
		}
	}
	for i := 0; i < 3; i++ {
		if !sw.flush() {
			return
		}
	}
	c.Hit("sweep-complete")
}
