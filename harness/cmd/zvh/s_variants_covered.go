package main

import (
	"bytes"
	"encoding/binary"
	"fmt"
	"math/big"
	"reflect"
	"strings"

	"golang.org/x/crypto/sha3"

	g "github.com/zenon-network/go-zenon/chain/genesis/mock"
	"github.com/zenon-network/go-zenon/chain/nom"
	"github.com/zenon-network/go-zenon/common/types"
	"github.com/zenon-network/go-zenon/verifier"
	"github.com/zenon-network/go-zenon/vm/constants"
	"github.com/zenon-network/go-zenon/vm/embedded/definition"
)

// ---------------------------------------------------------------------------------------------------
// variants stream, COVERED part (C13). The complement of s_variants.go / s_variants_state.go: there every field the
// hash does NOT cover is altered; here a field the hash DOES cover is altered while Hash, ChangesHash, public key and
// signature stay as the producer made them - the object a relaying peer (no key needed) can build from any block it
// has seen. Such an object does not hash to the hash it claims, so a node that is willing to accept it holds, under hash
// h, something that is not the block with hash h: a second acceptable variant of the block.
//
//   objects   user send, user receive, contract receive without / with descendants, a descendant send (inside its
//             receive, and alone), momentum (header fields and content list)
//   fields    EVERY covered field in turn. The covered fields are found by experiment on the harness's OWN pre-image
//             (ownABHash / ownMomentumHash below: the field list of the property's statement - the one Gen/HashFields.lean
//             regenerates from the AST and s_codec.go's abPreimage / momentumPreimage replay through the Lean model -
//             hashed with the harness's own SHA3 calls): perturb one leaf field of a copy, a changed hash = covered.
//             Nested leaves count (MomentumAcknowledged.Hash / .Height, Nonce.Data). Per field one alteration of the
//             family of its type (s_variants_fields.go) or the value the same field has in ANOTHER honest block of the
//             history (a real address, a real hash, another block type, another status word); plus 2-3 fields together;
//             plus the structure of the descendant list (dropped, shortened, duplicated, reversed, a foreign / made-up
//             descendant appended, a descendant's hash replaced, a descendant's covered field altered under ITS kept hash)
//             and of a momentum's content list (entry dropped / duplicated / swapped / altered / appended).
//   paths     gossip BEFORE the honest copy, gossip AFTER the honest copy is pooled, inside the delivered momentum that
//             confirms the block (and the momentum header itself), gossip after the confirmation, and after a
//             reorganisation in which the node lost the verified original (variantsAfterReorg with the covered picker).
//   monitor   model-free, after EVERY delivery: every block in the follower's pool, every block / momentum it stored for
//             an accepted momentum and whatever it answers for the hash under the honest and the variant's address
//             (a) hashes to its Hash under the harness's own pre-image, descendants included, and (b) has exactly the bytes
//             of the producer's block with that hash. Follow-up: the honest momentum is accepted afterwards and the follower
//             ends in the byte-exact state of a reference follower that never saw a variant.
//
// The repository's ComputeHash is never the oracle here; it is only COMPARED with the own pre-image (hashOraclesAgree:
// same hash on honest objects, same covered / uncovered verdict for every leaf field).
// ---------------------------------------------------------------------------------------------------

// ---- the harness's own pre-image -------------------------------------------------------------------

func ownU64(x uint64) []byte {
	var b [8]byte
	binary.BigEndian.PutUint64(b[:], x)
	return b[:]
}

func ownSha3(parts ...[]byte) []byte {
	h := sha3.New256()
	for _, p := range parts {
		h.Write(p)
	}
	return h.Sum(nil)
}

// amount: magnitude, big endian, left-padded to 32 bytes
func ownAmount(a *big.Int) []byte {
	var raw []byte
	if a != nil {
		raw = a.Bytes()
	}
	if len(raw) >= 32 {
		return raw
	}
	out := make([]byte, 32)
	copy(out[32-len(raw):], raw)
	return out
}

// "version, chain id, type, previous hash, height, acknowledged momentum (hash, height), address, to-address, amount
// (32 bytes), token standard, from-hash, digest of descendant hashes, digest of data, fused plasma, difficulty, nonce"
func ownABHash(b *nom.AccountBlock) (h types.Hash) {
	var desc []byte
	for _, d := range b.DescendantBlocks {
		if d != nil {
			desc = append(desc, d.Hash[:]...)
		}
	}
	copy(h[:], ownSha3(
		ownU64(b.Version), ownU64(b.ChainIdentifier), ownU64(b.BlockType), b.PreviousHash[:], ownU64(b.Height),
		b.MomentumAcknowledged.Hash[:], ownU64(b.MomentumAcknowledged.Height), b.Address[:], b.ToAddress[:],
		ownAmount(b.Amount), b.TokenStandard[:], b.FromBlockHash[:], ownSha3(desc), ownSha3(b.Data),
		ownU64(b.FusedPlasma), ownU64(b.Difficulty), b.Nonce.Data[:]))
	return h
}

// "version, chain id, previous hash, height, timestamp, digest of data, digest of the content list (address, height,
// hash per entry), changes hash"
func ownMomentumHash(m *nom.Momentum) (h types.Hash) {
	var content []byte
	for _, e := range m.Content {
		if e != nil {
			content = append(content, e.Address[:]...)
			content = append(content, ownU64(e.Height)...)
			content = append(content, e.Hash[:]...)
		}
	}
	copy(h[:], ownSha3(
		ownU64(m.Version), ownU64(m.ChainIdentifier), m.PreviousHash[:], ownU64(m.Height), ownU64(m.TimestampUnix),
		ownSha3(m.Data), ownSha3(content), m.ChangesHash[:]))
	return h
}

// ownConsistent: the block and, recursively, its descendants hash to the hashes they carry
func ownConsistent(b *nom.AccountBlock) bool {
	if ownABHash(b) != b.Hash {
		return false
	}
	for _, d := range b.DescendantBlocks {
		if d == nil || !ownConsistent(d) {
			return false
		}
	}
	return true
}

// ---- leaf fields ------------------------------------------------------------------------------------

func leafPathsOf(t reflect.Type, prefix string) (leaves []string) {
	for i := 0; i < t.NumField(); i++ {
		f := t.Field(i)
		if f.PkgPath != "" {
			continue
		}
		ft := f.Type
		switch {
		case ft.Kind() == reflect.Uint64, ft == bigIntPtrType,
			ft.Kind() == reflect.Slice && ft.Elem().Kind() == reflect.Uint8,
			ft.Kind() == reflect.Array && ft.Elem().Kind() == reflect.Uint8:
			leaves = append(leaves, prefix+f.Name)
		case ft.Kind() == reflect.Struct:
			leaves = append(leaves, leafPathsOf(ft, prefix+f.Name+".")...)
		}
	}
	return leaves
}

// splitCovered: the leaf fields of *clone() (other than Hash) whose minimal perturbation changes / does not change hash()
func splitCovered(clone func() interface{}, hash func(interface{}) types.Hash) (covered, uncovered []string) {
	base := clone()
	h0 := hash(base)
	for _, p := range leafPathsOf(reflect.TypeOf(base).Elem(), "") {
		if p == "Hash" {
			continue
		}
		o := clone()
		if !perturbField(fieldByPath(reflect.ValueOf(o).Elem(), p)) {
			continue
		}
		if hash(o) != h0 {
			covered = append(covered, p)
		} else {
			uncovered = append(uncovered, p)
		}
	}
	return covered, uncovered
}

func leafStr(v reflect.Value) string {
	switch {
	case !v.IsValid():
		return "?"
	case v.Kind() == reflect.Uint64:
		return fmt.Sprint(v.Uint())
	case isBigInt(v):
		if v.IsNil() {
			return "nil"
		}
		return v.Interface().(*big.Int).String()
	case isByteSlice(v):
		return shortHex(v.Bytes())
	case isByteArray(v):
		b := make([]byte, v.Len())
		reflect.Copy(reflect.ValueOf(b), v)
		return shortHex(b)
	}
	return "?"
}

func shortHex(b []byte) string {
	if len(b) > 24 {
		return fmt.Sprintf("%x…(%d bytes)", b[:24], len(b))
	}
	return fmt.Sprintf("%x", b)
}

// leafDiff: the leaf fields in which two objects of one type differ, "Path honest -> other"
func leafDiff(honest, other interface{}) []string {
	var out []string
	hv, ov := reflect.ValueOf(honest).Elem(), reflect.ValueOf(other).Elem()
	for _, p := range leafPathsOf(hv.Type(), "") {
		x, y := leafStr(fieldByPath(hv, p)), leafStr(fieldByPath(ov, p))
		if x != y {
			out = append(out, fmt.Sprintf("%s %s -> %s", p, x, y))
		}
	}
	return out
}

func blockDiff(honest, other *nom.AccountBlock) string {
	out := leafDiff(honest, other)
	if len(honest.DescendantBlocks) != len(other.DescendantBlocks) {
		out = append(out, fmt.Sprintf("DescendantBlocks %d -> %d blocks", len(honest.DescendantBlocks), len(other.DescendantBlocks)))
	}
	for i := 0; i < len(honest.DescendantBlocks) && i < len(other.DescendantBlocks); i++ {
		for _, d := range leafDiff(honest.DescendantBlocks[i], other.DescendantBlocks[i]) {
			out = append(out, fmt.Sprintf("DescendantBlocks[%d].%s", i, d))
		}
	}
	if len(out) == 0 {
		return "no field differs"
	}
	return strings.Join(out, "; ")
}

func momentumDiff(honest, other *nom.Momentum) string {
	out := leafDiff(honest, other)
	if len(honest.Content) != len(other.Content) {
		out = append(out, fmt.Sprintf("Content %d -> %d entries", len(honest.Content), len(other.Content)))
	}
	for i := 0; i < len(honest.Content) && i < len(other.Content); i++ {
		x, y := honest.Content[i], other.Content[i]
		if *x != *y {
			out = append(out, fmt.Sprintf("Content[%d] %s/%d %s -> %s/%d %s", i, addrName(x.Address), x.Height, h8(x.Hash), addrName(y.Address), y.Height, h8(y.Hash)))
		}
	}
	if len(out) == 0 {
		return "no field differs"
	}
	return strings.Join(out, "; ")
}

func setLeafCopy(dst, src reflect.Value) {
	switch {
	case isByteSlice(dst):
		dst.SetBytes(cp(src.Bytes()))
	case isBigInt(dst):
		if src.IsNil() {
			dst.Set(reflect.Zero(bigIntPtrType))
		} else {
			dst.Set(reflect.ValueOf(new(big.Int).Set(src.Interface().(*big.Int))))
		}
	default:
		dst.Set(src)
	}
}

// alterLeaf: one alteration of leaf `path` of *obj - an alteration of the family of its type, or the value the same leaf
// has in one of the donors (honest objects of the same type seen in this history). Returns the alteration's name.
func alterLeaf(c *Ctx, obj interface{}, path string, donors []interface{}) (string, bool) {
	fv := fieldByPath(reflect.ValueOf(obj).Elem(), path)
	if !fv.IsValid() {
		return "", false
	}
	muts := append([]string{"donor", "donor"}, fieldMutNames(fv)...)
	for _, i := range c.R.Perm(len(muts)) {
		m := muts[i]
		if m != "donor" {
			if applyFieldMut(c, obj, path, m) {
				return m, true
			}
			continue
		}
		if len(donors) == 0 {
			continue
		}
		start := c.R.Intn(len(donors))
		for k := 0; k < len(donors) && k < 12; k++ {
			dv := fieldByPath(reflect.ValueOf(donors[(start+k)%len(donors)]).Elem(), path)
			if dv.IsValid() && leafStr(dv) != leafStr(fv) {
				setLeafCopy(fv, dv)
				return "donor", true
			}
		}
	}
	return "", false
}

// ---- variants of one block / one momentum -----------------------------------------------------------

type covVariant struct {
	name  string // "Field:alteration", "A+B:combo", "DescendantBlocks:…"
	field string // the (first) covered field, for the counters
	v     *nom.AccountBlock
}

type covMVariant struct {
	name, field string
	m           *nom.Momentum
	blocks      []*nom.AccountBlock // the account blocks served with it
}

func blockKind(b *nom.AccountBlock) string {
	switch b.BlockType {
	case nom.BlockTypeUserSend:
		return "user-send"
	case nom.BlockTypeUserReceive:
		return "user-receive"
	case nom.BlockTypeContractSend:
		return "descendant-send"
	case nom.BlockTypeContractReceive:
		if len(b.DescendantBlocks) > 0 {
			return "contract-receive-with-descendants"
		}
		return "contract-receive"
	}
	return fmt.Sprintf("type-%d", b.BlockType)
}

type covEnv struct {
	c        *Ctx
	id       int
	a        *Node
	f, ref   *zFollower
	failed   bool
	abCov    []string // covered leaf fields of an account block / a momentum (own pre-image)
	mCov     []string
	abUncov  []string
	honestAB map[types.Hash]*nom.AccountBlock // what the producer made, by hash (descendants too)
	honestM  map[types.Hash]*nom.Momentum
	donorsAB []interface{}
	donorsM  []interface{}
	sends    []*nom.AccountBlock // honest contract sends seen (foreign descendants)
	lastCtx  string              // the last delivery (for a monitor that cannot read the node any more)
}

func (e *covEnv) fail(format string, args ...interface{}) {
	e.failed = true
	e.c.Fail("variants covered run=%d h=%d: C13 covered-field: %s", e.id, e.a.Height(), fmt.Sprintf(format, args...))
}

func blockID(b *nom.AccountBlock) string {
	return fmt.Sprintf("%s block %s/%d hash %s", blockKind(b), addrName(b.Address), b.Height, h8(b.Hash))
}

// record: an object the producer made. It must hash to its hash under the own pre-image (the monitor's sentence on the
// producing node), and it becomes the reference for the bytes stored under that hash.
func (e *covEnv) record(b *nom.AccountBlock) {
	if _, ok := e.honestAB[b.Hash]; ok {
		return
	}
	nb := cloneBlock(b)
	e.honestAB[b.Hash] = nb
	if len(e.donorsAB) < 200 {
		e.donorsAB = append(e.donorsAB, nb)
	}
	if nb.BlockType == nom.BlockTypeContractSend {
		e.sends = append(e.sends, nb)
	}
	if ownABHash(b) != b.Hash {
		e.fail("the producer holds a %s that does not hash to its hash under the statement's pre-image (%s)", blockID(b), h8(ownABHash(b)))
	}
	for _, d := range b.DescendantBlocks {
		e.record(d)
	}
}

func (e *covEnv) recordPool() {
	for _, b := range uncommittedSorted(e.a) {
		e.record(b)
	}
}

func (e *covEnv) recordMomentum(dm *nom.DetailedMomentum) {
	m := dm.Momentum
	if _, ok := e.honestM[m.Hash]; !ok {
		nm := cloneMomentum(m)
		e.honestM[m.Hash] = nm
		e.donorsM = append(e.donorsM, nm)
		if ownMomentumHash(m) != m.Hash {
			e.fail("the producer's momentum %d (hash %s) does not hash to its hash under the statement's pre-image (%s)", m.Height, h8(m.Hash), h8(ownMomentumHash(m)))
		}
	}
	for _, b := range dm.AccountBlocks {
		e.record(b)
	}
}

// hashOraclesAgree: the repository's ComputeHash against the own pre-image, on an honest object: the same hash, and the
// same covered / uncovered verdict for every leaf field
func (e *covEnv) hashOraclesAgree(b *nom.AccountBlock, m *nom.Momentum) {
	if b != nil {
		if x, y := safeABHash(b), ownABHash(b); x != y {
			e.fail("ComputeHash of the honest %s is %s, the statement's pre-image hashes to %s", blockID(b), h8(x), h8(y))
		}
		if x, y := types.NewHash(abPreimage(b)), ownABHash(b); x != y {
			e.fail("harness: abPreimage of %s hashes to %s, ownABHash to %s", blockID(b), h8(x), h8(y))
		}
		cov, _ := splitCovered(func() interface{} { return cloneBlock(b) }, func(o interface{}) types.Hash { return safeABHash(o.(*nom.AccountBlock)) })
		if strings.Join(cov, ",") != strings.Join(e.abCov, ",") {
			e.fail("ComputeHash of an account block covers the fields [%s]; the statement's pre-image covers [%s] (experiment on the honest %s)", strings.Join(cov, ","), strings.Join(e.abCov, ","), blockID(b))
		}
	}
	if m != nil {
		if x, y := safeMomHash(m), ownMomentumHash(m); x != y {
			e.fail("ComputeHash of the honest momentum %d is %s, the statement's pre-image hashes to %s", m.Height, h8(x), h8(y))
		}
		if x, y := types.NewHash(momentumPreimage(m)), ownMomentumHash(m); x != y {
			e.fail("harness: momentumPreimage of momentum %d hashes to %s, ownMomentumHash to %s", m.Height, h8(x), h8(y))
		}
		cov, _ := splitCovered(func() interface{} { return cloneMomentum(m) }, func(o interface{}) types.Hash { return safeMomHash(o.(*nom.Momentum)) })
		if strings.Join(cov, ",") != strings.Join(e.mCov, ",") {
			e.fail("ComputeHash of a momentum covers the fields [%s]; the statement's pre-image covers [%s] (experiment on momentum %d)", strings.Join(cov, ","), strings.Join(e.mCov, ","), m.Height)
		}
	}
}

// blockVariants: every covered field of b in turn, each altered once, Hash / ChangesHash / key / signature kept; then
// the descendant-list structure, then a few combinations. Only objects that survive the wire form, still claim b's hash
// and do NOT hash to it (own pre-image, descendants included) are variants.
func (e *covEnv) blockVariants(b *nom.AccountBlock) []covVariant {
	c := e.c
	var out []covVariant
	add := func(name, field string, v *nom.AccountBlock) {
		if v = rewireBlock(v); v == nil || v.Hash != b.Hash || ownConsistent(v) {
			return
		}
		out = append(out, covVariant{name, field, v})
	}
	for _, i := range c.R.Perm(len(e.abCov)) {
		p := e.abCov[i]
		v := cloneBlock(b)
		if m, ok := alterLeaf(c, v, p, e.donorsAB); ok {
			add(p+":"+m, p, v)
		}
	}
	// the other block types by name (a send presented as a receive of the other family, ...)
	for _, t := range []uint64{nom.BlockTypeGenesisReceive, nom.BlockTypeUserSend, nom.BlockTypeUserReceive, nom.BlockTypeContractSend, nom.BlockTypeContractReceive} {
		if t != b.BlockType && c.R.Intn(3) == 0 {
			v := cloneBlock(b)
			v.BlockType = t
			add(fmt.Sprintf("BlockType:as-%d", t), "BlockType", v)
		}
	}
	// data read as a number (the execution status of a contract receive): the next / another small value
	if len(b.Data) == 8 {
		v := cloneBlock(b)
		v.Data = ownU64(binary.BigEndian.Uint64(b.Data) + uint64(1+c.R.Intn(2)))
		add("Data:status-word-moved", "Data", v)
	}
	// combinations
	for k := 0; k < 3; k++ {
		v := cloneBlock(b)
		var names []string
		for _, i := range c.R.Perm(len(e.abCov))[:2+c.R.Intn(2)] {
			if _, ok := alterLeaf(c, v, e.abCov[i], e.donorsAB); ok {
				names = append(names, e.abCov[i])
			}
		}
		if len(names) > 1 {
			add(strings.Join(names, "+")+":combo", "combo", v)
		}
	}
	// the descendant list (a node that regenerates the descendants of a receive accepts some of these and then holds the
	// honest block: they come after everything that must be judged on the delivered fields)
	nd := len(b.DescendantBlocks)
	if nd > 0 {
		v := cloneBlock(b)
		v.DescendantBlocks = nil
		add("DescendantBlocks:drop-all", "DescendantBlocks", v)
		if nd > 1 {
			v = cloneBlock(b)
			v.DescendantBlocks = v.DescendantBlocks[:nd-1]
			add("DescendantBlocks:drop-last", "DescendantBlocks", v)
			v = cloneBlock(b)
			for i, j := 0, nd-1; i < j; i, j = i+1, j-1 {
				v.DescendantBlocks[i], v.DescendantBlocks[j] = v.DescendantBlocks[j], v.DescendantBlocks[i]
			}
			add("DescendantBlocks:reversed", "DescendantBlocks", v)
		}
		v = cloneBlock(b)
		v.DescendantBlocks = append(v.DescendantBlocks, cloneBlock(v.DescendantBlocks[0]))
		add("DescendantBlocks:duplicate-first", "DescendantBlocks", v)
		k := c.R.Intn(nd)
		v = cloneBlock(b)
		c.R.Read(v.DescendantBlocks[k].Hash[:])
		add(fmt.Sprintf("DescendantBlocks[%d].Hash:random", k), "DescendantBlocks", v)
	}
	if b.BlockType != nom.BlockTypeContractSend {
		if len(e.sends) > 0 {
			v := cloneBlock(b)
			v.DescendantBlocks = append(v.DescendantBlocks, cloneBlock(e.sends[c.R.Intn(len(e.sends))]))
			add("DescendantBlocks:append-foreign", "DescendantBlocks", v)
		}
		// a made-up send of this account that hashes to its own hash
		d := &nom.AccountBlock{Version: b.Version, ChainIdentifier: b.ChainIdentifier, BlockType: nom.BlockTypeContractSend,
			PreviousHash: b.Hash, Height: b.Height + 1 + uint64(len(b.DescendantBlocks)), MomentumAcknowledged: b.MomentumAcknowledged,
			Address: b.Address, ToAddress: g.User9.Address, Amount: big.NewInt(int64(1 + c.R.Intn(1000))), TokenStandard: types.ZnnTokenStandard}
		d.Hash = ownABHash(d)
		v := cloneBlock(b)
		v.DescendantBlocks = append(v.DescendantBlocks, d)
		add("DescendantBlocks:append-made-up", "DescendantBlocks", v)
	}
	// a covered field of a descendant under the descendant's kept hash - the receive itself still hashes to its hash
	if nd > 0 {
		k := c.R.Intn(nd)
		for _, i := range c.R.Perm(len(e.abCov)) {
			p := e.abCov[i]
			v := cloneBlock(b)
			if m, ok := alterLeaf(c, v.DescendantBlocks[k], p, e.donorsAB); ok {
				add(fmt.Sprintf("DescendantBlocks[%d].%s:%s", k, p, m), "descendant."+p, v)
			}
		}
	}
	return out
}

// momentumVariants: every covered header field in turn, the content list's structure, combinations; the account blocks
// served along are the honest ones
func (e *covEnv) momentumVariants(dm *nom.DetailedMomentum) []covMVariant {
	c := e.c
	m := dm.Momentum
	var out []covMVariant
	add := func(name, field string, v *nom.Momentum, blocks []*nom.AccountBlock) {
		if v = rewireMomentum(v); v == nil || v.Hash != m.Hash || ownMomentumHash(v) == v.Hash {
			return
		}
		out = append(out, covMVariant{name, field, v, blocks})
	}
	for _, i := range c.R.Perm(len(e.mCov)) {
		p := e.mCov[i]
		v := cloneMomentum(m)
		if mn, ok := alterLeaf(c, v, p, e.donorsM); ok {
			add(p+":"+mn, p, v, dm.AccountBlocks)
		}
	}
	n := len(m.Content)
	if n > 0 {
		k := c.R.Intn(n)
		v := cloneMomentum(m)
		v.Content = append(append(nom.MomentumContent{}, v.Content[:k]...), v.Content[k+1:]...)
		add("Content:drop-entry", "Content", v, dm.AccountBlocks)
		// ... and the block is not served either
		var fewer []*nom.AccountBlock
		for _, b := range dm.AccountBlocks {
			if b.Hash != m.Content[k].Hash {
				fewer = append(fewer, b)
			}
		}
		v = cloneMomentum(m)
		v.Content = append(append(nom.MomentumContent{}, v.Content[:k]...), v.Content[k+1:]...)
		add("Content:drop-entry-and-block", "Content", v, fewer)
		v = cloneMomentum(m)
		dup := *v.Content[k]
		v.Content = append(v.Content, &dup)
		add("Content:duplicate-entry", "Content", v, dm.AccountBlocks)
		v = cloneMomentum(m)
		c.R.Read(v.Content[k].Hash[:])
		add("Content:entry-hash-random", "Content", v, dm.AccountBlocks)
		v = cloneMomentum(m)
		v.Content[k].Height++
		add("Content:entry-height-plus-1", "Content", v, dm.AccountBlocks)
		v = cloneMomentum(m)
		v.Content[k].Address = g.User9.Address
		add("Content:entry-address-other", "Content", v, dm.AccountBlocks)
		if n > 1 {
			v = cloneMomentum(m)
			j := (k + 1) % n
			v.Content[k], v.Content[j] = v.Content[j], v.Content[k]
			add("Content:swap-entries", "Content", v, dm.AccountBlocks)
		}
	}
	v := cloneMomentum(m)
	extra := &types.AccountHeader{Address: g.User9.Address, HashHeight: types.HashHeight{Height: 2}}
	c.R.Read(extra.Hash[:])
	v.Content = append(v.Content, extra)
	add("Content:append-entry", "Content", v, dm.AccountBlocks)
	for k := 0; k < 2; k++ {
		v := cloneMomentum(m)
		var names []string
		for _, i := range c.R.Perm(len(e.mCov))[:2] {
			if _, ok := alterLeaf(c, v, e.mCov[i], e.donorsM); ok {
				names = append(names, e.mCov[i])
			}
		}
		if len(names) > 1 {
			add(strings.Join(names, "+")+":combo", "combo", v, dm.AccountBlocks)
		}
	}
	return out
}

// ---- the monitor ------------------------------------------------------------------------------------

// checkStored: one block the follower holds (pool or ledger). ctx says which delivery preceded.
func (e *covEnv) checkStored(ctx string, hb *nom.AccountBlock) {
	if e.failed {
		return
	}
	if hb == nil {
		e.fail("%s: the follower lists a block that it cannot produce (nil entry)", ctx)
		return
	}
	hon := e.honestAB[hb.Hash]
	if !ownConsistent(hb) {
		diff := ""
		if hon != nil {
			diff = "; against the producer's block with that hash: " + blockDiff(hon, hb)
		}
		what := fmt.Sprintf("that hashes to %s under the statement's pre-image", h8(ownABHash(hb)))
		if ownABHash(hb) == hb.Hash {
			what = "one of whose descendant blocks does not hash to the hash it carries under the statement's pre-image"
		}
		e.fail("%s: the follower holds under hash %s a %s %s%s", ctx, h8(hb.Hash), blockID(hb), what, diff)
		return
	}
	if hon != nil {
		x, _ := hb.Serialize()
		y, _ := hon.Serialize()
		if !bytes.Equal(x, y) {
			e.fail("%s: the follower holds under hash %s a %s stored with other bytes than the producer's block with that hash (%d / %d bytes): %s",
				ctx, h8(hb.Hash), blockID(hb), len(x), len(y), blockDiff(hon, hb))
		}
	}
}

func (e *covEnv) sweepPool(ctx string) {
	if e.failed {
		return
	}
	var pool []*nom.AccountBlock
	if p := safely(func() { pool = e.f.ch.GetAllUncommittedAccountBlocks() }); p != "" {
		e.fail("%s: the follower's pool cannot be read any more: %s", ctx, p)
		return
	}
	for _, hb := range pool {
		e.checkStored(ctx+" [pool]", hb)
	}
	e.c.Hit("covered-pool-sweep")
}

// heldUnder: what the follower answers for (address, hash) - pool or ledger
func (e *covEnv) heldUnder(ctx string, addr types.Address, h types.Hash) {
	if e.failed {
		return
	}
	var hb *nom.AccountBlock
	safely(func() { hb, _ = e.f.ch.GetFrontierAccountStore(addr).ByHash(h) })
	if hb != nil {
		e.checkStored(ctx+" [by hash]", hb)
	}
}

// sweepLedger: the momentums from..to the follower stored and every block they list
func (e *covEnv) sweepLedger(ctx string, from, to uint64) {
	st := e.f.ch.GetFrontierMomentumStore()
	for h := from; h <= to && !e.failed; h++ {
		m, _ := st.GetMomentumByHeight(h)
		if m == nil {
			continue
		}
		if own := ownMomentumHash(m); own != m.Hash {
			diff := ""
			if hon := e.honestM[m.Hash]; hon != nil {
				diff = "; against the producer's momentum with that hash: " + momentumDiff(hon, m)
			}
			e.fail("%s: the follower stored under hash %s a momentum %d that hashes to %s under the statement's pre-image%s", ctx, h8(m.Hash), m.Height, h8(own), diff)
			return
		}
		if hon := e.honestM[m.Hash]; hon != nil {
			x, _ := m.Serialize()
			y, _ := hon.Serialize()
			if !bytes.Equal(x, y) {
				e.fail("%s: the follower stored momentum %d (hash %s) with other bytes than the producer's momentum with that hash: %s", ctx, m.Height, h8(m.Hash), momentumDiff(hon, m))
				return
			}
		}
		for _, hd := range m.Content {
			hb, _ := st.GetAccountBlock(*hd)
			if hb == nil {
				e.fail("%s: the follower's momentum %d lists %s/%d hash %s but the ledger has no such block", ctx, m.Height, addrName(hd.Address), hd.Height, h8(hd.Hash))
				return
			}
			e.checkStored(fmt.Sprintf("%s [ledger, momentum %d]", ctx, m.Height), hb)
		}
		e.c.Hit("covered-ledger-sweep")
	}
}

func resStr(err error) string {
	if err != nil {
		return "rejected"
	}
	return "accepted"
}

// gossip delivers one variant of the honest block b by ChainBridge.AddAccountBlocks and evaluates the monitor
func (e *covEnv) gossip(stage string, b *nom.AccountBlock, cv covVariant) {
	diff := blockDiff(b, cv.v) // before the delivery: the node writes into the object it is handed
	gerr := e.f.Gossip([]*nom.AccountBlock{cv.v})
	res := resStr(gerr)
	e.c.Emit("variant covered %s %s %s => %s", blockKind(b), stage, cv.name, res)
	e.c.Hit("covered-" + blockKind(b) + "-" + stage + "-" + res)
	e.c.Hit("covered-field-" + cv.field + "-" + res)
	ctx := fmt.Sprintf("a variant (%s) of the %s - altered while hash, changes hash, key and signature stay: %s - delivered by %s (result: %v)",
		cv.name, blockID(b), diff, stage, gerr)
	e.lastCtx = ctx
	e.sweepPool(ctx)
	e.heldUnder(ctx, b.Address, b.Hash)
	if cv.v.Address != b.Address {
		e.heldUnder(ctx, cv.v.Address, b.Hash)
	}
}

func (e *covEnv) gossipAll(stage string, b *nom.AccountBlock, limit int) {
	vs := e.blockVariants(b)
	if limit > 0 && len(vs) > limit {
		vs = vs[:limit]
	}
	for _, cv := range vs {
		if e.failed {
			return
		}
		e.gossip(stage, b, cv)
	}
}

func (e *covEnv) gossipHonest(b *nom.AccountBlock) bool {
	if err := e.f.Gossip([]*nom.AccountBlock{cloneBlock(b)}); err != nil {
		e.c.Hit("covered-honest-gossip-refused")
		return false
	}
	e.c.Hit("covered-honest-gossip-accepted")
	e.sweepPool(fmt.Sprintf("the honest %s delivered by gossip", blockID(b)))
	return true
}

// present: one honest unconfirmed block of the producer, through one of the gossip paths (or left for the momentum)
func (e *covEnv) present(b *nom.AccountBlock) {
	switch e.c.R.Intn(4) {
	case 0:
		e.gossipAll("gossip-before-honest", b, 0)
		if !e.failed && e.c.R.Intn(2) == 0 {
			e.gossipHonest(b)
		}
	case 1:
		if e.gossipHonest(b) {
			e.gossipAll("gossip-after-honest", b, 0)
		}
	default:
		e.c.Hit("covered-left-for-the-momentum")
	}
}

// insert delivers momentum m with the given blocks through ChainBridge.InsertChain and evaluates the monitor
func (e *covEnv) insert(ctx string, m *nom.Momentum, blocks []*nom.AccountBlock) error {
	before := e.f.Height()
	_, err := e.f.InsertChain([]*nom.DetailedMomentum{{Momentum: m, AccountBlocks: blocks}})
	ctx = fmt.Sprintf("%s (result: %v)", ctx, err)
	e.lastCtx = ctx
	e.sweepPool(ctx)
	if now := e.f.Height(); now > before {
		e.sweepLedger(ctx, before+1, now)
	}
	return err
}

// inMomentum: the follower is at H-1. The producer's momentum H arrives with a covered header field altered, then with one
// of its account blocks replaced by a covered variant - every field in turn, until something is accepted.
func (e *covEnv) inMomentum(dm *nom.DetailedMomentum, header bool) {
	c := e.c
	m := dm.Momentum
	H := m.Height
	if e.f.Height() != H-1 {
		return
	}
	if header || c.R.Intn(2) == 0 {
		kind := "momentum"
		if len(m.Content) == 0 {
			kind = "empty-momentum"
		}
		for _, mv := range e.momentumVariants(dm) {
			if e.failed || e.f.Height() != H-1 {
				break
			}
			ctx := fmt.Sprintf("a variant (%s) of the producer's momentum %d hash %s - altered while hash, key and signature stay: %s - delivered by InsertChain",
				mv.name, H, h8(m.Hash), momentumDiff(m, mv.m))
			err := e.insert(ctx, mv.m, mv.blocks)
			c.Emit("variant covered %s header %s => %s", kind, mv.name, resStr(err))
			c.Hit("covered-" + kind + "-header-" + resStr(err))
			c.Hit("covered-momentum-field-" + mv.field + "-" + resStr(err))
		}
	}
	if e.failed || e.f.Height() != H-1 || len(dm.AccountBlocks) == 0 {
		return
	}
	// one or two of the listed blocks; a flattened descendant entry (which InsertChain skips) comes last
	// (blocks the follower does not hold yet first: a copy of a block it holds is skipped by InsertChain)
	var idx []int
	for _, wantHeld := range []bool{false, true} {
		for _, i := range c.R.Perm(len(dm.AccountBlocks)) {
			b := dm.AccountBlocks[i]
			if b.BlockType != nom.BlockTypeContractSend && len(idx) < 2 && (e.f.ch.GetPatch(b.Address, b.Identifier()) != nil) == wantHeld {
				idx = append(idx, i)
			}
		}
	}
	for _, i := range c.R.Perm(len(dm.AccountBlocks)) {
		if dm.AccountBlocks[i].BlockType == nom.BlockTypeContractSend && c.R.Intn(2) == 0 {
			idx = append(idx, i)
			break
		}
	}
	for _, i := range idx {
		b := dm.AccountBlocks[i]
		vs := e.blockVariants(b)
		if b.BlockType == nom.BlockTypeContractSend && len(vs) > 2 {
			vs = vs[:2]
		}
		for _, cv := range vs {
			if e.failed || e.f.Height() != H-1 {
				return
			}
			blocks := append([]*nom.AccountBlock{}, dm.AccountBlocks...)
			blocks[i] = cv.v
			// the descendants of a receive are listed again in the momentum's flat list: the lying peer serves its version there too
			for j, d := range blocks {
				for k, vd := range cv.v.DescendantBlocks {
					if j != i && d.Hash == vd.Hash && d.BlockType == nom.BlockTypeContractSend {
						blocks[j] = cv.v.DescendantBlocks[k]
					}
				}
			}
			ctx := fmt.Sprintf("a variant (%s) of the %s - altered while hash, changes hash, key and signature stay: %s - served inside the producer's momentum %d by InsertChain",
				cv.name, blockID(b), blockDiff(b, cv.v), H)
			err := e.insert(ctx, m, blocks)
			c.Emit("variant covered %s in-momentum %s => %s", blockKind(b), cv.name, resStr(err))
			c.Hit("covered-" + blockKind(b) + "-in-momentum-" + resStr(err))
			c.Hit("covered-field-" + cv.field + "-" + resStr(err))
			e.heldUnder(ctx, b.Address, b.Hash)
			if cv.v.Address != b.Address {
				e.heldUnder(ctx, cv.v.Address, b.Hash)
			}
		}
	}
}

func (e *covEnv) detailedAt(h uint64) *nom.DetailedMomentum {
	st := e.a.Chain().GetFrontierMomentumStore()
	m, _ := st.GetMomentumByHeight(h)
	if m == nil {
		return nil
	}
	dm, _ := st.PrefetchMomentum(m)
	return dm
}

// honestTo: the producer's momentums above the follower's height, unaltered
func (e *covEnv) honestTo(to *zFollower, upto uint64) error {
	var batch []*nom.DetailedMomentum
	for h := to.Height() + 1; h <= upto; h++ {
		dm := e.detailedAt(h)
		if dm == nil {
			return fmt.Errorf("producer has no momentum %d", h)
		}
		e.recordMomentum(dm)
		batch = append(batch, dm)
	}
	if len(batch) == 0 {
		return nil
	}
	_, err := to.InsertChain(batch)
	return err
}

func init() {
	register("variants-covered", func(c *Ctx) {
		for i := 0; i < c.N; i++ {
			coveredHistory(c, i)
		}
	})
}

// a monitor that crashes on what the node answers after a delivery is a failure of that delivery, not of the run
func coveredHistory(c *Ctx, id int) {
	e := &covEnv{c: c, id: id, honestAB: map[types.Hash]*nom.AccountBlock{}, honestM: map[types.Hash]*nom.Momentum{}}
	if p := safely(func() { coveredHistoryBody(e) }); p != "" {
		c.Fail("variants covered run=%d: C13 covered-field: %s: the follower's answers crash the monitor afterwards: %s", id, e.lastCtx, p)
	}
}

func coveredHistoryBody(e *covEnv) {
	c, id := e.c, e.id
	origGate := verifier.ReceiverMismatchEnforcementHeight
	defer func() { verifier.ReceiverMismatchEnforcementHeight = origGate }()
	verifier.ReceiverMismatchEnforcementHeight = 0
	a := NewNode()
	defer a.Stop()
	f, err := newZFollower("")
	if err != nil {
		c.Fail("variants covered run=%d: %v", id, err)
		return
	}
	defer f.Destroy()
	ref, err := newZFollower("")
	if err != nil {
		c.Fail("variants covered run=%d: %v", id, err)
		return
	}
	defer ref.Destroy()
	e.a, e.f, e.ref = a, f, ref
	e.lastCtx = "before any delivery"
	uintDonors = map[string][]uint64{}
	users := []types.Address{g.User1.Address, g.User2.Address, g.User3.Address, g.User4.Address, g.User5.Address}
	isUser := map[types.Address]bool{}
	for _, u := range users {
		isUser[u] = true
	}
	var unreceived []*nom.AccountBlock // confirmed sends to one of the users, not yet received
	received := map[types.Hash]bool{}
	rounds := 5 + c.R.Intn(4)
	for r := 0; r < rounds && !e.failed; r++ {
		H0 := a.Height()
		if f.Height() != H0 || ref.Height() != H0 {
			e.fail("harness: followers at %d / %d, producer at %d", f.Height(), ref.Height(), H0)
			return
		}
		e.recordPool()
		// the generated contract receives of the calls the last momentum confirmed (the first unconfirmed one per contract links)
		seen := map[types.Address]bool{}
		for _, b := range uncommittedSorted(a) {
			if e.failed {
				return
			}
			if b.BlockType != nom.BlockTypeContractReceive || seen[b.Address] {
				continue
			}
			seen[b.Address] = true
			if e.abCov == nil {
				e.abCov, e.abUncov = splitCovered(func() interface{} { return cloneBlock(b) }, func(o interface{}) types.Hash { return ownABHash(o.(*nom.AccountBlock)) })
			}
			if f.ch.GetPatch(b.Address, b.Identifier()) != nil {
				continue
			}
			c.Hit("covered-candidate-" + blockKind(b))
			e.present(b)
			// a descendant send on its own (AddAccountBlocks skips contract sends)
			if !e.failed && len(b.DescendantBlocks) > 0 && c.R.Intn(3) == 0 {
				e.gossipAll("gossip-alone", b.DescendantBlocks[c.R.Intn(len(b.DescendantBlocks))], 2)
			}
		}
		// honest user traffic: one block per account and round, so every block is the first unconfirmed one of its account
		perm := c.R.Perm(len(users))
		used := map[types.Address]bool{}
		nextUser := func() types.Address {
			for _, i := range perm {
				if !used[users[i]] {
					used[users[i]] = true
					return users[i]
				}
			}
			return users[perm[0]]
		}
		n := 2 + c.R.Intn(2)
		var fresh []*nom.AccountBlock
		for k := 0; k < n && !e.failed; k++ {
			choice := c.R.Intn(5)
			if r == 0 {
				choice = []int{4, 3, 0}[k%3] // every history: a token issue (receive with a descendant), a fusion (without), a transfer
			}
			var tpl *nom.AccountBlock
			if r > 0 && k == 0 {
				// a user receive of a send confirmed earlier
				for _, s := range unreceived {
					if !received[s.Hash] {
						received[s.Hash] = true
						used[s.ToAddress] = true
						tpl = &nom.AccountBlock{BlockType: nom.BlockTypeUserReceive, Address: s.ToAddress, FromBlockHash: s.Hash}
						break
					}
				}
			}
			var from, to types.Address
			if tpl == nil {
				from = nextUser()
				to = users[c.R.Intn(len(users))]
			}
			if tpl == nil {
				switch choice {
				case 0:
					tpl = &nom.AccountBlock{BlockType: nom.BlockTypeUserSend, Address: from, ToAddress: to, TokenStandard: types.ZnnTokenStandard, Amount: big.NewInt(int64(1 + c.R.Intn(1000)))}
				case 1, 2:
					data := make([]byte, c.R.Intn(50))
					c.R.Read(data)
					tpl = &nom.AccountBlock{BlockType: nom.BlockTypeUserSend, Address: from, ToAddress: to, TokenStandard: types.QsrTokenStandard, Amount: big.NewInt(int64(c.R.Intn(50))), Data: data}
				case 3:
					if data, perr := definition.ABIPlasma.PackMethod(definition.FuseMethodName, to); perr == nil {
						tpl = &nom.AccountBlock{BlockType: nom.BlockTypeUserSend, Address: from, ToAddress: types.PlasmaContract, TokenStandard: types.QsrTokenStandard, Amount: big.NewInt(int64(10+c.R.Intn(5)) * g.Zexp), Data: data}
					}
				default:
					data, perr := definition.ABIToken.PackMethod(definition.IssueMethodName, fmt.Sprintf("ctok%d", c.R.Intn(1000000)), "CT", "", big.NewInt(int64(1+c.R.Intn(1000))), big.NewInt(1000), uint8(2), true, true, false)
					if perr == nil {
						tpl = &nom.AccountBlock{BlockType: nom.BlockTypeUserSend, Address: from, ToAddress: types.TokenContract, TokenStandard: types.ZnnTokenStandard, Amount: constants.TokenIssueAmount, Data: data}
					}
				}
			}
			if tpl == nil {
				continue
			}
			b, serr := a.Submit(tpl)
			if serr != nil {
				c.Hit("covered-submit-refused")
				continue
			}
			e.record(b)
			if e.abCov == nil {
				e.abCov, e.abUncov = splitCovered(func() interface{} { return cloneBlock(b) }, func(o interface{}) types.Hash { return ownABHash(o.(*nom.AccountBlock)) })
			}
			if r == 0 && k == 0 {
				for _, p := range e.abCov {
					c.Hit("covered-account-block-field-" + p)
				}
				e.hashOraclesAgree(b, nil)
			}
			fresh = append(fresh, b)
		}
		for _, b := range fresh {
			if e.failed {
				return
			}
			c.Hit("covered-candidate-" + blockKind(b))
			e.present(b)
		}
		if e.failed {
			return
		}
		// the producer confirms; the reference follower gets the honest momentum
		dm, merr := a.Momentum()
		if merr != nil {
			e.fail("harness: the producer makes no momentum: %v", merr)
			return
		}
		H := a.Height()
		e.recordMomentum(dm)
		e.recordPool()
		if e.mCov == nil {
			e.mCov, _ = splitCovered(func() interface{} { return cloneMomentum(dm.Momentum) }, func(o interface{}) types.Hash { return ownMomentumHash(o.(*nom.Momentum)) })
			for _, p := range e.mCov {
				c.Hit("covered-momentum-field-" + p)
			}
			e.hashOraclesAgree(nil, dm.Momentum)
		}
		if err := e.honestTo(ref, H); err != nil {
			e.fail("harness: the reference follower refuses the producer's momentum %d: %v", H, err)
			return
		}
		// the lying peer's momentum
		if c.R.Intn(4) != 0 {
			e.inMomentum(dm, false)
		}
		if e.failed {
			return
		}
		// follow-up: the honest momentum is still accepted, and leads to the reference state
		if f.Height() < H {
			before := f.Height()
			if err := e.honestTo(f, H); err != nil {
				e.fail("after variants with an altered covered field were offered to it (pool and lying momentum, all rejected or stored with the honest bytes), the follower refuses the producer's momentum %d: %v", H, err)
				return
			}
			e.sweepLedger(fmt.Sprintf("the producer's momentums %d..%d delivered unaltered", before+1, H), before+1, H)
		}
		e.sweepPool(fmt.Sprintf("the producer's momentum %d delivered unaltered", H))
		if e.failed {
			return
		}
		if f.StateDigest() != ref.StateDigest() {
			e.fail("the follower that was offered variants with an altered covered field holds a different ledger state than the reference follower at height %d", H)
			return
		}
		// a variant of a block the ledger already holds
		if len(dm.AccountBlocks) > 0 && c.R.Intn(2) == 0 {
			b := dm.AccountBlocks[c.R.Intn(len(dm.AccountBlocks))]
			e.gossipAll("gossip-after-confirmation", b, 4)
			if e.failed {
				return
			}
			e.sweepLedger("variants of a confirmed block delivered by gossip", H, H)
			if !e.failed && f.StateDigest() != ref.StateDigest() {
				e.fail("after variants of the confirmed %s were gossiped to it the follower's ledger state differs from the reference follower's at height %d", blockID(b), H)
				return
			}
		}
		for _, b := range dm.AccountBlocks {
			if nom.IsSendBlock(b.BlockType) && isUser[b.ToAddress] {
				unreceived = append(unreceived, b)
			}
		}
		c.Hit("covered-round")
	}
	if e.failed || e.abCov == nil {
		return
	}
	// a momentum without content (the pool drains in one or two momentums): every covered header field
	for k := 0; k < 4 && !e.failed; k++ {
		dm, merr := a.Momentum()
		if merr != nil {
			e.fail("harness: the producer makes no momentum: %v", merr)
			return
		}
		H := a.Height()
		e.recordMomentum(dm)
		if err := e.honestTo(ref, H); err != nil {
			e.fail("harness: the reference follower refuses the producer's momentum %d: %v", H, err)
			return
		}
		empty := len(dm.Momentum.Content) == 0
		if empty {
			e.inMomentum(dm, true)
		}
		if e.failed {
			return
		}
		if f.Height() < H {
			before := f.Height()
			if err := e.honestTo(f, H); err != nil {
				e.fail("after variants of momentum %d with an altered covered field were offered to it, the follower refuses the producer's momentum: %v", H, err)
				return
			}
			e.sweepLedger(fmt.Sprintf("the producer's momentums %d..%d delivered unaltered", before+1, H), before+1, H)
		}
		if !e.failed && f.StateDigest() != ref.StateDigest() {
			e.fail("the follower that was offered variants of momentum %d with an altered covered field holds a different ledger state than the reference follower", H)
			return
		}
		if empty {
			break
		}
	}
	if e.failed {
		return
	}
	// after a reorganisation: the follower verified a pooled and a confirmed user block and lost both; every covered field
	// of them in turn by gossip, one variant inside the confirming momentum of the new branch
	var queue []covVariant
	var queueFor types.Hash
	pick := func(c *Ctx, v *nom.AccountBlock) variantKind {
		if queueFor != v.Hash || len(queue) == 0 {
			queue, queueFor = e.blockVariants(v), v.Hash
		}
		if len(queue) == 0 {
			return variantKind{"covered:none", func(*Ctx, *nom.AccountBlock) bool { return false }}
		}
		cv := queue[0]
		queue = queue[1:]
		c.Hit("covered-field-" + cv.field + "-after-reorg")
		return variantKind{"covered:" + cv.name, func(_ *Ctx, x *nom.AccountBlock) bool { *x = *cv.v; return true }}
	}
	fail := func(format string, args ...interface{}) {
		e.fail("after-reorg: %s", fmt.Sprintf(format, args...))
	}
	top := f.Height()
	if !variantsAfterReorg(c, a, f, ref, e.abUncov, fail, pick, 14) || e.failed {
		return
	}
	e.sweepPool("variants with an altered covered field delivered after a reorganisation")
	e.sweepLedger("variants with an altered covered field delivered after a reorganisation", top, f.Height())
	if !e.failed {
		c.Hit("covered-history")
	}
}
