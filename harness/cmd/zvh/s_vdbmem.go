package main

import (
	"bytes"
	"encoding/binary"
	"fmt"
	"sort"
	"strings"

	"github.com/syndtr/goleveldb/leveldb"

	"github.com/zenon-network/go-zenon/common/db"
	"github.com/zenon-network/go-zenon/common/types"
)

// ---------------------------------------------------------------------------------------------------
// vdb-mem stream (C07 / C14): the IN-MEMORY versioned store db.NewMemDBManager - the store the unconfirmed pool keeps
// per account - driven through the same kind of operation sequences as the leveldb manager of the `vdb` stream:
// commit on the frontier, commit on a stale / unknown parent, pop, views at identifiers of the current chain, of popped
// (abandoned) versions, unknown ones, right hash with wrong height, reads and writes through the views.
//
// The lines are those of the vdb stream (vdb-reset / vdb-add / vdb-pop / vdb-view / vdb-get / vdb-has / vdb-scan /
// vdb-put / vdb-del), so the Lean manager model that specifies the leveldb manager is evaluated on them as well: both
// managers implement the same interface and must answer alike. Where the two managers legitimately differ the operation
// is checked by the monitors only and no line is printed: a commit on a stale parent (the in-memory manager refuses it,
// store unchanged), a pop at the stable root of a manager created over a non-empty database, the patch queries.
//
// Model-free monitors (the sentences of the property):
//   - Get(X) is served iff X is the root or a version of the current chain; it shows the contents the store had when X
//     was the frontier, whatever happened later;
//   - GetPatch(X) answers iff X is a version of the current chain above the root, and replaying it over the version
//     before gives the contents of X; for a popped, abandoned, unknown or wrong-height identifier - and for the root -
//     there is no patch ("unknown"): the pool and the sync code take `GetPatch != nil` for "this block is in the pool".
// Values are never empty here (the encoding of empty values in historical leveldb views is the business of `vdb`).
//
// TRANSACTIONS WITH MORE THAN ONE COMMIT (a contract receive with descendant sends: GetCommits() = descendants + block): one
// commit in three on the frontier is a transaction of 2-4 chained commits with ONE patch. The manager applies it as a whole and
// rolls it back as a whole. For the Lean manager model a transaction of k commits is k commits - the first carries the patch, the
// others nothing, so that every identifier of the transaction shows the state after it (as the manager's versions do) - and ONE
// Pop of the manager is k pops of the model (k `vdb-pop` lines with the one observed answer). Monitors, after every Add / Pop:
// the frontier identifier and the full contents of Frontier() are those of the shadow - after the Pop of a transaction exactly
// those before its Add (identifier and contents); every identifier of a rolled back transaction answers GetPatch / Get like an
// unknown one; a commit whose parent is a rolled back (intermediate) commit is refused, a commit on the frontier accepted.
// ---------------------------------------------------------------------------------------------------

func vdbMemVal(c *Ctx) []byte {
	n := 1 + c.R.Intn(4)
	v := make([]byte, n)
	for i := range v {
		v[i] = byte(c.R.Intn(4))
	}
	return v
}

var vdbMemFBD1 int // FBD1 is reported a few times per run, not at every step

func init() {
	register("vdb-mem", func(c *Ctx) {
		vdbMemFBD1 = 0
		for seq := 0; seq < c.N; seq++ {
			vdbMemSequence(c, seq)
		}
	})
}

func vdbMemSequence(c *Ctx, seq int) {
	c.Emit("vdb-reset")
	counter := uint64(seq)<<32 | 1<<29
	newHash := func() types.Hash {
		counter++
		var h types.Hash
		binary.BigEndian.PutUint64(h[:8], counter)
		h[31] = 1
		return h
	}
	verKey := func(id types.HashHeight) string {
		if id.IsZero() {
			return "0:"
		}
		return idStr(id)
	}
	genOps := func() []kvOp {
		n := c.R.Intn(5)
		ops := make([]kvOp, 0, n)
		for i := 0; i < n; i++ {
			if c.R.Intn(4) == 0 {
				ops = append(ops, kvOp{del: true, k: vdbKey(c)})
			} else {
				ops = append(ops, kvOp{k: vdbKey(c), v: vdbMemVal(c)})
			}
		}
		return ops
	}
	mkPatch := func(ops []kvOp) db.Patch {
		p := db.NewPatch()
		for _, o := range ops {
			if o.del {
				p.Delete(o.k)
			} else {
				p.Put(o.k, o.v)
			}
		}
		return p
	}
	applyOps := func(s shadow, ops []kvOp) shadow {
		ns := s.clone()
		for _, o := range ops {
			if o.del {
				delete(ns, string(o.k))
			} else {
				ns[string(o.k)] = o.v
			}
		}
		return ns
	}
	userPart := func(s shadow) string {
		ks := make([]string, 0, len(s))
		for k := range s {
			if userKey([]byte(k)) {
				ks = append(ks, k)
			}
		}
		sort.Strings(ks)
		parts := make([]string, len(ks))
		for i, k := range ks {
			parts[i] = hx([]byte(k)) + "=" + hx(s[k])
		}
		if len(parts) == 0 {
			return "empty"
		}
		return strings.Join(parts, ",")
	}

	// the root: an empty database, or (as in the pool: the account's confirmed database) one that already holds a chain
	// of 1-3 versions written with the store's own SetFrontier / Apply; for the model these are ordinary commits
	raw := db.NewMemDB()
	specs := map[string]shadow{"0:": {}}
	chain := []types.HashHeight{}
	rootLen := 0
	if c.R.Intn(2) == 0 {
		rootLen = 1 + c.R.Intn(3)
		prev := types.ZeroHashHeight
		for i := 0; i < rootLen; i++ {
			id := types.HashHeight{Height: prev.Height + 1, Hash: newHash()}
			ops := genOps()
			if err := raw.Apply(mkPatch(ops)); err != nil {
				c.Fail("vdb-mem seq=%d: preparing the root failed: %v", seq, err)
				return
			}
			data, _ := (&vCommit{id: id, prev: prev}).Serialize()
			if err := db.SetFrontier(raw, id, data); err != nil {
				c.Fail("vdb-mem seq=%d: preparing the root failed: %v", seq, err)
				return
			}
			c.Emit("vdb-add %s %s %s | ok", verKey(prev), idStr(id), opsString(ops, false))
			specs[idStr(id)] = applyOps(specs[verKey(prev)], ops)
			chain = append(chain, id)
			prev = id
		}
		c.Hit("mem-root-with-history")
	} else {
		c.Hit("mem-root-empty")
	}
	m := db.NewMemDBManager(raw)
	rootID := types.ZeroHashHeight
	if rootLen > 0 {
		rootID = chain[rootLen-1]
	}
	frontierID := func() types.HashHeight {
		if len(chain) == 0 {
			return types.ZeroHashHeight
		}
		return chain[len(chain)-1]
	}
	abandoned := []types.HashHeight{}
	unknown := []types.HashHeight{}
	views := []*vView{}
	// transactions: txStart[i] = the index in chain at which the i-th transaction above the root starts (a Pop removes chain[txStart[last]:]);
	// txBefore[id] = the version before the transaction whose HEAD is id; inner[id] = id is a commit of a transaction other than its head;
	// poppedInner[id] = id was an inner commit of a transaction that was rolled back (and has not been committed again since)
	txStart := []int{}
	txBefore := map[types.HashHeight]string{}
	inner := map[types.HashHeight]bool{}
	poppedInner := map[types.HashHeight]string{} // (value: the transaction, for the report)
	// checkFrontier: Frontier() identifies itself as the shadow's frontier and holds exactly its contents
	checkFrontier := func(what string) bool {
		var f db.DB
		if pn := safely(func() { f = m.Frontier() }); pn != "" || f == nil {
			c.Fail("vdb-mem seq=%d %s: Frontier() is not served (panic=%s)", seq, what, firstLine(pn))
			return false
		}
		want := frontierID()
		if got := db.GetFrontierIdentifier(f); got != want {
			c.Fail("vdb-mem seq=%d %s: the frontier view identifies itself as %s, the frontier is %s", seq, what, verKey(got), verKey(want))
			return false
		}
		got, _, _ := scanDB(f, nil)
		if w := userPart(specs[verKey(want)]); got != w {
			c.Fail("vdb-mem seq=%d %s: the frontier view (at %s) holds [%s], the contents of the store as of %s are [%s]", seq, what, verKey(want), got, verKey(want), w)
			return false
		}
		return true
	}

	// the patch monitor: which identifiers answer GetPatch, and what the patch replays to
	checkPatches := func(what string) bool {
		onChain := map[types.HashHeight]int{}
		for i, id := range chain {
			if i >= rootLen {
				onChain[id] = i
			}
		}
		probe := func(id types.HashHeight, class string) bool {
			var p db.Patch
			if pn := safely(func() { p = m.GetPatch(id) }); pn != "" {
				c.Fail("vdb-mem seq=%d %s: GetPatch(%s) (%s) panics: %s", seq, what, verKey(id), class, firstLine(pn))
				return false
			}
			i, on := onChain[id]
			if tx, was := poppedInner[id]; !on && was {
				// FBD1 (known, unchanged tree): Pop of a transaction of k > 1 commits forgets its head only
				var d db.DB
				safely(func() { d = m.Get(id) })
				if p != nil || d != nil {
					if vdbMemFBD1 < 1 {
						vdbMemFBD1++
						c.Fail("vdb-mem seq=%d %s: popped-inner-commit-still-answers: after the Pop of a transaction of more than one commit its inner commit %s still answers like a version of the chain (GetPatch non-nil=%v, Get serves a view=%v) - a rolled back commit must answer like an unknown one; input: %s",
							seq, what, verKey(id), p != nil, d != nil, tx)
					}
					c.Hit("mem-popped-inner-still-answers(FBD1)")
				} else {
					c.Hit("mem-popped-inner-unknown")
				}
				return true
			}
			if !on {
				if p != nil {
					c.Fail("vdb-mem seq=%d %s: GetPatch(%s) answers a patch [%s] although %s is %s - only the versions of the current chain above the root have one (a popped version must answer like an unknown one)",
						seq, what, verKey(id), opsString(patchOps(p), true), verKey(id), class)
					return false
				}
				var d db.DB
				safely(func() { d = m.Get(id) })
				if d != nil && id != rootID {
					c.Fail("vdb-mem seq=%d %s: Get(%s) serves a view although %s is %s", seq, what, verKey(id), verKey(id), class)
					return false
				}
				c.Hit("mem-patch-nil-" + strings.ReplaceAll(strings.ReplaceAll(class, " ", "-"), "'", ""))
				return true
			}
			if p == nil {
				c.Fail("vdb-mem seq=%d %s: GetPatch(%s) is nil although %s is version %d of the current chain", seq, what, verKey(id), verKey(id), i+1)
				return false
			}
			if inner[id] {
				// an inner commit of a transaction: "in the pool" (non-nil); what the transaction wrote is judged at its head
				c.Hit("mem-patch-inner")
				return true
			}
			// replaying the patch over the version before (the transaction) gives this version
			prevKey := "0:"
			if i > 0 {
				prevKey = idStr(chain[i-1])
			}
			if b, ok := txBefore[id]; ok {
				prevKey = b
				c.Hit("mem-patch-replays-transaction")
			}
			got := userPart(applyOps(specs[prevKey], patchOps(p)))
			if want := userPart(specs[idStr(id)]); got != want {
				c.Fail("vdb-mem seq=%d %s: the patch stored for %s replayed over %s gives [%s], the contents of %s are [%s]", seq, what, idStr(id), prevKey, got, idStr(id), want)
				return false
			}
			c.Hit("mem-patch-replays")
			return true
		}
		for _, id := range chain {
			class := "inside the root database"
			if id == rootID {
				class = "the root"
			}
			if !probe(id, class) {
				return false
			}
		}
		for _, id := range abandoned {
			if _, back := onChain[id]; back {
				continue
			}
			if !probe(id, "a popped version") {
				return false
			}
		}
		for _, id := range unknown {
			if !probe(id, "an identifier that was never committed") {
				return false
			}
		}
		if !probe(types.ZeroHashHeight, "the zero identifier") {
			return false
		}
		if f := frontierID(); !f.IsZero() {
			wrong := f
			wrong.Height += uint64(1 + c.R.Intn(2))
			if !probe(wrong, "the frontier's hash with a wrong height") {
				return false
			}
		}
		return true
	}
	checkView := func(v *vView, what string) bool {
		keys := map[string]bool{}
		v.keys(keys)
		for k := range keys {
			if !userKey([]byte(k)) {
				continue
			}
			val, ok := v.lookup([]byte(k))
			got, gerr := v.d.Get([]byte(k))
			if ok && (gerr != nil || !bytes.Equal(got, val)) || !ok && gerr != leveldb.ErrNotFound {
				c.Fail("vdb-mem seq=%d %s: view %s@%s key %s: store says (%s,%v), the state as of that version (plus own writes): present=%v value=%s", seq, what, v.name, v.version, hx([]byte(k)), hx(got), gerr, ok, hx(val))
				return false
			}
		}
		return true
	}

	nops := 25 + c.R.Intn(40)
	for step := 0; step < nops; step++ {
		switch r := c.R.Intn(100); {
		case r < 24: // commit on the frontier
			prev := frontierID()
			id := types.HashHeight{Height: prev.Height + 1, Hash: newHash()}
			if len(abandoned) > 0 && c.R.Intn(4) == 0 {
				// the very identifier of a version that was popped before is committed again (a block that lost its place comes back)
				if a := abandoned[c.R.Intn(len(abandoned))]; a.Height == id.Height {
					id = a
					c.Hit("mem-add-abandoned-again")
				}
			}
			ops := genOps()
			// the transaction: one commit, or (one in three) 2-4 chained commits with one patch
			ids := []types.HashHeight{id}
			if c.R.Intn(3) == 0 {
				for k := 1 + c.R.Intn(3); k > 0; k-- {
					last := ids[len(ids)-1]
					ids = append(ids, types.HashHeight{Height: last.Height + 1, Hash: newHash()})
				}
				if len(ops) == 0 || c.R.Intn(3) == 0 {
					ops = append(ops, kvOp{k: vdbKey(c), v: vdbMemVal(c)})
				}
				c.HitN("mem-add-transaction-commits", len(ids))
			}
			commits := make([]db.Commit, len(ids))
			for i, x := range ids {
				p := prev
				if i > 0 {
					p = ids[i-1]
				}
				commits[i] = &vCommit{id: x, prev: p}
			}
			var aerr error
			pn := safely(func() {
				aerr = m.Add(&vTx{commits: commits, patch: mkPatch(ops)})
			})
			res := "ok"
			if pn != "" {
				res = "panic"
			} else if aerr != nil {
				res = "err"
			}
			for i, x := range ids {
				if i == 0 {
					c.Emit("vdb-add %s %s %s | %s", verKey(prev), idStr(x), opsString(ops, false), res)
				} else {
					c.Emit("vdb-add %s %s none | %s", idStr(ids[i-1]), idStr(x), res)
				}
			}
			c.Hit("mem-add-frontier")
			if res != "ok" {
				c.Fail("vdb-mem seq=%d: transaction of %d commit(s) %s…%s on the current frontier %s refused (%s: %v %s)", seq, len(ids), idStr(ids[0]), idStr(ids[len(ids)-1]), verKey(prev), res, aerr, firstLine(pn))
				return
			}
			after := applyOps(specs[verKey(prev)], ops)
			txStart = append(txStart, len(chain))
			for i, x := range ids {
				specs[idStr(x)] = after
				delete(poppedInner, x)
				delete(inner, x)
				delete(txBefore, x)
				if i < len(ids)-1 {
					inner[x] = true
				}
			}
			if len(ids) > 1 {
				txBefore[ids[len(ids)-1]] = verKey(prev)
			}
			chain = append(chain, ids...)
			if !checkFrontier(fmt.Sprintf("after the Add of a transaction of %d commit(s) %s…%s on %s", len(ids), idStr(ids[0]), idStr(ids[len(ids)-1]), verKey(prev))) {
				return
			}
		case r < 30: // commit on a stale / abandoned / unknown parent: refused, nothing changes (monitors only)
			var prev types.HashHeight
			switch k := c.R.Intn(3); {
			case k == 0 && len(chain) >= 2:
				prev = chain[c.R.Intn(len(chain)-1)]
			case k == 1 && len(abandoned) > 0:
				prev = abandoned[c.R.Intn(len(abandoned))]
			default:
				prev = types.HashHeight{Height: uint64(c.R.Intn(4)), Hash: newHash()}
			}
			if prev == frontierID() {
				continue
			}
			id := types.HashHeight{Height: prev.Height + 1, Hash: newHash()}
			unknown = append(unknown, id)
			var aerr error
			pn := safely(func() {
				aerr = m.Add(&vTx{commits: []db.Commit{&vCommit{id: id, prev: prev}}, patch: mkPatch(append(genOps(), kvOp{k: vdbKey(c), v: []byte{9}}))})
			})
			c.Hit("mem-add-stale")
			if pn != "" || aerr == nil {
				c.Fail("vdb-mem seq=%d: commit %s on parent %s, which is not the frontier %s, was not refused (err=%v panic=%s)", seq, idStr(id), verKey(prev), verKey(frontierID()), aerr, firstLine(pn))
				return
			}
			if got := db.GetFrontierIdentifier(m.Frontier()); got != frontierID() {
				c.Fail("vdb-mem seq=%d: a refused commit moved the frontier to %s (expected %s)", seq, verKey(got), verKey(frontierID()))
				return
			}
		case r < 44: // pop
			if len(chain) == rootLen && rootLen > 0 {
				// the root of a manager over a non-empty database cannot be popped (monitor only: the model's chain goes on below)
				var perr error
				pn := safely(func() { perr = m.Pop() })
				c.Hit("mem-pop-at-root")
				if pn != "" || perr == nil {
					c.Fail("vdb-mem seq=%d: pop at the root %s was not refused (err=%v panic=%s)", seq, verKey(rootID), perr, firstLine(pn))
					return
				}
				continue
			}
			var perr error
			pn := safely(func() { perr = m.Pop() })
			res := "ok"
			if pn != "" {
				res = "panic"
			} else if perr != nil {
				res = "err"
			}
			// the transaction at the frontier: one Pop of the manager takes back all its commits (one pop of the model each)
			from := len(chain) - 1
			if len(txStart) > 0 {
				from = txStart[len(txStart)-1]
			}
			c.Emit("vdb-pop | %s", res)
			for i := from + 1; i < len(chain); i++ {
				c.Emit("vdb-pop | %s", res)
			}
			c.Hit("mem-pop")
			if len(chain) == 0 {
				if res != "err" {
					c.Fail("vdb-mem seq=%d: pop of an empty store answers %s", seq, res)
					return
				}
				continue
			}
			if res != "ok" {
				c.Fail("vdb-mem seq=%d: pop of frontier %s failed: %s", seq, idStr(frontierID()), res)
				return
			}
			popped := append([]types.HashHeight{}, chain[from:]...)
			before := "0:"
			if from > 0 {
				before = idStr(chain[from-1])
			}
			if len(popped) > 1 {
				c.Hit("mem-pop-transaction")
				for _, x := range popped[:len(popped)-1] {
					poppedInner[x] = fmt.Sprintf("NewMemDBManager, …, Add(one transaction, commits %s…%s chained on frontier %s), Pop()", idStr(popped[0]), idStr(popped[len(popped)-1]), before)
				}
			}
			for _, x := range popped {
				delete(inner, x)
				delete(txBefore, x)
			}
			abandoned = append(abandoned, popped...)
			chain = chain[:from]
			txStart = txStart[:len(txStart)-1]
			if got, okf := vdbMemFrontierID(m); !okf {
				c.Fail("vdb-mem seq=%d: after the pop of the transaction %s…%s (%d commit(s)) the manager has no frontier database any more (Frontier() is nil or unreadable), expected the version %s before the transaction", seq,
					idStr(popped[0]), idStr(popped[len(popped)-1]), len(popped), verKey(frontierID()))
				return
			} else if got != frontierID() {
				c.Fail("vdb-mem seq=%d: after the pop of the transaction %s…%s (%d commit(s)) the frontier is %s, expected %s - the version before the transaction", seq,
					idStr(popped[0]), idStr(popped[len(popped)-1]), len(popped), verKey(got), verKey(frontierID()))
				return
			}
			if !checkFrontier(fmt.Sprintf("after the Pop of the transaction %s…%s (%d commit(s))", idStr(popped[0]), idStr(popped[len(popped)-1]), len(popped))) {
				return
			}
		case r < 60: // open a view
			var id types.HashHeight
			live := chain[rootLen:]
			kind := c.R.Intn(10)
			switch {
			case kind < 4 && len(live) > 0:
				id = live[c.R.Intn(len(live))]
				c.Hit("mem-view-chain")
			case kind < 6 && len(abandoned) > 0:
				id = abandoned[c.R.Intn(len(abandoned))]
				c.Hit("mem-view-abandoned")
			case kind < 7 && len(live) > 0:
				id = live[c.R.Intn(len(live))]
				id.Height += uint64(1 + c.R.Intn(3))
				c.Hit("mem-view-wrong-height")
			case kind < 8:
				id = types.HashHeight{Height: uint64(1 + c.R.Intn(5)), Hash: newHash()}
				unknown = append(unknown, id)
				c.Hit("mem-view-unknown")
			default:
				id = frontierID()
				c.Hit("mem-view-frontier")
			}
			if id.IsZero() && rootLen > 0 {
				continue
			}
			if _, was := poppedInner[id]; was {
				continue // (judged by the patch monitor: FBD1)
			}
			inRoot := false
			for _, x := range chain[:rootLen] {
				if x == id && id != rootID {
					inRoot = true // a version below the root: the leveldb manager would serve it, the in-memory manager has no such view
				}
			}
			if inRoot {
				continue
			}
			name := fmt.Sprintf("v%d", len(views))
			var d db.DB
			pn := safely(func() { d = m.Get(id) })
			onChain := id == rootID
			for _, x := range live {
				if x == id {
					onChain = true
				}
			}
			res := "ok"
			if pn != "" {
				res = "panic"
			} else if d == nil {
				res = "nil"
			}
			c.Emit("vdb-view %s %s | %s", name, verKey(id), res)
			if onChain && res != "ok" {
				c.Fail("vdb-mem seq=%d: view at %s (on the current chain) could not be opened: %s", seq, verKey(id), res)
				return
			}
			if !onChain && res == "ok" {
				c.Fail("vdb-mem seq=%d: view at %s, which is not a version of the current chain (popped, unknown or wrong height), was served", seq, verKey(id))
				return
			}
			if res != "ok" {
				views = append(views, nil)
				continue
			}
			base := specs[verKey(id)]
			if base == nil {
				base = shadow{}
			}
			v := &vView{name: name, d: d, base: base.clone(), writes: map[string][]byte{}, version: verKey(id)}
			views = append(views, v)
			if got := db.GetFrontierIdentifier(d); got != id && !inner[id] {
				// (the view at an inner commit of a transaction is the view at its head: the transaction is one step of the store)
				c.Fail("vdb-mem seq=%d: view at %s reports frontier identifier %s", seq, verKey(id), verKey(got))
				return
			}
			if inner[id] {
				c.Hit("mem-view-inner-commit")
			}
			if !checkView(v, "at open") {
				return
			}
		default:
			if len(views) == 0 {
				continue
			}
			v := views[c.R.Intn(len(views))]
			if v == nil {
				continue
			}
			switch q := c.R.Intn(100); {
			case q < 35:
				k := vdbKey(c)
				got, gerr := v.d.Get(k)
				res := "notfound"
				if gerr == nil {
					res = "val:" + hx(got)
				} else if gerr != leveldb.ErrNotFound {
					res = "error"
				}
				c.Emit("vdb-get %s %s | %s", v.name, hx(k), res)
				want, ok := v.lookup(k)
				if ok != (gerr == nil) || (ok && !bytes.Equal(want, got)) {
					c.Fail("vdb-mem seq=%d: view %s@%s get %s = %s, state as of that version (plus own writes): present=%v value=%s", seq, v.name, v.version, hx(k), res, ok, hx(want))
					return
				}
				c.Hit("mem-get")
			case q < 45:
				k := vdbKey(c)
				has, _ := v.d.Has(k)
				c.Emit("vdb-has %s %s | %v", v.name, hx(k), has)
				if _, ok := v.lookup(k); ok != has {
					c.Fail("vdb-mem seq=%d: view %s@%s has %s = %v, state as of that version (plus own writes): present=%v", seq, v.name, v.version, hx(k), has, ok)
					return
				}
				c.Hit("mem-has")
			case q < 70:
				p := vdbPrefix(c)
				got, _, _ := scanDB(v.d, p)
				c.Emit("vdb-scan %s %s | %s", v.name, hx(p), got)
				keys := map[string]bool{}
				v.keys(keys)
				var ks []string
				for k := range keys {
					if bytes.HasPrefix([]byte(k), p) && (len(p) > 0 || userKey([]byte(k))) {
						if _, ok := v.lookup([]byte(k)); ok {
							ks = append(ks, k)
						}
					}
				}
				sort.Strings(ks)
				var w []string
				for _, k := range ks {
					val, _ := v.lookup([]byte(k))
					w = append(w, hx([]byte(k))+"="+hx(val))
				}
				want := "empty"
				if len(w) > 0 {
					want = strings.Join(w, ",")
				}
				if got != want {
					c.Fail("vdb-mem seq=%d: view %s@%s scan %s = [%s], state as of that version (plus own writes) gives [%s]", seq, v.name, v.version, hx(p), got, want)
					return
				}
				c.Hit("mem-scan")
			case q < 88:
				k, val := vdbKey(c), vdbMemVal(c)
				err := v.d.Put(k, val)
				c.Emit("vdb-put %s %s %s | %v", v.name, hx(k), hx(val), err == nil)
				v.write(k, val, false)
				c.Hit("mem-put")
			default:
				k := vdbKey(c)
				err := v.d.Delete(k)
				c.Emit("vdb-del %s %s | %v", v.name, hx(k), err == nil)
				v.write(k, nil, true)
				c.Hit("mem-del")
			}
		}
		if !checkPatches(fmt.Sprintf("after step %d", step)) {
			return
		}
		if step%6 == 5 {
			for _, v := range views {
				if v != nil && !checkView(v, "revalidation after later operations") {
					return
				}
			}
		}
	}
}

// vdbMemFrontierID: the identifier the manager's frontier database carries; a manager without a frontier database answers the zero identifier
func vdbMemFrontierID(m db.Manager) (id types.HashHeight, ok bool) {
	f := m.Frontier()
	if f == nil {
		return types.ZeroHashHeight, false
	}
	if p := safely(func() { id = db.GetFrontierIdentifier(f) }); p != "" {
		return types.ZeroHashHeight, false
	}
	return id, true
}
