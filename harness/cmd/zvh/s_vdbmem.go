package main

import (
	"bytes"
	"encoding/binary"
	"fmt"
	"sort"
	"strings"

	"github.com/syndtr/goleveldb/leveldb"

	"github.com/zenon-network/go-zenon/common/db"
	"github.com/zenon-network/go-zenon/common/types"
)

// ---------------------------------------------------------------------------------------------------
// vdb-mem stream (C07 / C14): the IN-MEMORY versioned store db.NewMemDBManager - the store the unconfirmed pool keeps
// per account - driven through the same kind of operation sequences as the leveldb manager of the `vdb` stream:
// commit on the frontier, commit on a stale / unknown parent, pop, views at identifiers of the current chain, of popped
// (abandoned) versions, unknown ones, right hash with wrong height, reads and writes through the views.
//
// The lines are those of the vdb stream (vdb-reset / vdb-add / vdb-pop / vdb-view / vdb-get / vdb-has / vdb-scan /
// vdb-put / vdb-del), so the Lean manager model that specifies the leveldb manager is evaluated on them as well: both
// managers implement the same interface and must answer alike. Where the two managers legitimately differ the operation
// is checked by the monitors only and no line is printed: a commit on a stale parent (the in-memory manager refuses it,
// store unchanged), a pop at the stable root of a manager created over a non-empty database, the patch queries.
//
// Model-free monitors (the sentences of the property):
//   - Get(X) is served iff X is the root or a version of the current chain; it shows the contents the store had when X
//     was the frontier, whatever happened later;
//   - GetPatch(X) answers iff X is a version of the current chain above the root, and replaying it over the version
//     before gives the contents of X; for a popped, abandoned, unknown or wrong-height identifier - and for the root -
//     there is no patch ("unknown"): the pool and the sync code take `GetPatch != nil` for "this block is in the pool".
// Values are never empty here (the encoding of empty values in historical leveldb views is the business of `vdb`).
// ---------------------------------------------------------------------------------------------------

func vdbMemVal(c *Ctx) []byte {
	n := 1 + c.R.Intn(4)
	v := make([]byte, n)
	for i := range v {
		v[i] = byte(c.R.Intn(4))
	}
	return v
}

func init() {
	register("vdb-mem", func(c *Ctx) {
		for seq := 0; seq < c.N; seq++ {
			vdbMemSequence(c, seq)
		}
	})
}

func vdbMemSequence(c *Ctx, seq int) {
	c.Emit("vdb-reset")
	counter := uint64(seq)<<32 | 1<<29
	newHash := func() types.Hash {
		counter++
		var h types.Hash
		binary.BigEndian.PutUint64(h[:8], counter)
		h[31] = 1
		return h
	}
	verKey := func(id types.HashHeight) string {
		if id.IsZero() {
			return "0:"
		}
		return idStr(id)
	}
	genOps := func() []kvOp {
		n := c.R.Intn(5)
		ops := make([]kvOp, 0, n)
		for i := 0; i < n; i++ {
			if c.R.Intn(4) == 0 {
				ops = append(ops, kvOp{del: true, k: vdbKey(c)})
			} else {
				ops = append(ops, kvOp{k: vdbKey(c), v: vdbMemVal(c)})
			}
		}
		return ops
	}
	mkPatch := func(ops []kvOp) db.Patch {
		p := db.NewPatch()
		for _, o := range ops {
			if o.del {
				p.Delete(o.k)
			} else {
				p.Put(o.k, o.v)
			}
		}
		return p
	}
	applyOps := func(s shadow, ops []kvOp) shadow {
		ns := s.clone()
		for _, o := range ops {
			if o.del {
				delete(ns, string(o.k))
			} else {
				ns[string(o.k)] = o.v
			}
		}
		return ns
	}
	userPart := func(s shadow) string {
		ks := make([]string, 0, len(s))
		for k := range s {
			if userKey([]byte(k)) {
				ks = append(ks, k)
			}
		}
		sort.Strings(ks)
		parts := make([]string, len(ks))
		for i, k := range ks {
			parts[i] = hx([]byte(k)) + "=" + hx(s[k])
		}
		if len(parts) == 0 {
			return "empty"
		}
		return strings.Join(parts, ",")
	}

	// the root: an empty database, or (as in the pool: the account's confirmed database) one that already holds a chain
	// of 1-3 versions written with the store's own SetFrontier / Apply; for the model these are ordinary commits
	raw := db.NewMemDB()
	specs := map[string]shadow{"0:": {}}
	chain := []types.HashHeight{}
	rootLen := 0
	if c.R.Intn(2) == 0 {
		rootLen = 1 + c.R.Intn(3)
		prev := types.ZeroHashHeight
		for i := 0; i < rootLen; i++ {
			id := types.HashHeight{Height: prev.Height + 1, Hash: newHash()}
			ops := genOps()
			if err := raw.Apply(mkPatch(ops)); err != nil {
				c.Fail("vdb-mem seq=%d: preparing the root failed: %v", seq, err)
				return
			}
			data, _ := (&vCommit{id: id, prev: prev}).Serialize()
			if err := db.SetFrontier(raw, id, data); err != nil {
				c.Fail("vdb-mem seq=%d: preparing the root failed: %v", seq, err)
				return
			}
			c.Emit("vdb-add %s %s %s | ok", verKey(prev), idStr(id), opsString(ops, false))
			specs[idStr(id)] = applyOps(specs[verKey(prev)], ops)
			chain = append(chain, id)
			prev = id
		}
		c.Hit("mem-root-with-history")
	} else {
		c.Hit("mem-root-empty")
	}
	m := db.NewMemDBManager(raw)
	rootID := types.ZeroHashHeight
	if rootLen > 0 {
		rootID = chain[rootLen-1]
	}
	frontierID := func() types.HashHeight {
		if len(chain) == 0 {
			return types.ZeroHashHeight
		}
		return chain[len(chain)-1]
	}
	abandoned := []types.HashHeight{}
	unknown := []types.HashHeight{}
	views := []*vView{}

	// the patch monitor: which identifiers answer GetPatch, and what the patch replays to
	checkPatches := func(what string) bool {
		onChain := map[types.HashHeight]int{}
		for i, id := range chain {
			if i >= rootLen {
				onChain[id] = i
			}
		}
		probe := func(id types.HashHeight, class string) bool {
			var p db.Patch
			if pn := safely(func() { p = m.GetPatch(id) }); pn != "" {
				c.Fail("vdb-mem seq=%d %s: GetPatch(%s) (%s) panics: %s", seq, what, verKey(id), class, firstLine(pn))
				return false
			}
			i, on := onChain[id]
			if !on {
				if p != nil {
					c.Fail("vdb-mem seq=%d %s: GetPatch(%s) answers a patch [%s] although %s is %s - only the versions of the current chain above the root have one (a popped version must answer like an unknown one)",
						seq, what, verKey(id), opsString(patchOps(p), true), verKey(id), class)
					return false
				}
				var d db.DB
				safely(func() { d = m.Get(id) })
				if d != nil && id != rootID {
					c.Fail("vdb-mem seq=%d %s: Get(%s) serves a view although %s is %s", seq, what, verKey(id), verKey(id), class)
					return false
				}
				c.Hit("mem-patch-nil-" + strings.ReplaceAll(strings.ReplaceAll(class, " ", "-"), "'", ""))
				return true
			}
			if p == nil {
				c.Fail("vdb-mem seq=%d %s: GetPatch(%s) is nil although %s is version %d of the current chain", seq, what, verKey(id), verKey(id), i+1)
				return false
			}
			// replaying the patch over the version before gives this version
			prevKey := "0:"
			if i > 0 {
				prevKey = idStr(chain[i-1])
			}
			got := userPart(applyOps(specs[prevKey], patchOps(p)))
			if want := userPart(specs[idStr(id)]); got != want {
				c.Fail("vdb-mem seq=%d %s: the patch stored for %s replayed over %s gives [%s], the contents of %s are [%s]", seq, what, idStr(id), prevKey, got, idStr(id), want)
				return false
			}
			c.Hit("mem-patch-replays")
			return true
		}
		for _, id := range chain {
			class := "inside the root database"
			if id == rootID {
				class = "the root"
			}
			if !probe(id, class) {
				return false
			}
		}
		for _, id := range abandoned {
			if _, back := onChain[id]; back {
				continue
			}
			if !probe(id, "a popped version") {
				return false
			}
		}
		for _, id := range unknown {
			if !probe(id, "an identifier that was never committed") {
				return false
			}
		}
		if !probe(types.ZeroHashHeight, "the zero identifier") {
			return false
		}
		if f := frontierID(); !f.IsZero() {
			wrong := f
			wrong.Height += uint64(1 + c.R.Intn(2))
			if !probe(wrong, "the frontier's hash with a wrong height") {
				return false
			}
		}
		return true
	}
	checkView := func(v *vView, what string) bool {
		keys := map[string]bool{}
		v.keys(keys)
		for k := range keys {
			if !userKey([]byte(k)) {
				continue
			}
			val, ok := v.lookup([]byte(k))
			got, gerr := v.d.Get([]byte(k))
			if ok && (gerr != nil || !bytes.Equal(got, val)) || !ok && gerr != leveldb.ErrNotFound {
				c.Fail("vdb-mem seq=%d %s: view %s@%s key %s: store says (%s,%v), the state as of that version (plus own writes): present=%v value=%s", seq, what, v.name, v.version, hx([]byte(k)), hx(got), gerr, ok, hx(val))
				return false
			}
		}
		return true
	}

	nops := 25 + c.R.Intn(40)
	for step := 0; step < nops; step++ {
		switch r := c.R.Intn(100); {
		case r < 24: // commit on the frontier
			prev := frontierID()
			id := types.HashHeight{Height: prev.Height + 1, Hash: newHash()}
			if len(abandoned) > 0 && c.R.Intn(4) == 0 {
				// the very identifier of a version that was popped before is committed again (a block that lost its place comes back)
				if a := abandoned[c.R.Intn(len(abandoned))]; a.Height == id.Height {
					id = a
					c.Hit("mem-add-abandoned-again")
				}
			}
			ops := genOps()
			var aerr error
			pn := safely(func() {
				aerr = m.Add(&vTx{commits: []db.Commit{&vCommit{id: id, prev: prev}}, patch: mkPatch(ops)})
			})
			res := "ok"
			if pn != "" {
				res = "panic"
			} else if aerr != nil {
				res = "err"
			}
			c.Emit("vdb-add %s %s %s | %s", verKey(prev), idStr(id), opsString(ops, false), res)
			c.Hit("mem-add-frontier")
			if res != "ok" {
				c.Fail("vdb-mem seq=%d: commit %s on the current frontier %s refused (%s)", seq, idStr(id), verKey(prev), res)
				return
			}
			specs[idStr(id)] = applyOps(specs[verKey(prev)], ops)
			chain = append(chain, id)
		case r < 30: // commit on a stale / abandoned / unknown parent: refused, nothing changes (monitors only)
			var prev types.HashHeight
			switch k := c.R.Intn(3); {
			case k == 0 && len(chain) >= 2:
				prev = chain[c.R.Intn(len(chain)-1)]
			case k == 1 && len(abandoned) > 0:
				prev = abandoned[c.R.Intn(len(abandoned))]
			default:
				prev = types.HashHeight{Height: uint64(c.R.Intn(4)), Hash: newHash()}
			}
			if prev == frontierID() {
				continue
			}
			id := types.HashHeight{Height: prev.Height + 1, Hash: newHash()}
			unknown = append(unknown, id)
			var aerr error
			pn := safely(func() {
				aerr = m.Add(&vTx{commits: []db.Commit{&vCommit{id: id, prev: prev}}, patch: mkPatch(append(genOps(), kvOp{k: vdbKey(c), v: []byte{9}}))})
			})
			c.Hit("mem-add-stale")
			if pn != "" || aerr == nil {
				c.Fail("vdb-mem seq=%d: commit %s on parent %s, which is not the frontier %s, was not refused (err=%v panic=%s)", seq, idStr(id), verKey(prev), verKey(frontierID()), aerr, firstLine(pn))
				return
			}
			if got := db.GetFrontierIdentifier(m.Frontier()); got != frontierID() {
				c.Fail("vdb-mem seq=%d: a refused commit moved the frontier to %s (expected %s)", seq, verKey(got), verKey(frontierID()))
				return
			}
		case r < 44: // pop
			if len(chain) == rootLen && rootLen > 0 {
				// the root of a manager over a non-empty database cannot be popped (monitor only: the model's chain goes on below)
				var perr error
				pn := safely(func() { perr = m.Pop() })
				c.Hit("mem-pop-at-root")
				if pn != "" || perr == nil {
					c.Fail("vdb-mem seq=%d: pop at the root %s was not refused (err=%v panic=%s)", seq, verKey(rootID), perr, firstLine(pn))
					return
				}
				continue
			}
			var perr error
			pn := safely(func() { perr = m.Pop() })
			res := "ok"
			if pn != "" {
				res = "panic"
			} else if perr != nil {
				res = "err"
			}
			c.Emit("vdb-pop | %s", res)
			c.Hit("mem-pop")
			if len(chain) == 0 {
				if res != "err" {
					c.Fail("vdb-mem seq=%d: pop of an empty store answers %s", seq, res)
					return
				}
				continue
			}
			if res != "ok" {
				c.Fail("vdb-mem seq=%d: pop of frontier %s failed: %s", seq, idStr(frontierID()), res)
				return
			}
			abandoned = append(abandoned, chain[len(chain)-1])
			chain = chain[:len(chain)-1]
			if got := db.GetFrontierIdentifier(m.Frontier()); got != frontierID() {
				c.Fail("vdb-mem seq=%d: after the pop the frontier is %s, expected %s", seq, verKey(got), verKey(frontierID()))
				return
			}
		case r < 60: // open a view
			var id types.HashHeight
			live := chain[rootLen:]
			kind := c.R.Intn(10)
			switch {
			case kind < 4 && len(live) > 0:
				id = live[c.R.Intn(len(live))]
				c.Hit("mem-view-chain")
			case kind < 6 && len(abandoned) > 0:
				id = abandoned[c.R.Intn(len(abandoned))]
				c.Hit("mem-view-abandoned")
			case kind < 7 && len(live) > 0:
				id = live[c.R.Intn(len(live))]
				id.Height += uint64(1 + c.R.Intn(3))
				c.Hit("mem-view-wrong-height")
			case kind < 8:
				id = types.HashHeight{Height: uint64(1 + c.R.Intn(5)), Hash: newHash()}
				unknown = append(unknown, id)
				c.Hit("mem-view-unknown")
			default:
				id = frontierID()
				c.Hit("mem-view-frontier")
			}
			if id.IsZero() && rootLen > 0 {
				continue
			}
			inRoot := false
			for _, x := range chain[:rootLen] {
				if x == id && id != rootID {
					inRoot = true // a version below the root: the leveldb manager would serve it, the in-memory manager has no such view
				}
			}
			if inRoot {
				continue
			}
			name := fmt.Sprintf("v%d", len(views))
			var d db.DB
			pn := safely(func() { d = m.Get(id) })
			onChain := id == rootID
			for _, x := range live {
				if x == id {
					onChain = true
				}
			}
			res := "ok"
			if pn != "" {
				res = "panic"
			} else if d == nil {
				res = "nil"
			}
			c.Emit("vdb-view %s %s | %s", name, verKey(id), res)
			if onChain && res != "ok" {
				c.Fail("vdb-mem seq=%d: view at %s (on the current chain) could not be opened: %s", seq, verKey(id), res)
				return
			}
			if !onChain && res == "ok" {
				c.Fail("vdb-mem seq=%d: view at %s, which is not a version of the current chain (popped, unknown or wrong height), was served", seq, verKey(id))
				return
			}
			if res != "ok" {
				views = append(views, nil)
				continue
			}
			base := specs[verKey(id)]
			if base == nil {
				base = shadow{}
			}
			v := &vView{name: name, d: d, base: base.clone(), writes: map[string][]byte{}, version: verKey(id)}
			views = append(views, v)
			if got := db.GetFrontierIdentifier(d); got != id {
				c.Fail("vdb-mem seq=%d: view at %s reports frontier identifier %s", seq, verKey(id), verKey(got))
				return
			}
			if !checkView(v, "at open") {
				return
			}
		default:
			if len(views) == 0 {
				continue
			}
			v := views[c.R.Intn(len(views))]
			if v == nil {
				continue
			}
			switch q := c.R.Intn(100); {
			case q < 35:
				k := vdbKey(c)
				got, gerr := v.d.Get(k)
				res := "notfound"
				if gerr == nil {
					res = "val:" + hx(got)
				} else if gerr != leveldb.ErrNotFound {
					res = "error"
				}
				c.Emit("vdb-get %s %s | %s", v.name, hx(k), res)
				want, ok := v.lookup(k)
				if ok != (gerr == nil) || (ok && !bytes.Equal(want, got)) {
					c.Fail("vdb-mem seq=%d: view %s@%s get %s = %s, state as of that version (plus own writes): present=%v value=%s", seq, v.name, v.version, hx(k), res, ok, hx(want))
					return
				}
				c.Hit("mem-get")
			case q < 45:
				k := vdbKey(c)
				has, _ := v.d.Has(k)
				c.Emit("vdb-has %s %s | %v", v.name, hx(k), has)
				if _, ok := v.lookup(k); ok != has {
					c.Fail("vdb-mem seq=%d: view %s@%s has %s = %v, state as of that version (plus own writes): present=%v", seq, v.name, v.version, hx(k), has, ok)
					return
				}
				c.Hit("mem-has")
			case q < 70:
				p := vdbPrefix(c)
				got, _, _ := scanDB(v.d, p)
				c.Emit("vdb-scan %s %s | %s", v.name, hx(p), got)
				keys := map[string]bool{}
				v.keys(keys)
				var ks []string
				for k := range keys {
					if bytes.HasPrefix([]byte(k), p) && (len(p) > 0 || userKey([]byte(k))) {
						if _, ok := v.lookup([]byte(k)); ok {
							ks = append(ks, k)
						}
					}
				}
				sort.Strings(ks)
				var w []string
				for _, k := range ks {
					val, _ := v.lookup([]byte(k))
					w = append(w, hx([]byte(k))+"="+hx(val))
				}
				want := "empty"
				if len(w) > 0 {
					want = strings.Join(w, ",")
				}
				if got != want {
					c.Fail("vdb-mem seq=%d: view %s@%s scan %s = [%s], state as of that version (plus own writes) gives [%s]", seq, v.name, v.version, hx(p), got, want)
					return
				}
				c.Hit("mem-scan")
			case q < 88:
				k, val := vdbKey(c), vdbMemVal(c)
				err := v.d.Put(k, val)
				c.Emit("vdb-put %s %s %s | %v", v.name, hx(k), hx(val), err == nil)
				v.write(k, val, false)
				c.Hit("mem-put")
			default:
				k := vdbKey(c)
				err := v.d.Delete(k)
				c.Emit("vdb-del %s %s | %v", v.name, hx(k), err == nil)
				v.write(k, nil, true)
				c.Hit("mem-del")
			}
		}
		if !checkPatches(fmt.Sprintf("after step %d", step)) {
			return
		}
		if step%6 == 5 {
			for _, v := range views {
				if v != nil && !checkView(v, "revalidation after later operations") {
					return
				}
			}
		}
	}
}
