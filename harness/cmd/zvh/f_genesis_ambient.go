package main

import (
	"bytes"
	"fmt"
	"go/ast"
	"go/parser"
	"go/printer"
	"go/token"
	"os"
	"path/filepath"
	"sort"
	"strings"
)

// GenesisAmbient: C20, "the genesis momentum is a PURE FUNCTION of the genesis configuration, independent of ... process".
// AST scan of everything that builds the genesis momentum — every non-test file of package chain/genesis and the files of
// chain/… it calls (account pool, momentum / account-block hashing, momentum content) — for references to anything a Go
// program can read that is NOT its argument:
//
//	gnAmbientRefs   every reference `pkg.Name` into the packages through which a process reads its surroundings (time, os,
//	                os/user, os/signal, os/exec, runtime, runtime/debug, math/rand, math/rand/v2, crypto/rand, net, syscall,
//	                under whatever local name the file imports them), and every reference to a process-wide clock object
//	                (`common.Clock`, any selector named Clock). Nothing is filtered: the pure ones (time.Unix, the type
//	                time.Time, os.Open of the genesis FILE) are part of the reviewed list pinned in Props/C20Pure.lean, so
//	                a new reference of any kind — time.Now, common.Clock.Now, os.Getenv, os.Hostname, rand.Intn — is drift.
//	gnMapRanges     every `range` over a Go map (iteration order differs from run to run) in these files, resolved
//	                syntactically: a local made with make(map…) / a map literal / declared with a map type, a parameter of map
//	                type, or a selector whose field is declared with a map type in a struct of the same directory.
//	gnHeaderLiteral the composite literal `&nom.Momentum{…}` of newGenesisMomentum, field by field as source text, preceded by
//	                the statements that define the local names the fields use (`timestamp := …`): what the model's
//	                `genesisHeader` was written for.
func init() {
	factGens = append(factGens, func(repo string) (*factFile, error) {
		ambientPkgs := map[string]bool{"time": true, "os": true, "os/user": true, "os/signal": true, "os/exec": true, "runtime": true,
			"runtime/debug": true, "math/rand": true, "math/rand/v2": true, "crypto/rand": true, "net": true, "syscall": true}
		type unit struct {
			dir   string
			files []string // nil = every non-test file of the directory
			skip  map[string]bool
		}
		units := []unit{
			{dir: "chain/genesis"},
			{dir: "chain", files: []string{"account_pool.go"}},
			{dir: "chain/nom", files: []string{"momentum.go", "momentum_content.go", "account_block.go"}},
		}
		// ranges are listed for the code that BUILDS the genesis; the validators of shared_tests.go only produce a verdict
		// (their refusals are pinned by Gen.gn…Refusals) and chain/nom has no map
		rangeSkip := map[string]bool{"chain/genesis/shared_tests.go": true}
		txt := func(fset *token.FileSet, n ast.Node) string {
			var b bytes.Buffer
			printer.Fprint(&b, fset, n)
			return strings.Join(strings.Fields(b.String()), " ")
		}
		var refs, ranges, header []string
		for _, u := range units {
			dir := filepath.Join(repo, u.dir)
			ents, err := os.ReadDir(dir)
			if err != nil {
				return nil, err
			}
			fset := token.NewFileSet()
			parsed := map[string]*ast.File{}
			var names []string
			for _, e := range ents {
				name := e.Name()
				if e.IsDir() || !strings.HasSuffix(name, ".go") || strings.HasSuffix(name, "_test.go") || strings.HasSuffix(name, "_verif.go") || strings.HasSuffix(name, ".pb.go") {
					continue
				}
				f, err := parser.ParseFile(fset, filepath.Join(dir, name), nil, 0)
				if err != nil {
					return nil, err
				}
				parsed[name] = f
				names = append(names, name)
			}
			sort.Strings(names)
			// struct fields of map type declared anywhere in the directory
			mapField := map[string]bool{}
			for _, name := range names {
				ast.Inspect(parsed[name], func(n ast.Node) bool {
					if st, ok := n.(*ast.StructType); ok {
						for _, fl := range st.Fields.List {
							if _, isMap := fl.Type.(*ast.MapType); isMap {
								for _, id := range fl.Names {
									mapField[id.Name] = true
								}
							}
						}
					}
					return true
				})
			}
			want := map[string]bool{}
			for _, fn := range u.files {
				want[fn] = true
			}
			for _, name := range names {
				if u.files != nil && !want[name] {
					continue
				}
				f := parsed[name]
				rel := u.dir + "/" + name
				local := map[string]string{} // local package name -> import path
				for _, im := range f.Imports {
					path := strings.Trim(im.Path.Value, "\"`")
					if !ambientPkgs[path] {
						continue
					}
					l := path[strings.LastIndex(path, "/")+1:]
					if path == "math/rand/v2" {
						l = "rand"
					}
					if im.Name != nil {
						l = im.Name.Name
					}
					local[l] = path
				}
				for _, d := range f.Decls {
					fn := "(package level)"
					var body ast.Node = d
					var fd *ast.FuncDecl
					if x, ok := d.(*ast.FuncDecl); ok {
						fd = x
						fn = x.Name.Name
						if x.Recv != nil && len(x.Recv.List) > 0 {
							t := x.Recv.List[0].Type
							if st, ok := t.(*ast.StarExpr); ok {
								t = st.X
							}
							if id, ok := t.(*ast.Ident); ok {
								fn = id.Name + "." + fn
							}
						}
					}
					// names of map type inside this function: parameters, `var x map…`, `x := make(map…)`, `x := map…{…}`
					mapVar := map[string]bool{}
					isMapExpr := func(e ast.Expr) bool {
						switch x := e.(type) {
						case *ast.CompositeLit:
							_, ok := x.Type.(*ast.MapType)
							return ok
						case *ast.CallExpr:
							if id, ok := x.Fun.(*ast.Ident); ok && id.Name == "make" && len(x.Args) > 0 {
								_, ok := x.Args[0].(*ast.MapType)
								return ok
							}
						}
						return false
					}
					if fd != nil && fd.Type.Params != nil {
						for _, p := range fd.Type.Params.List {
							if _, ok := p.Type.(*ast.MapType); ok {
								for _, id := range p.Names {
									mapVar[id.Name] = true
								}
							}
						}
					}
					ast.Inspect(body, func(n ast.Node) bool {
						switch x := n.(type) {
						case *ast.AssignStmt:
							for i, r := range x.Rhs {
								if i < len(x.Lhs) && isMapExpr(r) {
									if id, ok := x.Lhs[i].(*ast.Ident); ok {
										mapVar[id.Name] = true
									}
								}
							}
						case *ast.ValueSpec:
							_, typed := x.Type.(*ast.MapType)
							for i, id := range x.Names {
								if typed || (i < len(x.Values) && isMapExpr(x.Values[i])) {
									mapVar[id.Name] = true
								}
							}
						}
						return true
					})
					ast.Inspect(body, func(n ast.Node) bool {
						switch x := n.(type) {
						case *ast.SelectorExpr:
							if id, ok := x.X.(*ast.Ident); ok && id.Obj == nil {
								if path, amb := local[id.Name]; amb {
									refs = append(refs, fmt.Sprintf("%s:%s:%s.%s", rel, fn, path, x.Sel.Name))
								}
							}
							if x.Sel.Name == "Clock" {
								refs = append(refs, fmt.Sprintf("%s:%s:%s", rel, fn, txt(fset, x)))
							}
						case *ast.RangeStmt:
							if rangeSkip[rel] || u.dir == "chain/nom" {
								return true
							}
							isMap := isMapExpr(x.X)
							switch e := x.X.(type) {
							case *ast.Ident:
								isMap = isMap || mapVar[e.Name]
							case *ast.SelectorExpr:
								isMap = isMap || mapField[e.Sel.Name]
							}
							if isMap {
								ranges = append(ranges, fmt.Sprintf("%s:%s:range %s", rel, fn, txt(fset, x.X)))
							}
						}
						return true
					})
					// the header literal of newGenesisMomentum
					if fd != nil && rel == "chain/genesis/momentum.go" && fd.Name.Name == "newGenesisMomentum" {
						var lit *ast.CompositeLit
						ast.Inspect(fd.Body, func(n ast.Node) bool {
							if cl, ok := n.(*ast.CompositeLit); ok && lit == nil && txt(fset, cl.Type) == "nom.Momentum" {
								lit = cl
							}
							return true
						})
						if lit == nil {
							return nil, fmt.Errorf("newGenesisMomentum: no nom.Momentum literal")
						}
						used := map[string]bool{}
						for _, el := range lit.Elts {
							ast.Inspect(el, func(n ast.Node) bool {
								if id, ok := n.(*ast.Ident); ok {
									used[id.Name] = true
								}
								return true
							})
						}
						for _, st := range fd.Body.List {
							if as, ok := st.(*ast.AssignStmt); ok && st.Pos() < lit.Pos() {
								for _, l := range as.Lhs {
									if id, ok := l.(*ast.Ident); ok && used[id.Name] {
										header = append(header, txt(fset, as))
										break
									}
								}
							}
						}
						for _, el := range lit.Elts {
							header = append(header, txt(fset, el))
						}
						// later writes to the header before it is handed to the supervisor (m.X = …)
						ast.Inspect(fd.Body, func(n ast.Node) bool {
							if as, ok := n.(*ast.AssignStmt); ok && as.Pos() > lit.End() {
								for _, l := range as.Lhs {
									if se, ok := l.(*ast.SelectorExpr); ok {
										if id, ok := se.X.(*ast.Ident); ok && id.Name == "m" {
											header = append(header, txt(fset, as))
										}
									}
								}
							}
							return true
						})
					}
				}
			}
		}
		sort.Strings(refs)
		sort.Strings(ranges)
		f := newFactFile("GenesisAmbient")
		f.raw("-- chain/genesis (all non-test files), chain/account_pool.go, chain/nom/{momentum,momentum_content,account_block}.go:\n")
		f.raw("-- every reference into time / os / runtime / math/rand / crypto/rand / net / syscall and to a process-wide Clock\n")
		f.strList("gnAmbientRefs", refs)
		f.raw("-- every range over a Go map in the code that builds the genesis (chain/genesis without the validators, chain/account_pool.go)\n")
		f.strList("gnMapRanges", ranges)
		f.raw("-- chain/genesis/momentum.go newGenesisMomentum: the header literal &nom.Momentum{…} and the locals it uses\n")
		f.strList("gnHeaderLiteral", header)
		return f, nil
	})
}
