package main

import (
	"fmt"
	"math/big"

	g "github.com/zenon-network/go-zenon/chain/genesis/mock"
	"github.com/zenon-network/go-zenon/chain/nom"
	"github.com/zenon-network/go-zenon/common/types"
	"github.com/zenon-network/go-zenon/vm/embedded/definition"
)

// ---------------------------------------------------------------------------------------------------
// contract stream (C10), scenario class "a lock holds whatever administrative / configuration change happens between
// the deposit and the release". The liquidity contract is the one fund-locking contract with an administrator: in every
// liquidity history fresh stakes are made and then EVERY administrative action the contract offers is driven through
// its real path (two-step time challenges included) while the stakes are locked:
//   SetTokenTuple removing the staked token (or all tokens), SetTokenTuple re-adding it with other reward weights and a
//   minimal amount ABOVE the staked amount, SetIsHalted on / off, UnlockLiquidityStakeEntries for ANOTHER token,
//   UnlockLiquidityStakeEntries by a NON-administrator, ChangeAdministrator (then the old administrator's unlock),
//   Emergency, and — the one legitimate early release — UnlockLiquidityStakeEntries of the token by the administrator.
// After every action the depositor and a stranger try to cancel every open stake of the scenario, and one stake is run
// to maturity-2, -1 and 0 momentums. The monitors are the stream's general, model-free release monitors (an applied
// cancel before the logged maturity fails the run; a matured cancel is paid exactly once, to the depositor, the locked
// amount; entries' amounts / expiration times in storage stay what the deposit asked for) plus the one below: the
// lock log learns of an early release ONLY from a confirmed, applied UnlockLiquidityStakeEntries receive sent by the
// address recorded as administrator, and only for entries of the token that call carried.
// ---------------------------------------------------------------------------------------------------

type histEnv struct {
	call    func(from, to types.Address, tok types.ZenonTokenStandard, amount *big.Int, method string, data []byte) *nom.AccountBlock
	advance func(int) bool
	now     func() int64
	qsr     func(int64) *big.Int
}

// decodeLiquidityAdmin: UnlockLiquidityStakeEntries is a modelled call (it rewrites stake entries); what it reads from
// the administrator-managed configuration — is the sender the administrator — is an oracle input taken from the storage
// as of the last momentum (administrator changes and unlock calls are never generated within one momentum).
func (r *contractRun) decodeLiquidityAdmin(d *decoded, send *nom.AccountBlock) {
	if d.method == definition.UnlockLiquidityStakeEntriesMethodName {
		d.args, d.modelled = []string{fmt.Sprint(send.Address == r.liqAdmin)}, true
	}
}

// monitorLiquidityAdmin: the only administrative receive that may move a maturity is an applied unlock by the administrator
func (r *contractRun) monitorLiquidityAdmin(b, send *nom.AccountBlock, d *decoded, ok bool, ackT int64) {
	if d.method != definition.UnlockLiquidityStakeEntriesMethodName {
		return
	}
	if !ok {
		if send.Address == r.liqAdmin && send.Amount.Sign() == 0 {
			r.fail("liveness: UnlockLiquidityStakeEntries by the administrator %s was refused", addrName(send.Address))
		}
		r.c.Hit("refusal-liquidity.UnlockLiquidityStakeEntries")
		return
	}
	if send.Address != r.liqAdmin {
		r.fail("release: UnlockLiquidityStakeEntries sent by %s was applied, the administrator is %s", addrName(send.Address), addrName(r.liqAdmin))
		return
	}
	k := 0
	for _, lk := range r.locks {
		if lk.kind == "lstake" && lk.paidAt == 0 && lk.tok == send.TokenStandard && lk.matureT > ackT {
			lk.matureT, lk.unlockedAt = ackT, ackT
			k++
		}
	}
	if k > 0 {
		r.c.Hit("lstake-unlocked-by-administrator")
	} else {
		r.c.Hit("lstake-unlock-without-locked-entries-of-the-token")
	}
}

type scenStake struct {
	id    types.Hash
	owner types.Address
	key   string
}

// lockVsAdministration returns false when the history has to end (a monitor fired / the node failed).
func (r *contractRun) lockVsAdministration(e histEnv, users []types.Address) bool {
	c := r.c
	zero := big.NewInt(0)
	info, err := definition.GetLiquidityInfo(r.storage(types.LiquidityContract))
	if err != nil || info == nil || len(info.TokenTuples) == 0 {
		return true
	}
	admin := info.Administrator
	tuples := func() map[string]bool {
		m := map[string]bool{}
		if i, err := definition.GetLiquidityInfo(r.storage(types.LiquidityContract)); err == nil && i != nil {
			for _, t := range i.TokenTuples {
				m[t.TokenStandard] = true
			}
		}
		return m
	}
	tok, other := types.ZnnTokenStandard, types.QsrTokenStandard
	if len(info.TokenTuples) == 2 && c.R.Intn(2) == 0 {
		tok, other = other, tok
	}
	otherListed := tuples()[other.String()]
	liq := func(from types.Address, t types.ZenonTokenStandard, method string, args ...interface{}) bool {
		return e.call(from, types.LiquidityContract, t, zero, method, definition.ABILiquidity.PackMethodPanic(method, args...)) != nil
	}
	perm := c.R.Perm(len(users))
	user := func(i int) types.Address { return users[perm[i%len(users)]] }
	var open []*scenStake
	stake := func(owner types.Address, t types.ZenonTokenStandard, units int64, seconds int64) *scenStake {
		k := (seconds + r.p.stakeUnit - 1) / r.p.stakeUnit
		if k < 1 {
			k = 1
		}
		if k > 12 {
			k = 12
		}
		b := e.call(owner, types.LiquidityContract, t, e.qsr(units), "LiquidityStake", definition.ABILiquidity.PackMethodPanic(definition.LiquidityStakeMethodName, k*r.p.stakeUnit))
		if b == nil {
			return nil
		}
		return &scenStake{id: b.Hash, owner: owner, key: lockKey(types.LiquidityContract, "lstake", addrName(owner), h8z(b.Hash))}
	}
	confirmed := func(l ...*scenStake) {
		for _, s := range l {
			if s != nil && r.locks[s.key] != nil {
				open = append(open, s)
				c.Hit("lock-vs-admin-stake-made")
			} else if s != nil {
				c.Hit("lock-vs-admin-stake-refused")
			}
		}
	}
	cancel := func(from types.Address, s *scenStake) {
		e.call(from, types.LiquidityContract, types.ZnnTokenStandard, zero, "CancelLiquidityStake", definition.ABILiquidity.PackMethodPanic(definition.CancelLiquidityStakeMethodName, s.id))
	}
	// the depositor and a stranger try to cancel every open stake of the scenario
	attempts := func(phase string) bool {
		r.adminPhase = phase
		for i, s := range open {
			lk := r.locks[s.key]
			if lk == nil || lk.paidAt != 0 {
				continue
			}
			stranger := user(i)
			if stranger == s.owner {
				stranger = user(i + 1)
			}
			if c.R.Intn(2) == 0 {
				cancel(stranger, s)
				cancel(s.owner, s)
			} else {
				cancel(s.owner, s)
				cancel(stranger, s)
			}
			if e.now() < lk.matureT-10 {
				c.Hit("lock-vs-admin-early-attempt-after-" + phase)
			} else {
				c.Hit("lock-vs-admin-matured-attempt-after-" + phase)
			}
		}
		return e.advance(2)
	}
	// the depositor tries at maturity -2, -1, 0 momentums, then once more (a send submitted at frontier time t is received with t+10)
	edge := func(s *scenStake, phase string) bool {
		if s == nil || r.locks[s.key] == nil || r.locks[s.key].paidAt != 0 {
			return true
		}
		lk := r.locks[s.key]
		r.adminPhase = phase
		if k := (lk.matureT - 30 - e.now()) / 10; k > 0 {
			if k > 150 || !e.advance(int(k)) {
				return !r.failed
			}
		}
		for i := 0; i < 4; i++ {
			if lk.paidAt == 0 {
				c.Hit(fmt.Sprintf("lock-vs-admin-edge-attempt-at-maturity%+d-after-%s", (e.now()+10-lk.matureT)/10, phase))
			}
			cancel(s.owner, s)
			if !e.advance(1) {
				return false
			}
		}
		return e.advance(1)
	}
	challenged := func(delay int, from types.Address, method string, args ...interface{}) (first func() bool, second func() bool) {
		var h0 uint64
		first = func() bool {
			h0 = r.n.Height()
			return liq(from, types.ZnnTokenStandard, method, args...) && e.advance(2)
		}
		second = func() bool {
			if k := int(h0) + delay + 4 - int(r.n.Height()); k > 0 && !e.advance(k) {
				return false
			}
			return liq(from, types.ZnnTokenStandard, method, args...) && e.advance(2)
		}
		return
	}
	done := func(why string) bool {
		r.adminPhase = ""
		c.Hit("lock-vs-admin-ended-" + why)
		return !r.failed
	}

	// ---- A: the staked token is taken out of the token tuples (two-step SetTokenTuple; the stakes are made in between) ----
	var zts []string
	var pz, pq []uint32
	var mins []*big.Int
	delistAll := !otherListed && c.R.Intn(2) == 0
	if !delistAll {
		zts, pz, pq, mins = []string{other.String()}, []uint32{10000}, []uint32{10000}, []*big.Int{big.NewInt(2000)}
	} else {
		zts, pz, pq, mins = []string{}, []uint32{}, []uint32{}, []*big.Int{}
	}
	first, second := challenged(10, admin, definition.SetTokenTupleMethodName, zts, pz, pq, mins)
	if !first() || !e.advance(10) {
		return done("delist-challenge-not-started")
	}
	s1 := stake(user(0), tok, 5, 170)
	s2 := stake(user(1), tok, 5, 12*r.p.stakeUnit)
	var s3 *scenStake
	if otherListed {
		s3 = stake(user(2), other, 6, 12*r.p.stakeUnit)
	}
	if !e.advance(2) {
		return false
	}
	confirmed(s1, s2, s3)
	if len(open) == 0 {
		return done("no-stake-made")
	}
	if !second() {
		return done("delist-second-step-failed")
	}
	if tuples()[tok.String()] {
		return done("token-still-listed")
	}
	if delistAll {
		c.Hit("lock-vs-admin-all-tokens-delisted")
	}
	if !attempts("token-delisted") {
		return false
	}

	// ---- B: the token comes back with other reward weights and a minimal amount above the staked one; meanwhile the short stake matures ----
	zts = []string{tok.String(), other.String()}
	pz, pq = []uint32{3000, 7000}, []uint32{6000, 4000}
	mins = []*big.Int{new(big.Int).Add(e.qsr(5), big.NewInt(1)), big.NewInt(2000)}
	first, second = challenged(10, admin, definition.SetTokenTupleMethodName, zts, pz, pq, mins)
	if !first() {
		return done("relist-challenge-not-started")
	}
	if s1 != nil && !edge(s1, "token-delisted") {
		return false
	}
	if !second() {
		return done("relist-second-step-failed")
	}
	if !tuples()[tok.String()] {
		return done("token-not-relisted")
	}
	if !attempts("token-relisted-reweighted-minimum-raised") {
		return false
	}

	// ---- C: halt, unlock of ANOTHER token, unlock by a NON-administrator, unhalt ----
	s4 := stake(user(3), tok, 7, 240)
	var s5 *scenStake
	if s3 == nil || r.locks[s3.key] == nil {
		s5 = stake(user(2), other, 7, 12*r.p.stakeUnit)
	}
	if !e.advance(2) {
		return false
	}
	confirmed(s4, s5)
	if !liq(admin, types.ZnnTokenStandard, definition.SetIsHaltedMethodName, true) || !e.advance(2) {
		return done("halt-failed")
	}
	if !attempts("halted") {
		return false
	}
	nonAdmin := user(4)
	if nonAdmin == admin {
		nonAdmin = user(5)
	}
	if !liq(nonAdmin, tok, definition.UnlockLiquidityStakeEntriesMethodName) || !e.advance(2) {
		return done("unlock-by-stranger-not-sent")
	}
	if !attempts("unlock-sent-by-a-non-administrator") {
		return false
	}
	if !liq(admin, other, definition.UnlockLiquidityStakeEntriesMethodName) || !e.advance(2) {
		return done("unlock-of-other-token-not-sent")
	}
	if !attempts("administrator-unlocked-another-token") { // stakes of the OTHER token are released now, and only those
		return false
	}
	if !liq(admin, types.ZnnTokenStandard, definition.SetIsHaltedMethodName, false) || !e.advance(2) {
		return done("unhalt-failed")
	}
	if s4 != nil && !edge(s4, "unhalted") {
		return false
	}

	// ---- D: the administrator changes (time-challenged); the old administrator's unlock is void ----
	if c.R.Intn(2) == 0 {
		newAdmin := g.User4.Address
		first, second = challenged(20, admin, definition.ChangeAdministratorMethodName, newAdmin)
		if !first() || !e.advance(20) {
			return done("administrator-challenge-not-started")
		}
		s6 := stake(user(0), tok, 8, 200)
		if !e.advance(2) {
			return false
		}
		confirmed(s6)
		if !second() {
			return done("administrator-second-step-failed")
		}
		if i, err := definition.GetLiquidityInfo(r.storage(types.LiquidityContract)); err != nil || i.Administrator != newAdmin {
			return done("administrator-not-changed")
		}
		if !attempts("administrator-changed") {
			return false
		}
		if !liq(admin, tok, definition.UnlockLiquidityStakeEntriesMethodName) || !e.advance(2) {
			return done("unlock-by-old-administrator-not-sent")
		}
		admin = newAdmin
		if !attempts("unlock-sent-by-the-former-administrator") {
			return false
		}
	}

	// ---- E: emergency (the administrator gives up its role) or the legitimate unlock ----
	s7 := stake(user(1), tok, 9, 200)
	s8 := stake(user(5), tok, 9, 12*r.p.stakeUnit)
	if !e.advance(2) {
		return false
	}
	confirmed(s7, s8)
	if c.R.Intn(3) == 0 {
		if !liq(admin, types.ZnnTokenStandard, definition.EmergencyMethodName) || !e.advance(2) {
			return done("emergency-not-sent")
		}
		if !attempts("emergency") {
			return false
		}
		if s7 != nil && !edge(s7, "emergency") {
			return false
		}
		return done("after-emergency")
	}
	if !liq(admin, tok, definition.UnlockLiquidityStakeEntriesMethodName) || !e.advance(2) {
		return done("unlock-not-sent")
	}
	if !attempts("administrator-unlocked-the-token") { // every open stake of the token is cancellable now: the liveness monitor demands the payout
		return false
	}
	if !attempts("administrator-unlocked-the-token") { // and only once
		return false
	}
	// a stake made after the unlock is locked again
	s9 := stake(user(2), tok, 9, 200)
	if !e.advance(2) {
		return false
	}
	confirmed(s9)
	if !attempts("staked-after-the-unlock") {
		return false
	}
	if s9 != nil && !edge(s9, "staked-after-the-unlock") {
		return false
	}
	return done("complete")
}
