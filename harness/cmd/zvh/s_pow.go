package main

import (
	"encoding/binary"
	"encoding/hex"
	"fmt"
	"math/big"
	"strings"

	"github.com/zenon-network/go-zenon/chain/nom"
	"github.com/zenon-network/go-zenon/common/types"
	"github.com/zenon-network/go-zenon/pow"
	"github.com/zenon-network/go-zenon/vm"
)

func u64Boundary() []uint64 {
	b := []uint64{0, 1, 2, 3, 4, 5, 7, 8, 255, 256, 1499, 1500, 1501, 2999, 3000, 3001,
		1<<31 - 1, 1 << 31, 1<<31 + 1, 1<<32 - 1, 1 << 32, 1<<32 + 1, 1 << 62, 1<<63 - 1, 1 << 63, 1<<63 + 1,
		1<<64 - 2, 1<<64 - 1, 141750000 - 1, 141750000, 141750000 + 1, 94500 * 1500, 94500*1500 + 1}
	return b
}

func randU64(c *Ctx) uint64 {
	switch c.R.Intn(6) {
	case 0:
		bs := u64Boundary()
		return bs[c.R.Intn(len(bs))]
	case 1:
		return uint64(c.R.Intn(1 << 20))
	case 2:
		return uint64(1)<<uint(c.R.Intn(64)) + uint64(c.R.Intn(5)) - 2
	case 3:
		return c.R.Uint64() | (1 << 63)
	case 4:
		return c.R.Uint64() >> uint(c.R.Intn(64))
	default:
		return c.R.Uint64()
	}
}

func init() {
	// pow: getTargetByDifficulty, greaterDifficulty, DifficultyToPlasma, FussedAmountToPlasma, GetDifficultyForPlasma
	register("pow", func(c *Ctx) {
		for _, d := range u64Boundary() {
			powCase(c, d)
		}
		for i := 0; i < c.N; i++ {
			powCase(c, randU64(c))
		}
		for i := 0; i < c.N; i++ {
			// greaterDifficulty on 8-byte strings: equal, differing in one byte, random
			var x, y [8]byte
			binary.LittleEndian.PutUint64(x[:], randU64(c))
			switch c.R.Intn(4) {
			case 0:
				y = x
			case 1:
				y = x
				y[c.R.Intn(8)] ^= byte(1 << uint(c.R.Intn(8)))
			default:
				binary.LittleEndian.PutUint64(y[:], randU64(c))
			}
			r := pow.GreaterDifficultyVerif(x[:], y[:])
			c.Emit("pow-gd %s %s | %v", hex.EncodeToString(x[:]), hex.EncodeToString(y[:]), r)
			if r {
				c.Hit("gd-true")
			} else {
				c.Hit("gd-false")
			}
			// model-free monitor: the statement's comparison on the integer values
			if r != (binary.LittleEndian.Uint64(x[:]) >= binary.LittleEndian.Uint64(y[:])) {
				c.Fail("greaterDifficulty(%x,%x)=%v disagrees with uint64 comparison", x, y, r)
			}
		}
		for i := 0; i < c.N; i++ {
			// fused amount -> plasma
			var a *big.Int
			switch c.R.Intn(5) {
			case 0:
				a = big.NewInt(int64(c.R.Intn(3)) - 1)
			case 1:
				a = new(big.Int).SetUint64(uint64(c.R.Intn(6000)) * 100000000)
				a.Add(a, big.NewInt(int64(c.R.Intn(3))-1))
			case 2:
				a = new(big.Int).Lsh(big.NewInt(1), uint(c.R.Intn(200)))
				a.Add(a, big.NewInt(int64(c.R.Intn(3))-1))
			case 3:
				a = new(big.Int).SetUint64(c.R.Uint64() % 600000000000)
			default:
				a = new(big.Int).SetUint64(randU64(c))
				if c.R.Intn(8) == 0 {
					a.Neg(a)
				}
			}
			c.Emit("fused-plasma %s | %d", a.String(), vm.FussedAmountToPlasma(a))
			c.Hit("fused-plasma")
		}
		// the PoW check as a function of (data hash, nonce, difficulty) ONLY: sessions of checks through the real
		// pow.CheckPoWNonce in which the same (address, previous hash, nonce) comes back under other difficulties
		for i := 0; i < c.N/50+20; i++ {
			powSession(c, i)
		}
		for i := 0; i < c.N/4+1; i++ {
			p := randU64(c)
			if c.R.Intn(2) == 0 {
				p = uint64(c.R.Intn(100000))
			}
			d, err := vm.GetDifficultyForPlasma(p)
			e := "ok"
			if err != nil {
				e = "err"
			}
			c.Emit("plasma-diff %d | %s %d", p, e, d)
		}
	})
}

func powCase(c *Ctx, d uint64) {
	t := pow.TargetByDifficultyVerif(d)
	c.Emit("pow-target %d | %s", d, hex.EncodeToString(t[:]))
	c.Emit("diff-plasma %d | %d", d, vm.DifficultyToPlasma(d))
	switch {
	case d == 0:
		c.Hit("d=0")
	case d == 1:
		c.Hit("d=1")
	case d < 1<<32:
		c.Hit("d<2^32")
	case d < 1<<63:
		c.Hit("d<2^63")
	default:
		c.Hit("d>=2^63")
	}
	// model-free monitor: the statement's threshold 2^64 - 2^64/d (low 64 bits), for every d a block can carry
	if d != 0 {
		x := new(big.Int).Lsh(big.NewInt(1), 64)
		y := new(big.Int).Quo(x, new(big.Int).SetUint64(d))
		want := new(big.Int).Sub(x, y).Uint64()
		if binary.LittleEndian.Uint64(t[:]) != want {
			c.Fail("pow target for d=%d is %d, statement threshold 2^64-2^64/d = %d", d, binary.LittleEndian.Uint64(t[:]), want)
		}
	}
}

// powCritical: the largest difficulty the hash prefix h8 meets (statement: LE64(h8) >= 2^64 - 2^64/d), found by the
// harness's own arithmetic: d <= 2^64 / (2^64 - v) up to rounding, corrected by direct evaluation.
func powCritical(h8 [8]byte) uint64 {
	v := binary.LittleEndian.Uint64(h8[:])
	x := new(big.Int).Lsh(big.NewInt(1), 64)
	gap := new(big.Int).Sub(x, new(big.Int).SetUint64(v)) // 1 ... 2^64
	q := new(big.Int).Quo(x, gap)
	if !q.IsUint64() {
		return 1<<64 - 1
	}
	d := q.Uint64()
	if d == 0 {
		d = 1
	}
	for d < 1<<64-1 && powMeets(h8, d+1) {
		d++
	}
	for d > 1 && !powMeets(h8, d) {
		d--
	}
	return d
}

type powInput struct {
	addr  types.Address
	prev  types.Hash
	nonce [8]byte
	h8    [8]byte
	asked []string // history of the queries on this input: "d=answer"
}

// powSession: 1-4 inputs (address, previous hash, nonce), each asked under a list of difficulties built around the
// largest difficulty its hash really meets (d*-1, d*, d*+1, 2d*), the trivial claims 1 and 2, the difficulties a block
// needs for its base cost / the cap, and random ones - in ascending order (a cheap claim first, the expensive one later),
// in descending order, shuffled, every query possibly repeated, the inputs interleaved. Every single answer goes to the
// model (pow-check) and to the monitor; the whole session goes to the model's checkSeq (pow-seq).
func powSession(c *Ctx, id int) {
	nIn := 1 + c.R.Intn(4)
	if id%3 == 0 {
		nIn = 1
	}
	ins := make([]*powInput, nIn)
	type query struct {
		in *powInput
		d  uint64
	}
	var plan [][]query
	for k := range ins {
		in := &powInput{}
		c.R.Read(in.addr[:])
		in.addr[0] = 0
		if c.R.Intn(3) != 0 {
			c.R.Read(in.prev[:])
		}
		// nonces: random, or searched a little so that the hash meets some non-trivial difficulty (2^4 ... 2^14)
		c.R.Read(in.nonce[:])
		data := powDataHash(in.addr, in.prev)
		if c.R.Intn(2) == 0 {
			if nn, _, ok := powMine(data, uint64(1)<<uint(4+c.R.Intn(11)), 1<<20); ok {
				in.nonce = nn
			}
		}
		in.h8 = powH8(data, in.nonce)
		ins[k] = in
		dc := powCritical(in.h8)
		ds := []uint64{1, 2, dc, dc + 1, 21000 * 1500, 94500 * 1500}
		if dc > 1 {
			ds = append(ds, dc-1)
		}
		if dc < 1<<62 {
			ds = append(ds, 2*dc, 2*dc+1)
		}
		for j := c.R.Intn(4); j > 0; j-- {
			ds = append(ds, randU64(c))
		}
		if c.R.Intn(3) == 0 {
			ds = append(ds, 0)
		}
		switch (id + k) % 4 {
		case 0: // low -> high
			sortU64(ds, false)
		case 1: // high -> low
			sortU64(ds, true)
		case 2: // the trivial claim first, then everything else shuffled
			c.R.Shuffle(len(ds), func(a, b int) { ds[a], ds[b] = ds[b], ds[a] })
			ds = append([]uint64{1}, ds...)
		default:
			c.R.Shuffle(len(ds), func(a, b int) { ds[a], ds[b] = ds[b], ds[a] })
		}
		var qs []query
		for _, d := range ds {
			qs = append(qs, query{in, d})
			if c.R.Intn(4) == 0 {
				qs = append(qs, query{in, d}) // asked twice in a row
			}
		}
		// ... and the first few once more at the end
		for j := 0; j < 3 && j < len(ds); j++ {
			qs = append(qs, query{in, ds[j]})
		}
		plan = append(plan, qs)
	}
	// interleave the per-input plans (order within an input preserved)
	var session []query
	for {
		var live []int
		for k := range plan {
			if len(plan[k]) > 0 {
				live = append(live, k)
			}
		}
		if len(live) == 0 {
			break
		}
		k := live[c.R.Intn(len(live))]
		session = append(session, plan[k][0])
		plan[k] = plan[k][1:]
	}
	var qtoks []string
	var answers strings.Builder
	for _, q := range session {
		b := &nom.AccountBlock{Address: q.in.addr, PreviousHash: q.in.prev, Difficulty: q.d}
		b.Nonce.Data = q.in.nonce
		got := pow.CheckPoWNonce(b)
		c.Emit("pow-check %s %d | %v", hex.EncodeToString(q.in.h8[:]), q.d, got)
		qtoks = append(qtoks, fmt.Sprintf("%s:%d", hex.EncodeToString(q.in.h8[:]), q.d))
		if got {
			answers.WriteByte('t')
			c.Hit("pow-check-true")
		} else {
			answers.WriteByte('f')
			c.Hit("pow-check-false")
		}
		// model-free monitor: the statement's comparison, whatever was asked before
		if want := powMeets(q.in.h8, q.d); got != want {
			c.Fail("C12: CheckPoWNonce(address=%s previous=%s nonce=%x difficulty=%d) = %v, but the hash prefix %x (= %d) compared with the threshold 2^64-2^64/d = %d says %v; earlier checks of the same (address, previous, nonce) in this process: [%s]",
				q.in.addr, q.in.prev, q.in.nonce, q.d, got, q.in.h8, binary.LittleEndian.Uint64(q.in.h8[:]), powThreshold(maxU64(q.d, 1)), want, strings.Join(q.in.asked, " "))
		}
		if len(q.in.asked) > 0 {
			c.Hit("pow-check-after-earlier-check-of-same-input")
		}
		q.in.asked = append(q.in.asked, fmt.Sprintf("d=%d:%v", q.d, got))
	}
	c.Emit("pow-seq %s | %s", strings.Join(qtoks, ","), answers.String())
	c.Hit("pow-session")
}

func maxU64(a, b uint64) uint64 {
	if a > b {
		return a
	}
	return b
}

func sortU64(ds []uint64, desc bool) {
	for i := 1; i < len(ds); i++ {
		for j := i; j > 0 && ((!desc && ds[j] < ds[j-1]) || (desc && ds[j] > ds[j-1])); j-- {
			ds[j], ds[j-1] = ds[j-1], ds[j]
		}
	}
}
