package main

import (
	"encoding/binary"
	"encoding/hex"
	"math/big"

	"github.com/zenon-network/go-zenon/pow"
	"github.com/zenon-network/go-zenon/vm"
)

func u64Boundary() []uint64 {
	b := []uint64{0, 1, 2, 3, 4, 5, 7, 8, 255, 256, 1499, 1500, 1501, 2999, 3000, 3001,
		1<<31 - 1, 1 << 31, 1<<31 + 1, 1<<32 - 1, 1 << 32, 1<<32 + 1, 1 << 62, 1<<63 - 1, 1 << 63, 1<<63 + 1,
		1<<64 - 2, 1<<64 - 1, 141750000 - 1, 141750000, 141750000 + 1, 94500 * 1500, 94500*1500 + 1}
	return b
}

func randU64(c *Ctx) uint64 {
	switch c.R.Intn(6) {
	case 0:
		bs := u64Boundary()
		return bs[c.R.Intn(len(bs))]
	case 1:
		return uint64(c.R.Intn(1 << 20))
	case 2:
		return uint64(1)<<uint(c.R.Intn(64)) + uint64(c.R.Intn(5)) - 2
	case 3:
		return c.R.Uint64() | (1 << 63)
	case 4:
		return c.R.Uint64() >> uint(c.R.Intn(64))
	default:
		return c.R.Uint64()
	}
}

func init() {
	// pow: getTargetByDifficulty, greaterDifficulty, DifficultyToPlasma, FussedAmountToPlasma, GetDifficultyForPlasma
	register("pow", func(c *Ctx) {
		for _, d := range u64Boundary() {
			powCase(c, d)
		}
		for i := 0; i < c.N; i++ {
			powCase(c, randU64(c))
		}
		for i := 0; i < c.N; i++ {
			// greaterDifficulty on 8-byte strings: equal, differing in one byte, random
			var x, y [8]byte
			binary.LittleEndian.PutUint64(x[:], randU64(c))
			switch c.R.Intn(4) {
			case 0:
				y = x
			case 1:
				y = x
				y[c.R.Intn(8)] ^= byte(1 << uint(c.R.Intn(8)))
			default:
				binary.LittleEndian.PutUint64(y[:], randU64(c))
			}
			r := pow.GreaterDifficultyVerif(x[:], y[:])
			c.Emit("pow-gd %s %s | %v", hex.EncodeToString(x[:]), hex.EncodeToString(y[:]), r)
			if r {
				c.Hit("gd-true")
			} else {
				c.Hit("gd-false")
			}
			// model-free monitor: the statement's comparison on the integer values
			if r != (binary.LittleEndian.Uint64(x[:]) >= binary.LittleEndian.Uint64(y[:])) {
				c.Fail("greaterDifficulty(%x,%x)=%v disagrees with uint64 comparison", x, y, r)
			}
		}
		for i := 0; i < c.N; i++ {
			// fused amount -> plasma
			var a *big.Int
			switch c.R.Intn(5) {
			case 0:
				a = big.NewInt(int64(c.R.Intn(3)) - 1)
			case 1:
				a = new(big.Int).SetUint64(uint64(c.R.Intn(6000)) * 100000000)
				a.Add(a, big.NewInt(int64(c.R.Intn(3))-1))
			case 2:
				a = new(big.Int).Lsh(big.NewInt(1), uint(c.R.Intn(200)))
				a.Add(a, big.NewInt(int64(c.R.Intn(3))-1))
			case 3:
				a = new(big.Int).SetUint64(c.R.Uint64() % 600000000000)
			default:
				a = new(big.Int).SetUint64(randU64(c))
				if c.R.Intn(8) == 0 {
					a.Neg(a)
				}
			}
			c.Emit("fused-plasma %s | %d", a.String(), vm.FussedAmountToPlasma(a))
			c.Hit("fused-plasma")
		}
		for i := 0; i < c.N/4+1; i++ {
			p := randU64(c)
			if c.R.Intn(2) == 0 {
				p = uint64(c.R.Intn(100000))
			}
			d, err := vm.GetDifficultyForPlasma(p)
			e := "ok"
			if err != nil {
				e = "err"
			}
			c.Emit("plasma-diff %d | %s %d", p, e, d)
		}
	})
}

func powCase(c *Ctx, d uint64) {
	t := pow.TargetByDifficultyVerif(d)
	c.Emit("pow-target %d | %s", d, hex.EncodeToString(t[:]))
	c.Emit("diff-plasma %d | %d", d, vm.DifficultyToPlasma(d))
	switch {
	case d == 0:
		c.Hit("d=0")
	case d == 1:
		c.Hit("d=1")
	case d < 1<<32:
		c.Hit("d<2^32")
	case d < 1<<63:
		c.Hit("d<2^63")
	default:
		c.Hit("d>=2^63")
	}
	// model-free monitor: the statement's threshold 2^64 - 2^64/d (low 64 bits), for every d a block can carry
	if d != 0 {
		x := new(big.Int).Lsh(big.NewInt(1), 64)
		y := new(big.Int).Quo(x, new(big.Int).SetUint64(d))
		want := new(big.Int).Sub(x, y).Uint64()
		if binary.LittleEndian.Uint64(t[:]) != want {
			c.Fail("pow target for d=%d is %d, statement threshold 2^64-2^64/d = %d", d, binary.LittleEndian.Uint64(t[:]), want)
		}
	}
}
