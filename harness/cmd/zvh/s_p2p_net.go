package main

// Stream `p2p-net` (C15): the node as it runs in production — a real p2p.Server listening on loopback with the real
// ProtocolManager's sub-protocol, real RLPx handshakes, every connection driven by the node's own Peer.run / readLoop /
// pingLoop goroutines, and PRODUCTION-LIKE LOGGING: every logger formats every record (logfmt, the format common.InitLogging
// installs) at debug level into io.Discard, so the code inside the arguments of log calls — String() / Error() / Format methods
// evaluated on values the remote peer chose — runs as it does on a deployed node.
//
// The node runs in a CHILD process: a panic on one of the node's goroutines (peer loop, downloader, fetcher, log formatting)
// terminates that process, which is exactly what C15 forbids; the parent reports the messages that were in flight.
//
//	part A (this file)      the devp2p BASE protocol after and before the handshake: disconnect with every reason value and payload
//	                        shape, ping / pong with payloads, repeated handshakes, unknown base codes, out-of-range sub-protocol codes;
//	part B (s_p2p_sync.go)  the downloader / fetcher state machine under scripted hostile peers, with deadlines.
//
// Monitors (model-free, the sentence of C15): the process survives; an honest peer that stays connected all along is never
// dropped, gets its pong and its answer after every hostile message; the node still accepts new connections.

import (
	"bufio"
	"bytes"
	"crypto/ecdsa"
	"fmt"
	"io"
	"math"
	"math/rand"
	"os"
	"os/exec"
	"strings"
	"sync"
	"time"

	"github.com/ethereum/go-ethereum/crypto"
	"github.com/ethereum/go-ethereum/rlp"
	"github.com/inconshreveable/log15"

	"github.com/zenon-network/go-zenon/chain/nom"
	"github.com/zenon-network/go-zenon/common/types"
	"github.com/zenon-network/go-zenon/p2p"
	"github.com/zenon-network/go-zenon/p2p/discover"
	"github.com/zenon-network/go-zenon/protocol"
)

// formatLogs installs production-like logging on every logger of the node: each record is formatted (logfmt) at every level and
// the bytes are thrown away. (silence() drops the records unformatted, which hides every defect that lives in the evaluation of a
// log call's arguments.)
func formatLogs() {
	var w io.Writer = io.Discard
	if path := os.Getenv("ZVH_LOGFILE"); path != "" { // debugging aid: keep the formatted records
		if f, err := os.OpenFile(path, os.O_CREATE|os.O_WRONLY|os.O_APPEND, 0o644); err == nil {
			w = f
		}
	}
	h := log15.StreamHandler(w, log15.LogfmtFormat())
	log15.Root().SetHandler(h)
	for _, l := range allLoggers {
		l.SetHandler(h)
	}
}

func init() {
	register("p2p-net", func(c *Ctx) {
		runNodeChild(c, "p2p-net", "p2p-net-survived", 6, "p2pnet-child", fmt.Sprint(c.Seed), fmt.Sprint(c.N), c.Tier, c.Args["only"], c.Args["scn"])
	})
}

// runNodeChild runs the node under test in a CHILD process (this binary, mode args[0]) and relays its report: REQ lines (what
// remote peers sent; the last `window` are kept — window < 0: the last -window of every channel), HIT counters, FAIL = monitor failures, LINE = trace lines. A death of the
// child is the failure class=process-terminated, reported with the panic, the frames of the node's code and the last inputs.
func runNodeChild(c *Ctx, stream, okLine string, window int, args ...string) {
	cmd := exec.Command(os.Args[0], args...)
	var stderr bytes.Buffer
	cmd.Stderr = &stderr
	cmd.Env = append(os.Environ(), "ZVH_STDERR=1")
	stdout, err := cmd.StdoutPipe()
	if err != nil {
		c.Fail("C15 %s: harness cannot start the node process: %v", stream, err)
		return
	}
	if err := cmd.Start(); err != nil {
		c.Fail("C15 %s: harness cannot start the node process: %v", stream, err)
		return
	}
	timer := time.AfterFunc(15*time.Minute, func() { cmd.Process.Kill() })
	defer timer.Stop()
	var last, pendingLeft, channels []string
	byChannel := map[string][]string{}
	finished := false
	sc := bufio.NewScanner(stdout)
	sc.Buffer(make([]byte, 1<<20), 1<<24)
	for sc.Scan() {
		line := sc.Text()
		switch {
		case strings.HasPrefix(line, "REQ "):
			if window < 0 {
				// parts of the child that run side by side: the last -window lines of every channel (the word in front of '[')
				ch := line[4:]
				if i := strings.IndexByte(ch, '['); i > 0 {
					ch = ch[:i]
				}
				if _, ok := byChannel[ch]; !ok {
					channels = append(channels, ch)
				}
				byChannel[ch] = append(byChannel[ch], line[4:])
				if len(byChannel[ch]) > -window {
					byChannel[ch] = byChannel[ch][1:]
				}
			} else {
				last = append(last, line[4:])
				if len(last) > window {
					last = last[len(last)-window:]
				}
			}
			// (a request that a peer left unanswered for good matters seconds later, when it expires: kept apart)
			if strings.Contains(line, "does not answer") || strings.Contains(line, "LEAVES") {
				pendingLeft = append(pendingLeft, line[4:])
				if len(pendingLeft) > 40 {
					pendingLeft = pendingLeft[len(pendingLeft)-40:]
				}
			}
		case strings.HasPrefix(line, "HIT "):
			c.Hit(line[4:])
		case strings.HasPrefix(line, "FAIL "):
			c.Fail("%s", line[5:])
		case strings.HasPrefix(line, "LINE "):
			c.Emit("%s", line[5:])
		case line == "CHILD-FINISHED":
			finished = true
		}
	}
	werr := cmd.Wait()
	if werr != nil || !finished {
		// the panic message and the frames of the node's code
		var keep []string
		for _, l := range strings.Split(stderr.String(), "\n") {
			l = strings.TrimSpace(l)
			if strings.HasPrefix(l, "panic:") || strings.HasPrefix(l, "fatal error:") ||
				(strings.HasPrefix(l, "github.com/zenon-network/go-zenon/") && len(keep) < 7) {
				keep = append(keep, firstLine(l))
			}
		}
		leftNote := ""
		if len(pendingLeft) > 0 {
			leftNote = "; peers that LEFT, and what they had been asked for and did not answer (a request stays in flight until its time-out: hash request 5s, block request 9s): " + strings.Join(pendingLeft, " ;; ")
		}
		for _, ch := range channels {
			last = append(last, byChannel[ch]...)
		}
		c.Fail("C15 class=process-terminated the node process terminated (%v) [%s]; the last messages remote peers sent, oldest first: %s%s",
			werr, strings.Join(keep, " <- "), strings.Join(last, " ;; "), leftNote)
		return
	}
	c.Emit("%s | ok", okLine)
}

// netCtx is the reporting side of the child process (used from many goroutines).
type netCtx struct {
	mu   sync.Mutex
	w    *bufio.Writer
	seed int64
	n    int
	tier string
	only string
	scn  string // debugging aid: run only the scenarios of part B whose name contains this
}

func (n *netCtx) line(prefix, s string) {
	n.mu.Lock()
	defer n.mu.Unlock()
	n.w.WriteString(prefix + strings.ReplaceAll(s, "\n", " ") + "\n")
	n.w.Flush()
}
func (n *netCtx) hit(k string)                         { n.line("HIT ", k) }
func (n *netCtx) req(format string, a ...interface{})  { n.line("REQ ", fmt.Sprintf(format, a...)) }
func (n *netCtx) fail(format string, a ...interface{}) { n.line("FAIL ", fmt.Sprintf(format, a...)) }
func (n *netCtx) emit(format string, a ...interface{}) { n.line("LINE ", fmt.Sprintf(format, a...)) }
func (n *netCtx) rnd(salt int64) *rand.Rand            { return rand.New(rand.NewSource(n.seed*7919 + salt)) }
func (n *netCtx) wants(part string) bool {
	return n.only == "" || strings.Contains(","+n.only+",", ","+part+",")
}

func p2pNetChild(seed int64, nreq int, tier, only, scn string) {
	realOut := os.Stdout
	n := &netCtx{w: bufio.NewWriter(realOut), seed: seed, n: nreq, tier: tier, only: strings.ReplaceAll(only, "+", ","), scn: scn}
	a := newProducer() // (redirects os.Stdout of the node code; the report goes to the descriptor kept above)
	// the source chain every scenario draws from: 40 momentums with user traffic
	c := &Ctx{R: n.rnd(1), Seed: seed, N: nreq, Tier: tier, w: bufio.NewWriter(io.Discard), Stats: map[string]int{}}
	var pending []*nom.AccountBlock
	src := []*nom.DetailedMomentum{a.bridge.GetBlock(a.z.Chain().GetGenesisMomentum().Hash)}
	for a.frontier().Height < netSrcHeight {
		traffic(c, a, &pending, 60, 40)
		src = append(src, a.momentum())
	}
	formatLogs()
	if n.wants("base") {
		p2pNetBase(n, a)
	}
	if n.wants("sync") {
		p2pNetSync(n, a, src)
	}
	stopped := make(chan struct{})
	go func() { safely(a.stop); close(stopped) }()
	select {
	case <-stopped:
	case <-time.After(10 * time.Second):
	}
	n.line("CHILD-FINISHED", "")
}

const netSrcHeight = 40
const netNetId = 3

// netServer puts a ProtocolManager behind a real p2p.Server on loopback.
type netServer struct {
	pm  *protocol.ProtocolManager
	srv *p2p.Server
	key *ecdsa.PrivateKey
}

func newNetServer(bridge protocol.ChainBridge, name string) (*netServer, error) {
	key, err := crypto.GenerateKey()
	if err != nil {
		return nil, err
	}
	pm := protocol.NewProtocolManager(1, netNetId, bridge)
	srv := &p2p.Server{PrivateKey: key, MaxPeers: 64, MaxPendingPeers: 64, Name: name, ListenAddr: "127.0.0.1:0", NoDial: true,
		Protocols: pm.SubProtocols}
	if err := srv.Start(); err != nil {
		return nil, err
	}
	pm.Start()
	return &netServer{pm: pm, srv: srv, key: key}, nil
}

func (s *netServer) stop() {
	done := make(chan struct{})
	go func() {
		defer close(done)
		safely(func() { s.srv.Stop() })
		safely(func() { s.pm.Stop() })
	}()
	select {
	case <-done:
	case <-time.After(5 * time.Second):
	}
}

// connect dials the node as a remote peer and completes the devp2p handshake and the eth status exchange.
func (s *netServer) connect(name string, td uint64, head, genesis types.Hash) (*rawPeer, error) {
	p, err := dialRaw(name, s.srv.ListenAddr, &s.key.PublicKey, nil)
	if err != nil {
		return nil, err
	}
	if err := p.sendEth(protocol.StatusMsg, mustRlp(&hsStatus{61, netNetId, td, head, genesis})); err != nil {
		p.fd.Close()
		return nil, err
	}
	return p, nil
}

// ---- part A: the devp2p base protocol ------------------------------------------------------------------------------

type baseCase struct {
	label string
	pre   bool   // sent INSTEAD of the devp2p handshake (right after the encryption handshake)
	code  uint64 // raw devp2p code
	size  int64  // declared size; -1 = len(pay)
	pay   []byte
}

func (b baseCase) String() string {
	when := "after-handshake"
	if b.pre {
		when = "instead-of-handshake"
	}
	sz := int64(len(b.pay))
	if b.size >= 0 {
		sz = b.size
	}
	return fmt.Sprintf("devp2p[%s %s] code=%d size=%d payload=%s", b.label, when, b.code, sz, hexHead(b.pay, 40))
}

// rlpUint: the canonical RLP of an unsigned integer.
func rlpUint(v uint64) []byte { return mustRlp(v) }

func baseCases(r *rand.Rand, nRandom int) []baseCase {
	var out []baseCase
	// disconnect reasons: every defined one, the first undefined ones, and the boundaries of every integer width
	reasons := []uint64{}
	for v := uint64(0); v <= 20; v++ {
		reasons = append(reasons, v)
	}
	reasons = append(reasons, 127, 128, 255, 256, 257, 1<<16-1, 1<<16, 1<<16+1, 1<<31-1, 1<<31, 1<<32-1, 1<<32, 1<<32+1,
		1<<62, 1<<63-2, 1<<63-1, 1<<63, 1<<63+1, math.MaxUint64-1, math.MaxUint64)
	for _, pre := range []bool{false, true} {
		for _, v := range reasons {
			// the standard form: a list holding the reason
			out = append(out, baseCase{fmt.Sprintf("disconnect-reason-%d", v), pre, baseDiscMsg, -1, mustRlp([]uint64{v})})
		}
		for _, v := range []uint64{0, 3, 12, 13, 14, 255, 1 << 63, math.MaxUint64} {
			out = append(out,
				baseCase{fmt.Sprintf("disconnect-bare-integer-%d", v), pre, baseDiscMsg, -1, rlpUint(v)},
				baseCase{fmt.Sprintf("disconnect-two-reasons-%d", v), pre, baseDiscMsg, -1, mustRlp([]uint64{v, v})},
				baseCase{fmt.Sprintf("disconnect-nested-%d", v), pre, baseDiscMsg, -1, mustRlp([][]uint64{{v}})},
				baseCase{fmt.Sprintf("disconnect-reason-with-leading-zero-%d", v), pre, baseDiscMsg, -1, mustRlp([][]byte{append([]byte{0}, rlpUintBytes(v)...)})},
			)
		}
		out = append(out,
			baseCase{"disconnect-empty-list", pre, baseDiscMsg, -1, []byte{0xc0}},
			baseCase{"disconnect-empty-string", pre, baseDiscMsg, -1, []byte{0x80}},
			baseCase{"disconnect-no-payload", pre, baseDiscMsg, -1, nil},
			baseCase{"disconnect-9-byte-reason", pre, baseDiscMsg, -1, mustRlp([][]byte{{1, 0, 0, 0, 0, 0, 0, 0, 0}})},
			baseCase{"disconnect-truncated", pre, baseDiscMsg, -1, []byte{0xc9, 0x88, 0xff}},
			baseCase{"disconnect-garbage", pre, baseDiscMsg, -1, []byte{0xff, 0xff, 0xff, 0xff}},
			baseCase{"disconnect-oversized", pre, baseDiscMsg, -1, mustRlp([]interface{}{uint64(13), make([]byte, 70000)})},
		)
		// ping / pong with payloads
		for _, code := range []uint64{basePingMsg, basePongMsg} {
			nm := map[uint64]string{basePingMsg: "ping", basePongMsg: "pong"}[code]
			big := make([]byte, 1<<20)
			r.Read(big)
			out = append(out,
				baseCase{nm + "-standard", pre, code, -1, []byte{0xc0}},
				baseCase{nm + "-no-payload", pre, code, -1, nil},
				baseCase{nm + "-with-list", pre, code, -1, mustRlp([]uint64{1, 2, 3})},
				baseCase{nm + "-1KiB", pre, code, -1, big[:1024]},
				baseCase{nm + "-64KiB", pre, code, -1, big[:65536]},
				baseCase{nm + "-1MiB", pre, code, -1, big},
			)
		}
		// handshake messages: as a repetition after the handshake, as variants in its place
		var id discover.NodeID
		r.Read(id[:])
		hs := func(f func(h *baseHandshake)) []byte {
			h := &baseHandshake{Version: 4, Name: "zvh", Caps: []p2p.Cap{{Name: "eth", Version: 61}}, ID: id}
			f(h)
			return mustRlp(h)
		}
		manyCaps := make([]p2p.Cap, 1000)
		for i := range manyCaps {
			manyCaps[i] = p2p.Cap{Name: fmt.Sprintf("c%d", i), Version: uint(i)}
		}
		out = append(out,
			baseCase{"handshake-again", pre, baseHandshakeMsg, -1, hs(func(h *baseHandshake) {})},
			baseCase{"handshake-version-0", pre, baseHandshakeMsg, -1, hs(func(h *baseHandshake) { h.Version = 0 })},
			baseCase{"handshake-version-5", pre, baseHandshakeMsg, -1, hs(func(h *baseHandshake) { h.Version = 5 })},
			baseCase{"handshake-version-max", pre, baseHandshakeMsg, -1, hs(func(h *baseHandshake) { h.Version = math.MaxUint64 })},
			baseCase{"handshake-zero-id", pre, baseHandshakeMsg, -1, hs(func(h *baseHandshake) { h.ID = discover.NodeID{} })},
			baseCase{"handshake-foreign-id", pre, baseHandshakeMsg, -1, hs(func(h *baseHandshake) { h.ID[0] ^= 0xff })},
			baseCase{"handshake-no-caps", pre, baseHandshakeMsg, -1, hs(func(h *baseHandshake) { h.Caps = nil })},
			baseCase{"handshake-other-caps", pre, baseHandshakeMsg, -1, hs(func(h *baseHandshake) { h.Caps = []p2p.Cap{{Name: "eth", Version: 60}, {Name: "xyz", Version: 1}} })},
			baseCase{"handshake-eth-twice", pre, baseHandshakeMsg, -1, hs(func(h *baseHandshake) { h.Caps = []p2p.Cap{{Name: "eth", Version: 61}, {Name: "eth", Version: 61}} })},
			baseCase{"handshake-1000-caps", pre, baseHandshakeMsg, -1, hs(func(h *baseHandshake) { h.Caps = manyCaps })},
			baseCase{"handshake-long-name", pre, baseHandshakeMsg, -1, hs(func(h *baseHandshake) { h.Name = strings.Repeat("n", 1900) })},
			baseCase{"handshake-over-2KiB", pre, baseHandshakeMsg, -1, hs(func(h *baseHandshake) { h.Name = strings.Repeat("n", 2100) })},
			baseCase{"handshake-port-max", pre, baseHandshakeMsg, -1, hs(func(h *baseHandshake) { h.ListenPort = math.MaxUint64 })},
			baseCase{"handshake-empty-list", pre, baseHandshakeMsg, -1, []byte{0xc0}},
			baseCase{"handshake-no-payload", pre, baseHandshakeMsg, -1, nil},
			baseCase{"handshake-truncated", pre, baseHandshakeMsg, -1, hs(func(h *baseHandshake) {})[:30]},
			baseCase{"handshake-garbage", pre, baseHandshakeMsg, -1, []byte{0xf8, 0xff, 0x01}},
		)
		// the other base codes (getPeers 4, peers 5, 6…15 unassigned) and sub-protocol codes outside eth's nine
		for code := uint64(4); code < 16; code++ {
			out = append(out, baseCase{fmt.Sprintf("base-code-%d", code), pre, code, -1, []byte{0xc0}})
		}
		out = append(out,
			baseCase{"base-code-5-garbage", pre, 5, -1, []byte{0xff, 0x00}},
			baseCase{"base-code-15-1KiB", pre, 15, -1, make([]byte, 1024)},
			baseCase{"subprotocol-code-25", pre, 25, -1, []byte{0xc0}},
			baseCase{"subprotocol-code-26", pre, 26, -1, []byte{0xc0}},
			baseCase{"subprotocol-code-2^32", pre, 1 << 32, -1, []byte{0xc0}},
			baseCase{"subprotocol-code-2^63", pre, 1 << 63, -1, []byte{0xc0}},
			baseCase{"subprotocol-code-max", pre, math.MaxUint64, -1, []byte{0xc0}},
			baseCase{"eth-status-again", pre, 16, -1, []byte{0xc0}},
		)
	}
	// deterministic shuffle: a short run still sees every family; the boundary reasons of the standard form come first
	first := out[:0:0]
	var rest []baseCase
	for _, b := range out {
		if !b.pre && strings.HasPrefix(b.label, "disconnect-reason-") {
			first = append(first, b)
		} else {
			rest = append(rest, b)
		}
	}
	r.Shuffle(len(rest), func(i, j int) { rest[i], rest[j] = rest[j], rest[i] })
	out = append(first, rest...)
	// random: any base code, a reason-like payload with a random integer of a random width
	for i := 0; i < nRandom; i++ {
		code := uint64(r.Intn(16))
		if r.Intn(3) == 0 {
			code = baseDiscMsg
		}
		w := uint(1 + r.Intn(64))
		v := r.Uint64() >> (64 - w)
		if r.Intn(4) == 0 {
			v = uint64(r.Intn(32))
		}
		var pay []byte
		switch r.Intn(4) {
		case 0:
			pay = rlpUint(v)
		case 1:
			pay = mustRlp([]uint64{v, uint64(r.Intn(3))})
		default:
			pay = mustRlp([]uint64{v})
		}
		out = append(out, baseCase{fmt.Sprintf("random-code-%d-value-%d", code, v), r.Intn(4) == 0, code, -1, pay})
	}
	return out
}

func rlpUintBytes(v uint64) []byte {
	if v == 0 {
		return []byte{0}
	}
	var b []byte
	for ; v > 0; v >>= 8 {
		b = append([]byte{byte(v)}, b...)
	}
	return b
}

// honestPeer is the well-behaved peer that stays connected during the whole of part A.
type honestPeer struct {
	*rawPeer
	mu     sync.Mutex
	hashes [][]types.Hash
}

func (s *netServer) honest(name string, td uint64, head, genesis types.Hash) (*honestPeer, error) {
	p, err := s.connect(name, td, head, genesis)
	if err != nil {
		return nil, err
	}
	h := &honestPeer{rawPeer: p}
	p.onMsg = func(code uint64, pay []byte) {
		if code == protocol.BlockHashesMsg {
			var hs []types.Hash
			if rlp.DecodeBytes(pay, &hs) == nil {
				h.mu.Lock()
				h.hashes = append(h.hashes, hs)
				h.mu.Unlock()
			}
		}
	}
	p.start()
	return h, nil
}

// served: the honest peer is still connected, its ping is answered, and its request for the last three hashes is answered.
func (h *honestPeer) served(height uint64, want []types.Hash, d time.Duration) string {
	if gone, why := h.dropped(); gone {
		return "the honest peer was disconnected (" + why + ")"
	}
	if !h.pingPong(d) {
		return fmt.Sprintf("the honest peer's ping is not answered within %v", d)
	}
	h.mu.Lock()
	before := len(h.hashes)
	h.mu.Unlock()
	if err := h.sendEth(protocol.GetBlockHashesFromNumberMsg, mustRlp(&reqHashesFromNumber{height - 2, 3})); err != nil {
		return "the honest peer cannot write its request: " + err.Error()
	}
	deadline := time.Now().Add(d)
	for time.Now().Before(deadline) {
		h.mu.Lock()
		var got []types.Hash
		if len(h.hashes) > before {
			got = h.hashes[before]
		}
		h.mu.Unlock()
		if got != nil {
			if len(got) != len(want) {
				return fmt.Sprintf("the honest peer's request for the last 3 hashes was answered with %d hashes", len(got))
			}
			for i := range got {
				// (the node answers from the highest height down)
				if got[i] != want[len(want)-1-i] {
					return "the honest peer's request for the last 3 hashes was answered with other hashes"
				}
			}
			return ""
		}
		if gone, why := h.dropped(); gone {
			return "the honest peer was disconnected (" + why + ")"
		}
		time.Sleep(2 * time.Millisecond)
	}
	return fmt.Sprintf("the honest peer's request for the last 3 hashes is not answered within %v", d)
}

func p2pNetBase(n *netCtx, a *producer) {
	s, err := newNetServer(a.bridge, "zvh-node-base")
	if err != nil {
		n.fail("C15 p2p-net: harness cannot start a p2p server on loopback: %v", err)
		return
	}
	defer s.stop()
	fr := a.frontier()
	genesis := a.z.Chain().GetGenesisMomentum().Hash
	st := a.z.Chain().GetFrontierMomentumStore()
	var last3 []types.Hash
	for h := fr.Height - 2; h <= fr.Height; h++ {
		m, _ := st.GetMomentumByHeight(h)
		last3 = append(last3, m.Hash)
	}
	hon, err := s.honest("honest", fr.Height, fr.Hash, genesis)
	if err != nil {
		n.fail("C15 p2p-net: harness cannot connect its honest peer: %v", err)
		return
	}
	defer hon.close()
	if why := hon.served(fr.Height, last3, 10*time.Second); why != "" {
		n.fail("C15 p2p-net: before any hostile message %s", why)
		return
	}
	nRandom := n.n
	cases := baseCases(n.rnd(2), nRandom)
	for i, bc := range cases {
		n.req("%v", bc)
		n.hit("base-cases")
		fam := bc.label
		if i := strings.IndexAny(fam, "0123456789"); i > 0 {
			fam = strings.TrimRight(fam[:i], "-^")
		}
		n.hit("base-" + fam)
		var x *rawPeer
		var err error
		if bc.pre {
			x, err = dialRawNoHandshake("hostile", s.srv.ListenAddr, &s.key.PublicKey)
		} else {
			x, err = s.connect("hostile", fr.Height, fr.Hash, genesis)
		}
		if err != nil {
			n.fail("C15 class=no-new-connection the node no longer accepts a connection (%v) before %v", err, bc)
			return
		}
		x.start()
		size := uint32(len(bc.pay))
		if bc.size >= 0 {
			size = uint32(bc.size)
		}
		x.sendSized(bc.code, size, bc.pay)
		// what happens to the sender is the node's choice (a disconnect request is honoured, a ping answered, an unknown code
		// ignored or refused); it is recorded, not judged
		if x.waitGone(30 * time.Millisecond) {
			n.hit("base-sender-disconnected")
		} else if x.pingPong(2 * time.Second) {
			n.hit("base-sender-still-served")
		} else if x.waitGone(3 * time.Second) {
			n.hit("base-sender-disconnected")
		} else {
			n.hit("base-sender-silent")
		}
		x.close()
		if why := hon.served(fr.Height, last3, 10*time.Second); why != "" {
			n.fail("C15 class=honest-peer-not-served after %v: %s", bc, why)
			return
		}
		if i%25 == 24 {
			// a newcomer is accepted and served
			nw, err := s.honest("newcomer", fr.Height, fr.Hash, genesis)
			if err != nil {
				n.fail("C15 class=no-new-connection after %v the node no longer accepts a connection: %v", bc, err)
				return
			}
			why := nw.served(fr.Height, last3, 10*time.Second)
			nw.close()
			if why != "" {
				n.fail("C15 class=newcomer-not-served after %v: a peer that connects now: %s", bc, why)
				return
			}
			n.hit("base-newcomer-served")
		}
	}
}
