import ZenonVerif.Model.Num
import ZenonVerif.Model.Pow
import ZenonVerif.Model.Rpc
import ZenonVerif.Model.Wallet
import ZenonVerif.Props.C12
import ZenonVerif.Props.C18
