import ZenonVerif.Model.Num
import ZenonVerif.Model.Pow
import ZenonVerif.Model.Rpc
import ZenonVerif.Model.Consensus
import ZenonVerif.Props.C12
import ZenonVerif.Props.C18
import ZenonVerif.Lemmas.Consensus
import ZenonVerif.Props.C05
