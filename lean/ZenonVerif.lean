import ZenonVerif.Model.Num
import ZenonVerif.Model.Pow
import ZenonVerif.Model.Rpc
import ZenonVerif.Model.Codec
import ZenonVerif.Props.C12
import ZenonVerif.Props.C18
import ZenonVerif.Props.C13
