import Driver.Pure
/-
zvdriver — replays harness lines "<op tokens> | <observed>" through the executable models and reports
every line where the model's answer differs from what the real code produced.
  DIFF <lineno> expected=<model answer> :: <line>
  BAD  <lineno> :: <line>            (line not understood — treated as a failure of the tie, never skipped)
  SUMMARY lines=<n> diffs=<k> bad=<b>
-/
open ZV ZV.Driver

structure St where
  lines : Nat := 0
  diffs : Nat := 0
  bad   : Nat := 0

def pureHandlers : List (List String → Option String) := [purePow, pureRpc]

def runPure (toks : List String) : Option String :=
  pureHandlers.firstM (fun h => h toks)

def splitObs (line : String) : Option (String × String) :=
  match line.splitOn " | " with
  | [a, b] => some (a, b)
  | _ => none

partial def loop (h : IO.FS.Stream) (st : St) : IO St := do
  let line ← h.getLine
  if line.isEmpty then return st
  let line := (line.dropRightWhile (fun c => c == '\n' || c == '\r'))
  if line.isEmpty || line.startsWith "#" then
    loop h st
  else
    let st := { st with lines := st.lines + 1 }
    match splitObs line with
    | none =>
      IO.println s!"BAD {st.lines} :: {line}"
      loop h { st with bad := st.bad + 1 }
    | some (op, obs) =>
      let toks := (op.splitOn " ").filter (· ≠ "")
      match runPure toks with
      | none =>
        IO.println s!"BAD {st.lines} :: {line}"
        loop h { st with bad := st.bad + 1 }
      | some exp =>
        if exp == obs then loop h st
        else
          IO.println s!"DIFF {st.lines} expected={exp} :: {line}"
          loop h { st with diffs := st.diffs + 1 }

def main : IO UInt32 := do
  let st ← loop (← IO.getStdin) {}
  IO.println s!"SUMMARY lines={st.lines} diffs={st.diffs} bad={st.bad}"
  return (if st.diffs == 0 && st.bad == 0 then 0 else 1)
