import Driver.Registry
/-
zvdriver — replays harness lines "<op tokens> | <observed>" through the executable models and reports
every line where the model's answer differs from what the real code produced.
  DIFF <lineno> expected=<model answer> :: <line>
  BAD  <lineno> :: <line>            (line not understood — a failure of the tie, never skipped)
  SUMMARY lines=<n> diffs=<k> bad=<b>
Lines starting with '#' are comments. A line without " | " is an operation with no observation
(the model executes it, nothing is compared; its answer must still be `some`).
-/
open ZV.Driver

structure St where
  objs  : List Obj
  lines : Nat := 0
  diffs : Nat := 0
  bad   : Nat := 0

def stepAll : List Obj → List String → Option (List Obj × String)
  | [], _ => none
  | o :: os, t =>
    match o.step t with
    | some (o', out) => some (o' :: os, out)
    | none => (stepAll os t).map (fun (os', out) => (o :: os', out))

def splitObs (line : String) : String × Option String :=
  match line.splitOn " | " with
  | [a] => (a, none)
  | a :: rest => (a, some (" | ".intercalate rest))
  | [] => (line, none)

def stripEol (s : String) : String :=
  String.ofList ((s.toList.reverse.dropWhile (fun c => c == '\n' || c == '\r')).reverse)

partial def loop (h : IO.FS.Stream) (st : St) : IO St := do
  let line ← h.getLine
  if line.isEmpty then return st
  let line := stripEol line
  if line.isEmpty || line.startsWith "#" then
    loop h st
  else
    let st := { st with lines := st.lines + 1 }
    let (op, obs) := splitObs line
    let toks := (op.splitOn " ").filter (· ≠ "")
    match stepAll st.objs toks with
    | none =>
      IO.println s!"BAD {st.lines} :: {line}"
      loop h { st with bad := st.bad + 1 }
    | some (objs, exp) =>
      let st := { st with objs := objs }
      match obs with
      | none => loop h st
      | some obs =>
        if exp == obs then loop h st
        else
          IO.println s!"DIFF {st.lines} expected={exp} :: {line}"
          loop h { st with diffs := st.diffs + 1 }

def main : IO UInt32 := do
  let st ← loop (← IO.getStdin) { objs := registry }
  IO.println s!"SUMMARY lines={st.lines} diffs={st.diffs} bad={st.bad}"
  return (if st.diffs == 0 && st.bad == 0 then 0 else 1)
