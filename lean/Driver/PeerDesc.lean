import ZenonVerif.Model.PeerDesc
import Driver.Core
/-
Driver for the `PD-deliver` lines of the peerdesc stream (C01): a lying peer hands a follower a contract receive whose
hash fields are honest and whose content is altered.
  PD-deliver <first|held> <ownOk> <changesSame> <hashSame> <accepted|rejected> <k> (<hash> <dst> <tok> <amt> <content>)^k | rejected
                                                                                                                     | stored (<hash> <dst> <tok> <amt> <content>)^k
The listed blocks are the REGENERATED descendants (the producer's); the observation lists what the follower stores under
their hashes. The model (`PeerDesc.accept`) answers what must be stored. Reasons for refusal outside the model (the
verifier's checks on the delivered descendant objects: type, height, link, acknowledged momentum) are allowed: a refusal
observed where the model accepts is echoed; an acceptance is never echoed.
-/
namespace ZV.Driver
open ZV.PeerDesc

def parsePdBlocks : Nat → List String → Option (List String)
  | 0, [] => some []
  | k + 1, h :: dst :: tok :: a :: cnt :: rest => do
    let _ ← a.toNat?
    let r ← parsePdBlocks k rest
    pure (s!"{h} {dst} {tok} {a} {cnt}" :: r)
  | _, _ => none

def showStored (ds : List String) : String :=
  if ds.isEmpty then "stored" else "stored " ++ " ".intercalate ds

def purePeerDesc : List String → Option String
  | "PD-deliver" :: cls :: own :: chg :: hs :: verdict :: k :: rest => do
    let own ← parseBoolPd own
    let chg ← parseBoolPd chg
    let hs ← parseBoolPd hs
    let k ← k.toNat?
    let gen ← parsePdBlocks k rest
    let d : Delivery String := { ownOk := own, changesSame := chg, hashSame := hs, descs := [] }
    if cls = "held" then pure (showStored (acceptHeld gen d))
    else if cls = "first" then
      match accept gen d with
      | none => pure "rejected"
      | some ds => if verdict = "rejected" then pure "rejected" else pure (showStored ds)
    else none
  | _ => none
where
  parseBoolPd (s : String) : Option Bool :=
    if s = "true" then some true else if s = "false" then some false else none

end ZV.Driver
