import ZenonVerif.Model.Codec
import ZenonVerif.Model.CodecPB
import ZenonVerif.Model.CodecText
import ZenonVerif.Model.CodecRLP
import Driver.Core
/-
Driver handler of the `codec` stream (C13).

Block tokens (prefix form, one block = 22 field tokens, the number of descendants, then the descendants):
  version chainIdentifier blockType hash previousHash height maHash maHeight address toAddress amount
  tokenStandard fromBlockHash data fusedPlasma difficulty nonce basePlasma totalPlasma changesHash
  publicKey signature ndesc <desc>*
Momentum tokens:
  version chainIdentifier hash previousHash height timestamp data changesHash publicKey signature ncontent
  (address hash height)*
The hash function is a parameter of the model: the digests that enter a pre-image are supplied on the line
by the harness (oracle values, DESIGN §1.4) and looked up by input.
-/
namespace ZV.Driver
open ZV ZV.Codec

def parseAmount? (s : String) : Option Int :=
  if s = "nil" then some 0 else s.toInt?   -- a nil *big.Int is the `Big0` branch of BigIntToBytes

def parseBody : List String → Option (ABody × List String)
  | v :: ci :: bt :: h :: ph :: ht :: mah :: maht :: a :: ta :: am :: ts :: fh :: d :: fp :: df :: n :: bp :: tp
      :: ch :: pk :: sg :: rest => do
    let body : ABody := {
      version := ← v.toNat?, chainIdentifier := ← ci.toNat?, blockType := ← bt.toNat?,
      hash := ← ofHex h, previousHash := ← ofHex ph, height := ← ht.toNat?,
      momentumAcknowledged := { hash := ← ofHex mah, height := ← maht.toNat? },
      address := ← ofHex a, toAddress := ← ofHex ta, amount := ← parseAmount? am,
      tokenStandard := ← ofHex ts, fromBlockHash := ← ofHex fh, data := ← ofHex d,
      fusedPlasma := ← fp.toNat?, difficulty := ← df.toNat?, nonce := ← ofHex n,
      basePlasma := ← bp.toNat?, totalPlasma := ← tp.toNat?, changesHash := ← ofHex ch,
      publicKey := ← ofHex pk, signature := ← ofHex sg }
    pure (body, rest)
  | _ => none

mutual
/-- `fuel` bounds the nesting depth + number of blocks; the harness never nests deeper than 8 -/
def parseBlock : Nat → List String → Option (Block × List String)
  | 0, _ => none
  | f + 1, toks => do
    let (body, rest) ← parseBody toks
    match rest with
    | n :: rest => do
      let n ← n.toNat?
      let (ds, rest) ← parseBlocks f n rest
      pure (⟨body, ds⟩, rest)
    | [] => none
def parseBlocks : Nat → Nat → List String → Option (List Block × List String)
  | _, 0, toks => some ([], toks)
  | 0, _ + 1, _ => none
  | f + 1, n + 1, toks => do
    let (b, rest) ← parseBlock f toks
    let (bs, rest) ← parseBlocks f n rest
    pure (b :: bs, rest)
end

def parseHeaders : Nat → List String → Option (List AccountHeader × List String)
  | 0, toks => some ([], toks)
  | n + 1, a :: h :: ht :: rest => do
    let hd : AccountHeader := { address := ← ofHex a, hash := ← ofHex h, height := ← ht.toNat? }
    let (hs, rest) ← parseHeaders n rest
    pure (hd :: hs, rest)
  | _ + 1, _ => none

def parseMomentum : List String → Option (Momentum × List String)
  | v :: ci :: h :: ph :: ht :: ts :: d :: ch :: pk :: sg :: nc :: rest => do
    let (hs, rest) ← parseHeaders (← nc.toNat?) rest
    let m : Momentum := {
      version := ← v.toNat?, chainIdentifier := ← ci.toNat?, hash := ← ofHex h, previousHash := ← ofHex ph,
      height := ← ht.toNat?, timestampUnix := ← ts.toNat?, data := ← ofHex d, content := hs,
      changesHash := ← ofHex ch, publicKey := ← ofHex pk, signature := ← ofHex sg }
    pure (m, rest)
  | _ => none

def showBody (b : ABody) : String :=
  " ".intercalate [toString b.version, toString b.chainIdentifier, toString b.blockType, showHex b.hash,
    showHex b.previousHash, toString b.height, showHex b.momentumAcknowledged.hash,
    toString b.momentumAcknowledged.height, showHex b.address, showHex b.toAddress, toString b.amount,
    showHex b.tokenStandard, showHex b.fromBlockHash, showHex b.data, toString b.fusedPlasma,
    toString b.difficulty, showHex b.nonce, toString b.basePlasma, toString b.totalPlasma, showHex b.changesHash,
    showHex b.publicKey, showHex b.signature]

mutual
def showBlock : Block → String
  | ⟨body, ds⟩ => showBody body ++ " " ++ toString ds.length ++ showBlocks ds
def showBlocks : List Block → String
  | [] => ""
  | d :: ds => " " ++ showBlock d ++ showBlocks ds
end

def showMomentum (m : Momentum) : String :=
  " ".intercalate ([toString m.version, toString m.chainIdentifier, showHex m.hash, showHex m.previousHash,
    toString m.height, toString m.timestampUnix, showHex m.data, showHex m.changesHash, showHex m.publicKey,
    showHex m.signature, toString m.content.length] ++
    m.content.flatMap (fun h => [showHex h.address, showHex h.hash, toString h.height]))

mutual
def showRItem : RItem → String
  | .str b => showHex b
  | .list l => "[" ++ showRItems l ++ "]"
def showRItems : List RItem → String
  | [] => ""
  | [x] => showRItem x
  | x :: y :: r => showRItem x ++ "," ++ showRItems (y :: r)
end

/-- oracle for the hash parameter: the pairs (input, digest) supplied by the harness -/
def oracleH (tbl : List (Bytes × Bytes)) (x : Bytes) : Bytes :=
  match tbl.find? (fun p => p.1 == x) with
  | some p => p.2
  | none => []

def pureCodec : List String → Option String
  | "ab-pre" :: dataDigest :: descDigest :: toks => do
      let dd ← ofHex dataDigest
      let dsd ← ofHex descDigest
      let (b, rest) ← parseBlock 64 toks
      if !rest.isEmpty then none
      let H := oracleH [(b.body.data, dd), (descSource b.desc, dsd)]
      pure (showHex (abPreimage H b))
  | "mom-pre" :: dataDigest :: contentDigest :: toks => do
      let dd ← ofHex dataDigest
      let cd ← ofHex contentDigest
      let (m, rest) ← parseMomentum toks
      if !rest.isEmpty then none
      let H := oracleH [(m.data, dd), (contentBytes m.content, cd)]
      pure (showHex (momentumPreimage H m))
  | "ab-pb" :: toks => do
      let (b, rest) ← parseBlock 64 toks
      if !rest.isEmpty then none
      pure (showHex b.serialize)
  | "mom-pb" :: toks => do
      let (m, rest) ← parseMomentum toks
      if !rest.isEmpty then none
      pure (showHex m.serialize)
  | ["ab-depb", data] => do
      let d ← ofHex data
      match deserializeBlock d with
      | none => pure "err"
      | some none => pure "panic"
      | some (some b) => pure ("ok " ++ showBlock b)
  | ["mom-depb", data] => do
      let d ← ofHex data
      match deserializeMomentum d with
      | none => pure "err"
      | some none => pure "panic"
      | some (some m) => pure ("ok " ++ showMomentum m)
  | "ab-rlp" :: toks => do
      let (b, rest) ← parseBlock 64 toks
      if !rest.isEmpty then none
      match rlpBlock b with
      | some e => pure (showHex e)
      | none => pure "err"
  | "dm-rlp" :: toks => do
      let (m, rest) ← parseMomentum toks
      match rest with
      | n :: rest => do
        let n ← n.toNat?
        let (bs, rest) ← parseBlocks 64 n rest
        if !rest.isEmpty then none
        match rlpDetailed m bs with
        | some e => pure (showHex e)
        | none => pure "err"
      | [] => none
  | ["rlp-tree", data] => do
      let d ← ofHex data
      match rlpDec d with
      | some x => pure (showRItem x)
      | none => pure "err"
  | ["amount-json", a] => do
      let a ← a.toInt?
      let s := showAmount a
      pure s!"{String.ofList s} {stringToBigInt s}"
  | ["amount-parse", hexOfString] => do
      -- the string is passed as hex of its UTF-8 bytes; the model reads ASCII (bytes ≥ 128 are never digits)
      let bs ← ofHex hexOfString
      pure (toString (stringToBigInt (bs.map Char.ofNat)))
  | ["nonce-json", n] => do
      let n ← ofHex n
      let s := hexChars n
      match nonceUnmarshalText s with
      | some b => pure s!"{String.ofList s} ok {showHex b}"
      | none => pure s!"{String.ofList s} err"
  | ["nonce-parse", hexOfString] => do
      let bs ← ofHex hexOfString
      match nonceUnmarshalText (bs.map Char.ofNat) with
      | some b => pure s!"ok {showHex b}"
      | none => pure "err"
  | _ => none

end ZV.Driver
