import ZenonVerif.Model.Ledger
import Driver.Core
/-
Driver for the `ledger` stream: replays every confirmed account block through the abstract ledger model and
answers the state queries that follow each momentum.
-/
namespace ZV.Driver
open ZV.Ledger

/-- name tables: contracts get identifiers below `embeddedBound` (C.token = 0), tokens ZERO/ZNN/QSR = 0/1/2 -/
structure Names where
  addrs : List String := ["C.token"]
  users : List String := []
  toks : List String := ["ZERO", "ZNN", "QSR"]
  hashes : List String := []

def indexOf (l : List String) (x : String) : Option Nat := l.findIdx? (· == x)

def Names.addr (n : Names) (a : String) : Names × Nat :=
  if a.startsWith "C." then
    match indexOf n.addrs a with
    | some i => (n, i)
    | none => ({ n with addrs := n.addrs ++ [a] }, n.addrs.length)
  else
    match indexOf n.users a with
    | some i => (n, embeddedBound + i)
    | none => ({ n with users := n.users ++ [a] }, embeddedBound + n.users.length)

def Names.tok (n : Names) (t : String) : Names × Nat :=
  match indexOf n.toks t with
  | some i => (n, i)
  | none => ({ n with toks := n.toks ++ [t] }, n.toks.length)

def Names.hash (n : Names) (h : String) : Names × Nat :=
  match indexOf n.hashes h with
  | some i => (n, i)
  | none => ({ n with hashes := n.hashes ++ [h] }, n.hashes.length)

def Names.addrName (n : Names) (i : Nat) : String :=
  if i < embeddedBound then n.addrs.getD i "?" else n.users.getD (i - embeddedBound) "?"

def parseBool (s : String) : Option Bool :=
  if s = "true" then some true else if s = "false" then some false else none

def parseCall (n : Names) (s : String) : Option (Names × TokCall) :=
  if s = "-" || s = "other" then some (n, TokCall.none)
  else match s.splitOn ":" with
    | ["issue", t, m, a, b] => do
      pure (n, TokCall.issue (← t.toNat?) (← m.toNat?) (← parseBool a) (← parseBool b))
    | ["mint", tok, a, to] => do
      let (n, tok) := n.tok tok
      let (n, to) := n.addr to
      pure (n, TokCall.mint tok (← a.toNat?) to)
    | ["burn"] => some (n, TokCall.burn)
    | ["update", tok, owner, a, b] => do
      let (n, tok) := n.tok tok
      let (n, owner) := n.addr owner
      pure (n, TokCall.update tok owner (← parseBool a) (← parseBool b))
    | _ => none

def parseDescs (n : Names) : Nat → List String → Option (Names × List Desc)
  | 0, [] => some (n, [])
  | k + 1, dst :: tok :: a :: h :: call :: rest => do
    let a ← a.toNat?
    let (n, dst) := n.addr dst
    let (n, tok) := n.tok tok
    let (n, h) := n.hash h
    let (n, call) ← parseCall n call
    let (n, r) ← parseDescs n k rest
    pure (n, ⟨dst, tok, a, h, call⟩ :: r)
  | _, _ => none

def showErr : Err → String
  | .embeddedUser => "embedded-user" | .ztsMissing => "zts-missing" | .funds => "funds"
  | .fromMissing => "from-missing" | .receiverMismatch => "receiver-mismatch" | .alreadyReceived => "already-received"
  | .notNext => "not-next-in-inbox" | .badStatus => "bad-status" | .badRefund => "bad-refund" | .unfunded => "unfunded-descendant"
  | .tokenPredicts st n => s!"token-model-predicts-status-{st}-with-{n}-descendants"

structure LedgerSt where
  st : State := State.init true
  names : Names := {}
  hist : List (Nat × State) := []     -- ledger state as of each momentum height (for reorganisations)

def answer (ls : LedgerSt) (n : Names) (r : Except Err State) : LedgerSt × String :=
  match r with
  | .ok s => ({ ls with st := s, names := n }, "ok")
  | .error e => ({ ls with names := n }, "model-rejects:" ++ showErr e)

def ledgerStep (ls : LedgerSt) : List String → Option (LedgerSt × String)
  | ["L-reset", gate] => some ({ st := State.init (gate == "post"), names := {} }, "ok")
  | ["L-init-bal", a, t, v] => do
    let v ← v.toNat?
    let (n, a) := ls.names.addr a
    let (n, t) := n.tok t
    pure ({ st := { ls.st with bal := setBal ls.st.bal a t v }, names := n }, "ok")
  | ["L-init-tok", t, sup, mx, m, b, owner] => do
    let (n, t) := ls.names.tok t
    let (n, owner) := n.addr owner
    pure ({ st := { ls.st with toks := setTok ls.st.toks t ⟨← sup.toNat?, ← mx.toNat?, ← parseBool m, ← parseBool b, owner⟩ }, names := n }, "ok")
  | ["L-usend", a, _h, hash, dst, tok, v, call] => do
    let v ← v.toNat?
    let (n, a) := ls.names.addr a
    let (n, dst) := n.addr dst
    let (n, tok) := n.tok tok
    let (n, hash) := n.hash hash
    let (n, call) ← parseCall n call
    pure (answer ls n (usend ls.st a dst tok v hash call))
  | ["L-urecv", a, _h, _hash, from_] =>
    let (n, a) := ls.names.addr a
    let (n, f) := n.hash from_
    some (answer ls n (urecv ls.st a f))
  | "L-crecv" :: c :: _h :: _hash :: from_ :: status :: k :: rest => do
    let status ← status.toNat?
    let k ← k.toNat?
    let (n, c) := ls.names.addr c
    let (n, f) := n.hash from_
    let (n, ds) ← parseDescs n k rest
    pure (answer ls n (crecv ls.st c f status ds))
  | ["L-mom", h] => do
    let h ← h.toNat?
    pure ({ ls with hist := (h, ls.st) :: ls.hist.filter (·.1 < h) }, "ok")
  | ["L-rollback", h] => do
    let h ← h.toNat?
    match ls.hist.find? (·.1 = h) with
    | some e => pure ({ ls with st := e.2, hist := ls.hist.filter (·.1 ≤ h) }, "ok")
    | none => pure (ls, "no-snapshot")
  | ["L-bal", a, t] =>
    let (n, a) := ls.names.addr a
    let (n, t) := n.tok t
    some ({ ls with names := n }, toString (getBal ls.st.bal a t))
  | ["L-nbal"] => some (ls, toString (nonZeroBalances ls.st))
  | ["L-ninflight"] => some (ls, toString ls.st.unreceived.length)
  | ["L-sup", t] =>
    let (n, t) := ls.names.tok t
    match getTok ls.st.toks t with
    | none => some ({ ls with names := n }, "none")
    | some i => some ({ ls with names := n }, s!"{i.supply} {i.max} {i.mintable} {i.burnable} {n.addrName i.owner}")
  | _ => none

def ledgerObj : Obj := mkObj ({} : LedgerSt) ledgerStep

end ZV.Driver
