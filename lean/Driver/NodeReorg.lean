import ZenonVerif.Model.NodeReorg
import Driver.NodeSync
/-
Driver handler for the abstract node trace WITH reorganisations of the `sync-batches` stream (C02 / C06 / C16,
harness/cmd/zvh/s_syncbatches_nr.go): every traced follower is replayed on `ZV.NodeReorg` — `deliverR` (the whole
`InsertChain`: skip loop, link / window / longer tests, rollback with the pool dropped, insert loop), `stepOp` for gossip and
restart — the functions the theorems of Props/C06Reorg.lean are about.

  nr-reset <genesis id> <n> <acct>:<block id> × n                                  (no observation)
  nr-blk <block id> <acct> <pos> <prev> <ack> <total> <base>                       (no observation)
  nr-new <fid>                                                                     (no observation)
  nr-deliver <fid> <k> <id>/<prev>/<height>/<v>/<content ids|->/<delivered ids|-> × k | <class> <index>
  nr-gossip <fid> <block id>                                                        | accepted / refused
  nr-restart <fid>                                                                 (no observation)
  nr-chain <fid>                                                                   | <momentum ids from height 2, oldest first> / -
  nr-pool <fid>                                                                    | <first 8 bytes of the pooled ids, sorted> / -
  nr-fresh <fid>                                                                   | same / differ
  nr-drop <fid> <reason>                                                           (no observation)

`exec` is the uninterpreted tagging of `Driver/NodeSync.lean` (`nsVM`): the patch of a block is [digest of the ledger as of the
acknowledged momentum, frontier and length of the account chain it ran on, block id]. The changes hash of the instance is the
constant 0; a momentum whose header the generator altered (<v> = 0) carries changes hash 1 and is refused by the comparison —
after the block loop, before any change, like every momentum check of the code. `nr-fresh` evaluates the conclusion of
`no_trace_of_abandoned_branch` on the replayed node: a fresh model node that is given `served hist` in one batch accepts it and
ends with the same stored history (transactions, patches) and the same ledger.
-/
namespace ZV.Driver
open ZV ZV.NodeSync ZV.NodeReorg

structure NrSt where
  gid    : Nat := 0
  gen    : List (Nat × Nat) := []
  blocks : List Block := []
  accts  : List Nat := []
  nodes  : List (Nat × Node NsP) := []

def NrSt.vm (st : NrSt) : VM NsP Nat := nsVM st.gid st.gen

def NrSt.node (st : NrSt) (fid : Nat) : Option (Node NsP) := (st.nodes.find? (·.1 == fid)).map (·.2)

def NrSt.setNode (st : NrSt) (fid : Nat) (n : Node NsP) : NrSt :=
  { st with nodes := (fid, n) :: st.nodes.filter (·.1 != fid) }

def NrSt.block? (st : NrSt) (id : Nat) : Option Block := st.blocks.find? (·.id == id)

def nrIds? (st : NrSt) (s : String) : Option (List Block) :=
  if s == "-" then some [] else
    (s.splitOn ",").mapM (fun x => do
      let i ← hexNat? x
      st.block? i)

def nrElem? (st : NrSt) (s : String) : Option DM :=
  match s.splitOn "/" with
  | [id, prev, h, v, content, blocks] => do
      let id ← hexNat? id
      let prev ← hexNat? prev
      let h ← h.toNat?
      let v ← v.toNat?
      if v > 1 then none
      let cs ← nrIds? st content
      let bs ← nrIds? st blocks
      pure ⟨{ id := id, height := h, prev := prev, content := cs.map Block.hdr, changesHash := if v == 1 then 0 else 1 }, bs⟩
  | _ => none

def nrShowRes : Res → String
  | .ok => "ok 0"
  | .link => "link 0"
  | .tooFar => "toofar 0"
  | .notLonger => "notlonger 0"
  | .verify i => s!"verify {i}"

def nrShowPool (st : NrSt) (n : Node NsP) : String :=
  let ids := (st.accts.flatMap (fun a => (n.pool a).map (·.1.id))).mergeSort (fun a b => a ≤ b)
  if ids.isEmpty then "-" else ",".intercalate (ids.map (fun i => showHash (i / 2 ^ 192)))

def nrHex16 (n : Nat) : String :=
  let ds := (Nat.toDigits 16 n)
  String.ofList (List.replicate (32 - ds.length) '0' ++ ds)

def nrStep (st : NrSt) : List String → Option (NrSt × String)
  | "nr-reset" :: gid :: n :: items => do
      let gid ← hexNat? gid
      let n ← n.toNat?
      if items.length ≠ n then none
      let gen ← items.mapM nsGenItem?
      pure ({ gid := gid, gen := gen, accts := (gen.map (·.1)).eraseDups }, "ok")
  | ["nr-blk", id, acct, pos, prev, ack, total, base] => do
      let b ← nsBlock? id acct pos prev ack total base
      pure ({ st with blocks := if st.blocks.any (·.id == b.id) then st.blocks else b :: st.blocks,
                      accts := if st.accts.contains b.acct then st.accts else b.acct :: st.accts }, "ok")
  | ["nr-new", fid] => do
      let fid ← fid.toNat?
      pure (st.setNode fid Node.init, "ok")
  | ["nr-drop", fid, _] => do
      let fid ← fid.toNat?
      pure ({ st with nodes := st.nodes.filter (·.1 != fid) }, "ok")
  | "nr-deliver" :: fid :: k :: items => do
      let fid ← fid.toNat?
      let k ← k.toNat?
      if items.length ≠ k then none
      let batch ← items.mapM (nrElem? st)
      let n ← st.node fid
      let r := deliverR st.vm false n batch
      -- the new state is `stepOp st.vm n (.deliver batch)` (by definition `(deliverR …).1`)
      pure (st.setNode fid r.1, nrShowRes r.2)
  | ["nr-gossip", fid, id] => do
      let fid ← fid.toNat?
      let id ← hexNat? id
      let b ← st.block? id
      let n ← st.node fid
      let verdict := if (addBlock st.vm true false n b).isSome then "accepted" else "refused"
      pure (st.setNode fid (stepOp st.vm n (.gossip b)), verdict)
  | ["nr-restart", fid] => do
      let fid ← fid.toNat?
      let n ← st.node fid
      pure (st.setNode fid (stepOp st.vm n .restart), "ok")
  | ["nr-chain", fid] => do
      let fid ← fid.toNat?
      let n ← st.node fid
      let ids := n.chain.reverse.map (fun m => nrHex16 m.id)
      pure (st, if ids.isEmpty then "-" else ",".intercalate ids)
  | ["nr-pool", fid] => do
      let fid ← fid.toNat?
      let n ← st.node fid
      pure (st, nrShowPool st n)
  | ["nr-fresh", fid] => do
      let fid ← fid.toNat?
      let n ← st.node fid
      let r := deliverR st.vm false Node.init (served n.hist)
      let same := r.2 == .ok && r.1.chain == n.chain && ledger st.vm r.1.hist == ledger st.vm n.hist &&
        r.1.hist.map (·.patch) == n.hist.map (·.patch) &&
        r.1.hist.map (fun e => e.txs.map (·.1.id)) == n.hist.map (fun e => e.txs.map (·.1.id))
      pure ({ st with nodes := st.nodes.filter (·.1 != fid) }, if same then "same" else "differ")
  | _ => none

end ZV.Driver
