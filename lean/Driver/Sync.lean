import ZenonVerif.Model.Sync
import Driver.Core
/-
Driver handler for the `sync-batches` stream (C16): one model node per follower, every batch the harness
handed to the real `InsertChain` is replayed through `Sync.insertChain`.

  sync-new <fid> <genesisHash>                                              (no observation)
  sync-insert <fid> <kind> <k> <height>:<hash>:<prev>:<valid> × k           | <index> <outcome> <frontierHeight> <hash,hash,…>
(`kind` is the generator's label of the batch; the model does not look at it.)
`outcome` ∈ ok | link | toofar | notlonger | verify | panic. The model never answers `panic` (C16.insert_total): an
empty batch is `0 ok`, a batch whose first unknown momentum names a height the node does not hold is `0 link`
(264f72a); a `panic` observed by the harness is therefore always a DIFF.
Hashes are 16 hex digits (the first 8 bytes). `valid` is 1 when the delivered momentum and its account
blocks are the producer's own bytes, 0 when the harness corrupted them.
-/
namespace ZV.Driver
open ZV ZV.Sync

def hexNat? (s : String) : Option Nat :=
  if s.isEmpty then none
  else s.toList.foldlM (fun acc c => (hexVal c).map (fun v => 16 * acc + v)) 0

def hexDigits (n : Nat) : Nat → List Char
  | 0 => []
  | w + 1 => hexDigits (n / 16) w ++ [hexDigit (n % 16)]

def showHash (n : Nat) : String := String.ofList (hexDigits n 16)

def outcomeName : Outcome → String
  | .ok => "ok"
  | .errLink => "link"
  | .errTooFar => "toofar"
  | .errNotLonger => "notlonger"
  | .errVerify => "verify"
  | .panic => "panic"

/-- the validity oracle of a batch is carried in the low bit of `body` (the rest is the position) -/
def validBit (d : DM) : Bool := d.body % 2 == 1

def parseDM? (pos : Nat) (s : String) : Option DM :=
  match s.splitOn ":" with
  | [h, hash, prev, v] => do
      let h ← h.toNat?
      let hash ← hexNat? hash
      let prev ← hexNat? prev
      let v ← v.toNat?
      if v > 1 then none else pure { height := h, hash := hash, prev := prev, body := 2 * pos + v }
  | _ => none

def parseBatch? : Nat → List String → Option (List DM)
  | _, [] => some []
  | pos, s :: rest => do
      let d ← parseDM? pos s
      let ds ← parseBatch? (pos + 1) rest
      pure (d :: ds)

abbrev SyncSt := List (Nat × Node)

def lookupNode (st : SyncSt) (fid : Nat) : Option Node := (st.find? (·.1 == fid)).map (·.2)

def setNode (st : SyncSt) (fid : Nat) (n : Node) : SyncSt := (fid, n) :: st.filter (·.1 != fid)

def syncStep (st : SyncSt) : List String → Option (SyncSt × String)
  | ["sync-new", fid, g] => do
      let fid ← fid.toNat?
      let g ← hexNat? g
      let n : Node := { genesis := { height := 1, hash := g, prev := 0, body := 1 }, rest := [] }
      pure (setNode st fid n, "ok")
  | "sync-insert" :: fid :: _kind :: k :: items => do
      let fid ← fid.toNat?
      let k ← k.toNat?
      if items.length ≠ k then none
      let ms ← parseBatch? 0 items
      let n ← lookupNode st fid
      let (n', idx, o) := insertChain validBit n ms
      let hashes := ",".intercalate (n'.chain.map (fun d => showHash d.hash))
      pure (setNode st fid n', s!"{idx} {outcomeName o} {n'.frontier.height} {hashes}")
  | _ => none

end ZV.Driver
