import ZenonVerif.Model.Journal
import Driver.Core
/-
Driver handler for the jr-* lines of the `crash` stream (C08): the journal layer.

  jr-load <blocksize> <hex>                    (no observation) the whole journal file
  jr-parse                                     | <number of records> <len:hash,…> enc=ok
  jr-cut <n> <tail>                            | <k> <strict> p=<p>

jr-parse: `recover B leveldbCrc bytes` (the real masked CRC-32C is computed and verified on every chunk), printed as
count and per record length:hash (hash = Σ over bytes of h·31+b from 7, 32 bit); then the recovered records are
re-encoded with `encodeJournal B leveldbCrc` and compared with the file byte for byte: `enc=ok` or `enc=diff@<index>`.
jr-cut: the image = first n bytes ‖ tail (`-` none, `z<count>` zeros, `g<hex>` bytes). k = number of records `recover`
delivers from the image when they are the first k records of the whole journal (`notprefix` otherwise);
strict = `recoverStrict` (`ok:<k>` / `err`); p = `wholeRecs B 0 records n` = the number of records that end at or
before byte n according to the layout of the model (Props/C08Journal.recover_truncate_exact: k = p when there is no tail).
-/
namespace ZV.Driver
open ZV.Journal

structure JrSt where
  B : Nat := 32768
  data : Journal.Bytes := []
  full : List Record := []

def jrHexVal (c : Char) : Option Nat :=
  if '0' ≤ c ∧ c ≤ '9' then some (c.toNat - '0'.toNat)
  else if 'a' ≤ c ∧ c ≤ 'f' then some (c.toNat - 'a'.toNat + 10)
  else none

def jrHexGo : List Char → List UInt8 → Option (List UInt8)
  | [], acc => some acc.reverse
  | a :: b :: rest, acc =>
    match jrHexVal a, jrHexVal b with
    | some x, some y => jrHexGo rest (UInt8.ofNat (16 * x + y) :: acc)
    | _, _ => none
  | _, _ => none

def jrHex? (s : String) : Option (List UInt8) := jrHexGo s.toList []

def jrHash (p : Journal.Bytes) : UInt32 := p.foldl (fun h b => h * 31 + b.toUInt32) 7

def jrHex8 (w : UInt32) : String :=
  let d (n : Nat) : Char := if n < 10 then Char.ofNat (n + 48) else Char.ofNat (n + 87)
  String.ofList ((List.range 8).map (fun i => d (w.toNat / 16 ^ (7 - i) % 16)))

def jrSummary (recs : List Record) : String :=
  if recs.isEmpty then "0 -"
  else s!"{recs.length} " ++ ",".intercalate (recs.map (fun r => s!"{r.length}:{jrHex8 (jrHash r)}"))

def jrFirstDiff : List UInt8 → List UInt8 → Nat → Option Nat
  | [], [], _ => none
  | a :: as, b :: bs, i => if a = b then jrFirstDiff as bs (i + 1) else some i
  | _, _, i => some i

def jrTail? (t : String) : Option (List UInt8) :=
  if t = "-" then some []
  else match t.toList with
    | 'z' :: rest => (String.ofList rest).toNat?.map (fun z => List.replicate z 0)
    | 'g' :: rest => jrHexGo rest []
    | _ => none

def jrStep (st : JrSt) : List String → Option (JrSt × String)
  | ["jr-load", b, h] => do
      let b ← b.toNat?
      let data ← jrHex? h
      pure ({ B := b, data := data, full := recover b leveldbCrc data }, "ok")
  | ["jr-parse"] =>
      let enc := match jrFirstDiff (encodeJournal st.B leveldbCrc st.full) st.data 0 with
        | none => "ok"
        | some i => s!"diff@{i}"
      some (st, s!"{jrSummary st.full} enc={enc}")
  | ["jr-cut", n, t] => do
      let n ← n.toNat?
      let tail ← jrTail? t
      let img := st.data.take n ++ tail
      let r := recover st.B leveldbCrc img
      let k := if r == st.full.take r.length then toString r.length else "notprefix"
      let strict := match recoverStrict st.B leveldbCrc img with
        | some l => s!"ok:{l.length}"
        | none => "err"
      pure (st, s!"{k} {strict} p={wholeRecs st.B 0 st.full n}")
  | _ => none

end ZV.Driver
