import ZenonVerif.Model.Rewards
import ZenonVerif.Model.Points
import Driver.Core
/-
Driver handlers for the C11 stream `rewards-pure`.
-/
namespace ZV.Driver
open ZV ZV.Rewards

def joinInts (xs : List Int) : String := " ".intercalate (xs.map toString)

def optOut (o : Option String) : String := o.getD "panic"

def rewardConsts (e : Nat) : Option String := do
  let zn ← networkZnnRewardPerEpoch e
  let qn ← networkQsrRewardPerEpoch e
  let (d, p) ← pillarRewardPerMomentum e
  let (sz, sq) ← sentinelRewardForEpoch e
  let (lz, lq) ← liquidityRewardForEpoch e
  let st ← stakeQsrRewardPerEpoch e
  pure (joinInts [zn, qn, d, p, sz, sq, lz, lq, st])

/-- split a flat list into consecutive groups of `k` -/
def groups (k : Nat) : Nat → List Int → Option (List (List Int))
  | 0, [] => some []
  | 0, _ :: _ => none
  | n + 1, xs => if xs.length < k then none else do
      let rest ← groups k n (xs.drop k)
      pure (xs.take k :: rest)

/-- one pillar of a `pillar-detail` line: produced expected weight giveBlock giveDelegate nBackers|x amounts… -/
structure PD where
  stat : PillarStat
  gb : Int
  gd : Int
  backers : Option (List Int)   -- none: no delegation record for the epoch

def parsePD : Nat → List String → Option (List PD)
  | 0, [] => some []
  | 0, _ :: _ => none
  | n + 1, pr :: ex :: w :: gb :: gd :: nb :: rest => do
      let pr ← pr.toNat?
      let ex ← ex.toNat?
      let w ← w.toInt?
      let gb ← gb.toInt?
      let gd ← gd.toInt?
      if nb = "x" then
        let more ← parsePD n rest
        pure (⟨⟨pr, ex, w⟩, gb, gd, none⟩ :: more)
      else
        let k ← nb.toNat?
        if rest.length < k then none else
        let am ← (rest.take k).mapM String.toInt?
        let more ← parsePD n (rest.drop k)
        pure (⟨⟨pr, ex, w⟩, gb, gd, some am⟩ :: more)
  | _, _ => none

/-- token groups of a `liq-epoch` line: znnPct qsrPct nStakes {start revoke weighted}* -/
def parseLiq : Nat → List Int → Option (List (Int × Int × List (Int × Int × Int)))
  | 0, [] => some []
  | 0, _ :: _ => none
  | n + 1, pz :: pq :: k :: rest =>
      if k < 0 ∨ rest.length < 3 * k.toNat then none else do
        let gs ← groups 3 k.toNat (rest.take (3 * k.toNat))
        let st ← gs.mapM (fun g => match g with
          | [a, b, c] => some (a, b, c)
          | _ => none)
        let more ← parseLiq n (rest.drop (3 * k.toNat))
        pure ((pz, pq, st) :: more)
  | _, _ => none

def toStat : List Int → Option PillarStat
  | [p, e, w] => if p < 0 ∨ e < 0 then none else some ⟨p.toNat, e.toNat, w⟩
  | _ => none

def pureRewards : List String → Option String
  | ["reward-consts", e] => do
      let e ← e.toNat?
      if e ≥ two64 then none else pure (optOut (rewardConsts e))
  | ["wstake", s, r, a, st, en] => do
      pure (toString (weightedStake (← s.toInt?) (← r.toInt?) (← a.toInt?) (← st.toInt?) (← en.toInt?)))
  | ["wliq", s, r, a, st, en] => do
      pure (toString (weightedStake (← s.toInt?) (← r.toInt?) (← a.toInt?) (← st.toInt?) (← en.toInt?)))
  | ["wsentinel", s, r, st, en] => do
      pure (toString (weightedSentinel (← s.toInt?) (← r.toInt?) (← st.toInt?) (← en.toInt?)))
  | "pillar-epoch" :: e :: w :: n :: rest => do
      let e ← e.toNat?
      let W ← w.toInt?
      let n ← n.toNat?
      let xs ← rest.mapM String.toInt?
      let gs ← groups 3 n xs
      let ps ← gs.mapM toStat
      match pillarRewardPerMomentum e with
      | none => pure "panic"
      | some (d, p) =>
        let rs := ps.map (pillarRewardForEpoch d p W ps)
        pure (joinInts (rs.flatMap (fun r => [r.delegation, r.block, r.total])))
  | "stake-epoch" :: e :: st :: en :: n :: rest => do
      let e ← e.toNat?
      let st ← st.toInt?
      let en ← en.toInt?
      let n ← n.toNat?
      let xs ← rest.mapM String.toInt?
      let gs ← groups 3 n xs
      let ws ← gs.mapM (fun g => match g with
        | [s, r, a] => some (weightedStake s r a st en)
        | _ => none)
      match stakeQsrRewardPerEpoch e with
      | none => pure "panic"
      | some T =>
        if n = 0 then pure "-" else
        let rs := stakeRewardsForEpoch T ws
        pure (joinInts (if rs.isEmpty then ws.map (fun _ => 0) else rs))
  | "sentinel-epoch" :: e :: st :: en :: n :: rest => do
      let e ← e.toNat?
      let st ← st.toInt?
      let en ← en.toInt?
      let n ← n.toNat?
      let xs ← rest.mapM String.toInt?
      let gs ← groups 2 n xs
      let ws ← gs.mapM (fun g => match g with
        | [s, r] => some (weightedSentinel s r st en)
        | _ => none)
      match sentinelRewardForEpoch e with
      | none => pure "panic"
      | some (Tz, Tq) =>
        if n = 0 then pure "-" else
        let rs := sentinelRewardsForEpoch Tz Tq ws
        let rs := if rs.isEmpty then ws.map (fun _ => ((0 : Int), (0 : Int))) else rs
        pure (joinInts (rs.flatMap (fun (a, b) => [a, b])))
  | "pillar-detail" :: e :: w :: n :: rest => do
      let e ← e.toNat?
      let W ← w.toInt?
      let n ← n.toNat?
      let pds ← parsePD n rest
      let ps := pds.map (·.stat)
      match pillarRewardPerMomentum e with
      | none => pure "panic"
      | some (d, p) =>
        let out := pds.flatMap (fun pd =>
          let r := pillarRewardForEpoch d p W ps pd.stat
          match pd.backers with
          | none =>
            -- no delegation record: the backers' part is computed but never credited
            let (_, _) := pillarSplit r pd.gb pd.gd []
            [r.total - Int.tdiv (pd.gb * r.block + pd.gd * r.delegation) 100]
          | some bs =>
            let (pp, shares) := pillarSplit r pd.gb pd.gd bs
            pp :: (if shares.isEmpty then bs.map (fun _ => 0) else shares))
        pure (joinInts out)
  | "liq-epoch" :: e :: st :: en :: az :: aq :: n :: rest => do
      let e ← e.toNat?
      let st ← st.toInt?
      let en ← en.toInt?
      let az ← az.toInt?
      let aq ← aq.toInt?
      let n ← n.toNat?
      let xs ← rest.mapM String.toInt?
      let toks ← parseLiq n xs
      match liquidityRewardForEpoch e with
      | none => pure "panic"
      | some (lz, lq) =>
        let Tz := lz + (if az > 0 then az else 0)
        let Tq := lq + (if aq > 0 then aq else 0)
        let ws := toks.map (fun (_, _, ss) => ss.map (fun (s, r, a) => weightedStake s r a st en))
        let fill (rs : List (List Int)) : List Int :=
          (rs.zip ws).flatMap (fun (r, w) => if r.isEmpty then w.map (fun _ => 0) else r)
        let rz := fill (liquidityStakeRewards Tz Gen.LiquidityZnnTotalPercentages
          ((toks.zip ws).map (fun ((pz, _, _), w) => (pz, w))))
        let rq := fill (liquidityStakeRewards Tq Gen.LiquidityQsrTotalPercentages
          ((toks.zip ws).map (fun ((_, pq, _), w) => (pq, w))))
        if rz.sum > Tz ∨ rq.sum > Tq then pure "err" else
        let per := (rz.zip rq).flatMap (fun (a, b) => [a, b])
        pure (" ".intercalate ((per.map toString) ++ [";", toString (Tz - rz.sum), toString (Tq - rq.sum)]))
  | _ => none

/-! ### consensus points (`pt-fold`): period points → epoch point -/

def parseDetails : Nat → List Nat → Option (ZV.Points.PMap × List Nat)
  | 0, rest => some ([], rest)
  | n + 1, id :: ex :: fa :: w :: rest => do
    let (m, rest') ← parseDetails n rest
    pure ((id, ⟨ex, fa, w⟩) :: m, rest')
  | _, _ => none

def parsePoints : Nat → List Nat → Option (List ZV.Points.Point × List Nat)
  | 0, rest => some ([], rest)
  | k + 1, n :: total :: rest => do
    let (m, rest') ← parseDetails n rest
    let (ps, rest'') ← parsePoints k rest'
    pure (⟨m, total⟩ :: ps, rest'')
  | _, _ => none

def showPoint (p : ZV.Points.Point) : String :=
  let sorted := p.pillars.mergeSort (fun a b => a.1 ≤ b.1)
  let body := sorted.map (fun e => s!" {e.1} {e.2.expected} {e.2.factual} {e.2.weight}")
  s!"{p.pillars.length} {p.total}" ++ String.join body

def purePoints : List String → Option String
  | "pt-fold" :: k :: rest => do
      let k ← k.toNat?
      let nums ← rest.mapM String.toNat?
      let (ps, left) ← parsePoints k nums
      if left ≠ [] then none else pure (showPoint (ZV.Points.compound ps))
  | _ => none

end ZV.Driver
