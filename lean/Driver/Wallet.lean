import ZenonVerif.Model.Wallet
import Driver.Core
/-
Driver handler for the `wallet` stream (C19). The cryptographic primitives of the model are instantiated with
ORACLE TABLES taken from the line: the harness computed them with Go's standard library (crypto/hmac, sha3,
ed25519, argon2, AES-GCM, go-bip39) independently of package wallet. The driver checks that the inputs the MODEL
wants hashed are exactly the inputs the harness hashed (same order); a query missing from the table yields the
empty string and therefore a mismatch, never a default.
-/
namespace ZV.Driver
open ZV ZV.Wallet

def nullFns : CryptoFns where
  hmac := fun _ _ => []
  sha3 := fun _ => []
  edPub := fun _ => []
  edSign := fun _ _ => []
  edVerify := fun _ _ _ => false
  kdf := fun _ _ _ => []
  aeadSeal := fun _ _ _ _ => []
  aeadOpen := fun _ _ _ _ => none
  mnemonic := fun _ => none
  seed := fun _ => []

def lookup1 (tbl : List (Bytes × Bytes)) (a : Bytes) : Bytes :=
  match tbl.find? (fun e => e.1 == a) with
  | some e => e.2
  | none => []

def lookup2 (tbl : List (Bytes × Bytes × Bytes)) (a b : Bytes) : Bytes :=
  match tbl.find? (fun e => e.1 == a && e.2.1 == b) with
  | some e => e.2.2
  | none => []

/-- parse `n` triples of hex tokens -/
def parseTriples : Nat → List String → Option (List (Bytes × Bytes × Bytes) × List String)
  | 0, rest => some ([], rest)
  | n + 1, a :: b :: c :: rest => do
    let a ← ofHex a
    let b ← ofHex b
    let c ← ofHex c
    let (l, rest') ← parseTriples n rest
    pure ((a, b, c) :: l, rest')
  | _, _ => none

def strOf (b : Bytes) : String := String.ofList (b.map Char.ofNat)

/-- oracle instance for derivations: HMAC table, (key ↦ pub), (pub ↦ sha3 pub) -/
def deriveFns (hm : List (Bytes × Bytes × Bytes)) (key pub h : Bytes) : CryptoFns :=
  { nullFns with
    hmac := lookup2 hm
    edPub := fun k => if pub ≠ [] then lookup1 [(key, pub)] k else []
    sha3 := fun p => if pub ≠ [] then lookup1 [(pub, h)] p else [] }

def showDerive (hm : List (Bytes × Bytes × Bytes)) (log : List Query) (r : Except Err KeyPair) : String :=
  if log.map (fun q => (q.hkey, q.msg)) ≠ hm.map (fun e => (e.1, e.2.1)) then
    "query-mismatch model=" ++ " ".intercalate (log.map (fun q => showHex q.hkey ++ ":" ++ showHex q.msg))
  else match r with
    | .error e => "err " ++ e.show
    | .ok kp => s!"ok {showHex kp.secret} {showHex kp.pub} {showHex kp.address}"

/-- the final key the reference derived = first half of the last HMAC output, when the pub oracle is present -/
def lastKey (hm : List (Bytes × Bytes × Bytes)) : Bytes :=
  match hm.getLast? with
  | some e => e.2.2.take 32
  | none => []

def runDerive (seed path : Bytes) (rest : List String) : Option String := do
  let nq :: rest := rest | none
  let nq ← nq.toNat?
  let (hm, rest) ← parseTriples nq rest
  let [pub, h] := rest | none
  let pub ← ofHex pub
  let h ← ofHex h
  let C := deriveFns hm (lastKey hm) pub h
  let (log, r) := deriveForPathLog C path seed
  pure (showDerive hm log (r.map (toKeyPair C)))

/-- `wl-decrypt-ks` / `wl-decrypt-rewrite`: a key file AS READ (the recorded address is whatever the file says — it is not
    bound to the password), its password, and the oracle values for the whole chain Decrypt → keyStoreFromEntropy:
    `fileBase ct nonce salt pw dk opened mnemonic seed <hmac table> pub sha3(pub)`. Returns the oracle instance, the key
    file and the password, or "query-mismatch" when the HMAC inputs of the model are not the ones the harness hashed. -/
def parseDecryptKs (toks : List String) : Option (Except String (CryptoFns × KeyFile × Bytes)) := do
  let fileBase :: ct :: nonce :: salt :: pw :: dk :: opened :: mn :: seed :: rest := toks | none
  let fileBase ← ofHex fileBase
  let ct ← ofHex ct
  let nonce ← ofHex nonce
  let salt ← ofHex salt
  let pw ← ofHex pw
  let dk ← ofHex dk
  let opened ← (if opened = "none" then some none
                else match opened.splitOn ":" with
                  | ["some", x] => (ofHex x).map some
                  | _ => none)
  let mn ← (if mn = "none" then some none else (ofHex mn).map some)
  let seed ← ofHex seed
  let nq :: rest := rest | none
  let nq ← nq.toNat?
  let (hm, rest) ← parseTriples nq rest
  let [pub, h] := rest | none
  let pub ← ofHex pub
  let h ← ofHex h
  let C : CryptoFns := { deriveFns hm (lastKey hm) pub h with
    kdf := fun ps p s => if ps = [1, 65536, 4, 32] ∧ p = pw ∧ s = salt then dk else []
    aeadOpen := fun k n ad c => if k = dk ∧ n = nonce ∧ ad = [122, 101, 110, 111, 110] ∧ c = ct then opened else none
    mnemonic := fun e => if some e = opened then mn else none
    seed := fun m => if some m = mn then seed else [] }
  let qok := match opened, mn with
    | some _, some _ => (deriveForPathLog C (indexPath 0) seed).1.map (fun q => (q.hkey, q.msg)) == hm.map (fun e => (e.1, e.2.1))
    | _, _ => hm.isEmpty
  if !qok then pure (.error "query-mismatch") else
  pure (.ok (C, ⟨fileBase, Gen.aesMode, Gen.argonName, ct, nonce, salt, Gen.cryptoStoreVersion⟩, pw))

def pureWallet : List String → Option String
  | ["wl-path", p] => do
      let p ← ofHex p
      pure (showBool (isValidPath p))
  | "wl-derive" :: seed :: path :: rest => do
      let seed ← ofHex seed
      let path ← ofHex path
      runDerive seed path rest
  | "wl-derive-index" :: seed :: i :: rest => do
      let seed ← ofHex seed
      let i ← i.toNat?
      runDerive seed (indexPath i) rest
  | ["wl-step", key, chain, i, msg, out] => do
      let key ← ofHex key
      let chain ← ofHex chain
      let i ← i.toNat?
      let msg ← ofHex msg
      let out ← ofHex out
      -- the input the model hashes must be the input the harness hashed
      if (Query.child chain key i).msg ≠ msg then pure "query-mismatch" else
      let C : CryptoFns := { nullFns with hmac := lookup2 [(chain, msg, out)] }
      match derive C ⟨key, chain⟩ i with
      | .error e => pure ("err " ++ e.show)
      | .ok k => pure s!"ok {showHex k.key} {showHex k.chain}"
  | ["wl-master", seed, out] => do
      let seed ← ofHex seed
      let out ← ofHex out
      let C : CryptoFns := { nullFns with hmac := lookup2 [(Gen.seedModifier, seed, out)] }
      let k := newMasterKey C seed
      pure s!"{showHex k.key} {showHex k.chain}"
  | ["wl-sign", key, msg, pub, sig, indep] => do
      let key ← ofHex key
      let msg ← ofHex msg
      let pub ← ofHex pub
      let sig ← ofHex sig
      let indep ← (if indep = "true" then some true else if indep = "false" then some false else none)
      let C : CryptoFns := { nullFns with
        edPub := lookup1 [(key, pub)]
        edSign := fun k m => if k = key ∧ m = msg then sig else []
        edVerify := fun p m s => if p = pub ∧ m = msg ∧ s = sig then indep else false }
      let kp := toKeyPair C ⟨key, []⟩
      pure (showBool (verify C kp.pub msg (sign C kp msg)))
  | ["wl-addr", pk, h] => do
      let pk ← ofHex pk
      let h ← ofHex h
      let C : CryptoFns := { nullFns with sha3 := fun p => if p = pk then h else [] }
      pure (showHex (pubKeyToAddress C pk))
  | "wl-keystore" :: entropy :: mn :: seed :: rest => do
      let entropy ← ofHex entropy
      let mn ← (if mn = "none" then some none else (ofHex mn).map some)
      let seed ← ofHex seed
      let nq :: rest := rest | none
      let nq ← nq.toNat?
      let (hm, rest) ← parseTriples nq rest
      let [pub, h] := rest | none
      let pub ← ofHex pub
      let h ← ofHex h
      let C : CryptoFns := { deriveFns hm (lastKey hm) pub h with
        mnemonic := fun e => if e = entropy then mn else none
        seed := fun m => if some m = mn then seed else [] }
      -- the queries the model issues for index 0 must be the ones the harness hashed
      let qok := match mn with
        | none => hm.isEmpty
        | some _ => (deriveForPathLog C (indexPath 0) seed).1.map (fun q => (q.hkey, q.msg)) == hm.map (fun e => (e.1, e.2.1))
      if !qok then pure "query-mismatch" else
      match keyStoreFromEntropy C entropy with
      | .error e => pure ("err " ++ e.show)
      | .ok ks => pure s!"ok {showHex ks.baseAddress} {showHex ks.seed} {showHex ks.mnemonic}"
  | ["wl-encrypt", entropy, base, pw, salt, nonce, dk, sealed] => do
      let entropy ← ofHex entropy
      let base ← ofHex base
      let pw ← ofHex pw
      let salt ← ofHex salt
      let nonce ← ofHex nonce
      let dk ← ofHex dk
      let sealed ← ofHex sealed
      -- the harness computed dk with the parameters / additional data of the STATEMENT (1, 64 MiB, 4, 32; "zenon")
      let C : CryptoFns := { nullFns with
        kdf := fun ps p s => if ps = [1, 65536, 4, 32] ∧ p = pw ∧ s = salt then dk else []
        aeadSeal := fun k n ad m => if k = dk ∧ n = nonce ∧ ad = [122, 101, 110, 111, 110] ∧ m = entropy then sealed else [] }
      let kf := encrypt C ⟨entropy, [], [], base⟩ pw salt nonce
      let t := kf.text
      pure s!"baseAddress={showHex kf.baseAddress} cipherName={strOf kf.cipherName} kdf={strOf kf.kdf} cipherData={String.ofList t.cipherData} nonce={String.ofList t.nonce} salt={String.ofList t.salt} version={kf.version}"
  | ["wl-decrypt", ct, nonce, salt, pw, dk, opened] => do
      let ct ← ofHex ct
      let nonce ← ofHex nonce
      let salt ← ofHex salt
      let pw ← ofHex pw
      let dk ← ofHex dk
      let opened ← (if opened = "none" then some none
                    else match opened.splitOn ":" with
                      | ["some", x] => (ofHex x).map some
                      | _ => none)
      let C : CryptoFns := { nullFns with
        kdf := fun ps p s => if ps = [1, 65536, 4, 32] ∧ p = pw ∧ s = salt then dk else []
        aeadOpen := fun k n ad c => if k = dk ∧ n = nonce ∧ ad = [122, 101, 110, 111, 110] ∧ c = ct then opened else none }
      let kf : KeyFile := ⟨[], Gen.aesMode, Gen.argonName, ct, nonce, salt, Gen.cryptoStoreVersion⟩
      match decryptEntropy C kf pw with
      | .error e => pure ("err " ++ e.show)
      | .ok e => pure ("ok " ++ showHex e)
  | "wl-decrypt-ks" :: rest => do
      -- the whole `KeyFile.Decrypt`: the key store of the decrypted entropy, whatever address the file records
      match ← parseDecryptKs rest with
      | .error m => pure m
      | .ok (C, kf, pw) =>
        match decrypt C kf pw with
        | .error e => pure ("err " ++ e.show)
        | .ok ks => pure s!"ok {showHex ks.entropy} {showHex ks.baseAddress} {showHex ks.seed} {showHex ks.mnemonic}"
  | "wl-decrypt-rewrite" :: rest => do
      -- Decrypt, then Encrypt the key store again (new password, new salt / nonce): the address the NEW file records
      match ← parseDecryptKs rest with
      | .error m => pure m
      | .ok (C, kf, pw) =>
        match decrypt C kf pw with
        | .error e => pure ("err " ++ e.show)
        | .ok ks => pure ("baseAddress=" ++ showHex (encrypt nullFns ks [] [] []).baseAddress)
  | ["wl-text", c, n, sa] =>
      -- the three byte fields as JSON text (possibly malformed) → what ReadKeyFile decodes
      match (KeyFileText.mk c.toList n.toList sa.toList).parse with
      | none => pure "err json"
      | some (c, n, sa) => pure s!"ok {showHex c} {showHex n} {showHex sa}"
  | ["wl-readchecks", cn, kdf, ver] => do
      let cn ← ofHex cn
      let kdf ← ofHex kdf
      let ver ← ver.toNat?
      match readChecks ⟨[], cn, kdf, [], [], [], ver⟩ with
      | .error e => pure e.show
      | .ok _ => pure "ok"
  | _ => none

/-! ### sequences on one key file object (`wl-seq-new`, `wl-seq-op`): stateful handler around `kfStep` -/

def showFields (kf : KeyFile) : String := s!"{showHex kf.cipherData} {showHex kf.nonce} {showHex kf.salt}"

def parseOpened (opened : String) : Option (Option Bytes) :=
  if opened = "none" then some none
  else match opened.splitOn ":" with
    | ["some", x] => (ofHex x).map some
    | _ => none

/-- oracle for one attempt: the harness computed `dk` = Argon2id(pw, salt of the file as created) and `opened` =
    AES-GCM-Open(dk, nonce, ciphertext of the file as created); the model may use them only for exactly these inputs -/
def seqFns (kf : KeyFile) (pw dk : Bytes) (opened : Option Bytes) : CryptoFns :=
  { nullFns with
    kdf := fun ps p s => if ps = [1, 65536, 4, 32] ∧ p = pw ∧ s = kf.salt then dk else []
    aeadOpen := fun k n ad c => if k = dk ∧ n = kf.nonce ∧ ad = [122, 101, 110, 111, 110] ∧ c = kf.cipherData then opened else none }

def showKfOut : KfOut → String
  | .entropy (.ok e) => "ok " ++ showHex e
  | .entropy (.error e) => "err " ++ e.show
  | .done => ""
  | .reread none => "err json"
  | .reread (some (c, n, s)) => s!"ok {showHex c} {showHex n} {showHex s}"

def walletSeqStep (st : Option KfHolder) : List String → Option (Option KfHolder × String)
  | ["wl-seq-new", ct, nonce, salt] => do
      let ct ← ofHex ct
      let nonce ← ofHex nonce
      let salt ← ofHex salt
      pure (some ⟨⟨[], Gen.aesMode, Gen.argonName, ct, nonce, salt, Gen.cryptoStoreVersion⟩, none⟩, "")
  | ["wl-seq-op", op, pw, dk, opened] => do
      let h ← st
      let pw ← ofHex pw
      let dk ← ofHex dk
      let opened ← parseOpened opened
      let kop ← (if op = "D" || op = "G" then some (KfOp.decrypt pw) else if op = "U" then some (KfOp.unlock pw) else none)
      let (h', out) := kfStep (seqFns h.kf pw dk opened) h kop
      pure (some h', showKfOut out ++ " " ++ showFields h'.kf)
  | ["wl-seq-op", op] => do
      let h ← st
      if op = "W" then
        let (h', out) := kfStep nullFns h .writeRead
        pure (some h', showKfOut out)
      else
        let kop ← (if op = "L" then some KfOp.lock else if op = "S" then some KfOp.scrub else none)
        let (h', _) := kfStep nullFns h kop
        pure (some h', showFields h'.kf)
  | _ => none

def walletSeqObj : Obj := mkObj (none : Option KfHolder) walletSeqStep

end ZV.Driver
