import ZenonVerif.Model.ConsensusStore
import Driver.Core
/-
Driver handler of the `cs-*` lines (C05 election stream, C11 rewards-pure stream): the consensus store.

Values on a line (tokens; byte strings in hex, `-` = empty; numbers decimal):
  <ed>  = <np> <producer>* <nd> (<name> <producing> <weight>)*
  <pt>  = <prevHash> <endHash> <totalWeight> <n> (<name> <expected> <factual> <weight>)*      entries sorted by name
Answers (canonical printing, the same on the Go side):
  EDTEXT = p=<np>/<number of different producers> d=<nd> [<producer>,…] [<name>/<producing>/<weight>,…]
  PTTEXT = n=<k> total=<w> prev=<h> end=<h> [<name>/<expected>/<factual>/<weight>,…]          entries sorted by name

  cs-ed-enc <ed> <hex>                    | ok         `marshalED` of the value = the bytes of the real Marshal, byte for byte
                                                       (otherwise `differs@<index>:model=…,real=…,lengths=…`)
  cs-ed-dec <hex>                         | EDTEXT     `unmarshalED` of the REAL bytes (`error` when undecodable)
  cs-pt-enc <pt> <hex>                    | ok         the real bytes decode (`unmarshalPoint`) to a point whose canonical
                                                       form is <pt>, and re-encoding the decoded point IN THE ORDER READ
                                                       (`marshalPoint`) gives the real bytes back; otherwise the decoded
                                                       value / `reencode-differs`
  cs-pt-dec <hex>                         | PTTEXT     `unmarshalPoint` of the REAL bytes, canonical form
  cs-key point <prefix> <height>          | <hex>      `pointKey`
  cs-key election <hash>                  | <hex>      `electionKey`
  cs-db open <inst> <ecap> <pcap>                      a `storage.DB` over the shared backing map (`Store.openOn`)
  cs-db store-ed <inst> <hash> <ed>                    `storeElection`
  cs-db get-ed <inst> <hash>              | EDTEXT / nil / error      `getElection`
  cs-db raw-ed <hash> <hex>               | ok / nil                  the model's backing bytes under `electionKey hash` = the real ones
  cs-db store-pt <inst> <prefix> <height> <pt>         `storePoint`
  cs-db get-pt <inst> <prefix> <height>   | PTTEXT / nil / error      `getPoint`
  cs-db del-pt <inst> <prefix> <height>                `deletePoint`
-/
namespace ZV.Driver
open ZV ZV.Codec ZV.CStore

def csTakeN {α : Type} (f : List String → Option (α × List String)) : Nat → List String → Option (List α × List String)
  | 0, toks => some ([], toks)
  | n + 1, toks => do
    let (x, rest) ← f toks
    let (xs, rest) ← csTakeN f n rest
    pure (x :: xs, rest)

def csParseED : List String → Option (ElectionData × List String)
  | np :: rest => do
    let np ← np.toNat?
    let (ps, rest) ← csTakeN (fun t => match t with
      | p :: r => (ofHex p).map (fun b => (b, r))
      | [] => none) np rest
    match rest with
    | nd :: rest => do
      let nd ← nd.toNat?
      let (ds, rest) ← csTakeN (fun t => match t with
        | n :: a :: w :: r => do
          pure (({ name := ← ofHex n, producing := ← ofHex a, weight := ← w.toNat? } : Delegation), r)
        | _ => none) nd rest
      pure ({ producers := ps, delegations := ds }, rest)
    | [] => none
  | [] => none

def csParsePoint : List String → Option (Point × List String)
  | prev :: en :: tot :: n :: rest => do
    let n ← n.toNat?
    let (es, rest) ← csTakeN (fun t => match t with
      | nm :: e :: f :: w :: r => do
        pure ((← ofHex nm, ({ expected := ← e.toNat?, factual := ← f.toNat?, weight := ← w.toNat? } : Detail)), r)
      | _ => none) n rest
    pure ({ prevHash := ← ofHex prev, endHash := ← ofHex en, pillars := es, totalWeight := ← tot.toNat? }, rest)
  | _ => none

def csShowED (e : ElectionData) : String :=
  s!"p={e.producers.length}/{e.producers.eraseDups.length} d={e.delegations.length} [" ++ ",".intercalate (e.producers.map showHex) ++ "] [" ++
    ",".intercalate (e.delegations.map (fun d => s!"{showHex d.name}/{showHex d.producing}/{d.weight}")) ++ "]"

def csShowPoint (p : Point) : String :=
  let c := p.canon
  s!"n={c.pillars.length} total={c.totalWeight} prev={showHex c.prevHash} end={showHex c.endHash} [" ++
    ",".intercalate (c.pillars.map (fun e => s!"{showHex e.1}/{e.2.expected}/{e.2.factual}/{e.2.weight}")) ++ "]"

def csShowAnswer {α : Type} (sh : α → String) : Option (Option α) → String
  | none => "error"
  | some none => "nil"
  | some (some v) => sh v

def csFirstDiff : Bytes → Bytes → Nat → Option Nat
  | [], [], _ => none
  | a :: as, b :: bs, i => if a = b then csFirstDiff as bs (i + 1) else some i
  | _, _, i => some i

/-- `ok`, or where the model's bytes and the real bytes part -/
def csCompareBytes (model real : Bytes) : String :=
  match csFirstDiff model real 0 with
  | none => "ok"
  | some i => s!"differs@{i}:model={showHex ((model.drop i).take 24)},real={showHex ((real.drop i).take 24)},lengths={model.length}/{real.length}"

def pureConsStore : List String → Option String
  | "cs-ed-enc" :: rest => do
      let (e, left) ← csParseED rest
      match left with
      | [h] => pure (csCompareBytes (marshalED e) (← ofHex h))
      | _ => none
  | ["cs-ed-dec", h] => do
      let b ← ofHex h
      pure (match unmarshalED b with
        | none => "error"
        | some e => csShowED e)
  | "cs-pt-enc" :: rest => do
      let (p, left) ← csParsePoint rest
      match left with
      | [h] => do
        let b ← ofHex h
        pure (match unmarshalPoint b with
          | none => "error"
          | some q =>
            if q.canon ≠ p.canon then csShowPoint q
            else if marshalPoint q ≠ b then "reencode-differs"
            else "ok")
      | _ => none
  | ["cs-pt-dec", h] => do
      let b ← ofHex h
      pure (match unmarshalPoint b with
        | none => "error"
        | some p => csShowPoint p)
  | ["cs-key", "point", i, t] => do pure (showHex (pointKey (← i.toNat?) (← t.toNat?)))
  | ["cs-key", "election", h] => do pure (showHex (electionKey (← ofHex h)))
  | _ => none

/-- the backing map shared by all instances, and per instance its caches -/
structure CsDbSt where
  kv : KV := []
  insts : List (String × (Lru Bytes ElectionData × List (Lru Nat Point))) := []

def CsDbSt.store (st : CsDbSt) (inst : String) : Option Store :=
  (st.insts.lookup inst).map (fun c => { kv := st.kv, elect := c.1, points := c.2 })

def CsDbSt.put (st : CsDbSt) (inst : String) (s : Store) : CsDbSt :=
  { kv := s.kv, insts := (inst, (s.elect, s.points)) :: st.insts.filter (fun x => x.1 ≠ inst) }

def csDbStep (st : CsDbSt) : List String → Option (CsDbSt × String)
  | ["cs-db", "open", inst, ecap, pcap] => do
      pure (st.put inst (Store.openOn st.kv (← ecap.toNat?) (← pcap.toNat?)), "ok")
  | "cs-db" :: "store-ed" :: inst :: h :: rest => do
      let s ← st.store inst
      let (e, left) ← csParseED rest
      if left ≠ [] then none else pure (st.put inst (storeElection s (← ofHex h) e), "ok")
  | ["cs-db", "get-ed", inst, h] => do
      let s ← st.store inst
      match getElection s (← ofHex h) with
      | none => pure (st, "error")
      | some (s', r) => pure (st.put inst s', csShowAnswer csShowED (some r))
  | ["cs-db", "raw-ed", h, real] => do
      let real ← ofHex real
      pure (st, match kvGet st.kv (electionKey (← ofHex h)) with
        | none => "nil"
        | some b => csCompareBytes b real)
  | "cs-db" :: "store-pt" :: inst :: i :: t :: rest => do
      let s ← st.store inst
      let (p, left) ← csParsePoint rest
      if left ≠ [] then none
      else match storePoint s (← i.toNat?) (← t.toNat?) p with
        | none => pure (st, "panic")
        | some s' => pure (st.put inst s', "ok")
  | ["cs-db", "get-pt", inst, i, t] => do
      let s ← st.store inst
      match getPoint s (← i.toNat?) (← t.toNat?) with
      | none => pure (st, "error")
      | some (s', r) => pure (st.put inst s', csShowAnswer csShowPoint (some r))
  | ["cs-db", "del-pt", inst, i, t] => do
      let s ← st.store inst
      match deletePoint s (← i.toNat?) (← t.toNat?) with
      | none => pure (st, "panic")
      | some s' => pure (st.put inst s', "ok")
  | _ => none

end ZV.Driver
