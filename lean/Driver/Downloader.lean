import ZenonVerif.Model.Downloader
import Driver.Core
/-
Driver handler for the downloader traces of the `p2p-net` stream (C15, harness/cmd/zvh/s_p2p_dl.go): every scenario's
events are replayed through `Dl.step Cfg.fixed`, the model of the code as it is meant to be.

  dl-ev <scenario> <token> …                                            (no observation)
  dl-end <scenario> <target> <judged,…> <exact|hashes-only> <saw> | dropped=<P,…|-> synced=<bool|na> stalled=<bool>
                                    (<saw> = <dropped>/<synced>/<stalled> as observed: chooses among the orders of registration, see below)
  p2p-sync <scenario> | ok          p2p-net-survived | ok               (monitor verdicts of the stream: echoed)

Tokens: init:<K>  t:<ticks>  reg:<P>  dc:<P>  dcx:<P>  lv:<P>  sync:<P>:<head>  hp:<P>:<k|u|w><p|s|f|x>:<ids>  bq:<P>:<ids>  bp:<P>:<id>:<hwv>,…
(ids: comma separated numbers and ranges a-b in either direction, `-` = none).

How a token becomes events:
  t:<n>      for every tick since the last one: `tick`, `update []` (no update while the model knows of no peer: `dlTick`)
  reg        `register`
  dc         `update []` (the node dropped a judged peer: what made it do so happened before; the model decides by itself)
  dcx        `update []`, `unregister` (a peer that is not judged: the model is told)
  lv         `unregister` (the peer left by itself - disconnect message, connection closed or reset, protocol error; not judged)
  sync       `sync p head` — when the model still holds a run (a head probe proves the node was not busy) preceded by up to 10
             × (`tick`, `update []`) while it runs, then `cancel`
  hp         `hashes p ⟨ids, q⟩`
  bq         `update [(p, ids)]` — preceded by `requeue q` for every other peer q the model still holds one of the hashes in
             flight at, and by `requeue p`, `blocks p []` when the model holds p busy (the slack described in s_p2p_dl.go)
  bp         `blocks p items`, `imp`; an empty pack is no event (handler.go: `len(blocks) > 0`)
The answer of `dl-end` is computed from the model alone: the judged peers among the drops the model decided, `head ≥ target`
(`na` for a scenario replayed on the hash level only), `stuck`; a hash time-out at most 10 ticks away is let fire first.
-/
namespace ZV.Driver
open ZV ZV.Dl

structure DlSt where
  st : State := {}
  names : List String := []
  clock : Nat := 0
  drops : List Drop := []


def dlPeer (d : DlSt) (name : String) : DlSt × Nat :=
  match d.names.idxOf? name with
  | some i => (d, i + 1)
  | none => ({ d with names := d.names ++ [name] }, d.names.length + 1)

def dlRun (d : DlSt) (es : List Event) : DlSt :=
  let (s, dr) := exec .fixed d.st es
  { d with st := s, drops := d.drops ++ dr }

/-- `5`, `40-7`, `7-9` -/
def parseRange? (s : String) : Option (List Nat) :=
  match s.splitOn "-" with
  | [a] => a.toNat?.map (fun n => [n])
  | [a, b] => do
      let a ← a.toNat?
      let b ← b.toNat?
      if a ≤ b then pure (List.range' a (b - a + 1)) else pure ((List.range' b (a - b + 1)).reverse)
  | _ => none

def parseIds? (s : String) : Option (List Nat) :=
  if s = "-" then some []
  else (s.splitOn ",").foldlM (fun acc r => (parseRange? r).map (fun l => acc ++ l)) []

def parseBit? : Char → Option Bool
  | '1' => some true
  | '0' => some false
  | _ => none

def parseItem? (s : String) : Option Item :=
  match s.splitOn ":" with
  | [id, fl] => do
      let id ← id.toNat?
      match fl.toList with
      | [h, w, v] => do
          let h ← parseBit? h
          let w ← parseBit? w
          let v ← parseBit? v
          pure ⟨id, h, w, v⟩
      | _ => none
  | _ => none

def parseQ? : String → Option Q
  | "k" => some .known
  | "u" => some .unknown
  | "w" => some .wrong
  | _ => none

/-- the peers other than `p` the model holds one of `ids` in flight at -/
def holders (s : State) (p : Nat) (ids : List Nat) : List Nat :=
  (s.inflight.filter (fun q => q.peer != p && q.ids.any ids.contains)).map (·.peer)

/-- slack of the clock: records are written when the scripted peer's goroutine gets to run, up to a second late -/
def dlSlackTicks : Nat := 10

/-- one tick, and the update the ticker triggers. While the model knows of no peer the update is left out: its only effect
    would be errNoPeers, and whether the node saw "no peers" when one peer is dropped while another registers is not ours to
    tell (if it did, its next head probe says so) -/
def dlTick (d : DlSt) : DlSt :=
  dlRun d (if d.st.peers.isEmpty then [.tick] else [.tick, .update []])

def dlTicks (d : DlSt) : Nat → DlSt
  | 0 => d
  | n + 1 => dlTicks (dlTick d) n

/-- let up to `n` ticks pass while the model holds a run (the clock keeps them: later `t:` tokens pass fewer) -/
def dlSlack (d : DlSt) : Nat → DlSt
  | 0 => d
  | n + 1 => if d.st.run.isSome then dlSlack { dlTick d with clock := d.clock + 1 } n else d

def dlToken (d : DlSt) (tok : String) : Option DlSt :=
  match tok.splitOn ":" with
  | ["end"] => pure d
  | ["init", k] => do
      let k ← k.toNat?
      pure { st := { head := k }, names := [], clock := d.clock, drops := [] }
  | ["t", n] => do
      let n ← n.toNat?
      let k := n - d.clock
      pure { dlTicks d k with clock := max n d.clock }
  | ["reg", p] =>
      let (d, i) := dlPeer d p
      pure (dlRun d [.register i])
  | ["dc", _] =>
      -- the node dropped a judged peer: whatever made it do so happened before; the model gets an update and has to decide by itself
      pure (if d.st.peers.isEmpty then d else dlRun d [.update []])
  | ["dcx", p] =>
      let (d, i) := dlPeer d p
      -- the node dropped a peer that is not judged: the model is told
      pure (dlRun d [.update [], .unregister i])
  | ["lv", p] =>
      let (d, i) := dlPeer d p
      -- the peer left by itself: UnregisterPeer. What the node had asked it for stays in flight (until the time-out of the hash
      -- request fires / `queue.Expire` hands the block request back)
      pure (dlRun d [.unregister i])
  | ["sync", p, h] => do
      let h ← h.toNat?
      let (d, i) := dlPeer d p
      -- a head probe means the node was not synchronising: a run the model still holds has ended — by itself within the slack
      -- (the record of its start was late), or without a drop
      let d := dlSlack d dlSlackTicks
      pure (dlRun d ((if d.st.run.isSome then [Event.cancel] else []) ++ [.sync i h]))
  | ["hp", p, q, ids] => do
      let q ← parseQ? (String.ofList (q.toList.take 1))
      let ids ← parseIds? ids
      let (d, i) := dlPeer d p
      pure (dlRun d [.hashes i ⟨ids, q⟩])
  | ["bq", p, ids] => do
      let ids ← parseIds? ids
      let (d, i) := dlPeer d p
      let pre := (holders d.st i ids).map Event.requeue
      let busy := registered d.st i && !isIdle d.st i
      let pre := pre ++ (if busy then [Event.requeue i, Event.blocks i []] else [])
      pure (dlRun d (pre ++ [.update [(i, ids)]]))
  | "bp" :: p :: rest =>
      let items := ":".intercalate rest
      let (d, i) := dlPeer d p
      if items = "-" then pure d
      else do
        let its ← (items.splitOn ",").mapM parseItem?
        pure (dlRun d [.blocks i its, .imp])
  | _ => none

/-! ### the orders a peer-side observer cannot tell apart

When the node registers a peer is not visible on the wire: the record `reg:P` is written when the scripted peer has sent its
status message — the node registers it a little later, and the record itself may be late. Whether P counts when the node finds
"nobody left to ask" / "no peers" at that moment is therefore open until the node's first action towards P (a block request,
a head probe). The replay is tried with the registrations as recorded, as late as possible (just before that first action) and
up to `dlSlackTicks` earlier; the observation is accepted when one of the three runs of the model yields it. -/

/-- tokens with the tick they happened at (the `t:` markers removed) -/
def dlTimed : Nat → List String → List (Nat × String)
  | now, [] => [(now, "end")]   -- (keeps the time at which the trace ends)
  | now, tok :: rest =>
    match tok.splitOn ":" with
    | ["t", n] => dlTimed (max now (n.toNat?.getD now)) rest
    | _ => (now, tok) :: dlTimed now rest

def dlUntimed : Nat → List (Nat × String) → List String
  | _, [] => []
  | now, (t, tok) :: rest => if t > now then s!"t:{t}" :: tok :: dlUntimed t rest else tok :: dlUntimed now rest

def isReg (tok : String) : Bool := tok.startsWith "reg:"

/-- the first action of the node towards the peer of `reg:P` -/
def firstActionOf (reg : String) (tok : String) : Bool :=
  let p := (reg.splitOn ":").getD 1 ""
  match tok.splitOn ":" with
  | "bq" :: q :: _ => q == p
  | "sync" :: q :: _ => q == p
  | _ => false

/-- every registration as late as the trace allows: just before the node's first action towards that peer (at the end of the
    trace if there is none) -/
def dlLazyRegs : List (Nat × String) → List (Nat × String)
  | [] => []
  | (t, tok) :: rest =>
    let rest := dlLazyRegs rest
    if isReg tok then
      match rest.span (fun x => !firstActionOf tok x.2) with
      | (before, (t', act) :: after) => before ++ (t', tok) :: (t', act) :: after
      | (before, []) =>
        let tEnd := (before.getLast?.map (·.1)).getD t
        before.dropLast ++ [(tEnd, tok)] ++ (before.getLast?.map (fun x => [x])).getD []
    else (t, tok) :: rest

def insertTimed (x : Nat × String) : List (Nat × String) → List (Nat × String)
  | [] => [x]
  | y :: rest => if x.1 ≤ y.1 && !(y.2.startsWith "init:") then x :: y :: rest else y :: insertTimed x rest

/-- every registration `dlSlackTicks` earlier (in front of what happened in the tick it lands in) -/
def dlEagerRegs (l : List (Nat × String)) : List (Nat × String) :=
  let regs := l.filter (fun x => isReg x.2)
  let others := l.filter (fun x => !isReg x.2)
  regs.reverse.foldl (fun acc (t, tok) => insertTimed (t - dlSlackTicks, tok) acc) others

structure DlOutcome where
  dropped : String
  synced : String
  stalled : String
  deriving BEq

def DlOutcome.show (o : DlOutcome) : String := s!"dropped={o.dropped} synced={o.synced} stalled={o.stalled}"

def insertSorted (x : String) : List String → List String
  | [] => [x]
  | y :: t => if x < y then x :: y :: t else y :: insertSorted x t

def sortStrings (l : List String) : List String := l.foldr insertSorted []

/-- replay one order of the tokens and read the three facts off the model -/
def dlOutcome (toks : List String) (target : Nat) (judged : List String) (mode : String) : Option DlOutcome := do
  let d ← toks.foldlM dlToken {}
  -- a hash time-out that is about to fire is let fire
  let near := match d.st.run with
    | some r => (match r.timer with | some t => decide (t ≤ dlSlackTicks) | none => false)
    | none => false
  let d := if near then dlSlack d dlSlackTicks else d
  let droppedIdx := d.drops.map (·.1)
  let dropped := judged.filter (fun nm => match d.names.idxOf? nm with
    | some i => droppedIdx.contains (i + 1)
    | none => false)
  let dropped := sortStrings dropped.eraseDups
  let ds := if dropped.isEmpty then "-" else ",".intercalate dropped
  let synced := if mode = "exact" then showBool (target > 0 && decide (d.st.head ≥ target)) else "na"
  pure ⟨ds, synced, showBool (stuck d.st)⟩

abbrev DlBuf := List (String × List String)

def dlStep (a : DlBuf) : List String → Option (DlBuf × String)
  | "dl-ev" :: scn :: toks =>
      let old := ((a.find? (·.1 == scn)).map (·.2)).getD []
      some ((scn, old ++ toks) :: a.filter (·.1 != scn), "ok")
  | ["dl-end", scn, target, judged, mode, saw] => do
      let target ← target.toNat?
      let toks := ((a.find? (·.1 == scn)).map (·.2)).getD []
      let judged := if judged = "-" then [] else judged.splitOn ","
      let timed := dlTimed 0 toks
      let o0 ← dlOutcome toks target judged mode
      let o1 ← dlOutcome (dlUntimed 0 (dlLazyRegs timed)) target judged mode
      let o2 ← dlOutcome (dlUntimed 0 (dlEagerRegs timed)) target judged mode
      -- `saw`: what the scenario observed (dropped/synced/stalled) — used ONLY to choose among the three orders
      let pick := match [o0, o1, o2].find? (fun o => s!"{o.dropped}/{o.synced}/{o.stalled}" == saw) with
        | some o => o
        | none => o0
      pure (a.filter (·.1 != scn), pick.show)
  | ["p2p-sync", _] => some (a, "ok")
  | ["p2p-net-survived"] => some (a, "ok")
  | _ => none

end ZV.Driver
