import ZenonVerif.Model.Downloader
import Driver.Core
/-
Driver handler for the downloader traces of the `p2p-net` stream (C15, harness/cmd/zvh/s_p2p_dl.go): every scenario's
events are replayed through `Dl.step Cfg.fixed`, the model of the code as it is meant to be.

  dl-ev <scenario> <token> …                                            (no observation)
  dl-end <scenario> <target> <judged,…> | dropped=<P,…|-> synced=<bool> stalled=<bool>
  p2p-sync <scenario> | ok          p2p-net-survived | ok               (monitor verdicts of the stream: echoed)

Tokens: init:<K>  t:<ticks>  reg:<P>  dc:<P>  sync:<P>:<head>  hp:<P>:<k|u|w>:<ids>  bq:<P>:<ids>  bp:<P>:<id>:<hwv>,…
(ids: comma separated numbers and ranges a-b in either direction, `-` = none).

How a token becomes events:
  t:<n>      for every tick since the last one: `tick`, `update []`
  reg / dc   `register` / `unregister`
  sync       `sync p head`
  hp         `hashes p ⟨ids, q⟩`, then `update []` (the block fetcher is woken through processCh)
  bq         `update [(p, ids)]` — preceded by `requeue q` for every other peer q the model still holds one of the hashes in
             flight at, and by `requeue p`, `blocks p []` when the model holds p busy (see the slack described in s_p2p_dl.go)
  bp         `blocks p items`, `imp`, `update []`; an empty pack is no event (handler.go: `len(blocks) > 0`)
The answer of `dl-end` is computed from the model alone: the judged peers among the drops the model decided, `head ≥ target`,
`stuck`.
-/
namespace ZV.Driver
open ZV ZV.Dl

structure DlSt where
  st : State := {}
  names : List String := []
  clock : Nat := 0
  drops : List Drop := []

abbrev DlAll := List (String × DlSt)

def dlPeer (d : DlSt) (name : String) : DlSt × Nat :=
  match d.names.idxOf? name with
  | some i => (d, i + 1)
  | none => ({ d with names := d.names ++ [name] }, d.names.length + 1)

def dlRun (d : DlSt) (es : List Event) : DlSt :=
  let (s, dr) := exec .fixed d.st es
  { d with st := s, drops := d.drops ++ dr }

/-- `5`, `40-7`, `7-9` -/
def parseRange? (s : String) : Option (List Nat) :=
  match s.splitOn "-" with
  | [a] => a.toNat?.map (fun n => [n])
  | [a, b] => do
      let a ← a.toNat?
      let b ← b.toNat?
      if a ≤ b then pure (List.range' a (b - a + 1)) else pure ((List.range' b (a - b + 1)).reverse)
  | _ => none

def parseIds? (s : String) : Option (List Nat) :=
  if s = "-" then some []
  else (s.splitOn ",").foldlM (fun acc r => (parseRange? r).map (fun l => acc ++ l)) []

def parseBit? : Char → Option Bool
  | '1' => some true
  | '0' => some false
  | _ => none

def parseItem? (s : String) : Option Item :=
  match s.splitOn ":" with
  | [id, fl] => do
      let id ← id.toNat?
      match fl.toList with
      | [h, w, v] => do
          let h ← parseBit? h
          let w ← parseBit? w
          let v ← parseBit? v
          pure ⟨id, h, w, v⟩
      | _ => none
  | _ => none

def parseQ? : String → Option Q
  | "k" => some .known
  | "u" => some .unknown
  | "w" => some .wrong
  | _ => none

/-- the peers other than `p` the model holds one of `ids` in flight at -/
def holders (s : State) (p : Nat) (ids : List Nat) : List Nat :=
  (s.inflight.filter (fun q => q.peer != p && q.ids.any ids.contains)).map (·.peer)

def dlToken (d : DlSt) (tok : String) : Option DlSt :=
  match tok.splitOn ":" with
  | ["init", k] => do
      let k ← k.toNat?
      pure { st := { head := k }, names := [], clock := d.clock, drops := [] }
  | ["t", n] => do
      let n ← n.toNat?
      let k := n - d.clock
      pure { dlRun d ((List.replicate k [Event.tick, Event.update []]).flatten) with clock := max n d.clock }
  | ["reg", p] =>
      let (d, i) := dlPeer d p
      pure (dlRun d [.register i])
  | ["dc", p] =>
      let (d, i) := dlPeer d p
      -- the node dropped the peer: whatever made it do so happened before; the model gets its update before the peer is gone
      pure (dlRun d [.update [], .unregister i])
  | ["sync", p, h] => do
      let h ← h.toNat?
      let (d, i) := dlPeer d p
      -- a head probe means the node was not synchronising: a run the model still holds has ended without a drop
      pure (dlRun d ((if d.st.run.isSome then [Event.cancel] else []) ++ [.sync i h]))
  | ["hp", p, q, ids] => do
      let q ← parseQ? q
      let ids ← parseIds? ids
      let (d, i) := dlPeer d p
      pure (dlRun d [.hashes i ⟨ids, q⟩])
  | ["bq", p, ids] => do
      let ids ← parseIds? ids
      let (d, i) := dlPeer d p
      let pre := (holders d.st i ids).map Event.requeue
      let busy := registered d.st i && !isIdle d.st i
      let pre := pre ++ (if busy then [Event.requeue i, Event.blocks i []] else [])
      pure (dlRun d (pre ++ [.update [(i, ids)]]))
  | "bp" :: p :: rest =>
      let items := ":".intercalate rest
      let (d, i) := dlPeer d p
      if items = "-" then pure d
      else do
        let its ← (items.splitOn ",").mapM parseItem?
        pure (dlRun d [.blocks i its, .imp])
  | _ => none

def dlLookup (a : DlAll) (scn : String) : DlSt := ((a.find? (·.1 == scn)).map (·.2)).getD {}

def dlSet (a : DlAll) (scn : String) (d : DlSt) : DlAll := (scn, d) :: a.filter (·.1 != scn)

def insertSorted (x : String) : List String → List String
  | [] => [x]
  | y :: t => if x < y then x :: y :: t else y :: insertSorted x t

def sortStrings (l : List String) : List String := l.foldr insertSorted []

def dlStep (a : DlAll) : List String → Option (DlAll × String)
  | "dl-ev" :: scn :: toks => do
      let d ← toks.foldlM dlToken (dlLookup a scn)
      pure (dlSet a scn d, "ok")
  | ["dl-end", scn, target, judged, mode] => do
      let target ← target.toNat?
      let d := dlLookup a scn
      let judged := if judged = "-" then [] else judged.splitOn ","
      let droppedIdx := d.drops.map (·.1)
      let dropped := judged.filter (fun nm => match d.names.idxOf? nm with
        | some i => droppedIdx.contains (i + 1)
        | none => false)
      let dropped := sortStrings dropped.eraseDups
      let ds := if dropped.isEmpty then "-" else ",".intercalate dropped
      let synced := if mode = "exact" then showBool (target > 0 && decide (d.st.head ≥ target)) else "na"
      pure (a.filter (·.1 != scn), s!"dropped={ds} synced={synced} stalled={showBool (stuck d.st)}")
  | ["p2p-sync", _] => some (a, "ok")
  | ["p2p-net-survived"] => some (a, "ok")
  | _ => none

end ZV.Driver
