import ZenonVerif.Model.LedgerNode
import Driver.Ledger
/-
Driver for the `ledger-node` stream: replays the operations of a real node (block into the pool at a pool height,
momentum with a chosen content, rollback, restart) through `Model/LedgerNode.lean` and answers the reads of the real
stores that follow every operation (balances confirmed / pool, received markers, pending sets, stored inbox counters,
pool contents).
-/
namespace ZV.Driver
open ZV.Ledger ZV.LedgerNode

structure LnSt where
  node : Node := Node.genesis ⟨State.init true, fun _ => SeqC.empty⟩
  names : Names := {}

def lnParseDescs (n : Names) : Nat → List String → Option (Names × List Desc)
  | 0, [] => some (n, [])
  | k + 1, dst :: tok :: a :: h :: rest => do
    let a ← a.toNat?
    let (n, dst) := n.addr dst
    let (n, tok) := n.tok tok
    let (n, h) := n.hash h
    let (n, r) ← lnParseDescs n k rest
    pure (n, ⟨dst, tok, a, h, .none⟩ :: r)
  | _, _ => none

def lnParseEv (n : Names) : List String → Option (Names × Ev)
  | ["usend", a, hash, dst, tok, v] => do
    let v ← v.toNat?
    let (n, a) := n.addr a
    let (n, dst) := n.addr dst
    let (n, tok) := n.tok tok
    let (n, hash) := n.hash hash
    pure (n, .usend a dst tok v hash .none)
  | ["urecv", a, from_] =>
    let (n, a) := n.addr a
    let (n, f) := n.hash from_
    some (n, .urecv a f)
  | "crecv" :: c :: from_ :: status :: k :: rest => do
    let status ← status.toNat?
    let k ← k.toNat?
    let (n, c) := n.addr c
    let (n, f) := n.hash from_
    let (n, ds) ← lnParseDescs n k rest
    pure (n, .crecv c f status ds)
  | _ => none

def lnParseContent (n : Names) : Nat → List String → Option (Names × List (Addr × Nat))
  | 0, [] => some (n, [])
  | k + 1, a :: c :: rest => do
    let c ← c.toNat?
    let (n, a) := n.addr a
    let (n, r) ← lnParseContent n k rest
    pure (n, (a, c) :: r)
  | _, _ => none

def showNErr : NErr → String
  | .notFresh => "model-error:hash-not-fresh"
  | .ledger _ => "refused"
  | .fromUnconfirmed => "refused"
  | .seqFront => "refused"
  | .badHeight => "model-error:no-such-pool-height"
  | .badContent => "model-error:content-exceeds-pool"

def hashList (n : Names) (sorted : Bool) (l : List Hash) : String :=
  let names := l.map (fun h => n.hashes.getD h "?")
  let names := if sorted then (names.toArray.qsort (· < ·)).toList else names
  if names.isEmpty then "-" else ",".intercalate names

def lnShape (n : Names) : Ev → String
  | .usend _ _ _ _ h _ => "s:" ++ n.hashes.getD h "?"
  | .urecv _ h => "r:" ++ n.hashes.getD h "?"
  | .crecv _ h _ _ => "c:" ++ n.hashes.getD h "?"

def lnStep (ls : LnSt) : List String → Option (LnSt × String)
  | ["LN-reset"] => some ({}, "")
  | ["LN-init-bal", a, t, v] => do
    let v ← v.toNat?
    let (n, a) := ls.names.addr a
    let (n, t) := n.tok t
    let g := ls.node.gen
    pure ({ node := Node.genesis ⟨{ g.led with bal := setBal g.led.bal a t v }, g.seq⟩, names := n }, "")
  | ["LN-init-tok", t, sup, mx, m, b, owner] => do
    let (n, t) := ls.names.tok t
    let (n, owner) := n.addr owner
    let g := ls.node.gen
    pure ({ node := Node.genesis ⟨{ g.led with toks := setTok g.led.toks t ⟨← sup.toNat?, ← mx.toNat?, ← parseBool m, ← parseBool b, owner⟩ }, g.seq⟩,
            names := n }, "")
  | "LN-put" :: k :: ev => do
    let k ← k.toNat?
    let (n, e) ← lnParseEv ls.names ev
    match ls.node.putBlock k e with
    | .ok nd => pure ({ node := nd, names := n }, "ok")
    | .error err => pure ({ ls with names := n }, showNErr err)
  -- a refusal for a reason outside this model (priority rule between competitors: C14): no effect
  | "LN-other" :: _ => some (ls, "refused-other")
  -- re-delivery of a block that is already pooled ("account-block is already inserted"): success, no effect
  | "LN-same" :: _ => some (ls, "ok")
  | "LN-mom" :: k :: rest => do
    let k ← k.toNat?
    let (n, content) ← lnParseContent ls.names k rest
    match ls.node.insertMomentum content with
    | .ok nd => pure ({ node := nd, names := n }, "ok")
    | .error err => pure ({ ls with names := n }, "model-refuses-momentum:" ++ showNErr err)
  | ["LN-rollback", h] => do
    let h ← h.toNat?
    pure ({ ls with node := ls.node.rollbackTo h }, "ok")
  | ["LN-restart"] => some ({ ls with node := ls.node.restart }, "ok")
  | ["LN-height"] => some (ls, toString ls.node.chain.length)
  | ["LN-bal", a, t] =>
    let (n, a) := ls.names.addr a
    let (n, t) := n.tok t
    some ({ ls with names := n }, toString (getBal ls.node.frontier.led.bal a t))
  | ["LN-pbal", a, t] =>
    let (n, a) := ls.names.addr a
    let (n, t) := n.tok t
    some ({ ls with names := n }, toString (getBal ls.node.poolView.led.bal a t))
  | ["LN-recv", a] =>
    let (n, a) := ls.names.addr a
    some ({ ls with names := n }, hashList n true ((ls.node.frontier.led.recv.filter (fun m => m.1 == a)).map (·.2)))
  | ["LN-pend", a] =>
    let (n, a) := ls.names.addr a
    some ({ ls with names := n }, hashList n true ((ls.node.frontier.led.unreceived.filter (fun x => x.dst == a)).map (·.hash)))
  | ["LN-seq", c] =>
    let (n, c) := ls.names.addr c
    let q := ls.node.frontier.seq c
    some ({ ls with names := n }, s!"{q.back} {q.front} {hashList n false (q.entries.drop q.front)}")
  | ["LN-pseq", c] =>
    let (n, c) := ls.names.addr c
    some ({ ls with names := n }, toString (ls.node.poolView.seq c).front)
  | ["LN-pool", a] =>
    let (n, a) := ls.names.addr a
    let l := (getPool ls.node.pool a).map (lnShape n)
    some ({ ls with names := n }, if l.isEmpty then "-" else ",".intercalate l)
  | _ => none

def ledgerNodeObj : Obj := mkObj ({} : LnSt) lnStep

end ZV.Driver
