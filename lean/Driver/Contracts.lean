import ZenonVerif.Model.Contracts
import ZenonVerif.Model.ContractsJoint
import Driver.Core
import Driver.Ledger
/-
Driver for the `contract` stream (C10): replays every contract receive of the modelled contracts through the
state machines of Model/Contracts.lean (predicting status and descendant sends) and answers the storage / balance
queries that follow each momentum.
-/
namespace ZV.Driver
open ZV.Contracts

structure KSt where
  names : Names := {}
  P : Params := Params.production
  plasma : Plasma := {}
  stake : Stake := {}
  htlc : Htlc := {}
  pillar : Pillar := {}
  sentinel : Sentinel := {}
  liquidity : Liquidity := {}
  bridge : Bridge := {}
  bals : List (String × Bal) := []       -- per contract

def KSt.bal (s : KSt) (c : String) : Bal := (lookup c s.bals).getD []
def KSt.setBal (s : KSt) (c : String) (b : Bal) : KSt := { s with bals := put c b s.bals }

def Names.tokName (n : Names) (t : Nat) : String := n.toks.getD t "?"

def showCall (n : Names) : PayCall → String
  | .none => "-"
  | .burn => "burn"
  | .mint t a to => s!"mint:{n.tokName t}:{a}:{n.addrName to}"

def showPayouts (n : Names) (ps : List Payout) : String :=
  String.join (ps.map fun p => s!" {n.addrName p.dst} {n.tokName p.tok} {p.amt} {showCall n p.call}")

def showResult {σ : Type} (n : Names) (r : Result σ) : String :=
  s!"{r.status} {r.descs.length}{showPayouts n r.descs}"

def setParam (P : Params) (k : String) (v : Int) : Option Params :=
  match k with
  | "fuseMinAmount" => some { P with fuseMinAmount := v.toNat }
  | "costPerFusionUnit" => some { P with costPerFusionUnit := v.toNat }
  | "fuseExpiration" => some { P with fuseExpiration := v.toNat }
  | "stakeMinAmount" => some { P with stakeMinAmount := v.toNat }
  | "stakeTimeUnit" => some { P with stakeTimeUnit := v }
  | "stakeTimeMin" => some { P with stakeTimeMin := v }
  | "stakeTimeMax" => some { P with stakeTimeMax := v }
  | "pillarStakeAmount" => some { P with pillarStakeAmount := v.toNat }
  | "pillarQsrBase" => some { P with pillarQsrBase := v.toNat }
  | "pillarQsrIncrease" => some { P with pillarQsrIncrease := v.toNat }
  | "pillarLock" => some { P with pillarLock := v }
  | "pillarRevoke" => some { P with pillarRevoke := v }
  | "sentinelZnn" => some { P with sentinelZnn := v.toNat }
  | "sentinelQsr" => some { P with sentinelQsr := v.toNat }
  | "sentinelLock" => some { P with sentinelLock := v }
  | "sentinelRevoke" => some { P with sentinelRevoke := v }
  | _ => none

/-- the common head of K-call / K-opaque: contract method sender token amount hash ackHeight ackTime -/
structure Head where
  contract : String
  method : String
  ctx : Ctx

def parseHead (n : Names) : List String → Option (Names × Head × List String)
  | contract :: method :: sender :: tok :: amount :: hash :: ackH :: ackT :: rest => do
    let (n, sender) := n.addr sender
    let (n, tok) := n.tok tok
    let (n, hash) := n.hash hash
    pure (n, ⟨contract, method, ⟨← ackT.toInt?, ← ackH.toNat?, sender, ← amount.toNat?, tok, hash⟩⟩, rest)
  | _ => none

/-- observed outcome of an unmodelled method: status n (dst tok amt kind)* -/
def parseOutcome (n : Names) : List String → Option (Names × Nat × List Payout)
  | status :: k :: rest => do
    let rec go (n : Names) : Nat → List String → Option (Names × List Payout)
      | 0, [] => some (n, [])
      | k + 1, dst :: tok :: a :: kind :: rest => do
        let (n, dst) := n.addr dst
        let (n, tok) := n.tok tok
        let (n, r) ← go n k rest
        let (n, call) ← (match kind.splitOn ":" with
          | ["mint", t, m, to] => do
            let (n, t) := n.tok t
            let (n, to) := n.addr to
            pure (n, PayCall.mint t (← m.toNat?) to)
          | _ => pure (n, if kind == "burn" then PayCall.burn else PayCall.none) : Option (Names × PayCall))
        pure (n, ⟨dst, tok, ← a.toNat?, call⟩ :: r)
      | _, _ => none
    let (n, ps) ← go n (← k.toNat?) rest
    pure (n, ← status.toNat?, ps)
  | _ => none

def runPlasma (s : KSt) (n : Names) (m : Method Plasma) (c : Ctx) : KSt × String :=
  let r := vmStep m s.plasma (s.bal "plasma") c
  ({ (s.setBal "plasma" r.bal) with plasma := r.st, names := n }, showResult n r)

def runStake (s : KSt) (n : Names) (m : Method Stake) (c : Ctx) : KSt × String :=
  let r := vmStep m s.stake (s.bal "stake") c
  ({ (s.setBal "stake" r.bal) with stake := r.st, names := n }, showResult n r)

def runHtlc (s : KSt) (n : Names) (m : Method Htlc) (c : Ctx) : KSt × String :=
  let r := vmStep m s.htlc (s.bal "htlc") c
  ({ (s.setBal "htlc" r.bal) with htlc := r.st, names := n }, showResult n r)

def runPillar (s : KSt) (n : Names) (m : Method Pillar) (c : Ctx) : KSt × String :=
  let r := vmStep m s.pillar (s.bal "pillar") c
  ({ (s.setBal "pillar" r.bal) with pillar := r.st, names := n }, showResult n r)

def runSentinel (s : KSt) (n : Names) (m : Method Sentinel) (c : Ctx) : KSt × String :=
  let r := vmStep m s.sentinel (s.bal "sentinel") c
  ({ (s.setBal "sentinel" r.bal) with sentinel := r.st, names := n }, showResult n r)

def runLiquidity (s : KSt) (n : Names) (m : Method Liquidity) (c : Ctx) : KSt × String :=
  let r := vmStep m s.liquidity (s.bal "liquidity") c
  ({ (s.setBal "liquidity" r.bal) with liquidity := r.st, names := n }, showResult n r)

def runBridge (s : KSt) (n : Names) (m : Method Bridge) (c : Ctx) : KSt × String :=
  let r := vmStep m s.bridge (s.bal "bridge") c
  ({ (s.setBal "bridge" r.bal) with bridge := r.st, names := n }, showResult n r)

def parsePair (n : Names) : List String → Option (Names × Option PairInfo)
  | ["none"] => some (n, none)
  | [t, r, o, d] => do
    let (n, t) := n.tok t
    pure (n, some ⟨t, ← parseBool r, ← parseBool o, ← d.toNat?⟩)
  | _ => none

def parseTuples (n : Names) : List String → Option (Names × List (Nat × Nat))
  | [] => some (n, [])
  | t :: m :: r => do
    let (n, t) := n.tok t
    let (n, rest) ← parseTuples n r
    pure (n, (t, ← m.toNat?) :: rest)
  | _ => none

/-- pillar names are interned in the same table as hashes, with a prefix that no hash has -/
def Names.pname (n : Names) (name : String) : Names × Nat := n.hash ("name:" ++ name)
def Names.pnameOf (n : Names) (i : Nat) : String := ((n.hashes.getD i "name:?").drop 5).toString

def hexVal (c : Char) : Option Nat :=
  if '0' ≤ c ∧ c ≤ '9' then some (c.toNat - '0'.toNat)
  else if 'a' ≤ c ∧ c ≤ 'f' then some (c.toNat - 'a'.toNat + 10)
  else none

/-- lower-case hex, "-" = empty -/
def parseHex (s : String) : Option Bytes :=
  if s = "-" then some []
  else
    let rec go : List Char → Option Bytes
      | [] => some []
      | a :: b :: r => do
        let x ← hexVal a
        let y ← hexVal b
        let t ← go r
        pure (UInt8.ofNat (16 * x + y) :: t)
      | _ => none
    go s.toList

def hexDigit (n : Nat) : Char := if n < 10 then Char.ofNat (n + 48) else Char.ofNat (n + 87)

def showHex (b : Bytes) : String :=
  if b.isEmpty then "-" else String.ofList (b.flatMap fun x => [hexDigit (x.toNat / 16), hexDigit (x.toNat % 16)])

def kCall (s : KSt) (n : Names) (h : Head) (args : List String) : Option (KSt × String) :=
  match h.contract, h.method, args with
  | "plasma", "Fuse", [b] =>
    let (n, b) := n.addr b
    some (runPlasma s n (fuse s.P b) h.ctx)
  | "plasma", "CancelFuse", [id] =>
    let (n, id) := n.hash id
    some (runPlasma s n (cancelFuse id) h.ctx)
  | "stake", "Stake", [d] => do
    some (runStake s n (stake s.P (← d.toInt?)) h.ctx)
  | "stake", "Cancel", [id] =>
    let (n, id) := n.hash id
    some (runStake s n (cancelStake id) h.ctx)
  | "htlc", "Create", [a, e, t, k, l] => do
    let (n, a) := n.addr a
    some (runHtlc s n (createHtlc a (← e.toInt?) (← t.toNat?) (← k.toNat?) (← parseHex l)) h.ctx)
  | "htlc", "Reclaim", [id] =>
    let (n, id) := n.hash id
    some (runHtlc s n (reclaimHtlc id) h.ctx)
  | "htlc", "Unlock", [id, pre, sha3, sha256] => do
    let (n, id) := n.hash id
    let sha3 ← parseHex sha3
    let sha256 ← parseHex sha256
    -- the digests of this preimage, computed by the real hash functions, instantiate the model's parameter
    let H : HashFn := fun ty _ => if ty = ZV.Gen.HashTypeSHA3 then sha3 else if ty = ZV.Gen.HashTypeSHA256 then sha256 else []
    some (runHtlc s n (unlockHtlc H id (← parseHex pre)) h.ctx)
  | "htlc", "DenyProxyUnlock", [] => some (runHtlc s n (setProxyUnlock false) h.ctx)
  | "htlc", "AllowProxyUnlock", [] => some (runHtlc s n (setProxyUnlock true) h.ctx)
  | "pillar", "DepositQsr", [] => some (runPillar s n pillarDeposit h.ctx)
  | "pillar", "WithdrawQsr", [] => some (runPillar s n pillarWithdraw h.ctx)
  | "pillar", "Undelegate", [] => some (runPillar s n undelegate h.ctx)
  | "pillar", "Register", [name, producer, reward, pb, pd, ok] => do
    let (n, name) := n.pname name
    let (n, producer) := n.addr producer
    let (n, reward) := n.addr reward
    some (runPillar s n (registerPillar s.P name producer reward (← pb.toNat?) (← pd.toNat?) (← parseBool ok)) h.ctx)
  | "pillar", "UpdatePillar", [name, producer, reward, pb, pd, ok] => do
    let (n, name) := n.pname name
    let (n, producer) := n.addr producer
    let (n, reward) := n.addr reward
    some (runPillar s n (updatePillar name producer reward (← pb.toNat?) (← pd.toNat?) (← parseBool ok)) h.ctx)
  | "pillar", "Revoke", [name, ok] => do
    let (n, name) := n.pname name
    some (runPillar s n (revokePillar s.P name (← parseBool ok)) h.ctx)
  | "pillar", "Delegate", [name, ok] => do
    let (n, name) := n.pname name
    some (runPillar s n (delegate name (← parseBool ok)) h.ctx)
  | "liquidity", "LiquidityStake", [d] => do
    some (runLiquidity s n (liquidityStake s.P (← d.toInt?)) h.ctx)
  | "liquidity", "CancelLiquidityStake", [id] =>
    let (n, id) := n.hash id
    some (runLiquidity s n (cancelLiquidityStake id) h.ctx)
  | "liquidity", "UnlockLiquidityStakeEntries", [adm] => do
    some (runLiquidity s n (unlockLiquidityStakeEntries (← parseBool adm)) h.ctx)
  | "liquidity", "BurnZnn", [a] => do
    some (runLiquidity s n (liquidityBurnZnn (← a.toNat?) true) h.ctx)
  | "bridge", "UnwrapToken", tx :: log :: to :: ta :: a :: canAct :: sigOk :: pair => do
    let (n, tx) := n.hash tx
    let (n, to) := n.addr to
    let (n, ta) := n.hash ("token:" ++ ta)
    let (n, pair) ← parsePair n pair
    some (runBridge s n (unwrapToken (← parseBool canAct) (← parseBool sigOk) pair tx (← log.toNat?) to ta (← a.toNat?)) h.ctx)
  | "bridge", "Redeem", tx :: log :: canAct :: pair => do
    let (n, tx) := n.hash tx
    let (n, pair) ← parsePair n pair
    some (runBridge s n (redeemUnwrap (← parseBool canAct) pair tx (← log.toNat?)) h.ctx)
  | "bridge", "RevokeUnwrapRequest", [tx, log, isAdmin] => do
    let (n, tx) := n.hash tx
    some (runBridge s n (revokeUnwrap (← parseBool isAdmin) tx (← log.toNat?)) h.ctx)
  | "sentinel", "DepositQsr", [] => some (runSentinel s n sentinelDeposit h.ctx)
  | "sentinel", "WithdrawQsr", [] => some (runSentinel s n sentinelWithdraw h.ctx)
  | "sentinel", "Register", [] => some (runSentinel s n (registerSentinel s.P) h.ctx)
  | "sentinel", "Revoke", [] => some (runSentinel s n (revokeSentinel s.P) h.ctx)
  | _, _, _ => none

/-- the observed outcome of a K-opaque receive judged by the models of Model/ContractsJoint.lean (`donate`,
    `rewardUpdate`, `stakeUpdate`, `liquidityUpdate`, `collectReward`: C09Effect.bookkeeping_effect) and, for every
    method, by the refused branch of `vmStep`: "" = agrees -/
def opaqueJudge (h : Head) (status : Nat) (ps : List Payout) : String :=
  let shape := fun (l : List Payout) => l.map fun p => (p.dst, p.tok, p.amt)
  let isMintTo := fun (p : Payout) (to : Option Addr) =>
    p.amt == 0 && (match p.call with | .mint _ a r => a > 0 && (to.isNone || to == some r) | _ => false)
  if status == 2 then
    if shape ps == shape (refundOf h.ctx) then "" else "refused-call-must-emit-exactly-the-refund"
  else if status != 1 then "status-is-neither-applied-nor-refused"
  else if !(["plasma", "stake", "htlc", "pillar", "sentinel", "liquidity"].contains h.contract) then ""
  else match h.method with
    | "Donate" => if ps.isEmpty then "" else "Donate-emits-nothing"
    | "CollectReward" =>
      if h.ctx.amount == 0 && !ps.isEmpty && ps.all (fun p => isMintTo p (some h.ctx.sender)) then ""
      else "CollectReward-emits-only-zero-amount-mints-to-the-caller"
    | "Update" =>
      if h.ctx.amount != 0 then "Update-carries-no-amount"
      else if h.contract == "liquidity" then
        (if ps.all (fun p => isMintTo p none && p.tok == zeroTok) then "" else "liquidity-Update-emits-only-zero-amount-mints")
      else if ps.isEmpty then "" else "reward-Update-emits-nothing"
    | _ => ""

/-- an unmodelled method (Update, CollectReward, ...): the observed outcome is an input; storage entries are left
    unchanged (the dumps that follow detect it if they were not), the balance moves by +amount −Σ descendants -/
def kOpaque (s : KSt) (n : Names) (h : Head) (ps : List Payout) : Option KSt :=
  let bal := s.bal h.contract
  let bal1 := bal.set h.ctx.token (bal.get h.ctx.token + h.ctx.amount)
  let bal2 := ps.foldl (fun b p => b.set p.tok (b.get p.tok - p.amt)) bal1
  some { (s.setBal h.contract bal2) with names := n }

def contractStep (s : KSt) : List String → Option (KSt × String)
  | ["K-reset"] => some ({}, "ok")
  | ["K-param", k, v] => do
    let P ← setParam s.P k (← v.toInt?)
    pure ({ s with P := P }, "ok")
  | ["K-init-bal", c, t, v] => do
    let (n, t) := s.names.tok t
    pure ({ (s.setBal c ((s.bal c).set t (← v.toNat?))) with names := n }, "ok")
  | ["K-init-fusion", owner, id, a, e, b] => do
    let (n, owner) := s.names.addr owner
    let (n, id) := n.hash id
    let (n, b) := n.addr b
    pure ({ s with names := n, plasma := { s.plasma with fusions := put (owner, id) ⟨← a.toNat?, ← e.toNat?, b⟩ s.plasma.fusions } }, "ok")
  | ["K-init-fused", b, a] => do
    let (n, b) := s.names.addr b
    pure ({ s with names := n, plasma := { s.plasma with fused := put b (← a.toNat?) s.plasma.fused } }, "ok")
  | ["K-init-pillar", name, stake, a, reg, rev, producer, reward, ty, pb, pd] => do
    let (n, name) := s.names.pname name
    let (n, stake) := n.addr stake
    let (n, producer) := n.addr producer
    let (n, reward) := n.addr reward
    let e : PillarE := ⟨stake, ← a.toNat?, ← reg.toInt?, ← rev.toInt?, producer, reward, ← ty.toNat?, ← pb.toNat?, ← pd.toNat?⟩
    pure ({ s with names := n, pillar := { s.pillar with pillars := put name e s.pillar.pillars, producing := put producer name s.pillar.producing } }, "ok")
  | ["K-init-deleg", backer, name] =>
    let (n, backer) := s.names.addr backer
    let (n, name) := n.pname name
    some ({ s with names := n, pillar := { s.pillar with delegations := put backer name s.pillar.delegations } }, "ok")
  | "K-liq-tuples" :: rest => do
    let (n, ts) ← parseTuples s.names rest
    pure ({ s with names := n, liquidity := { s.liquidity with tuples := ts } }, "ok")
  | "K-call" :: rest => do
    let (n, h, args) ← parseHead s.names rest
    kCall s n h args
  | "K-opaque" :: rest => do
    let (n, h, out) ← parseHead s.names rest
    let (n, status, ps) ← parseOutcome n out
    let verdict := opaqueJudge h status ps
    let s ← kOpaque s n h ps
    pure (s, if verdict.isEmpty then "ok" else "model:" ++ verdict)
  | ["K-mom", _, _] => some (s, "ok")
  | ["K-fusion", owner, id] =>
    let (n, owner) := s.names.addr owner
    let (n, id) := n.hash id
    match lookup (owner, id) s.plasma.fusions with
    | none => some ({ s with names := n }, "none")
    | some f => some ({ s with names := n }, s!"{f.amount} {f.expH} {n.addrName f.beneficiary}")
  | ["K-fused", b] =>
    let (n, b) := s.names.addr b
    match lookup b s.plasma.fused with
    | none => some ({ s with names := n }, "none")
    | some a => some ({ s with names := n }, toString a)
  | ["K-stake", owner, id] =>
    let (n, owner) := s.names.addr owner
    let (n, id) := n.hash id
    match lookup (owner, id) s.stake.entries with
    | none => some ({ s with names := n }, "none")
    | some e => some ({ s with names := n }, s!"{e.amount} {e.weighted} {e.start} {e.revoke} {e.expiration}")
  | ["K-htlc", id] =>
    let (n, id) := s.names.hash id
    match lookup id s.htlc.entries with
    | none => some ({ s with names := n }, "none")
    | some e => some ({ s with names := n },
        s!"{n.addrName e.timeLocked} {n.addrName e.hashLocked} {n.tokName e.tok} {e.amount} {e.expiration} {e.hashType} {e.keyMax} {showHex e.hashLock}")
  | ["K-proxy", a] =>
    let (n, a) := s.names.addr a
    match lookup a s.htlc.proxy with
    | none => some ({ s with names := n }, "none")
    | some v => some ({ s with names := n }, showBool v)
  | ["K-pillar", name] =>
    let (n, name) := s.names.pname name
    match lookup name s.pillar.pillars with
    | none => some ({ s with names := n }, "none")
    | some e => some ({ s with names := n },
        s!"{n.addrName e.stakeAddr} {e.amount} {e.regTime} {e.revokeTime} {n.addrName e.producer} {n.addrName e.reward} {e.ptype} {e.pctBlock} {e.pctDelegate}")
  | ["K-producing", a] =>
    let (n, a) := s.names.addr a
    match lookup a s.pillar.producing with
    | none => some ({ s with names := n }, "none")
    | some name => some ({ s with names := n }, n.pnameOf name)
  | ["K-deleg", a] =>
    let (n, a) := s.names.addr a
    match lookup a s.pillar.delegations with
    | none => some ({ s with names := n }, "none")
    | some name => some ({ s with names := n }, n.pnameOf name)
  | ["K-ndeleg"] => some (s, toString s.pillar.delegations.length)
  | ["K-qsr", c, a] =>
    let (n, a) := s.names.addr a
    let d := if c == "pillar" then s.pillar.deposits else s.sentinel.deposits
    match lookup a d with
    | none => some ({ s with names := n }, "none")
    | some v => some ({ s with names := n }, toString v)
  | ["K-sentinel", a] =>
    let (n, a) := s.names.addr a
    match lookup a s.sentinel.entries with
    | none => some ({ s with names := n }, "none")
    | some e => some ({ s with names := n }, s!"{e.regTime} {e.revokeTime} {e.znn} {e.qsr}")
  | ["K-digest", "pillar"] => some (s, s!"{s.pillar.pillars.length} {total (·.amount) s.pillar.pillars}")
  | ["K-digest", "qsr-pillar"] => some (s, s!"{s.pillar.deposits.length} {depositsTotal s.pillar.deposits}")
  | ["K-digest", "sentinel"] => some (s, s!"{s.sentinel.entries.length} {total (·.znn) s.sentinel.entries} {total (·.qsr) s.sentinel.entries}")
  | ["K-digest", "qsr-sentinel"] => some (s, s!"{s.sentinel.deposits.length} {depositsTotal s.sentinel.deposits}")
  | ["K-lstake", owner, id] =>
    let (n, owner) := s.names.addr owner
    let (n, id) := n.hash id
    match lookup (owner, id) s.liquidity.entries with
    | none => some ({ s with names := n }, "none")
    | some e => some ({ s with names := n }, s!"{e.amount} {n.tokName e.tok} {e.weighted} {e.start} {e.revoke} {e.expiration}")
  | ["K-digest", "liquidity"] => some (s, s!"{s.liquidity.entries.length} {total (·.amount) s.liquidity.entries}")
  | ["K-unwrap", tx, log] => do
    let (n, tx) := s.names.hash tx
    match lookup (tx, ← log.toNat?) s.bridge.requests with
    | none => some ({ s with names := n }, "none")
    | some r => some ({ s with names := n },
        s!"{r.regHeight} {n.addrName r.toAddr} {((n.hashes.getD r.tokenAddress "token:?").drop 6).toString} {n.tokName r.tok} {r.amount} {r.redeemed} {r.revoked}")
  | ["K-digest", "bridge"] =>
    some (s, s!"{s.bridge.requests.length} {(s.bridge.requests.filter (fun e => e.2.redeemed != 0)).length}")
  | ["K-digest", "htlc"] => some (s, s!"{s.htlc.entries.length} {s.htlc.proxy.length}")
  | ["K-stake-gc", owner, id] =>
    let (n, owner) := s.names.addr owner
    let (n, id) := n.hash id
    match s.stake.collect (owner, id) with
    | none => some ({ s with names := n }, "not-a-cancelled-entry")
    | some st => some ({ s with names := n, stake := st }, "ok")
  | ["K-lstake-gc", owner, id] =>
    let (n, owner) := s.names.addr owner
    let (n, id) := n.hash id
    match s.liquidity.collect (owner, id) with
    | none => some ({ s with names := n }, "not-a-cancelled-entry")
    | some st => some ({ s with names := n, liquidity := st }, "ok")
  | ["K-digest", "plasma"] =>
    some (s, s!"{s.plasma.fusions.length} {s.plasma.owed} {s.plasma.fused.length} {total id s.plasma.fused}")
  | ["K-digest", "stake"] => some (s, s!"{s.stake.entries.length} {s.stake.owed}")
  | ["K-bal", c, t] =>
    let (n, t) := s.names.tok t
    some ({ s with names := n }, toString ((s.bal c).get t))
  | _ => none

def contractObj : Obj := mkObj ({} : KSt) contractStep

end ZV.Driver
