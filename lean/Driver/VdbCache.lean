import ZenonVerif.Model.VersionedCache
import Driver.Vdb
import Std.Data.HashMap
/-
Driver for the `vdb-cache` stream: replays commit / stale commit / pop / open / evict through the CACHED manager model
`CLdb` (Model/VersionedCache.lean, configuration `Cfg.code` = what the AST of the working tree says), prints the content of
both cache levels in the canonical form of the harness, and answers reads of views that were handed out EARLIER through the
heap of the moment of the read (the overlay pointer is dereferenced now: in-place extensions by later `Get`s are seen).
-/
namespace ZV.Driver
open ZV ZV.Kv ZV.Versioned ZV.VersionedCache

structure VcSt where
  c : CLdb := {}
  named : List (String × CRoot) := []

def vcFind (l : List (String × CRoot)) (n : String) : Option CRoot :=
  match l with
  | [] => none
  | (m, r) :: t => if m = n then some r else vcFind t n

def vcShowId (i : Id) : String := toString i.height ++ ":" ++ toHex i.hash

def vcIdLe (a b : Id) : Bool :=
  if a.height ≠ b.height then a.height < b.height else !(bytesLt b.hash a.hash)

/-- FNV-1a (64 bit) over the entries: for each entry be32 |k|, be32 |v|, k, v (machine arithmetic; the same function as
    `fnvEntries`) -/
def vcFnv (es : Raw) : UInt64 :=
  let feed (h : UInt64) (b : Nat) : UInt64 := (h ^^^ b.toUInt64) * 1099511628211
  es.foldl (fun h e =>
    let h := (beBytes 4 e.1.length).foldl feed h
    let h := (beBytes 4 e.2.length).foldl feed h
    let h := e.1.foldl feed h
    e.2.foldl feed h) 14695981039346656037

/-- entries, user entries, FNV-1a over the user entries (raw values) — `vcDigest` of the harness -/
def vcDigest (raw : Raw) : String :=
  let us := raw.filter (fun e => isUserKey e.1)
  s!"{raw.length}:{us.length}:{(vcFnv us).toNat}"

/-- both levels sorted by identifier; objects are labelled in the order of their first appearance in that listing -/
def vcShowCache (c : CLdb) : String :=
  let l1 := c.l1.mergeSort (fun a b => vcIdLe a.id b.id)
  let l2 := c.l2.mergeSort (fun a b => vcIdLe a.id b.id)
  let heap := c.heap.toArray
  let labels : Std.HashMap Nat Nat :=
    (l1 ++ l2).foldl (fun (m : Std.HashMap Nat Nat) e => if m.contains e.obj then m else m.insert e.obj m.size) {}
  let ent (e : CEnt) : String :=
    vcShowId e.id ++ ">" ++ vcShowId e.tag ++ "@" ++ toString (labels.getD e.obj 0) ++ "#" ++
      vcDigest (heap.getD e.obj [])
  let lvl (l : List CEnt) : String := if l.isEmpty then "-" else ",".intercalate (l.map ent)
  "l1=" ++ lvl l1 ++ " l2=" ++ lvl l2

def vcStep (st : VcSt) : List String → Option (VcSt × String)
  | ["vc-reset"] => some ({}, "ok")
  | ["vc-add", prev, id, ops] => do
    let prev ← parseId prev
    let id ← parseId id
    let ops ← parseOps ops
    match st.c.add Cfg.code prev id ops with
    | none => pure (st, "err")
    | some c => pure ({ st with c := c }, "ok")
  | ["vc-pop"] =>
    match st.c.pop Cfg.code with
    | none => some (st, "err")
    | some c => some ({ st with c := c }, "ok")
  | ["vc-open", name, id] => do
    let id ← parseId id
    let g := st.c.get Cfg.code id
    match g.2 with
    | none => pure ({ st with c := g.1 }, "nil")
    | some r => pure ({ c := g.1, named := (name, r) :: st.named }, "ok")
  | ["vc-evict", lvl, id] => do
    let id ← parseId id
    if lvl = "l1" then pure ({ st with c := st.c.evict true id }, "ok")
    else if lvl = "l2" then pure ({ st with c := st.c.evict false id }, "ok")
    else none
  | ["vc-cache"] => some (st, vcShowCache st.c)
  | ["vc-get", name, k] => do
    let k ← ofHex k
    let r ← vcFind st.named name
    match (r.resolve st.c.heap).get k with
    | none => pure (st, "notfound")
    | some v => pure (st, "val:" ++ showHex v)
  | ["vc-has", name, k] => do
    let k ← ofHex k
    let r ← vcFind st.named name
    pure (st, showBool ((r.resolve st.c.heap).get k).isSome)
  | ["vc-scan", name, p] => do
    let p ← ofHex p
    let r ← vcFind st.named name
    pure (st, showEntries (edEntries ((r.resolve st.c.heap).rawScan p)))
  | _ => none

def vcObj : Obj := mkObj ({} : VcSt) vcStep

end ZV.Driver
