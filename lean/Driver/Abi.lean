import ZenonVerif.Model.Abi
import ZenonVerif.Model.Ledger
import Driver.Core
/-
Driver handlers of C09's `abi` and `autoreceive` streams.
  abi <abi> <method> <call data hex>                                  → the decoder model's answer (Model/Abi.lean `runCase`)
  ar-recv <contract.method> <sender> <token> <amount> <status> <same|changed> <n> (<to> <token> <amount>)*n
                                                                      → "ok" iff the observed receive is "applied, or exactly
                                                                        refunded with unchanged storage" (Ledger.refundOf);
                                                                        "applied" with a positive amount demands an effect:
                                                                        storage changed or a descendant sent (except Donate)
-/
namespace ZV.Driver
open ZV

def pureAbi : List String → Option String
  | ["abi", abi, method, hex] => do
      let (sel, tys) ← Abi.lookupSig abi method
      let input ← ofHex hex
      pure (Abi.runCase sel tys input)
  | _ => none

/-- (to, token, amount) triples of the descendant blocks -/
def parseArDescs : List String → Option (List (String × String × Nat))
  | [] => some []
  | a :: t :: n :: rest => do
      let n ← n.toNat?
      let r ← parseArDescs rest
      pure ((a, t, n) :: r)
  | _ => none

/-- The method kinds whose successful receive keeps an amount without writing contract storage: `Donate` of the common ABI
    (the credit of the amount is its whole effect). -/
def arKeepsAmountWithoutEffect (label : String) : Bool := label.endsWith ".Donate"

/-- The C09 sentence on one observed contract receive, with the refund shape of the ledger model (`Ledger.refundOf`:
    `[(sender, token, amount)]` when the amount is positive, `[]` otherwise). Names are compared as strings. A receive with
    status 1 that kept a positive amount must show an effect (storage changed or a descendant block), `Donate` excepted. -/
def pureArRecv : List String → Option String
  | "ar-recv" :: label :: sender :: tok :: amount :: status :: same :: n :: descs => do
      let amount ← amount.toNat?
      let status ← status.toNat?
      let n ← n.toNat?
      let ds ← parseArDescs descs
      if ds.length ≠ n then none
      else
        let refund : List (String × String × Nat) := if amount > 0 then [(sender, tok, amount)] else []
        let verdict :=
          if status = 1 then amount == 0 || same != "same" || n > 0 || arKeepsAmountWithoutEffect label
          else if status = 2 then ds == refund && same == "same"
          else false
        if same ≠ "same" ∧ same ≠ "changed" then none
        else pure (if verdict then "ok" else "violation")
  | _ => none

end ZV.Driver
