import ZenonVerif.Model.Pool
import Driver.Core
/-
Driver handlers for the C14 pure streams `prio` and `filter`.
-/
namespace ZV.Driver
open ZV ZV.Pool

def showPrio : Prio → String
  | .ok => "ok"
  | .ratioWorse => "ratio"
  | .hashTieBreak => "tie"

/-- a type string is a sequence of decimal digits, one per block; "-" = empty -/
def parseTypes (s : String) : Option (List Nat) :=
  if s = "-" then some []
  else s.toList.mapM (fun c => if '0' ≤ c ∧ c ≤ '9' then some (c.toNat - 48) else none)

def showTypes (ts : List Nat) : String :=
  if ts.isEmpty then "-" else String.ofList (ts.map (fun t => Char.ofNat (48 + t % 10)))

def purePool : List String → Option String
  | ["hp", ta, ba, ha, tb, bb, hb] => do
      let ta ← ta.toNat?
      let ba ← ba.toNat?
      let ha ← ofHex ha
      let tb ← tb.toNat?
      let bb ← bb.toNat?
      let hb ← ofHex hb
      if ta ≥ two64 ∨ ba ≥ two64 ∨ tb ≥ two64 ∨ bb ≥ two64 then none
      else
        let a : Blk := { height := 0, hash := ha, prevHash := [], total := ta, base := ba }
        let b : Blk := { height := 0, hash := hb, prevHash := [], total := tb, base := bb }
        pure (showPrio (higherPriority a b))
  | ["filter", ts] => do
      let ts ← parseTypes ts
      let r := filterBlocksToCommit ts
      pure s!"{r.length} {showTypes r}"
  | _ => none

end ZV.Driver
