import ZenonVerif.Model.Pool
import Driver.Core
/-
Driver handlers for the C14 pure streams `prio` and `filter`.
-/
namespace ZV.Driver
open ZV ZV.Pool

def showPrio : Prio → String
  | .ok => "ok"
  | .ratioWorse => "ratio"
  | .hashTieBreak => "tie"

/-- a type string is a sequence of decimal digits, one per block; "-" = empty -/
def parseTypes (s : String) : Option (List Nat) :=
  if s = "-" then some []
  else s.toList.mapM (fun c => if '0' ≤ c ∧ c ≤ '9' then some (c.toNat - 48) else none)

def showTypes (ts : List Nat) : String :=
  if ts.isEmpty then "-" else String.ofList (ts.map (fun t => Char.ofNat (48 + t % 10)))

def purePool : List String → Option String
  | ["hp", ta, ba, ha, tb, bb, hb] => do
      let ta ← ta.toNat?
      let ba ← ba.toNat?
      let ha ← ofHex ha
      let tb ← tb.toNat?
      let bb ← bb.toNat?
      let hb ← ofHex hb
      if ta ≥ two64 ∨ ba ≥ two64 ∨ tb ≥ two64 ∨ bb ≥ two64 then none
      else
        let a : Blk := { height := 0, hash := ha, prevHash := [], total := ta, base := ba }
        let b : Blk := { height := 0, hash := hb, prevHash := [], total := tb, base := bb }
        pure (showPrio (higherPriority a b))
  | ["filter", ts] => do
      let ts ← parseTypes ts
      let r := filterBlocksToCommit ts
      pure s!"{r.length} {showTypes r}"
  | _ => none

end ZV.Driver

namespace ZV.Driver
open ZV ZV.Pool

/-- 4-byte hash token (8 hex digits) padded with zeros to 32 bytes -/
def parseH4 (s : String) : Option Bytes := do
  let b ← ofHex s
  if b.length ≠ 4 then none else pure (b ++ List.replicate 28 0)

def showH4 (h : Bytes) : String := toHex (h.take 4)

def showAddRes : AddRes → String
  | .fastForward | .already | .replaced => "ok"
  | .olderThanStable => "older"
  | .missingPrevious | .previousMismatch => "noprev"
  | .ratioWorse => "ratio"
  | .hashTieBreak => "tie"
  | .cantPopStable => "cantpop"
  | .addFailed => "addfailed"
  | .nilDeref => "panic"

/-- what the harness reads after every operation: frontier identifier and the uncommitted blocks; reading creates the
    manager (`getAccountManager`) -/
def observePool (s : PState) : PState × String :=
  let m := s.manager
  let s' := { s with mgr := some m }
  let fid := m.frontierId
  match uncommittedBlocks s with
  | none => (s', "panic")
  | some bs =>
    let u := if bs.isEmpty then "-" else ",".intercalate (bs.map (fun b => showH4 b.hash))
    (s', s!"{fid.2}:{showH4 fid.1} {u}")

def parseBlocks3 : Nat → List String → Option (List Blk)
  | 0, [] => some []
  | 0, _ :: _ => none
  | n + 1, h :: hs :: pv :: rest => do
      let h ← h.toNat?
      let hs ← parseH4 hs
      let pv ← parseH4 pv
      let more ← parseBlocks3 n rest
      pure ({ height := h, hash := hs, prevHash := pv } :: more)
  | _, _ => none

def poolStep (s : PState) : List String → Option (PState × String)
  | ["pool-new"] => some (⟨[], none⟩, "")
  | ["pool-add", f, h, hs, pv, t, b] => do
      let f ← f.toNat?
      let h ← h.toNat?
      let hs ← parseH4 hs
      let pv ← parseH4 pv
      let t ← t.toNat?
      let b ← b.toNat?
      let blk : Blk := { height := h, hash := hs, prevHash := pv, total := t, base := b }
      let (s1, r) := addBlock s blk (f != 0)
      let (s2, o) := observePool s1
      pure (s2, s!"{showAddRes r} {o}")
  | "pool-insert" :: n :: rest => do
      let n ← n.toNat?
      let nb ← parseBlocks3 n rest
      let (s1, r) := insertMomentum s nb
      if r = .nilDeref then pure (s1, "panic") else
      let (s2, o) := observePool s1
      pure (s2, o)
  | ["pool-delete", k] => do
      let k ← k.toNat?
      let (s2, o) := observePool (deleteMomentum s k)
      pure (s2, o)
  | _ => none

end ZV.Driver
