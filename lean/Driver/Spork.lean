import ZenonVerif.Model.Spork
import Driver.Core
/-
Driver for the `spork` stream.
-/
namespace ZV.Driver
open ZV.Spork

structure SporkSt where
  st : SState := []
  ids : List String := []                    -- interned spork ids (hash prefixes)
  acc : Option Nat := none
  bridge : Option Nat := none
  htlc : Option Nat := none
  hist : Hist := []                          -- spork contract state as of each momentum height
  window : Nat × Nat := mainnetWindow        -- the community key's window in force in the real process (S-window)

def internId (s : SporkSt) (x : String) : SporkSt × Nat :=
  match s.ids.findIdx? (· == x) with
  | some i => (s, i)
  | none => ({ s with ids := s.ids ++ [x] }, s.ids.length)

def parseSender (s : String) : Option Sender :=
  if s = "sporkKey" then some .sporkKey else if s = "community" then some .community
  else if s = "other" then some .other else none

def stateAt (s : SporkSt) (h : Nat) : SState :=
  match histAt s.hist h with
  | some st => st
  | none => s.st

def remember (s : SporkSt) (h : Nat) : SporkSt :=
  if s.hist.any (·.1 = h) then s else { s with hist := (h, s.st) :: s.hist }

def activeOpt (st : SState) (h : Nat) : Option Nat → Bool
  | none => false
  | some id => isActive st h id

/-- insertion sort on strings (canonical order of the printed id list) -/
def insertStr (x : String) : List String → List String
  | [] => [x]
  | y :: ys => if x < y then x :: y :: ys else y :: insertStr x ys

def sortStrs (l : List String) : List String := l.foldr insertStr []

def sporkStep (s : SporkSt) : List String → Option (SporkSt × String)
  | ["S-reset"] => some ({}, "ok")
  | ["S-window", a, b] => do
    let a ← a.toNat?
    let b ← b.toNat?
    pure ({ s with window := (a, b) }, "ok")
  | ["S-bind", tag, id] =>
    let (s, i) := internId s id
    if tag = "acc" then some ({ s with acc := some i }, "ok")
    else if tag = "bridge" then some ({ s with bridge := some i }, "ok")
    else if tag = "htlc" then some ({ s with htlc := some i }, "ok")
    else none
  | ["S-genesis", id, act, enf] => do
    -- a spork of the genesis configuration (GenesisConfig.SporkConfig): part of the contract state of momentum 1
    let enf ← enf.toNat?
    let act ← (if act = "true" then some true else if act = "false" then some false else none)
    let (s, i) := internId s id
    pure ({ s with st := defineGenesis s.st i act enf }, "ok")
  | ["S-create", snd, fh, id] => do
    let snd ← parseSender snd
    let fh ← fh.toNat?
    let (s, i) := internId s id
    match createW s.window s.st snd fh i with
    | some st' => pure ({ s with st := st' }, "ok")
    | none => pure (s, "fail")
  | ["S-activate", snd, fh, id] => do
    let snd ← parseSender snd
    let fh ← fh.toNat?
    let (s, i) := internId s id
    match activateW s.window s.st snd fh i with
    | some st' => pure ({ s with st := st' }, "ok")
    | none => pure (s, "fail")
  | ["S-rollback", h] => do
    -- chain.RollbackTo down to the momentum of height h, which this node holds (its state was recorded by the
    -- S-unimpl line issued right after its insertion); a different continuation follows
    let h ← h.toNat?
    match rollbackTo s.hist h with
    | some (st, hist) => pure ({ s with st := st, hist := hist }, "ok")
    | none => pure (s, "no-snapshot")
  | ["S-active", h, id] => do
    let h ← h.toNat?
    let (s, i) := internId s id
    let s := remember s h
    pure (s, showBool (isActive (stateAt s h) h i))
  | ["S-unimpl", h, impl] => do
    let h ← h.toNat?
    let s := remember s h
    let names := if impl = "none" then [] else impl.splitOn ","
    let implIds := names.filterMap (fun n => s.ids.findIdx? (· == n))
    let un := unimplemented (stateAt s h) h implIds
    let out := sortStrs (un.map (fun sp => s.ids.getD sp.id "?"))
    pure (s, if out.isEmpty then "none" else ",".intercalate out)
  | ["S-avail", h, key] => do
    -- send-time availability for a block acknowledging the momentum of height h: decided by the REVIEWED gate table
    -- (Model/Spork.lean introducedBy / availableSpec), which Props/C17Table.lean tables_exact ties to the regenerated
    -- tables of the real GetEmbeddedMethod; a method the reviewed table does not know is a parse error (never a default)
    let h ← h.toNat?
    let st := stateAt s h
    let a ← availableSpec (activeOpt st h s.acc) (activeOpt st h s.bridge) (activeOpt st h s.htlc) key
    pure (s, showBool a)
  | ["S-exec", h, key, effect, designed] => do
    -- a contract receive acknowledging the momentum of height h answered a call of the method: `effect` = it changed the
    -- contract's storage or emitted a block other than the refund, `designed` = built to take effect when the feature is on
    let h ← h.toNat?
    let effect ← (if effect = "true" then some true else if effect = "false" then some false else none)
    let designed ← (if designed = "true" then some true else if designed = "false" then some false else none)
    let st := stateAt s h
    let v ← execVerdict (activeOpt st h s.acc) (activeOpt st h s.bridge) (activeOpt st h s.htlc) key effect designed
    pure (s, v)
  | ["S-halt-child"] => some (s, "exit=2 detected=true continued=false")
  | _ => none

def sporkObj : Obj := mkObj ({} : SporkSt) sporkStep

end ZV.Driver
