import ZenonVerif.Model.Fetcher
import Driver.Core
/-
Driver handler for the `fetcher` stream (C15 / C16, harness/cmd/zvh/s_fetcher.go): every line is one call of an exported entry
point of the REAL fetcher; the answer is the fetcher's bookkeeping after it settled. Replayed through `Fetcher.step code`:

  fe new <H0>                                           | ok
  fe notify <peer> <hash> <s|d|f>                       | <state>
  fe enqueue <peer> <hash> <height> <parent> <v><i><c>  | <state>
  fe deliver <hash> <height> <parent> <v><i><c>         | <state>
  fe leave <peer>                                       | <state>

Time classes: the model's clock stays 0; s = -10000 ms, d = -1000 ms, f = +3600000 ms.
Settling = what moves by itself: while an announcement is due, the timer case (`timer 0`); while an import goroutine is in
flight, it ends (`finish`), the new chain height being the script's rule (a canonical block on top of the chain raises it by one).
-/
namespace ZV.Driver
open ZV ZV.Fetcher

structure FeSt where
  st : St := {}
  canon : List Nat := []       -- hashes of canonical blocks
  nDrop : Nat := 0
  nImp : Nat := 0
  nBc : Nat := 0

def feDue (s : St) : Bool :=
  ((s.announced.map (·.hash)).eraseDups).any (fun h =>
    match s.announced.filter (fun a => a.hash == h) with
    | [] => false
    | a0 :: _ => decide (s.now - a0.time > (ZV.Gen.FeArriveTimeoutMs : Int) - (ZV.Gen.FeGatherSlackMs : Int)))

def feSettle (canon : List Nat) : Nat → St → St
  | 0, s => s
  | fuel + 1, s =>
    if feDue s then feSettle canon fuel (step code s (.timer 0))
    else match inflight s with
      | i :: _ =>
        let up := canon.contains i.blk.hash && i.blk.height == s.height + 1
        feSettle canon fuel (step code s (.finish i.blk.hash (if up then s.height + 1 else s.height)))
      | [] => s

def feCounts (f : Nat → Int) : String :=
  let xs := (List.range 7).filterMap (fun p => if f p = 0 then none else some s!"{p}:{f p}")
  if xs.isEmpty then "-" else ",".intercalate xs

def feSorted (xs : List String) : String :=
  if xs.isEmpty then "-" else ",".intercalate (xs.toArray.qsort (· < ·)).toList

def feShow (d : FeSt) : FeSt × String :=
  let s := d.st
  let drops := (s.dropped.take (s.dropped.length - d.nDrop)).map toString
  let imps := (s.handed.take (s.handed.length - d.nImp)).map (fun i => toString i.blk.hash)
  let bcs := (s.bcast.take (s.bcast.length - d.nBc)).map (fun (h, p) => s!"{h}:{if p then "t" else "f"}")
  let hashes := ((s.announced.map (·.hash)).eraseDups).length
  ({ d with nDrop := s.dropped.length, nImp := s.handed.length, nBc := s.bcast.length },
   s!"a={hashes}/{s.announced.length} f={s.fetching.length} q={s.queued.length}/{(waiting s).length} ca={feCounts s.announces} cq={feCounts s.queues} h={s.height} drop={feSorted drops} imp={feSorted imps} bc={feSorted bcs}")

def feFlags? (s : String) : Option (Bool × Bool × Bool) :=
  match s.toList with
  | [a, b, c] =>
    if [a, b, c].all (fun x => x = '0' || x = '1') then some (a = '1', b = '1', c = '1') else none
  | _ => none

def feBlk? (h height parent fl : String) : Option (Blk × Bool) := do
  let h ← h.toNat?
  let height ← height.toNat?
  let parent ← parent.toNat?
  let (v, i, c) ← feFlags? fl
  pure (⟨h, height, parent, v, i⟩, c)

def feApply (d : FeSt) (e : Ev) : FeSt × String :=
  feShow { d with st := feSettle d.canon 100000 (step code d.st e) }

def feStep (d : FeSt) : List String → Option (FeSt × String)
  | ["fe", "new", h0] => do
      let h0 ← h0.toNat?
      pure ({ st := { known := (List.range (h0 + 1)).map (· + 1000000), height := h0 } }, "ok")
  | ["fe", "notify", p, h, cls] => do
      let p ← p.toNat?
      let h ← h.toNat?
      let t : Int ← match cls with
        | "s" => some (-10000)
        | "d" => some (-1000)
        | "f" => some 3600000
        | _ => none
      pure (feApply d (.notify p h t))
  | ["fe", "enqueue", p, h, height, parent, fl] => do
      let p ← p.toNat?
      let (b, c) ← feBlk? h height parent fl
      let d := if c && !d.canon.contains b.hash then { d with canon := b.hash :: d.canon } else d
      pure (feApply d (.enqueue p b))
  | ["fe", "deliver", h, height, parent, fl] => do
      let (b, c) ← feBlk? h height parent fl
      let d := if c && !d.canon.contains b.hash then { d with canon := b.hash :: d.canon } else d
      pure (feApply d (.deliver [b]))
  | ["fe", "leave", p] => do
      let p ← p.toNat?
      pure (feApply d (.leave p))
  | _ => none

end ZV.Driver
