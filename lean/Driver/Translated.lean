import ZenonVerif.Gen.Translated
import ZenonVerif.Model.Pow
import ZenonVerif.Model.Rpc
import ZenonVerif.Model.Pool
import ZenonVerif.Model.Rewards
import ZenonVerif.Model.RewardEpoch
import Driver.Core
/-
Driver handler of the `translated` stream: every line carries the answer of the REAL Go function; the driver evaluates
BOTH the translated definition (Gen/Translated.lean, regenerated from the Go text) and the hand-written model and prints
the common answer — or both, when they disagree (the line then differs from the observation whatever the code said).
-/
namespace ZV.Driver
open ZV ZV.Gen

private def both (t m : String) : String := if t = m then t else s!"translated={t} model={m}"
private def bv64 (n : Nat) : BitVec 64 := BitVec.ofNat 64 n
private def i64 (i : Int) : BitVec 64 := BitVec.ofInt 64 i
private def errName : Option String → String
  | none => "ok" | some e => e
private def prioName : Pool.Prio → String
  | .ok => "ok" | .ratioWorse => "ErrPlasmaRatioIsWorse" | .hashTieBreak => "ErrHashTieBreak"
private def resStr {α : Type} (f : α → String) : Go.Res α → String
  | .ok a => f a | .panic => "panic" | .exit k => s!"exit{k}"

def pureTranslated : List String → Option String
  | ["tr-getrange", i, c, n] => do
      let i ← i.toNat?; let c ← c.toNat?; let n ← n.toNat?
      if i ≥ two32 ∨ c ≥ two32 ∨ n ≥ two32 then none
      let t := Translated.GetRange (BitVec.ofNat 32 i) (BitVec.ofNat 32 c) (BitVec.ofNat 32 n)
      let m := Rpc.getRange i c n
      pure (both s!"{t.1.toNat} {t.2.toNat}" s!"{m.1} {m.2}")
  | ["tr-prio", at_, ab, ah, bt, bb, bh] => do
      let at_ ← at_.toNat?; let ab ← ab.toNat?; let ah ← ofHex ah
      let bt ← bt.toNat?; let bb ← bb.toNat?; let bh ← ofHex bh
      if at_ ≥ two64 ∨ ab ≥ two64 ∨ bt ≥ two64 ∨ bb ≥ two64 then none
      let t := Translated.higherPriority (bv64 ab) ah (bv64 at_) (bv64 bb) bh (bv64 bt)
      let m := Pool.higherPriority { height := 1, hash := ah, prevHash := [], total := at_, base := ab }
                                   { height := 1, hash := bh, prevHash := [], total := bt, base := bb }
      pure (both (errName t) (prioName m))
  | ["tr-d2p", d] => do
      let d ← d.toNat?
      if d ≥ two64 then none
      pure (both (toString (Translated.DifficultyToPlasma (bv64 d)).toNat) (toString (Pow.difficultyToPlasma d)))
  | ["tr-p2d", p] => do
      let p ← p.toNat?
      if p ≥ two64 then none
      let t := Translated.GetDifficultyForPlasma (bv64 p)
      let ts := match t with | (v, none) => s!"{v.toNat}" | (_, some e) => e
      let ms := match Pow.difficultyForPlasma p with | some v => s!"{v}" | none => "ErrForbiddenParam"
      pure (both ts ms)
  | ["tr-fused", a] => do
      if a = "nil" then
        pure (resStr (fun (v : BitVec 64) => toString v.toNat) (Translated.FussedAmountToPlasma none))
      else
        let a ← a.toInt?
        pure (both (resStr (fun (v : BitVec 64) => toString v.toNat) (Translated.FussedAmountToPlasma (some a)))
                   (toString (Pow.fusedAmountToPlasma a)))
  | ["tr-target", d] => do
      let d ← d.toNat?
      if d ≥ two64 then none
      pure (both (resStr toHex (Translated.getTargetByDifficulty (bv64 d))) (toHex (Pow.targetBytes d)))
  | ["tr-wstake", revoke, start, w, s, e] => do
      let revoke ← revoke.toInt?; let start ← start.toInt?; let w ← w.toInt?; let s ← s.toInt?; let e ← e.toInt?
      pure (both (toString (Translated.getWeightedStake (i64 revoke) (i64 start) w (i64 s) (i64 e)))
                 (toString (Rewards.weightedStake start revoke w s e)))
  | ["tr-wsent", reg, revoke, s, e] => do
      let reg ← reg.toInt?; let revoke ← revoke.toInt?; let s ← s.toInt?; let e ← e.toInt?
      pure (both (toString (Translated.getWeightedSentinel (i64 reg) (i64 revoke) (i64 s) (i64 e)))
                 (toString (Rewards.weightedSentinel reg revoke s e)))
  | ["tr-wamount", a, t] => do
      let a ← a.toInt?; let t ← t.toInt?
      if a < 0 then none
      let m := match RewardEpoch.stakeWeightedAmount Gen.StakeTimeUnitSec a.toNat (i64 t).toInt with
        | none => "panic" | some v => toString v
      pure (both (resStr (fun (v : Int) => toString v) (Translated.getWeightedStakeAmount a (i64 t))) m)
  | ["tr-gd", x, y] => do
      let x ← ofHex x; let y ← ofHex y
      let t := resStr (fun (b : Bool) => toString b) (Translated.greaterDifficulty x y)
      let m := if x.length < 8 ∨ y.length < 8 then "panic" else toString (Pow.greaterDifficulty (x.take 8) (y.take 8))
      pure (both t m)
  | ["tr-netznn", e] => do
      let e ← e.toNat?
      if e ≥ two64 then none
      let m := match Rewards.networkZnnRewardPerEpoch e with | none => "panic" | some v => toString v
      pure (both (resStr (fun (v : BitVec 64) => toString v.toInt) (Translated.NetworkZnnRewardPerEpoch (bv64 e))) m)
  | ["tr-netqsr", e] => do
      let e ← e.toNat?
      if e ≥ two64 then none
      let m := match Rewards.networkQsrRewardPerEpoch e with | none => "panic" | some v => toString v
      pure (both (resStr (fun (v : BitVec 64) => toString v.toInt) (Translated.NetworkQsrRewardPerEpoch (bv64 e))) m)
  | ["tr-baseplasma", l] => do
      let l ← l.toNat?
      if l ≥ two63 then none
      let t := match Translated.basePlasma_plainSend (bv64 l) with | (v, none) => s!"{v.toNat}" | (_, some e) => e
      let m := match Pow.basePlasmaChecked false none l with | some v => s!"{v}" | none => "ErrABDataTooBig"
      pure (both t m)
  | ["tr-pageguard", name, sz] => do
      let sz ← sz.toNat?
      if sz ≥ two32 then none
      let g ← Translated.pageGuards.lookup name
      let t := match g (BitVec.ofNat 32 sz) with | .ok () => "passed" | _ => "toobig"
      -- hand model: the C18 cap (GetUnreceivedBlocksByAddress has its own, smaller bound and is not in the stream)
      let m := if sz > Gen.RpcMaxPageSize then "toobig" else "passed"
      pure (both t m)
  | ["tr-filter", ts] => do
      let cs := if ts = "-" then [] else ts.toList
      if cs.any (fun ch => !ch.isDigit) then none
      let tys : List Nat := cs.map (fun ch => ch.toNat - '0'.toNat)
      let t := resStr (fun (l : List (BitVec 64)) => toString l.length) (Translated.filterBlocksToCommit (tys.map bv64))
      pure (both t (toString (Pool.filterBlocksToCommit tys).length))
  | _ => none

end ZV.Driver
