import Driver.Core
import Driver.Pure
import Driver.Vdb
import Driver.Ledger
import Driver.Contracts
/-
One line per handler object. The first handler that understands a line answers it.
-/
namespace ZV.Driver

def registry : List Obj := [
  pureObj purePow,
  pureObj pureRpc,
  vdbObj,
  ledgerObj,
  contractObj
]

end ZV.Driver
