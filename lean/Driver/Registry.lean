import Driver.Core
import Driver.Pure
import Driver.Wallet
import Driver.Genesis
/-
One line per handler object. The first handler that understands a line answers it.
-/
namespace ZV.Driver

def registry : List Obj := [
  pureObj purePow,
  pureObj pureRpc,
  pureObj pureWallet,
  pureObj pureGenesis
]

end ZV.Driver
