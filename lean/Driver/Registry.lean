import Driver.Core
import Driver.Pure
import Driver.Codec
/-
One line per handler object. The first handler that understands a line answers it.
-/
namespace ZV.Driver

def registry : List Obj := [
  pureObj purePow,
  pureObj pureRpc,
  pureObj pureCodec
]

end ZV.Driver
