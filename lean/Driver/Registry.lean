import Driver.Core
import Driver.Pure
import Driver.Wallet
/-
One line per handler object. The first handler that understands a line answers it.
-/
namespace ZV.Driver

def registry : List Obj := [
  pureObj purePow,
  pureObj pureRpc,
  pureObj pureWallet
]

end ZV.Driver
