import Driver.Core
import Driver.Pure
import Driver.Vdb
/-
One line per handler object. The first handler that understands a line answers it.
-/
namespace ZV.Driver

def registry : List Obj := [
  pureObj purePow,
  pureObj pureRpc,
  vdbObj
]

end ZV.Driver
