import Driver.Core
import Driver.Pure
import Driver.Proto
import Driver.Sync
/-
One line per handler object. The first handler that understands a line answers it.
-/
namespace ZV.Driver

def registry : List Obj := [
  pureObj purePow,
  pureObj pureRpc,
  pureObj pureProto,
  mkObj ([] : SyncSt) syncStep
]

end ZV.Driver
