import Driver.Core
import Driver.Pure
import Driver.Vdb
import Driver.Ledger
import Driver.Spork
import Driver.Pool
import Driver.PoolMulti
import Driver.Rewards
import Driver.Consensus
import Driver.Codec
import Driver.CodecJson
import Driver.Wallet
import Driver.Genesis
import Driver.Verify
import Driver.Proto
import Driver.Sync
import Driver.Contracts
import Driver.RewardsNode
import Driver.RewardsEpoch
import Driver.Abi
import Driver.Journal
import Driver.JsonRpc
import Driver.NodeCache
import Driver.NodeSync
import Driver.NodeReorg
import Driver.ConsensusStore
import Driver.Downloader
import Driver.Fetcher
import Driver.Frame
import Driver.LedgerNode
import Driver.VdbCache
import Driver.Translated
import Driver.PeerDesc
import Driver.Accept
import Driver.CodecRlpTyped
/-
One line per handler object. The first handler that understands a line answers it.
-/
namespace ZV.Driver

def registry : List Obj := [
  pureObj purePow,
  pureObj pureTranslated,
  pureObj pureRpc,
  vdbObj,
  ledgerObj,
  sporkObj,
  pureObj purePool,
  pureObj pureRewards,
  pureObj purePoints,
  mkObj (⟨[], none⟩ : ZV.Pool.PState) poolStep,
  pureObj pureElection,
  pureObj pureTicker,
  pureObj pureBeforeTime,
  pureObj pureMverify,
  pureObj pureAddMomentum,
  pureObj pureCodec,
  pureObj pureCodecJson,
  pureObj pureWallet,
  walletSeqObj,
  pureObj pureGenesis,
  pureObj VerifyD.pureVerify,
  pureObj pureProto,
  mkObj ([] : SyncSt) syncStep,
  mkObj ({} : NsSt) nsStep,
  mkObj ({} : NrSt) nrStep,
  contractObj,
  rewardsNodeObj,
  pureObj pureRewardsEpoch,
  pureObj pureAbi,
  pureObj pureArRecv,
  mkObj ({} : JrSt) jrStep,
  pureObj pureJsonRpc,
  mkObj ([] : NcAll) ncStep,
  pureObj pureConsStore,
  mkObj ({} : CsDbSt) csDbStep,
  mkObj ([] : DlBuf) dlStep,
  mkObj ({} : FeSt) feStep,
  pureObj pureFrame,
  mkObj ({} : PmSt) pmStep,
  ledgerNodeObj,
  vcObj,
  pureObj purePeerDesc,
  pureObj pureAccept,
  pureObj pureRlpTyped
]

end ZV.Driver
