import Driver.Core
import Driver.Pure
import Driver.Consensus
/-
One line per handler object. The first handler that understands a line answers it.
-/
namespace ZV.Driver

def registry : List Obj := [
  pureObj purePow,
  pureObj pureRpc,
  pureObj pureElection,
  pureObj pureTicker,
  pureObj pureBeforeTime,
  pureObj pureMverify,
  pureObj pureAddMomentum
]

end ZV.Driver
