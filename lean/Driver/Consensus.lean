import ZenonVerif.Model.Consensus
import Driver.Core
/-
Driver handlers for the C05 streams (election, ticker, schedule, before-time, mverify).
-/
namespace ZV.Driver
open ZV ZV.Consensus

def parsePD (s : String) : Option PD :=
  match s.splitOn ":" with
  | [n, p, w] => do
      let n ← ofHex n
      let p ← ofHex p
      let w ← w.toInt?
      pure ⟨n, p, w⟩
  | _ => none

def parseCsv (s : String) : Option (List Nat) :=
  if s = "-" then some [] else (s.splitOn ",").mapM String.toNat?

/-- `P <seed> <n> <csv>` groups: the oracle values of Go's rand.Perm -/
def parsePerms : List String → Option (List (Int × Nat × List Nat))
  | [] => some []
  | "P" :: s :: n :: csv :: rest => do
      let s ← s.toInt?
      let n ← n.toNat?
      let l ← parseCsv csv
      let r ← parsePerms rest
      pure ((s, n, l) :: r)
  | _ => none

/-- the hypothesis on the oracle that the driver can check: a permutation of 0..n-1 -/
def isPermOfRange (l : List Nat) (n : Nat) : Bool :=
  l.length == n && (List.range n).all (fun i => l.contains i)

/-- oracle table as the model's `perm` parameter; a missing entry yields an out-of-range index (model panics,
    the line is reported) rather than a silent default -/
def permOf (tab : List (Int × Nat × List Nat)) (s : Int) (n : Nat) : List Nat :=
  match tab.find? (fun e => e.1 == s && e.2.1 == n) with
  | some e => e.2.2
  | none => [n + 1]

def showElected (l : List PD) : String :=
  if l.isEmpty then "-" else ",".intercalate (l.map fun d => showHex d.name ++ ":" ++ showHex d.producing)

def showOutcome : Outcome → String
  | .ok l => "ok " ++ showElected l
  | .hang => "hang"
  | .panic => "panic"

def pureElection : List String → Option String
  | "elect" :: nc :: rc :: h :: k :: rest => do
      let nc ← nc.toNat?
      let rc ← rc.toNat?
      let h ← h.toNat?
      let k ← k.toNat?
      if rest.length < k then none
      let ds ← (rest.take k).mapM parsePD
      let tab ← parsePerms (rest.drop k)
      if !(tab.all fun e => isPermOfRange e.2.2 e.2.1) then
        pure "oracle-not-a-permutation"
      else
        pure (showOutcome (selectProducers sortPD (permOf tab) nc rc ds h))
  | _ => none

def secNs (t : Int) : String := s!"{t / nsPerSec} {t % nsPerSec}"
def secDotNs (t : Int) : String := s!"{t / nsPerSec}.{t % nsPerSec}"

def parseAddrs (s : String) : Option (List Bytes) :=
  if s = "-" then some [] else (s.splitOn ",").mapM ofHex

def mkCtx (genesisSec blockTime : Int) (nodeCount : Nat) : Ctx := ⟨genesisSec * nsPerSec, blockTime, nodeCount⟩

def pureTicker : List String → Option String
  | ["to-tick", start, iv, t] => do
      let start ← start.toInt?
      let iv ← iv.toInt?
      let t ← t.toInt?
      let tk : Ticker := ⟨start * nsPerSec, wrap64 (iv * nsPerSec)⟩
      match tk.toTick (t * nsPerSec) with
      | none => pure "panic"
      | some k => pure (toString k)
  | ["to-time", start, iv, tick] => do
      let start ← start.toInt?
      let iv ← iv.toInt?
      let tick ← tick.toNat?
      let tk : Ticker := ⟨start * nsPerSec, wrap64 (iv * nsPerSec)⟩
      let (s, e) := tk.toTime tick
      pure s!"{secNs s} {secNs e}"
  | ["sched", g, bt, nc, tick, addrs] => do
      let g ← g.toInt?
      let bt ← bt.toInt?
      let nc ← nc.toNat?
      let tick ← tick.toNat?
      let addrs ← parseAddrs addrs
      let ev := generateProducers (mkCtx g bt nc) tick addrs
      let out := " ".intercalate (ev.map fun p => s!"{secDotNs p.startTime}:{secDotNs p.endTime}:{toHex p.producer}")
      pure s!"{ev.length} {out}"
  | ["proof-time", g, bt, nc, tick] => do
      let g ← g.toInt?
      let bt ← bt.toInt?
      let nc ← nc.toNat?
      let tick ← tick.toNat?
      pure (secNs (genProofTime (mkCtx g bt nc) tick))
  | _ => none

end ZV.Driver
