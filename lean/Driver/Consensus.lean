import ZenonVerif.Model.Consensus
import Driver.Core
/-
Driver handlers for the C05 streams (election, ticker, schedule, before-time, mverify).
-/
namespace ZV.Driver
open ZV ZV.Consensus

def parsePDC (s : String) : Option PD :=
  match s.splitOn ":" with
  | [n, p, w] => do
      let n ← ofHex n
      let p ← ofHex p
      let w ← w.toInt?
      pure ⟨n, p, w⟩
  | _ => none

def parseCsv (s : String) : Option (List Nat) :=
  if s = "-" then some [] else (s.splitOn ",").mapM String.toNat?

/-- `P <seed> <n> <csv>` groups: the oracle values of Go's rand.Perm -/
def parsePerms : List String → Option (List (Int × Nat × List Nat))
  | [] => some []
  | "P" :: s :: n :: csv :: rest => do
      let s ← s.toInt?
      let n ← n.toNat?
      let l ← parseCsv csv
      let r ← parsePerms rest
      pure ((s, n, l) :: r)
  | _ => none

/-- the hypothesis on the oracle that the driver can check: a permutation of 0..n-1 -/
def isPermOfRange (l : List Nat) (n : Nat) : Bool :=
  l.length == n && (List.range n).all (fun i => l.contains i)

/-- oracle table as the model's `perm` parameter; a missing entry yields an out-of-range index (model panics,
    the line is reported) rather than a silent default -/
def permOf (tab : List (Int × Nat × List Nat)) (s : Int) (n : Nat) : List Nat :=
  match tab.find? (fun e => e.1 == s && e.2.1 == n) with
  | some e => e.2.2
  | none => [n + 1]

def showElected (l : List PD) : String :=
  if l.isEmpty then "-" else ",".intercalate (l.map fun d => showHex d.name ++ ":" ++ showHex d.producing)

def showOutcome : Outcome → String
  | .ok l => "ok " ++ showElected l
  | .hang => "hang"
  | .panic => "panic"

def pureElection : List String → Option String
  | "elect" :: nc :: rc :: h :: k :: rest => do
      let nc ← nc.toNat?
      let rc ← rc.toNat?
      let h ← h.toNat?
      let k ← k.toNat?
      if rest.length < k then none
      let ds ← (rest.take k).mapM parsePDC
      let tab ← parsePerms (rest.drop k)
      if !(tab.all fun e => isPermOfRange e.2.2 e.2.1) then
        pure "oracle-not-a-permutation"
      else
        pure (showOutcome (selectProducers sortPD (permOf tab) nc rc ds h))
  | _ => none

def secNs (t : Int) : String := s!"{t / nsPerSec} {t % nsPerSec}"
def secDotNs (t : Int) : String := s!"{t / nsPerSec}.{t % nsPerSec}"

def parseAddrs (s : String) : Option (List Bytes) :=
  if s = "-" then some [] else (s.splitOn ",").mapM ofHex

def mkCtx (genesisSec blockTime : Int) (nodeCount : Nat) : Ctx := ⟨genesisSec * nsPerSec, blockTime, nodeCount⟩

def pureTicker : List String → Option String
  | ["to-tick", start, iv, t] => do
      let start ← start.toInt?
      let iv ← iv.toInt?
      let t ← t.toInt?
      let tk : Ticker := ⟨start * nsPerSec, wrap64 (iv * nsPerSec)⟩
      match tk.toTick (t * nsPerSec) with
      | none => pure "panic"
      | some k => pure (toString k)
  | ["to-time", start, iv, tick] => do
      let start ← start.toInt?
      let iv ← iv.toInt?
      let tick ← tick.toNat?
      let tk : Ticker := ⟨start * nsPerSec, wrap64 (iv * nsPerSec)⟩
      let (s, e) := tk.toTime tick
      pure s!"{secNs s} {secNs e}"
  | ["sched", g, bt, nc, tick, addrs] => do
      let g ← g.toInt?
      let bt ← bt.toInt?
      let nc ← nc.toNat?
      let tick ← tick.toNat?
      let addrs ← parseAddrs addrs
      let ev := generateProducers (mkCtx g bt nc) tick addrs
      let out := " ".intercalate (ev.map fun p => s!"{secDotNs p.startTime}:{secDotNs p.endTime}:{toHex p.producer}")
      pure s!"{ev.length} {out}"
  | ["proof-time", g, bt, nc, tick] => do
      let g ← g.toInt?
      let bt ← bt.toInt?
      let nc ← nc.toNat?
      let tick ← tick.toNat?
      pure (secNs (genProofTime (mkCtx g bt nc) tick))
  | _ => none

def showBT : BT → String
  | .found h => toString h
  | .none => "none"
  | .err => "err"
  | .hang => "hang"

def pureBeforeTime : List String → Option String
  | ["before-time", t, csv] => do
      let t ← t.toInt?
      let ts ← (csv.splitOn ",").mapM String.toInt?
      let r := getMomentumBeforeTime ts (t * nsPerSec)
      -- the code model and the specification are both evaluated; a disagreement between them is reported
      let spec := match beforeSpec ts (t * nsPerSec) with | some h => BT.found h | none => BT.none
      if r == spec then pure (showBT r) else pure s!"model {showBT r} spec {showBT spec}"
  | _ => none

def showProducerErr : ProducerErr → String
  | .beforeGenesis => "beforeGenesis"
  | .divByZero => "divByZero"
  | .electionFailed => "electionFailed"
  | .noSlotStartsHere => "noSlotStartsHere"

def showReason : Reason → String
  | .ErrMNotGenesis => "ErrMNotGenesis" | .ErrMPrevHashMissing => "ErrMPrevHashMissing"
  | .ErrMPreviousMissing => "ErrMPreviousMissing"
  | .ErrABChainIdentifierMissing => "ErrABChainIdentifierMissing"
  | .ErrABChainIdentifierMismatch => "ErrABChainIdentifierMismatch"
  | .ErrMVersionMissing => "ErrMVersionMissing" | .ErrMVersionInvalid => "ErrMVersionInvalid"
  | .ErrMTimestampMissing => "ErrMTimestampMissing" | .ErrMTimestampInTheFuture => "ErrMTimestampInTheFuture"
  | .ErrMTimestampNotIncreasing => "ErrMTimestampNotIncreasing"
  | .ErrMDataMustBeZero => "ErrMDataMustBeZero" | .ErrMContentTooBig => "ErrMContentTooBig"
  | .contentSizeMismatch => "contentSizeMismatch"
  | .contentHeaderMissing => "panic"          -- nil dereference recovered by ApplyMomentum (ErrVmRunPanic)
  | .contentGap => "contentGap"
  | .vmFailed => "vmFailed"
  | .ErrMChangesHashInvalid => "ErrMChangesHashInvalid" | .ErrMHashInvalid => "ErrMHashInvalid"
  | .ErrMSignatureMissing => "ErrMSignatureMissing" | .ErrMPublicKeyMissing => "ErrMPublicKeyMissing"
  | .sigInternal => "sigInternal" | .ErrMSignatureInvalid => "ErrMSignatureInvalid"
  | .producerInternal e => "producerInternal:" ++ showProducerErr e
  | .ErrMProducerInvalid => "ErrMProducerInvalid"
  | .unknownCheck n => "unknownCheck:" ++ n

def stripKey (key s : String) : Option String :=
  if s.startsWith (key ++ "=") then some (String.ofList (s.toList.drop (key.length + 1))) else none

def parseBoolC (s : String) : Option Bool :=
  if s = "true" then some true else if s = "false" then some false else none

def parseList {α} (f : String → Option α) (s : String) : Option (List α) :=
  if s = "-" then some [] else (s.splitOn ",").mapM f

def parseHeader (s : String) : Option Header :=
  match s.splitOn "/" with
  | [a, h, n] => do pure ⟨← ofHex a, ← ofHex h, ← n.toNat?⟩
  | _ => none

def parsePBlock (s : String) : Option PBlock :=
  match s.splitOn "/" with
  | [a, h, n, p, b] => do pure ⟨← ofHex a, ← ofHex h, ← n.toNat?, ← ofHex p, ← parseBoolC b⟩
  | _ => none

def parseAcc (s : String) : Option (Bytes × Option (Bytes × Nat)) :=
  match s.splitOn "/" with
  | [a, "none"] => do pure (← ofHex a, none)
  | [a, h, n] => do pure (← ofHex a, some (← ofHex h, ← n.toNat?))
  | _ => none

def parseHH (s : String) : Option (Bytes × Nat) :=
  match s.splitOn ":" with
  | [h, n] => do pure (← ofHex h, ← n.toNat?)
  | _ => none

def pureAddMomentum : List String → Option String
  | ["add-momentum", fr, prev, height, hash] => do
      let fr ← parseHH fr
      let m : Momentum := ⟨1, 1, ← height.toNat?, 0, 0, ← ofHex hash, ← ofHex prev, [], 0, [], 0, 0⟩
      let r := addMomentum fr m
      pure s!"{toHex r.1}:{r.2}"
  | _ => none

def pureMverify : List String → Option String
  | "mv" :: now :: store :: m :: content :: blocks :: acc :: o :: ctx :: "E" :: erest => do
      let now ← (← stripKey "now" now).toInt?
      let store ← stripKey "store" store
      let content ← parseList parseHeader (← stripKey "content" content)
      let blocks ← parseList parsePBlock (← stripKey "blocks" blocks)
      let acc ← parseList parseAcc (← stripKey "acc" acc)
      let m ← match (← stripKey "m" m).splitOn ":" with
        | [ver, cid, hgt, tsu, tsc, hash, prev, chg, dl, pl, sl] => do
            let mm : Momentum := ⟨← ver.toNat?, ← cid.toNat?, ← hgt.toNat?, ← tsu.toNat?, ← tsc.toInt?, ← ofHex hash,
              ← ofHex prev, ← ofHex chg, ← dl.toNat?, content, ← pl.toNat?, ← sl.toNat?⟩
            pure mm
        | _ => none
      let o ← match (← stripKey "o" o).splitOn ":" with
        | [ch, vmOk, ph, sigErr, sigOk, prod] => do
            let oo : Oracle := ⟨← ofHex ch, ← parseBoolC vmOk, ← ofHex ph, ← parseBoolC sigErr, ← parseBoolC sigOk, ← ofHex prod⟩
            pure oo
        | _ => none
      let (c, randCount) ← match (← stripKey "ctx" ctx).splitOn ":" with
        | [g, bt, nc, rc] => do
            let cc : Ctx := ⟨(← g.toInt?) * nsPerSec, ← bt.toInt?, ← nc.toNat?⟩
            pure (cc, ← rc.toNat?)
        | _ => none
      let accFn : Bytes → Option (Bytes × Nat) := fun a =>
        match acc.find? (fun e => e.1 == a) with
        | some e => e.2
        | none => none
      let view : Option StoreView ← if store = "none" then pure none else
        match store.splitOn ":" with
        | [cid, fh, fhe, fts] => do
            let v : StoreView := ⟨← cid.toNat?, ← ofHex fh, ← fhe.toNat?, ← fts.toNat?, accFn⟩
            pure (some v)
        | _ => none
      -- election input for the tick of the candidate's timestamp
      let elected : Nat → Option (List Bytes) ← match erest with
        | ["none"] => pure (fun _ => none)
        | tick :: ph :: k :: rest => do
            let tick ← tick.toNat?
            let ph ← ph.toNat?
            let k ← k.toNat?
            if rest.length < k then none
            let ds ← (rest.take k).mapM parsePDC
            let tab ← parsePerms (rest.drop k)
            if !(tab.all fun e => isPermOfRange e.2.2 e.2.1) then none
            pure (fun t => if t = tick then
              (match selectProducers sortPD (permOf tab) c.nodeCount randCount ds ph with
               | .ok l => some (l.map (·.producing))
               | _ => none) else none)
        | _ => none
      let vs : VState := ⟨fun h n => if h = m.prevHash ∧ n = prevHeight m then view else none,
        getMomentumProducer c elected⟩
      match verifyMomentum vs now m blocks o with
      | .ok () => pure "ok"
      | .error r => pure (showReason r)
  | _ => none

end ZV.Driver
