import ZenonVerif.Model.NodeSync
import ZenonVerif.Model.Pool
import Driver.Core
import Driver.Sync
/-
Driver handler for the abstract node trace of the `sync` stream (C02, harness/cmd/zvh/s_sync_ns.go): every follower of a
history is replayed on the node-level model `ZV.NodeSync` (the functions the theorems of Props/C02Node.lean are about:
`addBlock`, `deliver`, `step`).

  ns-reset <genesis id> <n> <acct>:<block id> × n                                   (no observation)
  ns-mom <id> <height> <prev> <k> <block id>:<acct>:<pos>:<prev>:<ack>:<total>:<base> × k   (no observation)
  ns-new <fid>                                                                     (no observation)
  ns-gossip <fid> <block id> <acct> <pos> <prev> <ack> <total> <base>              | accepted / refused
  ns-prio <block id a> <block id b>                                                | a-wins / b-wins
  ns-deliver <fid> <momentum id> …                                                 | ok / refused <index>
  ns-restart <fid>                                                                 (no observation)
  ns-pool <fid>                                                                    | <first 8 bytes of the pooled ids, sorted by id> / -
  ns-same <fid a> <fid b>                                                          | same / differ

`exec` is a parameter of the model, so any instance is a valid one; the instance used here is an uninterpreted tagging:
the patch of a block is the list [digest of the ledger as of the acknowledged momentum, frontier identifier and length of
the account chain it was executed on, block id], a momentum's patch is the concatenation, the ledger is a running
digest. Two followers whose model ledgers are equal therefore executed every block in the same context. The changes
hash is not interpreted (constant); the priority rule is the pool model's `higherPriority` (C14) on the plasma fields
and the full hash, and the observed `ns-prio` lines check that instance against the real function.
-/
namespace ZV.Driver
open ZV ZV.NodeSync

abbrev NsP := List Nat

def nsBytes32 (n : Nat) : Bytes := (List.range 32).map (fun i => (n / 256 ^ (31 - i)) % 256)

/-- the plasma fields travel in `payload` (total * 2^64 + base), the full hash is the id -/
def nsBlk (x : Block) : Pool.Blk :=
  { height := 0, hash := nsBytes32 x.id, prevHash := [], total := x.payload / two64, base := x.payload % two64 }

def nsPrio (a b : Block) : Bool := Pool.higherPriority (nsBlk a) (nsBlk b) == .ok

def nsMix (a b : Nat) : Nat := (a * 1000003 + b + 1) % 18446744073709551557

def nsGenesisChain (a : Nat) : Nat → Nat → List Nat → List (Tx NsP)
  | _, _, [] => []
  | pos, prev, i :: is => (⟨a, pos, prev, 0, 0, i⟩, []) :: nsGenesisChain a (pos + 1) i is

def nsVM (gid : Nat) (gen : List (Nat × Nat)) : VM NsP Nat where
  init := 0
  commit l m p := nsMix (nsMix l m.id) (p.foldl nsMix 7)
  gid := gid
  gconf a := nsGenesisChain a 1 0 ((gen.filter (·.1 == a)).map (·.2))
  exec l view b := some [l, lastId view, view.length, b.id]
  pack l txs := l :: txs.flatMap (·.2)
  hash _ := 0
  mvalid _ _ := true
  prio := nsPrio

structure NsSt where
  gid    : Nat := 0
  gen    : List (Nat × Nat) := []
  moms   : List (Nat × DM) := []
  blocks : List Block := []
  accts  : List Nat := []
  nodes  : List (Nat × Node NsP) := []

def NsSt.vm (st : NsSt) : VM NsP Nat := nsVM st.gid st.gen

def NsSt.node (st : NsSt) (fid : Nat) : Option (Node NsP) := (st.nodes.find? (·.1 == fid)).map (·.2)

def NsSt.setNode (st : NsSt) (fid : Nat) (n : Node NsP) : NsSt :=
  { st with nodes := (fid, n) :: st.nodes.filter (·.1 != fid) }

def NsSt.addBlockInfo (st : NsSt) (b : Block) : NsSt :=
  { st with blocks := if st.blocks.any (·.id == b.id) then st.blocks else b :: st.blocks,
            accts := if st.accts.contains b.acct then st.accts else b.acct :: st.accts }

def nsBlock? (id acct pos prev ack total base : String) : Option Block := do
  let id ← hexNat? id
  let acct ← hexNat? acct
  let pos ← pos.toNat?
  let prev ← hexNat? prev
  let ack ← hexNat? ack
  let total ← total.toNat?
  let base ← base.toNat?
  if total ≥ two64 ∨ base ≥ two64 then none
  else pure { acct := acct, height := pos, prev := prev, ack := ack, payload := total * two64 + base, id := id }

def nsBlockItem? (s : String) : Option Block :=
  match s.splitOn ":" with
  | [id, acct, pos, prev, ack, total, base] => nsBlock? id acct pos prev ack total base
  | _ => none

def nsGenItem? (s : String) : Option (Nat × Nat) :=
  match s.splitOn ":" with
  | [a, i] => do
      let a ← hexNat? a
      let i ← hexNat? i
      pure (a, i)
  | _ => none

def nsShowPool (st : NsSt) (n : Node NsP) : String :=
  let ids := (st.accts.flatMap (fun a => (n.pool a).map (·.1.id))).mergeSort (fun a b => a ≤ b)
  if ids.isEmpty then "-" else ",".intercalate (ids.map (fun i => showHash (i / 2 ^ 192)))

def nsStep (st : NsSt) : List String → Option (NsSt × String)
  | "ns-reset" :: gid :: n :: items => do
      let gid ← hexNat? gid
      let n ← n.toNat?
      if items.length ≠ n then none
      let gen ← items.mapM nsGenItem?
      pure ({ gid := gid, gen := gen, accts := (gen.map (·.1)).eraseDups }, "ok")
  | "ns-mom" :: id :: h :: prev :: k :: items => do
      let id ← hexNat? id
      let h ← h.toNat?
      let prev ← hexNat? prev
      let k ← k.toNat?
      if items.length ≠ k then none
      let bs ← items.mapM nsBlockItem?
      let m : Momentum := { id := id, height := h, prev := prev, content := bs.map Block.hdr, changesHash := 0 }
      let st := bs.foldl NsSt.addBlockInfo st
      pure ({ st with moms := (id, ⟨m, bs⟩) :: st.moms }, "ok")
  | ["ns-new", fid] => do
      let fid ← fid.toNat?
      pure (st.setNode fid Node.init, "ok")
  | ["ns-gossip", fid, id, acct, pos, prev, ack, total, base] => do
      let fid ← fid.toNat?
      let b ← nsBlock? id acct pos prev ack total base
      let st := st.addBlockInfo b
      let n ← st.node fid
      let verdict := if (addBlock st.vm true false n b).isSome then "accepted" else "refused"
      pure (st.setNode fid (step st.vm n (.gossip b)), verdict)
  | ["ns-prio", a, b] => do
      let a ← hexNat? a
      let b ← hexNat? b
      let ba ← st.blocks.find? (·.id == a)
      let bb ← st.blocks.find? (·.id == b)
      pure (st, if nsPrio ba bb then "a-wins" else "b-wins")
  | "ns-deliver" :: fid :: ids => do
      let fid ← fid.toNat?
      let batch ← ids.mapM (fun s => do
        let i ← hexNat? s
        (st.moms.find? (·.1 == i)).map (·.2))
      let n ← st.node fid
      let r := deliver st.vm true true n batch
      let verdict := match r.2 with
        | none => "ok"
        | some i => s!"refused {i}"
      -- the new state is `step st.vm n (.deliver batch)` (by definition `(deliver …).1`)
      pure (st.setNode fid r.1, verdict)
  | ["ns-restart", fid] => do
      let fid ← fid.toNat?
      let n ← st.node fid
      pure (st.setNode fid (step st.vm n .restart), "ok")
  | ["ns-pool", fid] => do
      let fid ← fid.toNat?
      let n ← st.node fid
      pure (st, nsShowPool st n)
  | ["ns-same", a, b] => do
      let a ← a.toNat?
      let b ← b.toNat?
      let na ← st.node a
      let nb ← st.node b
      let same := na.chain == nb.chain && ledger st.vm na.hist == ledger st.vm nb.hist &&
        na.hist.map (·.patch) == nb.hist.map (·.patch)
      pure (st, if same then "same" else "differ")
  | _ => none

end ZV.Driver
