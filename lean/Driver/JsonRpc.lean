import ZenonVerif.Model.JsonRpc
import Driver.Core
/-
Driver handler for the `rpc-req` lines of the rpcserver stream (C18): every well-formed JSON request of the structured part
of the corpus, as sent to the real JSON-RPC server over one transport, with the shape of what came back.

  rpc-req <transport> <json>                                           | <shape>

  <transport> ::= http-handler | http | websocket | ipc | pipe         (the first two: serveSingleRequest, allowSubscribe = false)
  <json>      ::= z | t | f | n<literal>; | s<hex of the decoded string>; | [<json>*] | {(<hex of the member name>:<json>)*}
  <shape>     ::= none | single <reply> | batch <k> <reply>{k} | panic
  <reply>     ::= <id>:<class>      <id> ::= z | t | f | n<literal> | s<hex>      <class> ::= app | e-32700 | e-32600 | e-32601

The answer is `JsonRpc.respond servedRegistry` on the parsed value, printed with `Outcome.canon`.
-/
namespace ZV.Driver
open ZV ZV.JsonRpc

def hexv (c : Char) : Option Nat :=
  if '0' ≤ c ∧ c ≤ '9' then some (c.toNat - 48)
  else if 'a' ≤ c ∧ c ≤ 'f' then some (c.toNat - 87)
  else none

/-- hex digits up to the terminator `stop`, as bytes; the rest starts after the terminator -/
partial def hexBytesUntil (stop : Char) (cs : List Char) (acc : ByteArray) : Option (ByteArray × List Char) :=
  match cs with
  | c :: rest =>
    if c = stop then some (acc, rest)
    else
      match rest with
      | d :: rest' =>
        match hexv c, hexv d with
        | some a, some b => hexBytesUntil stop rest' (acc.push (UInt8.ofNat (16 * a + b)))
        | _, _ => none
      | [] => none
  | [] => none

def hexStringUntil (stop : Char) (cs : List Char) : Option (String × List Char) := do
  let (bs, rest) ← hexBytesUntil stop cs ByteArray.empty
  let s ← String.fromUTF8? bs
  pure (s, rest)

mutual
  partial def parseJson (cs : List Char) : Option (Json × List Char) :=
    match cs with
    | 'z' :: rest => some (.null, rest)
    | 't' :: rest => some (.bool true, rest)
    | 'f' :: rest => some (.bool false, rest)
    | 'n' :: rest =>
      let lit := rest.takeWhile (· ≠ ';')
      match rest.dropWhile (· ≠ ';') with
      | _ :: rest' => if lit.isEmpty then none else some (.num (String.ofList lit), rest')
      | [] => none
    | 's' :: rest => (hexStringUntil ';' rest).map (fun (s, r) => (.str s, r))
    | '[' :: rest => (parseItems rest []).map (fun (l, r) => (.arr l, r))
    | '{' :: rest => (parseFields rest []).map (fun (l, r) => (.obj l, r))
    | _ => none
  partial def parseItems (cs : List Char) (acc : List Json) : Option (List Json × List Char) :=
    match cs with
    | ']' :: rest => some (acc.reverse, rest)
    | _ =>
      match parseJson cs with
      | some (j, rest) => parseItems rest (j :: acc)
      | none => none
  partial def parseFields (cs : List Char) (acc : List (String × Json)) : Option (List (String × Json) × List Char) :=
    match cs with
    | '}' :: rest => some (acc.reverse, rest)
    | _ =>
      match hexStringUntil ':' cs with
      | some (k, rest) =>
        match parseJson rest with
        | some (j, rest') => parseFields rest' ((k, j) :: acc)
        | none => none
      | none => none
end

def hexDigitC (n : Nat) : Char := if n < 10 then Char.ofNat (n + 48) else Char.ofNat (n + 87)

def hexOfString (s : String) : String :=
  String.ofList (s.toUTF8.toList.flatMap fun x => [hexDigitC (x.toNat / 16), hexDigitC (x.toNat % 16)])

def showId : Id → String
  | .null => "z"
  | .bool true => "t"
  | .bool false => "f"
  | .num l => "n" ++ l
  | .str s => "s" ++ hexOfString s

def showReply1 (r : Id × Outcome) : String := showId r.1 ++ ":" ++ r.2.canon

def showResponse : Response → String
  | .noBody => "none"
  | .single i o => "single " ++ showReply1 (i, o)
  | .batch rs => s!"batch {rs.length} " ++ " ".intercalate (rs.map showReply1)
  | .panic => "panic"

def transportOf? : String → Option Transport
  | "http-handler" => some .http
  | "http" => some .http
  | "websocket" => some .stream
  | "ipc" => some .stream
  | "pipe" => some .stream
  | _ => none

def pureJsonRpc : List String → Option String
  | ["rpc-req", tr, toks] => do
      let tr ← transportOf? tr
      let (j, rest) ← parseJson toks.toList
      if !rest.isEmpty then none
      else pure (showResponse (respond servedRegistry tr j))
  | _ => none

end ZV.Driver
