import ZenonVerif.Model.NodeCache
import Driver.Core
import Driver.Sync
/-
Driver handler for the `nc-` lines of the `sync-batches` stream (C06, harness s_nodecache.go): one model node
(`NodeCache.Node` over `countSpec`) per follower. The harness reports what happened to the REAL node's chain and what its
consensus database holds; the model replays the same events and must hold the same database and give the same answers.

  nc-new <fid> <genesisHash> <periodSeconds> <periodsPerEpoch>                       (no observation)
  nc-insert <fid> <hash>:<secondsAfterGenesis>:<producer>     | <height>             a momentum was verified (its producer was looked
                                                                                      up: `ElectionByTick` of its tick) and inserted
  nc-rollback <fid> <k>                                        | <frontier hash>      k momentums were deleted
  nc-epoch <fid> <T>                                           | future               `EpochStats(T)` = nil
                                                               | served <point>       the stored point was kept (end hash = the chain's, epoch finished)
                                                               | recomputed <point>   it was (re)generated
  nc-stored <fid>                                              | P[<tick>:<endHash>:<point>;…] E[…]   every stored period / epoch point
  nc-ends <fid> <n>                                            | <hash>,…             `GetEndBlock(t)` of the period ticks 0..n-1
  nc-elkeys <fid>                                              | <hash>,…             the proof hashes election results are stored for

<point> = <number of period points merged>:<producer>=<momentums>,…  (`-` if nobody produced). Hashes are 16 hex digits.
-/
namespace ZV.Driver
open ZV ZV.NodeCache

structure NcSt where
  cfg   : Cfg
  node  : Node Unit CountPoint
  seen  : List Nat   -- every hash the node ever held (to enumerate the election cache), genesis first
  maxTs : Nat

abbrev NcAll := List (Nat × NcSt)

def ncLookup (st : NcAll) (fid : Nat) : Option NcSt := (st.find? (·.1 == fid)).map (·.2)
def ncSet (st : NcAll) (fid : Nat) (n : NcSt) : NcAll := (fid, n) :: st.filter (·.1 != fid)

def ncShowCounts (cs : List (Nat × Nat)) : String :=
  if cs.isEmpty then "-" else ",".intercalate (cs.map (fun e => s!"{e.1}={e.2}"))
def ncShowPoint (p : CountPoint) : String := s!"{p.1}:{ncShowCounts p.2}"

def ncShowStored (f : Nat → Option (Nat × CountPoint)) (maxTick : Nat) : String :=
  ";".intercalate ((List.range (maxTick + 1)).filterMap (fun t =>
    (f t).map (fun e => s!"{t}:{showHash e.1}:{ncShowPoint e.2}")))

def ncParseMom? (s : String) : Option Mom :=
  match s.splitOn ":" with
  | [h, ts, p] => do pure { hash := ← hexNat? h, ts := ← ts.toNat?, prod := ← p.toNat? }
  | _ => none

def ncStep (st : NcAll) : List String → Option (NcAll × String)
  | ["nc-new", fid, g, len, mult] => do
      let fid ← fid.toNat?
      let g ← hexNat? g
      let len ← len.toNat?
      let mult ← mult.toNat?
      if len = 0 ∨ mult = 0 then none
      pure (ncSet st fid { cfg := ⟨g, len, mult⟩, node := Node.fresh, seen := [g], maxTs := 0 }, "")
  | ["nc-insert", fid, m] => do
      let fid ← fid.toNat?
      let m ← ncParseMom? m
      let s ← ncLookup st fid
      -- the verifier asks for the producer of the momentum's slot on the chain before the insert
      let n1 := step countSpec s.cfg s.node (.qElect (m.ts / s.cfg.len))
      let n2 := step countSpec s.cfg n1 (.insert m)
      pure (ncSet st fid { s with node := n2, seen := s.seen ++ [m.hash], maxTs := max s.maxTs m.ts }, s!"{n2.chain.length + 1}")
  | ["nc-rollback", fid, k] => do
      let fid ← fid.toNat?
      let k ← k.toNat?
      let s ← ncLookup st fid
      let n := step countSpec s.cfg s.node (.rollback k)
      pure (ncSet st fid { s with node := n }, showHash (headHash s.cfg.g n.chain))
  | ["nc-epoch", fid, T] => do
      let fid ← fid.toNat?
      let T ← T.toNat?
      let s ← ncLookup st fid
      let L := s.cfg.len * s.cfg.mult
      let r := epochC countSpec s.cfg s.node.chain s.node.caches T
      let served := match s.node.caches.ec T with
        | some (h, _) => h == headHash s.cfg.g (endCut L s.node.chain T) && finished L s.node.chain T
        | none => false
      let out := match r.1 with
        | none => "future"
        | some p => (if served then "served " else "recomputed ") ++ ncShowPoint p
      pure (ncSet st fid { s with node := { s.node with caches := r.2 } }, out)
  | ["nc-stored", fid] => do
      let fid ← fid.toNat?
      let s ← ncLookup st fid
      let maxTick := s.maxTs / s.cfg.len + 1
      pure (st, s!"P[{ncShowStored s.node.caches.pc maxTick}] E[{ncShowStored s.node.caches.ec maxTick}]")
  | ["nc-ends", fid, n] => do
      let fid ← fid.toNat?
      let n ← n.toNat?
      let s ← ncLookup st fid
      pure (st, ",".intercalate ((List.range n).map (fun t => showHash (headHash s.cfg.g (endCut s.cfg.len s.node.chain t)))))
  | ["nc-elkeys", fid] => do
      let fid ← fid.toNat?
      let s ← ncLookup st fid
      let keys := (s.seen.filter (fun h => (s.node.caches.el h).isSome)).eraseDups
      let sorted := keys.toArray.qsort (· < ·) |>.toList
      pure (st, if sorted.isEmpty then "-" else ",".intercalate (sorted.map showHash))
  | _ => none

end ZV.Driver
