import ZenonVerif.Model.EpochCursor
import ZenonVerif.Model.Rewards
import Driver.Core
/-
Driver handler for the C11 stream `rewards-node`: replays the Update / credit / CollectReward calls observed on a real
chain through the epoch-cursor model (Model/EpochCursor.lean) and recomputes every epoch's emission bound from the
generated reward tables (Model/Rewards.lean).

  RN-reset <genesis> <epochSec> <rewardTimeLimit> <updateMinNumMomentums> <momentumsPerEpoch>
  RN-init <contract> <cursor> <lastUpdateHeight>
  RN-update <contract> <loop|liqorigin|liqone> <height> <ts>      | ok <cursor> <epochs issued>  /  err tooRecent
  RN-credit <contract> <epoch> <addr> <znn> <qsr>                  | ok          (epoch must be one the last Update rewarded)
  RN-epoch <contract> <epoch> <mintZnn> <mintQsr>                  | <total znn> <total qsr> <within|exceeds>
  RN-collect <contract> <addr>                                     | ok <znn> <qsr>  /  err nothing
  RN-dep <contract> <addr>                                         | <znn> <qsr>
  RN-cursor <contract>                                             | <cursor>
-/
namespace ZV.Driver
open ZV ZV.EpochCursor

structure RNContract where
  name   : String
  st     : CState
  /-- epochs rewarded by the last successful Update: the only ones that may be credited now -/
  opened : List Int
  /-- credited so far per epoch (znn, qsr) -/
  totals : List (Int × Int × Int)

structure RNState where
  cfg : Option Cfg
  mpe : Int
  cs  : List RNContract

def rnFind (s : RNState) (n : String) : Option RNContract := s.cs.find? (·.name == n)

def rnPut (s : RNState) (k : RNContract) : RNState :=
  { s with cs := k :: s.cs.filter (·.name != k.name) }

def rnVariant : String → Option Variant
  | "loop" => some .loop
  | "liqorigin" => some .liqOrigin
  | "liqone" => some .liqOne
  | _ => none

def rnTotal (k : RNContract) (e : Int) : Int × Int :=
  match k.totals.find? (·.1 == e) with
  | some (_, z, q) => (z, q)
  | none => (0, 0)

def rnAddTotal (k : RNContract) (e z q : Int) : RNContract :=
  let (z0, q0) := rnTotal k e
  { k with totals := (e, z0 + z, q0 + q) :: k.totals.filter (·.1 != e) }

/-- emission of one epoch for a contract: pillars get (delegation + producing reward per momentum) × momentums per epoch
    (the stream sets constants.MomentumsPerEpoch to the number of slots of its short epochs), the others the amounts
    of `SentinelRewardForEpoch` / `StakeQsrRewardPerEpoch` / `LiquidityRewardForEpoch`. none = the Go function panics. -/
def rnEmission (contract : String) (mpe : Int) (e : Nat) : Option (Int × Int) :=
  match contract with
  | "pillar" => do
      let n ← Rewards.networkZnnRewardPerEpoch e
      let d ← Rewards.div64 (← Rewards.pctOf n Gen.DelegationZnnRewardPercentage) mpe
      let p ← Rewards.div64 (← Rewards.pctOf n Gen.MomentumProducingZnnRewardPercentage) mpe
      pure ((d + p) * mpe, 0)
  | "stake" => do pure (0, ← Rewards.stakeQsrRewardPerEpoch e)
  | "sentinel" => Rewards.sentinelRewardForEpoch e
  | "liquidity" => Rewards.liquidityRewardForEpoch e
  | _ => none

def rnStep (s : RNState) : List String → Option (RNState × String)
  | ["RN-reset", g, e, rtl, um, mpe] => do
      let g ← g.toInt?
      let e ← e.toInt?
      let rtl ← rtl.toInt?
      let um ← um.toNat?
      let mpe ← mpe.toInt?
      if h : 0 < e then
        pure ({ cfg := some ⟨g, e, rtl, um, Gen.MaxEpochsPerUpdate, h⟩, mpe := mpe, cs := [] }, "")
      else none
  | ["RN-init", c, cur, lu] => do
      let cur ← cur.toInt?
      let lu ← lu.toNat?
      pure (rnPut s ⟨c, ⟨cur, lu, fun _ => Coins.zero⟩, [], []⟩, "")
  | ["RN-update", c, v, h, ts] => do
      let cfg ← s.cfg
      let k ← rnFind s c
      let v ← rnVariant v
      let h ← h.toNat?
      let ts ← ts.toInt?
      match update cfg v k.st h ts with
      | none => pure (s, "err tooRecent")
      | some (st, es) =>
        pure (rnPut s { k with st := st, opened := es }, s!"ok {st.cursor} {es.length}")
  | ["RN-credit", c, e, a, z, q] => do
      let k ← rnFind s c
      let e ← e.toInt?
      let z ← z.toNat?
      let q ← q.toNat?
      if k.opened.contains e then
        let k := { k with st := credit k.st a ⟨z, q⟩ }
        pure (rnPut s (rnAddTotal k e z q), "ok")
      else pure (s, "unexpected-epoch")
  | ["RN-epoch", c, e, mz, mq] => do
      let k ← rnFind s c
      let e ← e.toInt?
      let mz ← mz.toInt?
      let mq ← mq.toInt?
      if e < 0 then none else
      let k := rnAddTotal k e mz mq
      let (z, q) := rnTotal k e
      let verdict := match rnEmission c s.mpe e.toNat with
        | none => "panic"
        | some (bz, bq) => if z ≤ bz ∧ q ≤ bq then "within" else "exceeds"
      -- the epoch is closed: nothing may be credited for it any more
      pure (rnPut s { k with opened := k.opened.filter (· != e) }, s!"{z} {q} {verdict}")
  | ["RN-collect", c, a] => do
      let k ← rnFind s c
      match collect k.st a with
      | none => pure (s, "err nothing")
      | some (ms, st) =>
        let p := paid ms a
        pure (rnPut s { k with st := st }, s!"ok {p.znn} {p.qsr}")
  | ["RN-dep", c, a] => do
      let k ← rnFind s c
      let d := k.st.dep a
      pure (s, s!"{d.znn} {d.qsr}")
  | ["RN-cursor", c] => do
      let k ← rnFind s c
      pure (s, toString k.st.cursor)
  | _ => none

def rewardsNodeObj : Obj := mkObj (⟨none, 0, []⟩ : RNState) rnStep

end ZV.Driver
