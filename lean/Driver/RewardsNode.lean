import ZenonVerif.Model.EpochCursor
import ZenonVerif.Model.Rewards
import Driver.Core
/-
Driver handler for the C11 stream `rewards-node`: replays the Update / credit / CollectReward calls observed on a real
chain through the epoch-cursor model (Model/EpochCursor.lean) and recomputes every epoch's emission bound from the
generated reward tables (Model/Rewards.lean).

  RN-reset <genesis> <epochSec> <rewardTimeLimit> <updateMinNumMomentums> <momentumsPerEpoch>
  RN-init <contract> <cursor> <lastUpdateHeight>
  RN-update <contract> <loop|liqorigin|liqone> <height> <ts>      | ok <cursor> <epochs issued>  /  err tooRecent
  RN-credit <contract> <epoch> <addr> <znn> <qsr>                  | ok          (epoch must be one the last Update rewarded)
  RN-epoch <contract> <epoch> <mintZnn> <mintQsr>                  | <total znn> <total qsr> <within|exceeds>
  RN-collect <contract> <addr>                                     | ok <znn> <qsr>  /  err nothing
  RN-dep <contract> <addr>                                         | <znn> <qsr>
  RN-cursor <contract>                                             | <cursor>
  RN-stake-amounts <epoch> <start> <end> <n> {addr start revoke weighted}*     | addr:qsr …      (credited per address, first-appearance order, zeros omitted)
  RN-sentinel-amounts <epoch> <start> <end> <n> {addr registered revoked}*     | addr:znn:qsr …
  RN-pillar-amounts <epoch> <momentumsPerEpoch> <totalWeight> <n> {produced expected weight giveBlock% giveDelegate% rewardAddr nBackers|x {addr amount}*}*
                                                                                | addr:znn …
-/
namespace ZV.Driver
open ZV ZV.EpochCursor

structure RNContract where
  name   : String
  st     : CState
  /-- epochs rewarded by the last successful Update: the only ones that may be credited now -/
  opened : List Int
  /-- credited so far per epoch (znn, qsr) -/
  totals : List (Int × Int × Int)

structure RNState where
  cfg : Option Cfg
  mpe : Int
  cs  : List RNContract

def rnFind (s : RNState) (n : String) : Option RNContract := s.cs.find? (·.name == n)

def rnPut (s : RNState) (k : RNContract) : RNState :=
  { s with cs := k :: s.cs.filter (·.name != k.name) }

def rnVariant : String → Option Variant
  | "loop" => some .loop
  | "liqorigin" => some .liqOrigin
  | "liqone" => some .liqOne
  | _ => none

def rnTotal (k : RNContract) (e : Int) : Int × Int :=
  match k.totals.find? (·.1 == e) with
  | some (_, z, q) => (z, q)
  | none => (0, 0)

def rnAddTotal (k : RNContract) (e z q : Int) : RNContract :=
  let (z0, q0) := rnTotal k e
  { k with totals := (e, z0 + z, q0 + q) :: k.totals.filter (·.1 != e) }

/-- emission of one epoch for a contract: pillars get (delegation + producing reward per momentum) × momentums per epoch
    (the stream sets constants.MomentumsPerEpoch to the number of slots of its short epochs), the others the amounts
    of `SentinelRewardForEpoch` / `StakeQsrRewardPerEpoch` / `LiquidityRewardForEpoch`. none = the Go function panics. -/
def rnEmission (contract : String) (mpe : Int) (e : Nat) : Option (Int × Int) :=
  match contract with
  | "pillar" => do
      let n ← Rewards.networkZnnRewardPerEpoch e
      let d ← Rewards.div64 (← Rewards.pctOf n Gen.DelegationZnnRewardPercentage) mpe
      let p ← Rewards.div64 (← Rewards.pctOf n Gen.MomentumProducingZnnRewardPercentage) mpe
      pure ((d + p) * mpe, 0)
  | "stake" => do pure (0, ← Rewards.stakeQsrRewardPerEpoch e)
  | "sentinel" => Rewards.sentinelRewardForEpoch e
  | "liquidity" => Rewards.liquidityRewardForEpoch e
  | _ => none

/-- `n` groups of `k` tokens -/
def rnGroups (k : Nat) : Nat → List String → Option (List (List String))
  | 0, [] => some []
  | 0, _ :: _ => none
  | n + 1, xs => if xs.length < k then none else do
      let rest ← rnGroups k n (xs.drop k)
      pure (xs.take k :: rest)

/-- sum per address in order of first appearance -/
def rnPerAddr (xs : List (String × Int × Int)) : List (String × Int × Int) :=
  xs.foldl (fun acc (a, z, q) =>
    if acc.any (·.1 == a) then acc.map (fun (b, z0, q0) => if b == a then (b, z0 + z, q0 + q) else (b, z0, q0))
    else acc ++ [(a, z, q)]) []

/-- one pillar of an `RN-pillar-amounts` line -/
structure RNPillar where
  stat    : Rewards.PillarStat
  gb      : Int
  gd      : Int
  reward  : String
  backers : Option (List (String × Int))   -- none: no delegation record for the epoch

def rnParsePillars : Nat → List String → Option (List RNPillar)
  | 0, [] => some []
  | 0, _ :: _ => none
  | n + 1, pr :: ex :: w :: gb :: gd :: ra :: nb :: rest => do
      let pr ← pr.toNat?
      let ex ← ex.toNat?
      let w ← w.toInt?
      let gb ← gb.toInt?
      let gd ← gd.toInt?
      if nb = "x" then
        let more ← rnParsePillars n rest
        pure (⟨⟨pr, ex, w⟩, gb, gd, ra, none⟩ :: more)
      else
        let k ← nb.toNat?
        if rest.length < 2 * k then none else
        let gs ← rnGroups 2 k (rest.take (2 * k))
        let bs ← gs.mapM (fun g => match g with
          | [a, x] => do pure (a, ← x.toInt?)
          | _ => none)
        let more ← rnParsePillars n (rest.drop (2 * k))
        pure (⟨⟨pr, ex, w⟩, gb, gd, ra, some bs⟩ :: more)
  | _, _ => none

def rnJoin (xs : List String) : String := if xs.isEmpty then "-" else " ".intercalate xs

/-- the reward arithmetic of Model/Rewards.lean on the entries found on the real chain -/
def rnAmounts : List String → Option String
  | "RN-stake-amounts" :: e :: st :: en :: n :: rest => do
      let e ← e.toNat?
      let st ← st.toInt?
      let en ← en.toInt?
      let n ← n.toNat?
      let gs ← rnGroups 4 n rest
      let ents ← gs.mapM (fun g => match g with
        | [a, s, r, w] => do pure (a, Rewards.weightedStake (← s.toInt?) (← r.toInt?) (← w.toInt?) st en)
        | _ => none)
      match Rewards.stakeQsrRewardPerEpoch e with
      | none => pure "panic"
      | some T =>
        let rs := Rewards.stakeRewardsForEpoch T (ents.map (·.2))
        let per := rnPerAddr ((ents.zip rs).map (fun ((a, _), r) => (a, 0, r)))
        pure (rnJoin ((per.filter (fun (_, _, q) => q != 0)).map (fun (a, _, q) => s!"{a}:{q}")))
  | "RN-sentinel-amounts" :: e :: st :: en :: n :: rest => do
      let e ← e.toNat?
      let st ← st.toInt?
      let en ← en.toInt?
      let n ← n.toNat?
      let gs ← rnGroups 3 n rest
      let ents ← gs.mapM (fun g => match g with
        | [a, s, r] => do pure (a, Rewards.weightedSentinel (← s.toInt?) (← r.toInt?) st en)
        | _ => none)
      match Rewards.sentinelRewardForEpoch e with
      | none => pure "panic"
      | some (Tz, Tq) =>
        let rs := Rewards.sentinelRewardsForEpoch Tz Tq (ents.map (·.2))
        let per := rnPerAddr ((ents.zip rs).map (fun ((a, _), (z, q)) => (a, z, q)))
        pure (rnJoin ((per.filter (fun (_, z, q) => z != 0 || q != 0)).map (fun (a, z, q) => s!"{a}:{z}:{q}")))
  | "RN-pillar-amounts" :: e :: mpe :: w :: n :: rest => do
      let e ← e.toNat?
      let mpe ← mpe.toInt?
      let W ← w.toInt?
      let n ← n.toNat?
      let ps ← rnParsePillars n rest
      let stats := ps.map (·.stat)
      let dp : Option (Int × Int) := do
        let nz ← Rewards.networkZnnRewardPerEpoch e
        let d ← Rewards.div64 (← Rewards.pctOf nz Gen.DelegationZnnRewardPercentage) mpe
        let p ← Rewards.div64 (← Rewards.pctOf nz Gen.MomentumProducingZnnRewardPercentage) mpe
        pure (d, p)
      match dp with
      | none => pure "panic"
      | some (d, p) =>
        let credits := ps.flatMap (fun pl =>
          let r := Rewards.pillarRewardForEpoch d p W stats pl.stat
          match pl.backers with
          | none => [(pl.reward, r.total - Int.tdiv (pl.gb * r.block + pl.gd * r.delegation) 100, (0 : Int))]
          | some bs =>
            let (pp, shares) := Rewards.pillarSplit r pl.gb pl.gd (bs.map (·.2))
            (pl.reward, pp, (0 : Int)) :: (bs.zip shares).map (fun ((a, _), x) => (a, x, (0 : Int))))
        let per := rnPerAddr credits
        pure (rnJoin ((per.filter (fun (_, z, _) => z != 0)).map (fun (a, z, _) => s!"{a}:{z}")))
  | _ => none

def rnStep (s : RNState) : List String → Option (RNState × String)
  | ["RN-reset", g, e, rtl, um, mpe] => do
      let g ← g.toInt?
      let e ← e.toInt?
      let rtl ← rtl.toInt?
      let um ← um.toNat?
      let mpe ← mpe.toInt?
      if h : 0 < e then
        pure ({ cfg := some ⟨g, e, rtl, um, Gen.MaxEpochsPerUpdate, h⟩, mpe := mpe, cs := [] }, "")
      else none
  | ["RN-init", c, cur, lu] => do
      let cur ← cur.toInt?
      let lu ← lu.toNat?
      pure (rnPut s ⟨c, ⟨cur, lu, fun _ => Coins.zero⟩, [], []⟩, "")
  | ["RN-update", c, v, h, ts] => do
      let cfg ← s.cfg
      let k ← rnFind s c
      let v ← rnVariant v
      let h ← h.toNat?
      let ts ← ts.toInt?
      match update cfg v k.st h ts with
      | none => pure (s, "err tooRecent")
      | some (st, es) =>
        pure (rnPut s { k with st := st, opened := es }, s!"ok {st.cursor} {es.length}")
  | ["RN-credit", c, e, a, z, q] => do
      let k ← rnFind s c
      let e ← e.toInt?
      let z ← z.toNat?
      let q ← q.toNat?
      if k.opened.contains e then
        let k := { k with st := credit k.st a ⟨z, q⟩ }
        pure (rnPut s (rnAddTotal k e z q), "ok")
      else pure (s, "unexpected-epoch")
  | ["RN-epoch", c, e, mz, mq] => do
      let k ← rnFind s c
      let e ← e.toInt?
      let mz ← mz.toInt?
      let mq ← mq.toInt?
      if e < 0 then none else
      let k := rnAddTotal k e mz mq
      let (z, q) := rnTotal k e
      let verdict := match rnEmission c s.mpe e.toNat with
        | none => "panic"
        | some (bz, bq) => if z ≤ bz ∧ q ≤ bq then "within" else "exceeds"
      -- the epoch is closed: nothing may be credited for it any more
      pure (rnPut s { k with opened := k.opened.filter (· != e) }, s!"{z} {q} {verdict}")
  | ["RN-collect", c, a] => do
      let k ← rnFind s c
      match collect k.st a with
      | none => pure (s, "err nothing")
      | some (ms, st) =>
        let p := paid ms a
        pure (rnPut s { k with st := st }, s!"ok {p.znn} {p.qsr}")
  | ["RN-dep", c, a] => do
      let k ← rnFind s c
      let d := k.st.dep a
      pure (s, s!"{d.znn} {d.qsr}")
  | ["RN-cursor", c] => do
      let k ← rnFind s c
      pure (s, toString k.st.cursor)
  | t => (rnAmounts t).map (fun o => (s, o))

def rewardsNodeObj : Obj := mkObj (⟨none, 0, []⟩ : RNState) rnStep

end ZV.Driver
