import ZenonVerif.Model.Genesis
import Driver.Core
/-
Driver handler for the `genesis` stream (C20): header sorting, CheckGenesis verdicts, start-up comparison.
-/
namespace ZV.Driver
open ZV ZV.Genesis

def parseHeaderGn (s : String) : Option Header := do
  let b ← ofHex s
  if b.length ≠ 60 then none
  else pure ⟨b.take 20, beVal ((b.drop 20).take 8), b.drop 28⟩

def parseBit (c : Char) : Option Bool := if c = '1' then some true else if c = '0' then some false else none

def parseInt (s : String) : Option Int := s.toInt?

def parseOptInt (s : String) : Option (Option Int) := if s = "nil" then some none else (s.toInt?).map some

/-- `n` balance entries `<zts> <amount>`; the amount `nil` is a nil pointer -/
def parseBal : Nat → List String → Option (List (Bytes × Option Int) × List String)
  | 0, rest => some ([], rest)
  | n + 1, z :: a :: rest => do
    let z ← ofHex z
    let a ← parseOptInt a
    let (l, rest') ← parseBal n rest
    pure ((z, a) :: l, rest')
  | _, _ => none

def parseBlocksGn : Nat → List String → Option (List Block × List String)
  | 0, rest => some ([], rest)
  | n + 1, addr :: nb :: rest => do
    let addr ← ofHex addr
    let nb ← nb.toNat?
    let (bal, rest) ← parseBal nb rest
    let (l, rest') ← parseBlocksGn n rest
    pure (⟨addr, bal⟩ :: l, rest')
  | _, _ => none

def parseTokens : Nat → List String → Option (List Token × List String)
  | 0, rest => some ([], rest)
  | n + 1, z :: t :: m :: rest => do
    let z ← ofHex z
    let t ← parseInt t   -- a nil TotalSupply is outside the model (the validator dereferences it): unparsable on purpose
    let m ← parseOptInt m
    let (l, rest') ← parseTokens n rest
    pure (⟨z, t, m⟩ :: l, rest')
  | _, _ => none

/-- pillar amounts; `nil` is a nil pointer -/
def parseInts : Nat → List String → Option (List (Option Int) × List String)
  | 0, rest => some ([], rest)
  | n + 1, a :: rest => do
    let a ← parseOptInt a
    let (l, rest') ← parseInts n rest
    pure (a :: l, rest')
  | _, _ => none

/-- fusions: `nilentry` = nil `*FusionInfo`, `nil` = entry with a nil `Amount` -/
def parseFusions : Nat → List String → Option (List (Option (Option Int)) × List String)
  | 0, rest => some ([], rest)
  | n + 1, a :: rest => do
    let a ← (if a = "nilentry" then some none else (parseOptInt a).map some)
    let (l, rest') ← parseFusions n rest
    pure (a :: l, rest')
  | _, _ => none

def parseSwaps : Nat → List String → Option (List (Option Int × Option Int) × List String)
  | 0, rest => some ([], rest)
  | n + 1, a :: b :: rest => do
    let a ← parseOptInt a
    let b ← parseOptInt b
    let (l, rest') ← parseSwaps n rest
    pure ((a, b) :: l, rest')
  | _, _ => none

def parseConfig (toks : List String) : Option Config := do
  let flags :: "B" :: nb :: rest := toks | none
  let [f0, f1, f2, f3, f4, f5] := flags.toList | none
  let f0 ← parseBit f0; let f1 ← parseBit f1; let f2 ← parseBit f2
  let f3 ← parseBit f3; let f4 ← parseBit f4; let f5 ← parseBit f5
  let (blocks, rest) ← parseBlocksGn (← nb.toNat?) rest
  let "T" :: nt :: rest := rest | none
  let (tokens, rest) ← parseTokens (← nt.toNat?) rest
  let "P" :: np :: rest := rest | none
  let (pillars, rest) ← parseInts (← np.toNat?) rest
  let "F" :: nf :: rest := rest | none
  let (fusions, rest) ← parseFusions (← nf.toNat?) rest
  let "S" :: ns :: rest := rest | none
  let (swaps, rest) ← parseSwaps (← ns.toNat?) rest
  if rest ≠ [] then none
  else pure { hasBlocks := f0, hasTokens := f1, hasPillars := f2, hasSporkAddr := f3, hasPlasma := f4, hasSwap := f5,
              blocks, tokens, pillars, fusions, swaps }

def showStartup : Startup → String
  | .inserted => "started"
  | .matches => "started"
  | .refused => "refused"

def pureGenesis : List String → Option String
  | "gen-content" :: hs => do
      let hs ← hs.mapM parseHeaderGn
      pure (" ".intercalate ((newMomentumContent hs).map (fun h => toHex h.bytes)))
  | "gen-check" :: toks => do
      let c ← parseConfig toks
      pure (checkGenesis c).show
  | ["gen-header", chain, ts, extra] => do
      let chain ← chain.toNat?
      let ts ← ts.toInt?
      let extra ← ofHex extra
      let h := genesisHeader { chainIdentifier := chain, extraData := extra, genesisTimestampSec := ts }
      pure s!"{h.version} {h.chainIdentifier} {h.height} {h.timestampUnix} {showHex h.data}"
  | ["gen-startup", stored, cfg] => do
      let cfg ← ofHex cfg
      let stored ← (if stored = "empty" then some none else (ofHex stored).map some)
      pure (showStartup (checkGenesisCompatibility stored cfg).1)
  | _ => none

end ZV.Driver
