/-
Driver core: a handler is an object that either does not understand a line (`none`) or answers it and
returns its successor (so stateful streams carry their model state inside the closure).
-/
namespace ZV.Driver

structure Obj where
  step : List String → Option (Obj × String)

instance : Inhabited Obj := ⟨⟨fun _ => none⟩⟩

/-- build an object from a state and a step function -/
partial def mkObj {σ : Type} (s : σ) (f : σ → List String → Option (σ × String)) : Obj :=
  ⟨fun t => (f s t).map (fun (s', out) => (mkObj s' f, out))⟩

/-- stateless handler -/
def pureObj (f : List String → Option String) : Obj :=
  mkObj () (fun _ t => (f t).map (fun o => ((), o)))

def showBool (b : Bool) : String := if b then "true" else "false"

end ZV.Driver
