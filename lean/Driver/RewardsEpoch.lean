import ZenonVerif.Model.RewardEpoch
import Driver.Core
/-
Driver handler for the RE-* lines of the C11 stream `rewards-node` (harness/cmd/zvh/s_rewards_epoch.go): the complete
input of every successful Update that moved the epoch cursor; ALL its epochs are recomputed with
`RewardEpoch.rewardAll` (each epoch on the entries the previous one left) and printed in the stream's result format:

  per epoch `e<epoch>` then `addr:znn:qsr` per address credited a non-zero amount (sums per address, sorted by the
  address string), [liquidity: `mint=z:q burn=z:q`], `left=<entries left>`;  `error` when the model's Update fails.
  RE-stake-w <StakeTimeUnitSec> <amount> <stakingTime> | <WeightedAmount stored when the stake was received>
-/
namespace ZV.Driver
open ZV ZV.EpochCursor ZV.RewardEpoch

/-- `n` groups of `k` tokens taken from the front; rest returned -/
def reTake (k : Nat) : Nat → List String → Option (List (List String) × List String)
  | 0, xs => some ([], xs)
  | n + 1, xs => if xs.length < k then none else do
      let (gs, rest) ← reTake k n (xs.drop k)
      pure (xs.take k :: gs, rest)

def reInsert (x : String × Nat × Nat) : List (String × Nat × Nat) → List (String × Nat × Nat)
  | [] => [x]
  | y :: ys => if x.1 < y.1 then x :: y :: ys else y :: reInsert x ys

/-- sums per address, sorted by address, zero entries dropped -/
def rePerAddr (cs : List Credit) : List (String × Nat × Nat) :=
  let summed := cs.foldl (fun (acc : List (String × Nat × Nat)) (x : Credit) =>
    if acc.any (·.1 == x.1) then acc.map (fun (b, z, q) => if b == x.1 then (b, z + x.2.znn, q + x.2.qsr) else (b, z, q))
    else acc ++ [(x.1, x.2.znn, x.2.qsr)]) []
  (summed.filter (fun (_, z, q) => z != 0 || q != 0)).foldl (fun acc x => reInsert x acc) []

def reEpochs (outs : List (Int × EpochOut)) : String :=
  String.join (outs.map (fun (e, o) =>
    s!"e{e}" ++ String.join ((rePerAddr o.credits).map (fun (a, z, q) => s!" {a}:{z}:{q}")) ++ " "))

def reCfg (g es : Int) (mpe : Int) : Option RCfg :=
  if h : 0 < es then some ⟨⟨g, es, 0, 0, Gen.MaxEpochsPerUpdate, h⟩, mpe⟩ else none

def reEmptyLiq : LiqState := ⟨false, 0, 0, 0, 0, [], []⟩
def reEmptyCons : Cons := ⟨fun _ => ⟨[], 0⟩, fun _ => []⟩

def reRange (first : Int) (k : Nat) : List Int := (List.range k).map (fun (i : Nat) => first + (i : Int))

/-- the per-epoch consensus input of an RE-pillar line -/
def reParseDelegs : Nat → List String → Option (Delegs × List String)
  | 0, xs => some ([], xs)
  | n + 1, name :: nb :: rest => do
      let nb ← nb.toNat?
      let (gs, rest) ← reTake 2 nb rest
      let bs ← gs.mapM (fun g => match g with
        | [a, x] => do pure (a, ← x.toNat?)
        | _ => none)
      let (more, rest) ← reParseDelegs n rest
      pure ((name, bs) :: more, rest)
  | _, _ => none

def reParseEpochs : Nat → List String → Option (List (EpochStats × Delegs) × List String)
  | 0, xs => some ([], xs)
  | n + 1, w :: ns :: rest => do
      let w ← w.toInt?
      let ns ← ns.toNat?
      let (gs, rest) ← reTake 4 ns rest
      let ps ← gs.mapM (fun g => match g with
        | [nm, pr, ex, wt] => do pure (nm, (⟨← pr.toNat?, ← ex.toNat?, ← wt.toInt?⟩ : Rewards.PillarStat))
        | _ => none)
      match rest with
      | nd :: rest => do
        let nd ← nd.toNat?
        let (dl, rest) ← reParseDelegs nd rest
        let (more, rest) ← reParseEpochs n rest
        pure ((⟨ps, w⟩, dl) :: more, rest)
      | [] => none
  | _, _ => none

def pureRewardsEpoch : List String → Option String
  | ["RE-stake-w", unit, amount, time] => do
      match stakeWeightedAmount (← unit.toInt?) (← amount.toNat?) (← time.toInt?) with
      | none => pure "panic"
      | some w => pure (toString w)
  | "RE-stake" :: g :: es :: first :: k :: n :: rest => do
      let rc ← reCfg (← g.toInt?) (← es.toInt?) Gen.MomentumsPerEpoch
      let first ← first.toInt?
      let k ← k.toNat?
      let n ← n.toNat?
      let (gs, tail) ← reTake 4 n rest
      if !tail.isEmpty then none else
      let ents ← gs.mapM (fun g => match g with
        | [a, s, r, w] => do pure (⟨a, ← s.toInt?, ← r.toInt?, ← w.toNat?⟩ : StakeEntry)
        | _ => none)
      match rewardAll .stake rc reEmptyCons ⟨ents, [], [], reEmptyLiq⟩ (reRange first k) with
      | none => pure "error"
      | some (st, outs) => pure (reEpochs outs ++ s!"left={st.stakes.length}")
  | "RE-sentinel" :: g :: es :: first :: k :: n :: rest => do
      let rc ← reCfg (← g.toInt?) (← es.toInt?) Gen.MomentumsPerEpoch
      let first ← first.toInt?
      let k ← k.toNat?
      let n ← n.toNat?
      let (gs, tail) ← reTake 3 n rest
      if !tail.isEmpty then none else
      let ents ← gs.mapM (fun g => match g with
        | [a, s, r] => do pure (⟨a, ← s.toInt?, ← r.toInt?⟩ : SentinelEntry)
        | _ => none)
      match rewardAll .sentinel rc reEmptyCons ⟨[], ents, [], reEmptyLiq⟩ (reRange first k) with
      | none => pure "error"
      | some (st, outs) => pure (reEpochs outs ++ s!"left={st.sentinels.length}")
  | "RE-pillar" :: g :: es :: mpe :: first :: k :: n :: rest => do
      let rc ← reCfg (← g.toInt?) (← es.toInt?) (← mpe.toInt?)
      let first ← first.toInt?
      let k ← k.toNat?
      let n ← n.toNat?
      let (gs, rest) ← reTake 4 n rest
      let infos ← gs.mapM (fun g => match g with
        | [nm, w, gb, gd] => do pure (⟨nm, w, ← gb.toNat?, ← gd.toNat?⟩ : PillarInfo)
        | _ => none)
      let (eps, tail) ← reParseEpochs k rest
      if !tail.isEmpty then none else
      let atE (e : Nat) : Option (EpochStats × Delegs) :=
        if (e : Int) < first then none else eps[((e : Int) - first).toNat]?
      let cons : Cons := ⟨fun e => ((atE e).map (·.1)).getD ⟨[], 0⟩, fun e => ((atE e).map (·.2)).getD []⟩
      match rewardAll .pillar rc cons ⟨[], [], infos, reEmptyLiq⟩ (reRange first k) with
      | none => pure "error"
      | some (st, outs) => pure (reEpochs outs ++ s!"left={st.pillars.length}")
  | "RE-liq" :: g :: es :: e :: halted :: az :: aq :: bz :: bq :: nt :: rest => do
      let rc ← reCfg (← g.toInt?) (← es.toInt?) Gen.MomentumsPerEpoch
      let e ← e.toInt?
      let halted ← (match halted with | "0" => some false | "1" => some true | _ => none)
      let nt ← nt.toNat?
      let (gs, rest) ← reTake 3 nt rest
      let tuples ← gs.mapM (fun g => match g with
        | [z, a, b] => do pure (⟨z, ← a.toNat?, ← b.toNat?⟩ : TokenTuple)
        | _ => none)
      match rest with
      | ne :: rest => do
        let ne ← ne.toNat?
        let (gs, tail) ← reTake 5 ne rest
        if !tail.isEmpty then none else
        let ents ← gs.mapM (fun g => match g with
          | [a, z, s, r, w] => do pure (⟨a, z, ← s.toInt?, ← r.toInt?, ← w.toNat?⟩ : LiqEntry)
          | _ => none)
        let liq : LiqState := ⟨halted, ← az.toNat?, ← aq.toNat?, ← bz.toNat?, ← bq.toNat?, tuples, ents⟩
        match rewardAll .liqStake rc reEmptyCons ⟨[], [], [], liq⟩ [e] with
        | none => pure "error"
        | some (st, outs) =>
          let m := outs.foldl (fun (acc : Int × Int × Nat × Nat) x =>
            (acc.1 + x.2.mint.1, acc.2.1 + x.2.mint.2, acc.2.2.1 + x.2.burn.1, acc.2.2.2 + x.2.burn.2)) (0, 0, 0, 0)
          pure (reEpochs outs ++ s!"mint={m.1}:{m.2.1} burn={m.2.2.1}:{m.2.2.2} left={st.liq.entries.length}")
      | [] => none
  | _ => none

end ZV.Driver
