import ZenonVerif.Model.Frame
import Driver.Core
/-
Driver handler for the `frame-model` and `disc-model` streams (C15): replays the raw bytes the harness fed to the real
rlpxFrameRW.ReadMsg / WriteMsg, readProtocolHandshake, discover.decodePacket / handlePacket / expired / encodePacket
through Model/Frame.lean. The cryptographic parameters of the model are instantiated with the answers on the line
(key stream; recorded trace of the MAC hash: sum and AES block per state, length + FNV-1a per write; Keccak of the two
suffixes of the datagram, recovered key, decoded body). A write the recording does not show puts the model's MAC state
out of step: its sums are empty from then on and the model's answer cannot match.

  fr <k> <wire> <keystream> <sums> <writes>                 | m:<code>:<size>:<len>:<fnv>,…,<need|rej:hmac|rej:fmac|rej:code|panic|end>
  fw <code> <size> <payload> <keystream> <sums> <writes>    | ok:<len>:<fnv> | err | panic
  fh <header> <keystream16> <sums> <writes>                 | consumed:<n>
  hs <code> <size>                                          | too-big | disc | not-handshake | decode
  dd <buf> <h1> <h2> <recovered> <body>                     | ok <type> <from> | too-small | bad-hash | bad-sig | unknown-type | bad-body | panic
  dh <nowSec> <buf> <h1> <h2> <recovered> <body>            | … | expired | bad-version | handled
  dx <ts> <nowSec>                                          | true | false
  dn <n> <ipLen> <ipByte> <udp> <tcp> <exp>                 | <length>
-/
namespace ZV.Driver
open ZV ZV.Frame

/-- hex string → bytes, iteratively (frames of 64 KiB) -/
def frHex? (s : String) : Option Bytes :=
  if s = "-" then some []
  else
    let r := s.foldl (fun (acc : Option (Array Nat × Option Nat)) c =>
      match acc with
      | none => none
      | some (a, pend) =>
        match hexVal c with
        | none => none
        | some v =>
          match pend with
          | none => some (a, some v)
          | some hi => some (a.push (16 * hi + v), none)) (some (#[], none))
    match r with
    | some (a, none) => some a.toList
    | _ => none

structure FrOracle where
  sums : Array (Bytes × Bytes)
  writes : Array (Nat × Nat)
  ks : Bytes

def parseSums? (s : String) : Option (Array (Bytes × Bytes)) :=
  (s.splitOn ";").foldlM (fun (acc : Array (Bytes × Bytes)) it =>
    match it.splitOn ":" with
    | [a, b] => do
        let a ← frHex? a
        let b ← frHex? b
        pure (acc.push (a, b))
    | _ => none) #[]

def parseWrites? (s : String) : Option (Array (Nat × Nat)) :=
  if s = "-" then some #[]
  else (s.splitOn ";").foldlM (fun (acc : Array (Nat × Nat)) it =>
    match it.splitOn ":" with
    | [a, b] => do
        let a ← a.toNat?
        let b ← b.toNat?
        pure (acc.push (a, b))
    | _ => none) #[]

/-- MAC state: number of (non-empty) writes so far, and whether every one of them matched the recording -/
abbrev FrMu := Nat × Bool

def frCrypto (o : FrOracle) : Crypto FrMu Nat where
  sum m := if m.2 then (o.sums.getD m.1 ([], [])).1 else []
  write m b :=
    if b.isEmpty then m
    else match o.writes[m.1]? with
      | some (l, f) => (m.1 + 1, m.2 && l == b.length && f == fnv64 b)
      | none => (m.1 + 1, false)
  block s := match o.sums.find? (fun p => p.1 == s) with
    | some p => p.2
    | none => []
  enc k b := (k + b.length, xorBytes b ((o.ks.drop k).take b.length))
  dec k b := (k + b.length, xorBytes b ((o.ks.drop k).take b.length))

def frRun (C : Crypto FrMu Nat) : Nat → RW FrMu Nat → Bytes → List String → List String
  | 0, _, _, acc => acc ++ ["end"]
  | k + 1, st, inp, acc =>
    match readMsg C st inp with
    | .msg code size payload rest st' =>
      frRun C k st' rest (acc ++ [s!"m:{code}:{size}:{payload.length}:{fnv64 payload}"])
    | .needMore => acc ++ ["need"]
    | .reject .badHeaderMAC => acc ++ ["rej:hmac"]
    | .reject .badFrameMAC => acc ++ ["rej:fmac"]
    | .reject .badCode => acc ++ ["rej:code"]
    | .panic => acc ++ ["panic"]

def frOracle? (ks sums writes : String) : Option FrOracle := do
  let ks ← frHex? ks
  let sums ← parseSums? sums
  let writes ← parseWrites? writes
  pure ⟨sums, writes, ks⟩

def parseBodyOracle? (s : String) : Option (Option Req) :=
  if s = "x" || s = "-" then some none
  else if s.startsWith "e" then
    match (String.ofList (s.toList.drop 1)).splitOn "v" with
    | [e, v] => do
        let e ← e.toNat?
        let v ← v.toNat?
        pure (some ⟨e, v⟩)
    | _ => none
  else none

def discCrypto? (buf : Bytes) (h1 h2 rec body : String) : Option DCrypto := do
  let h1 ← frHex? h1
  let h2 ← frHex? h2
  let rec' ← if rec = "x" || rec = "-" then some none else (frHex? rec).map some
  let body ← parseBodyOracle? body
  pure {
    hash := fun x => if x == buf.drop macSize then h1 else if x == buf.drop headSize then h2 else []
    recover := fun h s => if h == h2 && s == (buf.drop macSize).take sigSize then rec' else none
    body := fun t b => if t == (buf.drop headSize).getD 0 0 && b == buf.drop (headSize + 1) then body else none }

def dReason : DReason → String
  | .tooSmall => "too-small"
  | .badHash => "bad-hash"
  | .badSig => "bad-sig"
  | .unknownType => "unknown-type"
  | .badBody => "bad-body"

def pureFrame : List String → Option String
  | ["fr", k, wire, ks, sums, writes] => do
      let k ← k.toNat?
      let wire ← frHex? wire
      let o ← frOracle? ks sums writes
      pure (",".intercalate (frRun (frCrypto o) k ⟨(0, true), 0⟩ wire []))
  | ["fw", code, size, payload, ks, sums, writes] => do
      let code ← code.toNat?
      let size ← size.toNat?
      let payload ← frHex? payload
      let o ← frOracle? ks sums writes
      match writeMsg (frCrypto o) ⟨(0, true), 0⟩ code size payload with
      | .ok wire st => pure (if st.mac.2 then s!"ok:{wire.length}:{fnv64 wire}" else "out-of-step")
      | .err => pure "err"
      | .panic => pure "panic"
  | ["fh", hdr, ks, sums, writes] => do
      let hdr ← frHex? hdr
      let o ← frOracle? ks sums writes
      match readHeader (frCrypto o) ⟨(0, true), 0⟩ hdr with
      | .hdr m1 _ fsize _ => pure (if m1.2 then s!"consumed:{headerLen + roundUp16 fsize + macLen}" else "out-of-step")
      | .needMore => pure "need"
      | .reject _ => pure "rej"
      | .panic => pure "panic"
  | ["hs", code, size] => do
      let code ← code.toNat?
      let size ← size.toNat?
      pure (match protoHandshakeGate true code size with
        | .readErr => "read-error"
        | .tooBig => "too-big"
        | .disc => "disc"
        | .notHandshake => "not-handshake"
        | .decode => "decode")
  | ["dd", buf, h1, h2, rec, body] => do
      let buf ← frHex? buf
      let D ← discCrypto? buf h1 h2 rec body
      pure (match decodePacket D buf with
        | .ok t fromID _ _ => s!"ok {t} {toHex fromID}"
        | .reject r => dReason r
        | .panic => "panic")
  | ["dh", now, buf, h1, h2, rec, body] => do
      let now ← now.toNat?
      let buf ← frHex? buf
      let D ← discCrypto? buf h1 h2 rec body
      pure (match handlePacket D now 1 discVersion buf with
        | .reject r => dReason r
        | .expired => "expired"
        | .badVersion => "bad-version"
        | .handled _ => "handled"
        | .panic => "panic")
  | ["dx", ts, now] => do
      let ts ← ts.toNat?
      let now ← now.toNat?
      pure (showBool (expired ts now 1))
  | ["dn", n, ipLen, ipByte, udp, tcp, exp] => do
      let n ← n.toNat?
      let ipLen ← ipLen.toNat?
      let ipByte ← ipByte.toNat?
      let udp ← udp.toNat?
      let tcp ← tcp.toNat?
      let exp ← exp.toNat?
      let node : RpcNode := ⟨List.replicate ipLen ipByte, udp, tcp, List.replicate Gen.DiscNodeIDBytes 1⟩
      pure (toString (neighborsPacketLen (List.replicate n node) exp))
  | _ => none

end ZV.Driver
