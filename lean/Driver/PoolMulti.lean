import ZenonVerif.Model.PoolMulti
import Driver.Pool
/-
Driver handler for the C14 stream `pool-multi`: the whole pool (several addresses, transactions with several commits)
replayed on Model/PoolMulti.lean.
-/
namespace ZV.Driver
open ZV ZV.Pool ZV.PoolMulti

/-- model state, number of addresses, identifiers in first-seen order -/
structure PmSt where
  pool : PoolSt := PoolSt.empty
  k    : Nat := 0
  seen : List (Addr × Id) := []

def pmNote (seen : List (Addr × Id)) (a : Addr) (i : Id) : List (Addr × Id) :=
  if seen.contains (a, i) then seen else seen ++ [(a, i)]

/-- what the harness reads after every operation; reading creates the managers -/
def pmObserve (st : PmSt) : PmSt × String :=
  let addrs := List.range st.k
  let parts := addrs.map (fun a =>
    let x := st.pool a
    let fid := x.manager.frontierId
    match uncommittedBlocks x with
    | none => "panic"
    | some bs =>
      let u := if bs.isEmpty then "-" else ",".intercalate (bs.map (fun b => showH4 b.hash))
      s!"{fid.2}:{showH4 fid.1} {u}")
  let ps := (st.seen.filter (fun e => hasPatch st.pool e.1 e.2)).map (fun e => s!"{e.1}:{e.2.2}:{showH4 e.2.1}")
  let p := if ps.isEmpty then "-" else ",".intercalate ps
  -- materialised (the model state is a function: keep the closures flat)
  let tbl : Array AState := (addrs.map (fun a => ({ st.pool a with mgr := some (st.pool a).manager } : AState))).toArray
  let pool' : PoolSt := fun a => tbl.getD a {}
  ({ st with pool := pool' }, ";".intercalate parts ++ " # " ++ p)

def parseCommits : Nat → List String → Option (List Blk)
  | 0, [] => some []
  | 0, _ :: _ => none
  | n + 1, h :: hs :: pv :: ty :: t :: b :: rest => do
      let h ← h.toNat?
      let hs ← parseH4 hs
      let pv ← parseH4 pv
      let ty ← ty.toNat?
      let t ← t.toNat?
      let b ← b.toNat?
      let more ← parseCommits n rest
      pure ({ height := h, hash := hs, prevHash := pv, total := t, base := b, btype := ty } :: more)
  | _, _ => none

def parseContent : Nat → List String → Option (List (Addr × Blk))
  | 0, [] => some []
  | 0, _ :: _ => none
  | n + 1, a :: h :: hs :: pv :: ty :: rest => do
      let a ← a.toNat?
      let h ← h.toNat?
      let hs ← parseH4 hs
      let pv ← parseH4 pv
      let ty ← ty.toNat?
      let more ← parseContent n rest
      pure ((a, { height := h, hash := hs, prevHash := pv, btype := ty }) :: more)
  | _, _ => none

def pmStep (st : PmSt) : List String → Option (PmSt × String)
  | ["pm-new", k] => do
      let k ← k.toNat?
      pure ({ k := k }, "")
  | "pm-insert" :: n :: rest => do
      let n ← n.toNat?
      let content ← parseContent n rest
      -- a missing height inside rebuild is a nil dereference
      if (List.range st.k).any (fun a => (rebuildAddr (confirmAll st.pool content a)).2 = .nilDeref) then
        pure (st, "panic")
      else
        let seen := content.foldl (fun acc e => pmNote acc e.1 e.2.id) st.seen
        let (st2, o) := pmObserve { st with pool := insertMomentum st.pool content, seen := seen }
        pure (st2, o)
  | "pm-delete" :: k :: rest => do
      let k ← k.toNat?
      let keeps ← rest.mapM String.toNat?
      if keeps.length ≠ k then none else
      let (st2, o) := pmObserve { st with pool := deleteMomentum st.pool (fun a => keeps.getD a 0) }
      pure (st2, o)
  | ["pm-offer", max, order] => do
      let max ← max.toNat?
      let order ← (order.splitOn ".").mapM String.toNat?
      match offered max st.pool order with
      | none => pure (st, "panic")
      | some bs =>
        let gs := bs.map (fun e => s!"{e.1}:{showH4 e.2.hash}")
        pure (st, if gs.isEmpty then "-" else ",".intercalate gs)
  | op :: a :: f :: n :: rest => do
      -- pm-add: the code as it is; pm-addR: the repaired rule (VERIF_POOL_REPAIRED=1 on the harness side)
      if op ≠ "pm-add" ∧ op ≠ "pm-addR" then none else
      let a ← a.toNat?
      let f ← f.toNat?
      let n ← n.toNat?
      let cs ← parseCommits n rest
      let head ← cs.getLast?
      let t : Tx := ⟨cs.dropLast, head⟩
      let (p1, r) := if op = "pm-addR" then addAtR st.pool a t (f != 0) else addAt st.pool a t (f != 0)
      let seen := cs.foldl (fun acc b => pmNote acc a b.id) st.seen
      let (st2, o) := pmObserve { st with pool := p1, seen := seen }
      pure (st2, s!"{showAddRes r} {o}")
  | _ => none

end ZV.Driver
