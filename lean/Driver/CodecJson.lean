import ZenonVerif.Model.CodecJson
import Driver.Codec
import Driver.JsonRpc
/-
Driver handler of the JSON-object lines of the `codec` stream (C13 / C18).

  json-mar  <tbl> <block tokens>     | <json>        marshalBlock, printed in the compact form of Driver/JsonRpc.lean
  json-unm  <ptbl> <json>            | ok <block tokens> | err | nildesc
  jsonm-mar <tbl> <momentum tokens>  | <json>
  jsonm-unm <ptbl> <json>            | ok <momentum tokens> | err | nilcontent

  <tbl>  ::= - | <hexbytes>=<text>(,<hexbytes>=<text>)*         bech32 text of every address / token standard of the value
  <ptbl> ::= - | <hex of text or ->=a:<hex|err>;z:<hex|err>(,…)*   types.ParseAddress / types.ParseZTS of every string in the document

Hash (hex) and []byte (base64) use the executable leaves of the model; bech32 comes from the tables (oracle, DESIGN §1.4).
-/
namespace ZV.Driver
open ZV ZV.Codec ZV.JsonRpc ZV.CodecJson

mutual
def showJson : Json → String
  | .null => "z"
  | .bool true => "t"
  | .bool false => "f"
  | .num l => "n" ++ l ++ ";"
  | .str s => "s" ++ hexOfString s ++ ";"
  | .arr l => "[" ++ showJsons l ++ "]"
  | .obj ms => "{" ++ showMembers ms ++ "}"
def showJsons : List Json → String
  | [] => ""
  | j :: r => showJson j ++ showJsons r
def showMembers : List (String × Json) → String
  | [] => ""
  | (k, v) :: r => hexOfString k ++ ":" ++ showJson v ++ showMembers r
end

def splitEq (s : String) : Option (String × String) :=
  match s.splitOn "=" with
  | [a, b] => some (a, b)
  | _ => none

def parseTbl (s : String) : Option (List (String × String)) :=
  if s = "-" then some [] else (s.splitOn ",").mapM splitEq

def textOf (tbl : List (String × String)) (b : Bytes) : String :=
  match tbl.lookup (showHex b) with
  | some t => t
  | none => "?"

def marLeaves (tbl : List (String × String)) : Leaves := {
  addrText := textOf tbl, addrParse := fun _ => none, ztsText := textOf tbl, ztsParse := fun _ => none,
  b64Text := b64Text, b64Parse := b64Parse, hashText := hexHashText, hashParse := hexHashParse }

def parseRes (s : String) : Option (Option Bytes) :=
  if s = "err" then some none else (ofHex s).map some

/-- `a:<res>;z:<res>` -/
def parsePEntry (s : String) : Option (Option Bytes × Option Bytes) :=
  match s.splitOn ";" with
  | [a, z] =>
    if a.startsWith "a:" ∧ z.startsWith "z:" then do
      let ra ← parseRes (a.drop 2).toString
      let rz ← parseRes (z.drop 2).toString
      pure (ra, rz)
    else none
  | _ => none

def parsePTbl (s : String) : Option (List (String × Option Bytes × Option Bytes)) :=
  if s = "-" then some [] else
    (s.splitOn ",").mapM fun e => do
      let (k, v) ← splitEq e
      let r ← parsePEntry v
      pure (k, r)

def keyOf (s : String) : String := if s.isEmpty then "-" else hexOfString s

def unmLeaves (tbl : List (String × Option Bytes × Option Bytes)) : Leaves := {
  addrText := fun _ => "?", ztsText := fun _ => "?",
  addrParse := fun s => (tbl.lookup (keyOf s)).bind (·.1),
  ztsParse := fun s => (tbl.lookup (keyOf s)).bind (·.2),
  b64Text := b64Text, b64Parse := b64Parse, hashText := hexHashText, hashParse := hexHashParse }

def pureCodecJson : List String → Option String
  | "json-mar" :: tbl :: toks => do
      let tbl ← parseTbl tbl
      let (b, rest) ← parseBlock 64 toks
      if !rest.isEmpty then none
      pure (showJson (marshalBlock (marLeaves tbl) b))
  | ["json-unm", tbl, js] => do
      let tbl ← parsePTbl tbl
      let (j, rest) ← parseJson js.toList
      if !rest.isEmpty then none
      match unmarshalBlock (unmLeaves tbl) j with
      | .ok b => pure ("ok " ++ showBlock b)
      | .error .nilDescendant => pure "nildesc"
      | .error .notModelled => none
      | .error _ => pure "err"
  | "jsonm-mar" :: tbl :: toks => do
      let tbl ← parseTbl tbl
      let (m, rest) ← parseMomentum toks
      if !rest.isEmpty then none
      pure (showJson (marshalMomentum (marLeaves tbl) m))
  | ["jsonm-unm", tbl, js] => do
      let tbl ← parsePTbl tbl
      let (j, rest) ← parseJson js.toList
      if !rest.isEmpty then none
      match unmarshalMomentum (unmLeaves tbl) j with
      | .ok m => pure ("ok " ++ showMomentum m)
      | .error .nilContent => pure "nilcontent"
      | .error .notModelled => none
      | .error _ => pure "err"
  | _ => none

end ZV.Driver
