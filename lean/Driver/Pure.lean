import ZenonVerif.Model.Pow
import ZenonVerif.Model.Rpc
import Driver.Core
/-
Driver handlers for the pure (stateless) streams: each maps the operation tokens to the model's answer,
or `none` when the line cannot be parsed (never a default).
-/
namespace ZV.Driver
open ZV

def purePow : List String → Option String
  | ["pow-target", d] => do
      let d ← d.toNat?
      pure (toHex (Pow.targetBytes d))
  | ["diff-plasma", d] => do
      let d ← d.toNat?
      pure (toString (Pow.difficultyToPlasma d))
  | ["pow-gd", x, y] => do
      let x ← ofHex x
      let y ← ofHex y
      pure (showBool (Pow.greaterDifficulty x y))
  | ["fused-plasma", a] => do
      let a ← a.toInt?
      pure (toString (Pow.fusedAmountToPlasma a))
  | ["plasma-diff", p] => do
      let p ← p.toNat?
      match Pow.difficultyForPlasma p with
      | none => pure "err 0"
      | some d => pure s!"ok {d}"
  | _ => none

def pureRpc : List String → Option String
  | ["get-range", i, c, n] => do
      let i ← i.toNat?
      let c ← c.toNat?
      let n ← n.toNat?
      let (s, e) := Rpc.getRange i c n
      pure s!"{s} {e}"
  | _ => none

end ZV.Driver
