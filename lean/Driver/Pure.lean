import ZenonVerif.Model.Pow
import ZenonVerif.Model.Rpc
import Driver.Core
/-
Driver handlers for the pure (stateless) streams: each maps the operation tokens to the model's answer,
or `none` when the line cannot be parsed (never a default).
-/
namespace ZV.Driver
open ZV

def purePow : List String → Option String
  | ["pow-target", d] => do
      let d ← d.toNat?
      pure (toHex (Pow.targetBytes d))
  | ["diff-plasma", d] => do
      let d ← d.toNat?
      pure (toString (Pow.difficultyToPlasma d))
  | ["pow-gd", x, y] => do
      let x ← ofHex x
      let y ← ofHex y
      pure (showBool (Pow.greaterDifficulty x y))
  | ["pow-check", h8, d] => do
      let h8 ← ofHex h8
      let d ← d.toNat?
      pure (showBool (Pow.checkPoWNonce h8 d))
  | ["pow-seq", qs] => do
      -- a whole session: hash-prefix:difficulty pairs separated by commas; answer = one t/f per query, in order
      let qs ← (qs.splitOn ",").mapM (fun q => match q.splitOn ":" with
        | [h, d] => do pure ((← ofHex h), (← d.toNat?))
        | _ => none)
      pure (String.ofList ((Pow.checkSeq qs).map (fun b => if b then 't' else 'f')))
  | ["fused-plasma", a] => do
      let a ← a.toInt?
      pure (toString (Pow.fusedAmountToPlasma a))
  | ["plasma-check", q, cm, un, f, d, b] => do
      let q ← q.toInt?
      let cm ← cm.toNat?
      let un ← un.toNat?
      let f ← f.toNat?
      let d ← d.toNat?
      let b ← b.toNat?
      pure (match Pow.enoughPlasma q cm un f d b with
        | .ok _ => "ok"
        | .negativeAvailable => "vm-panic"
        | .notEnoughPlasma => "not-enough-plasma"
        | .limitReached => "limit-reached"
        | .notEnoughTotal => "not-enough-total")
  | ["plasma-base", kind, mc, dlen] => do
      -- base cost of a user's block by type (recv | send), called method's cost (- = no embedded method is called) and data length
      let isRecv ← (match kind with | "recv" => some true | "send" => some false | _ => none)
      let mc ← (if mc = "-" then some none else mc.toNat?.map some)
      let dlen ← dlen.toNat?
      pure (match Pow.basePlasmaChecked isRecv mc dlen with
        | some b => s!"ok {b}"
        | none => "too-big")
  | ["plasma-method", regime, name] => do
      -- cost of a call of contract.Method under a spork regime, by the REVIEWED kind of the method (Model/Pow.lean)
      let regime ← regime.toNat?
      pure (match Pow.reviewedCost regime name with
        | some c => s!"ok {c}"
        | none => "unreviewed")
  | ["plasma-call", regime, name, total] => do
      -- a call of contract.Method carrying `total` plasma the account owns: refused for too little total plasma?
      let regime ← regime.toNat?
      let total ← total.toNat?
      pure (match Pow.methodCallPaid regime name total with
        | some true => "paid"
        | some false => "not-enough-total"
        | none => "unreviewed")
  | ["plasma-avail", g, evs, h, blks] => do
      -- availability on a chain (plasma-reorg stream): genesis QSR, the plasma contract's receives for the account as
      -- height:delta pairs, the acknowledged height, the account's blocks as c<confirmation height>:fused / p:fused
      let g ← g.toInt?
      let h ← h.toNat?
      let evs ← (if evs = "-" then some [] else (evs.splitOn ",").mapM (fun e => match e.splitOn ":" with
        | [eh, d] => do pure (Pow.FuseEv.mk (← eh.toNat?) (← d.toInt?))
        | _ => none))
      let blks ← (if blks = "-" then some [] else (blks.splitOn ",").mapM (fun b => match b.splitOn ":" with
        | [c, f] => do
            let f ← f.toNat?
            if c = "p" then pure (Pow.AccBlk.mk none f)
            else if c.startsWith "c" then pure (Pow.AccBlk.mk (some (← (c.drop 1).toNat?)) f)
            else none
        | _ => none))
      pure (match Pow.availableOnChain g evs blks h with
        | some a => s!"ok {a}"
        | none => "neg")
  | ["plasma-diff", p] => do
      let p ← p.toNat?
      match Pow.difficultyForPlasma p with
      | none => pure "err 0"
      | some d => pure s!"ok {d}"
  | _ => none

def showHeights (l : List Nat) : String :=
  if l.isEmpty then "none" else ",".intercalate (l.map toString)

def pageLine (H i c : String) : Option String := do
  let H ← H.toNat?
  let i ← i.toNat?
  let c ← c.toNat?
  if c > Gen.RpcMaxPageSize then pure "err"
  else pure (showHeights (Rpc.pageHeights H i c) ++ s!" count={H}")

def heightLine (H h c : String) : Option String := do
  let H ← H.toNat?
  let h ← h.toNat?
  let c ← c.toNat?
  if h = 0 ∨ c > Gen.RpcMaxCountSize then pure "err"
  else pure (showHeights (Rpc.byHeight H h c) ++ s!" count={H}")

/-- a page of a paged getter over a collection of n elements: where it starts, how long it is, the total it reports
    (`rpc-emb-wide`: the same for index/size pairs whose product passes 2^32) -/
def embPage (i c n : String) : Option String := do
  let i ← i.toNat?
  let c ← c.toNat?
  let n ← n.toNat?
  let (s, e) := Rpc.getRange i c n
  let first := if s < e then toString s else "-"
  pure s!"first={first} len={e - s} count={n}"

def pureRpc : List String → Option String
  | ["get-range", i, c, n] => do
      let i ← i.toNat?
      let c ← c.toNat?
      let n ← n.toNat?
      let (s, e) := Rpc.getRange i c n
      pure s!"{s} {e}"
  | ["rpc-emb-page", _name, i, c, n] => embPage i c n
  | ["rpc-emb-wide", _name, i, c, n] => embPage i c n
  | ["rpcserver-survived"] => some "ok"
  | ["rpc-mom-page", H, i, c] => pageLine H i c
  | ["rpc-acc-page", H, i, c] => pageLine H i c
  | ["rpc-mom-height", H, h, c] => heightLine H h c
  | ["rpc-acc-height", H, h, c] => heightLine H h c
  | _ => none

end ZV.Driver
