import ZenonVerif.Model.Versioned
import ZenonVerif.Model.Crash
import Driver.Core
/-
Driver for the `vdb` stream: replays commit / pop / view / read / write operations through the model of the
versioned store and the view tree.
-/
namespace ZV.Driver
open ZV ZV.Kv ZV.Versioned ZV.Crash

structure VdbSt where
  ldb : Ldb := Ldb.empty
  views : Views := []
  lastPlan : List Batch := []      -- write plan of the most recent commit / rollback (C08)

def parseId (s : String) : Option Id :=
  match s.splitOn ":" with
  | [h, x] => do
    let h ← h.toNat?
    if x.isEmpty then (if h = 0 then some Id.zero else none)
    else do
      let b ← ofHex x
      pure ⟨h, b⟩
  | _ => none

def parseOp (s : String) : Option Op :=
  if s.startsWith "p:" then
    match (s.drop 2).toString.splitOn "=" with
    | [k, v] => do
      let k ← ofHex k
      let v ← ofHex v
      pure (Op.put k v)
    | _ => none
  else if s.startsWith "d:" then do
    let k ← ofHex (s.drop 2).toString
    pure (Op.del k)
  else none

def parseOps (s : String) : Option Patch :=
  if s = "none" then some [] else (s.splitOn ",").mapM parseOp

def showOp : Op → String
  | .put k v => "p:" ++ showHex k ++ "=" ++ showHex v
  | .del k => "d:" ++ showHex k

def showOps (p : Patch) : String :=
  if p.isEmpty then "none" else ",".intercalate (p.map showOp)

def showEntries (r : Raw) : String :=
  if r.isEmpty then "empty" else ",".intercalate (r.map (fun e => showHex e.1 ++ "=" ++ showHex e.2))

/-- symbolic rendering of the bookkeeping keys (same convention as the harness) -/
def symKey (k : Bytes) : String :=
  if k = keyFrontierId then "M0"
  else if Gen.heightByHashPrefix.length ≤ k.length ∧ isPrefix Gen.heightByHashPrefix k ∧ k.length = 9 then
    "M1:" ++ toHex (k.drop Gen.heightByHashPrefix.length)
  else if isPrefix Gen.entryByHeightPrefix k ∧ k.length = 9 ∧ k.head? = some 2 then
    "M2:" ++ toString (beVal (k.drop 1))
  else showHex k

def symVal (k v : Bytes) : String :=
  if k = keyFrontierId then toString (decId v).height ++ ":" ++ toHex (decId v).hash
  else if isPrefix Gen.heightByHashPrefix k ∧ k.length = 9 ∧ k.head? = some 1 then toString (beVal v)
  else if isPrefix Gen.entryByHeightPrefix k ∧ k.length = 9 ∧ k.head? = some 2 then toHex v
  else showHex v

def symOp : Op → String
  | .put k v => "p:" ++ symKey k ++ "=" ++ symVal k v
  | .del k => "d:" ++ symKey k

def symOps (p : Patch) : String := "[" ++ ",".intercalate (p.map symOp) ++ "]"

def isUserKey (k : Bytes) : Bool := match k with | b :: _ => b ≥ 3 | [] => false

def showW : W → String
  | .redo h (some p) => s!"R{h}=" ++ symOps p
  | .redo h none => s!"R{h}=DEL"
  | .undo h (some p) => s!"U{h}=" ++ symOps p
  | .undo h none => s!"U{h}=DEL"
  | .front k raw =>
    "F" ++ symKey k ++ "=" ++
      (match raw with
       | [] => "T"
       | _ :: v => if isUserKey k then toHex raw else symVal k v)

def showPlan (plan : List Batch) : String :=
  let bs := plan.map (fun b => if b.isEmpty then "none" else ",".intercalate (b.map showW))
  s!"{plan.length} " ++ " ; ".intercalate bs

/-- FNV-1a (64 bit) over the logical entries of the frontier outside the bookkeeping keys: for each entry
    be32 |k|, be32 |v|, k, v. Same function as `fnv64` in the harness. -/
def fnvFeed (h : Nat) (b : Nat) : Nat := ((h ^^^ b) * 1099511628211) % 18446744073709551616

def fnvEntries (es : Raw) : Nat :=
  es.foldl (fun h e =>
    let bytes := beBytes 4 e.1.length ++ beBytes 4 e.2.length ++ e.1 ++ e.2
    bytes.foldl fnvFeed h) 14695981039346656037

def frontierDigest (l : Ldb) : String :=
  let es := (edEntries l.frontier).filter (fun e => isUserKey e.1)
  s!"{es.length} {fnvEntries es}"

def vdbStep (st : VdbSt) : List String → Option (VdbSt × String)
  | ["vdb-reset"] => some ({}, "ok")
  | ["vdb-add", prev, id, ops] => do
    let prev ← parseId prev
    let id ← parseId id
    let ops ← parseOps ops
    match st.ldb.add prev id ops with
    | none => pure ({ st with lastPlan := [] }, "err")
    | some l => pure ({ st with ldb := l, lastPlan := planAdd st.ldb prev id ops }, "ok")
  | ["vdb-pop"] =>
    match st.ldb.pop with
    | none => some ({ st with lastPlan := [] }, "err")
    | some l => some ({ st with ldb := l, lastPlan := planPop st.ldb }, "ok")
  | ["crash-plan"] => some (st, showPlan st.lastPlan)
  | ["crash-plan-large"] => some (st, "ok")
  | ["sync-digest", _] => some (st, frontierDigest st.ldb)
  | ["vdb-view", name, id] => do
    let id ← parseId id
    match st.ldb.get id with
    | none => pure (st, "nil")
    | some r => pure ({ st with views := setNode st.views name (.layer [] none r) }, "ok")
  | ["vdb-memroot", name] =>
    some ({ st with views := setNode st.views name (.layer [] none Root.mem) }, "ok")
  | ["vdb-get", name, k] => do
    let k ← ofHex k
    match getV st.views name k with
    | none => pure (st, "notfound")
    | some v => pure (st, "val:" ++ showHex v)
  | ["vdb-has", name, k] => do
    let k ← ofHex k
    pure (st, showBool (getV st.views name k).isSome)
  | ["vdb-scan", name, p] => do
    let p ← ofHex p
    pure (st, showEntries (scanV st.views name p))
  | ["vdb-scanu", name, p] => do
    -- the scan of everything in the coordinates of a manager's root, the store's bookkeeping entries left out
    -- (the empty key is an ordinary entry)
    let p ← ofHex p
    pure (st, showEntries ((scanV st.views name p).filter (fun e => e.1.isEmpty || isUserKey e.1)))
  | ["vdb-put", name, k, v] => do
    let k ← ofHex k
    let v ← ofHex v
    pure ({ st with views := applyV st.views name [Op.put k v] }, "true")
  | ["vdb-del", name, k] => do
    let k ← ofHex k
    pure ({ st with views := applyV st.views name [Op.del k] }, "true")
  | ["vdb-snap", name, child] =>
    some ({ st with views := setNode st.views child (.layer [] (some name) Root.mem) }, "ok")
  | ["vdb-subset", name, child, p] => do
    let p ← ofHex p
    pure ({ st with views := setNode st.views child (.sub name p) }, "ok")
  | ["vdb-changes", name] => some (st, showOps (changesV st.views name))
  | ["vdb-apply", name, ops] => do
    let ops ← parseOps ops
    pure ({ st with views := applyV st.views name ops }, "true")
  | _ => none

def vdbObj : Obj := mkObj ({} : VdbSt) vdbStep

end ZV.Driver
