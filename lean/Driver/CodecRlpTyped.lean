import ZenonVerif.Model.CodecRLPTyped
import Driver.Codec
/-
Driver handler of the `ab-unrlp` lines of the `codec` stream (C13): the typed RLP decoder.
  ab-unrlp <hex> | ok <block tokens> | err
-/
namespace ZV.Driver
open ZV ZV.Codec

def pureRlpTyped : List String → Option String
  | ["ab-unrlp", data] => do
    let d ← ofHex data
    match rlpDecodeBlock d with
    | some b => pure ("ok " ++ showBlock b)
    | none => pure "err"
  | _ => none

end ZV.Driver
