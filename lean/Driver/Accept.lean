import ZenonVerif.Model.Accept
import Driver.Core
/-
Driver handler of the `acc` lines of the `variants` stream (C13, acceptance side): a variant of a block the producer
accepted, delivered by gossip to a real follower, against `Accept.applyBlock`.

  acc <path> <where> <name> hon=<0|1> H <bp> <tp> <ch> <pk> <sig> D <bp> <tp> <ch> <pk> <sig> sigok=<0|1> pkown=<0|1>
      | <accepted|rejected> <equal|different|->

The environment of the model is built from the oracle values of the line: `hon` (the node's verdict on the honest copy in the
same state: every check that reads covered fields and state only), `sigok` (Ed25519), `pkown` (PubKeyToAddress); the covered
fields are the same in both blocks by construction of the stream (same hash), so they are represented by one fixed body and a
constant hash function. The model is run on the honest and on the delivered block; `equal` = both results have the same body
and the same descendant bodies. Legacy `variant …` lines carry no observation.
-/
namespace ZV.Driver
open ZV ZV.Codec ZV.Accept

structure AccU where
  bp : Nat
  tp : Nat
  ch : Bytes
  pk : Bytes
  sig : Bytes

def parseAccU : List String → Option (AccU × List String)
  | bp :: tp :: ch :: pk :: sg :: rest => do
    pure (⟨← bp.toNat?, ← tp.toNat?, ← ofHex ch, ← ofHex pk, ← ofHex sg⟩, rest)
  | _ => none

def accHash : Bytes := List.replicate 32 1

def accBody (contract : Bool) (fused : Nat) (u : AccU) : ABody :=
  { (default : ABody) with
    blockType := if contract then 5 else 2
    hash := accHash
    address := if contract then [9] else [1]
    fusedPlasma := fused
    basePlasma := u.bp
    totalPlasma := u.tp
    changesHash := u.ch
    publicKey := u.pk
    signature := u.sig }

def accEnv (hon sigok pkown : Bool) (h d : AccU) (honestBlock : Block) : Env where
  H := fun _ => accHash
  isEmbedded := fun a => a == [9]
  verifierOK := fun _ => hon
  available := fun _ => two64
  powPlasma := fun _ => 0
  maxPlasma := two64
  basePlasma := fun _ => h.bp
  applyOK := fun _ => true
  generate := fun _ => if hon then some honestBlock else none
  verifySig := fun pk _ sg => (pk == h.pk && sg == h.sig) || (pk == d.pk && sg == d.sig && sigok)
  pubKeyToAddress := fun pk => if pk == h.pk || (pk == d.pk && pkown) then [1] else [2]
  descOK := fun _ => true

def flag? (pfx : String) (s : String) : Option Bool :=
  if s == pfx ++ "1" then some true else if s == pfx ++ "0" then some false else none

def pureAccept : List String → Option String
  | "variant" :: _ => some ""
  | "acc" :: path :: wher :: _name :: hon :: "H" :: rest => do
    let contract ← (if path == "user" then some false else if path == "contract" then some true else none)
    let hon ← flag? "hon=" hon
    let (h, rest) ← parseAccU rest
    match rest with
    | "D" :: rest => do
      let (d, rest) ← parseAccU rest
      match rest with
      | [sigok, pkown] => do
        let sigok ← flag? "sigok=" sigok
        let pkown ← flag? "pkown=" pkown
        let fused := if contract then 0 else h.tp
        -- an altered descendant: the delivered receive carries one descendant that differs from the honest one
        let hdesc : List Block := if wher == "descendant" then [⟨accBody true 0 ⟨0, 0, [], [], []⟩, []⟩] else []
        let ddesc : List Block := if wher == "descendant" then [⟨accBody true 0 ⟨7, 9, [5], [6], [7]⟩, []⟩] else []
        if wher != "descendant" && wher != "receive" && wher != "block" then none
        let honest : Block := ⟨accBody contract fused h, hdesc⟩
        let delivered : Block := ⟨accBody contract fused d, ddesc⟩
        let env := accEnv hon sigok pkown h d honest
        match applyBlock env delivered, applyBlock env honest with
        | .ok s, .ok hs =>
          pure ("accepted " ++ (if s.body == hs.body && s.desc.map (·.body) == hs.desc.map (·.body) then "equal" else "different"))
        | .ok _, .error _ => pure "accepted honest-refused"
        | .error _, _ => pure "rejected -"
      | _ => none
    | _ => none
  | _ => none

end ZV.Driver
