import ZenonVerif.Model.Proto
import Driver.Core
/-
Driver handler for the `p2p` stream (C15): replays every message the harness sent to the real
ProtocolManager through `Proto.handleMsg` / `Proto.handshake`.

  p2p-hs  <code> <size> <dec> <genesisOk> <networkOk> <versionOk>          | ok | err <class>
  p2p-msg <H> <code> <size> undec                                          | <reply>
  p2p-msg <H> <code> <size> gh <height|-> <amount>                         | <reply>
  p2p-msg <H> <code> <size> ghn <number> <amount>                          | <reply>
  p2p-msg <H> <code> <size> gb <items|-> <tailBad>                         | <reply>     items: k<h>[*n] | u[*n], comma separated
  p2p-msg <H> <code> <size> items <n> <nilItem>                            | <reply>
  <reply> ::= hashes <n> <first|-> <last|-> <asc|desc|one|none|mixed> | blocks <n> <h,h,…|-> | cont | err <class> | panic
-/
namespace ZV.Driver
open ZV ZV.Proto

def errName : Err → String
  | .msgTooLarge => "toolarge"
  | .decode => "decode"
  | .invalidMsgCode => "badcode"
  | .protocolVersionMismatch => "version"
  | .networkIdMismatch => "network"
  | .genesisBlockMismatch => "genesis"
  | .noStatusMsg => "nostatus"
  | .extraStatusMsg => "extrastatus"
  | .other => "other"

def isAsc : List Nat → Bool
  | a :: b :: rest => b == a + 1 && isAsc (b :: rest)
  | _ => true

def isDesc : List Nat → Bool
  | a :: b :: rest => a == b + 1 && isDesc (b :: rest)
  | _ => true

def shapeOf (l : List Nat) : String :=
  match l with
  | [] => "none"
  | [_] => "one"
  | _ => if isAsc l then "asc" else if isDesc l then "desc" else "mixed"

def showOptNat : Option Nat → String
  | some n => toString n
  | none => "-"

def showReply : Reply → String
  | .hashes l => s!"hashes {l.length} {showOptNat l.head?} {showOptNat l.getLast?} {shapeOf l}"
  | .blocks l => s!"blocks {l.length} {if l.isEmpty then "-" else ",".intercalate (l.map toString)}"
  | .cont => "cont"
  | .err e => s!"err {errName e}"
  | .panic => "panic"

def parseBool? : String → Option Bool
  | "1" => some true
  | "0" => some false
  | "true" => some true
  | "false" => some false
  | _ => none

def parseOptNat? (s : String) : Option (Option Nat) :=
  if s = "-" then some none else s.toNat?.map some

/-- one run-length item: `k12`, `k12*3`, `u`, `u*40` -/
def parseGbItem? (s : String) : Option (List (Option Nat)) := do
  let (body, cnt) ← match s.splitOn "*" with
    | [b] => some (b, 1)
    | [b, c] => c.toNat?.map (fun n => (b, n))
    | _ => none
  let v ← if body = "u" then some (none : Option Nat)
          else if body.startsWith "k" then (body.drop 1).toNat?.map some
          else none
  pure (List.replicate cnt v)

def parseGb? (s : String) : Option (List (Option Nat)) :=
  if s = "-" then some []
  else (s.splitOn ",").foldlM (fun acc it => (parseGbItem? it).map (fun l => acc ++ l)) []

def parseBody? : List String → Option Body
  | ["undec"] => some .undecodable
  | ["gh", h, a] => do
      let h ← parseOptNat? h
      let a ← a.toNat?
      pure (.getHashes h a)
  | ["ghn", n, a] => do
      let n ← n.toNat?
      let a ← a.toNat?
      pure (.getHashesFromNumber n a)
  | ["gb", items, bad] => do
      let l ← parseGb? items
      let b ← parseBool? bad
      pure (.getBlocks l b)
  | ["items", n, nl] => do
      let n ← n.toNat?
      let b ← parseBool? nl
      pure (.items n b)
  | _ => none

def pureProto : List String → Option String
  | ["p2p-hs", code, size, dec, g, n, v] => do
      let code ← code.toNat?
      let size ← size.toNat?
      let dec ← parseBool? dec
      let g ← parseBool? g
      let n ← parseBool? n
      let v ← parseBool? v
      match handshake code size dec g n v with
      | none => pure "ok"
      | some e => pure s!"err {errName e}"
  | "p2p-msg" :: h :: code :: size :: body => do
      let h ← h.toNat?
      let code ← code.toNat?
      let size ← size.toNat?
      let body ← parseBody? body
      let (_, r) := handleMsg { H := h } ⟨code, size, body⟩
      pure (showReply r)
  | _ => none

end ZV.Driver
