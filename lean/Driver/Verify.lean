import ZenonVerif.Model.Verify
import Driver.Core
/-
Driver for the `verify` stream (C03): a line is
  verify m=<label> <k=v block fields> nd=<n> eph=.. epz=.. <d<i>.k=v descendant fields> ; <k=v facts>
The handler rebuilds `Cand` and `Facts`, checks that the harness's effective predecessor (from the real
`nom.AccountBlock.Previous()`) is the model's, and answers `verifyBlock`.
A missing or malformed key makes the line unparsable (`none`), never a default.
-/
namespace ZV.Driver.VerifyD
open ZV.Verify ZV.Driver

abbrev KV := List (String × String)

def parseKV (toks : List String) : Option KV :=
  toks.mapM (fun t =>
    match t.splitOn "=" with
    | [k, v] => some (k, v)
    | _ => none)

def KV.get (kv : KV) (k : String) : Option String := (kv.find? (·.1 == k)).map (·.2)

def kvNat (kv : KV) (k : String) : Option Nat := do (← kv.get k).toNat?
def kvBool (kv : KV) (k : String) : Option Bool := do
  match ← kv.get k with
  | "1" => some true
  | "0" => some false
  | _ => none
/-- optional natural: the given word stands for `none` -/
def kvOptNat (kv : KV) (k : String) (noneWord : String) : Option (Option Nat) := do
  let v ← kv.get k
  if v == noneWord then some none else (v.toNat?).map some
/-- a fact that is not applicable on this line ("-") gets the given filler; the model never reads it on such lines
    because the guarding fact (store / maon) is false -/
def kvNatOr (kv : KV) (k : String) (dash : Nat) : Option Nat := do
  let v ← kv.get k
  if v == "-" then some dash else v.toNat?
def kvOptNatOr (kv : KV) (k : String) (noneWord : String) : Option (Option Nat) := do
  let v ← kv.get k
  if v == "-" || v == noneWord then some none else (v.toNat?).map some

def parseBlk (kv : KV) (p : String) : Option Blk := do
  let amt ← (do
    let v ← kv.get (p ++ "amt")
    if v == "nil" then some (none : Option Int) else (v.toInt?).map some)
  pure {
    ver := ← kvNat kv (p ++ "ver"), cid := ← kvNat kv (p ++ "cid"), bt := ← kvNat kv (p ++ "bt"),
    h := ← kvNat kv (p ++ "h"), phz := ← kvBool kv (p ++ "phz"), maz := ← kvBool kv (p ++ "maz"),
    mah := ← kvNat kv (p ++ "mah"), emb := ← kvBool kv (p ++ "emb"), toz := ← kvBool kv (p ++ "toz"),
    toemb := ← kvBool kv (p ++ "toemb"), amt := amt, tsz := ← kvBool kv (p ++ "tsz"),
    fbz := ← kvBool kv (p ++ "fbz"), diff := ← kvNat kv (p ++ "diff"), fp := ← kvNat kv (p ++ "fp"),
    dlen := ← kvNat kv (p ++ "dlen"), npk := ← kvNat kv (p ++ "npk"), nsig := ← kvNat kv (p ++ "nsig"),
    hz := ← kvBool kv (p ++ "hz") }

def parseDescs (kv : KV) (n : Nat) : Option (List Desc) :=
  (List.range n).mapM (fun i => do
    let p := s!"d{i}."
    pure { blk := ← parseBlk kv p, maSame := ← kvBool kv (p ++ "masame"), pow := ← kvBool kv (p ++ "pow"),
           sfp := ← kvNatOr kv (p ++ "sfp") 0, pmah := ← kvOptNatOr kv (p ++ "pmah") "nil" })

def parseRegen (kv : KV) : Option (Option (Bool × Bool)) := do
  match ← kv.get "regen" with
  | "-" => some none
  | "11" => some (some (true, true))
  | "10" => some (some (true, false))
  | "01" => some (some (false, true))
  | "00" => some (some (false, false))
  | _ => none

def parseFacts (kv : KV) : Option Facts := do
  let vsend ← (do
    match ← kv.get "vsend" with
    | "1" => some true
    | "0" => some false
    | "-" => some false
    | _ => none)
  pure {
    ccid := ← kvNat kv "ccid", maOn := ← kvBool kv "maon", store := ← kvBool kv "store", store2 := ← kvBool kv "store2",
    confh := ← kvOptNat kv "confh" "none", prevKnown := ← kvBool kv "prevknown",
    sfp := ← kvNatOr kv "sfp" 0, pmah := ← kvOptNatOr kv "pmah" "nil",
    fex := ← kvBool kv "fex", ftome := ← kvBool kv "ftome", recvd := ← kvBool kv "recvd", gate := ← kvBool kv "gate",
    fconf := ← kvNat kv "fconf", seq := ← kvNatOr kv "seq" 0, pow := ← kvBool kv "pow",
    avail := ← kvOptNatOr kv "avail" "err", mplasma := ← kvOptNatOr kv "mplasma" "err", vsend := vsend,
    bal := ← kvNat kv "bal", hok := ← kvBool kv "hok", sok := ← kvBool kv "sok", pka := ← kvBool kv "pka",
    regen := ← parseRegen kv }

def pureVerify : List String → Option String
  | "verify" :: label :: rest => do
    if !label.startsWith "m=" then none   -- the first token is the candidate's label (not read by the model)
    let kv ← parseKV (rest.filter (· != ";"))
    let b ← parseBlk kv ""
    let nd ← kvNat kv "nd"
    let descs ← parseDescs kv nd
    let c : Cand := { b := b, descs := descs }
    let f ← parseFacts kv
    -- the harness's nom.AccountBlock.Previous() must be the model's
    let eph ← kvNat kv "eph"
    let epz ← kvBool kv "epz"
    if eph != c.prevHeight || epz != c.prevIsZeroHH then none
    else pure (showResult (verifyBlock c f))
  | _ => none

end ZV.Driver.VerifyD
