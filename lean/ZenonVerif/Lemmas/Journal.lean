import ZenonVerif.Model.Journal
/-
C08 — lemmas about the journal format: the reader against a well-formed layout (byte level), the chunk-level reader
against the chunks of records, and the layout the writer produces.
-/
namespace ZV.Journal

variable (B : Nat) (crc : Bytes → UInt32)

/-! ### fields -/

theorem rd32_le32 (w : UInt32) :
    rd32 (UInt8.ofNat w.toNat) (UInt8.ofNat (w.toNat / 256)) (UInt8.ofNat (w.toNat / 65536))
      (UInt8.ofNat (w.toNat / 16777216)) = w := by
  unfold rd32
  simp only [UInt8.toNat_ofNat']
  have h := w.toNat_lt
  have : w.toNat % 2 ^ 8 + 256 * (w.toNat / 256 % 2 ^ 8) + 65536 * (w.toNat / 65536 % 2 ^ 8)
      + 16777216 * (w.toNat / 16777216 % 2 ^ 8) = w.toNat := by omega
  rw [this]
  exact UInt32.ofNat_toNat

theorem rd16_le16 (n : Nat) (h : n < 65536) : rd16 (UInt8.ofNat n) (UInt8.ofNat (n / 256)) = n := by
  unfold rd16
  simp only [UInt8.toNat_ofNat']
  omega

@[simp] theorem length_encChunk (ty : UInt8) (p : Bytes) : (encChunk crc ty p).length = 7 + p.length := by
  simp [encChunk]; omega

/-! ### one step of the reader -/

@[simp] theorem readAux_nil (f off : Nat) (acc : Option Record) : readAux B crc f off [] acc = [] := by
  cases f with
  | zero => rfl
  | succ f => simp [readAux, parse]

theorem parse_short (avail : Nat) (rest : Bytes) (h : avail < 7) : parse crc avail rest = .short := by
  simp [parse, h]

/-- a complete chunk that fits into what is left of the block is accepted -/
theorem parse_chunk (avail : Nat) (ty : UInt8) (p t : Bytes) (hty : validTy ty = true) (hp : p.length < 65536)
    (ha : 7 + p.length ≤ avail) : parse crc avail (encChunk crc ty p ++ t) = .ok ty p := by
  have h7 : ¬ avail < 7 := by omega
  have hl : rd16 (UInt8.ofNat p.length) (UInt8.ofNat (p.length / 256)) = p.length := rd16_le16 _ hp
  have ht : List.take p.length (p ++ t) = p := List.take_left' rfl
  simp only [parse, h7, if_false, encChunk, List.cons_append, hty, hl, rd32_le32, ht]
  have : ¬ avail < 7 + p.length := by omega
  simp [this]

/-- a chunk cut inside its payload: "chunk length overflows block" -/
theorem parse_trunc (m : Nat) (ty : UInt8) (p : Bytes) (hty : validTy ty = true) (hp : p.length < 65536)
    (hm : m < p.length) : parse crc (m + 7) ((encChunk crc ty p).take (m + 7)) = .bad := by
  have h7 : ¬ m + 7 < 7 := by omega
  have hl : rd16 (UInt8.ofNat p.length) (UInt8.ofNat (p.length / 256)) = p.length := rd16_le16 _ hp
  simp only [parse, h7, if_false, encChunk, List.take_succ_cons, hty, hl]
  have : m + 7 < 7 + p.length := by omega
  simp [this]

theorem readAux_short (f off : Nat) (rest : Bytes) (acc : Option Record)
    (h : parse crc (min (B - off) rest.length) rest = .short) :
    readAux B crc (f + 1) off rest acc
      = if rest.length ≤ B - off then [] else readAux B crc f 0 (rest.drop (B - off)) acc := by
  simp only [readAux, h]

theorem readAux_bad (f off : Nat) (rest : Bytes) (acc : Option Record)
    (h : parse crc (min (B - off) rest.length) rest = .bad) :
    readAux B crc (f + 1) off rest acc = readAux B crc f 0 (rest.drop (min (B - off) rest.length)) none := by
  simp only [readAux, h]

theorem readAux_ok (f off : Nat) (rest : Bytes) (acc : Option Record) (ty : UInt8) (p : Bytes)
    (h : parse crc (min (B - off) rest.length) rest = .ok ty p) :
    readAux B crc (f + 1) off rest acc
      = emit (onChunk acc ty p).1
          (readAux B crc f (adv B off (7 + p.length)) (rest.drop (7 + p.length)) (onChunk acc ty p).2) := by
  simp only [readAux, h]

/-! ### the reader on a truncated well-formed layout -/

/-- Byte level = chunk level: on the first `n` bytes of a well-formed layout the reader delivers what the chunk-level
    reader delivers on the chunks that lie completely inside these bytes. -/
theorem read_segs (hB : B ≤ 65542) : ∀ (ss : List Seg) (off n fuel : Nat) (acc : Option Record),
    WF B off ss → ((encSegs crc ss).take n).length < fuel →
    readAux B crc fuel off ((encSegs crc ss).take n) acc = recoverChunks (wholeChunks n ss) acc := by
  intro ss
  induction ss with
  | nil => intro off n fuel acc _ _; simp [encSegs, wholeChunks, recoverChunks]
  | cons s ss ih =>
    intro off n fuel acc hwf hf
    cases fuel with
    | zero => omega
    | succ f =>
    cases s with
    | pad k =>
      obtain ⟨hoff, hlt, hk, hwf'⟩ := hwf
      simp only [encSegs, Seg.enc] at hf ⊢
      by_cases hkn : k ≤ n
      · have hD : List.take n (List.replicate k (0 : UInt8) ++ encSegs crc ss)
            = List.replicate k 0 ++ List.take (n - k) (encSegs crc ss) := by
          rw [List.take_append, List.take_replicate, List.length_replicate, Nat.min_eq_right hkn]
        rw [hD] at hf ⊢
        simp only [List.length_append, List.length_replicate] at hf
        have hav : min (B - off) (List.replicate k (0 : UInt8) ++ List.take (n - k) (encSegs crc ss)).length < 7 := by
          simp only [List.length_append, List.length_replicate]; omega
        have hdrop : List.drop (B - off) (List.replicate k (0 : UInt8) ++ List.take (n - k) (encSegs crc ss))
            = List.take (n - k) (encSegs crc ss) := by
          rw [← hk]; exact List.drop_left' (by simp)
        rw [readAux_short B crc f off _ acc (parse_short crc _ _ hav), hdrop]
        simp only [wholeChunks, hkn, if_true]
        rw [← ih 0 (n - k) f acc hwf' (by omega)]
        by_cases hT : (List.replicate k (0 : UInt8) ++ List.take (n - k) (encSegs crc ss)).length ≤ B - off
        · have : List.take (n - k) (encSegs crc ss) = [] := by
            simp only [List.length_append, List.length_replicate] at hT
            exact List.eq_nil_of_length_eq_zero (by omega)
          rw [if_pos hT, this, readAux_nil]
        · rw [if_neg hT]
      · have hD : List.take n (List.replicate k (0 : UInt8) ++ encSegs crc ss) = List.replicate n 0 := by
          rw [List.take_append_of_le_length (by simp; omega), List.take_replicate, Nat.min_eq_left (by omega)]
        rw [hD]
        have hav : min (B - off) (List.replicate n (0 : UInt8)).length < 7 := by
          simp only [List.length_replicate]; omega
        have hle : (List.replicate n (0 : UInt8)).length ≤ B - off := by simp only [List.length_replicate]; omega
        rw [readAux_short B crc f off _ acc (parse_short crc _ _ hav), if_pos hle]
        simp only [wholeChunks, hkn, if_false, recoverChunks]
    | chunk c =>
      obtain ⟨hfit, hty, hwf'⟩ := hwf
      have hp : c.payload.length < 65536 := by omega
      simp only [encSegs, Seg.enc] at hf ⊢
      by_cases hcn : 7 + c.payload.length ≤ n
      · have hD : List.take n (encChunk crc c.ty c.payload ++ encSegs crc ss)
            = encChunk crc c.ty c.payload ++ List.take (n - (7 + c.payload.length)) (encSegs crc ss) := by
          rw [List.take_append, length_encChunk, List.take_of_length_le (by simp; omega)]
        rw [hD] at hf ⊢
        simp only [List.length_append, length_encChunk] at hf
        have hpar : parse crc (min (B - off) (encChunk crc c.ty c.payload ++
              List.take (n - (7 + c.payload.length)) (encSegs crc ss)).length)
            (encChunk crc c.ty c.payload ++ List.take (n - (7 + c.payload.length)) (encSegs crc ss))
            = .ok c.ty c.payload :=
          parse_chunk crc _ _ _ _ hty hp (by simp only [List.length_append, length_encChunk]; omega)
        have hdrop : List.drop (7 + c.payload.length) (encChunk crc c.ty c.payload ++
              List.take (n - (7 + c.payload.length)) (encSegs crc ss))
            = List.take (n - (7 + c.payload.length)) (encSegs crc ss) := List.drop_left' (by simp)
        rw [readAux_ok B crc f off _ acc _ _ hpar, hdrop]
        simp only [wholeChunks, hcn, if_true, recoverChunks]
        rw [ih _ _ f _ hwf' (by omega)]
      · have hD : List.take n (encChunk crc c.ty c.payload ++ encSegs crc ss)
            = List.take n (encChunk crc c.ty c.payload) :=
          List.take_append_of_le_length (by simp; omega)
        rw [hD]
        have hlen : (List.take n (encChunk crc c.ty c.payload)).length = n := by
          rw [List.length_take, length_encChunk]; omega
        simp only [wholeChunks, hcn, if_false, recoverChunks]
        by_cases h7 : n < 7
        · have hav : min (B - off) (List.take n (encChunk crc c.ty c.payload)).length < 7 := by rw [hlen]; omega
          have hle : (List.take n (encChunk crc c.ty c.payload)).length ≤ B - off := by rw [hlen]; omega
          rw [readAux_short B crc f off _ acc (parse_short crc _ _ hav), if_pos hle]
        · obtain ⟨m, rfl⟩ : ∃ m, n = m + 7 := ⟨n - 7, by omega⟩
          have hav : min (B - off) (List.take (m + 7) (encChunk crc c.ty c.payload)).length = m + 7 := by
            rw [hlen]; omega
          have hdrop : List.drop (m + 7) (List.take (m + 7) (encChunk crc c.ty c.payload)) = [] :=
            List.drop_of_length_le (by rw [hlen]; omega)
          have hpar : parse crc (min (B - off) (List.take (m + 7) (encChunk crc c.ty c.payload)).length)
              (List.take (m + 7) (encChunk crc c.ty c.payload)) = .bad := by
            rw [hav]; exact parse_trunc crc m c.ty c.payload hty hp (by omega)
          rw [readAux_bad B crc f off _ acc hpar, hav, hdrop, readAux_nil]

/-! ### chunk level -/

theorem recoverChunks_cont (ps : List Bytes) (hne : ps ≠ []) : ∀ (a : Record) (cs : List Chunk),
    recoverChunks (contChunks ps ++ cs) (some a) = (a ++ ps.flatten) :: recoverChunks cs none := by
  induction ps with
  | nil => exact absurd rfl hne
  | cons p t ih =>
    intro a cs
    cases t with
    | nil => simp [contChunks, recoverChunks, onChunk, emit]
    | cons q ps =>
      have h3 : ¬ ((3 : UInt8) = 1 ∨ (3 : UInt8) = 4) := by decide
      simp only [contChunks, List.cons_append, recoverChunks, onChunk, h3, if_false, emit]
      rw [ih (by simp) (a ++ p) cs]
      simp

theorem recoverChunks_cont_prefix (ps : List Bytes) : ∀ (a : Record) (j : Nat), j < (contChunks ps).length →
    recoverChunks ((contChunks ps).take j) (some a) = [] := by
  induction ps with
  | nil => intro a j h; simp [contChunks] at h
  | cons p t ih =>
    intro a j h
    cases j with
    | zero => simp [recoverChunks]
    | succ j =>
      cases t with
      | nil => simp [contChunks] at h
      | cons q ps =>
        have h3 : ¬ ((3 : UInt8) = 1 ∨ (3 : UInt8) = 4) := by decide
        simp only [contChunks, List.take_succ_cons, recoverChunks, onChunk, h3, if_false, emit]
        exact ih (a ++ p) j (by simpa [contChunks] using h)

/-- the chunks of one record, complete: the record is delivered and the reader is between records again -/
theorem recoverChunks_rec (ps : List Bytes) (hne : ps ≠ []) (cs : List Chunk) :
    recoverChunks (recChunks ps ++ cs) none = ps.flatten :: recoverChunks cs none := by
  match ps, hne with
  | [p], _ => simp [recChunks, recoverChunks, onChunk, emit]
  | p :: q :: ps, _ =>
    have h2 : ¬ ((2 : UInt8) = 1) := by decide
    simp only [recChunks, List.cons_append, recoverChunks, onChunk, h2, if_false, if_true, emit]
    rw [recoverChunks_cont (q :: ps) (by simp) p cs]
    simp

/-- a strict prefix of the chunks of one record delivers nothing -/
theorem recoverChunks_rec_prefix (ps : List Bytes) (j : Nat) (h : j < (recChunks ps).length) :
    recoverChunks ((recChunks ps).take j) none = [] := by
  match ps, j, h with
  | [], _, h => simp [recChunks] at h
  | _ :: _, 0, _ => simp [recoverChunks]
  | [p], j + 1, h => simp [recChunks] at h
  | p :: q :: ps, j + 1, h =>
    have h2 : ¬ ((2 : UInt8) = 1) := by decide
    simp only [recChunks, List.take_succ_cons, recoverChunks, onChunk, h2, if_false, if_true, emit]
    exact recoverChunks_cont_prefix (q :: ps) p j (by simpa [recChunks] using h)

/-! ### which chunks lie inside a byte prefix -/

theorem segsSize_append (s1 s2 : List Seg) : segsSize (s1 ++ s2) = segsSize s1 + segsSize s2 := by
  induction s1 with
  | nil => simp [segsSize]
  | cons s t ih => simp [segsSize, ih]; omega

theorem length_encSegs (ss : List Seg) : (encSegs crc ss).length = segsSize ss := by
  induction ss with
  | nil => rfl
  | cons s t ih => cases s <;> simp [encSegs, segsSize, Seg.enc, Seg.size, ih]

theorem wholeChunks_chunks_le (cs : List Chunk) (ss : List Seg) : ∀ (n : Nat), segsSize (cs.map Seg.chunk) ≤ n →
    wholeChunks n (cs.map Seg.chunk ++ ss) = cs ++ wholeChunks (n - segsSize (cs.map Seg.chunk)) ss := by
  induction cs with
  | nil => intro n _; simp [segsSize]
  | cons c t ih =>
    intro n h
    simp only [List.map_cons, segsSize, Seg.size] at h ⊢
    have hc : 7 + c.payload.length ≤ n := by omega
    simp only [List.cons_append, wholeChunks, hc, if_true]
    rw [ih _ (by omega)]
    simp only [Nat.sub_sub]

theorem wholeChunks_chunks_lt (cs : List Chunk) (ss : List Seg) : ∀ (n : Nat), n < segsSize (cs.map Seg.chunk) →
    ∃ j, j < cs.length ∧ wholeChunks n (cs.map Seg.chunk ++ ss) = cs.take j := by
  induction cs with
  | nil => intro n h; simp [segsSize] at h
  | cons c t ih =>
    intro n h
    simp only [List.map_cons, segsSize, Seg.size] at h
    by_cases hc : 7 + c.payload.length ≤ n
    · obtain ⟨j, hj, he⟩ := ih (n - (7 + c.payload.length)) (by omega)
      refine ⟨j + 1, by simp; omega, ?_⟩
      simp only [List.map_cons, List.cons_append, wholeChunks, hc, if_true, he, List.take_succ_cons]
    · exact ⟨0, by simp, by simp [wholeChunks, hc]⟩

/-! ### the pieces of a record -/

theorem contPieces_flatten (cap : Nat) : ∀ (f : Nat) (p : Bytes), (contPieces cap f p).flatten = p := by
  intro f
  induction f with
  | zero => intro p; simp [contPieces]
  | succ f ih =>
    intro p
    unfold contPieces
    split
    · simp
    · simp [ih]

theorem contPieces_ne_nil (cap f : Nat) (p : Bytes) : contPieces cap f p ≠ [] := by
  cases f with
  | zero => simp [contPieces]
  | succ f => unfold contPieces; split <;> simp

theorem pieces_flatten (off : Nat) (r : Record) : (pieces B off r).flatten = r := by
  unfold pieces
  split
  · simp
  · simp [contPieces_flatten]

theorem pieces_ne_nil (off : Nat) (r : Record) : pieces B off r ≠ [] := by
  unfold pieces; split <;> simp

theorem recChunks_length_pos (ps : List Bytes) (h : ps ≠ []) : 0 < (recChunks ps).length := by
  match ps, h with
  | [p], _ => simp [recChunks]
  | p :: q :: ps, _ => simp [recChunks]

/-- a record that lies completely inside the first `n` bytes is delivered -/
theorem recover_recSegs_le (off n : Nat) (r : Record) (ss : List Seg) (h : segsSize (recSegs B off r) ≤ n) :
    recoverChunks (wholeChunks n (recSegs B off r ++ ss)) none
      = r :: recoverChunks (wholeChunks (n - segsSize (recSegs B off r)) ss) none := by
  unfold recSegs at h ⊢
  split
  · rename_i hpad
    simp only [hpad, if_true, segsSize, Seg.size] at h
    have hk : B - off ≤ n := by omega
    simp only [List.cons_append, wholeChunks, hk, if_true, segsSize, Seg.size]
    rw [wholeChunks_chunks_le _ _ _ (by omega), recoverChunks_rec _ (pieces_ne_nil B 0 r), pieces_flatten,
      Nat.sub_sub]
  · rename_i hpad
    simp only [hpad, if_false] at h
    rw [wholeChunks_chunks_le _ _ _ h, recoverChunks_rec _ (pieces_ne_nil B off r), pieces_flatten]

/-- a record that does not lie completely inside the first `n` bytes delivers nothing, whatever follows -/
theorem recover_recSegs_lt (off n : Nat) (r : Record) (ss : List Seg) (h : n < segsSize (recSegs B off r)) :
    recoverChunks (wholeChunks n (recSegs B off r ++ ss)) none = [] := by
  unfold recSegs at h ⊢
  split
  · rename_i hpad
    simp only [hpad, if_true, segsSize, Seg.size] at h
    by_cases hk : B - off ≤ n
    · simp only [List.cons_append, wholeChunks, hk, if_true]
      obtain ⟨j, hj, he⟩ := wholeChunks_chunks_lt (recChunks (pieces B 0 r)) ss (n - (B - off)) (by omega)
      rw [he]
      exact recoverChunks_rec_prefix _ j hj
    · simp [wholeChunks, hk, recoverChunks]
  · rename_i hpad
    simp only [hpad, if_false] at h
    obtain ⟨j, hj, he⟩ := wholeChunks_chunks_lt (recChunks (pieces B off r)) ss n h
    rw [he]
    exact recoverChunks_rec_prefix _ j hj

/-- chunk level, whole journal: the chunks inside the first `n` bytes deliver the records that end there -/
theorem recoverChunks_journal : ∀ (rs : List Record) (off n : Nat),
    recoverChunks (wholeChunks n (journalSegs B off rs)) none = rs.take (wholeRecs B off rs n) := by
  intro rs
  induction rs with
  | nil => intro off n; simp [journalSegs, wholeChunks, recoverChunks]
  | cons r rs ih =>
    intro off n
    simp only [journalSegs, wholeRecs]
    by_cases h : segsSize (recSegs B off r) ≤ n
    · rw [recover_recSegs_le B off n r _ h, ih, if_pos h, Nat.add_comm 1, List.take_succ_cons]
    · rw [recover_recSegs_lt B off n r _ (by omega), if_neg h, List.take_zero]

/-! ### the layout the writer produces is well formed -/

theorem adv_lt (hB : 0 < B) (off n : Nat) : adv B off n < B := by
  unfold adv; split <;> omega

theorem next_lt (hB : 0 < B) (off : Nat) (s : Seg) : s.next B off < B := by
  cases s with
  | pad n => exact hB
  | chunk c => exact adv_lt B hB _ _

theorem segsEnd_lt (hB : 0 < B) : ∀ (ss : List Seg) (off : Nat), off < B → segsEnd B off ss < B := by
  intro ss
  induction ss with
  | nil => intro off h; exact h
  | cons s t ih => intro off _; exact ih _ (next_lt B hB off s)

theorem WF_append : ∀ (s1 : List Seg) (off : Nat) (s2 : List Seg),
    WF B off s1 → WF B (segsEnd B off s1) s2 → WF B off (s1 ++ s2) := by
  intro s1
  induction s1 with
  | nil => intro off s2 _ h; exact h
  | cons s t ih =>
    intro off s2 h1 h2
    cases s with
    | pad n =>
      obtain ⟨a, b, c, d⟩ := h1
      exact ⟨a, b, c, ih 0 s2 d h2⟩
    | chunk c =>
      obtain ⟨a, b, d⟩ := h1
      exact ⟨a, b, ih _ s2 d h2⟩

/-- pieces written from the start of a block on: all but the last fill a block exactly -/
def ContOK (cap : Nat) : List Bytes → Prop
  | [] => False
  | [p] => p.length ≤ cap
  | p :: q :: ps => p.length = cap ∧ ContOK cap (q :: ps)

theorem ContOK_cons (cap : Nat) (x : Bytes) (rest : List Bytes) (hx : x.length = cap) (h : ContOK cap rest) :
    ContOK cap (x :: rest) := by
  cases rest with
  | nil => exact absurd h (by simp [ContOK])
  | cons q ps => exact ⟨hx, h⟩

theorem contPieces_ok (cap : Nat) (hcap : 1 ≤ cap) : ∀ (f : Nat) (p : Bytes), p.length ≤ f →
    ContOK cap (contPieces cap f p) := by
  intro f
  induction f with
  | zero => intro p h; simp only [contPieces, ContOK]; omega
  | succ f ih =>
    intro p h
    unfold contPieces
    split
    · rename_i hle; exact hle
    · rename_i hgt
      refine ContOK_cons cap _ _ ?_ (ih _ ?_)
      · rw [List.length_take]; omega
      · rw [List.length_drop]; omega

theorem WF_cont (h8 : 8 ≤ B) : ∀ (ps : List Bytes), ContOK (B - 7) ps → WF B 0 ((contChunks ps).map Seg.chunk) := by
  intro ps
  induction ps with
  | nil => intro h; exact absurd h (by simp [ContOK])
  | cons p t ih =>
    intro h
    cases t with
    | nil =>
      have hp : p.length ≤ B - 7 := h
      exact ⟨by show 0 + 7 + p.length ≤ B; omega, rfl, trivial⟩
    | cons q ps =>
      obtain ⟨hp, hrest⟩ := h
      have hp' : p.length = B - 7 := hp
      refine ⟨by show 0 + 7 + p.length ≤ B; omega, rfl, ?_⟩
      have : adv B 0 (7 + p.length) = 0 := by unfold adv; split <;> omega
      show WF B (adv B 0 (7 + p.length)) ((contChunks (q :: ps)).map Seg.chunk)
      rw [this]
      exact ih hrest

theorem WF_pieces (h8 : 8 ≤ B) (off : Nat) (hoff : off + 7 ≤ B) (r : Record) :
    WF B off ((recChunks (pieces B off r)).map Seg.chunk) := by
  unfold pieces
  split
  · rename_i hle
    exact ⟨by show off + 7 + r.length ≤ B; omega, rfl, trivial⟩
  · rename_i hgt
    have hok := contPieces_ok (B - 7) (by omega) r.length (r.drop (B - off - 7)) (by rw [List.length_drop]; omega)
    cases hc : contPieces (B - 7) r.length (r.drop (B - off - 7)) with
    | nil => exact absurd hc (contPieces_ne_nil _ _ _)
    | cons q ps =>
      rw [hc] at hok
      have hl : (r.take (B - off - 7)).length = B - off - 7 := by rw [List.length_take]; omega
      refine ⟨by show off + 7 + (r.take (B - off - 7)).length ≤ B; omega, rfl, ?_⟩
      show WF B (adv B off (7 + (r.take (B - off - 7)).length)) ((contChunks (q :: ps)).map Seg.chunk)
      have : adv B off (7 + (r.take (B - off - 7)).length) = 0 := by unfold adv; split <;> omega
      rw [this]
      exact WF_cont B h8 _ hok

theorem WF_recSegs (h8 : 8 ≤ B) (off : Nat) (hoff : off < B) (r : Record) : WF B off (recSegs B off r) := by
  unfold recSegs
  split
  · rename_i hpad
    exact ⟨hoff, hpad, rfl, WF_pieces B h8 0 (by omega) r⟩
  · rename_i hpad
    exact WF_pieces B h8 off (by omega) r

theorem WF_journal (h8 : 8 ≤ B) : ∀ (rs : List Record) (off : Nat), off < B → WF B off (journalSegs B off rs) := by
  intro rs
  induction rs with
  | nil => intro off _; trivial
  | cons r rs ih =>
    intro off hoff
    exact WF_append B _ off _ (WF_recSegs B h8 off hoff r) (ih _ (segsEnd_lt B (by omega) _ off hoff))

/-! ### counting the records inside a byte prefix -/

theorem wholeRecs_all : ∀ (rs : List Record) (off n : Nat), segsSize (journalSegs B off rs) ≤ n →
    wholeRecs B off rs n = rs.length := by
  intro rs
  induction rs with
  | nil => intro off n _; rfl
  | cons r rs ih =>
    intro off n h
    simp only [journalSegs, segsSize_append] at h
    simp only [wholeRecs]
    rw [if_pos (by omega), ih _ _ (by omega), List.length_cons, Nat.add_comm]

theorem wholeRecs_le_length : ∀ (rs : List Record) (off n : Nat), wholeRecs B off rs n ≤ rs.length := by
  intro rs
  induction rs with
  | nil => intro off n; simp [wholeRecs]
  | cons r rs ih =>
    intro off n
    simp only [wholeRecs]
    split
    · have := ih (segsEnd B off (recSegs B off r)) (n - segsSize (recSegs B off r))
      simp only [List.length_cons]; omega
    · omega

theorem journalSegs_append : ∀ (r1 : List Record) (off : Nat) (r2 : List Record),
    journalSegs B off (r1 ++ r2)
      = journalSegs B off r1 ++ journalSegs B (segsEnd B off (journalSegs B off r1)) r2 := by
  intro r1
  induction r1 with
  | nil => intro off r2; rfl
  | cons r rs ih =>
    intro off r2
    have hend : ∀ (s1 s2 : List Seg) (o : Nat), segsEnd B o (s1 ++ s2) = segsEnd B (segsEnd B o s1) s2 := by
      intro s1
      induction s1 with
      | nil => intro s2 o; rfl
      | cons s t iht => intro s2 o; exact iht s2 _
    simp only [List.cons_append, journalSegs, ih, List.append_assoc, hend]

/-- the records of a journal prefix `r1` that lies inside the first `n` bytes all count -/
theorem wholeRecs_append : ∀ (r1 : List Record) (off : Nat) (r2 : List Record) (n : Nat),
    segsSize (journalSegs B off r1) ≤ n →
    wholeRecs B off (r1 ++ r2) n
      = r1.length + wholeRecs B (segsEnd B off (journalSegs B off r1)) r2 (n - segsSize (journalSegs B off r1)) := by
  intro r1
  induction r1 with
  | nil => intro off r2 n _; simp [journalSegs, segsSize, segsEnd]
  | cons r rs ih =>
    intro off r2 n h
    have hend : ∀ (s1 s2 : List Seg) (o : Nat), segsEnd B o (s1 ++ s2) = segsEnd B (segsEnd B o s1) s2 := by
      intro s1
      induction s1 with
      | nil => intro s2 o; rfl
      | cons s t iht => intro s2 o; exact iht s2 _
    simp only [journalSegs, segsSize_append] at h
    simp only [List.cons_append, wholeRecs, journalSegs, segsSize_append, hend]
    rw [if_pos (by omega), ih _ _ _ (by omega), List.length_cons, Nat.sub_sub]
    omega

/-- `wholeRecs` is the number of records whose encoding ends at or before byte `n` -/
theorem wholeRecs_eq_count : ∀ (rs : List Record) (off n : Nat),
    wholeRecs B off rs n
      = ((List.range rs.length).filter
          (fun i => decide (segsSize (journalSegs B off (rs.take (i + 1))) ≤ n))).length := by
  intro rs
  induction rs with
  | nil => intro off n; simp [wholeRecs]
  | cons r rs ih =>
    intro off n
    simp only [wholeRecs, List.length_cons, List.range_succ_eq_map, List.filter_cons, List.take_succ_cons,
      journalSegs, segsSize_append, List.filter_map]
    by_cases h : segsSize (recSegs B off r) ≤ n
    · have h0 : decide (segsSize (recSegs B off r) + segsSize (journalSegs B (segsEnd B off (recSegs B off r))
          (List.take 0 rs)) ≤ n) = true := by simp [journalSegs, segsSize, h]
      rw [if_pos h, if_pos h0, List.length_cons, List.length_map, ih, Nat.add_comm]
      congr 2
      apply List.filter_congr
      intro i _
      simp only [Function.comp, Nat.succ_eq_add_one]
      apply decide_eq_decide.mpr
      omega
    · have h0 : ¬ decide (segsSize (recSegs B off r) + segsSize (journalSegs B (segsEnd B off (recSegs B off r))
          (List.take 0 rs)) ≤ n) = true := by simp [journalSegs, segsSize, h]
      rw [if_neg h, if_neg h0, List.length_map]
      symm
      rw [List.length_eq_zero_iff, List.filter_eq_nil_iff]
      intro i _
      simp only [Function.comp, decide_eq_true_eq]
      omega

theorem completeAt_eq (rs : List Record) (n : Nat) : completeAt B rs n = wholeRecs B 0 rs n := by
  rw [wholeRecs_eq_count]; rfl

theorem encSegs_append (s1 s2 : List Seg) : encSegs crc (s1 ++ s2) = encSegs crc s1 ++ encSegs crc s2 := by
  induction s1 with
  | nil => rfl
  | cons s t ih => simp [encSegs, ih]

/-! ### a torn journal followed by zeros -/

/-- a header whose type byte is not 1..4 (in particular a zero header) drops the rest of the block -/
theorem parse_bad_ty (avail : Nat) (rest : Bytes) (h7 : 7 ≤ avail) (ty : UInt8) (h : rest[6]? = some ty)
    (hty : validTy ty = false) : parse crc avail rest = .bad := by
  have hn : ¬ avail < 7 := by omega
  match rest, h with
  | [], h => simp at h
  | [_], h => simp at h
  | [_, _], h => simp at h
  | [_, _, _], h => simp at h
  | [_, _, _, _], h => simp at h
  | [_, _, _, _, _], h => simp at h
  | [_, _, _, _, _, _], h => simp at h
  | c0 :: c1 :: c2 :: c3 :: l0 :: l1 :: t :: body, h =>
    simp at h
    subst h
    simp [parse, hn, hty]

/-- zeros never form a chunk -/
theorem readAux_zeros : ∀ (f off m : Nat) (acc : Option Record),
    readAux B crc f off (List.replicate m 0) acc = [] := by
  intro f
  induction f with
  | zero => intro off m acc; rfl
  | succ f ih =>
    intro off m acc
    by_cases hav : min (B - off) (List.replicate m (0 : UInt8)).length < 7
    · rw [readAux_short B crc f off _ acc (parse_short crc _ _ hav), List.drop_replicate]
      split
      · rfl
      · exact ih _ _ _
    · have hm : 6 < m := by simp only [List.length_replicate] at hav; omega
      have hpar : parse crc (min (B - off) (List.replicate m (0 : UInt8)).length) (List.replicate m 0) = .bad :=
        parse_bad_ty crc _ _ (by omega) 0 (by rw [List.getElem?_replicate, if_pos hm]) rfl
      rw [readAux_bad B crc f off _ acc hpar, List.drop_replicate]
      exact ih _ _ _

theorem readAux_drop_zeros (f a z : Nat) (l : Bytes) (h : l.length ≤ a) :
    readAux B crc f 0 (List.drop a (l ++ List.replicate z 0)) none = [] := by
  rw [List.drop_append, List.drop_of_length_le h, List.nil_append, List.drop_replicate]
  exact readAux_zeros B crc _ _ _ _

/-- a chunk cut at byte `n` and continued by zeros delivers nothing, nor does anything after it -/
theorem readAux_torn_chunk_zeros (hB : B ≤ 65542) (f off n z : Nat) (acc : Option Record) (c : Chunk)
    (hfit : off + 7 + c.payload.length ≤ B) (hty : validTy c.ty = true) (hn : n < 7 + c.payload.length)
    (hdet : 7 ≤ n → crc (c.ty :: c.payload) ≠
      crc (c.ty :: (c.payload.take (n - 7) ++ List.replicate (c.payload.length - (n - 7)) 0))) :
    readAux B crc (f + 1) off (List.take n (encChunk crc c.ty c.payload) ++ List.replicate z 0) acc = [] := by
  have hp : c.payload.length < 65536 := by omega
  have hlen : (List.take n (encChunk crc c.ty c.payload)).length = n := by
    rw [List.length_take, length_encChunk]; omega
  have hDlen : (List.take n (encChunk crc c.ty c.payload) ++ List.replicate z (0 : UInt8)).length = n + z := by
    rw [List.length_append, hlen, List.length_replicate]
  by_cases hav : min (B - off) (List.take n (encChunk crc c.ty c.payload) ++ List.replicate z (0 : UInt8)).length < 7
  · rw [readAux_short B crc f off _ acc (parse_short crc _ _ hav), if_pos (by rw [hDlen] at hav ⊢; omega)]
  · rw [hDlen] at hav
    by_cases h7 : n < 7
    · have hpar : parse crc (min (B - off) (List.take n (encChunk crc c.ty c.payload)
          ++ List.replicate z (0 : UInt8)).length)
          (List.take n (encChunk crc c.ty c.payload) ++ List.replicate z 0) = .bad := by
        refine parse_bad_ty crc _ _ (by rw [hDlen]; omega) 0 ?_ rfl
        rw [List.getElem?_append_right (by rw [hlen]; omega), List.getElem?_replicate, if_pos (by rw [hlen]; omega)]
      rw [readAux_bad B crc f off _ acc hpar]
      exact readAux_drop_zeros B crc _ _ _ _ (by rw [hlen, hDlen]; omega)
    · obtain ⟨m, rfl⟩ : ∃ m, n = m + 7 := ⟨n - 7, by omega⟩
      have hl : rd16 (UInt8.ofNat c.payload.length) (UInt8.ofNat (c.payload.length / 256)) = c.payload.length :=
        rd16_le16 _ hp
      have hpar : parse crc (min (B - off) (List.take (m + 7) (encChunk crc c.ty c.payload)
          ++ List.replicate z (0 : UInt8)).length)
          (List.take (m + 7) (encChunk crc c.ty c.payload) ++ List.replicate z 0) = .bad := by
        rw [hDlen]
        have hn7 : ¬ min (B - off) (m + 7 + z) < 7 := by omega
        simp only [parse, hn7, if_false, encChunk, List.take_succ_cons, List.cons_append, hty, hl, rd32_le32]
        by_cases hov : min (B - off) (m + 7 + z) < 7 + c.payload.length
        · simp [hov]
        · have htake : List.take c.payload.length (List.take m c.payload ++ List.replicate z (0 : UInt8))
              = List.take m c.payload ++ List.replicate (c.payload.length - m) 0 := by
            rw [List.take_append, List.take_take, List.length_take, List.take_replicate]
            have h1 : min c.payload.length m = m := by omega
            have h2 : min m c.payload.length = m := by omega
            have h3 : min (c.payload.length - m) z = c.payload.length - m := by omega
            rw [h1, h2, h3]
          have hd := hdet (by omega)
          simp only [Nat.add_sub_cancel] at hd
          simp [hov, htake, hd]
      rw [readAux_bad B crc f off _ acc hpar]
      exact readAux_drop_zeros B crc _ _ _ _ (by rw [hlen, hDlen]; omega)

/-- `read_segs` with a zero tail after the cut -/
theorem read_segs_zeros (hB : B ≤ 65542) : ∀ (ss : List Seg) (off n z fuel : Nat) (acc : Option Record),
    WF B off ss → TornDetected crc n ss → ((encSegs crc ss).take n ++ List.replicate z 0).length < fuel →
    readAux B crc fuel off ((encSegs crc ss).take n ++ List.replicate z 0) acc
      = recoverChunks (wholeChunks n ss) acc := by
  intro ss
  induction ss with
  | nil =>
    intro off n z fuel acc _ _ _
    simp only [encSegs, List.take_nil, List.nil_append, wholeChunks, recoverChunks]
    exact readAux_zeros B crc _ _ _ _
  | cons s ss ih =>
    intro off n z fuel acc hwf hdet hf
    cases fuel with
    | zero => omega
    | succ f =>
    cases s with
    | pad k =>
      obtain ⟨hoff, hlt, hk, hwf'⟩ := hwf
      simp only [encSegs, Seg.enc] at hf ⊢
      by_cases hkn : k ≤ n
      · have hD : List.take n (List.replicate k (0 : UInt8) ++ encSegs crc ss) ++ List.replicate z 0
            = List.replicate k 0 ++ (List.take (n - k) (encSegs crc ss) ++ List.replicate z 0) := by
          rw [List.take_append, List.take_replicate, List.length_replicate, Nat.min_eq_right hkn, List.append_assoc]
        rw [hD] at hf ⊢
        simp only [TornDetected, hkn, if_true] at hdet
        have hlenD : (List.replicate k (0 : UInt8) ++ (List.take (n - k) (encSegs crc ss) ++ List.replicate z 0)).length
            = k + (List.take (n - k) (encSegs crc ss) ++ List.replicate z (0 : UInt8)).length := by
          rw [List.length_append, List.length_replicate]
        rw [hlenD] at hf
        have hav : min (B - off) (List.replicate k (0 : UInt8) ++
            (List.take (n - k) (encSegs crc ss) ++ List.replicate z 0)).length < 7 := by
          rw [hlenD]; omega
        have hdrop : List.drop (B - off) (List.replicate k (0 : UInt8) ++
            (List.take (n - k) (encSegs crc ss) ++ List.replicate z 0))
            = List.take (n - k) (encSegs crc ss) ++ List.replicate z 0 := by
          rw [← hk]; exact List.drop_left' (by simp)
        rw [readAux_short B crc f off _ acc (parse_short crc _ _ hav), hdrop]
        simp only [wholeChunks, hkn, if_true]
        rw [← ih 0 (n - k) z f acc hwf' hdet (by omega)]
        by_cases hT : (List.replicate k (0 : UInt8) ++
            (List.take (n - k) (encSegs crc ss) ++ List.replicate z 0)).length ≤ B - off
        · have : List.take (n - k) (encSegs crc ss) ++ List.replicate z (0 : UInt8) = [] := by
            rw [hlenD] at hT
            exact List.eq_nil_of_length_eq_zero (by omega)
          rw [if_pos hT, this, readAux_nil]
        · rw [if_neg hT]
      · have hD : List.take n (List.replicate k (0 : UInt8) ++ encSegs crc ss) ++ List.replicate z 0
            = List.replicate (n + z) 0 := by
          rw [List.take_append_of_le_length (by simp; omega), List.take_replicate, Nat.min_eq_left (by omega),
            List.replicate_append_replicate]
        rw [hD, readAux_zeros]
        simp only [wholeChunks, hkn, if_false, recoverChunks]
    | chunk c =>
      obtain ⟨hfit, hty, hwf'⟩ := hwf
      have hp : c.payload.length < 65536 := by omega
      simp only [encSegs, Seg.enc] at hf ⊢
      by_cases hcn : 7 + c.payload.length ≤ n
      · have hD : List.take n (encChunk crc c.ty c.payload ++ encSegs crc ss) ++ List.replicate z 0
            = encChunk crc c.ty c.payload ++
              (List.take (n - (7 + c.payload.length)) (encSegs crc ss) ++ List.replicate z 0) := by
          rw [List.take_append, length_encChunk, List.take_of_length_le (by simp; omega), List.append_assoc]
        rw [hD] at hf ⊢
        simp only [TornDetected, hcn, if_true] at hdet
        rw [List.length_append, length_encChunk] at hf
        have hpar : parse crc (min (B - off) (encChunk crc c.ty c.payload ++
              (List.take (n - (7 + c.payload.length)) (encSegs crc ss) ++ List.replicate z 0)).length)
            (encChunk crc c.ty c.payload ++
              (List.take (n - (7 + c.payload.length)) (encSegs crc ss) ++ List.replicate z 0))
            = .ok c.ty c.payload :=
          parse_chunk crc _ _ _ _ hty hp (by rw [List.length_append, length_encChunk]; omega)
        have hdrop : List.drop (7 + c.payload.length) (encChunk crc c.ty c.payload ++
              (List.take (n - (7 + c.payload.length)) (encSegs crc ss) ++ List.replicate z 0))
            = List.take (n - (7 + c.payload.length)) (encSegs crc ss) ++ List.replicate z 0 :=
          List.drop_left' (by simp)
        rw [readAux_ok B crc f off _ acc _ _ hpar, hdrop]
        simp only [wholeChunks, hcn, if_true, recoverChunks]
        rw [ih _ _ _ f _ hwf' hdet (by omega)]
      · have hD : List.take n (encChunk crc c.ty c.payload ++ encSegs crc ss)
            = List.take n (encChunk crc c.ty c.payload) :=
          List.take_append_of_le_length (by simp; omega)
        rw [hD]
        simp only [TornDetected, hcn, if_false] at hdet
        simp only [wholeChunks, hcn, if_false, recoverChunks]
        exact readAux_torn_chunk_zeros B crc hB f off n z acc c hfit hty (by omega) hdet

/-! ### the strict reader -/

/-- on ANY bytes: when the strict reader does not refuse, it delivers what the non-strict reader delivers -/
theorem strictAux_some : ∀ (f off : Nat) (rest : Bytes) (acc : Option Record) (l : List Record),
    strictAux B crc f off rest acc = some l → readAux B crc f off rest acc = l := by
  intro f
  induction f with
  | zero => intro off rest acc l h; simp only [strictAux, Option.some.injEq] at h; simp [readAux, h]
  | succ f ih =>
    intro off rest acc l h
    cases hp : parse crc (min (B - off) rest.length) rest with
    | short =>
      rw [readAux_short B crc f off rest acc hp]
      simp only [strictAux, hp] at h
      by_cases hle : rest.length ≤ B - off
      · rw [if_pos hle] at h ⊢
        cases hacc : acc.isSome with
        | true => rw [hacc] at h; exact absurd h (by simp)
        | false => rw [hacc] at h; simpa using h
      · rw [if_neg hle] at h ⊢
        exact ih _ _ _ _ h
    | bad =>
      simp only [strictAux, hp] at h
      exact absurd h (by simp)
    | ok ty p =>
      rw [readAux_ok B crc f off rest acc ty p hp]
      simp only [strictAux, hp] at h
      cases hs : strictAux B crc f (adv B off (7 + p.length)) (rest.drop (7 + p.length)) (onChunk acc ty p).2 with
      | none => rw [hs] at h; exact absurd h (by simp)
      | some l' =>
        rw [hs] at h
        simp only [Option.map_some, Option.some.injEq] at h
        rw [ih _ _ _ _ hs, h]

end ZV.Journal
