import ZenonVerif.Model.Versioned
import ZenonVerif.Lemmas.KvLogic
import ZenonVerif.Lemmas.KvOrder
/-
Manager-level invariant of the executable `Ldb` model (ldbManager): a ghost history of the versions on the current
chain, reachability over arbitrary sequences of commit / stale commit / pop, and the invariant that ties the raw
frontier, the stored undo patches and the hash index to that history.
-/
namespace ZV.Versioned
open ZV ZV.Kv ZV.KvLogic

/-! ### keys and identifier encoding -/

theorem keyFrontierId_ne_heightByHash (h : Bytes) : keyFrontierId ≠ keyHeightByHash h := by
  simp [keyFrontierId, keyHeightByHash, Gen.frontierIdentifierKey, Gen.heightByHashPrefix]

theorem keyFrontierId_ne_entryByHeight (n : Nat) : keyFrontierId ≠ keyEntryByHeight n := by
  simp [keyFrontierId, keyEntryByHeight, Gen.frontierIdentifierKey, Gen.entryByHeightPrefix]

theorem keyHeightByHash_ne_entryByHeight (h : Bytes) (n : Nat) : keyHeightByHash h ≠ keyEntryByHeight n := by
  simp [keyHeightByHash, keyEntryByHeight, Gen.heightByHashPrefix, Gen.entryByHeightPrefix]

theorem keyHeightByHash_inj {h h' : Bytes} : keyHeightByHash h = keyHeightByHash h' ↔ h = h' := by
  simp [keyHeightByHash]

theorem isPrefix_keyHeightByHash (h : Bytes) : isPrefix Gen.heightByHashPrefix (keyHeightByHash h) = true :=
  isPrefix_append _ _

theorem beVal_beBytes (w n : Nat) : beVal (beBytes w n) = n % 256 ^ w := by
  simp [beVal, beBytes, leVal_leBytes]

theorem beBytes_length (w n : Nat) : (beBytes w n).length = w := by
  simp [beBytes, leBytes_length]

theorem beVal_beBytes8 {n : Nat} (h : n < two64) : beVal (beBytes 8 n) = n := by
  rw [beVal_beBytes]
  have : (256 : Nat) ^ 8 = two64 := by decide
  rw [this]; exact Nat.mod_eq_of_lt h

theorem decId_encId (i : Id) (h : i.height < two64) : decId (encId i) = i := by
  have hl : (beBytes 8 i.height).length = 8 := beBytes_length 8 _
  simp only [decId, encId]
  rw [List.take_left' hl, List.drop_left' hl, beVal_beBytes8 h]

/-! ### logical effect of the frontier bookkeeping writes -/

theorem applyP_frontierOps (t : Store) (i : Id) (k : Bytes) :
    applyP t (frontierOps i) k =
      if k = keyEntryByHeight i.height then some i.hash
      else if k = keyHeightByHash i.hash then some (beBytes 8 i.height)
      else if k = keyFrontierId then some (encId i) else t k := by
  simp [applyP, frontierOps, applyOp]

theorem applyP_commit_frontierKey (t : Store) (ops : Patch) (i : Id) :
    applyP t (ops ++ frontierOps i) keyFrontierId = some (encId i) := by
  rw [applyP_append, applyP_frontierOps]
  simp [keyFrontierId_ne_heightByHash, keyFrontierId_ne_entryByHeight]

theorem frontierIdOf_commit (t : Store) (ops : Patch) (i : Id) (h : i.height < two64) :
    frontierIdOf (applyP t (ops ++ frontierOps i)) = i := by
  simp only [frontierIdOf, applyP_commit_frontierKey]
  exact decId_encId i h

theorem applyP_commit_hashKey (t : Store) (ops : Patch) (i : Id) (x : Bytes)
    (hu : ∀ o ∈ ops, isPrefix Gen.heightByHashPrefix o.key = false) :
    applyP t (ops ++ frontierOps i) (keyHeightByHash x) =
      if x = i.hash then some (beBytes 8 i.height) else t (keyHeightByHash x) := by
  rw [applyP_append, applyP_frontierOps]
  simp only [keyHeightByHash_ne_entryByHeight, if_false, keyHeightByHash_inj,
    (keyFrontierId_ne_heightByHash x).symm]
  by_cases hx : x = i.hash
  · simp [hx]
  · simp only [hx, if_false]
    apply applyP_not_mem
    intro hm
    simp only [keys, List.mem_map] at hm
    obtain ⟨o, ho, hk⟩ := hm
    have := hu o ho
    rw [hk, isPrefix_keyHeightByHash] at this
    exact Bool.noConfusion this

/-! ### lookup in the height-indexed patch tables -/

theorem lookupH_cons (n : Nat) (p : Patch) (l : List (Nat × Patch)) (j : Nat) :
    lookupH ((n, p) :: l) j = if n = j then some p else lookupH l j := rfl

theorem lookupH_filter_ne (l : List (Nat × Patch)) (n j : Nat) (h : j ≠ n) :
    lookupH (l.filter (fun e => e.1 ≠ n)) j = lookupH l j := by
  induction l with
  | nil => rfl
  | cons e t ih =>
    obtain ⟨m, p⟩ := e
    by_cases hm : m = n
    · have hf : List.filter (fun e : Nat × Patch => decide (e.1 ≠ n)) ((m, p) :: t)
          = List.filter (fun e : Nat × Patch => decide (e.1 ≠ n)) t :=
        List.filter_cons_of_neg (by simp [hm])
      have : m ≠ j := by omega
      rw [hf, ih, lookupH_cons, if_neg this]
    · have hf : List.filter (fun e : Nat × Patch => decide (e.1 ≠ n)) ((m, p) :: t)
          = (m, p) :: List.filter (fun e : Nat × Patch => decide (e.1 ≠ n)) t :=
        List.filter_cons_of_pos (by simp [hm])
      rw [hf, lookupH_cons, lookupH_cons, ih]

theorem lookupH_filter_self (l : List (Nat × Patch)) (n : Nat) :
    lookupH (l.filter (fun e => e.1 ≠ n)) n = none := by
  induction l with
  | nil => rfl
  | cons e t ih =>
    obtain ⟨m, p⟩ := e
    by_cases hm : m = n
    · have hf : List.filter (fun e : Nat × Patch => decide (e.1 ≠ n)) ((m, p) :: t)
          = List.filter (fun e : Nat × Patch => decide (e.1 ≠ n)) t :=
        List.filter_cons_of_neg (by simp [hm])
      rw [hf, ih]
    · have hf : List.filter (fun e : Nat × Patch => decide (e.1 ≠ n)) ((m, p) :: t)
          = (m, p) :: List.filter (fun e : Nat × Patch => decide (e.1 ≠ n)) t :=
        List.filter_cons_of_pos (by simp [hm])
      rw [hf, lookupH_cons, if_neg hm, ih]

/-- the last round of the overlay loop, when all earlier undo patches exist -/
theorem buildOverlay_snoc (rbs : List (Nat × Patch)) (n : Nat) : ∀ (lo : Nat) (rb : Raw) (p : Patch),
    (∀ i, i < n → (lookupH rbs (lo + 1 + i)).isSome = true) → lookupH rbs (lo + n + 1) = some p →
    buildOverlay rbs lo (n + 1) rb = woApply (buildOverlay rbs lo n rb) p := by
  induction n with
  | zero =>
    intro lo rb p _ hp
    simp only [Nat.add_zero] at hp
    simp [buildOverlay, hp]
  | succ n ih =>
    intro lo rb p hall hp
    obtain ⟨q, hq⟩ := Option.isSome_iff_exists.1 (hall 0 (Nat.succ_pos n))
    simp only [Nat.add_zero] at hq
    have hstep : ∀ m r, buildOverlay rbs lo (m + 1) r = buildOverlay rbs (lo + 1) m (woApply r q) := by
      intro m r; simp [buildOverlay, hq]
    rw [hstep (n + 1) rb, hstep n rb]
    apply ih
    · intro i hi
      have := hall (i + 1) (by omega)
      rwa [show lo + 1 + (i + 1) = lo + 1 + 1 + i by omega] at this
    · rwa [show lo + 1 + n + 1 = lo + (n + 1) + 1 by omega]

/-! ### ghost history -/

/-- a version on the current chain: identifier, redo patch (user operations followed by the frontier bookkeeping
    writes) and the logical content of the store when this version was the frontier -/
structure Ver where
  id : Id
  patch : Patch
  store : Store

def topStore : List Ver → Store
  | [] => Store.empty
  | v :: _ => v.store

def topId : List Ver → Id
  | [] => Id.zero
  | v :: _ => v.id

@[simp] theorem topStore_nil : topStore [] = Store.empty := rfl
@[simp] theorem topStore_cons (v : Ver) (h : List Ver) : topStore (v :: h) = v.store := rfl
@[simp] theorem topId_nil : topId [] = Id.zero := rfl
@[simp] theorem topId_cons (v : Ver) (h : List Ver) : topId (v :: h) = v.id := rfl

/-- the ghost version created by committing `ops` under identifier `id` on top of history `h` -/
def commitVer (h : List Ver) (id : Id) (ops : Patch) : Ver :=
  ⟨id, ops ++ frontierOps id, applyP (topStore h) (ops ++ frontierOps id)⟩

/-- height discipline of a commit: one above the frontier, and a uint64 -/
structure HOk (top : Id) (id : Id) : Prop where
  height : id.height = top.height + 1
  bound : id.height < two64

/-- full side conditions of a commit on the frontier: height discipline, a hash not used by a version on the
    chain, and user operations that stay out of the hash index key space -/
structure AddOk (top : Id) (h : List Ver) (id : Id) (ops : Patch) : Prop extends HOk top id where
  fresh : ∀ v ∈ h, v.id.hash ≠ id.hash
  user : ∀ o ∈ ops, isPrefix Gen.heightByHashPrefix o.key = false

/-- height-chain: every version is a commit one above its predecessor -/
inductive HChain : List Ver → Prop
  | nil : HChain []
  | cons {h id ops} : HChain h → HOk (topId h) id → HChain (commitVer h id ops :: h)

/-- well-formed chain: additionally hashes are pairwise distinct and user operations avoid the hash index -/
inductive Chain : List Ver → Prop
  | nil : Chain []
  | cons {h id ops} : Chain h → AddOk (topId h) h id ops → Chain (commitVer h id ops :: h)

theorem Chain.hchain {h : List Ver} (hc : Chain h) : HChain h := by
  induction hc with
  | nil => exact HChain.nil
  | cons _ hok ih => exact HChain.cons ih hok.toHOk

theorem HChain.tail {v : Ver} {h : List Ver} (hc : HChain (v :: h)) : HChain h := by
  cases hc; assumption

theorem Chain.tail {v : Ver} {h : List Ver} (hc : Chain (v :: h)) : Chain h := by
  cases hc; assumption

theorem HChain.head {v : Ver} {h : List Ver} (hc : HChain (v :: h)) :
    ∃ ops, v = commitVer h v.id ops ∧ HOk (topId h) v.id := by
  cases hc with
  | cons _ hok => exact ⟨_, rfl, hok⟩

theorem Chain.head {v : Ver} {h : List Ver} (hc : Chain (v :: h)) :
    ∃ ops, v = commitVer h v.id ops ∧ AddOk (topId h) h v.id ops := by
  cases hc with
  | cons _ hok => exact ⟨_, rfl, hok⟩

theorem HChain.suffix {a b : List Ver} (hc : HChain (a ++ b)) : HChain b := by
  induction a with
  | nil => exact hc
  | cons x a ih => exact ih (HChain.tail hc)

theorem Chain.suffix {a b : List Ver} (hc : Chain (a ++ b)) : Chain b := by
  induction a with
  | nil => exact hc
  | cons x a ih => exact ih (Chain.tail hc)

theorem HChain.topHeight {h : List Ver} (hc : HChain h) : (topId h).height = h.length := by
  induction hc with
  | nil => rfl
  | cons _ hok ih => simp only [topId_cons, commitVer, hok.height, List.length_cons]; rw [ih]

theorem HChain.head_height {v : Ver} {h : List Ver} (hc : HChain (v :: h)) : v.id.height = h.length + 1 := by
  have := hc.topHeight; simpa [topId_cons, topId_nil] using this

theorem HChain.head_store {v : Ver} {h : List Ver} (hc : HChain (v :: h)) :
    v.store = applyP (topStore h) v.patch := by
  obtain ⟨ops, hv, _⟩ := hc.head
  rw [hv]; rfl

/-- heights on a chain are the positions counted from the bottom -/
theorem HChain.split_height {newer older : List Ver} {v : Ver} (hc : HChain (newer ++ v :: older)) :
    v.id.height = older.length + 1 := (HChain.suffix hc).head_height

theorem HChain.mem_height {h : List Ver} (hc : HChain h) {v : Ver} (hv : v ∈ h) :
    1 ≤ v.id.height ∧ v.id.height ≤ h.length := by
  obtain ⟨newer, older, rfl⟩ := List.append_of_mem hv
  have := hc.split_height
  simp only [List.length_append, List.length_cons]
  omega

theorem HChain.mem_bound {h : List Ver} (hc : HChain h) {v : Ver} (hv : v ∈ h) : v.id.height < two64 := by
  obtain ⟨newer, older, rfl⟩ := List.append_of_mem hv
  obtain ⟨_, _, hok⟩ := (HChain.suffix hc).head
  exact hok.bound

theorem HChain.mem_not_zero {h : List Ver} (hc : HChain h) {v : Ver} (hv : v ∈ h) : v.id.isZero = false := by
  have := (hc.mem_height hv).1
  simp only [Id.isZero, Bool.and_eq_false_iff, beq_eq_false_iff_ne]
  exact Or.inl (by omega)

theorem HChain.frontierIdOf_top {h : List Ver} (hc : HChain h) : frontierIdOf (topStore h) = topId h := by
  cases hc with
  | nil => simp [frontierIdOf, topStore_nil, Store.empty, topId_nil]
  | cons _ hok => exact frontierIdOf_commit _ _ _ hok.bound

/-- hash index, positive part: every version on the chain is indexed under its hash with its height -/
theorem Chain.hashIndex_mem {h : List Ver} (hc : Chain h) {v : Ver} (hv : v ∈ h) :
    topStore h (keyHeightByHash v.id.hash) = some (beBytes 8 v.id.height) := by
  induction hc with
  | nil => simp at hv
  | @cons h id ops hc' hok ih =>
    simp only [topStore_cons, commitVer]
    rw [applyP_commit_hashKey _ _ _ _ hok.user]
    rcases List.mem_cons.1 hv with hv | hv
    · subst hv; simp [commitVer]
    · have : v.id.hash ≠ id.hash := hok.fresh v hv
      simp only [this, if_false]
      exact ih hv

/-- hash index, negative part: a hash of no version on the chain has no entry -/
theorem Chain.hashIndex_none {h : List Ver} (hc : Chain h) {x : Bytes} (hx : ∀ v ∈ h, v.id.hash ≠ x) :
    topStore h (keyHeightByHash x) = none := by
  induction hc with
  | nil => rfl
  | @cons h id ops hc' hok ih =>
    simp only [topStore_cons, commitVer]
    rw [applyP_commit_hashKey _ _ _ _ hok.user]
    have h1 : x ≠ id.hash := fun e => hx (commitVer h id ops) (by simp) (by simp [commitVer, e])
    simp only [h1, if_false]
    exact ih (fun v hv => hx v (List.mem_cons_of_mem _ hv))

/-- hashes on a well-formed chain identify the version -/
theorem Chain.hash_inj {h : List Ver} (hc : Chain h) {v w : Ver} (hv : v ∈ h) (hw : w ∈ h)
    (he : v.id.hash = w.id.hash) : v = w := by
  induction hc with
  | nil => simp at hv
  | @cons h id ops hc' hok ih =>
    rcases List.mem_cons.1 hv with hv | hv <;> rcases List.mem_cons.1 hw with hw | hw
    · rw [hv, hw]
    · subst hv; exact absurd he.symm (hok.fresh w hw)
    · subst hw; exact absurd he (hok.fresh v hv)
    · exact ih hv hw

/-! ### the invariant -/

/-- the stored undo patch of every version on the chain is the one recorded against its predecessor's content -/
def RbInv (rbs : List (Nat × Patch)) : List Ver → Prop
  | [] => True
  | v :: h => lookupH rbs v.id.height = some (rollbackPatch (topStore h) v.patch) ∧ RbInv rbs h

theorem RbInv.congr {rbs rbs' : List (Nat × Patch)} {h : List Ver}
    (he : ∀ v ∈ h, lookupH rbs' v.id.height = lookupH rbs v.id.height) (hr : RbInv rbs h) : RbInv rbs' h := by
  induction h with
  | nil => trivial
  | cons v h ih =>
    refine ⟨?_, ih (fun w hw => he w (List.mem_cons_of_mem _ hw)) hr.2⟩
    rw [he v (by simp)]; exact hr.1

theorem RbInv.suffix {rbs : List (Nat × Patch)} {a b : List Ver} (hr : RbInv rbs (a ++ b)) : RbInv rbs b := by
  induction a with
  | nil => exact hr
  | cons x a ih => exact ih hr.2

theorem RbInv.isSome {rbs : List (Nat × Patch)} {h : List Ver} (hr : RbInv rbs h) (hc : HChain h)
    (j : Nat) (h1 : 1 ≤ j) (h2 : j ≤ h.length) : (lookupH rbs j).isSome = true := by
  induction h with
  | nil => simp at h2; omega
  | cons v h ih =>
    have hh := hc.head_height
    by_cases hj : j = h.length + 1
    · rw [hj, ← hh, hr.1]; rfl
    · exact ih hr.2 hc.tail (by simp at h2; omega)

/-- the stored redo patch of every version on the chain is that version's patch -/
def PtInv (pts : List (Nat × Patch)) : List Ver → Prop
  | [] => True
  | v :: h => lookupH pts v.id.height = some v.patch ∧ PtInv pts h

theorem PtInv.congr {pts pts' : List (Nat × Patch)} {h : List Ver}
    (he : ∀ v ∈ h, lookupH pts' v.id.height = lookupH pts v.id.height) (hr : PtInv pts h) : PtInv pts' h := by
  induction h with
  | nil => trivial
  | cons v h ih =>
    refine ⟨?_, ih (fun w hw => he w (List.mem_cons_of_mem _ hw)) hr.2⟩
    rw [he v (by simp)]; exact hr.1

theorem PtInv.mem {pts : List (Nat × Patch)} {h : List Ver} (hr : PtInv pts h) {v : Ver} (hv : v ∈ h) :
    lookupH pts v.id.height = some v.patch := by
  induction h with
  | nil => simp at hv
  | cons w h ih =>
    rcases List.mem_cons.1 hv with hv | hv
    · subst hv; exact hr.1
    · exact ih hr.2 hv

/-- the part of the invariant that only needs the height discipline -/
structure Inv0 (s : Ldb) (h : List Ver) : Prop where
  hchain : HChain h
  sorted : Sorted s.frontier
  front : KvLogic.abs s.frontier = topStore h
  rb : RbInv s.rollbacks h
  rbNone : ∀ j, j = 0 ∨ h.length < j → lookupH s.rollbacks j = none
  pt : PtInv s.patches h
  ptNone : ∀ j, j = 0 ∨ h.length < j → lookupH s.patches j = none

/-- the full invariant: a well-formed chain, and the raw state represents it -/
structure Inv (s : Ldb) (h : List Ver) : Prop where
  chain : Chain h
  inv0 : Inv0 s h

theorem Inv0.frontierId {s : Ldb} {h : List Ver} (hi : Inv0 s h) : s.frontierId = topId h := by
  have : s.frontierId = frontierIdOf (KvLogic.abs s.frontier) := rfl
  rw [this, hi.front, hi.hchain.frontierIdOf_top]

theorem topId_isZero {h : List Ver} (hc : HChain h) : (topId h).isZero = true ↔ h = [] := by
  cases h with
  | nil => simp [topId_nil, Id.zero, Id.isZero]
  | cons v h =>
    have := hc.mem_not_zero (v := v) (by simp)
    simp [topId_cons, this]

theorem Root.get_front (base : Raw) : (Root.front base).get = KvLogic.abs base := rfl

theorem Root.get_mem : Root.mem.get = Store.empty := rfl

theorem Root.get_hist (rb base : Raw) : (Root.hist rb base).get = viewOf (oabs rb) (KvLogic.abs base) := by
  funext k; simp only [Root.get, Root.rawGet]; exact edDecode_mget2 rb base k

/-- `Get(frontier identifier)` succeeds and shows the frontier content -/
theorem Inv0.get_frontier {s : Ldb} {h : List Ver} (hi : Inv0 s h) :
    ∃ r, s.get s.frontierId = some r ∧ r.get = topStore h ∧
      (r = Root.mem ∧ h = [] ∨ r = Root.front s.frontier) := by
  by_cases hz : s.frontierId.isZero = true
  · have hnil : h = [] := (topId_isZero hi.hchain).1 (by rw [← hi.frontierId]; exact hz)
    refine ⟨Root.mem, by simp [Ldb.get, hz], ?_, Or.inl ⟨rfl, hnil⟩⟩
    rw [hnil]; rfl
  · refine ⟨Root.front s.frontier, by simp [Ldb.get, hz], ?_, Or.inr rfl⟩
    rw [Root.get_front, hi.front]

/-- what a commit on the frontier writes (no side condition needed beyond the invariant) -/
theorem Inv0.add_eq {s s' : Ldb} {h : List Ver} (hi : Inv0 s h) (id : Id) (ops : Patch)
    (ha : s.add s.frontierId id ops = some s') :
    s' = { frontier := edApply s.frontier (ops ++ frontierOps id),
           rollbacks := (id.height, rollbackPatch (topStore h) (ops ++ frontierOps id)) ::
              s.rollbacks.filter (fun e => e.1 ≠ id.height),
           patches := (id.height, ops ++ frontierOps id) :: s.patches.filter (fun e => e.1 ≠ id.height) } := by
  obtain ⟨r, hr, hg, _⟩ := hi.get_frontier
  simp only [Ldb.add, hr, if_true, Option.some.injEq] at ha
  rw [← ha, hg]

theorem Inv0.add {s s' : Ldb} {h : List Ver} (hi : Inv0 s h) {id : Id} (ops : Patch)
    (hok : HOk s.frontierId id) (ha : s.add s.frontierId id ops = some s') :
    Inv0 s' (commitVer h id ops :: h) := by
  have hs' := hi.add_eq id ops ha
  have hfid := hi.frontierId
  have hok' : HOk (topId h) id := hfid ▸ hok
  have hlen : id.height = h.length + 1 := by rw [hok'.height, hi.hchain.topHeight]
  subst hs'
  refine ⟨HChain.cons hi.hchain hok', hi.sorted.edApply _, ?_, ⟨?_, ?_⟩, ?_, ⟨?_, ?_⟩, ?_⟩
  · simp only [topStore_cons, commitVer]
    rw [abs_edApply, hi.front]
  · simp [commitVer, lookupH_cons]
  · refine RbInv.congr ?_ hi.rb
    intro v hv
    have := (hi.hchain.mem_height hv).2
    have hne : v.id.height ≠ id.height := by omega
    rw [lookupH_cons, if_neg (fun e => hne (Eq.symm e))]
    exact lookupH_filter_ne _ _ _ hne
  · intro j hj
    simp only [List.length_cons] at hj
    have hne : j ≠ id.height := by omega
    rw [lookupH_cons, if_neg (fun e => hne (Eq.symm e)), lookupH_filter_ne _ _ _ hne]
    exact hi.rbNone j (by omega)
  · simp [commitVer, lookupH_cons]
  · refine PtInv.congr ?_ hi.pt
    intro v hv
    have := (hi.hchain.mem_height hv).2
    have hne : v.id.height ≠ id.height := by omega
    rw [lookupH_cons, if_neg (fun e => hne (Eq.symm e))]
    exact lookupH_filter_ne _ _ _ hne
  · intro j hj
    simp only [List.length_cons] at hj
    have hne : j ≠ id.height := by omega
    rw [lookupH_cons, if_neg (fun e => hne (Eq.symm e)), lookupH_filter_ne _ _ _ hne]
    exact hi.ptNone j (by omega)

/-- what a pop does in a state with a non-empty history -/
theorem Inv0.pop_eq {s s' : Ldb} {v : Ver} {h : List Ver} (hi : Inv0 s (v :: h)) (hp : s.pop = some s') :
    s' = { frontier := edApply s.frontier (rollbackPatch (topStore h) v.patch),
           rollbacks := s.rollbacks.filter (fun e => e.1 ≠ v.id.height),
           patches := s.patches.filter (fun e => e.1 ≠ v.id.height) } := by
  have hfid : s.frontierId = v.id := hi.frontierId
  have hl := hi.rb.1
  simp only [Ldb.pop, hfid, hl, Option.some.injEq] at hp
  exact hp.symm

theorem Inv0.pop {s s' : Ldb} {v : Ver} {h : List Ver} (hi : Inv0 s (v :: h)) (hp : s.pop = some s') :
    Inv0 s' h := by
  have hs' := hi.pop_eq hp
  have hh := hi.hchain.head_height
  subst hs'
  refine ⟨hi.hchain.tail, hi.sorted.edApply _, ?_, ?_, ?_, ?_, ?_⟩
  · simp only []
    rw [abs_edApply, hi.front]
    simp only [topStore_cons]
    rw [hi.hchain.head_store, applyP_undo]
  · refine RbInv.congr ?_ hi.rb.2
    intro w hw
    have := (hi.hchain.tail.mem_height hw).2
    exact lookupH_filter_ne _ _ _ (by omega)
  · intro j hj
    by_cases hjv : j = v.id.height
    · rw [hjv]; exact lookupH_filter_self _ _
    · rw [lookupH_filter_ne _ _ _ hjv]
      exact hi.rbNone j (by simp only [List.length_cons]; omega)
  · refine PtInv.congr ?_ hi.pt.2
    intro w hw
    have := (hi.hchain.tail.mem_height hw).2
    exact lookupH_filter_ne _ _ _ (by omega)
  · intro j hj
    by_cases hjv : j = v.id.height
    · rw [hjv]; exact lookupH_filter_self _ _
    · rw [lookupH_filter_ne _ _ _ hjv]
      exact hi.ptNone j (by simp only [List.length_cons]; omega)

/-- a pop on the empty history is refused (no undo patch is stored for height 0) -/
theorem Inv0.pop_empty {s : Ldb} (hi : Inv0 s []) : s.pop = none := by
  have hfid : s.frontierId = Id.zero := hi.frontierId
  have := hi.rbNone 0 (Or.inl rfl)
  simp [Ldb.pop, hfid, Id.zero, this]

/-- pop in a state with a non-empty history always succeeds -/
theorem Inv0.pop_succeeds {s : Ldb} {v : Ver} {h : List Ver} (hi : Inv0 s (v :: h)) : ∃ s', s.pop = some s' := by
  have hfid : s.frontierId = v.id := hi.frontierId
  have hl := hi.rb.1
  simp only [Ldb.pop, hfid, hl]
  exact ⟨_, rfl⟩

/-- commit on the frontier always succeeds -/
theorem Inv0.add_succeeds {s : Ldb} {h : List Ver} (hi : Inv0 s h) (id : Id) (ops : Patch) :
    ∃ s', s.add s.frontierId id ops = some s' := by
  obtain ⟨r, hr, _, _⟩ := hi.get_frontier
  simp only [Ldb.add, hr, if_true]
  exact ⟨_, rfl⟩

/-- a commit whose parent is not the frontier changes nothing -/
theorem add_stale_eq {s s' : Ldb} {prev id : Id} {ops : Patch} (hne : prev ≠ s.frontierId)
    (ha : s.add prev id ops = some s') : s' = s := by
  unfold Ldb.add at ha
  cases hg : s.get prev with
  | none => simp [hg] at ha
  | some r => simp [hg, hne] at ha; exact ha.symm

/-! ### reachability -/

/-- reachable manager states together with the ghost history of the current chain (newest version first) -/
inductive Reach : Ldb → List Ver → Prop
  | init : Reach Ldb.empty []
  | add {s s' h id ops} : Reach s h → AddOk s.frontierId h id ops → s.add s.frontierId id ops = some s' →
      Reach s' (commitVer h id ops :: h)
  | addStale {s s' h prev id ops} : Reach s h → prev ≠ s.frontierId → s.add prev id ops = some s' → Reach s' h
  | pop {s s' v h} : Reach s (v :: h) → s.pop = some s' → Reach s' h

theorem Inv.init : Inv Ldb.empty [] := by
  refine ⟨Chain.nil, HChain.nil, Sorted.nil, abs_nil, trivial, ?_, trivial, ?_⟩ <;> (intro j _; rfl)

theorem Reach.inv {s : Ldb} {h : List Ver} (hr : Reach s h) : Inv s h := by
  induction hr with
  | init => exact Inv.init
  | @add s s' h id ops _ hok ha ih =>
    have hfid := ih.inv0.frontierId
    exact ⟨Chain.cons ih.chain (hfid ▸ hok), ih.inv0.add ops hok.toHOk ha⟩
  | addStale _ hne ha ih => rw [add_stale_eq hne ha]; exact ih
  | pop _ hp ih => exact ⟨ih.chain.tail, ih.inv0.pop hp⟩

/-! ### views -/

/-- the overlay folded from the stored undo patches of the newer versions, laid over the frontier content,
    shows the content of the viewed version -/
theorem overlay_view (rbs : List (Nat × Patch)) (v : Ver) (older : List Ver) :
    ∀ newer : List Ver, HChain (newer ++ v :: older) → RbInv rbs (newer ++ v :: older) →
      viewOf (oabs (buildOverlay rbs v.id.height newer.length [])) (topStore (newer ++ v :: older)) = v.store := by
  intro newer
  induction newer with
  | nil =>
    intro _ _
    simp only [List.length_nil, buildOverlay, oabs_nil, viewOf_empty, List.nil_append, topStore_cons]
  | cons w newer ih =>
    intro hc hr
    have hc' : HChain (newer ++ v :: older) := hc.tail
    have hr' : RbInv rbs (newer ++ v :: older) := hr.2
    have hv : v.id.height = older.length + 1 := hc'.split_height
    have hw : w.id.height = (newer ++ v :: older).length + 1 := hc.head_height
    have hlw : lookupH rbs w.id.height = some (rollbackPatch (topStore (newer ++ v :: older)) w.patch) := hr.1
    have hsnoc := buildOverlay_snoc rbs newer.length v.id.height []
      (rollbackPatch (topStore (newer ++ v :: older)) w.patch)
      (fun i hi => hr'.isSome hc' _ (by omega) (by simp only [List.length_append, List.length_cons]; omega))
      (by rw [← hlw, hw]; congr 1; simp only [List.length_append, List.length_cons]; omega)
    simp only [List.length_cons, List.cons_append, topStore_cons]
    rw [hsnoc, oabs_woApply, (HChain.head_store hc : w.store = _)]
    exact viewOf_step v.store _ _ _ (ih hc' hr')

/-- C07-T1 on the executable manager: `Get(id of a version on the chain)` succeeds and reads, for every key,
    the content that version had when it was committed -/
theorem Inv.view {s : Ldb} {h : List Ver} (hi : Inv s h) {v : Ver} (hv : v ∈ h) :
    ∃ r, s.get v.id = some r ∧ r.get = v.store ∧
      (r = Root.front s.frontier ∧ v.id = s.frontierId ∨
       v.id ≠ s.frontierId ∧ ∃ rb, r = Root.hist rb s.frontier ∧ Sorted rb) := by
  obtain ⟨newer, older, rfl⟩ := List.append_of_mem hv
  have hc := hi.inv0.hchain
  have hnz : v.id.isZero = false := hc.mem_not_zero hv
  have hfid := hi.inv0.frontierId
  cases newer with
  | nil =>
    have hvf : v.id = s.frontierId := by rw [hfid]; rfl
    refine ⟨Root.front s.frontier, by simp [Ldb.get, hnz, hvf.symm], ?_, Or.inl ⟨rfl, hvf⟩⟩
    rw [Root.get_front, hi.inv0.front]; rfl
  | cons w newer =>
    have hwf : s.frontierId = w.id := by rw [hfid]; rfl
    obtain ⟨ops, _, hok⟩ := hi.chain.head
    have hne : v.id ≠ s.frontierId := by
      rw [hwf]; intro e
      exact hok.fresh v (by simp) (by rw [e])
    have hidx : edDecode (rget s.frontier (keyHeightByHash v.id.hash)) = some (beBytes 8 v.id.height) := by
      have := hi.chain.hashIndex_mem hv
      rw [← hi.inv0.front] at this; exact this
    have hvh : v.id.height = older.length + 1 := hc.split_height
    have hwh : w.id.height = (newer ++ v :: older).length + 1 := hc.head_height
    have hdiff : s.frontierId.height - v.id.height = (w :: newer).length := by
      rw [hwf, hwh, hvh]; simp only [List.length_append, List.length_cons]; omega
    refine ⟨Root.hist (buildOverlay s.rollbacks v.id.height (w :: newer).length []) s.frontier, ?_, ?_,
      Or.inr ⟨hne, _, rfl, ?_⟩⟩
    · simp [Ldb.get, hnz, hne, hidx, beVal_beBytes8 (hc.mem_bound hv), hdiff]
    · rw [Root.get_hist, hi.inv0.front]
      exact overlay_view s.rollbacks v older (w :: newer) hc hi.inv0.rb
    · generalize (w :: newer).length = n
      generalize v.id.height = lo
      suffices ∀ (n lo : Nat) (rb : Raw), Sorted rb → Sorted (buildOverlay s.rollbacks lo n rb) from
        this n lo [] Sorted.nil
      intro n
      induction n with
      | zero => intro lo rb hrb; exact hrb
      | succ n ih =>
        intro lo rb hrb
        simp only [buildOverlay]
        cases lookupH s.rollbacks (lo + 1) with
        | none => exact hrb
        | some p => exact ih _ _ (hrb.woApply p)

/-- an identifier that is neither zero nor the identifier of a version on the chain is refused -/
theorem Inv.get_unknown {s : Ldb} {h : List Ver} (hi : Inv s h) {id : Id} (hz : id.isZero = false)
    (hid : ∀ v ∈ h, v.id ≠ id) : s.get id = none := by
  have hfid := hi.inv0.frontierId
  have hne : id ≠ s.frontierId := by
    rw [hfid]
    cases h with
    | nil => intro e; rw [e] at hz; simp [topId_nil, Id.zero, Id.isZero] at hz
    | cons v h => intro e; exact hid v (by simp) e.symm
  by_cases hx : ∃ v ∈ h, v.id.hash = id.hash
  · obtain ⟨v, hv, hvh⟩ := hx
    have hidx : edDecode (rget s.frontier (keyHeightByHash id.hash)) = some (beBytes 8 v.id.height) := by
      have := hi.chain.hashIndex_mem hv
      rw [← hi.inv0.front, hvh] at this; exact this
    have hhe : v.id.height ≠ id.height := by
      intro e
      apply hid v hv
      cases hvi : v.id; cases id; simp_all
    simp [Ldb.get, hz, hne, hidx, beVal_beBytes8 (hi.inv0.hchain.mem_bound hv), hhe]
  · have hidx : edDecode (rget s.frontier (keyHeightByHash id.hash)) = none := by
      have := hi.chain.hashIndex_none (x := id.hash) (fun v hv e => hx ⟨v, hv, e⟩)
      rw [← hi.inv0.front] at this; exact this
    simp [Ldb.get, hz, hne, hidx]

/-- the entries an ordered scan of the view at version `v` must list: exactly the content of `v` under the prefix
    (whether `v` is the frontier or below it) -/
def scanSpec (v : Ver) (p : Bytes) : Bytes → Bytes → Prop :=
  fun k val => isPrefix p k = true ∧ v.store k = some val

/-- lookup and ordered scan of the view at a version on the chain -/
theorem Inv.view_scan {s : Ldb} {h : List Ver} (hi : Inv s h) {v : Ver} (hv : v ∈ h) :
    ∃ r, s.get v.id = some r ∧ r.get = v.store ∧
      ∀ p, OrderedEntries (edEntries (r.rawScan p)) (scanSpec v p) := by
  obtain ⟨r, hg, hget, hshape⟩ := hi.view hv
  refine ⟨r, hg, hget, ?_⟩
  intro p
  rcases hshape with ⟨rfl, _⟩ | ⟨_, rb, rfl, hrb⟩
  · have h1 : OrderedEntries (edEntries ((Root.front s.frontier).rawScan p)) _ :=
      front_scan_entries hi.inv0.sorted p
    refine ⟨h1.1, ?_⟩
    intro k val
    refine (h1.2 k val).trans ?_
    rw [← Root.get_front, hget]
    exact Iff.rfl
  · have h1 : OrderedEntries (edEntries ((Root.hist rb s.frontier).rawScan p)) _ :=
      hist_scan_entries hrb hi.inv0.sorted p
    refine ⟨h1.1, ?_⟩
    intro k val
    refine (h1.2 k val).trans ?_
    rw [← Root.get_hist, hget]
    exact Iff.rfl

/-- observational equality of two manager states: for every identifier `Get` answers alike (refused / a view),
    and the two views agree on every lookup and on every ordered prefix scan -/
def ObsEq (s t : Ldb) : Prop :=
  ∀ i : Id,
    match s.get i, t.get i with
    | some r, some r' => (∀ k, r.get k = r'.get k) ∧ (∀ p, edEntries (r.rawScan p) = edEntries (r'.rawScan p))
    | none, none => True
    | _, _ => False

/-- two states that represent the same history are observationally equal -/
theorem Inv.obsEq {s t : Ldb} {h : List Ver} (hs : Inv s h) (ht : Inv t h) : ObsEq s t := by
  intro i
  by_cases hz : i.isZero = true
  · have h1 : s.get i = some Root.mem := by simp [Ldb.get, hz]
    have h2 : t.get i = some Root.mem := by simp [Ldb.get, hz]
    rw [h1, h2]; exact ⟨fun _ => rfl, fun _ => rfl⟩
  · have hz' : i.isZero = false := by simpa using hz
    by_cases hx : ∃ v ∈ h, v.id = i
    · obtain ⟨v, hv, rfl⟩ := hx
      obtain ⟨r, hg, hget, hscan⟩ := hs.view_scan hv
      obtain ⟨r', hg', hget', hscan'⟩ := ht.view_scan hv
      rw [hg, hg']
      exact ⟨fun k => by rw [hget, hget'], fun p => (hscan p).unique (hscan' p)⟩
    · have hid : ∀ v ∈ h, v.id ≠ i := fun v hv e => hx ⟨v, hv, e⟩
      rw [hs.get_unknown hz' hid, ht.get_unknown hz' hid]
      trivial

/-- commit on the frontier followed by pop re-establishes the invariant for the SAME history; only the height
    discipline of the popped commit is needed -/
theorem Inv.add_pop {s s1 s2 : Ldb} {h : List Ver} (hi : Inv s h) {id : Id} {ops : Patch}
    (hok : HOk s.frontierId id) (ha : s.add s.frontierId id ops = some s1) (hp : s1.pop = some s2) : Inv s2 h :=
  ⟨hi.chain, (hi.inv0.add ops hok ha).pop hp⟩

/-- a commit on a known non-frontier parent "succeeds" (and, by `add_stale_eq`, changes nothing) -/
theorem Inv.add_stale_succeeds {s : Ldb} {h : List Ver} (hi : Inv s h) {v : Ver} (hv : v ∈ h)
    (hne : v.id ≠ s.frontierId) (id : Id) (ops : Patch) : s.add v.id id ops = some s := by
  obtain ⟨r, hg, _⟩ := hi.view hv
  simp [Ldb.add, hg, hne]

/-- a commit on an unknown parent is refused with an error -/
theorem Inv.add_unknown {s : Ldb} {h : List Ver} (hi : Inv s h) {prev : Id} (hz : prev.isZero = false)
    (hid : ∀ v ∈ h, v.id ≠ prev) (id : Id) (ops : Patch) : s.add prev id ops = none := by
  simp [Ldb.add, hi.get_unknown hz hid]

/-- replaying the redo patches of the chain, oldest first, from the empty store gives the frontier content -/
theorem HChain.replay {h : List Ver} (hc : HChain h) :
    (h.reverse.map Ver.patch).foldl applyP Store.empty = topStore h := by
  induction h with
  | nil => rfl
  | cons v h ih =>
    simp only [List.reverse_cons, List.map_append, List.map_cons, List.map_nil, List.foldl_append,
      List.foldl_cons, List.foldl_nil, topStore_cons]
    rw [ih hc.tail, hc.head_store]

/-! ### the rollback cache: extending a cached overlay = rebuilding it -/

theorem buildOverlay_congr (rbs rbs' : List (Nat × Patch)) (n : Nat) : ∀ (lo : Nat) (rb : Raw),
    (∀ i, i < n → lookupH rbs (lo + 1 + i) = lookupH rbs' (lo + 1 + i)) →
    buildOverlay rbs lo n rb = buildOverlay rbs' lo n rb := by
  induction n with
  | zero => intro lo rb _; rfl
  | succ n ih =>
    intro lo rb he
    have h0 := he 0 (Nat.succ_pos n)
    simp only [Nat.add_zero] at h0
    simp only [buildOverlay, ← h0]
    cases lookupH rbs (lo + 1) with
    | none => rfl
    | some p =>
      simp only []
      apply ih
      intro i hi
      have := he (i + 1) (by omega)
      rwa [show lo + 1 + (i + 1) = lo + 1 + 1 + i by omega] at this

theorem buildOverlay_split (rbs : List (Nat × Patch)) (a b : Nat) : ∀ (lo : Nat) (rb : Raw),
    (∀ i, i < a → (lookupH rbs (lo + 1 + i)).isSome = true) →
    buildOverlay rbs lo (a + b) rb = buildOverlay rbs (lo + a) b (buildOverlay rbs lo a rb) := by
  induction a with
  | zero => intro lo rb _; simp [buildOverlay]
  | succ a ih =>
    intro lo rb hall
    obtain ⟨q, hq⟩ := Option.isSome_iff_exists.1 (hall 0 (Nat.succ_pos a))
    simp only [Nat.add_zero] at hq
    have hstep : ∀ m r, buildOverlay rbs lo (m + 1) r = buildOverlay rbs (lo + 1) m (woApply r q) := by
      intro m r; simp [buildOverlay, hq]
    rw [show a + 1 + b = (a + b) + 1 by omega, hstep (a + b) rb, hstep a rb,
      show lo + (a + 1) = lo + 1 + a by omega]
    apply ih
    intro i hi
    have := hall (i + 1) (by omega)
    rwa [show lo + 1 + (i + 1) = lo + 1 + 1 + i by omega] at this

theorem RbInv.lookup_eq {rbs rbs' : List (Nat × Patch)} {h : List Ver} (hr : RbInv rbs h) (hr' : RbInv rbs' h)
    (hc : HChain h) (j : Nat) (h1 : 1 ≤ j) (h2 : j ≤ h.length) : lookupH rbs j = lookupH rbs' j := by
  induction h with
  | nil => simp at h2; omega
  | cons v h ih =>
    have hh := hc.head_height
    by_cases hj : j = h.length + 1
    · rw [hj, ← hh, hr.1, hr'.1]
    · exact ih hr.2 hr'.2 hc.tail (by simp at h2; omega)

/-- cache soundness (the invariant `I_cache` of DESIGN §3 C06): an overlay for version `v` that was folded when
    the chain was `h` and is extended, in a later state whose chain still has `h` as its lower part, by the undo
    patches above `h`, is the overlay the cache-free `Get` builds from scratch in the later state -/
theorem Inv0.cached_overlay {s s' : Ldb} {h newer : List Ver} (hi : Inv0 s h) (hi' : Inv0 s' (newer ++ h))
    {v : Ver} (hv : v ∈ h) :
    buildOverlay s'.rollbacks s.frontierId.height (s'.frontierId.height - s.frontierId.height)
        (buildOverlay s.rollbacks v.id.height (s.frontierId.height - v.id.height) []) =
      buildOverlay s'.rollbacks v.id.height (s'.frontierId.height - v.id.height) [] := by
  have hf : s.frontierId.height = h.length := by rw [hi.frontierId, hi.hchain.topHeight]
  have hf' : s'.frontierId.height = newer.length + h.length := by
    rw [hi'.frontierId, hi'.hchain.topHeight, List.length_append]
  have hvh := hi.hchain.mem_height hv
  have hrb' : RbInv s'.rollbacks h := hi'.rb.suffix
  have hc : buildOverlay s.rollbacks v.id.height (h.length - v.id.height) [] =
      buildOverlay s'.rollbacks v.id.height (h.length - v.id.height) [] := by
    apply buildOverlay_congr
    intro i hi0
    exact hi.rb.lookup_eq hrb' hi.hchain _ (by omega) (by omega)
  rw [hf, hf', hc]
  have hsplit := buildOverlay_split s'.rollbacks (h.length - v.id.height) newer.length v.id.height []
    (fun i hi0 => hrb'.isSome hi.hchain _ (by omega) (by omega))
  rw [show v.id.height + (h.length - v.id.height) = h.length by omega] at hsplit
  rw [show newer.length + h.length - h.length = newer.length by omega,
    show newer.length + h.length - v.id.height = (h.length - v.id.height) + newer.length by omega]
  exact hsplit.symm

end ZV.Versioned
