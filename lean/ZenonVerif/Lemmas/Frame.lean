import ZenonVerif.Model.Frame
import ZenonVerif.Lemmas.CodecRLP
/-
Helper lemmas for C15 (frames and discovery packets): the reader of Model/Frame.lean on a stream that starts with
16 + 16 header bytes, a frame body and 16 MAC bytes, whatever they are; code encoding round trip; RLP sizes.
-/
namespace ZV.Frame
open ZV

theorem macLen_eq : macLen = 16 := rfl
theorem headerLen_eq : headerLen = 32 := rfl

theorem goSlice_ok (b : Bytes) (lo hi : Nat) (h1 : lo ≤ hi) (h2 : hi ≤ b.length) :
    goSlice b lo hi = .ok ((b.drop lo).take (hi - lo)) := by
  unfold goSlice; rw [if_pos ⟨h1, h2⟩]

theorem goIndex_ok (b : Bytes) (i : Nat) (h : i < b.length) : goIndex b i = .ok (b.getD i 0) := by
  unfold goIndex; rw [if_pos h]

theorem updateMAC_eq_tag {μ κ : Type} {C : Crypto μ κ} (L : Lawful C) (m : μ) (seed : Bytes)
    (h : 16 ≤ seed.length) : updateMAC C m seed = .ok (tag C m seed) := by
  unfold updateMAC tag
  have h1 := L.sum_len m
  have e1 : Gen.FrHashSize = 32 := rfl
  have e2 : Gen.FrAesBlockSize = 16 := rfl
  rw [if_neg (by omega), if_neg (by omega)]
  have h2 := L.sum_len (C.write m (xorBytes ((C.block (C.sum m)).take Gen.FrAesBlockSize) seed))
  simp only []
  rw [goSlice_ok _ 0 macLen (Nat.zero_le _) (by rw [macLen_eq]; omega)]
  simp

theorem tag_len {μ κ : Type} {C : Crypto μ κ} (L : Lawful C) (m : μ) (seed : Bytes) :
    (tag C m seed).2.length = 16 := by
  unfold tag
  have e1 : Gen.FrHashSize = 32 := rfl
  simp only [List.length_take, macLen_eq, L.sum_len, e1]
  omega

theorem readInt24_putInt24 (v : Nat) (h : v < 16777216) (rest : Bytes) :
    readInt24 (putInt24 v ++ rest) = .ok v := by
  unfold readInt24
  rw [goIndex_ok _ 2 (by simp [putInt24]), goIndex_ok _ 1 (by simp [putInt24]), goIndex_ok _ 0 (by simp [putInt24])]
  simp [putInt24]
  omega

theorem readInt24_lt (b : Bytes) (hb : b.WF) (v : Nat) (h : readInt24 b = .ok v) : v < 16777216 := by
  unfold readInt24 goIndex at h
  by_cases h2 : 2 < b.length
  · rw [if_pos h2, if_pos (by omega), if_pos (by omega)] at h
    simp only [Res.ok.injEq] at h
    have w : ∀ i, i < b.length → b.getD i 0 < 256 := by
      intro i hi
      apply hb
      have e : b.getD i 0 = b[i] := by simp [List.getD_eq_getElem?_getD, List.getElem?_eq_getElem hi]
      rw [e]
      exact List.getElem_mem hi
    have := w 0 (by omega); have := w 1 (by omega); have := w 2 h2
    omega
  · rw [if_neg h2] at h
    simp at h

theorem decodeCode_str (nb p : Bytes) (hl1 : 0 < nb.length) (hl8 : nb.length ≤ 8) (hh : nb.headD 0 ≠ 0)
    (h128 : nb.length = 1 → 128 ≤ nb.headD 0) :
    decodeCode ((128 + nb.length) :: (nb ++ p)) = some (beVal nb, p) := by
  unfold decodeCode
  have a1 : ¬ (128 + nb.length < 128) := by omega
  have a2 : 128 + nb.length < 184 := by omega
  have e : 128 + nb.length - 128 = nb.length := by omega
  have hhd : (nb ++ p).headD 0 = nb.headD 0 := by
    cases nb with
    | nil => simp at hl1
    | cons a t => simp
  simp only [a1, a2, e, if_true, if_false, List.length_append, hhd]
  have c1 : ¬ (nb.length > nb.length + p.length) := by omega
  have c2 : ¬ (nb.length > 8) := by omega
  have c3 : ¬ (nb.length = 0) := by omega
  simp only [c1, c2, c3, if_false]
  by_cases h1 : nb.length = 1
  · simp only [h1, if_true]
    have := h128 h1
    have c4 : ¬ (nb.headD 0 < 128) := by omega
    simp only [c4, if_false]
    obtain ⟨a, rfl⟩ := List.length_eq_one_iff.mp h1
    simp [beVal, leVal]
  · simp only [h1, if_false, hh]
    simp

theorem decodeCode_encodeCode (code : Nat) (h : code < two64) (p : Bytes) :
    decodeCode (encodeCode code ++ p) = some (code, p) := by
  unfold encodeCode
  by_cases h0 : code = 0
  · subst h0; simp [decodeCode]
  · rw [if_neg h0]
    by_cases h1 : code < 128
    · rw [if_pos h1]; simp [decodeCode, h1, h0]
    · rw [if_neg h1]
      have hl8 := Codec.natBytesBE_length_le8 code h
      have hl1 := Codec.natBytesBE_length_pos code h0
      have hh := Codec.natBytesBE_head code h0
      have hv := Codec.beVal_natBytesBE code
      have := decodeCode_str (Codec.natBytesBE code) p hl1 hl8 hh (by
        intro h1'
        obtain ⟨a, ha⟩ := List.length_eq_one_iff.mp h1'
        rw [ha] at hv ⊢
        simp [beVal, leVal] at hv
        simp; omega)
      rw [hv] at this
      simpa using this

theorem readFull_append (a rest : Bytes) (n : Nat) (h : a.length = n) :
    readFull (a ++ rest) n = some (a, rest) := by
  unfold readFull
  rw [if_neg (by simp; omega)]
  subst h
  simp

theorem readFull_short (inp : Bytes) (n : Nat) (h : inp.length < n) : readFull inp n = none := by
  unfold readFull; rw [if_pos h]

theorem readFull_some (inp : Bytes) (n : Nat) (h : n ≤ inp.length) :
    readFull inp n = some (inp.take n, inp.drop n) := by
  unfold readFull; rw [if_neg (by omega)]

variable {μ κ : Type} {C : Crypto μ κ}

theorem readHeader_split (L : Lawful C) (st : RW μ κ) (h16 t X : Bytes) (h1 : h16.length = 16) (h2 : t.length = 16) :
    readHeader C st (h16 ++ t ++ X) =
      if (tag C st.mac h16).2 ≠ t then .reject .badHeaderMAC
      else match readInt24 (C.dec st.ks h16).2 with
        | .panic => .panic
        | .ok fsize => .hdr (tag C st.mac h16).1 (C.dec st.ks h16).1 fsize X := by
  unfold readHeader
  rw [readFull_append (h16 ++ t) X headerLen (by simp [h1, h2, headerLen_eq])]
  simp only []
  have g1 : goSlice (h16 ++ t) 0 macLen = .ok h16 := by
    rw [goSlice_ok _ _ _ (Nat.zero_le _) (by simp [macLen_eq, h1])]
    simp [macLen_eq, ← h1]
  have g2 : goSliceFrom (h16 ++ t) macLen = .ok t := by
    unfold goSliceFrom
    rw [goSlice_ok _ _ _ (by simp [macLen_eq, h1]) (Nat.le_refl _)]
    simp [macLen_eq, ← h1]
  rw [g1, g2]
  simp only []
  rw [updateMAC_eq_tag L _ _ (by omega)]
  simp only []
  split
  · rfl
  · split
    · rename_i hq
      rw [show readInt24 (C.dec st.ks h16).snd = _ from hq]
    · rename_i hq
      rw [show readInt24 (C.dec st.ks h16).snd = _ from hq]

theorem readHeader_short (st : RW μ κ) (inp : Bytes) (h : inp.length < 32) : readHeader C st inp = .needMore := by
  unfold readHeader
  rw [readFull_short _ _ (by rw [headerLen_eq]; exact h)]

theorem readBody_short (m1 : μ) (k1 : κ) (fsize : Nat) (inp : Bytes) (h : inp.length < roundUp16 fsize + 16) :
    readBody C m1 k1 fsize inp = .needMore := by
  unfold readBody
  by_cases h1 : inp.length < roundUp16 fsize
  · rw [readFull_short _ _ h1]
  · rw [readFull_some _ _ (by omega)]
    simp only []
    rw [readFull_short _ _ (by simp [macLen_eq]; omega)]

theorem le_roundUp16 (f : Nat) : f ≤ roundUp16 f := by
  unfold roundUp16; split <;> omega

theorem readBody_split (L : Lawful C) (m1 : μ) (k1 : κ) (fsize : Nat) (fb fm rest : Bytes)
    (h1 : fb.length = roundUp16 fsize) (h2 : fm.length = 16) :
    readBody C m1 k1 fsize (fb ++ fm ++ rest) =
      if (tag C (C.write m1 fb) (C.sum (C.write m1 fb))).2 ≠ fm then .reject .badFrameMAC
      else match decodeCode ((C.dec k1 fb).2.take fsize) with
        | none => .reject .badCode
        | some (code, payload) =>
          .msg code (payload.length % two32) payload rest ⟨(tag C (C.write m1 fb) (C.sum (C.write m1 fb))).1, (C.dec k1 fb).1⟩ := by
  unfold readBody
  rw [List.append_assoc, readFull_append fb (fm ++ rest) _ h1]
  simp only []
  rw [readFull_append fm rest macLen (by rw [macLen_eq]; exact h2)]
  simp only []
  have e1 : Gen.FrHashSize = 32 := rfl
  rw [updateMAC_eq_tag L _ _ (by rw [L.sum_len, e1]; omega)]
  simp only []
  split
  · rfl
  · rw [goSlice_ok _ _ _ (Nat.zero_le _) (by rw [L.dec_len, h1]; exact le_roundUp16 _)]
    simp only [List.drop_zero, Nat.sub_zero]
    split
    · rename_i hq
      rw [show decodeCode (List.take fsize (C.dec k1 fb).snd) = _ from hq]
    · rename_i hq
      rw [show decodeCode (List.take fsize (C.dec k1 fb).snd) = _ from hq]

theorem dec_enc2 (L : Lawful C) (k : κ) (a b : Bytes) :
    C.dec k ((C.enc k a).2 ++ (C.enc (C.enc k a).1 b).2) = ((C.enc (C.enc k a).1 b).1, a ++ b) := by
  rw [L.dec_append, L.dec_enc]
  simp only []
  rw [L.dec_enc]

theorem dec_enc3 (L : Lawful C) (k : κ) (a b c : Bytes) :
    C.dec k ((C.enc k a).2 ++ (C.enc (C.enc k a).1 b).2 ++ (C.enc (C.enc (C.enc k a).1 b).1 c).2)
      = ((C.enc (C.enc (C.enc k a).1 b).1 c).1, a ++ b ++ c) := by
  rw [L.dec_append, dec_enc2 L]
  simp only []
  rw [L.dec_enc]

theorem padding_len (f : Nat) : f + (padding f).length = roundUp16 f := by
  unfold padding roundUp16
  split <;> simp

theorem plainHeader_len (f : Nat) : (plainHeader f).length = 16 := by
  simp [plainHeader, putInt24, macLen_eq]
  decide

theorem readInt24_plainHeader (f : Nat) (h : f < 16777216) : readInt24 (plainHeader f) = .ok f := by
  unfold plainHeader
  rw [List.append_assoc]
  exact readInt24_putInt24 f h _


/-! ### the frame `writeMsg` produces, piece by piece -/

def wFsize (code : Nat) (payload : Bytes) : Nat := (encodeCode code).length + payload.length
def wHdr (C : Crypto μ κ) (st : RW μ κ) (f : Nat) : Bytes := (C.enc st.ks (plainHeader f)).2
def wK1 (C : Crypto μ κ) (st : RW μ κ) (f : Nat) : κ := (C.enc st.ks (plainHeader f)).1
def wM1 (C : Crypto μ κ) (st : RW μ κ) (f : Nat) : μ := (tag C st.mac (wHdr C st f)).1
def wHmac (C : Crypto μ κ) (st : RW μ κ) (f : Nat) : Bytes := (tag C st.mac (wHdr C st f)).2
def wBody (C : Crypto μ κ) (k1 : κ) (code : Nat) (payload : Bytes) (f : Nat) : Bytes :=
  (C.enc k1 (encodeCode code)).2 ++ (C.enc (C.enc k1 (encodeCode code)).1 payload).2
    ++ (C.enc (C.enc (C.enc k1 (encodeCode code)).1 payload).1 (padding f)).2
def wK4 (C : Crypto μ κ) (k1 : κ) (code : Nat) (payload : Bytes) (f : Nat) : κ :=
  (C.enc (C.enc (C.enc k1 (encodeCode code)).1 payload).1 (padding f)).1
def wM4 (C : Crypto μ κ) (st : RW μ κ) (code : Nat) (payload : Bytes) : μ :=
  C.write (wM1 C st (wFsize code payload)) (wBody C (wK1 C st (wFsize code payload)) code payload (wFsize code payload))
def wFmac (C : Crypto μ κ) (st : RW μ κ) (code : Nat) (payload : Bytes) : Bytes :=
  (tag C (wM4 C st code payload) (C.sum (wM4 C st code payload))).2
def wM5 (C : Crypto μ κ) (st : RW μ κ) (code : Nat) (payload : Bytes) : μ :=
  (tag C (wM4 C st code payload) (C.sum (wM4 C st code payload))).1

/-- the bytes of one frame -/
def frameBytes (C : Crypto μ κ) (st : RW μ κ) (code : Nat) (payload : Bytes) : Bytes :=
  wHdr C st (wFsize code payload) ++ wHmac C st (wFsize code payload)
    ++ wBody C (wK1 C st (wFsize code payload)) code payload (wFsize code payload) ++ wFmac C st code payload

/-- the writer's state behind it -/
def frameNext (C : Crypto μ κ) (st : RW μ κ) (code : Nat) (payload : Bytes) : RW μ κ :=
  ⟨wM5 C st code payload, wK4 C (wK1 C st (wFsize code payload)) code payload (wFsize code payload)⟩


theorem wHdr_len (L : Lawful C) (st : RW μ κ) (f : Nat) : (wHdr C st f).length = 16 := by
  unfold wHdr; rw [L.enc_len, plainHeader_len]

theorem wHmac_len (L : Lawful C) (st : RW μ κ) (f : Nat) : (wHmac C st f).length = 16 := tag_len L _ _

theorem wFmac_len (L : Lawful C) (st : RW μ κ) (code : Nat) (payload : Bytes) : (wFmac C st code payload).length = 16 :=
  tag_len L _ _

theorem wBody_len (L : Lawful C) (k1 : κ) (code : Nat) (payload : Bytes) :
    (wBody C k1 code payload (wFsize code payload)).length = roundUp16 (wFsize code payload) := by
  unfold wBody
  simp only [List.length_append, L.enc_len]
  rw [← padding_len]; unfold wFsize; omega

theorem maxUint24_eq : maxUint24 = 16777215 := rfl

theorem writeMsg_eq (L : Lawful C) (st : RW μ κ) (code : Nat) (payload : Bytes)
    (hs : wFsize code payload ≤ maxUint24) :
    writeMsg C st code payload.length payload = .ok (frameBytes C st code payload) (frameNext C st code payload) := by
  have hm := maxUint24_eq
  have hf : ((encodeCode code).length + payload.length) % two32 = wFsize code payload := by
    unfold wFsize at *; unfold two32; omega
  unfold writeMsg
  simp only [hf]
  rw [if_neg (by omega)]
  rw [updateMAC_eq_tag L _ _ (by rw [L.enc_len, plainHeader_len]; omega)]
  simp only []
  have e1 : Gen.FrHashSize = 32 := rfl
  rw [updateMAC_eq_tag L _ _ (by rw [L.sum_len, e1]; omega)]
  simp only [L.write_append]
  rfl



theorem readHeader_frame (L : Lawful C) (st : RW μ κ) (f : Nat) (X : Bytes) (hs : f ≤ maxUint24) :
    readHeader C st (wHdr C st f ++ wHmac C st f ++ X) = .hdr (wM1 C st f) (wK1 C st f) f X := by
  rw [readHeader_split L st _ _ _ (wHdr_len L st f) (wHmac_len L st f)]
  rw [if_neg (by unfold wHmac; simp)]
  unfold wHdr
  rw [L.dec_enc]
  simp only []
  rw [readInt24_plainHeader f (by rw [maxUint24_eq] at hs; omega)]
  rfl

theorem readBody_frame (L : Lawful C) (st : RW μ κ) (code : Nat) (payload rest : Bytes) (hc : code < two64)
    (hs : wFsize code payload ≤ maxUint24) :
    readBody C (wM1 C st (wFsize code payload)) (wK1 C st (wFsize code payload)) (wFsize code payload)
      (wBody C (wK1 C st (wFsize code payload)) code payload (wFsize code payload) ++ wFmac C st code payload ++ rest)
      = .msg code payload.length payload rest (frameNext C st code payload) := by
  rw [readBody_split L _ _ _ _ _ _ (wBody_len L _ code payload) (wFmac_len L st code payload)]
  rw [if_neg (by unfold wFmac wM4; simp)]
  have hd : C.dec (wK1 C st (wFsize code payload)) (wBody C (wK1 C st (wFsize code payload)) code payload (wFsize code payload))
      = (wK4 C (wK1 C st (wFsize code payload)) code payload (wFsize code payload),
         encodeCode code ++ payload ++ padding (wFsize code payload)) := by
    unfold wBody wK4
    exact dec_enc3 L _ _ _ _
  rw [hd]
  simp only []
  have ht : (encodeCode code ++ payload ++ padding (wFsize code payload)).take (wFsize code payload) = encodeCode code ++ payload := by
    unfold wFsize
    rw [List.take_left' (by simp)]
  rw [ht, List.append_assoc] at *
  rw [decodeCode_encodeCode code hc]
  simp only []
  have : payload.length % two32 = payload.length := by
    have := maxUint24_eq
    unfold wFsize at hs; unfold two32; omega
  rw [this]
  rfl

theorem readMsg_frame (L : Lawful C) (st : RW μ κ) (code : Nat) (payload rest : Bytes) (hc : code < two64)
    (hs : wFsize code payload ≤ maxUint24) :
    readMsg C st (frameBytes C st code payload ++ rest) = .msg code payload.length payload rest (frameNext C st code payload) := by
  unfold readMsg frameBytes
  have e : wHdr C st (wFsize code payload) ++ wHmac C st (wFsize code payload)
      ++ wBody C (wK1 C st (wFsize code payload)) code payload (wFsize code payload) ++ wFmac C st code payload ++ rest
      = wHdr C st (wFsize code payload) ++ wHmac C st (wFsize code payload)
      ++ (wBody C (wK1 C st (wFsize code payload)) code payload (wFsize code payload) ++ wFmac C st code payload ++ rest) := by
    simp [List.append_assoc]
  rw [e, readHeader_frame L st _ _ hs]
  simp only []
  exact readBody_frame L st code payload rest hc hs

theorem frameBytes_len (L : Lawful C) (st : RW μ κ) (code : Nat) (payload : Bytes) :
    (frameBytes C st code payload).length = 32 + roundUp16 (wFsize code payload) + 16 := by
  unfold frameBytes
  simp only [List.length_append, wHdr_len L, wHmac_len L, wBody_len L, wFmac_len L]

theorem readMsg_frame_prefix (L : Lawful C) (st : RW μ κ) (code : Nat) (payload : Bytes)
    (hs : wFsize code payload ≤ maxUint24) (n : Nat) (hn : n < (frameBytes C st code payload).length) :
    readMsg C st ((frameBytes C st code payload).take n) = .needMore := by
  rw [frameBytes_len L] at hn
  unfold readMsg
  by_cases h32 : n < 32
  · rw [readHeader_short _ _ (by rw [List.length_take]; omega)]
  · have e : (frameBytes C st code payload).take n = wHdr C st (wFsize code payload) ++ wHmac C st (wFsize code payload)
        ++ (wBody C (wK1 C st (wFsize code payload)) code payload (wFsize code payload) ++ wFmac C st code payload).take (n - 32) := by
      unfold frameBytes
      rw [List.append_assoc (wHdr C st (wFsize code payload) ++ wHmac C st (wFsize code payload))]
      rw [List.take_append]
      have hl : (wHdr C st (wFsize code payload) ++ wHmac C st (wFsize code payload)).length = 32 := by
        simp [wHdr_len L, wHmac_len L]
      rw [hl, List.take_of_length_le (by omega)]
    rw [e, readHeader_frame L st _ _ hs]
    simp only []
    exact readBody_short _ _ _ _ (by
      rw [List.length_take, List.length_append, wBody_len L, wFmac_len L]; omega)

theorem decodeCode_len (c p : Bytes) (code : Nat) (h : decodeCode c = some (code, p)) : p.length < c.length := by
  cases c with
  | nil => simp [decodeCode] at h
  | cons b t =>
    simp only [decodeCode] at h
    simp only [List.length_cons]
    have key : ∀ (x : Nat) (n : Nat), some (x, t.drop n) = some (code, p) → p.length < t.length + 1 := by
      intro x n hx
      simp only [Option.some.injEq, Prod.mk.injEq] at hx
      rw [← hx.2, List.length_drop]; omega
    split at h
    · split at h
      · simp at h
      · exact key b 0 (by simpa using h)
    · split at h
      · split at h
        · simp at h
        · split at h
          · simp at h
          · split at h
            · exact key 0 0 (by simpa using h)
            · split at h
              · split at h
                · simp at h
                · exact key _ 1 h
              · split at h
                · simp at h
                · exact key _ _ h
      · simp at h

/-- every way `readMsg` can end, with what it has checked on the way -/
inductive Spec (C : Crypto μ κ) (st : RW μ κ) (inp : Bytes) : Out μ κ → Prop where
  | short : inp.length < 32 → Spec C st inp .needMore
  | badHeader (h16 t X : Bytes) : inp = h16 ++ t ++ X → h16.length = 16 → t.length = 16 →
      (tag C st.mac h16).2 ≠ t → Spec C st inp (.reject .badHeaderMAC)
  | shortBody (h16 t X : Bytes) (fsize : Nat) : inp = h16 ++ t ++ X → h16.length = 16 → t.length = 16 →
      (tag C st.mac h16).2 = t → readInt24 (C.dec st.ks h16).2 = .ok fsize → X.length < roundUp16 fsize + 16 →
      Spec C st inp .needMore
  | badFrame (h16 t fb fm rest : Bytes) (fsize : Nat) : inp = h16 ++ t ++ (fb ++ fm ++ rest) → h16.length = 16 → t.length = 16 →
      (tag C st.mac h16).2 = t → readInt24 (C.dec st.ks h16).2 = .ok fsize → fb.length = roundUp16 fsize → fm.length = 16 →
      (tag C (C.write (tag C st.mac h16).1 fb) (C.sum (C.write (tag C st.mac h16).1 fb))).2 ≠ fm →
      Spec C st inp (.reject .badFrameMAC)
  | badCode (h16 t fb fm rest : Bytes) (fsize : Nat) : inp = h16 ++ t ++ (fb ++ fm ++ rest) → h16.length = 16 → t.length = 16 →
      (tag C st.mac h16).2 = t → readInt24 (C.dec st.ks h16).2 = .ok fsize → fb.length = roundUp16 fsize → fm.length = 16 →
      (tag C (C.write (tag C st.mac h16).1 fb) (C.sum (C.write (tag C st.mac h16).1 fb))).2 = fm →
      decodeCode ((C.dec (C.dec st.ks h16).1 fb).2.take fsize) = none →
      Spec C st inp (.reject .badCode)
  | msg (h16 t fb fm rest : Bytes) (fsize code : Nat) (payload : Bytes) : inp = h16 ++ t ++ (fb ++ fm ++ rest) →
      h16.length = 16 → t.length = 16 →
      (tag C st.mac h16).2 = t → readInt24 (C.dec st.ks h16).2 = .ok fsize → fb.length = roundUp16 fsize → fm.length = 16 →
      (tag C (C.write (tag C st.mac h16).1 fb) (C.sum (C.write (tag C st.mac h16).1 fb))).2 = fm →
      decodeCode ((C.dec (C.dec st.ks h16).1 fb).2.take fsize) = some (code, payload) →
      Spec C st inp (.msg code (payload.length % two32) payload rest
        ⟨(tag C (C.write (tag C st.mac h16).1 fb) (C.sum (C.write (tag C st.mac h16).1 fb))).1, (C.dec (C.dec st.ks h16).1 fb).1⟩)

theorem split3 (inp : Bytes) (a b : Nat) (h : a + b ≤ inp.length) :
    inp = inp.take a ++ (inp.drop a).take b ++ inp.drop (a + b) ∧ (inp.take a).length = a ∧ ((inp.drop a).take b).length = b := by
  refine ⟨?_, by simp; omega, by simp; omega⟩
  rw [List.append_assoc, ← List.drop_drop, List.take_append_drop, List.take_append_drop]

theorem readMsg_spec (L : Lawful C) (st : RW μ κ) (inp : Bytes) : Spec C st inp (readMsg C st inp) := by
  by_cases h32 : inp.length < 32
  · unfold readMsg; rw [readHeader_short _ _ h32]; exact .short h32
  · obtain ⟨e, l1, l2⟩ := split3 inp 16 16 (by omega)
    generalize inp.take 16 = h16 at *
    generalize (inp.drop 16).take 16 = t at *
    generalize inp.drop (16 + 16) = X at *
    unfold readMsg
    rw [e, readHeader_split L st h16 t X l1 l2]
    by_cases ht : (tag C st.mac h16).2 = t
    · rw [if_neg (by simp [ht])]
      have hr : ∃ f, readInt24 (C.dec st.ks h16).2 = .ok f := by
        unfold readInt24
        have := L.dec_len st.ks h16
        rw [goIndex_ok _ 2 (by omega), goIndex_ok _ 1 (by omega), goIndex_ok _ 0 (by omega)]
        exact ⟨_, rfl⟩
      obtain ⟨f, hf⟩ := hr
      rw [hf]
      simp only []
      by_cases hx : X.length < roundUp16 f + 16
      · rw [readBody_short _ _ _ _ hx]
        exact .shortBody h16 t X f rfl l1 l2 ht hf hx
      · obtain ⟨e2, m1, m2⟩ := split3 X (roundUp16 f) 16 (by omega)
        generalize X.take (roundUp16 f) = fb at *
        generalize (X.drop (roundUp16 f)).take 16 = fm at *
        generalize X.drop (roundUp16 f + 16) = rest at *
        rw [e2, readBody_split L _ _ _ fb fm rest m1 m2]
        by_cases hfm : (tag C (C.write (tag C st.mac h16).1 fb) (C.sum (C.write (tag C st.mac h16).1 fb))).2 = fm
        · rw [if_neg (by simp [hfm])]
          cases hd : decodeCode ((C.dec (C.dec st.ks h16).1 fb).2.take f) with
          | none => exact .badCode h16 t fb fm rest f rfl l1 l2 ht hf m1 m2 hfm hd
          | some cp =>
            obtain ⟨code, payload⟩ := cp
            exact .msg h16 t fb fm rest f code payload rfl l1 l2 ht hf m1 m2 hfm hd
        · rw [if_pos hfm]
          exact .badFrame h16 t fb fm rest f rfl l1 l2 ht hf m1 m2 hfm
    · rw [if_pos ht]
      exact .badHeader h16 t X rfl l1 l2 ht

/-! ### discovery datagrams -/

/-- the three slices of a datagram that is long enough -/
theorem packet_slices (buf : Bytes) (h : ¬ buf.length < headSize + 1) :
    goSlice buf 0 macSize = .ok (buf.take macSize) ∧
    goSlice buf macSize headSize = .ok ((buf.drop macSize).take (headSize - macSize)) ∧
    goSliceFrom buf headSize = .ok (buf.drop headSize) ∧ goSliceFrom buf macSize = .ok (buf.drop macSize) := by
  have e1 : headSize = 97 := rfl
  have e2 : macSize = 32 := rfl
  refine ⟨?_, ?_, ?_, ?_⟩
  · rw [goSlice_ok _ _ _ (Nat.zero_le _) (by omega)]; simp
  · rw [goSlice_ok _ _ _ (by omega) (by omega)]
  · unfold goSliceFrom; rw [goSlice_ok _ _ _ (by omega) (Nat.le_refl _)]
    rw [List.take_of_length_le (by rw [List.length_drop]; omega)]
  · unfold goSliceFrom; rw [goSlice_ok _ _ _ (by omega) (Nat.le_refl _)]
    rw [List.take_of_length_le (by rw [List.length_drop]; omega)]

/-- `decodePacket` on a datagram that is long enough, without the bounds checks -/
theorem decodePacket_long (D : DCrypto) (buf : Bytes) (h : ¬ buf.length < headSize + 1) :
    decodePacket D buf =
      if buf.take macSize ≠ D.hash (buf.drop macSize) then .reject .badHash
      else match D.recover (D.hash (buf.drop headSize)) ((buf.drop macSize).take (headSize - macSize)) with
        | none => .reject .badSig
        | some fromID =>
          if (buf.drop headSize).getD 0 0 ∈ knownTypes then
            match D.body ((buf.drop headSize).getD 0 0) ((buf.drop headSize).drop 1) with
            | none => .reject .badBody
            | some req => .ok ((buf.drop headSize).getD 0 0) fromID (buf.take macSize) req
          else .reject .unknownType := by
  obtain ⟨s1, s2, s3, s4⟩ := packet_slices buf h
  have e1 : headSize = 97 := rfl
  unfold decodePacket
  rw [if_neg h, s1, s2, s3, s4]
  simp only []
  rw [goIndex_ok _ 0 (by rw [List.length_drop]; omega)]
  unfold goSliceFrom
  rw [goSlice_ok _ 1 _ (by rw [List.length_drop]; omega) (Nat.le_refl _)]
  have ht : List.take ((List.drop headSize buf).length - 1) (List.drop 1 (List.drop headSize buf))
      = List.drop 1 (List.drop headSize buf) := List.take_of_length_le (by simp; omega)
  rw [ht]
  rfl


/-! ### RLP sizes -/

/-- a node as the table holds it: an IP of at most 16 bytes, 16-bit ports, a 64-byte id -/
def NodeOk (n : RpcNode) : Prop := n.ip.length ≤ 16 ∧ n.udp < 65536 ∧ n.tcp < 65536 ∧ n.id.length = Gen.DiscNodeIDBytes

theorem natBytesBE_len_le (n k : Nat) (h : n < 256 ^ k) : (Codec.natBytesBE n).length ≤ k :=
  Codec.natBytesBE_length_le n k h

theorem nodeLen_le (n : RpcNode) (h : NodeOk n) : nodeLen n ≤ 91 := by
  obtain ⟨h1, h2, h3, h4⟩ := h
  have e : Gen.DiscNodeIDBytes = 64 := rfl
  have a1 : rlpBytesLen n.ip ≤ 17 := by
    unfold rlpBytesLen rlpHdrLen; split
    · omega
    · rw [if_pos (by omega)]; omega
  have a2 : rlpUintLen n.udp ≤ 3 := by
    unfold rlpUintLen; split
    · omega
    · have := natBytesBE_len_le n.udp 2 (by omega); omega
  have a3 : rlpUintLen n.tcp ≤ 3 := by
    unfold rlpUintLen; split
    · omega
    · have := natBytesBE_len_le n.tcp 2 (by omega); omega
  have a4 : rlpBytesLen n.id ≤ 66 := by
    unfold rlpBytesLen rlpHdrLen; rw [h4, e]
    split
    · omega
    · have := natBytesBE_len_le 64 1 (by decide); split <;> omega
  unfold nodeLen
  simp only []
  have : rlpHdrLen (rlpBytesLen n.ip + rlpUintLen n.udp + rlpUintLen n.tcp + rlpBytesLen n.id) ≤ 2 := by
    unfold rlpHdrLen; split
    · omega
    · have := natBytesBE_len_le (rlpBytesLen n.ip + rlpUintLen n.udp + rlpUintLen n.tcp + rlpBytesLen n.id) 1 (by omega); omega
  omega

theorem nodesLen_le (ns : List RpcNode) (h : ∀ n ∈ ns, NodeOk n) : nodesLen ns ≤ 91 * ns.length := by
  induction ns with
  | nil => simp [nodesLen]
  | cons n t ih =>
    have := nodeLen_le n (h n (by simp))
    have := ih (fun x hx => h x (by simp [hx]))
    simp only [nodesLen, List.length_cons]; omega


end ZV.Frame
