import ZenonVerif.Model.PoolMulti
import ZenonVerif.Lemmas.PoolChain
/-
Helper lemmas for Props/C14Multi.lean: the invariant of the whole-pool state machine (Model/PoolMulti.lean).
-/
namespace ZV.PoolMulti
open ZV ZV.Pool

/-! #### transactions -/

/-- what `Supervisor.ApplyBlock` / the VM guarantee about a transaction handed to the pool: the commits link to one
    another (descendants numbered consecutively below the receive), no height 0, the descendants are ContractSend blocks
    and the head is not -/
def TxWF (t : Tx) : Prop :=
  Linked t.prev t.commits ∧ HeightsOK t.commits ∧ (∀ d ∈ t.desc, isContractSend d.btype = true) ∧
    isContractSend t.head.btype = false

instance (t : Tx) : Decidable (TxWF t) := by unfold TxWF; infer_instance

theorem commits_ne_nil (t : Tx) : t.commits ≠ [] := by simp [Tx.commits]

theorem flat_nil : flat [] = [] := rfl
theorem flat_cons (t : Tx) (ts : List Tx) : flat (t :: ts) = t.commits ++ flat ts := by simp [flat]
theorem flat_append (xs ys : List Tx) : flat (xs ++ ys) = flat xs ++ flat ys := by simp [flat]
theorem flat_concat (xs : List Tx) (t : Tx) : flat (xs ++ [t]) = flat xs ++ t.commits := by simp [flat]

theorem lastIdFrom_commits (s : Id) (t : Tx) : lastIdFrom s t.commits = t.id := by
  simp [Tx.commits, lastIdFrom_concat, Tx.id]

/-- the first commit's `Previous()` is the transaction's -/
theorem linked_commits_iff (s : Id) (t : Tx) : Linked s t.commits ↔ t.prev = s ∧ Linked t.prev t.commits := by
  unfold Tx.commits Tx.prev
  cases t.desc with
  | nil => simp [Linked]
  | cons d ds => simp [Linked]

theorem linked_flat_cons (s : Id) (t : Tx) (r : List Tx) :
    Linked s (flat (t :: r)) ↔ t.prev = s ∧ Linked t.prev t.commits ∧ Linked t.id (flat r) := by
  rw [flat_cons, linked_append, lastIdFrom_commits, linked_commits_iff]
  exact and_assoc

theorem mem_flat {b : Blk} {ts : List Tx} : b ∈ flat ts ↔ ∃ t ∈ ts, b ∈ t.commits := by
  simp [flat]

theorem head_mem_commits (t : Tx) : t.head ∈ t.commits := by simp [Tx.commits]

theorem flat_length_pos {ts : List Tx} (h : ts ≠ []) : 0 < (flat ts).length := by
  cases ts with
  | nil => exact absurd rfl h
  | cons t r => simp [flat_cons, Tx.commits]; omega

/-- `lastId` of a view that ends in pooled transactions -/
theorem lastId_view (base : List Blk) (ts : List Tx) : lastId (base ++ flat ts) = lastIdFrom (lastId base) (flat ts) :=
  lastId_append _ _

/-! #### the manager keeps the chain shape -/

/-- the shape of a manager built on the chain `conf`: its pooled transactions, flattened, are one chain on top of
    `conf`; the descendants are ContractSend blocks and the heads are not; `patches` answers exactly for their commits -/
def MgrOK (conf : List Blk) (m : Mgr) : Prop :=
  m.base = conf ∧ Linked (lastId conf) (flat m.pooled) ∧ HeightsOK (flat m.pooled) ∧
    (∀ t ∈ m.pooled, (∀ d ∈ t.desc, isContractSend d.btype = true) ∧ isContractSend t.head.btype = false) ∧
    ∀ i, i ∈ m.patches ↔ i ∈ (flat m.pooled).map Blk.id

theorem frontierId_eq (m : Mgr) : m.frontierId = lastIdFrom (lastId m.base) (flat m.pooled) := lastId_view _ _

theorem fresh_ok (conf : List Blk) : MgrOK conf ⟨conf, [], []⟩ :=
  ⟨rfl, trivial, fun _ hb => by simp [flat] at hb, fun _ ht => by simp at ht, fun i => by simp [flat]⟩

theorem add_pooled {m m' : Mgr} {t : Tx} (h : m.add t = some m') : m'.pooled = m.pooled ++ [t] ∧ m'.base = m.base := by
  unfold Mgr.add at h
  split at h
  · cases h; exact ⟨rfl, rfl⟩
  · cases h

theorem add_ok {conf : List Blk} {m m' : Mgr} {t : Tx} (hm : MgrOK conf m) (ht : TxWF t)
    (h : m.add t = some m') : MgrOK conf m' := by
  unfold Mgr.add at h
  split at h
  · rename_i hp
    cases h
    obtain ⟨h1, h2, h3, h4, h5⟩ := hm
    obtain ⟨t1, t2, t3, t4⟩ := ht
    refine ⟨h1, ?_, ?_, ?_, ?_⟩
    · simp only [flat_concat]
      rw [linked_append]; refine ⟨h2, ?_⟩
      rw [linked_commits_iff]
      refine ⟨?_, t1⟩
      rw [hp, frontierId_eq, h1]
    · simp only [flat_concat]; exact heightsOK_append.mpr ⟨h3, t2⟩
    · intro x hx
      rcases List.mem_append.mp hx with hx | hx
      · exact h4 x hx
      · simp at hx; subst hx; exact ⟨t3, t4⟩
    · intro i
      simp only [flat_concat, List.mem_append, List.map_append, h5 i]
  · cases h

/-- the identifiers of two consecutive parts of a chain are disjoint (heights increase) -/
theorem chain_parts_disjoint (start : Id) (xs ys : List Blk) (hl : Linked start (xs ++ ys)) (hh : HeightsOK (xs ++ ys)) :
    ∀ i, i ∈ xs.map Blk.id → i ∉ ys.map Blk.id := by
  intro i hx hy
  obtain ⟨hlx, hly⟩ := (linked_append ys xs start).mp hl
  obtain ⟨hhx, hhy⟩ := heightsOK_append.mp hh
  obtain ⟨x, hxm, rfl⟩ := List.mem_map.mp hx
  obtain ⟨y, hym, hxy⟩ := List.mem_map.mp hy
  have h1 := (linked_mem_height xs start hlx hhx x hxm).2
  have h2 := (linked_mem_height ys _ hly hhy y hym).1
  rw [linked_last_height xs start hlx hhx] at h2
  have : y.height = x.height := by
    have := congrArg Prod.snd hxy
    simpa [Blk.id] using this
  omega

theorem pop_ok_aux {conf : List Blk} {m : Mgr} {t : Tx} (hm : MgrOK conf m) (hl : m.pooled.getLast? = some t) :
    MgrOK conf { m with pooled := m.pooled.dropLast,
                        patches := m.patches.filter (fun i => !(t.commits.map Blk.id).contains i) } := by
  obtain ⟨h1, h2, h3, h4, h5⟩ := hm
  have hsplit : m.pooled = m.pooled.dropLast ++ [t] := by
    have hne : m.pooled ≠ [] := by intro he; simp [he] at hl
    have := List.dropLast_concat_getLast hne
    rw [List.getLast?_eq_some_getLast hne] at hl
    cases hl
    exact this.symm
  have hflat : flat m.pooled = flat m.pooled.dropLast ++ t.commits := by
    conv => lhs; rw [hsplit]
    exact flat_concat _ _
  rw [hflat] at h2 h3
  refine ⟨h1, ((linked_append _ _ _).mp h2).1, (heightsOK_append.mp h3).1,
    fun x hx => h4 x (List.dropLast_subset _ hx), ?_⟩
  intro i
  have hdis := chain_parts_disjoint _ _ _ h2 h3 i
  simp only [List.mem_filter, h5 i, hflat, List.map_append, List.mem_append, Bool.not_eq_true',
    List.contains_eq_mem, decide_eq_false_iff_not]
  constructor
  · intro ⟨ha, hb⟩
    rcases ha with ha | ha
    · exact ha
    · exact absurd ha hb
  · intro ha
    exact ⟨Or.inl ha, hdis ha⟩

theorem pop_ok {conf : List Blk} {m m' : Mgr} (hm : MgrOK conf m) (h : m.pop = some m') :
    MgrOK conf m' ∧ m'.pooled = m.pooled.dropLast := by
  unfold Mgr.pop at h
  split at h
  · cases h
  · split at h
    · cases h
    · rename_i t hl
      cases h
      exact ⟨pop_ok_aux hm hl, rfl⟩

theorem rollbackTo_ok (prev : Id) {conf : List Blk} : ∀ (fuel : Nat) (m : Mgr), MgrOK conf m →
    MgrOK conf (rollbackTo Mgr.pop prev fuel m).1 ∧
    (∃ j, (rollbackTo Mgr.pop prev fuel m).1.pooled = m.pooled.take j) ∧
    ((rollbackTo Mgr.pop prev fuel m).2 = true → (rollbackTo Mgr.pop prev fuel m).1.frontierId = prev)
  | 0, m, hm => by simp [rollbackTo, hm]; exact ⟨m.pooled.length, by simp⟩
  | fuel + 1, m, hm => by
    unfold rollbackTo
    by_cases hf : m.frontierId = prev
    · simp [hf, hm]; exact ⟨m.pooled.length, by simp⟩
    · simp only [hf, if_false]
      cases hp : m.pop with
      | none => simp [hm]; exact ⟨m.pooled.length, by simp⟩
      | some m' =>
        obtain ⟨h1, h2⟩ := pop_ok hm hp
        obtain ⟨a, ⟨j, hj⟩, c⟩ := rollbackTo_ok prev fuel m' h1
        refine ⟨a, ⟨min j (m.pooled.length - 1), ?_⟩, c⟩
        rw [hj, h2, List.dropLast_eq_take, List.take_take]

theorem addAll_ok {conf : List Blk} : ∀ (ts : List Tx) (m m' : Mgr), MgrOK conf m → (∀ t ∈ ts, TxWF t) →
    addAll m ts = some m' → MgrOK conf m' ∧ m'.pooled = m.pooled ++ ts
  | [], m, m', hm, _, h => by simp [addAll] at h; subst h; simp [hm]
  | t :: ts, m, m', hm, hh, h => by
    unfold addAll at h
    cases ha : m.add t with
    | none => simp [ha] at h
    | some m1 =>
      simp only [ha] at h
      have h1 := add_ok hm (hh t (by simp)) ha
      obtain ⟨h3, h4⟩ := addAll_ok ts m1 m' h1 (fun x hx => hh x (by simp [hx])) h
      exact ⟨h3, by rw [h4, (add_pooled ha).1]; simp⟩

/-! #### the invariant of one address -/

/-- the confirmed chain is a chain from the zero identifier, and the manager (if any) is built on it -/
def Inv (s : AState) : Prop :=
  Linked zeroId s.confirmed ∧ HeightsOK s.confirmed ∧ ∀ m, s.mgr = some m → MgrOK s.confirmed m

theorem manager_ok {s : AState} (h : Inv s) : MgrOK s.confirmed s.manager := by
  unfold AState.manager
  cases hm : s.mgr with
  | none => exact fresh_ok _
  | some m => exact h.2.2 m hm

theorem inv_set_mgr {s : AState} {m : Mgr} (h : Inv s) (hm : MgrOK s.confirmed m) : Inv { s with mgr := some m } :=
  ⟨h.1, h.2.1, fun m' hm' => by simp at hm'; subst hm'; exact hm⟩

/-- what `addTx` does to the pooled transactions: it keeps the first `j` of them (whole) and possibly appends the
    offered one — nothing else; the confirmed chain is untouched -/
theorem addTxWith_shape (canRb : List Blk → Mgr → Tx → Option AddRes) (rivalOf : Mgr → Tx → Option Blk → Option Blk)
    {s : AState} (h : Inv s) (t : Tx) (f : Bool) (ht : TxWF t) :
    Inv (addTxWith Mgr.pop canRb rivalOf s t f).1 ∧ (addTxWith Mgr.pop canRb rivalOf s t f).1.confirmed = s.confirmed ∧
    ∃ j, (addTxWith Mgr.pop canRb rivalOf s t f).1.manager.pooled = s.manager.pooled.take j ∨
         (addTxWith Mgr.pop canRb rivalOf s t f).1.manager.pooled = s.manager.pooled.take j ++ [t] := by
  have hm := manager_ok h
  have hfull : s.manager.pooled = s.manager.pooled.take s.manager.pooled.length := by simp
  have keep : Inv { s with mgr := some s.manager } ∧ ({ s with mgr := some s.manager } : AState).confirmed = s.confirmed ∧
      ∃ j, ({ s with mgr := some s.manager } : AState).manager.pooled = s.manager.pooled.take j ∨
           ({ s with mgr := some s.manager } : AState).manager.pooled = s.manager.pooled.take j ++ [t] :=
    ⟨inv_set_mgr h hm, rfl, s.manager.pooled.length, Or.inl (by simp [AState.manager])⟩
  unfold addTxWith
  simp only
  split
  · split
    · rename_i m' ha
      refine ⟨inv_set_mgr h (add_ok hm ht ha), rfl, s.manager.pooled.length, Or.inr ?_⟩
      simp [AState.manager, (add_pooled ha).1]
    · exact keep
  · split
    · exact keep
    · split
      · exact keep
      · split
        · exact keep
        · split
          · exact keep
          · split
            · exact keep
            · have hr := rollbackTo_ok t.prev (s.manager.pooled.length + 1) s.manager hm
              generalize rollbackTo Mgr.pop t.prev (s.manager.pooled.length + 1) s.manager = r at hr
              obtain ⟨m', reached⟩ := r
              simp only at hr ⊢
              obtain ⟨hr1, ⟨j, hj⟩, _⟩ := hr
              split
              · exact ⟨inv_set_mgr h hr1, rfl, j, Or.inl (by simp [AState.manager, hj])⟩
              · split
                · rename_i m'' ha
                  refine ⟨inv_set_mgr h (add_ok hr1 ht ha), rfl, j, Or.inr ?_⟩
                  simp [AState.manager, (add_pooled ha).1, hj]
                · exact ⟨inv_set_mgr h hr1, rfl, j, Or.inl (by simp [AState.manager, hj])⟩

theorem addTx_shape {s : AState} (h : Inv s) (t : Tx) (f : Bool) (ht : TxWF t) :
    Inv (addTx s t f).1 ∧ (addTx s t f).1.confirmed = s.confirmed ∧
    ∃ j, (addTx s t f).1.manager.pooled = s.manager.pooled.take j ∨
         (addTx s t f).1.manager.pooled = s.manager.pooled.take j ++ [t] := addTxWith_shape _ _ h t f ht

/-! #### rebuild -/

/-- in a chain, dropping `n` blocks is dropping the heights up to `start + n` -/
theorem drop_eq_filter_height : ∀ (xs : List Blk) (start : Id) (n : Nat), Linked start xs → HeightsOK xs →
    xs.drop n = xs.filter (fun b => decide (start.2 + n < b.height))
  | [], _, _, _, _ => by simp
  | x :: r, start, n, hl, hh => by
    have hx := prev_height hl.1 (hh x (by simp))
    have hr : HeightsOK r := fun b hb => hh b (by simp [hb])
    cases n with
    | zero =>
      simp only [List.drop_zero, Nat.add_zero]
      symm
      rw [List.filter_eq_self]
      intro b hb
      have := (linked_mem_height (x :: r) start hl hh b hb).1
      simpa using this
    | succ k =>
      have ih := drop_eq_filter_height r x.id k hl.2 hr
      have hnot : ¬ (start.2 + (k + 1) < x.height) := by omega
      simp only [List.drop_succ_cons, List.filter_cons, hnot, decide_false]
      rw [ih]
      have e : x.id.2 + k = start.2 + (k + 1) := by simp only [Blk.id]; omega
      simp [e]

/-- of the blocks above a height, the ones `rebuild` re-applies (not ContractSend) are the heads of the transactions
    whose head lies above that height -/
theorem filter_heads (h : Nat) : ∀ (ts : List Tx),
    (∀ t ∈ ts, (∀ d ∈ t.desc, isContractSend d.btype = true) ∧ isContractSend t.head.btype = false) →
    (flat ts).filter (fun b => decide (h < b.height) && !isContractSend b.btype) =
      (ts.filter (fun t => decide (h < t.head.height))).map Tx.head
  | [], _ => by simp [flat]
  | t :: r, ht => by
    have ih := filter_heads h r (fun x hx => ht x (by simp [hx]))
    obtain ⟨h1, h2⟩ := ht t (by simp)
    have hd : t.desc.filter (fun b => decide (h < b.height) && !isContractSend b.btype) = [] := by
      rw [List.filter_eq_nil_iff]
      intro b hb
      simp [h1 b hb]
    rw [flat_cons, List.filter_append, ih]
    simp only [Tx.commits, List.filter_append, hd, List.nil_append, List.filter_cons, List.filter_nil, h2]
    by_cases hp : h < t.head.height <;> simp [hp]

/-- pooled transactions have pairwise different heads (their heights differ) -/
theorem heads_inj : ∀ (ts : List Tx) (s : Id), Linked s (flat ts) → HeightsOK (flat ts) →
    ∀ t1 ∈ ts, ∀ t2 ∈ ts, t1.head = t2.head → t1 = t2
  | [], _, _, _, t1, h1, _, _, _ => by simp at h1
  | t :: r, s, hl, hh, t1, h1, t2, h2, he => by
    obtain ⟨_, _, hlr⟩ := (linked_flat_cons s t r).mp hl
    rw [flat_cons] at hh
    have hhr := (heightsOK_append.mp hh).2
    have above : ∀ t' ∈ r, t'.head.height ≠ t.head.height := by
      intro t' ht' heq
      have := (linked_mem_height (flat r) t.id hlr hhr t'.head (mem_flat.mpr ⟨t', ht', head_mem_commits t'⟩)).1
      simp only [Tx.id, Blk.id] at this
      omega
    rcases List.mem_cons.mp h1 with e1 | h1' <;> rcases List.mem_cons.mp h2 with e2 | h2'
    · rw [e1, e2]
    · exact absurd (by rw [← he, e1]) (above t2 h2')
    · exact absurd (by rw [he, e2]) (above t1 h1')
    · exact heads_inj r t.id hlr hhr t1 h1' t2 h2' he

theorem txOf_mem (old : Mgr) (hinj : ∀ t1 ∈ old.pooled, ∀ t2 ∈ old.pooled, t1.head = t2.head → t1 = t2)
    (t : Tx) (ht : t ∈ old.pooled) : txOf old t.head = t := by
  unfold txOf
  cases hf : old.pooled.reverse.find? (fun x => x.head == t.head) with
  | none =>
    rw [List.find?_eq_none] at hf
    have := hf t (by simpa using ht)
    simp at this
  | some t' =>
    have hm := List.mem_of_find?_eq_some hf
    have hp := List.find?_some hf
    simp only [Option.getD_some]
    exact hinj t' (by simpa using hm) t ht (by simpa using hp)

theorem frontierId_add (m : Mgr) (t : Tx) (p : List Id) :
    ({ m with pooled := m.pooled ++ [t], patches := p } : Mgr).frontierId = t.id := by
  rw [frontierId_eq]; simp only [flat_concat, lastIdFrom_append, lastIdFrom_commits]

/-- re-adding transactions that link to the manager's frontier succeeds and appends them -/
theorem addAll_linked : ∀ (ts : List Tx) (m : Mgr), Linked m.frontierId (flat ts) →
    addAll m ts = some { m with pooled := m.pooled ++ ts, patches := m.patches ++ (flat ts).map Blk.id }
  | [], m, _ => by simp [addAll, flat]
  | t :: ts, m, h => by
    obtain ⟨h1, _, h3⟩ := (linked_flat_cons _ t ts).mp h
    unfold addAll
    have ha : m.add t = some { m with pooled := m.pooled ++ [t], patches := m.patches ++ t.commits.map Blk.id } := by
      simp [Mgr.add, h1]
    simp only [ha]
    have := addAll_linked ts { m with pooled := m.pooled ++ [t], patches := m.patches ++ t.commits.map Blk.id }
      (by rw [frontierId_add]; exact h3)
    rw [this]; simp [flat_cons]

theorem addAll_unlinked (t : Tx) (ts : List Tx) (m : Mgr) (h : t.prev ≠ m.frontierId) : addAll m (t :: ts) = none := by
  simp [addAll, Mgr.add, h]

/-- the transactions with a head above a height are a suffix of the pooled chain, hence a chain themselves -/
theorem filter_suffix_linked (h : Nat) : ∀ (ts : List Tx) (s : Id), Linked s (flat ts) → HeightsOK (flat ts) →
    ∃ s', Linked s' (flat (ts.filter (fun t => decide (h < t.head.height))))
  | [], s, _, _ => ⟨s, by simp [flat, Linked]⟩
  | t :: r, s, hl, hh => by
    obtain ⟨_, _, hlr⟩ := (linked_flat_cons s t r).mp hl
    have hh' := hh
    rw [flat_cons] at hh'
    have hhr := (heightsOK_append.mp hh').2
    by_cases hp : h < t.head.height
    · refine ⟨s, ?_⟩
      have : (t :: r).filter (fun t => decide (h < t.head.height)) = t :: r := by
        rw [List.filter_eq_self]
        intro t' ht'
        rcases List.mem_cons.mp ht' with rfl | ht'
        · simpa using hp
        · have := (linked_mem_height (flat r) t.id hlr hhr t'.head (mem_flat.mpr ⟨t', ht', head_mem_commits t'⟩)).1
          simp only [Tx.id, Blk.id] at this
          simp only [decide_eq_true_eq]; omega
      rw [this]; exact hl
    · have : (t :: r).filter (fun t => decide (h < t.head.height)) = r.filter (fun t => decide (h < t.head.height)) := by
        simp [hp]
      rw [this]
      exact filter_suffix_linked h r t.id hlr hhr

theorem linked_flat_mem : ∀ (ts : List Tx) (s : Id), Linked s (flat ts) → ∀ t ∈ ts, Linked t.prev t.commits
  | [], _, _, t, ht => by simp at ht
  | x :: r, s, hl, t, ht => by
    obtain ⟨_, h2, h3⟩ := (linked_flat_cons s x r).mp hl
    rcases List.mem_cons.mp ht with rfl | ht
    · exact h2
    · exact linked_flat_mem r x.id h3 t ht

theorem pooled_txwf {conf : List Blk} {m : Mgr} (hm : MgrOK conf m) : ∀ t ∈ m.pooled, TxWF t := by
  intro t ht
  obtain ⟨_, h2, h3, h4, _⟩ := hm
  exact ⟨linked_flat_mem _ _ h2 t ht, fun b hb => h3 b (mem_flat.mpr ⟨t, ht, hb⟩), (h4 t ht).1, (h4 t ht).2⟩

/-- the transactions `rebuild` keeps for an address whose stable chain became `conf'`: the pooled ones whose head lies
    above the confirmed height — if they (still) link to the confirmed frontier, else none -/
def keptBy (conf' : List Blk) (pooled : List Tx) : List Tx :=
  let rest := pooled.filter (fun t => decide ((lastId conf').2 < t.head.height))
  if Linked (lastId conf') (flat rest) then rest else []

/-- `rebuild` of one address, after the momentum extended its confirmed chain by `nb` -/
theorem rebuild_addr_spec {x : AState} (hi : Inv x) (nb : List Blk) (hl : Linked (lastId x.confirmed) nb)
    (hh : HeightsOK nb) :
    Inv (rebuildAddr { x with confirmed := x.confirmed ++ nb }).1 ∧
    (rebuildAddr { x with confirmed := x.confirmed ++ nb }).1.confirmed = x.confirmed ++ nb ∧
    (rebuildAddr { x with confirmed := x.confirmed ++ nb }).1.manager.pooled =
      keptBy (x.confirmed ++ nb) x.manager.pooled ∧
    (rebuildAddr { x with confirmed := x.confirmed ++ nb }).2 ≠ .nilDeref ∧
    (x.mgr = none → (rebuildAddr { x with confirmed := x.confirmed ++ nb }).1.mgr = none) := by
  have hc : Linked zeroId (x.confirmed ++ nb) := (linked_append nb x.confirmed zeroId).mpr ⟨hi.1, hl⟩
  have hhc : HeightsOK (x.confirmed ++ nb) := heightsOK_append.mpr ⟨hi.2.1, hh⟩
  have noMgr : ∀ y : AState, y.confirmed = x.confirmed ++ nb → y.mgr = none → Inv y :=
    fun y h1 h2 => ⟨by rw [h1]; exact hc, by rw [h1]; exact hhc, fun m hm => by rw [h2] at hm; cases hm⟩
  cases hm : x.mgr with
  | none =>
    simp only [rebuildAddr, rebuildWith]
    refine ⟨noMgr _ rfl rfl, by first | rfl | trivial, ?_, by simp, by first | trivial | exact fun _ => rfl⟩
    simp [AState.manager, hm, keptBy, flat, Linked]
  | some old =>
    obtain ⟨hb, hlp, hhp, hty, hpa⟩ := hi.2.2 old hm
    have hp : x.manager = old := by simp [AState.manager, hm]
    rw [hp]
    have hview : Linked zeroId (old.base ++ flat old.pooled) := by
      rw [hb, linked_append]; exact ⟨hi.1, by rw [← lastId_eq]; exact hlp⟩
    have hvh : HeightsOK (old.base ++ flat old.pooled) := heightsOK_append.mpr ⟨by rw [hb]; exact hi.2.1, hhp⟩
    have hlo := chain_last_height _ hc hhc
    have hhi := chain_last_height _ hview hvh
    have hcl := chain_last_height _ hi.1 hi.2.1
    have hunc : uncommittedOf old.view ((lastId (x.confirmed ++ nb)).2 + 1)
        ((lastId old.view).2 + 1 - ((lastId (x.confirmed ++ nb)).2 + 1)) = some ((flat old.pooled).drop nb.length) := by
      unfold Mgr.view
      rw [hlo, hhi]
      simp only [List.length_append, hb]
      by_cases hle : (flat old.pooled).length ≤ nb.length
      · have h0 : x.confirmed.length + (flat old.pooled).length + 1 - (x.confirmed.length + nb.length + 1) = 0 := by omega
        rw [h0, List.drop_eq_nil_of_le hle]; rfl
      · rw [← hb]
        rw [uncommittedOf_chain _ hview hvh _ (by omega) _ (by simp only [List.length_append, hb]; omega)]
        have e1 : old.base.length + nb.length + 1 - 1 = old.base.length + nb.length := by omega
        rw [e1, List.drop_append]
        have e2 : List.drop (old.base.length + nb.length) old.base = [] := List.drop_eq_nil_of_le (by omega)
        have e3 : old.base.length + nb.length - old.base.length = nb.length := by omega
        rw [e2, e3, List.nil_append, List.take_of_length_le (by simp only [List.length_drop]; omega)]
    -- the re-applied transactions
    have hthr : (lastId (x.confirmed ++ nb)).2 = (lastId x.confirmed).2 + nb.length := by
      rw [hlo, hcl]; simp
    have htxs : (((flat old.pooled).drop nb.length).filter (fun b => !isContractSend b.btype)).map (txOf old) =
        old.pooled.filter (fun t => decide ((lastId (x.confirmed ++ nb)).2 < t.head.height)) := by
      rw [drop_eq_filter_height _ _ nb.length hlp hhp, List.filter_filter, ← hthr]
      have := filter_heads (lastId (x.confirmed ++ nb)).2 old.pooled hty
      simp only [Bool.and_comm] at this ⊢
      rw [this, List.map_map]
      have hinj := heads_inj old.pooled _ hlp hhp
      rw [List.map_congr_left (g := id)]
      · simp
      · intro t ht
        exact txOf_mem old hinj t (List.mem_filter.mp ht).1
    obtain ⟨s', hs'⟩ := filter_suffix_linked (lastId (x.confirmed ++ nb)).2 old.pooled _ hlp hhp
    simp only [rebuildAddr, rebuildWith, hunc, Bool.false_eq_true, if_false, keptBy]
    generalize hrest : old.pooled.filter (fun t => decide ((lastId (x.confirmed ++ nb)).2 < t.head.height)) = rest at *
    have hsub : ∀ t ∈ rest, t ∈ old.pooled := fun t ht => by rw [← hrest] at ht; exact (List.mem_filter.mp ht).1
    cases hd : (flat old.pooled).drop nb.length with
    | nil =>
      -- nothing above the confirmed height: no transaction is kept either
      rw [hd] at htxs
      have : rest = [] := by simpa using htxs.symm
      refine ⟨noMgr _ rfl rfl, by first | rfl | trivial, ?_, by simp, by first | trivial | exact fun h => by cases h⟩
      simp [AState.manager, this, flat, Linked]
    | cons b0 bs =>
      rw [hd] at htxs
      simp only [htxs]
      by_cases hlk : Linked (lastId (x.confirmed ++ nb)) (flat rest)
      · have := addAll_linked rest ⟨x.confirmed ++ nb, [], []⟩ (by simpa [Mgr.frontierId, Mgr.view, flat] using hlk)
        simp only [this, hlk, if_true]
        refine ⟨⟨hc, hhc, ?_⟩, by first | rfl | trivial, by simp [AState.manager], by simp,
          by first | trivial | exact fun h => by cases h⟩
        intro m hm'
        simp only [Option.some.injEq] at hm'
        subst hm'
        refine ⟨rfl, by simpa using hlk, ?_, ?_, ?_⟩
        · intro b hb
          simp only [List.nil_append] at hb
          obtain ⟨t, ht, hbt⟩ := mem_flat.mp hb
          exact hhp b (mem_flat.mpr ⟨t, hsub t ht, hbt⟩)
        · intro t ht
          simp only [List.nil_append] at ht
          exact hty t (hsub t ht)
        · intro i; simp
      · cases rest with
        | nil => exact absurd (by simp [flat, Linked]) hlk
        | cons t r =>
          have hne : t.prev ≠ (⟨x.confirmed ++ nb, [], []⟩ : Mgr).frontierId := by
            intro he
            obtain ⟨_, h2, h3⟩ := (linked_flat_cons s' t r).mp hs'
            exact hlk ((linked_flat_cons _ t r).mpr ⟨by simpa [Mgr.frontierId, Mgr.view, flat] using he, h2, h3⟩)
          simp only [addAll_unlinked t r _ hne, hlk, if_false]
          exact ⟨noMgr _ rfl rfl, by first | rfl | trivial, by simp [AState.manager], by simp,
            by first | trivial | exact fun h => by cases h⟩

/-- confirming whole pooled transactions: the ones above the new confirmed height are the rest of the list -/
theorem filter_heads_drop : ∀ (ts : List Tx) (s : Id) (k : Nat), Linked s (flat ts) → HeightsOK (flat ts) →
    ts.filter (fun t => decide (s.2 + (flat (ts.take k)).length < t.head.height)) = ts.drop k
  | [], _, _, _, _ => by simp
  | t :: r, s, k, hl, hh => by
    obtain ⟨h1, h2, hlr⟩ := (linked_flat_cons s t r).mp hl
    have hh' := hh
    rw [flat_cons] at hh'
    obtain ⟨hhc, hhr⟩ := heightsOK_append.mp hh'
    cases k with
    | zero =>
      simp only [List.take_zero, flat_nil, List.length_nil, Nat.add_zero, List.drop_zero]
      rw [List.filter_eq_self]
      intro t' ht'
      have := (linked_mem_height (flat (t :: r)) s hl hh t'.head (mem_flat.mpr ⟨t', ht', head_mem_commits t'⟩)).1
      exact decide_eq_true this
    | succ k =>
      have hth : t.head.height = s.2 + t.commits.length := by
        have := linked_last_height t.commits s (by rw [← h1]; exact h2) hhc
        rw [lastIdFrom_commits] at this
        simpa [Tx.id, Blk.id] using this
      have ih := filter_heads_drop r t.id k hlr hhr
      have hnot : ¬ (s.2 + (flat ((t :: r).take (k + 1))).length < t.head.height) := by
        simp only [List.take_succ_cons, flat_cons, List.length_append]; omega
      simp only [List.filter_cons, hnot, decide_false, List.drop_succ_cons]
      rw [← ih]
      have e : s.2 + (flat ((t :: r).take (k + 1))).length = t.id.2 + (flat (r.take k)).length := by
        simp only [List.take_succ_cons, flat_cons, List.length_append, Tx.id, Blk.id]; omega
      simp only [e]
      rfl

theorem keptBy_whole_prefix {conf : List Blk} {pooled : List Tx} (hl : Linked (lastId conf) (flat pooled))
    (hh : HeightsOK (flat pooled)) (hc : Linked zeroId conf) (hhc : HeightsOK conf) (k : Nat) :
    keptBy (conf ++ flat (pooled.take k)) pooled = pooled.drop k := by
  have hsplit : flat pooled = flat (pooled.take k) ++ flat (pooled.drop k) := by
    rw [← flat_append, List.take_append_drop]
  have hl' := hl
  rw [hsplit, linked_append] at hl'
  have hh' := hh
  rw [hsplit] at hh'
  have hc' : Linked zeroId (conf ++ flat (pooled.take k)) := (linked_append _ _ _).mpr ⟨hc, by rw [← lastId_eq]; exact hl'.1⟩
  have hhc' : HeightsOK (conf ++ flat (pooled.take k)) := heightsOK_append.mpr ⟨hhc, (heightsOK_append.mp hh').1⟩
  have hthr : (lastId (conf ++ flat (pooled.take k))).2 = (lastId conf).2 + (flat (pooled.take k)).length := by
    rw [chain_last_height _ hc' hhc', chain_last_height _ hc hhc]; simp
  unfold keptBy
  simp only [hthr, filter_heads_drop pooled (lastId conf) k hl hh]
  rw [lastId_append]
  simp [hl'.2]

/-! #### what the pool lists -/

theorem uncommitted_spec {x : AState} (hi : Inv x) : uncommittedBlocks x = some (flat x.manager.pooled) := by
  obtain ⟨hb, hlp, hhp, _, _⟩ := manager_ok hi
  have hview : Linked zeroId (x.manager.base ++ flat x.manager.pooled) := by
    rw [hb, linked_append]; exact ⟨hi.1, by rw [← lastId_eq]; exact hlp⟩
  have hvh : HeightsOK (x.manager.base ++ flat x.manager.pooled) := heightsOK_append.mpr ⟨by rw [hb]; exact hi.2.1, hhp⟩
  have hhi := chain_last_height _ hview hvh
  have hcl := chain_last_height _ hi.1 hi.2.1
  unfold uncommittedBlocks Mgr.view
  simp only [hhi, hcl]
  rw [uncommittedOf_chain _ hview hvh _ (by omega) _ (by simp only [List.length_append, hb]; omega)]
  simp only [List.length_append, hb]
  have e1 : x.confirmed.length + 1 - 1 = x.confirmed.length := by omega
  have e2 : x.confirmed.length + (flat x.manager.pooled).length + 1 - (x.confirmed.length + 1) =
      (flat x.manager.pooled).length := by omega
  rw [e1, e2, ← hb, List.drop_left, List.take_length]

/-! #### the whole pool -/

/-- what the callers guarantee about an operation: transactions are well formed (`TxWF`); a momentum extends the
    account chains by blocks that link to them (chain insert) -/
def OpOK (s : PoolSt) : Op → Prop
  | .add _ t _ => TxWF t
  | .insert c => ∀ a, Linked (lastId (s a).confirmed) (contentOf c a) ∧ HeightsOK (contentOf c a)
  | .delete _ => True

/-- states reachable from any confirmed account chains and an empty pool -/
inductive Reachable : PoolSt → Prop
  | init (s : PoolSt) : (∀ a, Linked zeroId (s a).confirmed ∧ HeightsOK (s a).confirmed ∧ (s a).mgr = none) → Reachable s
  | step {s : PoolSt} (op : Op) : Reachable s → OpOK s op → Reachable (step s op)

theorem step_inv {s : PoolSt} (h : ∀ a, Inv (s a)) (op : Op) (hop : OpOK s op) : ∀ a, Inv (step s op a) := by
  intro b
  cases op with
  | add a t f =>
    simp only [step, addAt, upd]
    split
    · rename_i hb; exact (addTx_shape (h a) t f hop).1
    · exact h b
  | insert c =>
    obtain ⟨h1, h2⟩ := hop b
    exact (rebuild_addr_spec (h b) (contentOf c b) h1 h2).1
  | delete k =>
    exact ⟨linked_take _ _ _ (h b).1, heightsOK_take _ (h b).2.1, fun m hm => by simp [step, deleteMomentum] at hm⟩

theorem reachable_inv {s : PoolSt} (hr : Reachable s) : ∀ a, Inv (s a) := by
  induction hr with
  | init s h => intro a; exact ⟨(h a).1, (h a).2.1, fun m hm => by rw [(h a).2.2] at hm; cases hm⟩
  | step op _ hop ih => exact step_inv ih op hop

/-! #### competitors -/

theorem flat_take_lt {ts : List Tx} {j : Nat} (hj : j < ts.length) : (flat (ts.take j)).length < (flat ts).length := by
  have h : flat ts = flat (ts.take j) ++ flat (ts.drop j) := by rw [← flat_append, List.take_append_drop]
  have hne : ts.drop j ≠ [] := by
    intro he
    have := congrArg List.length he
    simp at this; omega
  have := flat_length_pos hne
  rw [h, List.length_append]; omega

/-- the rollback loop reaches the identifier below any pooled transaction and leaves exactly the transactions up to it -/
theorem rollbackTo_reaches {conf : List Blk} : ∀ (fuel : Nat) (m : Mgr) (j : Nat), MgrOK conf m → j ≤ m.pooled.length →
    m.pooled.length - j < fuel →
    ∃ m', rollbackTo Mgr.pop (lastIdFrom (lastId conf) (flat (m.pooled.take j))) fuel m = (m', true) ∧
      m'.pooled = m.pooled.take j ∧ m'.base = m.base
  | 0, _, _, _, _, hf => by omega
  | fuel + 1, m, j, hm, hj, hf => by
    have hm' := hm
    obtain ⟨hb, hl, hh, _, _⟩ := hm
    unfold rollbackTo
    have hfr : m.frontierId = lastIdFrom (lastId conf) (flat m.pooled) := by rw [frontierId_eq, hb]
    have hfh : (m.frontierId).2 = (lastId conf).2 + (flat m.pooled).length := by
      rw [hfr]; exact linked_last_height _ _ hl hh
    have hsplit : flat m.pooled = flat (m.pooled.take j) ++ flat (m.pooled.drop j) := by
      rw [← flat_append, List.take_append_drop]
    have hlt : Linked (lastId conf) (flat (m.pooled.take j)) := by
      have := hl; rw [hsplit, linked_append] at this; exact this.1
    have hht : HeightsOK (flat (m.pooled.take j)) := by
      have := hh; rw [hsplit] at this; exact (heightsOK_append.mp this).1
    have hth : (lastIdFrom (lastId conf) (flat (m.pooled.take j))).2 = (lastId conf).2 + (flat (m.pooled.take j)).length :=
      linked_last_height _ _ hlt hht
    by_cases hfe : m.frontierId = lastIdFrom (lastId conf) (flat (m.pooled.take j))
    · have : j = m.pooled.length := by
        apply Classical.byContradiction
        intro hne
        have := flat_take_lt (ts := m.pooled) (j := j) (by omega)
        have h2 : (m.frontierId).2 = (lastIdFrom (lastId conf) (flat (m.pooled.take j))).2 := by rw [hfe]
        omega
      simp only [hfe, if_true]
      exact ⟨m, rfl, by rw [this, List.take_length], rfl⟩
    · simp only [hfe, if_false]
      have hjlt : j < m.pooled.length := by
        apply Classical.byContradiction
        intro hn
        have : j = m.pooled.length := by omega
        apply hfe
        rw [hfr, this, List.take_length]
      have hne : m.pooled ≠ [] := by intro he; simp [he] at hjlt
      obtain ⟨tl, htl⟩ : ∃ tl, m.pooled.getLast? = some tl := ⟨m.pooled.getLast hne, List.getLast?_eq_some_getLast hne⟩
      have hns : lastId m.base ≠ m.frontierId := by
        intro he
        have : (lastId m.base).2 = (m.frontierId).2 := by rw [he]
        rw [hb] at this
        have := flat_length_pos hne
        omega
      have hpop : m.pop = some ({ m with pooled := m.pooled.dropLast, patches := m.patches.filter (fun i => !(tl.commits.map Blk.id).contains i) } : Mgr) := by
        simp [Mgr.pop, hns, htl]
      simp only [hpop]
      have hok := pop_ok_aux hm' htl
      have hlen : m.pooled.dropLast.length = m.pooled.length - 1 := by simp
      obtain ⟨m2, h1, h2, h3⟩ := rollbackTo_reaches fuel _ j hok (by simp only [hlen]; omega) (by simp only [hlen]; omega)
      have htk : m.pooled.dropLast.take j = m.pooled.take j := by
        rw [List.dropLast_eq_take, List.take_take]
        congr 1; omega
      simp only [htk] at h1 h2
      exact ⟨m2, h1, h2, h3⟩

/-- walking up from the first commit of a stored transaction finds the block that carries it -/
theorem headAt_spec (view : List Blk) (hl : Linked zeroId view) (hh : HeightsOK view) :
    ∀ (ds A : List Blk) (hd : Blk) (B : List Blk) (fuel : Nat), view = A ++ ds ++ [hd] ++ B →
      (∀ d ∈ ds, isContractSend d.btype = true) → isContractSend hd.btype = false → ds.length < fuel →
      headAt view fuel (A.length + 1) = some hd
  | [], A, hd, B, fuel, hv, _, hhd, hf => by
    obtain ⟨f, rfl⟩ : ∃ f, fuel = f + 1 := ⟨fuel - 1, by simp at hf; omega⟩
    have hi : A.length < view.length := by rw [hv]; simp
    have hb := byHeight_chain view hl hh A.length hi
    have hget : view[A.length] = hd := by simp [hv]
    simp only [headAt, hb, hget, hhd, Bool.false_eq_true, if_false]
  | d :: ds, A, hd, B, fuel, hv, hcs, hhd, hf => by
    obtain ⟨f, rfl⟩ : ∃ f, fuel = f + 1 := ⟨fuel - 1, by simp at hf; omega⟩
    have hi : A.length < view.length := by rw [hv]; simp
    have hb := byHeight_chain view hl hh A.length hi
    have hget : view[A.length] = d := by simp [hv]
    have ih := headAt_spec view hl hh ds (A ++ [d]) hd B f (by rw [hv]; simp) (fun x hx => hcs x (by simp [hx])) hhd
      (by simp at hf; omega)
    simp only [headAt, hb, hget, hcs d (by simp), if_true]
    simpa using ih

theorem byHeight_at_split (view : List Blk) (hl : Linked zeroId view) (hh : HeightsOK view) (A : List Blk) (hd : Blk)
    (B : List Blk) (hv : view = A ++ [hd] ++ B) : byHeight view (A.length + 1) = some hd := by
  have hi : A.length < view.length := by rw [hv]; simp
  have hb := byHeight_chain view hl hh A.length hi
  have hget : view[A.length] = hd := by simp [hv]
  rw [hb, hget]

/-- a transaction with descendants: the head lies as many heights above `Previous()` as it has commits -/
theorem head_height {t : Tx} (ht : TxWF t) : t.head.height = t.prev.2 + t.commits.length := by
  have := linked_last_height t.commits t.prev ht.1 ht.2.1
  rw [lastIdFrom_commits] at this
  simpa [Tx.id, Blk.id] using this

/-- the address loop of `rebuild` touches the visited addresses only, each once -/
theorem rebuildLoop_apply : ∀ (order : List Addr) (s : PoolSt), order.Nodup → ∀ b,
    rebuildLoop s order b = if b ∈ order then (rebuildAddr (s b)).1 else s b
  | [], s, _, b => by simp [rebuildLoop]
  | a :: rest, s, hn, b => by
    have hn' := List.nodup_cons.mp hn
    have ih := rebuildLoop_apply rest (rebuildAt s a) hn'.2 b
    simp only [rebuildLoop, List.foldl_cons] at ih ⊢
    rw [ih]
    by_cases hba : b = a
    · subst hba
      simp [hn'.1, rebuildAt, upd]
    · by_cases hbr : b ∈ rest
      · simp [hbr, rebuildAt, upd, hba]
      · simp [hbr, hba, rebuildAt, upd]

end ZV.PoolMulti
