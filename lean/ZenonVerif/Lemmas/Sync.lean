import ZenonVerif.Model.Sync
/-
Helper lemmas for C16 (InsertChain). Core Lean only.
-/
namespace ZV.Sync
open ZV ZV.Proto

/-! ### lists -/

theorem linked_append_one : ∀ (l : List DM) (a d : DM), Linked (l ++ [a]) → d.prev = a.hash → d.height = a.height + 1 →
    Linked (l ++ [a] ++ [d])
  | [], a, d, _, h1, h2 => by simp [Linked, h1, h2]
  | [x], a, d, hl, h1, h2 => by
      simp only [List.cons_append, List.nil_append, Linked] at hl ⊢
      exact ⟨hl.1, hl.2.1, h1, h2, trivial⟩
  | x :: y :: t, a, d, hl, h1, h2 => by
      simp only [List.cons_append, Linked] at hl ⊢
      refine ⟨hl.1, hl.2.1, ?_⟩
      have := linked_append_one (y :: t) a d (by simpa using hl.2.2) h1 h2
      simpa using this

theorem linked_take : ∀ (l : List DM) (k : Nat), Linked l → Linked (l.take k)
  | [], k, _ => by simp [Linked]
  | [x], k, _ => by cases k <;> simp [Linked]
  | x :: y :: t, k, hl => by
      match k with
      | 0 => simp [Linked]
      | 1 => simp [Linked]
      | k + 2 =>
        simp only [List.take_succ_cons, Linked] at hl ⊢
        refine ⟨hl.1, hl.2.1, ?_⟩
        have := linked_take (y :: t) (k + 1) hl.2.2
        simpa using this

/-- in a linked list starting at height `h0` the element at index i has height h0 + i -/
theorem linked_height : ∀ (l : List DM) (a : DM) (i : Nat) (d : DM), Linked (a :: l) → (a :: l)[i]? = some d →
    d.height = a.height + i
  | _, a, 0, d, _, h => by simp at h; subst h; rfl
  | [], a, i + 1, d, _, h => by simp at h
  | b :: t, a, i + 1, d, hl, h => by
      simp only [Linked] at hl
      have := linked_height t b i d hl.2.2 (by simpa using h)
      omega

theorem getLastD_append_one (l : List DM) (a g : DM) : (l ++ [a]).getLastD g = a := by
  simp [List.getLastD_eq_getLast?]

/-! ### node accessors -/

theorem chain_ne_nil (n : Node) : n.chain ≠ [] := by simp [Node.chain]

theorem chain_length (n : Node) : n.chain.length = n.rest.length + 1 := by simp [Node.chain]

/-- the frontier is the last element of the chain -/
theorem frontier_eq (n : Node) : n.chain.getLast? = some n.frontier := by
  unfold Node.chain Node.frontier
  cases h : n.rest with
  | nil => simp
  | cons a t =>
    have : (a :: t).getLast? = some ((a :: t).getLast (by simp)) := List.getLast?_eq_some_getLast _
    simp [List.getLastD_eq_getLast?, this]

theorem frontier_mem (n : Node) : n.frontier ∈ n.chain := List.mem_of_getLast? (frontier_eq n)

theorem frontier_index (n : Node) : n.chain[n.chain.length - 1]? = some n.frontier := by
  rw [← frontier_eq, List.getLast?_eq_getElem?]

/-- in a well-formed node the momentum at index i has height i + 1 -/
theorem wf_height {n : Node} (hwf : n.WF) {i : Nat} {d : DM} (h : n.chain[i]? = some d) : d.height = i + 1 := by
  have := linked_height n.rest n.genesis i d hwf.linked h
  rw [hwf.gen] at this; omega

theorem wf_frontier_height {n : Node} (hwf : n.WF) : n.frontier.height = n.chain.length := by
  have := wf_height hwf (frontier_index n)
  have := chain_length n
  omega

theorem byHeight_some_iff {n : Node} {h : Nat} {t : DM} (hb : n.byHeight h = some t) :
    1 ≤ h ∧ n.chain[h - 1]? = some t := by
  unfold Node.byHeight at hb
  split at hb
  · cases hb
  · exact ⟨by omega, hb⟩

theorem byHeight_mem {n : Node} {h : Nat} {t : DM} (hb : n.byHeight h = some t) : t ∈ n.chain :=
  List.mem_of_getElem? (byHeight_some_iff hb).2

theorem byHeight_wf {n : Node} (hwf : n.WF) {h : Nat} {t : DM} (hb : n.byHeight h = some t) :
    t.height = h ∧ 1 ≤ h ∧ h ≤ n.chain.length := by
  obtain ⟨h1, h2⟩ := byHeight_some_iff hb
  have := wf_height hwf h2
  have hlt : h - 1 < n.chain.length := by
    rcases List.getElem?_eq_some_iff.mp h2 with ⟨hl, _⟩; exact hl
  omega

theorem byHeight_of_le {n : Node} {h : Nat} (h1 : 1 ≤ h) (h2 : h ≤ n.chain.length) : ∃ t, n.byHeight h = some t := by
  unfold Node.byHeight
  have : ¬ h = 0 := by omega
  simp only [this, if_false]
  exact ⟨n.chain[h - 1]'(by omega), List.getElem?_eq_getElem (by omega)⟩

/-- rollback keeps the first max(h,1) momentums -/
theorem rollbackTo_chain (n : Node) (h : Nat) : (n.rollbackTo h).chain = n.chain.take (max h 1) := by
  unfold Node.rollbackTo Node.chain
  cases h with
  | zero => simp
  | succ k =>
    have : max (k + 1) 1 = k + 1 := by omega
    rw [this]; simp

theorem push_chain (n : Node) (d : DM) : (n.push d).chain = n.chain ++ [d] := by
  simp [Node.push, Node.chain]

theorem push_frontier (n : Node) (d : DM) : (n.push d).frontier = d := by
  simp [Node.push, Node.frontier, List.getLastD_eq_getLast?]

theorem pred64_eq {h k : Nat} (hk : k + 1 < two64) (hp : pred64 h = k) (_hh : h < two64) : h = k + 1 ∨ (h = 0 ∧ False) := by
  unfold pred64 at hp
  split at hp
  · omega
  · omega

/-- a momentum that names the frontier of a well-formed node as its previous sits one above it -/
theorem applies_height {valid : DM → Bool} {n : Node} {d : DM} (hwf : n.WF) (ha : applies valid n d = true) :
    d.prev = n.frontier.hash ∧ d.height = n.frontier.height + 1 ∧ valid d = true := by
  unfold applies DM.prevId DM.id at ha
  simp only [Bool.and_eq_true, beq_iff_eq, Prod.mk.injEq] at ha
  obtain ⟨⟨h1, h2⟩, h3⟩ := ha
  refine ⟨h1, ?_, h3⟩
  have hf := wf_frontier_height hwf
  have hb := hwf.bound
  unfold pred64 at h2
  split at h2
  · omega
  · omega

theorem push_wf {valid : DM → Bool} {n : Node} {d : DM} (hwf : n.WF) (ha : applies valid n d = true)
    (hroom : n.chain.length + 2 < two64) : (n.push d).WF := by
  obtain ⟨h1, h2, _⟩ := applies_height hwf ha
  refine ⟨hwf.gen, ?_, ?_⟩
  · rw [push_chain]
    -- chain = init ++ [frontier]
    have hfe := frontier_eq n
    obtain ⟨init, hinit⟩ : ∃ init, n.chain = init ++ [n.frontier] := by
      have hne := chain_ne_nil n
      refine ⟨n.chain.dropLast, ?_⟩
      have h2 := List.getLast?_eq_some_getLast hne
      rw [hfe] at h2
      have h3 : n.frontier = n.chain.getLast hne := Option.some.inj h2
      rw [h3]
      exact (List.dropLast_concat_getLast hne).symm
    rw [hinit]
    apply linked_append_one
    · rw [← hinit]; exact hwf.linked
    · exact h1
    · exact h2
  · rw [push_chain]; simp; omega

theorem rollbackTo_wf {n : Node} (hwf : n.WF) (h : Nat) : (n.rollbackTo h).WF := by
  refine ⟨hwf.gen, ?_, ?_⟩
  · rw [rollbackTo_chain]; exact linked_take _ _ hwf.linked
  · rw [rollbackTo_chain]
    have := hwf.bound
    have : (n.chain.take (max h 1)).length ≤ n.chain.length := by simp [List.length_take]; omega
    omega

/-! ### the skip loop -/

theorem dropKnown_split (n : Node) (ms : List DM) :
    ∃ known, ms = known ++ dropKnown n ms ∧ ∀ d ∈ known, n.held d = true := by
  induction ms with
  | nil => exact ⟨[], rfl, by simp⟩
  | cons a t ih =>
    unfold dropKnown
    by_cases h : n.held a = true
    · simp only [h, if_true]
      obtain ⟨k, hk1, hk2⟩ := ih
      refine ⟨a :: k, by simp [← hk1], ?_⟩
      intro d hd
      simp at hd
      rcases hd with rfl | hd
      · exact h
      · exact hk2 d hd
    · simp only [h]
      exact ⟨[], rfl, by simp⟩

theorem dropKnown_length_le (n : Node) (ms : List DM) : (dropKnown n ms).length ≤ ms.length := by
  obtain ⟨k, hk, _⟩ := dropKnown_split n ms
  have := congrArg List.length hk
  simp at this; omega

theorem dropKnown_all_held (n : Node) (ms : List DM) (h : ∀ d ∈ ms, n.held d = true) : dropKnown n ms = [] := by
  induction ms with
  | nil => rfl
  | cons a t ih =>
    unfold dropKnown
    simp only [h a (by simp), if_true]
    exact ih (fun d hd => h d (by simp [hd]))

theorem dropKnown_append (n : Node) (known rest : List DM) (h : ∀ d ∈ known, n.held d = true) :
    dropKnown n (known ++ rest) = dropKnown n rest := by
  induction known with
  | nil => rfl
  | cons a t ih =>
    simp only [List.cons_append, dropKnown, h a (by simp), if_true]
    exact ih (fun d hd => h d (by simp [hd]))

theorem dropKnown_head_not_held (n : Node) (ms : List DM) (hd : DM) (more : List DM)
    (h : dropKnown n ms = hd :: more) : n.held hd = false := by
  induction ms with
  | nil => simp [dropKnown] at h
  | cons a t ih =>
    unfold dropKnown at h
    by_cases ha : n.held a = true
    · simp only [ha, if_true] at h; exact ih h
    · simp only [ha] at h
      simp at h
      rw [← h.1]; simpa using ha

/-! ### the apply loop -/

/-- what the apply loop does: it appends a valid, applying prefix `new` of the batch and either finishes
    (ok, index 0) or stops at the first element that does not apply (errVerify, index i + |new|). -/
theorem applyLoop_spec (valid : DM → Bool) : ∀ (ms : List DM) (n : Node) (i : Nat),
    ∃ new, (applyLoop valid n ms i).1.genesis = n.genesis ∧ (applyLoop valid n ms i).1.rest = n.rest ++ new ∧
      (∀ d ∈ new, valid d = true) ∧
      (((applyLoop valid n ms i).2.2 = .ok ∧ new = ms ∧ (applyLoop valid n ms i).2.1 = 0) ∨
       ((applyLoop valid n ms i).2.2 = .errVerify ∧ (applyLoop valid n ms i).2.1 = i + new.length ∧
          ∃ d rest', ms = new ++ d :: rest' ∧ applies valid (applyLoop valid n ms i).1 d = false))
  | [], n, i => ⟨[], rfl, by simp [applyLoop], by simp, Or.inl ⟨rfl, rfl, rfl⟩⟩
  | d :: rest, n, i => by
    unfold applyLoop
    by_cases ha : applies valid n d = true
    · simp only [ha, if_true]
      obtain ⟨new, h1, h2, h3, h4⟩ := applyLoop_spec valid rest (n.push d) (i + 1)
      refine ⟨d :: new, ?_, ?_, ?_, ?_⟩
      · rw [h1]; rfl
      · rw [h2]; simp [Node.push]
      · intro x hx
        simp at hx
        rcases hx with rfl | hx
        · unfold applies at ha; simp at ha; exact ha.2
        · exact h3 x hx
      · rcases h4 with ⟨o1, o2, o3⟩ | ⟨o1, o2, d', r', o3, o4⟩
        · exact Or.inl ⟨o1, by rw [o2], o3⟩
        · refine Or.inr ⟨o1, by rw [o2]; simp; omega, d', r', by rw [o3]; simp, o4⟩
    · simp only [ha]
      refine ⟨[], rfl, by simp, by simp, Or.inr ⟨rfl, by simp, d, rest, by simp, ?_⟩⟩
      simpa using ha

theorem applyLoop_ne_panic (valid : DM → Bool) (ms : List DM) (n : Node) (i : Nat) :
    (applyLoop valid n ms i).2.2 ≠ .panic := by
  obtain ⟨_, _, _, _, h⟩ := applyLoop_spec valid ms n i
  rcases h with ⟨o, _, _⟩ | ⟨o, _, _⟩ <;> rw [o] <;> simp

/-- well-formedness is kept by the apply loop as long as heights stay uint64 values -/
theorem applyLoop_wf (valid : DM → Bool) : ∀ (ms : List DM) (n : Node) (i : Nat), n.WF →
    n.chain.length + ms.length + 1 < two64 → (applyLoop valid n ms i).1.WF
  | [], n, i, hwf, _ => by simpa [applyLoop] using hwf
  | d :: rest, n, i, hwf, hroom => by
    unfold applyLoop
    by_cases ha : applies valid n d = true
    · simp only [ha, if_true]
      simp only [List.length_cons] at hroom
      apply applyLoop_wf valid rest (n.push d) (i + 1) (push_wf hwf ha (by omega))
      rw [push_chain]; simp; omega
    · simp only [ha]; exact hwf

/-- shifting the start offset shifts the reported index of a verification error and nothing else -/
def shiftIdx (k : Nat) (r : Node × Nat × Outcome) : Node × Nat × Outcome :=
  (r.1, (if r.2.2 = .errVerify then k + r.2.1 else r.2.1), r.2.2)

theorem applyLoop_shift (valid : DM → Bool) (k : Nat) : ∀ (ms : List DM) (n : Node) (i : Nat),
    applyLoop valid n ms (k + i) = shiftIdx k (applyLoop valid n ms i)
  | [], n, i => by simp [applyLoop, shiftIdx]
  | d :: rest, n, i => by
    unfold applyLoop
    by_cases ha : applies valid n d = true
    · simp only [ha, if_true]
      have := applyLoop_shift valid k rest (n.push d) (i + 1)
      rw [← this]; congr 1
    · simp [ha, shiftIdx]

theorem insertSuffix_shift (valid : DM → Bool) (k : Nat) (n : Node) (suf : List DM) (s : Nat) :
    insertSuffix valid n suf (k + s) = shiftIdx k (insertSuffix valid n suf s) := by
  unfold insertSuffix
  cases suf with
  | nil => simp [shiftIdx]
  | cons head more =>
    simp only
    split
    · split
      · simp [shiftIdx]
      · split
        · simp [shiftIdx]
        · split
          · simp [shiftIdx]
          · split
            · simp [shiftIdx]
            · exact applyLoop_shift valid k _ _ s
    · exact applyLoop_shift valid k _ _ s

/-- the three ways `InsertChain` can go after the skip loop left a non-empty suffix -/
theorem insertSuffix_cases (valid : DM → Bool) (n : Node) (head : DM) (more : List DM) (start : Nat) :
    (head.prevId = n.frontier.id ∧
      insertSuffix valid n (head :: more) start = applyLoop valid n (head :: more) start) ∨
    (∃ target, head.prevId ≠ n.frontier.id ∧ n.byHeight (pred64 head.height) = some target ∧
      target.id = head.prevId ∧ ¬ (sub64 n.frontier.height target.height > Gen.InsertChainWindow) ∧
      ¬ (((head :: more).getLastD head).height ≤ n.frontier.height) ∧
      insertSuffix valid n (head :: more) start = applyLoop valid (n.rollbackTo target.height) (head :: more) start) ∨
    (∃ o, insertSuffix valid n (head :: more) start = (n, 0, o) ∧ o ≠ .ok ∧ o ≠ .errVerify ∧ o ≠ .panic ∧
      (n.byHeight (pred64 head.height) = none → o = .errLink)) := by
  generalize hr : insertSuffix valid n (head :: more) start = r
  unfold insertSuffix at hr
  simp only at hr
  split at hr
  · next hl =>
    split at hr
    · next hb =>
      subst hr
      exact Or.inr (Or.inr ⟨.errLink, rfl, by simp, by simp, by simp, fun _ => rfl⟩)
    · next target hb =>
      split at hr
      · subst hr
        exact Or.inr (Or.inr ⟨.errLink, rfl, by simp, by simp, by simp, fun _ => rfl⟩)
      · next hid =>
        split at hr
        · subst hr
          exact Or.inr (Or.inr ⟨.errTooFar, rfl, by simp, by simp, by simp, fun h => by rw [h] at hb; cases hb⟩)
        · next hfar =>
          split at hr
          · subst hr
            exact Or.inr (Or.inr ⟨.errNotLonger, rfl, by simp, by simp, by simp, fun h => by rw [h] at hb; cases hb⟩)
          · next hlong =>
            exact Or.inr (Or.inl ⟨target, hl, hb, by simpa using hid, hfar, hlong, hr.symm⟩)
  · next hl =>
    exact Or.inl ⟨by simpa using hl, hr.symm⟩

end ZV.Sync
