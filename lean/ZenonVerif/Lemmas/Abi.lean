import ZenonVerif.Model.Abi
/-
Helper lemmas for C09-T3 (Props/C09Abi.lean): the ABI decoder model never panics.
-/
namespace ZV.Abi
open ZV

/-! ## Res -/

theorem Res.bind_ne_panic {α β : Type} {r : Res α} {f : α → Res β}
    (hr : r ≠ .panic) (hf : ∀ v, r = .ok v → f v ≠ .panic) : (r >>= f) ≠ .panic := by
  cases r with
  | ok v => exact hf v rfl
  | err => intro h; cases h
  | panic => exact absurd rfl hr

theorem Res.bind_ok {α β : Type} (v : α) (f : α → Res β) : ((Res.ok v) >>= f) = f v := rfl
theorem Res.bind_err {α β : Type} (f : α → Res β) : ((Res.err : Res α) >>= f) = .err := rfl
theorem Res.bind_panic {α β : Type} (f : α → Res β) : ((Res.panic : Res α) >>= f) = .panic := rfl
theorem Res.pure_eq {α : Type} (v : α) : (pure v : Res α) = .ok v := rfl

/-! ## int arithmetic without overflow -/

theorem wrap64_eq {x : Int} (h1 : -i63 ≤ x) (h2 : x < i63) : wrap64 x = x := by
  unfold wrap64 i63 i64 at *; omega

theorem iadd_eq {a b : Int} (h1 : -i63 ≤ a + b) (h2 : a + b < i63) : iadd a b = a + b := wrap64_eq h1 h2
theorem isub_eq {a b : Int} (h1 : -i63 ≤ a - b) (h2 : a - b < i63) : isub a b = a - b := wrap64_eq h1 h2
theorem imul_eq {a b : Int} (h1 : -i63 ≤ a * b) (h2 : a * b < i63) : imul a b = a * b := wrap64_eq h1 h2

theorem toInt64_eq {n : Nat} (h : (n : Int) < i63) : toInt64 n = n := by
  unfold toInt64; apply wrap64_eq _ h; unfold i63; omega

theorem u64_eq {n : Nat} (h : n < two64) : u64 n = n := Nat.mod_eq_of_lt h

theorem wordSize_eq : wordSize = 32 := rfl

/-! ## slices -/

theorem goSlice_ok {b : Bytes} {lo hi : Int} (h1 : 0 ≤ lo) (h2 : lo ≤ hi) (h3 : hi ≤ (b.length : Int)) :
    goSlice b lo hi = .ok ((b.drop lo.toNat).take (hi.toNat - lo.toNat)) := by
  unfold goSlice; rw [if_pos ⟨h1, h2, h3⟩]

theorem goSlice_length {b s : Bytes} {lo hi : Int} (h : goSlice b lo hi = .ok s) :
    0 ≤ lo ∧ lo ≤ hi ∧ hi ≤ (b.length : Int) ∧ (s.length : Int) = hi - lo := by
  unfold goSlice at h
  split at h
  · rename_i hc
    obtain ⟨h1, h2, h3⟩ := hc
    injection h with h
    subst h
    refine ⟨h1, h2, h3, ?_⟩
    rw [List.length_take, List.length_drop]
    omega
  · cases h

theorem goIndex_ok {b : Bytes} {i : Int} (h1 : 0 ≤ i) (h2 : i < (b.length : Int)) : goIndex b i ≠ .panic := by
  unfold goIndex; rw [if_pos ⟨h1, h2⟩]; intro h; cases h

/-! ## word readers -/

theorem ne_panic_of_ok {α : Type} {r : Res α} {v : α} (h : r = .ok v) : r ≠ .panic := by
  rw [h]; intro h'; cases h'

theorem readInteger_ne_panic (sg : Bool) (bits : Nat) {w : Bytes} (hw : w.length = 32) :
    readInteger sg bits w ≠ .panic := by
  unfold readInteger
  split
  · apply Res.bind_ne_panic
    · apply goIndex_ok <;> (rw [hw]; unfold isub wrap64 i63 i64; omega)
    · intro v _ h; cases h
  · split
    · rename_i hb
      have hk : bits / 8 ≤ 8 ∧ 1 ≤ bits / 8 := by omega
      have hlo : isub (w.length : Int) ((bits / 8 : Nat) : Int) = 32 - ((bits / 8 : Nat) : Int) := by
        rw [hw]; apply isub_eq <;> (unfold i63; omega)
      apply Res.bind_ne_panic
      · unfold goSliceFrom; rw [hlo]
        apply ne_panic_of_ok (goSlice_ok _ _ _) <;> (try rw [hw]) <;> omega
      · intro s hs
        unfold goSliceFrom at hs; rw [hlo] at hs
        have := (goSlice_length hs).2.2.2
        rw [hw] at this
        have hl : ¬ s.length < bits / 8 := by omega
        rw [if_neg hl]
        intro h; cases h
    · intro h; cases h

theorem readBool_ne_panic {w : Bytes} (hw : w.length = 32) : readBool w ≠ .panic := by
  unfold readBool
  apply Res.bind_ne_panic
  · apply ne_panic_of_ok (goSlice_ok _ _ _) <;> (try rw [hw]) <;> omega
  · intro hd _
    split
    · intro h; cases h
    · apply Res.bind_ne_panic
      · apply goIndex_ok <;> (try rw [hw]) <;> omega
      · intro l _
        split
        · intro h; cases h
        · split <;> (intro h; cases h)

theorem readFixedBytes_ne_panic {n : Nat} (hn : n ≤ 32) {w : Bytes} (hw : w.length = 32) :
    readFixedBytes n w ≠ .panic := by
  unfold readFixedBytes
  apply Res.bind_ne_panic
  · apply ne_panic_of_ok (goSlice_ok _ _ _) <;> (try rw [hw]) <;> omega
  · intro s _ h; cases h

/-! ## lengthPrefixPointsTo -/

theorem maxAlloc_lt : (maxAlloc : Int) < i63 := by unfold maxAlloc i63; omega

theorem lpp_spec {index : Int} {output : Bytes} (h0 : 0 ≤ index) (h1 : index + 32 ≤ (output.length : Int))
    (hlen : output.length ≤ maxAlloc) :
    lengthPrefixPointsTo index output ≠ .panic ∧
    ∀ b l, lengthPrefixPointsTo index output = .ok (b, l) →
      32 ≤ b ∧ 0 ≤ l ∧ b + l ≤ (output.length : Int) := by
  have hM : (output.length : Int) ≤ 281474976710656 := by have := hlen; unfold maxAlloc at this; omega
  have hidx : iadd index wordSize = index + 32 := by
    rw [wordSize_eq]; apply iadd_eq <;> (unfold i63; omega)
  unfold lengthPrefixPointsTo
  rw [hidx, goSlice_ok h0 (by omega) h1]
  simp only [Res.bind_ok]
  generalize beVal (List.take ((index + 32).toNat - index.toNat) (List.drop index.toNat output)) = off
  split
  · exact ⟨(by intro h; cases h), (by intro b l h; cases h)⟩
  · rename_i hoff
    split
    · exact ⟨(by intro h; cases h), (by intro b l h; cases h)⟩
    · have hoffN : off + 32 ≤ output.length := by omega
      have hu : u64 (off + 32) = off + 32 := by apply u64_eq; unfold two64; omega
      have ht : toInt64 (off + 32) = ((off + 32 : Nat) : Int) := by apply toInt64_eq; unfold i63; omega
      rw [hu, ht]
      have hs : isub ((off + 32 : Nat) : Int) wordSize = (off : Int) := by
        rw [wordSize_eq, isub_eq] <;> (try unfold i63) <;> omega
      have hg : goSlice output (off : Int) ((off + 32 : Nat) : Int) = .ok ((output.drop (off : Int).toNat).take (((off + 32 : Nat) : Int).toNat - (off : Int).toNat)) :=
        goSlice_ok (by omega) (by omega) (by omega)
      rw [hs, hg]
      simp only [Res.bind_ok]
      generalize beVal (List.take (((off + 32 : Nat) : Int).toNat - (off : Int).toNat) (List.drop (off : Int).toNat output)) = len
      split
      · exact ⟨(by intro h; cases h), (by intro b l h; cases h)⟩
      · split
        · exact ⟨(by intro h; cases h), (by intro b l h; cases h)⟩
        · rename_i _ htot
          have hlenN : off + 32 + len ≤ output.length := by omega
          have hu2 : u64 len = len := by apply u64_eq; unfold two64; omega
          have ht2 : toInt64 len = (len : Int) := by apply toInt64_eq; unfold i63; omega
          rw [hu2, ht2, Res.pure_eq]
          refine ⟨(by intro h; cases h), ?_⟩
          intro b l h
          injection h with h
          injection h with hb hl
          clear hu ht hs hg hu2 ht2 hidx
          subst hb; subst hl
          refine ⟨?_, ?_, ?_⟩
          · omega
          · omega
          · omega

/-! ## forEachUnpack / toGoType -/

/-- mathematical `getFullElemSize` -/
def fullSizeNat : Ty → Nat
  | .array n e => fullSizeNat e * n
  | _ => 32

/-- the types `NewType` can produce and more: arbitrary nesting of slices and arrays over the elementary types, with
    non-empty arrays of at most 2^48 bytes of inline words and `bytesN` with N ≤ 32 -/
def Ty.WF : Ty → Prop
  | .array n e => e.WF ∧ 0 < n ∧ fullSizeNat e * n ≤ maxAlloc
  | .slice e => e.WF
  | .fixedBytes n => n ≤ 32
  | _ => True

/-- index bound under which no `int` operation of the decoder overflows -/
def idxBound : Int := 562949953421312   -- 2^49

theorem fullSizeNat_pos (t : Ty) (h : t.WF) : 0 < fullSizeNat t := by
  induction t with
  | array n e ih =>
    obtain ⟨he, hn, _⟩ := h
    unfold fullSizeNat
    exact Nat.mul_pos (ih he) hn
  | _ => unfold fullSizeNat; omega

theorem fullSizeNat_le (t : Ty) (h : t.WF) : fullSizeNat t ≤ maxAlloc := by
  cases t with
  | array n e => exact h.2.2
  | _ => unfold fullSizeNat maxAlloc; omega

theorem fullElemSize_eq (t : Ty) (h : t.WF) : fullElemSize t = (fullSizeNat t : Int) := by
  induction t with
  | array n e ih =>
    obtain ⟨he, hn, hb⟩ := h
    unfold fullElemSize fullSizeNat
    rw [ih he, imul_eq]
    · simp
    · have : (0 : Int) ≤ (fullSizeNat e : Int) * (n : Int) := Int.mul_nonneg (by omega) (by omega)
      unfold i63; omega
    · have : ((fullSizeNat e * n : Nat) : Int) ≤ (maxAlloc : Int) := by exact_mod_cast hb
      have h2 := maxAlloc_lt
      rw [Int.natCast_mul] at this
      omega
  | _ => rfl

theorem unpackLoop_ne_panic (dec : Int → Bytes → Res Val) (elemSize : Int) (output : Bytes)
    (hes : 0 ≤ elemSize)
    (hdec : ∀ i, 0 ≤ i → i ≤ idxBound → dec i output ≠ .panic) :
    ∀ (n : Nat) (i : Int), 0 ≤ i → i + n * elemSize ≤ idxBound → unpackLoop dec elemSize output i n ≠ .panic := by
  intro n
  induction n with
  | zero => intro i _ _; unfold unpackLoop; intro h; cases h
  | succ n ih =>
    intro i h0 hb
    have hmul : (0 : Int) ≤ (n : Int) * elemSize := Int.mul_nonneg (by omega) hes
    have hexp : ((n + 1 : Nat) : Int) * elemSize = (n : Int) * elemSize + elemSize := by
      rw [Int.natCast_add, Int.add_mul]; simp
    rw [hexp] at hb
    unfold unpackLoop
    apply Res.bind_ne_panic
    · exact hdec i h0 (by omega)
    · intro v _
      apply Res.bind_ne_panic
      · have : iadd i elemSize = i + elemSize := by
          apply iadd_eq <;> (unfold idxBound at hb; unfold i63; omega)
        rw [this]
        exact ih (i + elemSize) (by omega) (by omega)
      · intro vs _ h; cases h

theorem idxBound_eq : idxBound = 562949953421312 := rfl
theorem maxAlloc_eq : maxAlloc = 281474976710656 := rfl

theorem forEachUnpack_ne_panic (dec : Int → Bytes → Res Val) (isSlice : Bool) (elemSize : Int) (output : Bytes)
    (start size : Int)
    (hlen : output.length ≤ maxAlloc) (h0 : 0 ≤ start) (hs : start ≤ idxBound) (hes : 0 ≤ elemSize)
    (hsz : size ≤ (maxAlloc : Int))
    (hloop : 0 ≤ size → start + 32 * size ≤ (output.length : Int) → size * elemSize ≤ (maxAlloc : Int))
    (hdec : ∀ i, 0 ≤ i → i ≤ idxBound → dec i output ≠ .panic) :
    forEachUnpack dec isSlice elemSize output start size ≠ .panic := by
  unfold forEachUnpack
  split
  · intro h; cases h
  · rename_i hneg
    have hsz0 : 0 ≤ size := by omega
    rw [maxAlloc_eq] at hsz hlen
    rw [idxBound_eq] at hs
    have hm : imul wordSize size = 32 * size := by
      rw [wordSize_eq]; apply imul_eq <;> (unfold i63; omega)
    have ha : iadd start (32 * size) = start + 32 * size := by
      apply iadd_eq <;> (unfold i63; omega)
    rw [hm, ha]
    split
    · intro h; cases h
    · rename_i hchk
      have hchk' : start + 32 * size ≤ (output.length : Int) := by omega
      have hl := hloop hsz0 hchk'
      rw [maxAlloc_eq] at hl
      apply Res.bind_ne_panic
      · cases isSlice
        · intro h; cases h
        · simp only [if_true]
          unfold makeSlice maxElemSize
          rw [maxAlloc_eq, if_pos]
          · intro h; cases h
          · constructor
            · exact hsz0
            · have : (output.length : Int) ≤ 281474976710656 := by omega
              clear hm ha hdec hloop
              omega
      · intro _ _
        apply Res.bind_ne_panic
        · apply unpackLoop_ne_panic dec elemSize output hes hdec size.toNat start h0
          have : ((size.toNat : Nat) : Int) = size := Int.toNat_of_nonneg hsz0
          rw [this, idxBound_eq]
          have : (output.length : Int) ≤ 281474976710656 := by omega
          clear hm ha hdec hloop
          omega
        · intro vs _ h; cases h

theorem word_ok {index : Int} {output : Bytes} (h0 : 0 ≤ index) (hchk : index + 32 ≤ (output.length : Int)) :
    ∃ w, goSlice output index (index + 32) = .ok w ∧ w.length = 32 := by
  refine ⟨_, goSlice_ok h0 (by omega) hchk, ?_⟩
  rw [List.length_take, List.length_drop]
  omega

theorem iadd_index {index : Int} (h0 : 0 ≤ index) (hb : index ≤ idxBound) : iadd index wordSize = index + 32 := by
  rw [wordSize_eq]; apply iadd_eq <;> (rw [idxBound_eq] at hb; unfold i63; omega)

/-- `output[begin : begin+length]` after a successful `lengthPrefixPointsTo` -/
theorem dyn_slice_ne_panic {output : Bytes} {b l : Int} (hlen : output.length ≤ maxAlloc)
    (h : 32 ≤ b ∧ 0 ≤ l ∧ b + l ≤ (output.length : Int)) : goSlice output b (iadd b l) ≠ .panic := by
  obtain ⟨h1, h2, h3⟩ := h
  rw [maxAlloc_eq] at hlen
  have : iadd b l = b + l := by apply iadd_eq <;> (unfold i63; omega)
  rw [this]
  exact ne_panic_of_ok (goSlice_ok (by omega) (by omega) h3)

theorem toGoType_ne_panic : ∀ (t : Ty), t.WF → ∀ (index : Int) (output : Bytes),
    output.length ≤ maxAlloc → 0 ≤ index → index ≤ idxBound → toGoType t index output ≠ .panic := by
  intro t
  induction t with
  | uint bits =>
    intro _ index output hlen h0 hb
    unfold toGoType; rw [iadd_index h0 hb]
    split
    · intro h; cases h
    · rename_i hchk
      obtain ⟨w, hw, hwl⟩ := word_ok h0 (by omega : index + 32 ≤ (output.length : Int))
      simp only [hw, Res.bind_ok]
      exact readInteger_ne_panic _ _ hwl
  | int bits =>
    intro _ index output hlen h0 hb
    unfold toGoType; rw [iadd_index h0 hb]
    split
    · intro h; cases h
    · rename_i hchk
      obtain ⟨w, hw, hwl⟩ := word_ok h0 (by omega : index + 32 ≤ (output.length : Int))
      simp only [hw, Res.bind_ok]
      exact readInteger_ne_panic _ _ hwl
  | bool =>
    intro _ index output hlen h0 hb
    unfold toGoType; rw [iadd_index h0 hb]
    split
    · intro h; cases h
    · rename_i hchk
      obtain ⟨w, hw, hwl⟩ := word_ok h0 (by omega : index + 32 ≤ (output.length : Int))
      simp only [hw, Res.bind_ok]
      exact readBool_ne_panic hwl
  | fixedBytes n =>
    intro hwf index output hlen h0 hb
    unfold toGoType; rw [iadd_index h0 hb]
    split
    · intro h; cases h
    · rename_i hchk
      obtain ⟨w, hw, hwl⟩ := word_ok h0 (by omega : index + 32 ≤ (output.length : Int))
      simp only [hw, Res.bind_ok]
      exact readFixedBytes_ne_panic hwf hwl
  | address =>
    intro _ index output hlen h0 hb
    unfold toGoType; rw [iadd_index h0 hb]
    split
    · intro h; cases h
    · rename_i hchk
      obtain ⟨w, hw, hwl⟩ := word_ok h0 (by omega : index + 32 ≤ (output.length : Int))
      simp only [hw, Res.bind_ok]
      apply Res.bind_ne_panic
      · apply ne_panic_of_ok (goSlice_ok _ _ _) <;> (rw [wordSize_eq]; try rw [hwl]) <;> decide
      · intro a _ h; cases h
  | tokenStandard =>
    intro _ index output hlen h0 hb
    unfold toGoType; rw [iadd_index h0 hb]
    split
    · intro h; cases h
    · rename_i hchk
      obtain ⟨w, hw, hwl⟩ := word_ok h0 (by omega : index + 32 ≤ (output.length : Int))
      simp only [hw, Res.bind_ok]
      apply Res.bind_ne_panic
      · apply ne_panic_of_ok (goSlice_ok _ _ _) <;> (rw [wordSize_eq]; try rw [hwl]) <;> decide
      · intro a _ h; cases h
  | hash =>
    intro _ index output hlen h0 hb
    unfold toGoType; rw [iadd_index h0 hb]
    split
    · intro h; cases h
    · rename_i hchk
      obtain ⟨w, hw, hwl⟩ := word_ok h0 (by omega : index + 32 ≤ (output.length : Int))
      simp only [hw, Res.bind_ok]
      apply Res.bind_ne_panic
      · apply ne_panic_of_ok (goSlice_ok _ _ _) <;> (rw [wordSize_eq]; try rw [hwl]) <;> decide
      · intro a _
        split <;> (intro h; cases h)
  | string =>
    intro _ index output hlen h0 hb
    unfold toGoType; rw [iadd_index h0 hb]
    split
    · intro h; cases h
    · rename_i hchk
      obtain ⟨hnp, hspec⟩ := lpp_spec h0 (by omega : index + 32 ≤ (output.length : Int)) hlen
      apply Res.bind_ne_panic hnp
      intro ⟨b, l⟩ hbl
      apply Res.bind_ne_panic (dyn_slice_ne_panic hlen (hspec b l hbl))
      intro s _ h; cases h
  | bytes =>
    intro _ index output hlen h0 hb
    unfold toGoType; rw [iadd_index h0 hb]
    split
    · intro h; cases h
    · rename_i hchk
      obtain ⟨hnp, hspec⟩ := lpp_spec h0 (by omega : index + 32 ≤ (output.length : Int)) hlen
      apply Res.bind_ne_panic hnp
      intro ⟨b, l⟩ hbl
      apply Res.bind_ne_panic (dyn_slice_ne_panic hlen (hspec b l hbl))
      intro s _ h; cases h
  | slice e ih =>
    intro hwf index output hlen h0 hb
    unfold toGoType; rw [iadd_index h0 hb]
    split
    · intro h; cases h
    · rename_i hchk
      obtain ⟨hnp, hspec⟩ := lpp_spec h0 (by omega : index + 32 ≤ (output.length : Int)) hlen
      apply Res.bind_ne_panic hnp
      intro ⟨b, l⟩ hbl
      obtain ⟨hb1, hl0, hbl'⟩ := hspec b l hbl
      have hsub : goSliceFrom output b = .ok ((output.drop b.toNat).take ((output.length : Int).toNat - b.toNat)) := by
        unfold goSliceFrom; exact goSlice_ok (by omega) (by omega) (by omega)
      simp only [hsub, Res.bind_ok]
      have hsublen : (((output.drop b.toNat).take ((output.length : Int).toNat - b.toNat)).length : Int) = (output.length : Int) - b := by
        rw [List.length_take, List.length_drop]; omega
      apply forEachUnpack_ne_panic
      · have := hsublen; rw [maxAlloc_eq] at hlen ⊢; omega
      · omega
      · rw [idxBound_eq]; omega
      · rw [wordSize_eq]; omega
      · rw [maxAlloc_eq] at hlen ⊢; omega
      · intro _ hc
        rw [hsublen] at hc
        rw [wordSize_eq, maxAlloc_eq]; rw [maxAlloc_eq] at hlen; omega
      · intro i hi0 hib
        exact ih hwf i _ (by have := hsublen; rw [maxAlloc_eq] at hlen ⊢; omega) hi0 hib
  | array n e ih =>
    intro hwf index output hlen h0 hb
    obtain ⟨he, hn, hsz⟩ := hwf
    unfold toGoType; rw [iadd_index h0 hb]
    split
    · intro h; cases h
    · rename_i hchk
      obtain ⟨w, hw, hwl⟩ := word_ok h0 (by omega : index + 32 ≤ (output.length : Int))
      simp only [hw, Res.bind_ok]
      have hpos := fullSizeNat_pos e he
      have hnle : n ≤ maxAlloc := by
        calc n = 1 * n := by omega
          _ ≤ fullSizeNat e * n := Nat.mul_le_mul_right n hpos
          _ ≤ maxAlloc := hsz
      apply forEachUnpack_ne_panic
      · exact hlen
      · exact h0
      · exact hb
      · rw [fullElemSize_eq e he]; omega
      · exact_mod_cast hnle
      · intro _ _
        rw [fullElemSize_eq e he]
        have : ((fullSizeNat e * n : Nat) : Int) ≤ (maxAlloc : Int) := by exact_mod_cast hsz
        rw [Int.natCast_mul] at this
        rw [Int.mul_comm]; exact this
      · intro i hi0 hib
        exact ih he i output hlen hi0 hib

/-! ## Arguments.UnpackValues / Unpack / UnpackMethod -/

/-- mathematical `getArraySize` of `array n e` -/
def arraySizeNat (n : Nat) : Ty → Nat
  | .array m e' => n * arraySizeNat m e'
  | _ => n

/-- number of head words an argument occupies -/
def argWords : Ty → Nat
  | .array n e => arraySizeNat n e
  | _ => 1

def headWords : List Ty → Nat
  | [] => 0
  | t :: ts => argWords t + headWords ts

/-- bound on the number of head words of an argument list (2^40) -/
def maxHeadWords : Nat := 1099511627776

theorem fullSizeNat_array (n : Nat) (e : Ty) : fullSizeNat (.array n e) = 32 * arraySizeNat n e := by
  induction e generalizing n with
  | array m e' ih =>
    have := ih m
    show fullSizeNat (.array m e') * n = 32 * (n * arraySizeNat m e')
    rw [this, Nat.mul_comm n, Nat.mul_assoc]
  | _ => show 32 * n = 32 * n; rfl

theorem arraySizeNat_pos (n : Nat) (e : Ty) (h : (Ty.array n e).WF) : 0 < arraySizeNat n e := by
  have h1 := fullSizeNat_pos _ h
  rw [fullSizeNat_array] at h1
  omega

theorem arraySizeNat_le (n : Nat) (e : Ty) (h : (Ty.array n e).WF) : arraySizeNat n e ≤ maxAlloc := by
  have h1 := fullSizeNat_le _ h
  rw [fullSizeNat_array] at h1
  omega

theorem arraySize_eq (n : Nat) (e : Ty) (h : (Ty.array n e).WF) : arraySize n e = (arraySizeNat n e : Int) := by
  induction e generalizing n with
  | array m e' ih =>
    have hle := arraySizeNat_le n (.array m e') h
    have hin := ih m h.1
    show imul (n : Int) (arraySize m e') = ((n * arraySizeNat m e' : Nat) : Int)
    rw [hin, imul_eq]
    · simp
    · have : (0 : Int) ≤ (n : Int) * (arraySizeNat m e' : Int) := Int.mul_nonneg (by omega) (by omega)
      unfold i63; omega
    · have h2 : ((n * arraySizeNat m e' : Nat) : Int) ≤ (maxAlloc : Int) := by exact_mod_cast hle
      rw [Int.natCast_mul] at h2
      have := maxAlloc_lt
      omega
  | _ => rfl

theorem unpackValues_ne_panic : ∀ (tys : List Ty), (∀ t ∈ tys, t.WF) → ∀ (index va : Int) (data : Bytes),
    data.length ≤ maxAlloc → 0 ≤ index → 0 ≤ va → index + va + (headWords tys : Int) ≤ (maxHeadWords : Int) →
    unpackValues tys index va data ≠ .panic := by
  intro tys
  induction tys with
  | nil => intro _ _ _ _ _ _ _ _; unfold unpackValues; intro h; cases h
  | cons t ts ih =>
    intro hwf index va data hlen hi hv hb
    have ht : t.WF := hwf t (List.mem_cons_self ..)
    have hts : ∀ t' ∈ ts, t'.WF := fun t' h' => hwf t' (List.mem_cons_of_mem _ h')
    have hM : (maxHeadWords : Int) = 1099511627776 := rfl
    have hhw : (headWords (t :: ts) : Int) = (argWords t : Int) + (headWords ts : Int) := by
      show ((argWords t + headWords ts : Nat) : Int) = _
      simp
    rw [hhw, hM] at hb
    have haw : (0 : Int) ≤ (argWords t : Int) := by omega
    have hhs : (0 : Int) ≤ (headWords ts : Int) := by omega
    have h1 : iadd index va = index + va := by apply iadd_eq <;> (unfold i63; omega)
    have h2 : imul (index + va) wordSize = (index + va) * 32 := by
      rw [wordSize_eq]; apply imul_eq <;> (unfold i63; omega)
    have h3 : iadd index 1 = index + 1 := by apply iadd_eq <;> (unfold i63; omega)
    unfold unpackValues
    simp only [h1, h2, h3]
    apply Res.bind_ne_panic
    · apply toGoType_ne_panic t ht _ _ hlen
      · omega
      · rw [idxBound_eq]; omega
    · intro v _
      apply Res.bind_ne_panic
      · cases t with
        | array n e =>
          have hpos := arraySizeNat_pos n e ht
          have hle := arraySizeNat_le n e ht
          have haw' : (argWords (Ty.array n e) : Int) = (arraySizeNat n e : Int) := rfl
          rw [haw'] at hb
          have e1 : isub (arraySize n e) 1 = (arraySizeNat n e : Int) - 1 := by
            rw [arraySize_eq n e ht]; apply isub_eq <;> (unfold i63; omega)
          have e2 : iadd va ((arraySizeNat n e : Int) - 1) = va + ((arraySizeNat n e : Int) - 1) := by
            apply iadd_eq <;> (unfold i63; omega)
          simp only [e1, e2]
          apply ih hts _ _ _ hlen <;> (try rw [hM]) <;> omega
        | _ =>
          change index + va + (((1 : Nat) : Int) + (headWords ts : Int)) ≤ 1099511627776 at hb
          dsimp only
          apply ih hts _ _ _ hlen <;> (try rw [hM]) <;> omega
      · intro vs _ h; cases h


theorem unpack_ne_panic (tys : List Ty) (hwf : ∀ t ∈ tys, t.WF) (hw : headWords tys ≤ maxHeadWords)
    (data : Bytes) (hlen : data.length ≤ maxAlloc) : unpack tys data ≠ .panic := by
  unfold unpack
  apply Res.bind_ne_panic
  · apply unpackValues_ne_panic tys hwf 0 0 data hlen (by omega) (by omega)
    have : (headWords tys : Int) ≤ (maxHeadWords : Int) := by exact_mod_cast hw
    omega
  · intro vs _
    split <;> (intro h; cases h)

theorem unpackMethod_ne_panic (sel : Bytes) (tys : List Ty) (hwf : ∀ t ∈ tys, t.WF) (hw : headWords tys ≤ maxHeadWords)
    (input : Bytes) (hlen : input.length ≤ maxAlloc) : unpackMethod sel tys input ≠ .panic := by
  unfold unpackMethod
  split
  · intro h; cases h
  · rename_i h4
    have hid : goSlice input 0 4 = .ok ((input.drop (0 : Int).toNat).take ((4 : Int).toNat - (0 : Int).toNat)) :=
      goSlice_ok (by omega) (by omega) (by omega)
    simp only [hid, Res.bind_ok]
    split
    · have hb : goSliceFrom input 4 = .ok ((input.drop (4 : Int).toNat).take ((input.length : Int).toNat - (4 : Int).toNat)) := by
        unfold goSliceFrom; exact goSlice_ok (by omega) (by omega) (by omega)
      simp only [hb, Res.bind_ok]
      apply unpack_ne_panic tys hwf hw
      rw [List.length_take, List.length_drop]
      omega
    · intro h; cases h

theorem unpackEmptyMethod_ne_panic (sel : Bytes) (input : Bytes) : unpackEmptyMethod sel input ≠ .panic := by
  unfold unpackEmptyMethod
  split
  · intro h; cases h
  · split
    · intro h; cases h
    · have hid : goSlice input 0 4 = .ok ((input.drop (0 : Int).toNat).take ((4 : Int).toNat - (0 : Int).toNat)) :=
        goSlice_ok (by omega) (by omega) (by omega)
      simp only [hid, Res.bind_ok]
      split <;> (intro h; cases h)

/-- executable well-formedness check (for `decide` over the generated signature table) -/
def Ty.wfb : Ty → Bool
  | .array n e => e.wfb && decide (0 < n) && decide (fullSizeNat e * n ≤ maxAlloc)
  | .slice e => e.wfb
  | .fixedBytes n => decide (n ≤ 32)
  | _ => true

theorem Ty.wfb_sound : ∀ (t : Ty), t.wfb = true → t.WF := by
  intro t
  induction t with
  | array n e ih =>
    intro h
    simp only [Ty.wfb, Bool.and_eq_true, decide_eq_true_eq] at h
    exact ⟨ih h.1.1, h.1.2, h.2⟩
  | slice e ih => intro h; exact ih h
  | fixedBytes n => intro h; simp only [Ty.wfb, decide_eq_true_eq] at h; exact h
  | _ => intro _; trivial

end ZV.Abi
