import ZenonVerif.Model.Versioned
import ZenonVerif.Lemmas.KvLogic
import ZenonVerif.Lemmas.KvOrder
/-
Change sets (`enableDeleteDB.Changes`): replaying the dump of a view's private top layer, and its independence of
the order in which the writes were made (C07-T3 groundwork; also what makes the changes hash deterministic).
-/
namespace ZV.Kv
open ZV ZV.KvLogic

/-- the operation `Changes` emits for one raw entry -/
def chgOp (k raw : Bytes) : Op :=
  match raw with
  | [] => Op.del k
  | _ :: v => Op.put k v

theorem chgOp_key (k raw : Bytes) : (chgOp k raw).key = k := by
  cases raw <;> rfl

theorem edChanges_cons (k raw : Bytes) (t : Raw) :
    edChanges ((k, raw) :: t) = chgOp k raw :: edChanges t := by
  cases raw <;> rfl

theorem edDecode_some (raw : Bytes) : edDecode (some raw) = decodeRaw raw := by
  cases raw <;> rfl

/-- replaying the change set of a sorted top layer onto any store: keys held by the layer take the layer's decoded
    value (tombstone ⇒ absent), all other keys are untouched -/
theorem applyP_edChanges {top : Raw} (hs : Sorted top) (s : Store) (k : Bytes) :
    applyP s (edChanges top) k = match rget top k with | some raw => decodeRaw raw | none => s k := by
  induction top generalizing s with
  | nil => rfl
  | cons e t ih =>
    obtain ⟨k', raw⟩ := e
    obtain ⟨hlt, ht⟩ := sorted_cons.1 hs
    rw [edChanges_cons]
    have hstep : applyP s (chgOp k' raw :: edChanges t) = applyP (applyOp s (chgOp k' raw)) (edChanges t) := rfl
    rw [hstep, ih ht, rget_cons]
    by_cases hk : k = k'
    · subst hk
      rw [rget_eq_none_of_lt hlt]
      cases raw <;> simp [chgOp, applyOp, decodeRaw]
    · simp only [hk, if_false]
      cases hr : rget t k with
      | some r => rfl
      | none =>
        simp only []
        apply applyOp_other
        rw [chgOp_key]; exact hk

/-- one write through the view, seen through the change set -/
theorem applyP_edChanges_edApplyOp {top : Raw} (hs : Sorted top) (s : Store) (o : Op) :
    applyP s (edChanges (edApplyOp top o)) = applyOp (applyP s (edChanges top)) o := by
  funext k
  rw [applyP_edChanges (hs.edApplyOp o)]
  cases o with
  | put k' v =>
    simp only [edApplyOp, rget_rput, applyOp]
    by_cases hk : k = k'
    · simp [hk, decodeRaw]
    · simp only [hk, if_false]; rw [applyP_edChanges hs]
  | del k' =>
    simp only [edApplyOp, rget_rput, applyOp]
    by_cases hk : k = k'
    · simp [hk, decodeRaw]
    · simp only [hk, if_false]; rw [applyP_edChanges hs]

/-- the change set of a layer that received the writes `p` replays to the same logical effect as `p` itself -/
theorem applyP_edChanges_edApply {top : Raw} (hs : Sorted top) (s : Store) (p : Patch) :
    applyP s (edChanges (edApply top p)) = applyP (applyP s (edChanges top)) p := by
  induction p generalizing top with
  | nil => rfl
  | cons o t ih =>
    have h1 : edApply top (o :: t) = edApply (edApplyOp top o) t := rfl
    have h2 : ∀ s', applyP s' (o :: t) = applyP (applyOp s' o) t := fun _ => rfl
    rw [h1, ih (hs.edApplyOp o), applyP_edChanges_edApplyOp hs, h2]

theorem rput_comm {s : Raw} (hs : Sorted s) (k1 v1 k2 v2 : Bytes) (h : k1 ≠ k2) :
    rput (rput s k1 v1) k2 v2 = rput (rput s k2 v2) k1 v1 := by
  apply sorted_ext ((hs.rput k1 v1).rput k2 v2) ((hs.rput k2 v2).rput k1 v1)
  intro k
  simp only [rget_rput]
  by_cases h1 : k = k1 <;> by_cases h2 : k = k2 <;> simp_all

theorem rput_overwrite {s : Raw} (hs : Sorted s) (k v1 v2 : Bytes) :
    rput (rput s k v1) k v2 = rput s k v2 := by
  apply sorted_ext ((hs.rput k v1).rput k v2) (hs.rput k v2)
  intro x
  simp only [rget_rput]
  by_cases h1 : x = k <;> simp_all

/-- two writes to different keys commute on the raw layer -/
theorem edApplyOp_comm {top : Raw} (hs : Sorted top) (o1 o2 : Op) (h : o1.key ≠ o2.key) :
    edApplyOp (edApplyOp top o1) o2 = edApplyOp (edApplyOp top o2) o1 := by
  cases o1 <;> cases o2 <;> simp only [Op.key] at h <;> exact rput_comm hs _ _ _ _ h

/-- a later write to the same key makes the earlier one invisible on the raw layer -/
theorem edApplyOp_overwrite {top : Raw} (hs : Sorted top) (o1 o2 : Op) (h : o1.key = o2.key) :
    edApplyOp (edApplyOp top o1) o2 = edApplyOp top o2 := by
  cases o1 <;> cases o2 <;> simp only [Op.key] at h <;> subst h <;> exact rput_overwrite hs _ _ _

theorem rscan_nil_prefix (s : Raw) : rscan s [] = s := by
  simp [rscan, isPrefix]

end ZV.Kv
