import ZenonVerif.Model.Proto
/-
Helper lemmas for C15 (request arithmetic of the protocol handler). Core Lean only.
-/
namespace ZV.Proto
open ZV

theorem capHash_le (a : Nat) : capHash a ≤ Gen.MaxHashFetch := by
  unfold capHash; split <;> omega

theorem capHash_le_self (a : Nat) : capHash a ≤ a := by
  unfold capHash; split <;> omega

theorem capHash_of_le {a : Nat} (h : a ≤ Gen.MaxHashFetch) : capHash a = a := by
  unfold capHash; split <;> omega

theorem u64_of_lt {n : Nat} (h : n < two64) : u64 n = n := Nat.mod_eq_of_lt h

theorem u64_lt (n : Nat) : u64 n < two64 := Nat.mod_lt _ (by decide)

theorem sub64_of_le {a b : Nat} (hb : b ≤ a) : sub64 a b = a - b := by
  unfold sub64; simp [hb]

theorem sub64_le (a b : Nat) (ha : a < two64) : sub64 a b ≤ two64 := by
  unfold sub64; split <;> omega

theorem byHeight_some {H h : Nat} (h1 : 1 ≤ h) (h2 : h ≤ H) : byHeight H h = some h := by
  unfold byHeight; simp [h1, h2]

theorem byHeight_eq_some {H h l : Nat} (hl : byHeight H h = some l) : l = h ∧ 1 ≤ h ∧ h ≤ H := by
  unfold byHeight at hl
  split at hl
  · next hc => cases hl; exact ⟨rfl, hc.1, hc.2⟩
  · cases hl

theorem byHeight_eq_none {H h : Nat} (hl : byHeight H h = none) : h = 0 ∨ H < h := by
  unfold byHeight at hl
  split at hl
  · cases hl
  · omega

/-- every height in [frm, frm+n) ⊆ [1, H] is held -/
theorem map_byHeight_range' (H frm n : Nat) (h1 : 1 ≤ frm) (h2 : frm + n ≤ H + 1) :
    (List.range' frm n).map (byHeight H) = (List.range' frm n).map some := by
  apply List.map_congr_left
  intro a ha
  rw [List.mem_range'_1] at ha
  exact byHeight_some (by omega) (by omega)

theorem all_isSome_map_some (l : List Nat) : (l.map some).all Option.isSome = true := by
  induction l with
  | nil => rfl
  | cons a t ih => simpa using ih

theorem filterMap_id_map_some (l : List Nat) : (l.map some).filterMap id = l := by
  induction l with
  | nil => rfl
  | cons a t ih => simp [List.filterMap_cons, ih]

/-- the range computed by `GetMomentumsByHeight(h, false, count)` when nothing wraps -/
theorem lowerRange_eq {h count : Nat} (hh : h + 1 < two64) :
    lowerRange h count = (if h + 1 ≤ count then 1 else h + 1 - count, h + 1) := by
  unfold lowerRange
  rw [u64_of_lt hh]
  split
  · rfl
  · next hn => rw [sub64_of_le (by omega)]

theorem byHash_none (H : Nat) : byHash H none = none := rfl

theorem byHash_some {H h : Nat} (h1 : 1 ≤ h) (h2 : h ≤ H) : byHash H (some h) = some h := by
  unfold byHash; simp [byHeight_some h1 h2]

/-- a hash the node does not hold: no momentums, an empty list of hashes -/
theorem hashesFromHash_none (H amount : Nat) : hashesFromHash H none amount = .ok [] := rfl

/-- `GetBlockHashesFromHash` on a held momentum at height `h`: exactly the heights
    max(1, h+1-count) .. h, ascending. Premises: `h + 1` does not wrap around (the chain has fewer than
    2^64 − 1 momentums) and the count is one `make` accepts (every capped amount is). -/
theorem hashesFromHash_some {H h count : Nat} (h1 : 1 ≤ h) (h2 : h ≤ H) (hH : H + 1 < two64)
    (hc : count ≤ makesliceMax) :
    hashesFromHash H (some h) count =
      .ok (List.range' (if h + 1 ≤ count then 1 else h + 1 - count)
                       (h + 1 - (if h + 1 ≤ count then 1 else h + 1 - count))) := by
  have hh : h + 1 < two64 := by omega
  unfold hashesFromHash
  simp only [byHash_some h1 h2, lowerRange_eq hh]
  generalize hf : (if h + 1 ≤ count then 1 else h + 1 - count) = frm
  have hf1 : 1 ≤ frm := by subst hf; split <;> omega
  have hf2 : frm ≤ h + 1 := by subst hf; split <;> omega
  have hf3 : h + 1 - frm ≤ count := by subst hf; split <;> omega
  unfold momentumsByRange
  have hs : sub64 (h + 1) frm = h + 1 - frm := sub64_of_le hf2
  have hle : ¬ (sub64 (h + 1) frm > makesliceMax) := by rw [hs]; omega
  simp only [hle, if_false]
  rw [map_byHeight_range' H frm (h + 1 - frm) hf1 (by omega)]
  simp

theorem hashesFromHash_some_length {H h count : Nat} {l : List Nat} (h1 : 1 ≤ h) (h2 : h ≤ H)
    (hH : H + 1 < two64) (hc : count ≤ makesliceMax)
    (hl : hashesFromHash H (some h) count = .ok l) : l.length = min h count := by
  rw [hashesFromHash_some h1 h2 hH hc] at hl
  cases hl
  rw [List.length_range']
  split <;> omega

theorem lowerRange_width (h count : Nat) : (lowerRange h count).2 - (lowerRange h count).1 ≤ count := by
  unfold lowerRange
  simp only
  split
  · omega
  · next hn => rw [sub64_of_le (by omega)]; omega

/-- without any premise on H: a reply produced from an amount never has more entries than the amount. -/
theorem hashesFromHash_length_le (H : Nat) (hash : Option Nat) (count : Nat) (l : List Nat)
    (hl : hashesFromHash H hash count = .ok l) : l.length ≤ count := by
  unfold hashesFromHash at hl
  cases hb : byHash H hash with
  | none =>
    simp only [hb] at hl
    cases hl
    exact Nat.zero_le _
  | some h =>
    have hw := lowerRange_width h count
    simp only [hb, momentumsByRange] at hl
    generalize (lowerRange h count).1 = frm at hl hw
    generalize (lowerRange h count).2 = to at hl hw
    by_cases hp : sub64 to frm > makesliceMax
    · simp [hp] at hl
    · simp only [hp, if_false] at hl
      by_cases ha : (List.map (byHeight H) (List.range' frm (to - frm))).all Option.isSome = true
      · simp only [ha, if_true] at hl
        cases hl
        calc (List.filterMap id (List.map (byHeight H) (List.range' frm (to - frm)))).length
            ≤ (List.map (byHeight H) (List.range' frm (to - frm))).length := List.length_filterMap_le _ _
          _ = to - frm := by simp
          _ ≤ count := hw
      · simp [ha] at hl

theorem gatherBlocks_length (l : List (Option Nat)) (acc : List Nat) (h : acc.length < Gen.MaxBlockFetch) :
    (gatherBlocks l acc).1.length ≤ Gen.MaxBlockFetch := by
  induction l generalizing acc with
  | nil => simp [gatherBlocks]; omega
  | cons a t ih =>
    cases a with
    | none => simpa [gatherBlocks] using ih acc h
    | some x =>
      simp only [gatherBlocks]
      split
      · simp; omega
      · next hn =>
        apply ih
        simp at hn ⊢
        omega

theorem currentBlock_some {H : Nat} (h1 : 1 ≤ H) : currentBlock H = some H :=
  byHeight_some h1 (Nat.le_refl _)

/-- whatever the chain and the request: the amount handed to `GetBlockHashesFromHash` is at most the capped
    amount (the recomputation in the `last == nil` branch only ever reduces it) -/
theorem fromNumberLast_amount_le {H n a1 : Nat} {p : Nat × Nat} (hp : fromNumberLast H n a1 = some p) :
    p.2 ≤ a1 := by
  unfold fromNumberLast at hp
  split at hp
  · cases hp; exact Nat.le_refl _
  · split at hp
    · cases hp
    · cases hp
      simp only
      split <;> omega

/-- on a node that holds its genesis momentum `last` is never nil, it is a held momentum, and the amount is
    at most the capped one -/
theorem fromNumberLast_spec (H n a1 : Nat) (h1 : 1 ≤ H) :
    ∃ p, fromNumberLast H n a1 = some p ∧ 1 ≤ p.1 ∧ p.1 ≤ H ∧ p.2 ≤ a1 := by
  cases hp : fromNumberLast H n a1 with
  | none =>
    unfold fromNumberLast at hp
    split at hp
    · cases hp
    · rw [currentBlock_some h1] at hp
      cases hp
  | some p =>
    refine ⟨p, rfl, ?_, ?_, fromNumberLast_amount_le hp⟩
    · unfold fromNumberLast at hp
      split at hp
      · next l hb =>
        cases hp
        have := byHeight_eq_some hb
        simp only
        omega
      · rw [currentBlock_some h1] at hp
        cases hp; exact h1
    · unfold fromNumberLast at hp
      split at hp
      · next l hb =>
        cases hp
        have := byHeight_eq_some hb
        simp only
        omega
      · rw [currentBlock_some h1] at hp
        cases hp; exact Nat.le_refl _

theorem onGetHashes_ne_blocks (H : Nat) (hash : Option Nat) (a : Nat) (l : List Nat) :
    onGetHashes H hash a ≠ .blocks l := by
  unfold onGetHashes; split <;> simp

theorem onGetHashesFromNumber_ne_blocks (H n a : Nat) (l : List Nat) :
    onGetHashesFromNumber H n a ≠ .blocks l := by
  unfold onGetHashesFromNumber
  split
  · simp
  · split
    · simp
    · split <;> simp

theorem onGetBlocks_ne_hashes (H : Nat) (hs : List (Option Nat)) (bad : Bool) (l : List Nat) :
    onGetBlocks H hs bad ≠ .hashes l := by
  unfold onGetBlocks; simp only; split <;> simp

end ZV.Proto
