import ZenonVerif.Model.Contracts
/-
Helper lemmas for C10: association-list storage (lookup / erase / put / total), balances, descendant sends,
and the generic step / run preservation of "owed ≤ balance".
-/
namespace ZV.Contracts

section AList
variable {κ : Type} [DecidableEq κ] {ν : Type}

theorem lookup_erase_self (k : κ) (l : List (κ × ν)) : lookup k (erase k l) = none := by
  induction l with
  | nil => rfl
  | cons e r ih =>
    obtain ⟨k', v⟩ := e
    by_cases h : k' = k
    · simp [erase, h, ih]
    · simp [erase, h, lookup, ih]

theorem lookup_erase_ne {k k' : κ} (h : k' ≠ k) (l : List (κ × ν)) : lookup k' (erase k l) = lookup k' l := by
  induction l with
  | nil => rfl
  | cons e r ih =>
    obtain ⟨k'', v⟩ := e
    by_cases h1 : k'' = k
    · have : k'' ≠ k' := fun e => h (e ▸ h1)
      simp [erase, h1, lookup, ih]
      intro e; exact absurd e.symm h
    · by_cases h2 : k'' = k'
      · subst h2
        simp [erase, h1, lookup]
      · simp [erase, h1, lookup, h2, ih]

theorem lookup_put_self (k : κ) (v : ν) (l : List (κ × ν)) : lookup k (put k v l) = some v := by
  simp [put, lookup]

theorem lookup_put_ne {k k' : κ} (h : k' ≠ k) (v : ν) (l : List (κ × ν)) : lookup k' (put k v l) = lookup k' l := by
  have : k ≠ k' := fun e => h e.symm
  simp [put, lookup, this, lookup_erase_ne h]

theorem total_erase_le (f : ν → Nat) (k : κ) (l : List (κ × ν)) : total f (erase k l) ≤ total f l := by
  induction l with
  | nil => exact Nat.le_refl _
  | cons e r ih =>
    obtain ⟨k', v⟩ := e
    by_cases h : k' = k
    · simp only [erase, h, if_true, total]; omega
    · simp only [erase, h, if_false, total]; omega

/-- deleting a key removes at least the value that `lookup` finds -/
theorem total_erase_add_le (f : ν → Nat) {k : κ} {v : ν} (l : List (κ × ν)) (h : lookup k l = some v) :
    total f (erase k l) + f v ≤ total f l := by
  induction l with
  | nil => simp [lookup] at h
  | cons e r ih =>
    obtain ⟨k', w⟩ := e
    by_cases hk : k' = k
    · simp only [lookup, hk, if_true, Option.some.injEq] at h
      subst h
      have := total_erase_le f k r
      simp only [erase, hk, if_true, total]; omega
    · simp only [lookup, hk, if_false] at h
      have := ih h
      simp only [erase, hk, if_false, total]; omega

theorem total_put_le (f : ν → Nat) (k : κ) (v : ν) (l : List (κ × ν)) : total f (put k v l) ≤ f v + total f l := by
  have := total_erase_le f k l
  simp only [put, total]; omega

/-- overwriting a key: the old value leaves the sum -/
theorem total_put_add_le (f : ν → Nat) {k : κ} {v0 : ν} (v : ν) (l : List (κ × ν)) (h : lookup k l = some v0) :
    total f (put k v l) + f v0 ≤ f v + total f l := by
  have := total_erase_add_le f l h
  simp only [put, total]; omega

/-- keys are pairwise distinct -/
def NodupKeys (l : List (κ × ν)) : Prop := (l.map Prod.fst).Nodup

theorem mem_keys_erase {k k' : κ} {l : List (κ × ν)} (h : k' ∈ (erase k l).map Prod.fst) : k' ∈ l.map Prod.fst ∧ k' ≠ k := by
  induction l with
  | nil => simp [erase] at h
  | cons e r ih =>
    obtain ⟨k'', v⟩ := e
    by_cases h1 : k'' = k
    · simp only [erase, h1, if_true] at h
      have := ih h
      exact ⟨by simp [this.1], this.2⟩
    · simp only [erase, h1, if_false, List.map_cons, List.mem_cons] at h
      rcases h with h | h
      · subst h; exact ⟨by simp, h1⟩
      · have := ih h
        exact ⟨by simp [this.1], this.2⟩

theorem nodupKeys_erase (k : κ) {l : List (κ × ν)} (h : NodupKeys l) : NodupKeys (erase k l) := by
  induction l with
  | nil => exact h
  | cons e r ih =>
    obtain ⟨k', v⟩ := e
    simp only [NodupKeys, List.map_cons, List.nodup_cons] at h
    by_cases h1 : k' = k
    · simp only [erase, h1, if_true]; exact ih h.2
    · simp only [erase, h1, if_false, NodupKeys, List.map_cons, List.nodup_cons]
      exact ⟨fun hm => h.1 (mem_keys_erase hm).1, ih h.2⟩

theorem nodupKeys_put (k : κ) (v : ν) {l : List (κ × ν)} (h : NodupKeys l) : NodupKeys (put k v l) := by
  simp only [put, NodupKeys, List.map_cons, List.nodup_cons]
  exact ⟨fun hm => (mem_keys_erase hm).2 rfl, nodupKeys_erase k h⟩

theorem lookup_none_of_not_mem {k : κ} {l : List (κ × ν)} (h : k ∉ l.map Prod.fst) : lookup k l = none := by
  induction l with
  | nil => rfl
  | cons e r ih =>
    obtain ⟨k', v⟩ := e
    simp only [List.map_cons, List.mem_cons, not_or] at h
    have : k' ≠ k := fun e => h.1 e.symm
    simp [lookup, this, ih h.2]

theorem erase_of_lookup_none {k : κ} {l : List (κ × ν)} (h : lookup k l = none) : erase k l = l := by
  induction l with
  | nil => rfl
  | cons e r ih =>
    obtain ⟨k', v⟩ := e
    by_cases h1 : k' = k
    · simp [lookup, h1] at h
    · simp only [lookup, h1, if_false] at h
      simp [erase, h1, ih h]

/-- with distinct keys, deleting a key removes exactly the value that `lookup` finds -/
theorem total_erase_eq (f : ν → Nat) {k : κ} {v : ν} {l : List (κ × ν)} (hn : NodupKeys l) (h : lookup k l = some v) :
    total f (erase k l) + f v = total f l := by
  induction l with
  | nil => simp [lookup] at h
  | cons e r ih =>
    obtain ⟨k', w⟩ := e
    simp only [NodupKeys, List.map_cons, List.nodup_cons] at hn
    by_cases hk : k' = k
    · simp only [lookup, hk, if_true, Option.some.injEq] at h
      subst h
      have hnone : lookup k r = none := lookup_none_of_not_mem (hk ▸ hn.1)
      simp only [erase, hk, if_true, total, erase_of_lookup_none hnone]; omega
    · simp only [lookup, hk, if_false] at h
      have := ih hn.2 h
      simp only [erase, hk, if_false, total]; omega

end AList

/-! ### balances and descendant sends -/

theorem Bal.get_set_self (b : Bal) (t : Tok) (v : Nat) : (b.set t v).get t = v := by
  simp [Bal.get, Bal.set, lookup_put_self]

theorem Bal.get_set_ne (b : Bal) {t t' : Tok} (h : t' ≠ t) (v : Nat) : (b.set t v).get t' = b.get t' := by
  simp [Bal.get, Bal.set, lookup_put_ne h]

/-- Σ of the amounts of the descendant sends in one token -/
def payTotal (tok : Tok) : List Payout → Nat
  | [] => 0
  | p :: ps => (if p.tok = tok then p.amt else 0) + payTotal tok ps

theorem applyPayout_get {b b' : Bal} {p : Payout} (h : applyPayout b p = some b') {tok : Tok} (ht : tok ≠ zeroTok) :
    b'.get tok + (if p.tok = tok then p.amt else 0) = b.get tok := by
  unfold applyPayout at h
  split at h
  · cases h
  · split at h
    · cases h
    · rename_i h2
      cases h
      by_cases hp : p.tok = tok
      · subst hp
        have : ¬ b.get p.tok < p.amt := fun hlt => h2 ⟨ht, hlt⟩
        simp [Bal.get_set_self]; omega
      · have : tok ≠ p.tok := fun e => hp e.symm
        simp [hp, Bal.get_set_ne _ this]

theorem applyPayouts_get {ps : List Payout} {b b' : Bal} (h : applyPayouts b ps = some b') {tok : Tok} (ht : tok ≠ zeroTok) :
    b'.get tok + payTotal tok ps = b.get tok := by
  induction ps generalizing b with
  | nil => simp [applyPayouts] at h; subst h; simp [payTotal]
  | cons p ps ih =>
    simp only [applyPayouts] at h
    split at h
    · cases h
    · rename_i b1 h1
      have e1 := applyPayout_get h1 ht
      have e2 := ih h
      simp only [payTotal]; omega

/-! ### generic preservation of "owed ≤ balance" -/

/-- the balance law a method has to obey: what it newly owes plus what it pays out is covered by what it owed before
    plus the amount that came with the call -/
def MethodBacked {σ : Type} (owed : σ → Tok → Nat) (m : Method σ) : Prop :=
  ∀ st c st' ps, m st c = some (st', ps) → ∀ tok,
    owed st' tok + payTotal tok ps ≤ owed st tok + (if tok = c.token then c.amount else 0)

/-- every recorded liability in a real token is covered by the contract's balance -/
def Backed {σ : Type} (owed : σ → Tok → Nat) (st : σ) (bal : Bal) : Prop :=
  ∀ tok, tok ≠ zeroTok → owed st tok ≤ bal.get tok

/-- core of the preservation argument: only the balance law of the method at this very state and call is used -/
theorem vmStep_backed_core {σ : Type} {owed : σ → Tok → Nat} {m : Method σ} {st : σ} {bal : Bal} (c : Ctx)
    (hm : ∀ st' ps, m st c = some (st', ps) → ∀ tok,
      owed st' tok + payTotal tok ps ≤ owed st tok + (if tok = c.token then c.amount else 0))
    (h : Backed owed st bal) :
    Backed owed (vmStep m st bal c).st (vmStep m st bal c).bal := by
  intro tok ht
  have hrefund : owed st tok ≤
      (if c.amount > 0 then (bal.set c.token (bal.get c.token + c.amount)).set c.token
          ((bal.set c.token (bal.get c.token + c.amount)).get c.token - c.amount)
        else bal.set c.token (bal.get c.token + c.amount)).get tok := by
    have := h tok ht
    by_cases hc : tok = c.token
    · subst hc
      split <;> simp [Bal.get_set_self] <;> omega
    · split <;> simp [Bal.get_set_ne _ hc] <;> exact this
  unfold vmStep
  cases hmc : m st c with
  | none => simpa using hrefund
  | some r =>
    obtain ⟨st', ps⟩ := r
    simp only
    cases hap : applyPayouts (bal.set c.token (bal.get c.token + c.amount)) ps with
    | none => simpa using hrefund
    | some bal2 =>
      simp only
      have e := applyPayouts_get hap ht
      have hb := hm st' ps hmc tok
      have h0 := h tok ht
      by_cases hc : tok = c.token
      · subst hc
        simp [Bal.get_set_self] at e hb
        omega
      · simp [Bal.get_set_ne _ hc, hc] at e hb
        omega

theorem vmStep_backed {σ : Type} {owed : σ → Tok → Nat} {m : Method σ} (hm : MethodBacked owed m)
    {st : σ} {bal : Bal} (c : Ctx) (h : Backed owed st bal) :
    Backed owed (vmStep m st bal c).st (vmStep m st bal c).bal :=
  vmStep_backed_core c (fun st' ps hmc => hm st c st' ps hmc) h

/-- the storage after a receive is either the method's result or, on refund, the storage before -/
theorem vmStep_st_cases {σ : Type} (m : Method σ) (st : σ) (bal : Bal) (c : Ctx) :
    (vmStep m st bal c).st = st ∨ ∃ ps, m st c = some ((vmStep m st bal c).st, ps) := by
  unfold vmStep
  cases hmc : m st c with
  | none => exact Or.inl rfl
  | some r =>
    obtain ⟨st', ps⟩ := r
    simp only
    cases applyPayouts (bal.set c.token (bal.get c.token + c.amount)) ps with
    | none => exact Or.inl rfl
    | some b2 => exact Or.inr ⟨ps, rfl⟩

/-- like `MethodBacked`, for a method whose balance law needs a state invariant `I` (which it preserves) and a
    side condition `okc` on the call context -/
def MethodBackedI {σ : Type} (I : σ → Prop) (okc : Ctx → Prop) (owed : σ → Tok → Nat) (m : Method σ) : Prop :=
  ∀ st c st' ps, I st → okc c → m st c = some (st', ps) →
    I st' ∧ ∀ tok, owed st' tok + payTotal tok ps ≤ owed st tok + (if tok = c.token then c.amount else 0)

theorem vmStep_backedI {σ : Type} {I : σ → Prop} {okc : Ctx → Prop} {owed : σ → Tok → Nat} {m : Method σ}
    (hm : MethodBackedI I okc owed m) {st : σ} {bal : Bal} (c : Ctx) (hc : okc c) (hI : I st) (h : Backed owed st bal) :
    I (vmStep m st bal c).st ∧ Backed owed (vmStep m st bal c).st (vmStep m st bal c).bal := by
  refine ⟨?_, vmStep_backed_core c (fun st' ps hmc => (hm st c st' ps hI hc hmc).2) h⟩
  rcases vmStep_st_cases m st bal c with e | ⟨ps, e⟩
  · rw [e]; exact hI
  · exact (hm st c _ ps hI hc e).1

/-- a history of calls to one contract: each receive is one `vmStep` -/
def run {σ Op : Type} (meth : Op → Method σ) (s : σ × Bal) : List (Op × Ctx) → σ × Bal
  | [] => s
  | (o, c) :: r => run meth ((vmStep (meth o) s.1 s.2 c).st, (vmStep (meth o) s.1 s.2 c).bal) r

theorem run_backed {σ Op : Type} {owed : σ → Tok → Nat} {meth : Op → Method σ} (hm : ∀ o, MethodBacked owed (meth o))
    (ops : List (Op × Ctx)) (s : σ × Bal) (h : Backed owed s.1 s.2) :
    Backed owed (run meth s ops).1 (run meth s ops).2 := by
  induction ops generalizing s with
  | nil => exact h
  | cons oc r ih =>
    obtain ⟨o, c⟩ := oc
    exact ih _ (vmStep_backed (hm o) c h)

/-! ### plasma -/

theorem plasma_methodBacked (P : Params) (op : PlasmaOp) : MethodBacked plasmaOwed (op.method P) := by
  intro st c st' ps h tok
  cases op with
  | fuse b =>
    simp only [PlasmaOp.method, fuse] at h
    split at h
    · cases h
    · rename_i h1
      split at h
      · cases h
      · simp only [Option.some.injEq, Prod.mk.injEq] at h
        obtain ⟨hs, hp⟩ := h
        subst hs; subst hp
        have ht : c.token = qsrTok := Decidable.byContradiction fun hn => h1 (Or.inl hn)
        simp only [plasmaOwed, payTotal, Plasma.owed, ht]
        split
        · have := total_put_le (fun f : Fusion => f.amount) (c.sender, c.hash) ⟨c.amount, c.height + P.fuseExpiration, b⟩ st.fusions
          simp at this ⊢; omega
        · omega
  | cancelFuse id =>
    simp only [PlasmaOp.method, cancelFuse] at h
    split at h
    · cases h
    · split at h
      · cases h
      · rename_i f hf
        split at h
        · cases h
        · simp only [Option.some.injEq, Prod.mk.injEq] at h
          obtain ⟨hs, hp⟩ := h
          subst hs; subst hp
          have := total_erase_add_le (fun f : Fusion => f.amount) st.fusions hf
          simp only [plasmaOwed, payTotal, Plasma.owed]
          split
          · rename_i hq; subst hq; simp; omega
          · rename_i hq
            have : qsrTok ≠ tok := fun e => hq e.symm
            simp [this]

/-- distinct keys, and per beneficiary the recorded fused total equals the sum of its fusion entries -/
def PlasmaConsistent (s : Plasma) : Prop :=
  NodupKeys s.fusions ∧ ∀ b, s.fusedOf b = s.entriesFor b

theorem fused_covers_entry (s : Plasma) (h : PlasmaConsistent s) {k : Addr × Hash} {f : Fusion}
    (hf : lookup k s.fusions = some f) : f.amount ≤ s.fusedOf f.beneficiary := by
  rw [h.2 f.beneficiary]
  have := total_erase_add_le (fun g : Fusion => if g.beneficiary = f.beneficiary then g.amount else 0) s.fusions hf
  simp only [Plasma.entriesFor]
  simp at this
  omega

theorem plasma_consistent_method (P : Params) (op : PlasmaOp) (s s' : Plasma) (c : Ctx) (ps : List Payout)
    (hfresh : ∀ b, op = .fuse b → lookup (c.sender, c.hash) s.fusions = none)
    (h : PlasmaConsistent s) (hm : op.method P s c = some (s', ps)) : PlasmaConsistent s' := by
  cases op with
  | fuse b =>
    simp only [PlasmaOp.method, fuse] at hm
    split at hm
    · cases hm
    · split at hm
      · cases hm
      · simp only [Option.some.injEq, Prod.mk.injEq] at hm
        obtain ⟨hs, _⟩ := hm
        subst hs
        refine ⟨nodupKeys_put _ _ h.1, fun b' => ?_⟩
        have hnone := hfresh b rfl
        simp only [Plasma.fusedOf, Plasma.entriesFor, put, erase_of_lookup_none hnone, total]
        by_cases hb : b' = b
        · subst hb
          have := h.2 b'
          simp only [Plasma.fusedOf, Plasma.entriesFor] at this
          simp [lookup, this]; omega
        · have hb' : b ≠ b' := fun e => hb e.symm
          have := h.2 b'
          simp only [Plasma.fusedOf, Plasma.entriesFor] at this
          simp [lookup, hb', lookup_erase_ne hb, this]
  | cancelFuse id =>
    simp only [PlasmaOp.method, cancelFuse] at hm
    split at hm
    · cases hm
    · split at hm
      · cases hm
      · rename_i f hf
        split at hm
        · cases hm
        · simp only [Option.some.injEq, Prod.mk.injEq] at hm
          obtain ⟨hs, _⟩ := hm
          subst hs
          have hcov := fused_covers_entry s h hf
          generalize hx : ((s.fusedOf f.beneficiary : Nat) : Int) - (f.amount : Int) = x
          refine ⟨nodupKeys_erase _ h.1, fun b' => ?_⟩
          have heq := fun b'' => total_erase_eq (fun g : Fusion => if g.beneficiary = b'' then g.amount else 0) h.1 hf
          have hfb := h.2 f.beneficiary
          have hself := heq f.beneficiary
          simp only [Plasma.entriesFor] at hfb
          simp only [if_true] at hself
          simp only [Plasma.fusedOf, Plasma.entriesFor]
          by_cases hb : b' = f.beneficiary
          · subst hb
            by_cases hz : x = 0
            · rw [if_pos hz, lookup_erase_self]
              simp; omega
            · rw [if_neg hz, lookup_put_self]
              have hnn : ¬ x < 0 := by omega
              rw [if_neg hnn]
              simp; omega
          · have hother := heq b'
            have hne : ¬ f.beneficiary = b' := fun e => hb e.symm
            simp only [hne, if_false, Nat.add_zero] at hother
            have hb2 := h.2 b'
            simp only [Plasma.fusedOf, Plasma.entriesFor] at hb2
            by_cases hz : x = 0
            · rw [if_pos hz, lookup_erase_ne hb, hb2, hother]
            · rw [if_neg hz, lookup_put_ne hb, hb2, hother]

theorem plasma_consistent_vmStep (P : Params) (op : PlasmaOp) (s : Plasma) (bal : Bal) (c : Ctx)
    (hfresh : ∀ b, op = .fuse b → lookup (c.sender, c.hash) s.fusions = none)
    (h : PlasmaConsistent s) : PlasmaConsistent (vmStep (op.method P) s bal c).st := by
  unfold vmStep
  cases hm : op.method P s c with
  | none => exact h
  | some r =>
    obtain ⟨s', ps⟩ := r
    simp only
    cases applyPayouts (bal.set c.token (bal.get c.token + c.amount)) ps with
    | none => exact h
    | some b2 => exact plasma_consistent_method P op s s' c ps hfresh h hm

/-- every Fuse of the history carries a send-block hash that is not yet a key of its sender's entries -/
def FreshIds (P : Params) : Plasma × Bal → List (PlasmaOp × Ctx) → Prop
  | _, [] => True
  | s, (o, c) :: r =>
    (∀ b, o = .fuse b → lookup (c.sender, c.hash) s.1.fusions = none) ∧
    FreshIds P ((vmStep (o.method P) s.1 s.2 c).st, (vmStep (o.method P) s.1 s.2 c).bal) r

theorem plasma_consistent_run (P : Params) (ops : List (PlasmaOp × Ctx)) (s : Plasma) (bal : Bal)
    (hfresh : FreshIds P (s, bal) ops) (h : PlasmaConsistent s) :
    PlasmaConsistent (run (PlasmaOp.method P) (s, bal) ops).1 := by
  induction ops generalizing s bal with
  | nil => exact h
  | cons oc r ih =>
    obtain ⟨o, c⟩ := oc
    exact ih _ _ hfresh.2 (plasma_consistent_vmStep P o s bal c hfresh.1 h)

/-! ### stake -/

theorem stake_methodBacked (P : Params) (op : StakeOp) : MethodBacked stakeOwed (op.method P) := by
  intro st c st' ps h tok
  cases op with
  | stake d =>
    simp only [StakeOp.method, stake] at h
    split at h
    · cases h
    · rename_i h1
      split at h
      · cases h
      · simp only [Option.some.injEq, Prod.mk.injEq] at h
        obtain ⟨hs, hp⟩ := h
        subst hs; subst hp
        have ht : c.token = znnTok := Decidable.byContradiction fun hn => h1 (Or.inr hn)
        simp only [stakeOwed, payTotal, Stake.owed, ht]
        split
        · have := total_put_le (fun e : StakeE => e.amount) (c.sender, c.hash)
            ⟨c.amount, weightedStake P c.amount d, c.now, 0, c.now + d⟩ st.entries
          simp at this ⊢; omega
        · omega
  | cancel id =>
    simp only [StakeOp.method, cancelStake] at h
    split at h
    · cases h
    · split at h
      · cases h
      · rename_i e he
        split at h
        · cases h
        · simp only [Option.some.injEq, Prod.mk.injEq] at h
          obtain ⟨hs, hp⟩ := h
          subst hs; subst hp
          have := total_put_add_le (fun e : StakeE => e.amount) { e with revoke := c.now, amount := 0 } st.entries he
          simp only [stakeOwed, payTotal, Stake.owed]
          split
          · rename_i hq; subst hq; simp at this ⊢; omega
          · rename_i hq
            have : znnTok ≠ tok := fun e => hq e.symm
            simp [this]

/-! ### htlc -/

theorem htlc_methodBacked (H : HashFn) (op : HtlcOp) : MethodBacked htlcOwed (op.method H) := by
  intro st c st' ps h tok
  cases op with
  | create a ex ty km hl =>
    simp only [HtlcOp.method, createHtlc] at h
    split at h
    · cases h
    · split at h
      · cases h
      · split at h
        · cases h
        · split at h
          · cases h
          · simp only [Option.some.injEq, Prod.mk.injEq] at h
            obtain ⟨hs, hp⟩ := h
            subst hs; subst hp
            have := total_put_le (fun e : HtlcE => if e.tok = tok then e.amount else 0) c.hash
              ⟨c.sender, a, c.token, c.amount, ex, ty, km, hl⟩ st.entries
            simp only [htlcOwed, payTotal]
            by_cases hc : tok = c.token
            · subst hc; simp at this ⊢; omega
            · have hc' : ¬ c.token = tok := fun e => hc e.symm
              simp [hc, hc'] at this ⊢; omega
  | reclaim id =>
    simp only [HtlcOp.method, reclaimHtlc] at h
    split at h
    · cases h
    · split at h
      · cases h
      · rename_i e he
        split at h
        · cases h
        · split at h
          · cases h
          · simp only [Option.some.injEq, Prod.mk.injEq] at h
            obtain ⟨hs, hp⟩ := h
            subst hs; subst hp
            have := total_erase_add_le (fun e : HtlcE => if e.tok = tok then e.amount else 0) st.entries he
            simp only [htlcOwed, payTotal]
            simp at this ⊢; omega
  | unlock id pre =>
    simp only [HtlcOp.method, unlockHtlc] at h
    split at h
    · cases h
    · split at h
      · cases h
      · rename_i e he
        split at h
        · cases h
        · split at h
          · cases h
          · split at h
            · cases h
            · split at h
              · cases h
              · simp only [Option.some.injEq, Prod.mk.injEq] at h
                obtain ⟨hs, hp⟩ := h
                subst hs; subst hp
                have := total_erase_add_le (fun e : HtlcE => if e.tok = tok then e.amount else 0) st.entries he
                simp only [htlcOwed, payTotal]
                simp at this ⊢; omega
  | deny =>
    simp only [HtlcOp.method, setProxyUnlock] at h
    split at h
    · cases h
    · simp only [Option.some.injEq, Prod.mk.injEq] at h
      obtain ⟨hs, hp⟩ := h
      subst hs; subst hp
      simp [htlcOwed, payTotal]
  | allow =>
    simp only [HtlcOp.method, setProxyUnlock] at h
    split at h
    · cases h
    · simp only [Option.some.injEq, Prod.mk.injEq] at h
      obtain ⟨hs, hp⟩ := h
      subst hs; subst hp
      simp [htlcOwed, payTotal]

theorem run_backedI {σ Op : Type} {I : σ → Prop} {okc : Ctx → Prop} {owed : σ → Tok → Nat} {meth : Op → Method σ}
    (hm : ∀ o, MethodBackedI I okc owed (meth o)) (ops : List (Op × Ctx)) (hc : ∀ oc ∈ ops, okc oc.2)
    (s : σ × Bal) (hI : I s.1) (h : Backed owed s.1 s.2) :
    I (run meth s ops).1 ∧ Backed owed (run meth s ops).1 (run meth s ops).2 := by
  induction ops generalizing s with
  | nil => exact ⟨hI, h⟩
  | cons oc r ih =>
    obtain ⟨o, c⟩ := oc
    have hstep := vmStep_backedI (hm o) c (hc (o, c) (by simp)) hI h
    exact ih (fun x hx => hc x (by simp [hx])) _ hstep.1 hstep.2

/-! ### membership -/

section AListMem
variable {κ : Type} [DecidableEq κ] {ν : Type}

theorem mem_of_lookup {k : κ} {v : ν} {l : List (κ × ν)} (h : lookup k l = some v) : (k, v) ∈ l := by
  induction l with
  | nil => simp [lookup] at h
  | cons e r ih =>
    obtain ⟨k', w⟩ := e
    by_cases hk : k' = k
    · simp only [lookup, hk, if_true, Option.some.injEq] at h
      subst h; subst hk; simp
    · simp only [lookup, hk, if_false] at h
      simp [ih h]

theorem mem_erase {x : κ × ν} {k : κ} {l : List (κ × ν)} (h : x ∈ erase k l) : x ∈ l := by
  induction l with
  | nil => simp [erase] at h
  | cons e r ih =>
    obtain ⟨k', w⟩ := e
    by_cases hk : k' = k
    · simp only [erase, hk, if_true] at h
      simp [ih h]
    · simp only [erase, hk, if_false, List.mem_cons] at h
      rcases h with h | h
      · simp [h]
      · simp [ih h]

theorem mem_put {x : κ × ν} {k : κ} {v : ν} {l : List (κ × ν)} (h : x ∈ put k v l) : x = (k, v) ∨ x ∈ l := by
  simp only [put, List.mem_cons] at h
  rcases h with h | h
  · exact Or.inl h
  · exact Or.inr (mem_erase h)

end AListMem

/-! ### QSR deposits -/

theorem depositOf_of_lookup {d : Deposits} {a : Addr} {v : Nat} (h : lookup a d = some v) : depositOf d a = v := by
  simp [depositOf, h]

theorem depositQsr_law {d d' : Deposits} {c : Ctx} (h : depositQsr d c = some d') :
    c.token = qsrTok ∧ depositsTotal d' ≤ depositsTotal d + c.amount := by
  unfold depositQsr at h
  split at h
  · cases h
  · rename_i h1
    simp only [Option.some.injEq] at h
    subst h
    refine ⟨Decidable.byContradiction fun hn => h1 (Or.inl hn), ?_⟩
    simp only [depositsTotal, depositOf]
    cases hl : lookup c.sender d with
    | none =>
      have := total_put_le (id : Nat → Nat) c.sender (0 + c.amount) d
      simp at this ⊢; omega
    | some v =>
      have := total_put_add_le (id : Nat → Nat) (v + c.amount) d hl
      simp at this ⊢; omega

theorem withdrawQsr_law {d d' : Deposits} {c : Ctx} {ps : List Payout} (h : withdrawQsr d c = some (d', ps)) :
    c.amount = 0 ∧ 0 < depositOf d c.sender ∧ ps = [⟨c.sender, qsrTok, depositOf d c.sender, .none⟩] ∧
      d' = erase c.sender d ∧ depositsTotal d' + depositOf d c.sender ≤ depositsTotal d := by
  unfold withdrawQsr at h
  split at h
  · cases h
  · rename_i h1
    split at h
    · cases h
    · rename_i h2
      simp only [Option.some.injEq, Prod.mk.injEq] at h
      obtain ⟨hd, hp⟩ := h
      subst hd
      refine ⟨by omega, by omega, hp.symm, rfl, ?_⟩
      simp only [depositsTotal, depositOf] at h2 ⊢
      cases hl : lookup c.sender d with
      | none => simp [hl] at h2
      | some v =>
        have := total_erase_add_le (id : Nat → Nat) d hl
        simp at this ⊢; omega

theorem consumeQsr_law {d d' : Deposits} {owner : Addr} {required : Nat} (h : consumeQsr d owner required = some d') :
    required ≤ depositOf d owner ∧ depositsTotal d' + required ≤ depositsTotal d := by
  unfold consumeQsr at h
  split at h
  · cases h
  · rename_i h1
    refine ⟨by omega, ?_⟩
    simp only [depositsTotal]
    cases hl : lookup owner d with
    | none =>
      have h0 : depositOf d owner = 0 := by simp [depositOf, hl]
      have hr : required = 0 := by omega
      simp only [h0, hr, Nat.sub_self, if_true, Option.some.injEq] at h
      subst h
      have := total_erase_le (id : Nat → Nat) owner d
      omega
    | some v =>
      have hv : depositOf d owner = v := depositOf_of_lookup hl
      rw [hv] at h h1
      split at h
      · simp only [Option.some.injEq] at h
        subst h
        have := total_erase_add_le (id : Nat → Nat) d hl
        simp at this; omega
      · simp only [Option.some.injEq] at h
        subst h
        have := total_put_add_le (id : Nat → Nat) (v - required) d hl
        simp at this; omega

/-! ### pillar -/

/-- every active pillar is recorded with exactly the collateral that Revoke pays back -/
def PillarInv (P : Params) (s : Pillar) : Prop :=
  ∀ x ∈ s.pillars, x.2.revokeTime = 0 → x.2.amount = P.pillarStakeAmount

theorem pillar_law_of {s s' : Pillar} {c : Ctx} {ps : List Payout}
    (hz : total (·.amount) s'.pillars + payTotal znnTok ps ≤ total (·.amount) s.pillars + (if znnTok = c.token then c.amount else 0))
    (hq : depositsTotal s'.deposits + payTotal qsrTok ps ≤ depositsTotal s.deposits + (if qsrTok = c.token then c.amount else 0))
    (ho : ∀ tok, tok ≠ znnTok → tok ≠ qsrTok → payTotal tok ps = 0) :
    ∀ tok, pillarOwed s' tok + payTotal tok ps ≤ pillarOwed s tok + (if tok = c.token then c.amount else 0) := by
  intro tok
  by_cases h1 : tok = znnTok
  · subst h1; simpa [pillarOwed] using hz
  · by_cases h2 : tok = qsrTok
    · subst h2; simpa [pillarOwed, h1] using hq
    · simp [pillarOwed, h1, h2, ho tok h1 h2]

theorem registerPillar_spec {P : Params} {name : Hash} {producer reward : Addr} {pb pd : Nat} {ok : Bool}
    {s s' : Pillar} {c : Ctx} {ps : List Payout}
    (h : registerPillar P name producer reward pb pd ok s c = some (s', ps)) :
    c.token = znnTok ∧ c.amount = P.pillarStakeAmount ∧ lookup name s.pillars = none ∧
    ∃ d', consumeQsr s.deposits c.sender (pillarQsrCost P s) = some d' ∧
      s' = { s with pillars := put name ⟨c.sender, P.pillarStakeAmount, c.now, 0, producer, reward, ZV.Gen.NormalPillarType, pb, pd⟩ s.pillars,
                    producing := put producer name s.producing, deposits := d' } ∧
      ps = [⟨tokenContract, qsrTok, pillarQsrCost P s, .burn⟩] := by
  unfold registerPillar at h
  split at h
  · cases h
  · split at h
    · cases h
    · split at h
      · cases h
      · rename_i h3
        simp only at h
        split at h
        · cases h
        · rename_i h4
          split at h
          · cases h
          · split at h
            · cases h
            · rename_i d' hd
              simp only [Option.some.injEq, Prod.mk.injEq] at h
              refine ⟨Decidable.byContradiction fun hn => h3 (Or.inl hn), Decidable.byContradiction fun hn => h3 (Or.inr hn), ?_, d', hd, h.1.symm, h.2.symm⟩
              cases hl : lookup name s.pillars with
              | none => rfl
              | some v => simp [hl] at h4

theorem revokePillar_spec {P : Params} {name : Hash} {ok : Bool} {s s' : Pillar} {c : Ctx} {ps : List Payout}
    (h : revokePillar P name ok s c = some (s', ps)) :
    c.amount = 0 ∧ ∃ p, lookup name s.pillars = some p ∧ p.revokeTime = 0 ∧ p.stakeAddr = c.sender ∧
      revocable P.pillarLock P.pillarRevoke p.regTime c.now = true ∧
      s' = { s with pillars := put name { p with revokeTime := c.now, amount := 0 } s.pillars } ∧
      ps = [⟨p.stakeAddr, znnTok, P.pillarStakeAmount, .none⟩] := by
  unfold revokePillar at h
  split at h
  · cases h
  · split at h
    · cases h
    · rename_i ha
      split at h
      · cases h
      · rename_i p hp
        split at h
        · cases h
        · rename_i hr
          split at h
          · cases h
          · rename_i ho
            split at h
            · cases h
            · rename_i hw
              simp only [Option.some.injEq, Prod.mk.injEq] at h
              refine ⟨by omega, p, hp, by omega, Decidable.byContradiction fun hn => ho hn, ?_, h.1.symm, h.2.symm⟩
              cases hv : revocable P.pillarLock P.pillarRevoke p.regTime c.now with
              | true => rfl
              | false => simp [hv] at hw

theorem pillar_methodBackedI (P : Params) (op : PillarOp) :
    MethodBackedI (PillarInv P) (fun c => c.now ≠ 0) pillarOwed (op.method P) := by
  intro st c st' ps hI hc h
  cases op with
  | register name producer reward pb pd ok =>
    obtain ⟨ht, ha, hnone, d', hd, hs, hp⟩ := registerPillar_spec h
    subst hs; subst hp
    have hcons := consumeQsr_law hd
    refine ⟨?_, pillar_law_of ?_ ?_ ?_⟩
    · intro x hx hrev
      rcases mem_put hx with e | e
      · subst e; rfl
      · exact hI x e hrev
    · have := total_put_le (fun e : PillarE => e.amount) name
        ⟨c.sender, P.pillarStakeAmount, c.now, 0, producer, reward, ZV.Gen.NormalPillarType, pb, pd⟩ st.pillars
      simp [payTotal, ht, ha, znnTok, qsrTok] at this ⊢; omega
    · simp [payTotal, ht, znnTok, qsrTok]; omega
    · intro tok h1 h2
      have : qsrTok ≠ tok := fun e => h2 e.symm
      simp [payTotal, this]
  | revoke name ok =>
    obtain ⟨ha, p, hp, hrev, howner, _, hs, hps⟩ := revokePillar_spec h
    subst hs; subst hps
    have hamt : p.amount = P.pillarStakeAmount := hI (name, p) (mem_of_lookup hp) hrev
    refine ⟨?_, pillar_law_of ?_ ?_ ?_⟩
    · intro x hx hr
      rcases mem_put hx with e | e
      · subst e; exact absurd hr hc
      · exact hI x e hr
    · have := total_put_add_le (fun e : PillarE => e.amount) { p with revokeTime := c.now, amount := 0 } st.pillars hp
      simp [payTotal, ha, znnTok] at this ⊢; omega
    · simp [payTotal, znnTok, qsrTok]
    · intro tok h1 h2
      have : znnTok ≠ tok := fun e => h1 e.symm
      simp [payTotal, this]
  | update name producer reward pb pd ok =>
    simp only [PillarOp.method, updatePillar] at h
    split at h
    · cases h
    · split at h
      · cases h
      · split at h
        · cases h
        · rename_i ha
          split at h
          · cases h
          · rename_i p hp
            split at h
            · cases h
            · split at h
              · cases h
              · rename_i hr
                split at h
                · cases h
                · simp only [Option.some.injEq, Prod.mk.injEq] at h
                  obtain ⟨hs, hps⟩ := h
                  subst hs; subst hps
                  refine ⟨?_, pillar_law_of ?_ ?_ ?_⟩
                  · intro x hx hr'
                    rcases mem_put hx with e | e
                    · subst e
                      exact hI (name, p) (mem_of_lookup hp) hr'
                    · exact hI x e hr'
                  · have := total_put_add_le (fun e : PillarE => e.amount)
                      { p with producer := producer, reward := reward, pctBlock := pb, pctDelegate := pd } st.pillars hp
                    simp [payTotal] at this ⊢; omega
                  · simp [payTotal]
                  · intro tok _ _; simp [payTotal]
  | delegate name ok =>
    simp only [PillarOp.method, delegate] at h
    split at h
    · cases h
    · split at h
      · cases h
      · split at h
        · cases h
        · split at h
          · cases h
          · simp only [Option.some.injEq, Prod.mk.injEq] at h
            obtain ⟨hs, hps⟩ := h
            subst hs; subst hps
            exact ⟨hI, pillar_law_of (by simp [payTotal]) (by simp [payTotal]) (by intro tok _ _; simp [payTotal])⟩
  | undelegate =>
    simp only [PillarOp.method, undelegate] at h
    split at h
    · cases h
    · split at h
      · cases h
      · simp only [Option.some.injEq, Prod.mk.injEq] at h
        obtain ⟨hs, hps⟩ := h
        subst hs; subst hps
        exact ⟨hI, pillar_law_of (by simp [payTotal]) (by simp [payTotal]) (by intro tok _ _; simp [payTotal])⟩
  | deposit =>
    simp only [PillarOp.method, pillarDeposit] at h
    split at h
    · cases h
    · rename_i d hd
      simp only [Option.some.injEq, Prod.mk.injEq] at h
      obtain ⟨hs, hps⟩ := h
      subst hs; subst hps
      obtain ⟨ht, hle⟩ := depositQsr_law hd
      refine ⟨hI, pillar_law_of ?_ ?_ ?_⟩
      · simp [payTotal]
      · simp [payTotal, ht]; omega
      · intro tok _ _; simp [payTotal]
  | withdraw =>
    simp only [PillarOp.method, pillarWithdraw] at h
    split at h
    · cases h
    · rename_i d ps' hd
      simp only [Option.some.injEq, Prod.mk.injEq] at h
      obtain ⟨hs, hps⟩ := h
      subst hs; subst hps
      obtain ⟨_, _, hp, _, hle⟩ := withdrawQsr_law hd
      subst hp
      refine ⟨hI, pillar_law_of ?_ ?_ ?_⟩
      · simp [payTotal, znnTok, qsrTok]
      · simp [payTotal]; omega
      · intro tok _ h2
        have : qsrTok ≠ tok := fun e => h2 e.symm
        simp [payTotal, this]

/-! ### sentinel -/

theorem sentinel_law_of {s s' : Sentinel} {c : Ctx} {ps : List Payout}
    (hz : total (·.znn) s'.entries + payTotal znnTok ps ≤ total (·.znn) s.entries + (if znnTok = c.token then c.amount else 0))
    (hq : total (·.qsr) s'.entries + depositsTotal s'.deposits + payTotal qsrTok ps ≤
          total (·.qsr) s.entries + depositsTotal s.deposits + (if qsrTok = c.token then c.amount else 0))
    (ho : ∀ tok, tok ≠ znnTok → tok ≠ qsrTok → payTotal tok ps = 0) :
    ∀ tok, sentinelOwed s' tok + payTotal tok ps ≤ sentinelOwed s tok + (if tok = c.token then c.amount else 0) := by
  intro tok
  by_cases h1 : tok = znnTok
  · subst h1; simpa [sentinelOwed] using hz
  · by_cases h2 : tok = qsrTok
    · subst h2; simpa [sentinelOwed, h1] using hq
    · simp [sentinelOwed, h1, h2, ho tok h1 h2]

theorem registerSentinel_spec {P : Params} {s s' : Sentinel} {c : Ctx} {ps : List Payout}
    (h : registerSentinel P s c = some (s', ps)) :
    c.token = znnTok ∧ c.amount = P.sentinelZnn ∧ lookup c.sender s.entries = none ∧
    ∃ d', consumeQsr s.deposits c.sender P.sentinelQsr = some d' ∧
      s' = { entries := put c.sender ⟨c.now, 0, P.sentinelZnn, P.sentinelQsr⟩ s.entries, deposits := d' } ∧ ps = [] := by
  unfold registerSentinel at h
  split at h
  · cases h
  · rename_i h1
    split at h
    · cases h
    · rename_i h2
      split at h
      · cases h
      · rename_i d' hd
        simp only [Option.some.injEq, Prod.mk.injEq] at h
        refine ⟨Decidable.byContradiction fun hn => h1 (Or.inl hn), Decidable.byContradiction fun hn => h1 (Or.inr hn), ?_, d', hd, h.1.symm, h.2.symm⟩
        cases hl : lookup c.sender s.entries with
        | none => rfl
        | some v => simp [hl] at h2

theorem revokeSentinel_spec {P : Params} {s s' : Sentinel} {c : Ctx} {ps : List Payout}
    (h : revokeSentinel P s c = some (s', ps)) :
    c.amount = 0 ∧ ∃ e, lookup c.sender s.entries = some e ∧ e.revokeTime = 0 ∧
      revocable P.sentinelLock P.sentinelRevoke e.regTime c.now = true ∧
      s' = { s with entries := put c.sender { e with revokeTime := c.now, znn := 0, qsr := 0 } s.entries } ∧
      ps = [⟨c.sender, znnTok, e.znn, .none⟩, ⟨c.sender, qsrTok, e.qsr, .none⟩] := by
  unfold revokeSentinel at h
  split at h
  · cases h
  · rename_i ha
    split at h
    · cases h
    · rename_i e he
      split at h
      · cases h
      · rename_i hr
        split at h
        · cases h
        · rename_i hw
          simp only [Option.some.injEq, Prod.mk.injEq] at h
          refine ⟨by omega, e, he, by omega, ?_, h.1.symm, h.2.symm⟩
          cases hv : revocable P.sentinelLock P.sentinelRevoke e.regTime c.now with
          | true => rfl
          | false => simp [hv] at hw

theorem sentinel_methodBacked (P : Params) (op : SentinelOp) : MethodBacked sentinelOwed (op.method P) := by
  intro st c st' ps h
  cases op with
  | register =>
    obtain ⟨ht, ha, hnone, d', hd, hs, hp⟩ := registerSentinel_spec h
    subst hs; subst hp
    have hcons := consumeQsr_law hd
    refine sentinel_law_of ?_ ?_ ?_
    · have := total_put_le (fun e : SentinelE => e.znn) c.sender ⟨c.now, 0, P.sentinelZnn, P.sentinelQsr⟩ st.entries
      simp [payTotal, ht, ha] at this ⊢; omega
    · have := total_put_le (fun e : SentinelE => e.qsr) c.sender ⟨c.now, 0, P.sentinelZnn, P.sentinelQsr⟩ st.entries
      simp [payTotal, ht, znnTok, qsrTok] at this ⊢; omega
    · intro tok _ _; simp [payTotal]
  | revoke =>
    obtain ⟨ha, e, he, _, _, hs, hp⟩ := revokeSentinel_spec h
    subst hs; subst hp
    refine sentinel_law_of ?_ ?_ ?_
    · have := total_put_add_le (fun e : SentinelE => e.znn) { e with revokeTime := c.now, znn := 0, qsr := 0 } st.entries he
      simp [payTotal, znnTok, qsrTok] at this ⊢; omega
    · have := total_put_add_le (fun e : SentinelE => e.qsr) { e with revokeTime := c.now, znn := 0, qsr := 0 } st.entries he
      simp [payTotal, znnTok, qsrTok] at this ⊢; omega
    · intro tok h1 h2
      have a1 : znnTok ≠ tok := fun e => h1 e.symm
      have a2 : qsrTok ≠ tok := fun e => h2 e.symm
      simp [payTotal, a1, a2]
  | deposit =>
    simp only [SentinelOp.method, sentinelDeposit] at h
    split at h
    · cases h
    · rename_i d hd
      simp only [Option.some.injEq, Prod.mk.injEq] at h
      obtain ⟨hs, hps⟩ := h
      subst hs; subst hps
      obtain ⟨ht, hle⟩ := depositQsr_law hd
      refine sentinel_law_of ?_ ?_ ?_
      · simp [payTotal]
      · simp [payTotal, ht]; omega
      · intro tok _ _; simp [payTotal]
  | withdraw =>
    simp only [SentinelOp.method, sentinelWithdraw] at h
    split at h
    · cases h
    · rename_i d ps' hd
      simp only [Option.some.injEq, Prod.mk.injEq] at h
      obtain ⟨hs, hps⟩ := h
      subst hs; subst hps
      obtain ⟨_, _, hp, _, hle⟩ := withdrawQsr_law hd
      subst hp
      refine sentinel_law_of ?_ ?_ ?_
      · simp [payTotal, znnTok, qsrTok]
      · simp [payTotal]; omega
      · intro tok _ h2
        have : qsrTok ≠ tok := fun e => h2 e.symm
        simp [payTotal, this]

/-! ### liquidity (stake entries) -/

theorem liquidity_methodBacked (P : Params) (op : LiquidityOp) : MethodBacked liquidityOwed (op.method P) := by
  intro st c st' ps h tok
  cases op with
  | stake d =>
    simp only [LiquidityOp.method, liquidityStake] at h
    split at h
    · cases h
    · split at h
      · cases h
      · split at h
        · cases h
        · simp only [Option.some.injEq, Prod.mk.injEq] at h
          obtain ⟨hs, hp⟩ := h
          subst hs; subst hp
          have := total_put_le (fun e : LStakeE => if e.tok = tok then e.amount else 0) (c.sender, c.hash)
            ⟨c.amount, c.token, weightedLiquidityStake P c.amount d, c.now, 0, c.now + d⟩ st.entries
          simp only [liquidityOwed, payTotal]
          by_cases hc : tok = c.token
          · subst hc; simp at this ⊢; omega
          · have hc' : ¬ c.token = tok := fun e => hc e.symm
            simp [hc, hc'] at this ⊢; omega
  | cancel id =>
    simp only [LiquidityOp.method, cancelLiquidityStake] at h
    split at h
    · cases h
    · split at h
      · cases h
      · rename_i e he
        split at h
        · cases h
        · simp only [Option.some.injEq, Prod.mk.injEq] at h
          obtain ⟨hs, hp⟩ := h
          subst hs; subst hp
          have := total_put_add_le (fun e : LStakeE => if e.tok = tok then e.amount else 0)
            { e with revoke := c.now, amount := 0 } st.entries he
          simp only [liquidityOwed, payTotal]
          simp at this ⊢; omega

end ZV.Contracts
