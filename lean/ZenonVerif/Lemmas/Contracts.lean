import ZenonVerif.Model.Contracts
/-
Helper lemmas for C10: association-list storage (lookup / erase / put / total), balances, descendant sends,
and the generic step / run preservation of "owed ≤ balance".
-/
namespace ZV.Contracts

section AList
variable {κ : Type} [DecidableEq κ] {ν : Type}

theorem lookup_erase_self (k : κ) (l : List (κ × ν)) : lookup k (erase k l) = none := by
  induction l with
  | nil => rfl
  | cons e r ih =>
    obtain ⟨k', v⟩ := e
    by_cases h : k' = k
    · simp [erase, h, ih]
    · simp [erase, h, lookup, ih]

theorem lookup_erase_ne {k k' : κ} (h : k' ≠ k) (l : List (κ × ν)) : lookup k' (erase k l) = lookup k' l := by
  induction l with
  | nil => rfl
  | cons e r ih =>
    obtain ⟨k'', v⟩ := e
    by_cases h1 : k'' = k
    · have : k'' ≠ k' := fun e => h (e ▸ h1)
      simp [erase, h1, lookup, ih]
      intro e; exact absurd e.symm h
    · by_cases h2 : k'' = k'
      · subst h2
        simp [erase, h1, lookup]
      · simp [erase, h1, lookup, h2, ih]

theorem lookup_put_self (k : κ) (v : ν) (l : List (κ × ν)) : lookup k (put k v l) = some v := by
  simp [put, lookup]

theorem lookup_put_ne {k k' : κ} (h : k' ≠ k) (v : ν) (l : List (κ × ν)) : lookup k' (put k v l) = lookup k' l := by
  have : k ≠ k' := fun e => h e.symm
  simp [put, lookup, this, lookup_erase_ne h]

theorem total_erase_le (f : ν → Nat) (k : κ) (l : List (κ × ν)) : total f (erase k l) ≤ total f l := by
  induction l with
  | nil => exact Nat.le_refl _
  | cons e r ih =>
    obtain ⟨k', v⟩ := e
    by_cases h : k' = k
    · simp only [erase, h, if_true, total]; omega
    · simp only [erase, h, if_false, total]; omega

/-- deleting a key removes at least the value that `lookup` finds -/
theorem total_erase_add_le (f : ν → Nat) {k : κ} {v : ν} (l : List (κ × ν)) (h : lookup k l = some v) :
    total f (erase k l) + f v ≤ total f l := by
  induction l with
  | nil => simp [lookup] at h
  | cons e r ih =>
    obtain ⟨k', w⟩ := e
    by_cases hk : k' = k
    · simp only [lookup, hk, if_true, Option.some.injEq] at h
      subst h
      have := total_erase_le f k r
      simp only [erase, hk, if_true, total]; omega
    · simp only [lookup, hk, if_false] at h
      have := ih h
      simp only [erase, hk, if_false, total]; omega

theorem total_put_le (f : ν → Nat) (k : κ) (v : ν) (l : List (κ × ν)) : total f (put k v l) ≤ f v + total f l := by
  have := total_erase_le f k l
  simp only [put, total]; omega

/-- overwriting a key: the old value leaves the sum -/
theorem total_put_add_le (f : ν → Nat) {k : κ} {v0 : ν} (v : ν) (l : List (κ × ν)) (h : lookup k l = some v0) :
    total f (put k v l) + f v0 ≤ f v + total f l := by
  have := total_erase_add_le f l h
  simp only [put, total]; omega

/-- keys are pairwise distinct -/
def NodupKeys (l : List (κ × ν)) : Prop := (l.map Prod.fst).Nodup

theorem mem_keys_erase {k k' : κ} {l : List (κ × ν)} (h : k' ∈ (erase k l).map Prod.fst) : k' ∈ l.map Prod.fst ∧ k' ≠ k := by
  induction l with
  | nil => simp [erase] at h
  | cons e r ih =>
    obtain ⟨k'', v⟩ := e
    by_cases h1 : k'' = k
    · simp only [erase, h1, if_true] at h
      have := ih h
      exact ⟨by simp [this.1], this.2⟩
    · simp only [erase, h1, if_false, List.map_cons, List.mem_cons] at h
      rcases h with h | h
      · subst h; exact ⟨by simp, h1⟩
      · have := ih h
        exact ⟨by simp [this.1], this.2⟩

theorem nodupKeys_erase (k : κ) {l : List (κ × ν)} (h : NodupKeys l) : NodupKeys (erase k l) := by
  induction l with
  | nil => exact h
  | cons e r ih =>
    obtain ⟨k', v⟩ := e
    simp only [NodupKeys, List.map_cons, List.nodup_cons] at h
    by_cases h1 : k' = k
    · simp only [erase, h1, if_true]; exact ih h.2
    · simp only [erase, h1, if_false, NodupKeys, List.map_cons, List.nodup_cons]
      exact ⟨fun hm => h.1 (mem_keys_erase hm).1, ih h.2⟩

theorem nodupKeys_put (k : κ) (v : ν) {l : List (κ × ν)} (h : NodupKeys l) : NodupKeys (put k v l) := by
  simp only [put, NodupKeys, List.map_cons, List.nodup_cons]
  exact ⟨fun hm => (mem_keys_erase hm).2 rfl, nodupKeys_erase k h⟩

theorem lookup_none_of_not_mem {k : κ} {l : List (κ × ν)} (h : k ∉ l.map Prod.fst) : lookup k l = none := by
  induction l with
  | nil => rfl
  | cons e r ih =>
    obtain ⟨k', v⟩ := e
    simp only [List.map_cons, List.mem_cons, not_or] at h
    have : k' ≠ k := fun e => h.1 e.symm
    simp [lookup, this, ih h.2]

theorem erase_of_lookup_none {k : κ} {l : List (κ × ν)} (h : lookup k l = none) : erase k l = l := by
  induction l with
  | nil => rfl
  | cons e r ih =>
    obtain ⟨k', v⟩ := e
    by_cases h1 : k' = k
    · simp [lookup, h1] at h
    · simp only [lookup, h1, if_false] at h
      simp [erase, h1, ih h]

/-- with distinct keys, deleting a key removes exactly the value that `lookup` finds -/
theorem total_erase_eq (f : ν → Nat) {k : κ} {v : ν} {l : List (κ × ν)} (hn : NodupKeys l) (h : lookup k l = some v) :
    total f (erase k l) + f v = total f l := by
  induction l with
  | nil => simp [lookup] at h
  | cons e r ih =>
    obtain ⟨k', w⟩ := e
    simp only [NodupKeys, List.map_cons, List.nodup_cons] at hn
    by_cases hk : k' = k
    · simp only [lookup, hk, if_true, Option.some.injEq] at h
      subst h
      have hnone : lookup k r = none := lookup_none_of_not_mem (hk ▸ hn.1)
      simp only [erase, hk, if_true, total, erase_of_lookup_none hnone]; omega
    · simp only [lookup, hk, if_false] at h
      have := ih hn.2 h
      simp only [erase, hk, if_false, total]; omega

end AList

/-! ### balances and descendant sends -/

theorem Bal.get_set_self (b : Bal) (t : Tok) (v : Nat) : (b.set t v).get t = v := by
  simp [Bal.get, Bal.set, lookup_put_self]

theorem Bal.get_set_ne (b : Bal) {t t' : Tok} (h : t' ≠ t) (v : Nat) : (b.set t v).get t' = b.get t' := by
  simp [Bal.get, Bal.set, lookup_put_ne h]

/-- Σ of the amounts of the descendant sends in one token -/
def payTotal (tok : Tok) : List Payout → Nat
  | [] => 0
  | p :: ps => (if p.tok = tok then p.amt else 0) + payTotal tok ps

theorem applyPayout_get {b b' : Bal} {p : Payout} (h : applyPayout b p = some b') {tok : Tok} (ht : tok ≠ zeroTok) :
    b'.get tok + (if p.tok = tok then p.amt else 0) = b.get tok := by
  unfold applyPayout at h
  split at h
  · cases h
  · split at h
    · cases h
    · rename_i h2
      cases h
      by_cases hp : p.tok = tok
      · subst hp
        have : ¬ b.get p.tok < p.amt := fun hlt => h2 ⟨ht, hlt⟩
        simp [Bal.get_set_self]; omega
      · have : tok ≠ p.tok := fun e => hp e.symm
        simp [hp, Bal.get_set_ne _ this]

theorem applyPayouts_get {ps : List Payout} {b b' : Bal} (h : applyPayouts b ps = some b') {tok : Tok} (ht : tok ≠ zeroTok) :
    b'.get tok + payTotal tok ps = b.get tok := by
  induction ps generalizing b with
  | nil => simp [applyPayouts] at h; subst h; simp [payTotal]
  | cons p ps ih =>
    simp only [applyPayouts] at h
    split at h
    · cases h
    · rename_i b1 h1
      have e1 := applyPayout_get h1 ht
      have e2 := ih h
      simp only [payTotal]; omega

/-! ### generic preservation of "owed ≤ balance" -/

/-- the balance law a method has to obey: what it newly owes plus what it pays out is covered by what it owed before
    plus the amount that came with the call -/
def MethodBacked {σ : Type} (owed : σ → Tok → Nat) (m : Method σ) : Prop :=
  ∀ st c st' ps, m st c = some (st', ps) → ∀ tok,
    owed st' tok + payTotal tok ps ≤ owed st tok + (if tok = c.token then c.amount else 0)

/-- every recorded liability in a real token is covered by the contract's balance -/
def Backed {σ : Type} (owed : σ → Tok → Nat) (st : σ) (bal : Bal) : Prop :=
  ∀ tok, tok ≠ zeroTok → owed st tok ≤ bal.get tok

theorem vmStep_backed {σ : Type} {owed : σ → Tok → Nat} {m : Method σ} (hm : MethodBacked owed m)
    {st : σ} {bal : Bal} (c : Ctx) (h : Backed owed st bal) :
    Backed owed (vmStep m st bal c).st (vmStep m st bal c).bal := by
  intro tok ht
  have hrefund : owed st tok ≤
      (if c.amount > 0 then (bal.set c.token (bal.get c.token + c.amount)).set c.token
          ((bal.set c.token (bal.get c.token + c.amount)).get c.token - c.amount)
        else bal.set c.token (bal.get c.token + c.amount)).get tok := by
    have := h tok ht
    by_cases hc : tok = c.token
    · subst hc
      split <;> simp [Bal.get_set_self] <;> omega
    · split <;> simp [Bal.get_set_ne _ hc] <;> exact this
  unfold vmStep
  cases hmc : m st c with
  | none => simpa using hrefund
  | some r =>
    obtain ⟨st', ps⟩ := r
    simp only
    cases hap : applyPayouts (bal.set c.token (bal.get c.token + c.amount)) ps with
    | none => simpa using hrefund
    | some bal2 =>
      simp only
      have e := applyPayouts_get hap ht
      have hb := hm st c st' ps hmc tok
      have h0 := h tok ht
      by_cases hc : tok = c.token
      · subst hc
        simp [Bal.get_set_self] at e hb
        omega
      · simp [Bal.get_set_ne _ hc, hc] at e hb
        omega

/-- a history of calls to one contract: each receive is one `vmStep` -/
def run {σ Op : Type} (meth : Op → Method σ) (s : σ × Bal) : List (Op × Ctx) → σ × Bal
  | [] => s
  | (o, c) :: r => run meth ((vmStep (meth o) s.1 s.2 c).st, (vmStep (meth o) s.1 s.2 c).bal) r

theorem run_backed {σ Op : Type} {owed : σ → Tok → Nat} {meth : Op → Method σ} (hm : ∀ o, MethodBacked owed (meth o))
    (ops : List (Op × Ctx)) (s : σ × Bal) (h : Backed owed s.1 s.2) :
    Backed owed (run meth s ops).1 (run meth s ops).2 := by
  induction ops generalizing s with
  | nil => exact h
  | cons oc r ih =>
    obtain ⟨o, c⟩ := oc
    exact ih _ (vmStep_backed (hm o) c h)

/-! ### plasma -/

theorem plasma_methodBacked (P : Params) (op : PlasmaOp) : MethodBacked plasmaOwed (op.method P) := by
  intro st c st' ps h tok
  cases op with
  | fuse b =>
    simp only [PlasmaOp.method, fuse] at h
    split at h
    · cases h
    · rename_i h1
      split at h
      · cases h
      · simp only [Option.some.injEq, Prod.mk.injEq] at h
        obtain ⟨hs, hp⟩ := h
        subst hs; subst hp
        have ht : c.token = qsrTok := Decidable.byContradiction fun hn => h1 (Or.inl hn)
        simp only [plasmaOwed, payTotal, Plasma.owed, ht]
        split
        · have := total_put_le (fun f : Fusion => f.amount) (c.sender, c.hash) ⟨c.amount, c.height + P.fuseExpiration, b⟩ st.fusions
          simp at this ⊢; omega
        · omega
  | cancelFuse id =>
    simp only [PlasmaOp.method, cancelFuse] at h
    split at h
    · cases h
    · split at h
      · cases h
      · rename_i f hf
        split at h
        · cases h
        · simp only [Option.some.injEq, Prod.mk.injEq] at h
          obtain ⟨hs, hp⟩ := h
          subst hs; subst hp
          have := total_erase_add_le (fun f : Fusion => f.amount) st.fusions hf
          simp only [plasmaOwed, payTotal, Plasma.owed]
          split
          · rename_i hq; subst hq; simp; omega
          · rename_i hq
            have : qsrTok ≠ tok := fun e => hq e.symm
            simp [this]

/-- distinct keys, and per beneficiary the recorded fused total equals the sum of its fusion entries -/
def PlasmaConsistent (s : Plasma) : Prop :=
  NodupKeys s.fusions ∧ ∀ b, s.fusedOf b = s.entriesFor b

theorem fused_covers_entry (s : Plasma) (h : PlasmaConsistent s) {k : Addr × Hash} {f : Fusion}
    (hf : lookup k s.fusions = some f) : f.amount ≤ s.fusedOf f.beneficiary := by
  rw [h.2 f.beneficiary]
  have := total_erase_add_le (fun g : Fusion => if g.beneficiary = f.beneficiary then g.amount else 0) s.fusions hf
  simp only [Plasma.entriesFor]
  simp at this
  omega

theorem plasma_consistent_method (P : Params) (op : PlasmaOp) (s s' : Plasma) (c : Ctx) (ps : List Payout)
    (hfresh : ∀ b, op = .fuse b → lookup (c.sender, c.hash) s.fusions = none)
    (h : PlasmaConsistent s) (hm : op.method P s c = some (s', ps)) : PlasmaConsistent s' := by
  cases op with
  | fuse b =>
    simp only [PlasmaOp.method, fuse] at hm
    split at hm
    · cases hm
    · split at hm
      · cases hm
      · simp only [Option.some.injEq, Prod.mk.injEq] at hm
        obtain ⟨hs, _⟩ := hm
        subst hs
        refine ⟨nodupKeys_put _ _ h.1, fun b' => ?_⟩
        have hnone := hfresh b rfl
        simp only [Plasma.fusedOf, Plasma.entriesFor, put, erase_of_lookup_none hnone, total]
        by_cases hb : b' = b
        · subst hb
          have := h.2 b'
          simp only [Plasma.fusedOf, Plasma.entriesFor] at this
          simp [lookup, this]; omega
        · have hb' : b ≠ b' := fun e => hb e.symm
          have := h.2 b'
          simp only [Plasma.fusedOf, Plasma.entriesFor] at this
          simp [lookup, hb', lookup_erase_ne hb, this]
  | cancelFuse id =>
    simp only [PlasmaOp.method, cancelFuse] at hm
    split at hm
    · cases hm
    · split at hm
      · cases hm
      · rename_i f hf
        split at hm
        · cases hm
        · simp only [Option.some.injEq, Prod.mk.injEq] at hm
          obtain ⟨hs, _⟩ := hm
          subst hs
          have hcov := fused_covers_entry s h hf
          generalize hx : ((s.fusedOf f.beneficiary : Nat) : Int) - (f.amount : Int) = x
          refine ⟨nodupKeys_erase _ h.1, fun b' => ?_⟩
          have heq := fun b'' => total_erase_eq (fun g : Fusion => if g.beneficiary = b'' then g.amount else 0) h.1 hf
          have hfb := h.2 f.beneficiary
          have hself := heq f.beneficiary
          simp only [Plasma.entriesFor] at hfb
          simp only [if_true] at hself
          simp only [Plasma.fusedOf, Plasma.entriesFor]
          by_cases hb : b' = f.beneficiary
          · subst hb
            by_cases hz : x = 0
            · rw [if_pos hz, lookup_erase_self]
              simp; omega
            · rw [if_neg hz, lookup_put_self]
              have hnn : ¬ x < 0 := by omega
              rw [if_neg hnn]
              simp; omega
          · have hother := heq b'
            have hne : ¬ f.beneficiary = b' := fun e => hb e.symm
            simp only [hne, if_false, Nat.add_zero] at hother
            have hb2 := h.2 b'
            simp only [Plasma.fusedOf, Plasma.entriesFor] at hb2
            by_cases hz : x = 0
            · rw [if_pos hz, lookup_erase_ne hb, hb2, hother]
            · rw [if_neg hz, lookup_put_ne hb, hb2, hother]

theorem plasma_consistent_vmStep (P : Params) (op : PlasmaOp) (s : Plasma) (bal : Bal) (c : Ctx)
    (hfresh : ∀ b, op = .fuse b → lookup (c.sender, c.hash) s.fusions = none)
    (h : PlasmaConsistent s) : PlasmaConsistent (vmStep (op.method P) s bal c).st := by
  unfold vmStep
  cases hm : op.method P s c with
  | none => exact h
  | some r =>
    obtain ⟨s', ps⟩ := r
    simp only
    cases applyPayouts (bal.set c.token (bal.get c.token + c.amount)) ps with
    | none => exact h
    | some b2 => exact plasma_consistent_method P op s s' c ps hfresh h hm

/-- every Fuse of the history carries a send-block hash that is not yet a key of its sender's entries -/
def FreshIds (P : Params) : Plasma × Bal → List (PlasmaOp × Ctx) → Prop
  | _, [] => True
  | s, (o, c) :: r =>
    (∀ b, o = .fuse b → lookup (c.sender, c.hash) s.1.fusions = none) ∧
    FreshIds P ((vmStep (o.method P) s.1 s.2 c).st, (vmStep (o.method P) s.1 s.2 c).bal) r

theorem plasma_consistent_run (P : Params) (ops : List (PlasmaOp × Ctx)) (s : Plasma) (bal : Bal)
    (hfresh : FreshIds P (s, bal) ops) (h : PlasmaConsistent s) :
    PlasmaConsistent (run (PlasmaOp.method P) (s, bal) ops).1 := by
  induction ops generalizing s bal with
  | nil => exact h
  | cons oc r ih =>
    obtain ⟨o, c⟩ := oc
    exact ih _ _ hfresh.2 (plasma_consistent_vmStep P o s bal c hfresh.1 h)

/-! ### stake -/

theorem stake_methodBacked (P : Params) (op : StakeOp) : MethodBacked stakeOwed (op.method P) := by
  intro st c st' ps h tok
  cases op with
  | stake d =>
    simp only [StakeOp.method, stake] at h
    split at h
    · cases h
    · rename_i h1
      split at h
      · cases h
      · simp only [Option.some.injEq, Prod.mk.injEq] at h
        obtain ⟨hs, hp⟩ := h
        subst hs; subst hp
        have ht : c.token = znnTok := Decidable.byContradiction fun hn => h1 (Or.inr hn)
        simp only [stakeOwed, payTotal, Stake.owed, ht]
        split
        · have := total_put_le (fun e : StakeE => e.amount) (c.sender, c.hash)
            ⟨c.amount, weightedStake P c.amount d, c.now, 0, c.now + d⟩ st.entries
          simp at this ⊢; omega
        · omega
  | cancel id =>
    simp only [StakeOp.method, cancelStake] at h
    split at h
    · cases h
    · split at h
      · cases h
      · rename_i e he
        split at h
        · cases h
        · simp only [Option.some.injEq, Prod.mk.injEq] at h
          obtain ⟨hs, hp⟩ := h
          subst hs; subst hp
          have := total_put_add_le (fun e : StakeE => e.amount) { e with revoke := c.now, amount := 0 } st.entries he
          simp only [stakeOwed, payTotal, Stake.owed]
          split
          · rename_i hq; subst hq; simp at this ⊢; omega
          · rename_i hq
            have : znnTok ≠ tok := fun e => hq e.symm
            simp [this]

/-! ### htlc -/

theorem htlc_methodBacked (H : HashFn) (op : HtlcOp) : MethodBacked htlcOwed (op.method H) := by
  intro st c st' ps h tok
  cases op with
  | create a ex ty km hl =>
    simp only [HtlcOp.method, createHtlc] at h
    split at h
    · cases h
    · split at h
      · cases h
      · split at h
        · cases h
        · split at h
          · cases h
          · simp only [Option.some.injEq, Prod.mk.injEq] at h
            obtain ⟨hs, hp⟩ := h
            subst hs; subst hp
            have := total_put_le (fun e : HtlcE => if e.tok = tok then e.amount else 0) c.hash
              ⟨c.sender, a, c.token, c.amount, ex, ty, km, hl⟩ st.entries
            simp only [htlcOwed, payTotal]
            by_cases hc : tok = c.token
            · subst hc; simp at this ⊢; omega
            · have hc' : ¬ c.token = tok := fun e => hc e.symm
              simp [hc, hc'] at this ⊢; omega
  | reclaim id =>
    simp only [HtlcOp.method, reclaimHtlc] at h
    split at h
    · cases h
    · split at h
      · cases h
      · rename_i e he
        split at h
        · cases h
        · split at h
          · cases h
          · simp only [Option.some.injEq, Prod.mk.injEq] at h
            obtain ⟨hs, hp⟩ := h
            subst hs; subst hp
            have := total_erase_add_le (fun e : HtlcE => if e.tok = tok then e.amount else 0) st.entries he
            simp only [htlcOwed, payTotal]
            simp at this ⊢; omega
  | unlock id pre =>
    simp only [HtlcOp.method, unlockHtlc] at h
    split at h
    · cases h
    · split at h
      · cases h
      · rename_i e he
        split at h
        · cases h
        · split at h
          · cases h
          · split at h
            · cases h
            · split at h
              · cases h
              · simp only [Option.some.injEq, Prod.mk.injEq] at h
                obtain ⟨hs, hp⟩ := h
                subst hs; subst hp
                have := total_erase_add_le (fun e : HtlcE => if e.tok = tok then e.amount else 0) st.entries he
                simp only [htlcOwed, payTotal]
                simp at this ⊢; omega
  | deny =>
    simp only [HtlcOp.method, setProxyUnlock] at h
    split at h
    · cases h
    · simp only [Option.some.injEq, Prod.mk.injEq] at h
      obtain ⟨hs, hp⟩ := h
      subst hs; subst hp
      simp [htlcOwed, payTotal]
  | allow =>
    simp only [HtlcOp.method, setProxyUnlock] at h
    split at h
    · cases h
    · simp only [Option.some.injEq, Prod.mk.injEq] at h
      obtain ⟨hs, hp⟩ := h
      subst hs; subst hp
      simp [htlcOwed, payTotal]

end ZV.Contracts
