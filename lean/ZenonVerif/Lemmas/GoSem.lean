import ZenonVerif.Model.GoSem
import ZenonVerif.Model.Num
import ZenonVerif.Model.Rewards
import ZenonVerif.Model.Consensus
import ZenonVerif.Model.Pool
/-
Lemmas about the Go semantics module (Model/GoSem.lean) used by Props/Translated.lean. Core only.
-/
namespace ZV.Go
open ZV

theorem mul32_lt (a b : Nat) (ha : a < 2 ^ 32) (hb : b < 2 ^ 32) : a * b < 2 ^ 64 - 2 ^ 33 + 2 := by
  have h1 : a * b ≤ (2 ^ 32 - 1) * (2 ^ 32 - 1) := Nat.mul_le_mul (by omega) (by omega)
  omega

theorem bytesCompareInt_spec (a b : List Nat) : (bytesCompareInt a b = -1 ↔ bytesLt a b = true) ∧
    (bytesCompareInt a b = -1 ∨ bytesCompareInt a b = 0 ∨ bytesCompareInt a b = 1) := by
  induction a generalizing b with
  | nil => cases b <;> simp [bytesCompareInt, bytesLt]
  | cons x xs ih =>
    cases b with
    | nil => simp [bytesCompareInt, bytesLt]
    | cons y ys =>
      simp only [bytesCompareInt, bytesLt]
      split
      · simp
      · split
        · simp
        · exact ih ys

/-- `bytes.Compare(a, b) > -1` is `¬ a < b` -/
theorem bytesCompare_gt_m1 (a b : List Nat) :
    (BitVec.toInt (bytesCompare a b) > BitVec.toInt 18446744073709551615#64) ↔ bytesLt a b = false := by
  have h := bytesCompareInt_spec a b
  unfold bytesCompare
  rcases h.2 with h1 | h1 | h1
  · have : bytesLt a b = true := h.1.1 h1
    rw [h1, this]; decide
  · have : bytesLt a b ≠ true := fun hh => by have := h.1.2 hh; omega
    rw [h1]; simp at this; rw [this]; decide
  · have : bytesLt a b ≠ true := fun hh => by have := h.1.2 hh; omega
    rw [h1]; simp at this; rw [this]; decide

theorem bigCmp_toInt (x y : Int) : (bigCmp x y).toInt = if x < y then -1 else if x = y then 0 else 1 := by
  unfold bigCmp
  split
  · decide
  · split <;> decide

theorem bigCmp_ge0 (x y : Int) : (BitVec.toInt (bigCmp x y) ≥ BitVec.toInt 0#64) ↔ y ≤ x := by
  rw [bigCmp_toInt]; have : BitVec.toInt 0#64 = 0 := by decide
  rw [this]; (repeat' split) <;> omega

theorem bigSign_le0 (x : Int) : (BitVec.toInt (bigSign x) ≤ BitVec.toInt 0#64) ↔ x ≤ 0 := by
  unfold bigSign; rw [bigCmp_toInt]; have : BitVec.toInt 0#64 = 0 := by decide
  rw [this]; (repeat' split) <;> omega

theorem le8_eq (v : BitVec 64) : le8 v = leBytes 8 v.toNat := by
  simp [le8, leBytes, List.range, List.range.loop, Nat.div_div_eq_div_mul]

theorem zero8_eq : zero8 = leBytes 8 0 := by decide

theorem toInt_eq (v : BitVec 64) : v.toInt = if v.toNat < 2 ^ 63 then (v.toNat : Int) else (v.toNat : Int) - 2 ^ 64 := by
  rw [BitVec.toInt_eq_toNat_cond]; split <;> split <;> omega

theorem tdiv_nat (n d : Nat) : Int.tdiv (n : Int) (d : Int) = ((n / d : Nat) : Int) := (Int.ofNat_tdiv n d).symm

theorem toInt_sub_wrap (a b : BitVec 64) : (a - b).toInt = Rewards.wrap64 (a.toInt - b.toInt) := by
  rw [BitVec.toInt_sub, Int.bmod_def]; unfold Rewards.wrap64; simp only [two63, two64]; split <;> omega

theorem toInt_mul_wrap (a b : BitVec 64) : (a * b).toInt = Rewards.mul64 a.toInt b.toInt := by
  rw [BitVec.toInt_mul, Int.bmod_def]; unfold Rewards.mul64 Rewards.wrap64; simp only [two63, two64]
  generalize a.toInt * b.toInt = p
  split <;> omega

theorem bmod_wrap (x : Int) : x.bmod (2 ^ 64) = Rewards.wrap64 x := by
  rw [Int.bmod_def]; unfold Rewards.wrap64; simp only [two63, two64]; split <;> omega
theorem toInt_add_wrap (a b : BitVec 64) : (a + b).toInt = Rewards.wrap64 (a.toInt + b.toInt) := by
  rw [BitVec.toInt_add, bmod_wrap]
theorem toInt_sdiv_wrap (a b : BitVec 64) : (BitVec.sdiv a b).toInt = Rewards.wrap64 (Int.tdiv a.toInt b.toInt) := by
  rw [BitVec.toInt_sdiv, bmod_wrap]
theorem consensus_wrap64_eq (x : Int) : Consensus.wrap64 x = Rewards.wrap64 x := by
  unfold Consensus.wrap64 Consensus.toInt64 Rewards.wrap64; simp only [Consensus.two64i, two63, two64]
  by_cases h : (x % 18446744073709551616).toNat % 18446744073709551616 < 9223372036854775808 <;> simp only [h, if_true, if_false] <;> omega
theorem toInt64_toNat (v : BitVec 64) : Consensus.toInt64 v.toNat = v.toInt := by
  have := v.isLt
  unfold Consensus.toInt64; rw [toInt_eq]; simp only [Consensus.two64i, two63, two64]
  by_cases h : v.toNat % 18446744073709551616 < 9223372036854775808 <;> by_cases h2 : v.toNat < 2 ^ 63 <;> simp only [h, h2, if_true, if_false] <;> omega
theorem toInt_zext32 (v : BitVec 32) : (BitVec.setWidth 64 v).toInt = (v.toNat : Int) := by
  have := v.isLt
  rw [toInt_eq]; simp only [BitVec.toNat_setWidth]; split <;> omega

/-! ### loops over a slice: `accountPool.filterBlocksToCommit` -/

/-- the counter values `o, o+1, …, o+n-1` of an upward loop starting at 0, from offset `o` -/
def idxFrom (o n : Nat) : List (BitVec 64) := (List.range n).map (fun k => 0#64 + BitVec.ofNat 64 (o + k))

theorem idxFrom_succ (o n : Nat) : idxFrom o (n + 1) = (0#64 + BitVec.ofNat 64 o) :: idxFrom (o + 1) n := by
  unfold idxFrom
  rw [List.range_succ_eq_map]
  simp only [List.map_cons, List.map_map, Nat.add_zero, List.cons.injEq, true_and]
  apply List.map_congr_left
  intro k _
  simp only [Function.comp, Nat.succ_eq_add_one]
  congr 2; omega

theorem upS_len_eq {α : Type} (l : List α) (h : l.length < 2 ^ 63) : upS 0#64 (len l) = idxFrom 0 l.length := by
  unfold upS idxFrom len
  have h0 : (0#64).toInt = 0 := by decide
  have hl : (BitVec.ofNat 64 l.length).toInt = (l.length : Int) := by
    rw [toInt_eq, BitVec.toNat_ofNat]
    have : l.length % 2 ^ 64 = l.length := Nat.mod_eq_of_lt (by omega)
    rw [this]; split <;> omega
  rw [h0, hl]
  simp

abbrev LL := List (BitVec 64) × List (BitVec 64)

theorem filterLoop_spec (isCS : BitVec 64 → Bool) (max : Nat) (blocks : List (BitVec 64))
    (body : BitVec 64 → LL → Step LL (List (BitVec 64)))
    (hbody : ∀ (k : Nat) (b : BitVec 64) (batch tc : List (BitVec 64)), blocks[k]? = some b → batch.length + tc.length ≤ k →
      body (0#64 + BitVec.ofNat 64 k) (batch, tc) =
        if isCS b then .next (batch ++ [b], tc)
        else if tc.length + (batch ++ [b]).length > max then .brk (batch ++ [b], tc)
        else .next ([], tc ++ (batch ++ [b]))) :
    ∀ (rest pre batch tc : List (BitVec 64)), blocks = pre ++ rest → batch.length + tc.length ≤ pre.length →
      ∃ b', forIn (idxFrom pre.length rest.length) (batch, tc) body = .next (b', Pool.filterGo isCS max rest tc batch) ∨
            forIn (idxFrom pre.length rest.length) (batch, tc) body = .brk (b', Pool.filterGo isCS max rest tc batch) := by
  intro rest
  induction rest with
  | nil =>
    intro pre batch tc _ _
    exact ⟨batch, Or.inl (by simp [idxFrom, forIn, Pool.filterGo])⟩
  | cons b rest ih =>
    intro pre batch tc hsplit hinv
    have hk : blocks[pre.length]? = some b := by rw [hsplit]; simp
    have hb := hbody pre.length b batch tc hk hinv
    have hsplit' : blocks = (pre ++ [b]) ++ rest := by rw [hsplit]; simp
    have hlen' : (pre ++ [b]).length = pre.length + 1 := by simp
    rw [List.length_cons, idxFrom_succ]
    simp only [forIn, hb, Pool.filterGo]
    by_cases h1 : isCS b = true
    · simp only [h1, if_true]
      have := ih (pre ++ [b]) (batch ++ [b]) tc hsplit' (by simp; omega)
      rw [hlen'] at this
      exact this
    · simp only [h1, Bool.false_eq_true, if_false]
      by_cases h2 : tc.length + (batch ++ [b]).length > max
      · simp only [h2, if_true]
        exact ⟨batch ++ [b], Or.inr rfl⟩
      · simp only [h2, if_false]
        have := ih (pre ++ [b]) [] (tc ++ (batch ++ [b])) hsplit' (by simp; omega)
        rw [hlen'] at this
        exact this

end ZV.Go
