import ZenonVerif.Model.GoSem
import ZenonVerif.Model.Num
/-
Lemmas about the Go semantics module (Model/GoSem.lean) used by Props/Translated.lean. Core only.
-/
namespace ZV.Go
open ZV

theorem mul32_lt (a b : Nat) (ha : a < 2 ^ 32) (hb : b < 2 ^ 32) : a * b < 2 ^ 64 - 2 ^ 33 + 2 := by
  have h1 : a * b ≤ (2 ^ 32 - 1) * (2 ^ 32 - 1) := Nat.mul_le_mul (by omega) (by omega)
  omega

theorem bytesCompareInt_spec (a b : List Nat) : (bytesCompareInt a b = -1 ↔ bytesLt a b = true) ∧
    (bytesCompareInt a b = -1 ∨ bytesCompareInt a b = 0 ∨ bytesCompareInt a b = 1) := by
  induction a generalizing b with
  | nil => cases b <;> simp [bytesCompareInt, bytesLt]
  | cons x xs ih =>
    cases b with
    | nil => simp [bytesCompareInt, bytesLt]
    | cons y ys =>
      simp only [bytesCompareInt, bytesLt]
      split
      · simp
      · split
        · simp
        · exact ih ys

/-- `bytes.Compare(a, b) > -1` is `¬ a < b` -/
theorem bytesCompare_gt_m1 (a b : List Nat) :
    (BitVec.toInt (bytesCompare a b) > BitVec.toInt 18446744073709551615#64) ↔ bytesLt a b = false := by
  have h := bytesCompareInt_spec a b
  unfold bytesCompare
  rcases h.2 with h1 | h1 | h1
  · have : bytesLt a b = true := h.1.1 h1
    rw [h1, this]; decide
  · have : bytesLt a b ≠ true := fun hh => by have := h.1.2 hh; omega
    rw [h1]; simp at this; rw [this]; decide
  · have : bytesLt a b ≠ true := fun hh => by have := h.1.2 hh; omega
    rw [h1]; simp at this; rw [this]; decide

theorem bigCmp_toInt (x y : Int) : (bigCmp x y).toInt = if x < y then -1 else if x = y then 0 else 1 := by
  unfold bigCmp
  split
  · decide
  · split <;> decide

theorem bigCmp_ge0 (x y : Int) : (BitVec.toInt (bigCmp x y) ≥ BitVec.toInt 0#64) ↔ y ≤ x := by
  rw [bigCmp_toInt]; have : BitVec.toInt 0#64 = 0 := by decide
  rw [this]; (repeat' split) <;> omega

theorem bigSign_le0 (x : Int) : (BitVec.toInt (bigSign x) ≤ BitVec.toInt 0#64) ↔ x ≤ 0 := by
  unfold bigSign; rw [bigCmp_toInt]; have : BitVec.toInt 0#64 = 0 := by decide
  rw [this]; (repeat' split) <;> omega

theorem le8_eq (v : BitVec 64) : le8 v = leBytes 8 v.toNat := by
  simp [le8, leBytes, List.range, List.range.loop, Nat.div_div_eq_div_mul]

theorem zero8_eq : zero8 = leBytes 8 0 := by decide

theorem toInt_eq (v : BitVec 64) : v.toInt = if v.toNat < 2 ^ 63 then (v.toNat : Int) else (v.toNat : Int) - 2 ^ 64 := by
  rw [BitVec.toInt_eq_toNat_cond]; split <;> split <;> omega

end ZV.Go
