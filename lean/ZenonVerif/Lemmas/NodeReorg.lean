import ZenonVerif.Model.NodeReorg
import ZenonVerif.Lemmas.NodeSync
/-
Invariants and step lemmas of the node-level model with reorganisations (C02 / C06 / C16, `Props/C06Reorg.lean`).
The invariant of `Lemmas/NodeSync.lean` (`Inv`: pooled and confirmed patches are what `exec` gives in the stated context)
is carried through rollbacks; `ChainOk` adds what the side-chain arithmetic needs: every stored momentum names the one
below it, carries its position as its height and passed the remaining momentum checks on the ledger below it.
-/
namespace ZV.NodeReorg
open ZV ZV.NodeSync

variable {P L : Type}

/-- every stored momentum links to the one below it, its claimed height is its position, and it passed `mvalid` there -/
def ChainOk (W : VM P L) : List (Entry P) → Prop
  | [] => True
  | e :: older =>
    ChainOk W older ∧ e.m.prev = frontierId W older ∧ e.m.height = frontierHeight older + 1 ∧
      W.mvalid (ledger W older) e.m = true

/-- everything that holds of a reachable node of the extended model -/
structure InvR (U : Block → Prop) (W : VM P L) (s : Node P) : Prop where
  base : Inv U W s
  chain : ChainOk W s.hist

/-- a run of accepted momentums: the insert loop got through `ds`, one `stepR` each -/
def Steps (W : VM P L) : Node P → List DM → Node P → Prop
  | s, [], s' => s' = s
  | s, d :: ds, s' => ∃ s1, stepR W s d = (s1, true) ∧ Steps W s1 ds s'

/-! ### blockLoop / stepR leave the chain alone unless the momentum is accepted -/

theorem blockLoop_hist {W : VM P L} {force : Bool} :
    ∀ (bs : List Block) {s s' : Node P} {ok : Bool}, blockLoop W true force s bs = (s', ok) → s'.hist = s.hist := by
  intro bs
  induction bs with
  | nil => intro s s' ok h; simp only [blockLoop, Prod.mk.injEq] at h; rw [← h.1]
  | cons b bs ih =>
    intro s s' ok h
    simp only [blockLoop] at h
    split at h
    · rename_i s1 h1; rw [ih h, addBlock_hist h1]
    · simp only [Prod.mk.injEq] at h; rw [← h.1]

theorem stepR_true {W : VM P L} {s s' : Node P} {d : DM} (h : stepR W s d = (s', true)) :
    d.m.height = frontierHeight s.hist + 1 ∧ stepMomentum W true true s d = (s', true) := by
  unfold stepR at h
  split at h
  · rename_i hh; exact ⟨hh, h⟩
  · simp at h

/-- what an accepted momentum leaves: one more entry, carrying the delivered momentum -/
theorem stepR_true_hist {W : VM P L} {s s' : Node P} {d : DM} (h : stepR W s d = (s', true)) :
    ∃ e : Entry P, e.m = d.m ∧ s'.hist = e :: s.hist := by
  obtain ⟨_, h⟩ := stepR_true h
  obtain ⟨s1, q, txs, hb, _, _, _, _, _, rfl⟩ := stepMomentum_true h
  exact ⟨⟨d.m, txs, W.pack (ledger W s1.hist) txs⟩, rfl, by simp [blockLoop_hist _ hb]⟩

theorem stepR_false_hist {W : VM P L} {s s' : Node P} {d : DM} (h : stepR W s d = (s', false)) :
    s'.hist = s.hist := by
  unfold stepR at h
  split at h
  · obtain ⟨ok, hb⟩ := stepMomentum_false_hist h
    exact blockLoop_hist _ hb
  · simp only [Prod.mk.injEq, and_true] at h
    rw [← h]
    generalize hg : blockLoop W true true s d.blocks = r
    obtain ⟨s1, ok⟩ := r
    exact blockLoop_hist _ hg

/-! ### the invariant through the insert loop -/

theorem stepR_inv {W : VM P L} {U : Block → Prop} {s s' : Node P} {d : DM} {ok : Bool}
    (h : stepR W s d = (s', ok)) (hu : ∀ b ∈ d.blocks, U b) (hi : InvR U W s) : InvR U W s' := by
  cases ok with
  | false =>
    have hh := stepR_false_hist h
    refine ⟨?_, by rw [hh]; exact hi.chain⟩
    unfold stepR at h
    split at h
    · exact stepMomentum_inv h hu hi.base
    · simp only [Prod.mk.injEq, and_true] at h
      rw [← h]
      generalize hg : blockLoop W true true s d.blocks = r
      obtain ⟨s1, ok⟩ := r
      exact (blockLoop_inv _ hg hu hi.base).1
  | true =>
    obtain ⟨hheight, hm⟩ := stepR_true h
    refine ⟨stepMomentum_inv hm hu hi.base, ?_⟩
    obtain ⟨s1, q, txs, hb, hprev, _, _, _, hv, rfl⟩ := stepMomentum_true hm
    have e1 := blockLoop_hist _ hb
    rw [e1] at hprev hv
    simp only [e1]
    exact ⟨hi.chain, hprev, hheight, hv⟩

theorem loopR_inv {W : VM P L} {U : Block → Prop} :
    ∀ (ds : List DM) {s s' : Node P} {idx : Nat} {r : Res},
      loopR W s idx ds = (s', r) → (∀ d ∈ ds, ∀ b ∈ d.blocks, U b) → InvR U W s → InvR U W s' := by
  intro ds
  induction ds with
  | nil => intro s s' idx r h _ hi; simp only [loopR, Prod.mk.injEq] at h; rw [← h.1]; exact hi
  | cons d ds ih =>
    intro s s' idx r h hu hi
    simp only [loopR] at h
    split at h
    · rename_i s1 h1
      exact ih h (fun x hx => hu x (by simp [hx])) (stepR_inv h1 (hu d (by simp)) hi)
    · rename_i s1 h1
      simp only [Prod.mk.injEq] at h
      rw [← h.1]; exact stepR_inv h1 (hu d (by simp)) hi

/-! ### rollback -/

theorem histSound_drop {W : VM P L} : ∀ (k : Nat) {hist : List (Entry P)}, HistSound W hist → HistSound W (hist.drop k) := by
  intro k
  induction k with
  | zero => intro hist h; simpa using h
  | succ k ih =>
    intro hist h
    cases hist with
    | nil => simpa using h
    | cons e older => simp only [List.drop_succ_cons]; exact ih h.1

theorem ChainOk.drop {W : VM P L} : ∀ (k : Nat) {hist : List (Entry P)}, ChainOk W hist → ChainOk W (hist.drop k) := by
  intro k
  induction k with
  | zero => intro hist h; simpa using h
  | succ k ih =>
    intro hist h
    cases hist with
    | nil => simpa using h
    | cons e older => simp only [List.drop_succ_cons]; exact ih h.1

/-- `RollbackTo` as the code does it (pool dropped) keeps the invariant: the empty pool is sound on any chain, and what is
    left of the chain was sound before -/
theorem rollback_inv {W : VM P L} {U : Block → Prop} {s : Node P} (k : Nat) (hi : InvR U W s) :
    InvR U W (rollback false s k) := by
  unfold rollback
  split
  · exact hi
  · refine ⟨⟨?_, histSound_drop k hi.base.hist, ?_, ?_⟩, hi.chain.drop k⟩
    · intro a; exact ⟨by simp, by simp [StackSound]⟩
    · intro e he; exact hi.base.hash e (List.mem_of_mem_drop he)
    · exact ⟨by simp, fun e he => hi.base.blocks.2 e (List.mem_of_mem_drop he)⟩

/-! ### what `deliverR` does, case by case -/

/-- the first element of what the skip loop leaves is not known -/
theorem dropWhile_head_false {α : Type} (p : α → Bool) :
    ∀ (l : List α) {x : α} {xs : List α}, l.dropWhile p = x :: xs → p x = false := by
  intro l
  induction l with
  | nil => intro x xs h; simp at h
  | cons a l ih =>
    intro x xs h
    simp only [List.dropWhile] at h
    split at h
    · exact ih h
    · rename_i hp
      simp only [List.cons.injEq] at h
      rw [← h.1]; simpa using hp

/-- the decomposition of one `InsertChain` call: nothing to do; an extension; one of the three refusals that leave the node
    untouched; or a side chain — target `k` momentums below the frontier, k ≤ window, named by the head as its
    previous, claimed tail height above the frontier — followed by the insert loop on the rolled-back node -/
theorem deliverR_cases (W : VM P L) (kp : Bool) (s : Node P) (batch : List DM) :
    (batch.dropWhile (fun d => knownR W s.hist d.m) = [] ∧ deliverR W kp s batch = (s, .ok)) ∨
    (∃ head more, batch.dropWhile (fun d => knownR W s.hist d.m) = head :: more ∧ knownR W s.hist head.m = false ∧
      ((head.m.prev = frontierId W s.hist ∧
          deliverR W kp s batch = loopR W s (batch.length - (head :: more).length) (head :: more)) ∨
       (head.m.prev ≠ frontierId W s.hist ∧ (deliverR W kp s batch).1 = s ∧
          ((deliverR W kp s batch).2 = .link ∨ (deliverR W kp s batch).2 = .tooFar ∨
            ((deliverR W kp s batch).2 = .notLonger ∧
              ((head :: more).getLastD head).m.height ≤ frontierHeight s.hist))) ∨
       (∃ k, head.m.prev ≠ frontierId W s.hist ∧ k = frontierHeight s.hist - (head.m.height - 1) ∧
          k ≤ Gen.InsertChainWindow ∧
          byHeight W s.hist (head.m.height - 1) = some head.m.prev ∧
          frontierHeight s.hist < ((head :: more).getLastD head).m.height ∧
          deliverR W kp s batch =
            loopR W (rollback kp s k) (batch.length - (head :: more).length) (head :: more)))) := by
  unfold deliverR
  simp only
  cases hto : batch.dropWhile (fun d => knownR W s.hist d.m) with
  | nil => left; exact ⟨rfl, rfl⟩
  | cons head more =>
    right
    refine ⟨head, more, rfl, dropWhile_head_false _ batch hto, ?_⟩
    simp only
    by_cases hp : head.m.prev = frontierId W s.hist
    · left; rw [if_pos hp]; exact ⟨hp, rfl⟩
    · right
      rw [if_neg hp]
      cases hb : byHeight W s.hist (head.m.height - 1) with
      | none => left; exact ⟨hp, rfl, Or.inl rfl⟩
      | some target =>
        simp only
        by_cases ht : target ≠ head.m.prev
        · left; rw [if_pos ht]; exact ⟨hp, rfl, Or.inl rfl⟩
        · have ht' : target = head.m.prev := Classical.byContradiction ht
          rw [if_neg ht]
          by_cases hf : frontierHeight s.hist - (head.m.height - 1) > Gen.InsertChainWindow
          · left; rw [if_pos hf]; exact ⟨hp, rfl, Or.inr (Or.inl rfl)⟩
          · rw [if_neg hf]
            by_cases hl : ((head :: more).getLastD head).m.height ≤ frontierHeight s.hist
            · left; rw [if_pos hl]; exact ⟨hp, rfl, Or.inr (Or.inr ⟨rfl, hl⟩)⟩
            · right
              rw [if_neg hl]
              exact ⟨_, hp, rfl, by omega, by rw [ht'], by omega, rfl⟩

theorem deliverR_inv {W : VM P L} {U : Block → Prop} {s : Node P} {batch : List DM}
    (hu : ∀ d ∈ batch, ∀ b ∈ d.blocks, U b) (hi : InvR U W s) : InvR U W (deliverR W false s batch).1 := by
  have hsub : ∀ x ∈ batch.dropWhile (fun d => knownR W s.hist d.m), x ∈ batch :=
    fun x hx => (List.dropWhile_sublist _).subset hx
  rcases deliverR_cases W false s batch with ⟨_, h⟩ | ⟨head, more, hto, _, h⟩
  · rw [h]; exact hi
  · rw [hto] at hsub
    rcases h with ⟨_, h⟩ | ⟨_, h, _⟩ | ⟨k, _, _, _, _, _, h⟩
    · rw [h]
      generalize hg : loopR W s _ _ = r
      obtain ⟨s', r'⟩ := r
      exact loopR_inv _ hg (fun x hx => hu x (hsub x hx)) hi
    · rw [h]; exact hi
    · rw [h]
      generalize hg : loopR W (rollback false s k) _ _ = r
      obtain ⟨s', r'⟩ := r
      exact loopR_inv _ hg (fun x hx => hu x (hsub x hx)) (rollback_inv k hi)

theorem stepOp_inv {W : VM P L} {U : Block → Prop} {s : Node P} (o : Op) (hu : ∀ b ∈ opBlocksR [o], U b)
    (hi : InvR U W s) : InvR U W (stepOp W s o) := by
  cases o with
  | gossip b =>
    simp only [stepOp]
    cases h : addBlock W true false s b with
    | none => exact hi
    | some s' =>
      exact ⟨addBlock_inv h (hu b (by simp [opBlocksR])) hi.base, by
        show ChainOk W s'.hist
        rw [addBlock_hist h]; exact hi.chain⟩
  | deliver batch =>
    exact deliverR_inv
      (fun d hd b hb => hu b (by simp only [opBlocksR, List.append_nil, List.mem_flatMap]; exact ⟨d, hd, hb⟩)) hi
  | restart =>
    exact ⟨⟨fun a => ⟨by simp [stepOp], by simp [stepOp, StackSound]⟩, hi.base.hist, hi.base.hash,
      ⟨by simp [stepOp], hi.base.blocks.2⟩⟩, hi.chain⟩

theorem opBlocksR_append (xs ys : List Op) : opBlocksR (xs ++ ys) = opBlocksR xs ++ opBlocksR ys := by
  induction xs with
  | nil => rfl
  | cons o xs ih => cases o <;> simp [opBlocksR, ih]

/-- the invariant holds in every reachable state — after any number of reorganisations, refused deliveries, deliveries
    that failed half-way (before or after a rollback), gossip and restarts -/
theorem runR_inv (W : VM P L) (U : Block → Prop) (ops : List Op) (hu : ∀ b ∈ opBlocksR ops, U b) :
    InvR U W (runR W ops) := by
  unfold runR
  suffices h : ∀ (s : Node P), InvR U W s → InvR U W (ops.foldl (stepOp W) s) from h _ ⟨init_inv W U, trivial⟩
  induction ops with
  | nil => intro s hi; exact hi
  | cons o ops ih =>
    intro s hi
    have e : o :: ops = [o] ++ ops := rfl
    rw [e, opBlocksR_append] at hu
    exact ih (fun b hb => hu b (List.mem_append.2 (Or.inr hb))) _
      (stepOp_inv o (fun b hb => hu b (List.mem_append.2 (Or.inl hb))) hi)

/-! ### the insert loop: accepted prefix, failing index -/

theorem Steps.chain {W : VM P L} :
    ∀ (ds : List DM) {s s' : Node P}, Steps W s ds s' →
      s'.chain = (ds.map (·.m)).reverse ++ s.chain ∧ s'.hist.length = s.hist.length + ds.length := by
  intro ds
  induction ds with
  | nil => intro s s' h; simp only [Steps] at h; subst h; simp
  | cons d ds ih =>
    intro s s' h
    obtain ⟨s1, h1, h2⟩ := h
    obtain ⟨e, he, hh⟩ := stepR_true_hist h1
    obtain ⟨c1, c2⟩ := ih h2
    constructor
    · rw [c1]; simp [Node.chain, hh, he]
    · rw [c2, hh]; simp; omega

/-- the insert loop accepts a prefix of what it is given, one `stepR` each; it returns `ok` exactly when that prefix is
    everything, and otherwise the index of the first momentum that `stepR` refuses — the node then holds the accepted prefix
    and nothing of the refused momentum -/
theorem loopR_spec {W : VM P L} :
    ∀ (ds : List DM) {s s' : Node P} {idx : Nat} {r : Res}, loopR W s idx ds = (s', r) →
      ∃ n s1, n ≤ ds.length ∧ Steps W s (ds.take n) s1 ∧
        ((r = .ok ∧ n = ds.length ∧ s' = s1) ∨
         (∃ d, ds[n]? = some d ∧ r = .verify (idx + n) ∧ stepR W s1 d = (s', false))) := by
  intro ds
  induction ds with
  | nil =>
    intro s s' idx r h
    simp only [loopR, Prod.mk.injEq] at h
    exact ⟨0, s, Nat.le_refl _, rfl, Or.inl ⟨h.2.symm, rfl, h.1.symm⟩⟩
  | cons d ds ih =>
    intro s s' idx r h
    simp only [loopR] at h
    split at h
    · rename_i s1 h1
      obtain ⟨n, s2, hn, hs, hr⟩ := ih h
      refine ⟨n + 1, s2, by simp; omega, ⟨s1, h1, by simpa using hs⟩, ?_⟩
      rcases hr with ⟨a, b, c⟩ | ⟨d', a, b, c⟩
      · exact Or.inl ⟨a, by simp [b], c⟩
      · exact Or.inr ⟨d', by simpa using a, by rw [b]; congr 1; omega, c⟩
    · rename_i s1 h1
      simp only [Prod.mk.injEq] at h
      refine ⟨0, s, Nat.zero_le _, rfl, Or.inr ⟨d, rfl, by rw [← h.2]; rfl, by rw [← h.1]; exact h1⟩⟩

theorem loopR_append {W : VM P L} :
    ∀ (xs ys : List DM) (s : Node P) (idx : Nat),
      loopR W s idx (xs ++ ys) =
        match loopR W s idx xs with
        | (s', .ok) => loopR W s' (idx + xs.length) ys
        | r => r := by
  intro xs
  induction xs with
  | nil => intro ys s idx; simp [loopR]
  | cons x xs ih =>
    intro ys s idx
    simp only [List.cons_append, loopR]
    split
    · rename_i s1 h1
      rw [ih]
      have : idx + 1 + xs.length = idx + (x :: xs).length := by simp; omega
      rw [this]
    · rfl

/-! ### heights and the skip loop -/

theorem ChainOk.height_le {W : VM P L} : ∀ {hist : List (Entry P)}, ChainOk W hist → ∀ e ∈ hist,
    genesisHeight < e.m.height ∧ e.m.height ≤ frontierHeight hist := by
  intro hist
  induction hist with
  | nil => intro _ e he; simp at he
  | cons e' older ih =>
    intro h e he
    obtain ⟨h1, _, h3, _⟩ := h
    rcases List.mem_cons.1 he with rfl | he
    · simp only [frontierHeight, genesisHeight, List.length_cons] at h3 ⊢; omega
    · have := ih h1 e he
      simp only [frontierHeight, genesisHeight, List.length_cons] at this ⊢; omega

theorem byHeight_cons {W : VM P L} (e : Entry P) (older : List (Entry P)) (h : Nat) (hle : h ≤ frontierHeight older) :
    byHeight W (e :: older) h = byHeight W older h := by
  unfold byHeight
  by_cases h1 : h = genesisHeight
  · simp [h1]
  · simp only [h1, if_false]
    by_cases h2 : genesisHeight < h
    · have a : genesisHeight < h ∧ h ≤ frontierHeight (e :: older) := by
        simp only [frontierHeight, List.length_cons] at hle ⊢; omega
      have b : genesisHeight < h ∧ h ≤ frontierHeight older := ⟨h2, hle⟩
      simp only [a, b, and_self, if_true]
      have : frontierHeight (e :: older) - h = (frontierHeight older - h) + 1 := by
        simp only [frontierHeight, List.length_cons] at hle ⊢; omega
      rw [this, List.getElem?_cons_succ]
    · have a : ¬ (genesisHeight < h ∧ h ≤ frontierHeight (e :: older)) := fun x => h2 x.1
      have b : ¬ (genesisHeight < h ∧ h ≤ frontierHeight older) := fun x => h2 x.1
      simp [a, b]

/-- every momentum of the node's own chain is recognised by the skip loop -/
theorem ChainOk.known {W : VM P L} : ∀ {hist : List (Entry P)}, ChainOk W hist → ∀ e ∈ hist,
    knownR W hist e.m = true := by
  intro hist
  induction hist with
  | nil => intro _ e he; simp at he
  | cons e' older ih =>
    intro h e he
    rcases List.mem_cons.1 he with rfl | he
    · obtain ⟨_, _, h3, _⟩ := h
      unfold knownR byHeight
      have h1 : e.m.height ≠ genesisHeight := by simp only [frontierHeight, genesisHeight] at h3 ⊢; omega
      have h2 : genesisHeight < e.m.height ∧ e.m.height ≤ frontierHeight (e :: older) := by
        simp only [frontierHeight, genesisHeight, List.length_cons] at h3 ⊢; omega
      have h4 : frontierHeight (e :: older) - e.m.height = 0 := by
        simp only [frontierHeight, genesisHeight, List.length_cons] at h3 ⊢; omega
      simp [h1, h2, h4]
    · have hk := ih h.1 e he
      unfold knownR at hk ⊢
      rw [byHeight_cons _ _ _ (h.1.height_le e he).2]
      exact hk

theorem dropWhile_all {α : Type} (p : α → Bool) : ∀ (l : List α), (∀ x ∈ l, p x = true) → l.dropWhile p = [] := by
  intro l
  induction l with
  | nil => intro _; rfl
  | cons a l ih =>
    intro h
    simp only [List.dropWhile, h a (by simp)]
    exact ih (fun x hx => h x (by simp [hx]))

/-! ### a node that is only ever given the chain -/

theorem served_cons (e : Entry P) (older : List (Entry P)) :
    served (e :: older) = served older ++ [⟨e.m, e.txs.map (·.1)⟩] := by
  simp [served]

/-- the insert loop of a fresh node on what a node serves re-creates that node's stored history, entry by entry: every
    served momentum is accepted (its blocks are executed in their stated context on the same chain, so `exec` returns
    the same patches, `pack` the same changes, and the changes hash matches again) -/
theorem replay_served {W : VM P L} {U : Block → Prop} (hinj : ∀ b b', U b → U b' → b.id = b'.id → b = b') :
    ∀ (hist : List (Entry P)), HistSound W hist → HashOk W hist → ChainOk W hist →
      (∀ e ∈ hist, ∀ t ∈ e.txs, U t.1) →
      ∃ q, loopR W Node.init 0 (served hist) = ({ hist := hist, pool := q }, .ok) ∧
        InvR U W { hist := hist, pool := q } := by
  intro hist
  induction hist with
  | nil =>
    intro _ _ _ _
    exact ⟨fun _ => [], rfl, ⟨init_inv W U, trivial⟩⟩
  | cons e older ih =>
    intro hs hh hc hu
    obtain ⟨q, hq, hi⟩ := ih hs.1 (fun x hx => hh x (by simp [hx])) hc.1 (fun x hx => hu x (by simp [hx]))
    obtain ⟨_, hts, hcont, hpatch⟩ := hs
    obtain ⟨_, hprev, hheight, hv⟩ := hc
    have hhash : W.hash (W.pack (ledger W older) e.txs) = e.m.changesHash := by
      rw [← hpatch]; exact hh e (by simp)
    obtain ⟨q', hq'⟩ := stepMomentum_honest (t := { hist := older, pool := q }) hinj hi.base
      (hu e (by simp)) hts hcont hprev hhash hv
    have he : (⟨e.m, e.txs, W.pack (ledger W older) e.txs⟩ : Entry P) = e := by
      rw [← hpatch]
    simp only [he] at hq'
    have hstep : stepR W { hist := older, pool := q } ⟨e.m, e.txs.map (·.1)⟩ =
        ({ hist := e :: older, pool := q' }, true) := by
      unfold stepR
      simp only [hheight, if_true]
      exact hq'
    refine ⟨q', ?_, ?_⟩
    · rw [served_cons, loopR_append, hq]
      simp only [loopR, hstep]
    · exact stepR_inv hstep (by
        intro b hb
        obtain ⟨t, ht, rfl⟩ := List.mem_map.1 hb
        exact hu e (by simp) t ht) hi

theorem ChainOk.last {W : VM P L} : ∀ {hist : List (Entry P)}, ChainOk W hist → ∀ e, hist.getLast? = some e →
    e.m.prev = W.gid ∧ e.m.height = genesisHeight + 1 := by
  intro hist
  induction hist with
  | nil => intro _ e he; simp at he
  | cons e' older ih =>
    intro h e he
    cases older with
    | nil =>
      simp only [List.getLast?_singleton, Option.some.injEq] at he
      subst he
      obtain ⟨_, h2, h3, _⟩ := h
      exact ⟨h2, by simpa [frontierHeight] using h3⟩
    | cons e'' rest =>
      rw [List.getLast?_cons_cons] at he
      exact ih h.1 e he

/-- `InsertChain` of a fresh node on everything a node serves, in one batch: the whole batch goes through the insert loop -/
theorem deliverR_served {W : VM P L} (kp : Bool) {hist : List (Entry P)} (hc : ChainOk W hist) :
    deliverR W kp Node.init (served hist) = loopR W Node.init 0 (served hist) := by
  cases hs : served hist with
  | nil => simp [deliverR, loopR]
  | cons d rest =>
    cases hl : hist.getLast? with
    | none =>
      have : hist = [] := by simpa using hl
      subst this
      simp [served] at hs
    | some e2 =>
      have hd : d = ⟨e2.m, e2.txs.map (·.1)⟩ := by
        have : (served hist).head? = some d := by rw [hs]; rfl
        unfold served at this
        rw [List.head?_map, List.head?_reverse, hl] at this
        simpa using this.symm
      obtain ⟨hp, hh⟩ := hc.last e2 hl
      have hk : knownR W (Node.init (P := P)).hist d.m = false := by
        subst hd
        unfold knownR byHeight
        have h1 : e2.m.height ≠ genesisHeight := by omega
        have h2 : ¬ (genesisHeight < e2.m.height ∧ e2.m.height ≤ frontierHeight (Node.init (P := P)).hist) := by
          simp only [frontierHeight, Node.init, List.length_nil]; omega
        simp [h1, h2]
      have hp' : d.m.prev = frontierId W (Node.init (P := P)).hist := by
        subst hd; simpa [frontierId, Node.init] using hp
      unfold deliverR
      simp only [List.dropWhile, hk, hp', if_true, Nat.sub_self]

/-! ### lengths -/

theorem byHeight_some {W : VM P L} {hist : List (Entry P)} {h x : Nat} (hb : byHeight W hist h = some x) :
    genesisHeight ≤ h ∧ h ≤ frontierHeight hist := by
  unfold byHeight at hb
  split at hb
  · rename_i h1; simp only [frontierHeight]; omega
  · split at hb
    · rename_i h2; omega
    · cases hb

/-- the claimed heights of an accepted run are consecutive from the frontier, so the claimed height of its last momentum
    IS the height the chain ends at -/
theorem Steps.last_height {W : VM P L} :
    ∀ (ds : List DM) {s s' : Node P} {d : DM}, Steps W s (d :: ds) s' →
      ((d :: ds).getLastD d).m.height = frontierHeight s.hist + (d :: ds).length := by
  intro ds
  induction ds with
  | nil =>
    intro s s' d h
    obtain ⟨s1, h1, _⟩ := h
    simpa using (stepR_true h1).1
  | cons d2 ds ih =>
    intro s s' d h
    obtain ⟨s1, h1, h2⟩ := h
    obtain ⟨e, _, hh⟩ := stepR_true_hist h1
    have := ih h2
    rw [List.getLastD_cons]
    have e2 : (d2 :: ds).getLastD d = (d2 :: ds).getLastD d2 := by
      rw [List.getLastD_cons, List.getLastD_cons]
    rw [e2, this, hh]
    simp only [frontierHeight, List.length_cons]; omega

theorem rollback_chain (s : Node P) (k : Nat) : (rollback false s k).chain = s.chain.drop k := by
  unfold rollback
  split
  · rename_i h; subst h; simp
  · simp [Node.chain, List.map_drop]

theorem rollback_length (kp : Bool) (s : Node P) (k : Nat) : (rollback kp s k).hist.length = s.hist.length - k := by
  unfold rollback
  split
  · rename_i h; subst h; simp
  · simp

/-! ### honest momentums -/

theorem deliverR_honest {W : VM P L} {U : Block → Prop} (hinj : ∀ b b', U b → U b' → b.id = b'.id → b = b')
    {t : Node P} {m : Momentum} {txs : List (Tx P)} (hi : Inv U W t) (hu : ∀ x ∈ txs, U x.1)
    (hs : TxsSound W t.hist (conf W t.hist) txs) (hc : txs.map (·.1.hdr) = m.content)
    (hprev : m.prev = frontierId W t.hist) (hheight : m.height = frontierHeight t.hist + 1)
    (hh : W.hash (W.pack (ledger W t.hist) txs) = m.changesHash)
    (hv : W.mvalid (ledger W t.hist) m = true) :
    (deliverR W false t [⟨m, txs.map (·.1)⟩]).2 = .ok ∧
      (knownR W t.hist m = false → (deliverR W false t [⟨m, txs.map (·.1)⟩]).1.chain = m :: t.chain) := by
  obtain ⟨q, hq⟩ := stepMomentum_honest hinj hi hu hs hc hprev hh hv
  have hstep : stepR W t ⟨m, txs.map (·.1)⟩ =
      ({ hist := ⟨m, txs, W.pack (ledger W t.hist) txs⟩ :: t.hist, pool := q }, true) := by
    unfold stepR; simp only [hheight, if_true]; exact hq
  unfold deliverR
  cases hk : knownR W t.hist m
  · simp only [List.dropWhile, hk, hprev, if_true, loopR, hstep]
    exact ⟨trivial, fun _ => rfl⟩
  · simp [List.dropWhile, hk]

/-- blocks are pinned by their headers when identifiers do not collide -/
theorem blocks_eq_of_hdr {U : Block → Prop} (hinj : ∀ b b', U b → U b' → b.id = b'.id → b = b') :
    ∀ (xs ys : List Block), xs.map Block.hdr = ys.map Block.hdr → (∀ b ∈ xs, U b) → (∀ b ∈ ys, U b) → xs = ys := by
  intro xs
  induction xs with
  | nil => intro ys h _ _; cases ys with | nil => rfl | cons _ _ => simp at h
  | cons b rest ih =>
    intro ys h hx hy
    cases ys with
    | nil => simp at h
    | cons b' rest' =>
      simp only [List.map_cons, List.cons.injEq] at h
      have hb' : b = b' := hinj b b' (hx b (by simp)) (hy b' (by simp)) (by
        have := h.1; simp only [Block.hdr, Prod.mk.injEq] at this; exact this.2)
      rw [hb', ih rest' h.2 (fun x hx' => hx x (by simp [hx'])) (fun x hx' => hy x (by simp [hx']))]

end ZV.NodeReorg
