import ZenonVerif.Model.Pool
/-
Helper lemmas for C14-T1/T2: the pooled blocks of one address form a chain (invariant of the pool state machine).
-/
namespace ZV.Pool

/-- consecutive links: the first block's `Previous()` is `start`, every other block's is its predecessor's identifier -/
def Linked : Id → List Blk → Prop
  | _, [] => True
  | start, b :: bs => b.prev = start ∧ Linked b.id bs

def Linked.dec : ∀ (start : Id) (xs : List Blk), Decidable (Linked start xs)
  | _, [] => isTrue trivial
  | start, b :: bs =>
    match (inferInstance : Decidable (b.prev = start)), Linked.dec b.id bs with
    | isTrue h1, isTrue h2 => isTrue ⟨h1, h2⟩
    | isFalse h1, _ => isFalse (fun h => h1 h.1)
    | _, isFalse h2 => isFalse (fun h => h2 h.2)

instance (start : Id) (xs : List Blk) : Decidable (Linked start xs) := Linked.dec start xs

/-- the verifier accepts no block of height 0 -/
def HeightsOK (xs : List Blk) : Prop := ∀ b ∈ xs, b.height ≠ 0

instance (xs : List Blk) : Decidable (HeightsOK xs) := by unfold HeightsOK; infer_instance

/-- identifier of the last block of `xs`, or `start` -/
def lastIdFrom (start : Id) (xs : List Blk) : Id :=
  match xs.getLast? with
  | some b => b.id
  | none => start

theorem lastId_eq (c : List Blk) : lastId c = lastIdFrom zeroId c := rfl

theorem lastIdFrom_nil (start : Id) : lastIdFrom start [] = start := rfl

theorem lastIdFrom_cons (start : Id) (x : Blk) (xs : List Blk) : lastIdFrom start (x :: xs) = lastIdFrom x.id xs := by
  cases xs with
  | nil => simp [lastIdFrom]
  | cons y ys =>
    simp only [lastIdFrom, List.getLast?_cons_cons]
    cases h : (y :: ys).getLast? with
    | none => simp at h
    | some b => rfl

theorem lastIdFrom_append (start : Id) (xs ys : List Blk) :
    lastIdFrom start (xs ++ ys) = lastIdFrom (lastIdFrom start xs) ys := by
  induction xs generalizing start with
  | nil => simp [lastIdFrom_nil]
  | cons x xs ih => simp only [List.cons_append, lastIdFrom_cons, ih]

theorem lastId_append (base pooled : List Blk) : lastId (base ++ pooled) = lastIdFrom (lastId base) pooled := by
  simp only [lastId_eq, lastIdFrom_append]

theorem lastIdFrom_concat (start : Id) (xs : List Blk) (b : Blk) : lastIdFrom start (xs ++ [b]) = b.id := by
  simp [lastIdFrom]

theorem linked_append (ys : List Blk) : ∀ (xs : List Blk) (start : Id),
    Linked start (xs ++ ys) ↔ Linked start xs ∧ Linked (lastIdFrom start xs) ys
  | [], start => by simp [Linked, lastIdFrom_nil]
  | x :: xs, start => by
    simp only [List.cons_append, Linked, lastIdFrom_cons, linked_append ys xs x.id, and_assoc]

theorem linked_concat (xs : List Blk) (start : Id) (b : Blk) :
    Linked start (xs ++ [b]) ↔ Linked start xs ∧ b.prev = lastIdFrom start xs := by
  rw [linked_append]; simp [Linked]

theorem linked_dropLast : ∀ (xs : List Blk) (start : Id), Linked start xs → Linked start xs.dropLast
  | [], _, _ => by simp [Linked]
  | [_], _, _ => by simp [Linked]
  | x :: y :: ys, start, h => by
    have := linked_dropLast (y :: ys) x.id h.2
    simp only [List.dropLast_cons_cons]
    exact ⟨h.1, this⟩

theorem linked_take (n : Nat) : ∀ (xs : List Blk) (start : Id), Linked start xs → Linked start (xs.take n) := by
  induction n with
  | zero => intro xs start _; simp [Linked]
  | succ n ih =>
    intro xs start h
    cases xs with
    | nil => simp [Linked]
    | cons x xs => simp only [List.take_succ_cons]; exact ⟨h.1, ih xs x.id h.2⟩

theorem heightsOK_append {xs ys : List Blk} : HeightsOK (xs ++ ys) ↔ HeightsOK xs ∧ HeightsOK ys := by
  unfold HeightsOK
  constructor
  · intro h; exact ⟨fun b hb => h b (by simp [hb]), fun b hb => h b (by simp [hb])⟩
  · intro ⟨h1, h2⟩ b hb
    rcases List.mem_append.mp hb with h | h
    · exact h1 b h
    · exact h2 b h

theorem heightsOK_dropLast {xs : List Blk} (h : HeightsOK xs) : HeightsOK xs.dropLast :=
  fun b hb => h b (List.dropLast_subset _ hb)

theorem heightsOK_take {xs : List Blk} (n : Nat) (h : HeightsOK xs) : HeightsOK (xs.take n) :=
  fun b hb => h b (List.mem_of_mem_take hb)

theorem prev_height {b : Blk} {start : Id} (hp : b.prev = start) (h0 : b.height ≠ 0) : b.height = start.2 + 1 := by
  have : b.prev.2 = start.2 := by rw [hp]
  simp only [Blk.prev, h0, if_false] at this
  omega

/-- in a linked list of blocks of non-zero height the heights count up from the start -/
theorem linked_heights : ∀ (xs : List Blk) (start : Id), Linked start xs → HeightsOK xs →
    ∀ (i : Nat) (h : i < xs.length), xs[i].height = start.2 + 1 + i
  | [], _, _, _, i, h => by simp at h
  | x :: xs, start, hl, hh, i, h => by
    have hx := prev_height hl.1 (hh x (by simp))
    cases i with
    | zero => simpa using hx
    | succ i =>
      have := linked_heights xs x.id hl.2 (fun b hb => hh b (by simp [hb])) i (by simpa using h)
      simp only [List.getElem_cons_succ, this, Blk.id]
      omega

theorem linked_mem_height (xs : List Blk) (start : Id) (hl : Linked start xs) (hh : HeightsOK xs) :
    ∀ b ∈ xs, start.2 < b.height ∧ b.height ≤ start.2 + xs.length := by
  intro b hb
  obtain ⟨i, hi, rfl⟩ := List.getElem_of_mem hb
  have := linked_heights xs start hl hh i hi
  omega

theorem linked_last_height : ∀ (xs : List Blk) (start : Id), Linked start xs → HeightsOK xs →
    (lastIdFrom start xs).2 = start.2 + xs.length
  | [], _, _, _ => by simp [lastIdFrom_nil]
  | x :: xs, start, hl, hh => by
    have hx := prev_height hl.1 (hh x (by simp))
    rw [lastIdFrom_cons, linked_last_height xs x.id hl.2 (fun b hb => hh b (by simp [hb]))]
    simp only [Blk.id, List.length_cons]; omega

/-! #### lookups by height -/

theorem byHeight_append (xs ys : List Blk) (h : Nat) :
    byHeight (xs ++ ys) h = (byHeight ys h).or (byHeight xs h) := by
  simp [byHeight, List.find?_append]

theorem byHeight_none (ys : List Blk) (h : Nat) (hn : ∀ b ∈ ys, b.height ≠ h) : byHeight ys h = none := by
  simp only [byHeight, List.find?_eq_none]
  intro b hb
  have := hn b (by simpa using hb)
  simpa using this

theorem byHeight_some {c : List Blk} {h : Nat} {b : Blk} (hb : byHeight c h = some b) : b ∈ c ∧ b.height = h := by
  unfold byHeight at hb
  have h1 := List.mem_of_find?_eq_some hb
  have h2 := List.find?_some hb
  exact ⟨by simpa using h1, by simpa using h2⟩

/-! #### the manager operations keep the chain shape -/

/-- the shape of a manager built on the chain `conf` -/
def MgrOK (conf : List Blk) (m : Mgr) : Prop :=
  m.base = conf ∧ Linked (lastId conf) m.pooled ∧ HeightsOK m.pooled

theorem frontierId_eq (m : Mgr) : m.frontierId = lastIdFrom (lastId m.base) m.pooled := lastId_append _ _

theorem add_ok {conf : List Blk} {m m' : Mgr} {b : Blk} (hm : MgrOK conf m) (hb : b.height ≠ 0)
    (h : m.add b = some m') : MgrOK conf m' ∧ m'.pooled = m.pooled ++ [b] := by
  unfold Mgr.add at h
  split at h
  · rename_i hp
    cases h
    obtain ⟨h1, h2, h3⟩ := hm
    refine ⟨⟨h1, ?_, ?_⟩, rfl⟩
    · rw [linked_concat]; refine ⟨h2, ?_⟩
      rw [hp, frontierId_eq, h1]
    · exact heightsOK_append.mpr ⟨h3, by intro x hx; simp at hx; rw [hx]; exact hb⟩
  · cases h

theorem pop_ok {conf : List Blk} {m m' : Mgr} (hm : MgrOK conf m) (h : m.pop = some m') :
    MgrOK conf m' ∧ m'.pooled = m.pooled.dropLast := by
  unfold Mgr.pop at h
  split at h
  · cases h
  · cases h
    exact ⟨⟨hm.1, linked_dropLast _ _ hm.2.1, heightsOK_dropLast hm.2.2⟩, rfl⟩

theorem rollbackTo_ok (prev : Id) {conf : List Blk} : ∀ (fuel : Nat) (m : Mgr), MgrOK conf m →
    MgrOK conf (rollbackTo prev fuel m).1 ∧ ((rollbackTo prev fuel m).2 = true → (rollbackTo prev fuel m).1.frontierId = prev)
  | 0, m, hm => by simp [rollbackTo, hm]
  | fuel + 1, m, hm => by
    unfold rollbackTo
    by_cases hf : m.frontierId = prev
    · simp [hf, hm]
    · simp only [hf, if_false]
      cases hp : m.pop with
      | none => simp [hm]
      | some m' => exact rollbackTo_ok prev fuel m' (pop_ok hm hp).1

theorem addAll_ok {conf : List Blk} : ∀ (bs : List Blk) (m m' : Mgr), MgrOK conf m → HeightsOK bs →
    addAll m bs = some m' → MgrOK conf m' ∧ m'.pooled = m.pooled ++ bs
  | [], m, m', hm, _, h => by simp [addAll] at h; subst h; simp [hm]
  | b :: bs, m, m', hm, hh, h => by
    unfold addAll at h
    cases ha : m.add b with
    | none => simp [ha] at h
    | some m1 =>
      simp only [ha] at h
      obtain ⟨h1, h2⟩ := add_ok hm (hh b (by simp)) ha
      obtain ⟨h3, h4⟩ := addAll_ok bs m1 m' h1 (fun x hx => hh x (by simp [hx])) h
      exact ⟨h3, by rw [h4, h2]; simp⟩

theorem addAll_pooled : ∀ (bs : List Blk) (m m' : Mgr), addAll m bs = some m' → m'.pooled = m.pooled ++ bs
  | [], m, m', h => by simp [addAll] at h; subst h; simp
  | b :: bs, m, m', h => by
    unfold addAll at h
    cases ha : m.add b with
    | none => simp [ha] at h
    | some m1 =>
      simp only [ha] at h
      have h1 := addAll_pooled bs m1 m' h
      unfold Mgr.add at ha
      split at ha
      · cases ha; rw [h1]; simp
      · cases ha

theorem uncommittedOf_heights (view : List Blk) (lo : Nat) (hlo : lo ≠ 0) : ∀ (n : Nat) (unc : List Blk),
    uncommittedOf view lo n = some unc → HeightsOK unc ∧ ∀ b ∈ unc, b ∈ view
  | 0, unc, h => by simp [uncommittedOf] at h; subst h; exact ⟨fun _ hb => by simp at hb, fun _ hb => by simp at hb⟩
  | n + 1, unc, h => by
    unfold uncommittedOf at h
    cases hb : byHeight view (lo + n) with
    | none => simp [hb] at h
    | some b =>
      cases hr : uncommittedOf view lo n with
      | none => simp [hb, hr] at h
      | some rest =>
        simp [hb, hr] at h
        subst h
        obtain ⟨h1, h2⟩ := uncommittedOf_heights view lo hlo n rest hr
        obtain ⟨h3, h4⟩ := byHeight_some hb
        constructor
        · exact heightsOK_append.mpr ⟨h1, by intro x hx; simp at hx; rw [hx, h4]; omega⟩
        · intro x hx
          rcases List.mem_append.mp hx with hx | hx
          · exact h2 x hx
          · simp at hx; rw [hx]; exact h3

/-- a chain from the zero identifier has a block at every height 1 … length -/
theorem byHeight_isSome (c : List Blk) (hl : Linked zeroId c) (hh : HeightsOK c) (h : Nat) (h1 : 1 ≤ h)
    (h2 : h ≤ c.length) : (byHeight c h).isSome = true := by
  unfold byHeight
  rw [List.find?_isSome]
  have hi : h - 1 < c.length := by omega
  refine ⟨c[h - 1], by simp, ?_⟩
  have := linked_heights c zeroId hl hh (h - 1) hi
  simp only [zeroId] at this
  simp only [beq_iff_eq]; omega

/-- … and the only block at the top height is the last one -/
theorem top_block_id (c : List Blk) (hl : Linked zeroId c) (hh : HeightsOK c) (b : Blk) (hb : b ∈ c)
    (ht : b.height = c.length) : b.id = lastId c := by
  obtain ⟨i, hi, rfl⟩ := List.getElem_of_mem hb
  have := linked_heights c zeroId hl hh i hi
  simp only [zeroId] at this
  have hi' : i = c.length - 1 := by omega
  subst hi'
  unfold lastId
  rw [List.getLast?_eq_getElem?]
  simp [hi]

theorem chain_last_height (c : List Blk) (hl : Linked zeroId c) (hh : HeightsOK c) : (lastId c).2 = c.length := by
  have := linked_last_height c zeroId hl hh
  simp only [zeroId] at this
  rw [lastId_eq]; simpa [zeroId] using this

/-- in a chain from the zero identifier the block found at height i+1 is the i-th block -/
theorem byHeight_chain (c : List Blk) (hl : Linked zeroId c) (hh : HeightsOK c) (i : Nat) (hi : i < c.length) :
    byHeight c (i + 1) = some c[i] := by
  have hs := byHeight_isSome c hl hh (i + 1) (by omega) (by omega)
  cases hb : byHeight c (i + 1) with
  | none => rw [hb] at hs; cases hs
  | some b =>
    obtain ⟨hm, hht⟩ := byHeight_some hb
    obtain ⟨j, hj, rfl⟩ := List.getElem_of_mem hm
    have := linked_heights c zeroId hl hh j hj
    simp only [zeroId] at this
    have : j = i := by omega
    subst this; rfl

/-- reading the heights lo … lo+n-1 of a chain returns that slice -/
theorem uncommittedOf_chain (c : List Blk) (hl : Linked zeroId c) (hh : HeightsOK c) (lo : Nat) (hlo : 1 ≤ lo) :
    ∀ n, lo - 1 + n ≤ c.length → uncommittedOf c lo n = some ((c.drop (lo - 1)).take n)
  | 0, _ => by simp [uncommittedOf]
  | n + 1, hn => by
    have ih := uncommittedOf_chain c hl hh lo hlo n (by omega)
    have hi : lo - 1 + n < c.length := by omega
    have hb := byHeight_chain c hl hh (lo - 1 + n) hi
    have e : lo - 1 + n + 1 = lo + n := by omega
    rw [e] at hb
    unfold uncommittedOf
    simp only [hb, ih, Option.bind_eq_bind, Option.bind_some, Option.pure_def, Option.some.injEq]
    have hlen : n < (c.drop (lo - 1)).length := by simp only [List.length_drop]; omega
    rw [List.take_succ_eq_append_getElem hlen, List.getElem_drop]

theorem frontierId_add (m : Mgr) (b : Blk) : ({ m with pooled := m.pooled ++ [b] } : Mgr).frontierId = b.id := by
  rw [frontierId_eq]; exact lastIdFrom_concat _ _ _

/-- re-adding a list that links to the manager's frontier succeeds and appends it -/
theorem addAll_linked : ∀ (bs : List Blk) (m : Mgr), Linked m.frontierId bs →
    addAll m bs = some { m with pooled := m.pooled ++ bs }
  | [], m, _ => by simp [addAll]
  | b :: bs, m, h => by
    unfold addAll
    have ha : m.add b = some { m with pooled := m.pooled ++ [b] } := by simp [Mgr.add, h.1]
    simp only [ha]
    have := addAll_linked bs { m with pooled := m.pooled ++ [b] } (by rw [frontierId_add]; exact h.2)
    rw [this]; simp

/-- … and fails as a whole when the first block does not link -/
theorem addAll_unlinked (b : Blk) (bs : List Blk) (m : Mgr) (h : b.prev ≠ m.frontierId) : addAll m (b :: bs) = none := by
  simp [addAll, Mgr.add, h]

theorem linked_getElem_prev : ∀ (c : List Blk) (start : Id), Linked start c →
    ∀ (i : Nat) (h : i + 1 < c.length), c[i + 1].prev = c[i].id
  | [], _, _, i, h => by simp at h
  | [_], _, _, i, h => by simp at h
  | x :: y :: ys, start, hl, i, h => by
    cases i with
    | zero => simpa using hl.2.1
    | succ i =>
      have := linked_getElem_prev (y :: ys) x.id hl.2 i (by simpa using h)
      simpa using this

theorem lastId_take (c : List Blk) (k : Nat) (h1 : 1 ≤ k) (h2 : k ≤ c.length) :
    lastId (c.take k) = (c[k - 1]'(by omega)).id := by
  unfold lastId
  rw [List.getLast?_eq_getElem?]
  have hl : (c.take k).length = k := by simp [List.length_take]; omega
  simp only [hl]
  rw [List.getElem?_take_of_lt (by omega)]
  simp [List.getElem?_eq_getElem (show k - 1 < c.length by omega)]

/-- the rollback loop reaches any identifier that lies on the pooled chain (or is the stable identifier) and leaves
    exactly the pooled blocks up to it -/
theorem rollbackTo_reaches {conf : List Blk} : ∀ (fuel : Nat) (m : Mgr) (j : Nat), MgrOK conf m → j ≤ m.pooled.length →
    m.pooled.length - j < fuel →
    rollbackTo (lastIdFrom (lastId conf) (m.pooled.take j)) fuel m = ({ m with pooled := m.pooled.take j }, true)
  | 0, _, _, _, _, hf => by omega
  | fuel + 1, m, j, hm, hj, hf => by
    obtain ⟨hb, hl, hh⟩ := hm
    unfold rollbackTo
    have hfr : m.frontierId = lastIdFrom (lastId conf) m.pooled := by rw [frontierId_eq, hb]
    have hfh : (m.frontierId).2 = (lastId conf).2 + m.pooled.length := by
      rw [hfr]; exact linked_last_height _ _ hl hh
    have hth : (lastIdFrom (lastId conf) (m.pooled.take j)).2 = (lastId conf).2 + j := by
      rw [linked_last_height _ _ (linked_take j _ _ hl) (heightsOK_take j hh)]
      simp [List.length_take]; omega
    by_cases hfe : m.frontierId = lastIdFrom (lastId conf) (m.pooled.take j)
    · have : j = m.pooled.length := by
        have : (m.frontierId).2 = (lastIdFrom (lastId conf) (m.pooled.take j)).2 := by rw [hfe]
        omega
      simp only [hfe, if_true]
      rw [this, List.take_length]
    · simp only [hfe, if_false]
      have hjlt : j < m.pooled.length := by
        apply Classical.byContradiction
        intro hn
        have : j = m.pooled.length := by omega
        apply hfe
        rw [hfr, this, List.take_length]
      have hpop : m.pop = some { m with pooled := m.pooled.dropLast } := by
        unfold Mgr.pop
        have : lastId m.base ≠ m.frontierId := by
          intro he
          have : (lastId m.base).2 = (m.frontierId).2 := by rw [he]
          rw [hb] at this
          omega
        simp [this]
      simp only [hpop]
      have hm' : MgrOK conf { m with pooled := m.pooled.dropLast } :=
        ⟨hb, linked_dropLast _ _ hl, heightsOK_dropLast hh⟩
      have hlen : m.pooled.dropLast.length = m.pooled.length - 1 := by simp
      have ih := rollbackTo_reaches fuel { m with pooled := m.pooled.dropLast } j hm' (by simp only [hlen]; omega)
        (by simp only [hlen]; omega)
      have htk : m.pooled.dropLast.take j = m.pooled.take j := by
        rw [List.dropLast_eq_take, List.take_take]
        congr 1; omega
      simp only [htk] at ih
      exact ih

/-! #### the invariant -/

/-- the confirmed chain is a chain from the zero identifier, and the manager (if any) is built on it -/
def Inv (s : PState) : Prop :=
  Linked zeroId s.confirmed ∧ HeightsOK s.confirmed ∧ ∀ m, s.mgr = some m → MgrOK s.confirmed m

/-- what the callers guarantee about an operation: blocks have height ≥ 1 (verifier) and a block added on its own is
    not a ContractSend (`Supervisor.ApplyBlock` refuses them; they only travel as descendants of a contract receive); a
    momentum extends the account chain by blocks that link to it (chain insert) -/
def OpOK (s : PState) : Op → Prop
  | .add b _ => b.height ≠ 0 ∧ isContractSend b.btype = false
  | .insert nb => Linked (lastId s.confirmed) nb ∧ HeightsOK nb
  | .delete _ => True

instance (s : PState) (op : Op) : Decidable (OpOK s op) := by
  cases op <;> unfold OpOK <;> infer_instance

/-- states reachable from a confirmed chain `c0` with an empty pool -/
inductive Reachable (c0 : List Blk) : PState → Prop
  | init : Linked zeroId c0 → HeightsOK c0 → Reachable c0 ⟨c0, none⟩
  | step {s : PState} (op : Op) : Reachable c0 s → OpOK s op → Reachable c0 (step s op)

theorem manager_ok {s : PState} (h : Inv s) : MgrOK s.confirmed s.manager := by
  unfold PState.manager
  cases hm : s.mgr with
  | none => exact ⟨rfl, trivial, fun _ hb => by simp at hb⟩
  | some m => exact h.2.2 m hm

theorem inv_set_mgr {s : PState} {m : Mgr} (h : Inv s) (hm : MgrOK s.confirmed m) : Inv { s with mgr := some m } :=
  ⟨h.1, h.2.1, fun m' hm' => by simp at hm'; subst hm'; exact hm⟩

theorem addBlock_confirmed (s : PState) (b : Blk) (f : Bool) : (addBlock s b f).1.confirmed = s.confirmed := by
  unfold addBlock
  simp only
  repeat' split
  all_goals rfl

theorem addBlock_inv {s : PState} (h : Inv s) (b : Blk) (f : Bool) (hb : b.height ≠ 0) : Inv (addBlock s b f).1 := by
  have hm := manager_ok h
  unfold addBlock
  simp only
  split
  · split
    · rename_i m' ha; exact inv_set_mgr h (add_ok hm hb ha).1
    · exact inv_set_mgr h hm
  · split
    · exact inv_set_mgr h hm
    · split
      · exact inv_set_mgr h hm
      · split
        · exact inv_set_mgr h hm
        · split
          · exact inv_set_mgr h hm
          · split
            · exact inv_set_mgr h hm
            · have hr := rollbackTo_ok b.prev (s.manager.pooled.length + 1) s.manager hm
              generalize rollbackTo b.prev (s.manager.pooled.length + 1) s.manager = r at hr
              obtain ⟨m', reached⟩ := r
              simp only at hr ⊢
              split
              · exact inv_set_mgr h hr.1
              · split
                · rename_i m'' ha; exact inv_set_mgr h (add_ok hr.1 hb ha).1
                · exact inv_set_mgr h hr.1

theorem insertMomentum_inv {s : PState} (h : Inv s) (nb : List Blk) (hl : Linked (lastId s.confirmed) nb)
    (hh : HeightsOK nb) : Inv (insertMomentum s nb).1 := by
  have hc : Linked zeroId (s.confirmed ++ nb) := (linked_append nb s.confirmed zeroId).mpr ⟨h.1, hl⟩
  have hhc : HeightsOK (s.confirmed ++ nb) := heightsOK_append.mpr ⟨h.2.1, hh⟩
  unfold insertMomentum
  simp only
  split
  · exact ⟨hc, hhc, fun m hm => by simp at hm⟩
  · split
    · exact ⟨hc, hhc, fun m hm => by simp at hm⟩
    · exact ⟨hc, hhc, fun m hm => by simp at hm⟩
    · rename_i unc _ hu
      split
      · exact ⟨hc, hhc, fun m hm => by simp at hm⟩
      · rename_i m ha
        have hunc := (uncommittedOf_heights _ _ (by omega) _ _ hu).1
        have hf : HeightsOK (unc.filter (fun b => !isContractSend b.btype)) :=
          fun b hb => hunc b (List.mem_filter.mp hb).1
        have hok : MgrOK (s.confirmed ++ nb) ⟨s.confirmed ++ nb, []⟩ := ⟨rfl, trivial, fun _ hb => by simp at hb⟩
        have := (addAll_ok _ _ m hok hf ha).1
        exact ⟨hc, hhc, fun m' hm' => by simp at hm'; subst hm'; exact this⟩

theorem deleteMomentum_inv {s : PState} (h : Inv s) (k : Nat) : Inv (deleteMomentum s k) :=
  ⟨linked_take k _ _ h.1, heightsOK_take k h.2.1, fun m hm => by simp [deleteMomentum] at hm⟩

theorem reachable_inv {c0 : List Blk} {s : PState} (hr : Reachable c0 s) : Inv s := by
  induction hr with
  | init h1 h2 => exact ⟨h1, h2, fun m hm => by simp at hm⟩
  | step op _ hop ih =>
    cases op with
    | add b f => exact addBlock_inv ih b f hop.1
    | insert nb => exact insertMomentum_inv ih nb hop.1 hop.2
    | delete k => exact deleteMomentum_inv ih k

/-! #### no ContractSend is pooled on its own -/

def NoCS (xs : List Blk) : Prop := ∀ b ∈ xs, isContractSend b.btype = false

theorem rollbackTo_subset (prev : Id) : ∀ (fuel : Nat) (m : Mgr), ∀ x ∈ (rollbackTo prev fuel m).1.pooled, x ∈ m.pooled
  | 0, m, x, hx => by simpa [rollbackTo] using hx
  | fuel + 1, m, x, hx => by
    unfold rollbackTo at hx
    by_cases hf : m.frontierId = prev
    · simpa [hf] using hx
    · simp only [hf, if_false] at hx
      cases hp : m.pop with
      | none => simpa [hp] using hx
      | some m' =>
        simp only [hp] at hx
        have h1 := rollbackTo_subset prev fuel m' x hx
        unfold Mgr.pop at hp
        split at hp
        · cases hp
        · cases hp; exact List.dropLast_subset _ h1

theorem add_pooled {m m' : Mgr} {b : Blk} (h : m.add b = some m') : m'.pooled = m.pooled ++ [b] := by
  unfold Mgr.add at h
  split at h
  · cases h; rfl
  · cases h

theorem addBlock_pooled_subset (s : PState) (b : Blk) (f : Bool) :
    ∀ x ∈ (addBlock s b f).1.manager.pooled, x ∈ s.manager.pooled ∨ x = b := by
  intro x
  unfold addBlock
  simp only
  have hs1 : ({ s with mgr := some s.manager } : PState).manager = s.manager := rfl
  have hroll := rollbackTo_subset b.prev (s.manager.pooled.length + 1) s.manager
  generalize rollbackTo b.prev (s.manager.pooled.length + 1) s.manager = r at hroll
  obtain ⟨m', reached⟩ := r
  simp only at hroll
  repeat' split
  all_goals (intro hx; simp only [PState.manager, Option.getD_some] at hx)
  all_goals first
    | (left; exact hx)
    | (rename_i ha; rw [add_pooled ha] at hx
       rcases List.mem_append.mp hx with h | h
       · first | (left; exact h) | (left; exact hroll x h)
       · right; simpa using h)
    | (left; exact hroll x hx)

theorem reachable_nocs {c0 : List Blk} {s : PState} (hr : Reachable c0 s) : NoCS s.manager.pooled := by
  induction hr with
  | init _ _ => intro b hb; simp [PState.manager] at hb
  | step op _ hop ih =>
    cases op with
    | add b f =>
      intro x hx
      rcases addBlock_pooled_subset _ b f x hx with h | h
      · exact ih x h
      · rw [h]; exact hop.2
    | insert nb =>
      intro x hx
      simp only [step, insertMomentum] at hx
      repeat' split at hx
      all_goals (simp only [PState.manager, Option.getD_some, Option.getD_none] at hx)
      all_goals first
        | (simp at hx; done)
        | (rename_i ha
           have := addAll_pooled _ _ _ ha
           rw [this] at hx
           simp only [List.nil_append, List.mem_filter] at hx
           simpa using hx.2)
    | delete k => intro x hx; simp [step, deleteMomentum, PState.manager] at hx

end ZV.Pool
