import ZenonVerif.Lemmas.LedgerInv
/-
Conservation: Σ balances + Σ unreceived sends per token, and how each primitive effect moves it.
-/
namespace ZV.Ledger

/-- Σ of all balances of token `t` -/
def sumBal (s : State) (t : Tok) : Nat := sumBalL s.bal t

/-- Σ of the amounts of token `t` in confirmed sends nobody has received yet -/
def inflightSum (s : State) (t : Tok) : Nat :=
  (s.unreceived.map (fun x => if x.tok = t then x.amt else 0)).sum

/-- supply recorded in the token contract's storage (0 for an unknown token) -/
def supplyOf (s : State) (t : Tok) : Nat := supplyOfL s.toks t

/-- the conservation equation, for every real token -/
def Conserved (s : State) : Prop :=
  ∀ t, t ≠ zeroTok → supplyOf s t = sumBal s t + inflightSum s t

def SupplyLeMax (s : State) : Prop := ∀ t i, getTok s.toks t = some i → i.supply ≤ i.max

/-- every confirmed send passed the send-time validation of its token call -/
def CallsOk (s : State) : Prop := ∀ x ∈ s.sends, CallOk x.call

/-! ### balances -/

theorem sumBal_credit (s : State) (a : Addr) (t : Tok) (n : Nat) (t' : Tok) :
    sumBal (s.credit a t n) t' = sumBal s t' + (if t = t' then n else 0) := by
  have := sumBalL_setBal s.bal a t (getBal s.bal a t + n) t'
  simp only [sumBal, State.credit]
  split at this <;> simp_all <;> omega

theorem sumBal_debit (s : State) (a : Addr) (t : Tok) (n : Nat) (t' : Tok) (hle : n ≤ getBal s.bal a t) :
    sumBal (s.debit a t n) t' + (if t = t' then n else 0) = sumBal s t' := by
  have := sumBalL_setBal s.bal a t (getBal s.bal a t - n) t'
  simp only [sumBal, State.debit]
  split at this <;> simp_all <;> omega

theorem getBal_credit (s : State) (a : Addr) (t : Tok) (n : Nat) (a' : Addr) (t' : Tok) :
    getBal (s.credit a t n).bal a' t' = getBal s.bal a' t' + (if (a, t) = (a', t') then n else 0) := by
  simp only [State.credit, getBal_setBal]
  split
  · rename_i h; cases h; rfl
  · rfl

theorem getBal_debit (s : State) (a : Addr) (t : Tok) (n : Nat) (a' : Addr) (t' : Tok)
    (hle : n ≤ getBal s.bal a t) :
    getBal (s.debit a t n).bal a' t' + (if (a, t) = (a', t') then n else 0) = getBal s.bal a' t' := by
  simp only [State.debit, getBal_setBal]
  split
  · rename_i h; cases h; omega
  · rfl

/-! ### in-flight sends -/

theorem sum_filter_congr_hash (r : List Send) (P : Send → Bool) (h : Hash)
    (hne : ∀ z ∈ r, z.hash ≠ h) :
    r.filter (fun y => !(h == y.hash) && P y) = r.filter P := by
  apply List.filter_congr
  intro z hz
  have : (h == z.hash) = false := by
    simp only [beq_eq_false_iff_ne, ne_eq]
    exact fun he => hne z hz he.symm
  simp [this]

/-- removing the one send with hash `x.hash` from a filtered sum -/
theorem sum_filter_remove (l : List Send) (P : Send → Bool) (f : Send → Nat) (x : Send)
    (hnd : (l.map (·.hash)).Nodup) (hx : x ∈ l) (hP : P x = true) :
    ((l.filter (fun y => !(x.hash == y.hash) && P y)).map f).sum + f x = ((l.filter P).map f).sum := by
  induction l with
  | nil => simp at hx
  | cons y r ih =>
    simp only [List.map_cons, List.nodup_cons] at hnd
    rcases List.mem_cons.1 hx with rfl | hx'
    · have hne : ∀ z ∈ r, z.hash ≠ x.hash := by
        intro z hz he
        exact hnd.1 (he ▸ List.mem_map.2 ⟨z, hz, rfl⟩)
      rw [List.filter_cons, List.filter_cons]
      simp only [beq_self_eq_true, Bool.not_true, Bool.false_and, hP, if_true, List.map_cons, List.sum_cons]
      rw [sum_filter_congr_hash r P x.hash hne]
      simp only [Bool.false_eq_true, if_false]
      omega
    · have hne : (x.hash == y.hash) = false := by
        simp only [beq_eq_false_iff_ne, ne_eq]
        intro he
        exact hnd.1 (he ▸ List.mem_map.2 ⟨x, hx', rfl⟩)
      have ih' := ih hnd.2 hx'
      rw [List.filter_cons, List.filter_cons]
      simp only [hne, Bool.not_false, Bool.true_and]
      split
      · simp only [List.map_cons, List.sum_cons]; omega
      · exact ih'

theorem isReceived_pushSend (s : State) (x : Send) (h : Hash) : (pushSend s x).isReceived h = s.isReceived h := rfl

theorem unreceived_pushSend {s : State} (hw : WF s) {x : Send} (hf : x.hash ∉ s.sends.map (·.hash)) :
    (pushSend s x).unreceived = s.unreceived ++ [x] := by
  have hnr := hw.not_received hf
  show (s.sends ++ [x]).filter (fun y => !(pushSend s x).isReceived y.hash) = _
  simp only [isReceived_pushSend, List.filter_append, State.unreceived]
  congr 1
  simp [hnr]

theorem inflight_pushSend {s : State} (hw : WF s) {x : Send} (hf : x.hash ∉ s.sends.map (·.hash)) (t : Tok) :
    inflightSum (pushSend s x) t = inflightSum s t + (if x.tok = t then x.amt else 0) := by
  simp only [inflightSum, unreceived_pushSend hw hf, List.map_append, List.sum_append]
  simp

/-- under the gate, the send a receive is about to consume is unreceived -/
theorem checkFrom_unreceived {s : State} (hw : WF s) (hg : s.gate = true) {a : Addr} {h : Hash} {snd : Send}
    (hc : checkFrom s a h = .ok snd) : s.isReceived h = false := by
  obtain ⟨hfind, hdst, hnot⟩ := checkFrom_ok.1 hc
  obtain ⟨hmem, hh⟩ := findSend_some hfind
  unfold State.isReceived
  rw [List.any_eq_false]
  intro m hm
  simp only [beq_iff_eq]
  intro he
  have h1 := hw.recvAddressee hg m hm snd hmem (hh.trans he.symm)
  have h2 := hdst hg
  apply hnot
  have : m = (a, h) := by
    cases m with
    | mk m1 m2 => simp only at he h1; subst he; rw [← h1, h2]
  rw [← this]; exact hm

theorem inflight_recvCore {s : State} (hw : WF s) (hg : s.gate = true) {a : Addr} {h : Hash} {snd : Send}
    (hc : checkFrom s a h = .ok snd) (t : Tok) :
    inflightSum (recvCore s a h snd) t + (if snd.tok = t then snd.amt else 0) = inflightSum s t := by
  have hun := checkFrom_unreceived hw hg hc
  obtain ⟨hfind, _, _⟩ := checkFrom_ok.1 hc
  obtain ⟨hmem, hh⟩ := findSend_some hfind
  subst hh
  have hfun : (fun y : Send => !(recvCore s a snd.hash snd).isReceived y.hash)
      = fun y => !(snd.hash == y.hash) && !s.isReceived y.hash := by
    funext y
    simp [recvCore, State.isReceived, State.credit, List.any_cons, Bool.not_or]
  have := sum_filter_remove s.sends (fun y => !s.isReceived y.hash) (fun x => if x.tok = t then x.amt else 0) snd
    hw.sendHashes hmem (by simp [hun])
  simp only [inflightSum, State.unreceived]
  show ((s.sends.filter (fun y => !(recvCore s a snd.hash snd).isReceived y.hash)).map _).sum + _ = _
  rw [hfun]
  exact this

/-! ### Σ balances + Σ in flight is unchanged by send and receive -/

def total (s : State) (t : Tok) : Nat := sumBal s t + inflightSum s t

theorem sumBal_pushSend (s : State) (x : Send) (t : Tok) (hle : x.amt ≤ getBal s.bal x.src x.tok) :
    sumBal (pushSend s x) t + (if x.tok = t then x.amt else 0) = sumBal s t :=
  sumBal_debit s x.src x.tok x.amt t hle

theorem total_applySend {s s' : State} (hw : WF s) {src dst : Addr} {tok : Tok} {amt : Nat} {h : Hash} {call : TokCall}
    (hf : h ∉ s.sends.map (·.hash)) (hok : applySend s src dst tok amt h call = .ok s') (t : Tok) :
    total s' t = total s t := by
  obtain ⟨_, hle, rfl⟩ := applySend_ok hok
  have h1 := sumBal_pushSend s ⟨h, src, dst, tok, amt, call⟩ t hle
  have h2 := inflight_pushSend hw (x := ⟨h, src, dst, tok, amt, call⟩) hf t
  simp only [total]
  omega

theorem sumBal_recvCore (s : State) (a : Addr) (h : Hash) (snd : Send) (t : Tok) :
    sumBal (recvCore s a h snd) t = sumBal s t + (if snd.tok = t then snd.amt else 0) :=
  sumBal_credit s a snd.tok snd.amt t

theorem total_recvCore {s : State} (hw : WF s) (hg : s.gate = true) {a : Addr} {h : Hash} {snd : Send}
    (hc : checkFrom s a h = .ok snd) (t : Tok) : total (recvCore s a h snd) t = total s t := by
  have h1 := sumBal_recvCore s a h snd t
  have h2 := inflight_recvCore hw hg hc t
  simp only [total]
  omega

theorem total_applyDescs {c : Addr} : ∀ {ds : List Desc} {s s' : State}, WF s → FreshDescs s ds →
    applyDescs s c ds = .ok s' → ∀ t, total s' t = total s t
  | [], s, s', _, _, hok, t => by simp only [applyDescs] at hok; cases hok; rfl
  | d :: ds, s, s', hw, hf, hok, t => by
    obtain ⟨s1, h1, h2⟩ := applyDescs_cons_ok hok
    have hw1 := hw.applySend hf.head h1
    have ht1 := total_applySend hw hf.head h1 t
    obtain ⟨_, _, he⟩ := applySend_ok h1
    rw [total_applyDescs hw1 (hf.tail (c := c) he) h2 t, ht1]

theorem Conserved.of_total {s s' : State} (hc : Conserved s) (ht : s'.toks = s.toks)
    (htot : ∀ t, total s' t = total s t) : Conserved s' := by
  intro t hz
  have := hc t hz
  have h2 := htot t
  simp only [total] at h2
  simp only [supplyOf, ht] at this ⊢
  omega

/-! ### the token contract's own effect -/

theorem supplyOfL_setTok (toks : List (Tok × TokInfo)) (t : Tok) (i : TokInfo) (t' : Tok) :
    supplyOfL (setTok toks t i) t' = if t = t' then i.supply else supplyOfL toks t' := by
  simp only [supplyOfL, getTok_setTok]
  by_cases h : t = t' <;> simp [h]

theorem inflight_of_frame {s s' : State} (hs : s'.sends = s.sends) (hr : s'.recv = s.recv) (t : Tok) :
    inflightSum s' t = inflightSum s t := by
  simp only [inflightSum, State.unreceived, State.isReceived, hs, hr]

/-- mint/burn move the recorded supply and the contract's balance by the same amount; needs the burn guard and
    conservation before (so that the burned amount is within the recorded supply) -/
theorem Conserved.tokStep {s1 : State} (hc : Conserved s1) (c : Addr) {snd : Send} {n : Tok} {out : TokOutcome}
    (hm : tokenMethod s1.toks snd n = some out)
    (hburn : out.burn ≤ getBal (tokMint s1 c out).bal c out.mintTok) : Conserved (tokApply s1 c out) := by
  obtain ⟨i', ht, hsup, _⟩ := tokenMethod_summary hm
  intro t hz
  have hcs := hc t hz
  have hinf : inflightSum (tokApply s1 c out) t = inflightSum s1 t := inflight_of_frame rfl rfl t
  have hsb1 : sumBal (tokMint s1 c out) t = sumBal s1 t + (if out.mintTok = t then out.mint else 0) :=
    sumBal_credit s1 c out.mintTok out.mint t
  have hsb2 : sumBal (tokApply s1 c out) t + (if out.mintTok = t then out.burn else 0) = sumBal (tokMint s1 c out) t :=
    sumBal_debit (tokMint s1 c out) c out.mintTok out.burn t hburn
  have hgb : getBal (tokMint s1 c out).bal c out.mintTok = getBal s1.bal c out.mintTok + out.mint := by
    have := getBal_credit s1 c out.mintTok out.mint c out.mintTok
    simp only [if_true] at this
    exact this
  have hle : getBal s1.bal c out.mintTok ≤ sumBal s1 out.mintTok := getBal_le_sumBalL _ _ _
  have hsup' : supplyOf (tokApply s1 c out) t = if out.mintTok = t then i'.supply else supplyOf s1 t := by
    show supplyOfL out.toks t = _
    rw [ht, supplyOfL_setTok]; rfl
  rw [hsup', hinf]
  by_cases he : out.mintTok = t
  · subst he
    simp only [if_true] at hsb1 hsb2 ⊢
    simp only [supplyOf] at hcs
    omega
  · simp only [he, if_false] at hsb1 hsb2 ⊢
    omega

/-- the `supply − amt` of a burn does not truncate: the burned amount is within the recorded supply -/
theorem burn_le_supply {s1 : State} (hc : Conserved s1) (c : Addr) {out : TokOutcome}
    (hz : out.mintTok ≠ zeroTok)
    (hburn : out.burn ≤ getBal (tokMint s1 c out).bal c out.mintTok) :
    out.burn ≤ supplyOf s1 out.mintTok + out.mint := by
  have hcs := hc _ hz
  have hgb : getBal (tokMint s1 c out).bal c out.mintTok = getBal s1.bal c out.mintTok + out.mint := by
    have := getBal_credit s1 c out.mintTok out.mint c out.mintTok
    simp only [if_true] at this
    exact this
  have hle : getBal s1.bal c out.mintTok ≤ sumBal s1 out.mintTok := getBal_le_sumBalL _ _ _
  omega

end ZV.Ledger
