import ZenonVerif.Model.CodecPB
import ZenonVerif.Lemmas.Codec
/-
Helper lemmas for C13, protobuf part: Proto/DeProto round trip, varint and record round trips.
-/
namespace ZV.Codec
open ZV

theorem bytesToBigInt_bigIntToBytes (a : Int) (h : 0 ≤ a) : bytesToBigInt (bigIntToBytes a) = a := by
  simp only [bytesToBigInt, beVal_bigIntToBytes]
  omega

theorem deProtoFixed_some (w : Nat) (b : Bytes) (h : b.length = w) : deProtoFixed w (some b) = some b := by
  simp [deProtoFixed, h]

theorem ABody.deProto_proto (b : ABody) (w : b.PBWF) : b.proto.deProto = some b := by
  obtain ⟨w1, w2, w3, w4, w5, w6, w7, w8, w9, w10⟩ := w
  cases b with
  | mk version chainIdentifier blockType hash previousHash height ma address toAddress amount tokenStandard
      fromBlockHash data fusedPlasma difficulty nonce basePlasma totalPlasma changesHash publicKey signature =>
  cases ma with
  | mk mah maht =>
  simp only at w1 w2 w3 w4 w5 w6 w7 w8 w9 w10
  simp [ABodyPB.deProto, ABody.proto, HashHeight.proto, deProtoHashHeight, deProtoFixed_some, *,
    bytesToBigInt_bigIntToBytes]

theorem Block.deProto_proto (b : Block) : b.PBWF → b.proto.deProto = some b := by
  refine Block.rec
    (motive_1 := fun b => b.PBWF → b.proto.deProto = some b)
    (motive_2 := fun ds => PBWFList ds → deProtoList (protoList ds) = some ds)
    ?_ ?_ ?_ b
  · intro body ds ih w
    rw [Block.PBWF] at w
    rw [Block.proto, BlockPB.deProto, ABody.deProto_proto body w.1, ih w.2]
    rfl
  · intro _; rfl
  · intro d ds ihd ihds w
    rw [PBWFList] at w
    rw [protoList, deProtoList, ihd w.1, ihds w.2]
    rfl

end ZV.Codec

namespace ZV.Codec
open ZV

theorem deProtoContent_proto : ∀ (c : List AccountHeader),
    (∀ h ∈ c, h.address.length = Gen.AddressSize ∧ h.hash.length = Gen.HashSize) →
    deProtoContent (c.map AccountHeader.proto) = some c := by
  intro c
  induction c with
  | nil => intro _; rfl
  | cons h hs ih =>
    intro w
    have wh := w h (by simp)
    have := ih (fun x hx => w x (by simp [hx]))
    cases h with
    | mk a hh ht =>
    simp only at wh
    simp [deProtoContent, this, deProtoAccountHeader, AccountHeader.proto, deProtoHashHeight, deProtoFixed_some, wh.1, wh.2]

theorem Momentum.deProto_proto (m : Momentum) (w : m.PBWF) : m.proto.deProto = some m := by
  obtain ⟨w1, w2, w3, w4⟩ := w
  cases m
  simp only at w1 w2 w3 w4
  simp [MomentumPB.deProto, Momentum.proto, deProtoFixed_some, deProtoContent_proto _ w3, w1, w2, w4]

/-! ### varint -/

/-- `protowire.ConsumeVarint`: at most 10 bytes, the 10th at most 1 (64 bits); `none` = truncated / overflow -/
theorem varintAux_fuel : ∀ (f g n : Nat), n < f → n < g → varintAux f n = varintAux g n := by
  intro f
  induction f with
  | zero => intro g n h; omega
  | succ f ih =>
    intro g n hf hg
    cases g with
    | zero => omega
    | succ g =>
      unfold varintAux
      split
      · rfl
      · next hn =>
        have : n / 128 < n := Nat.div_lt_self (by omega) (by decide)
        rw [ih g (n / 128) (by omega) (by omega)]

theorem varint_lt (n : Nat) (h : n < 128) : varint n = [n] := by
  simp [varint, varintAux, h]

theorem varint_ge (n : Nat) (h : 128 ≤ n) : varint n = (n % 128 + 128) :: varint (n / 128) := by
  have hd : n / 128 < n := Nat.div_lt_self (by omega) (by decide)
  unfold varint
  rw [varintAux]
  simp only [show ¬ n < 128 by omega, if_false]
  rw [varintAux_fuel n (n / 128 + 1) (n / 128) hd (by omega)]

theorem varint_ne_nil (n : Nat) : varint n ≠ [] := by
  by_cases h : n < 128
  · simp [varint_lt n h]
  · simp [varint_ge n (by omega)]

end ZV.Codec

namespace ZV.Codec
open ZV

theorem decVarintAux_varint : ∀ (k n mult acc : Nat) (rest : Bytes), n < 2 * 128 ^ k →
    decVarintAux (k + 1) mult acc (varint n ++ rest) = some (acc + mult * n, rest) := by
  intro k
  induction k with
  | zero =>
    intro n mult acc rest h
    have h2 : n < 2 := by simpa using h
    rw [varint_lt n (by omega)]
    simp only [List.cons_append, List.nil_append, decVarintAux]
    have : ¬ (2 ≤ n) := by omega
    simp [show n < 128 by omega, this]
  | succ k ih =>
    intro n mult acc rest h
    by_cases hn : n < 128
    · rw [varint_lt n hn]
      simp [decVarintAux, hn]
    · rw [varint_ge n (by omega)]
      simp only [List.cons_append, decVarintAux]
      have hb : ¬ (n % 128 + 128 < 128) := by omega
      simp only [hb, if_false]
      have hd : n / 128 < 2 * 128 ^ k := by
        apply Nat.div_lt_of_lt_mul
        rw [Nat.pow_succ] at h
        calc n < 2 * (128 ^ k * 128) := h
          _ = 128 * (2 * 128 ^ k) := by rw [Nat.mul_comm (128 ^ k) 128, Nat.mul_left_comm]
      rw [ih (n / 128) (mult * 128) _ rest hd]
      have e : n % 128 + 128 - 128 = n % 128 := by omega
      rw [e]
      have hn' := Nat.div_add_mod n 128
      have key : acc + mult * (n % 128) + mult * 128 * (n / 128) = acc + mult * n := by
        calc acc + mult * (n % 128) + mult * 128 * (n / 128)
            = acc + mult * (128 * (n / 128) + n % 128) := by
              rw [Nat.mul_add, Nat.mul_assoc]; omega
          _ = acc + mult * n := by rw [hn']
      rw [key]

theorem decVarint_varint (n : Nat) (rest : Bytes) (h : n < two64) :
    decVarint (varint n ++ rest) = some (n, rest) := by
  have e : two64 = 2 * 128 ^ 9 := by rfl
  have := decVarintAux_varint 9 n 1 0 rest (by rw [← e]; exact h)
  simpa [decVarint] using this

/-- a record the Go encoder can produce and the Go decoder accepts -/
def WField.Valid (f : WField) : Prop :=
  1 ≤ f.num ∧ f.num ≤ maxFieldNumber ∧
  match f.val with
  | .varint v => v < two64
  | .len b => b.length < two64
  | .fixed wt b => (wt = 1 ∧ b.length = 8) ∨ (wt = 5 ∧ b.length = 4)

theorem decField_encField (f : WField) (rest : Bytes) (hv : f.Valid) :
    decField (encField f ++ rest) = some (f, rest) := by
  obtain ⟨num, val⟩ := f
  obtain ⟨h1, h2, h3⟩ := hv
  simp only at h1 h2 h3
  have hmax : maxFieldNumber = 536870911 := rfl
  cases val with
  | varint v =>
    simp only at h3
    have ht : num * 8 + 0 < two64 := by simp only [two64]; omega
    simp only [encField, tag, List.append_assoc, decField]
    rw [decVarint_varint _ _ ht]
    have e1 : (num * 8 + 0) / 8 = num := by omega
    have e2 : (num * 8 + 0) % 8 = 0 := by omega
    simp only [Option.bind_eq_bind, Option.bind_some, e1, e2]
    have : ¬ (num < 1 ∨ maxFieldNumber < num) := by omega
    simp only [this, if_false]
    rw [decVarint_varint _ _ h3]
    rfl
  | len b =>
    simp only at h3
    have ht : num * 8 + 2 < two64 := by simp only [two64]; omega
    simp only [encField, tag, List.append_assoc, decField]
    rw [decVarint_varint _ _ ht]
    have e1 : (num * 8 + 2) / 8 = num := by omega
    have e2 : (num * 8 + 2) % 8 = 2 := by omega
    simp only [Option.bind_eq_bind, Option.bind_some, e1, e2]
    have : ¬ (num < 1 ∨ maxFieldNumber < num) := by omega
    simp only [this, if_false]
    rw [decVarint_varint _ _ h3]
    simp
  | fixed wt b =>
    simp only at h3
    rcases h3 with ⟨rfl, hb⟩ | ⟨rfl, hb⟩
    · have ht : num * 8 + 1 < two64 := by simp only [two64]; omega
      simp only [encField, tag, List.append_assoc, decField]
      rw [decVarint_varint _ _ ht]
      have e1 : (num * 8 + 1) / 8 = num := by omega
      have e2 : (num * 8 + 1) % 8 = 1 := by omega
      simp only [Option.bind_eq_bind, Option.bind_some, e1, e2]
      have : ¬ (num < 1 ∨ maxFieldNumber < num) := by omega
      simp only [this, if_false]
      have hl : ¬ ((b ++ rest).length < 8) := by simp; omega
      simp only [hl, if_false]
      rw [← hb]; simp
    · have ht : num * 8 + 5 < two64 := by simp only [two64]; omega
      simp only [encField, tag, List.append_assoc, decField]
      rw [decVarint_varint _ _ ht]
      have e1 : (num * 8 + 5) / 8 = num := by omega
      have e2 : (num * 8 + 5) % 8 = 5 := by omega
      simp only [Option.bind_eq_bind, Option.bind_some, e1, e2]
      have : ¬ (num < 1 ∨ maxFieldNumber < num) := by omega
      simp only [this, if_false]
      have hl : ¬ ((b ++ rest).length < 4) := by simp; omega
      simp only [hl, if_false]
      rw [← hb]; simp

theorem encField_ne_nil (f : WField) : encField f ≠ [] := by
  obtain ⟨num, val⟩ := f
  cases val <;> simp [encField, tag, varint_ne_nil]

theorem encField_length_pos (f : WField) : 0 < (encField f).length :=
  List.length_pos_iff.mpr (encField_ne_nil f)

theorem encFields_cons (f : WField) (fs : List WField) : encFields (f :: fs) = encField f ++ encFields fs := by
  simp [encFields]

theorem encFields_append (xs ys : List WField) : encFields (xs ++ ys) = encFields xs ++ encFields ys := by
  simp [encFields]

theorem encFields_length_ge (fs : List WField) : fs.length ≤ (encFields fs).length := by
  induction fs with
  | nil => simp [encFields]
  | cons f fs ih =>
    rw [encFields_cons]
    have := encField_length_pos f
    simp only [List.length_append, List.length_cons]; omega

theorem decFields_encFields : ∀ (fs : List WField) (fuel : Nat), fs.length ≤ fuel → (∀ f ∈ fs, f.Valid) →
    decFields fuel (encFields fs) = some fs := by
  intro fs
  induction fs with
  | nil => intro fuel _ _; cases fuel <;> simp [encFields, decFields]
  | cons f fs ih =>
    intro fuel hl hv
    cases fuel with
    | zero => simp at hl
    | succ fuel =>
      rw [encFields_cons]
      have hne := encField_ne_nil f
      cases hc : encField f ++ encFields fs with
      | nil => simp at hc; exact absurd hc.1 hne
      | cons x xs =>
        rw [decFields]
        · rw [← hc, decField_encField f _ (hv f (by simp))]
          simp only [Option.bind_eq_bind, Option.bind_some]
          rw [ih fuel (by simpa using hl) (fun g hg => hv g (by simp [hg]))]
          rfl
        · intro h; cases h

/-- (iii) generic decoder round trip: a sequence of valid records (varint and length-delimited fields in any
    order, any field numbers) is parsed back exactly -/
theorem parseFields_encFields (fs : List WField) (hv : ∀ f ∈ fs, f.Valid) :
    parseFields (encFields fs) = some fs :=
  decFields_encFields fs _ (encFields_length_ge fs) hv

end ZV.Codec
