import ZenonVerif.Lemmas.Consensus
/-
Helper lemmas for `GetMomentumBeforeTime` (C05 d): Go's sort.Search, the reversed-range scan of the
specification, partial correctness of the estimate loop.
-/
namespace ZV.Consensus
open ZV

/-! ### the specification scan -/

theorem findLast_some (p : Nat → Bool) : ∀ (n i : Nat), (List.range n).reverse.find? p = some i →
    i < n ∧ p i = true ∧ ∀ j, i < j → j < n → p j = false
  | 0, i, h => by simp at h
  | n + 1, i, h => by
    rw [List.range_succ, List.reverse_append, List.reverse_singleton, List.singleton_append, List.find?_cons] at h
    cases hp : p n with
    | true =>
      rw [hp] at h
      simp only [Option.some.injEq] at h
      subst h
      exact ⟨by omega, hp, fun j h1 h2 => by omega⟩
    | false =>
      rw [hp] at h
      obtain ⟨h1, h2, h3⟩ := findLast_some p n i h
      refine ⟨by omega, h2, ?_⟩
      intro j hj1 hj2
      by_cases hjn : j = n
      · rw [hjn]; exact hp
      · exact h3 j hj1 (by omega)

theorem findLast_none (p : Nat → Bool) : ∀ (n : Nat), (List.range n).reverse.find? p = none →
    ∀ j, j < n → p j = false
  | 0, _, j, hj => by omega
  | n + 1, h, j, hj => by
    rw [List.range_succ, List.reverse_append, List.reverse_singleton, List.singleton_append, List.find?_cons] at h
    cases hp : p n with
    | true => rw [hp] at h; cases h
    | false =>
      rw [hp] at h
      by_cases hjn : j = n
      · rw [hjn]; exact hp
      · exact findLast_none p n h j (by omega)

/-- timestamp of height h (1-based) -/
def T (ts : List Int) (h : Nat) : Int := ts.getD (h - 1) 0

theorem tsAt_some {ts : List Int} {h : Nat} {b : Int} (hb : tsAt ts h = some b) :
    1 ≤ h ∧ h ≤ ts.length ∧ b = T ts h := by
  unfold tsAt at hb
  split at hb
  · cases hb
  · rename_i h0
    have hlt : h - 1 < ts.length := by
      rcases Nat.lt_or_ge (h - 1) ts.length with h' | h'
      · exact h'
      · rw [List.getElem?_eq_none h'] at hb; cases hb
    refine ⟨by omega, by omega, ?_⟩
    unfold T
    rw [List.getD_eq_getElem?_getD, hb, Option.getD_some]

theorem tsAt_of_range {ts : List Int} {h : Nat} (h1 : 1 ≤ h) (h2 : h ≤ ts.length) : tsAt ts h = some (T ts h) := by
  unfold tsAt T
  rw [if_neg (by omega), List.getD_eq_getElem?_getD, List.getElem?_eq_getElem (by omega), Option.getD_some]

/-- the chain's timestamps never decrease with the height -/
def Mono (ts : List Int) : Prop := ∀ a b, 1 ≤ a → a ≤ b → b ≤ ts.length → T ts a ≤ T ts b

/-- what the specification returns, in terms of heights -/
theorem beforeSpec_eq_some {ts : List Int} {tNs : Int} {h : Nat} (hm : Mono ts)
    (h1 : 1 ≤ h) (h2 : h ≤ ts.length) (hlt : T ts h * nsPerSec < tNs)
    (hnext : h = ts.length ∨ T ts (h + 1) * nsPerSec ≥ tNs) : beforeSpec ts tNs = some h := by
  unfold beforeSpec
  have hG : (0 : Int) < nsPerSec := by unfold nsPerSec; omega
  have hp : ∀ j, h < j → j ≤ ts.length → ¬ (T ts j * nsPerSec < tNs) := by
    intro j hj1 hj2
    rcases hnext with hn | hn
    · omega
    · have := hm (h + 1) j (by omega) (by omega) hj2
      have := Int.mul_le_mul_of_nonneg_right this (Int.le_of_lt hG)
      omega
  cases hf : (List.range ts.length).reverse.find? (fun i => decide (ts.getD i 0 * nsPerSec < tNs)) with
  | none =>
    have := findLast_none _ _ hf (h - 1) (by omega)
    simp only [decide_eq_false_iff_not] at this
    exact absurd hlt this
  | some i =>
    obtain ⟨a1, a2, a3⟩ := findLast_some _ _ _ hf
    simp only [decide_eq_true_eq] at a2
    simp only [decide_eq_false_iff_not] at a3
    simp only [Option.map_some, Option.some.injEq]
    -- i + 1 = h: both are the largest height below t
    rcases Nat.lt_trichotomy (i + 1) h with hlt' | heq | hgt
    · exact absurd hlt (by have := a3 (h - 1) (by omega) (by omega); exact this)
    · exact heq
    · exact absurd (by unfold T; simpa using a2) (hp (i + 1) hgt (by omega))

theorem beforeSpec_eq_none {ts : List Int} {tNs : Int} (hm : Mono ts) (hne : 1 ≤ ts.length)
    (hge : T ts 1 * nsPerSec ≥ tNs) : beforeSpec ts tNs = none := by
  unfold beforeSpec
  have hG : (0 : Int) < nsPerSec := by unfold nsPerSec; omega
  cases hf : (List.range ts.length).reverse.find? (fun i => decide (ts.getD i 0 * nsPerSec < tNs)) with
  | none => rfl
  | some i =>
    obtain ⟨a1, a2, _⟩ := findLast_some _ _ _ hf
    simp only [decide_eq_true_eq] at a2
    have := hm 1 (i + 1) (by omega) (by omega) (by omega)
    have := Int.mul_le_mul_of_nonneg_right this (Int.le_of_lt hG)
    have e : T ts (i + 1) = ts.getD i 0 := by unfold T; simp
    rw [e] at this
    omega

theorem beforeSpec_some {ts : List Int} {tNs : Int} {h : Nat} (hs : beforeSpec ts tNs = some h) :
    1 ≤ h ∧ h ≤ ts.length ∧ T ts h * nsPerSec < tNs ∧ ∀ j, h < j → j ≤ ts.length → ¬ (T ts j * nsPerSec < tNs) := by
  unfold beforeSpec at hs
  cases hf : (List.range ts.length).reverse.find? (fun i => decide (ts.getD i 0 * nsPerSec < tNs)) with
  | none => rw [hf] at hs; cases hs
  | some i =>
    rw [hf] at hs
    simp only [Option.map_some, Option.some.injEq] at hs
    subst hs
    obtain ⟨a1, a2, a3⟩ := findLast_some _ _ _ hf
    simp only [decide_eq_true_eq] at a2
    simp only [decide_eq_false_iff_not] at a3
    refine ⟨by omega, by omega, by unfold T; simpa using a2, ?_⟩
    intro j hj1 hj2
    have := a3 (j - 1) (by omega) (by omega)
    unfold T; exact this

/-! ### Go's sort.Search -/

/-- invariant of the loop: everything below i is false, j is true (or j = n) -/
theorem searchLoop_spec (f : Nat → Bool) (n : Nat) (hmono : ∀ a b, a ≤ b → b < n → f b = false → f a = false) :
    ∀ (fuel i j : Nat), i ≤ j → j ≤ n → j - i < fuel →
    (∀ k, k < i → f k = false) → (j = n ∨ f j = true) →
    let r := searchLoop f fuel i j
    r ≤ n ∧ (∀ k, k < r → f k = false) ∧ (r = n ∨ f r = true)
  | 0, i, j, _, _, hf, _, _ => by omega
  | fuel + 1, i, j, hij, hjn, hf, hlo, hhi => by
    simp only [searchLoop]
    by_cases hlt : i < j
    · rw [if_pos hlt]
      cases hfh : f ((i + j) / 2) with
      | false =>
        simp only [Bool.not_false, if_true]
        apply searchLoop_spec f n hmono fuel _ j (by omega) hjn (by omega) _ hhi
        intro k hk
        exact hmono k ((i + j) / 2) (by omega) (by omega) hfh
      | true =>
        simp only [Bool.not_true, Bool.false_eq_true, if_false]
        exact searchLoop_spec f n hmono fuel i _ (by omega) (by omega) (by omega) hlo (Or.inr hfh)
    · rw [if_neg hlt]
      have : i = j := by omega
      subst this
      exact ⟨hjn, hlo, hhi⟩

theorem goSearch_spec (f : Nat → Bool) (n : Nat) (hmono : ∀ a b, a ≤ b → b < n → f b = false → f a = false) :
    goSearch n f ≤ n ∧ (∀ k, k < goSearch n f → f k = false) ∧ (goSearch n f = n ∨ f (goSearch n f) = true) := by
  unfold goSearch
  exact searchLoop_spec f n hmono (n + 1) 0 n (by omega) (by omega) (by omega) (fun k hk => by omega) (Or.inl rfl)

/-! ### partial correctness of the search -/

/-- a good answer: a height below the instant whose successor (if any) is not below it -/
def GoodBT (ts : List Int) (tNs : Int) : BT → Prop
  | .found h => 1 ≤ h ∧ h ≤ ts.length ∧ T ts h * nsPerSec < tNs ∧ (h = ts.length ∨ T ts (h + 1) * nsPerSec ≥ tNs)
  | _ => False

/-- partial correctness: the search may fail to return (`hang`) or fail (`err`), but never returns a wrong height -/
def WeakGood (ts : List Int) (tNs : Int) (r : BT) : Prop := r = .hang ∨ r = .err ∨ GoodBT ts tNs r

theorem binarySearchBefore_good {ts : List Int} {tNs : Int} (hm : Mono ts) {lo hi : Nat}
    (h1 : 1 ≤ lo) (h2 : lo < hi) (h3 : hi ≤ ts.length)
    (hlo : T ts lo * nsPerSec < tNs) (hhi : T ts hi * nsPerSec ≥ tNs) :
    GoodBT ts tNs (binarySearchBefore ts tNs lo hi) := by
  have hG : (0 : Int) < nsPerSec := by unfold nsPerSec; omega
  unfold binarySearchBefore
  simp only
  generalize hf : (fun i => match tsAt ts (lo + i) with
    | some b => decide (b * nsPerSec ≥ tNs)
    | none => true) = f
  have fval : ∀ i, lo + i ≤ ts.length → f i = decide (T ts (lo + i) * nsPerSec ≥ tNs) := by
    intro i hi'
    rw [← hf]
    simp only [tsAt_of_range (show 1 ≤ lo + i by omega) hi']
  have hmono : ∀ a b, a ≤ b → b < hi - lo + 1 → f b = false → f a = false := by
    intro a b hab hb hfb
    rw [fval b (by omega)] at hfb
    rw [fval a (by omega)]
    simp only [decide_eq_false_iff_not] at *
    have := hm (lo + a) (lo + b) (by omega) (by omega) (by omega)
    have := Int.mul_le_mul_of_nonneg_right this (Int.le_of_lt hG)
    omega
  obtain ⟨r1, r2, r3⟩ := goSearch_spec f (hi - lo + 1) hmono
  generalize goSearch (hi - lo + 1) f = r at *
  have ftop : f (hi - lo) = true := by
    rw [fval (hi - lo) (by omega)]
    have : lo + (hi - lo) = hi := by omega
    rw [this]; simpa using hhi
  have f0 : f 0 = false := by
    rw [fval 0 (by omega)]
    simp only [Nat.add_zero, decide_eq_false_iff_not]; omega
  have hr : r ≤ hi - lo := by
    rcases Nat.lt_or_ge (hi - lo) r with h | h
    · have := r2 (hi - lo) h; rw [ftop] at this; cases this
    · exact h
  have hfr : f r = true := by
    rcases r3 with h | h
    · omega
    · exact h
  have hr0 : r ≠ 0 := by
    intro h; rw [h, f0] at hfr; cases hfr
  rw [if_neg (by omega), if_neg hr0]
  have hprev := r2 (r - 1) (by omega)
  rw [fval (r - 1) (by omega)] at hprev
  rw [fval r (by omega)] at hfr
  simp only [decide_eq_false_iff_not] at hprev
  simp only [decide_eq_true_eq] at hfr
  have e1 : lo + (r - 1) = lo + r - 1 := by omega
  have e2 : lo + r - 1 + 1 = lo + r := by omega
  rw [e1] at hprev
  refine ⟨by omega, by omega, by omega, Or.inr ?_⟩
  rw [e2]; exact hfr

theorem btFinish_good {ts : List Int} {tNs : Int} (hm : Mono ts) {lo hi : Nat}
    (h1 : 1 ≤ lo) (hlo' : lo ≤ ts.length) (h3 : hi ≤ ts.length) (h4 : 1 ≤ hi)
    (hlo : T ts lo * nsPerSec < tNs) (hhi : T ts hi * nsPerSec ≥ tNs) :
    GoodBT ts tNs (btFinish ts tNs hi lo) := by
  have hG : (0 : Int) < nsPerSec := by unfold nsPerSec; omega
  have hlt : lo < hi := by
    rcases Nat.lt_or_ge lo hi with h | h
    · exact h
    · have := hm hi lo h4 h hlo'
      have := Int.mul_le_mul_of_nonneg_right this (Int.le_of_lt hG)
      omega
  unfold btFinish
  split
  · rename_i heq
    refine ⟨h1, hlo', hlo, Or.inr ?_⟩
    rw [← heq]; exact hhi
  · exact binarySearchBefore_good hm h1 hlt h3 hlo hhi

/-- one round keeps the invariant: if every continuation gives a good answer, so does the round -/
theorem btBody_good {ts : List Int} {tNs tSec : Int} (hm : Mono ts)
    (hg : T ts 1 * nsPerSec < tNs) (hf : T ts ts.length * nsPerSec ≥ tNs) (hne : 1 ≤ ts.length)
    (k : Nat → Option Nat → Option Nat → BT)
    (hk : ∀ (est : Nat) (high low : Option Nat),
      (∀ hi, high = some hi → 1 ≤ hi ∧ hi ≤ ts.length ∧ T ts hi * nsPerSec ≥ tNs) →
      (∀ lo, low = some lo → 1 ≤ lo ∧ lo ≤ ts.length ∧ T ts lo * nsPerSec < tNs) → WeakGood ts tNs (k est high low))
    (est : Nat) (high low : Option Nat)
    (ih : ∀ hi, high = some hi → 1 ≤ hi ∧ hi ≤ ts.length ∧ T ts hi * nsPerSec ≥ tNs)
    (il : ∀ lo, low = some lo → 1 ≤ lo ∧ lo ≤ ts.length ∧ T ts lo * nsPerSec < tNs) :
    WeakGood ts tNs (btBody ts tNs tSec ts.length k est high low) := by
  unfold btBody
  cases hb : tsAt ts est with
  | none => exact Or.inr (Or.inl rfl)
  | some b =>
    obtain ⟨e1, e2, e3⟩ := tsAt_some hb
    simp only
    by_cases hge : b * nsPerSec ≥ tNs
    · rw [if_pos hge]
      generalize (if toUInt64 (b - tSec) = 0 then 1 else toUInt64 (b - tSec)) = gap
      by_cases hgap : est ≤ gap
      · rw [if_pos hgap]
        have : est ≠ 1 := by intro h; rw [e3, h] at hge; omega
        exact Or.inr (Or.inr (btFinish_good hm (by omega) hne e2 e1 hg (by rw [← e3]; exact hge)))
      · rw [if_neg hgap]
        apply hk
        · intro hi hhi; cases hhi; exact ⟨e1, e2, by rw [← e3]; exact hge⟩
        · exact il
    · rw [if_neg hge]
      apply hk
      · intro hi hhi
        split at hhi
        · cases hhi; exact ⟨hne, Nat.le_refl _, hf⟩
        · exact ih hi hhi
      · intro lo hlo; cases hlo; exact ⟨e1, e2, by rw [← e3]; omega⟩

/-- whatever the estimate loop returns (if it returns) is a good answer -/
theorem btLoop_good {ts : List Int} {tNs tSec : Int} (hm : Mono ts)
    (hg : T ts 1 * nsPerSec < tNs) (hf : T ts ts.length * nsPerSec ≥ tNs) (hne : 1 ≤ ts.length) :
    ∀ (fuel est : Nat) (high low : Option Nat),
      (∀ hi, high = some hi → 1 ≤ hi ∧ hi ≤ ts.length ∧ T ts hi * nsPerSec ≥ tNs) →
      (∀ lo, low = some lo → 1 ≤ lo ∧ lo ≤ ts.length ∧ T ts lo * nsPerSec < tNs) →
      WeakGood ts tNs (btLoop ts tNs tSec ts.length fuel est high low) := by
  intro fuel
  induction fuel with
  | zero =>
    intro est high low ih il
    cases high with
    | none => cases low <;> simp [btLoop, WeakGood]
    | some hi =>
      cases low with
      | none => simp [btLoop, WeakGood]
      | some lo =>
        simp only [btLoop]
        obtain ⟨a1, a2, a3⟩ := ih hi rfl
        obtain ⟨b1, b2, b3⟩ := il lo rfl
        exact Or.inr (Or.inr (btFinish_good hm b1 b2 a2 a1 b3 a3))
  | succ n ihn =>
    intro est high low ih il
    have step := btBody_good (tSec := tSec) hm hg hf hne _ ihn est high low ih il
    cases high with
    | none => cases low <;> (simp only [btLoop]; exact step)
    | some hi =>
      cases low with
      | none => simp only [btLoop]; exact step
      | some lo =>
        simp only [btLoop]
        obtain ⟨a1, a2, a3⟩ := ih hi rfl
        obtain ⟨b1, b2, b3⟩ := il lo rfl
        exact Or.inr (Or.inr (btFinish_good hm b1 b2 a2 a1 b3 a3))

/-! ### termination for whole-second instants -/

def NoFail (r : BT) : Prop := r ≠ .hang ∧ r ≠ .err

theorem noFail_of_good {ts : List Int} {tNs : Int} {r : BT} (h : GoodBT ts tNs r) : NoFail r := by
  cases r <;> simp [GoodBT, NoFail] at *

/-- rounds still needed: 0 once both boundaries are known; while only the high boundary is known the estimate
    walks down, while only the low boundary is known it walks up -/
def mu (H est : Nat) : Option Nat → Option Nat → Nat
  | some _, some _ => 0
  | some _, none => est
  | none, some _ => H + 1 - est
  | none, none => H + 1

def two62 : Int := 4611686018427387904

theorem btLoop_nofail {ts : List Int} {tSec : Int} (hm : Mono ts)
    (hg : T ts 1 * nsPerSec < tSec * nsPerSec) (hf : T ts ts.length * nsPerSec ≥ tSec * nsPerSec)
    (hne : 1 ≤ ts.length) (hr : ∀ h, 1 ≤ h → h ≤ ts.length → 0 ≤ T ts h)
    (ht : tSec < two62) (hH : (ts.length : Int) < two62) :
    ∀ (fuel est : Nat) (high low : Option Nat),
      (∀ hi, high = some hi → 1 ≤ hi ∧ hi ≤ ts.length ∧ T ts hi * nsPerSec ≥ tSec * nsPerSec) →
      (∀ lo, low = some lo → 1 ≤ lo ∧ lo ≤ ts.length ∧ T ts lo * nsPerSec < tSec * nsPerSec) →
      (high = none ∨ low = none → 1 ≤ est ∧ est ≤ ts.length) →
      mu ts.length est high low ≤ fuel →
      NoFail (btLoop ts (tSec * nsPerSec) tSec ts.length fuel est high low) := by
  intro fuel
  induction fuel with
  | zero =>
    intro est high low ih il hest hmu
    cases high with
    | none =>
      have := hest (Or.inl rfl)
      cases low <;> (simp only [mu] at hmu; omega)
    | some hi =>
      cases low with
      | none =>
        have := hest (Or.inr rfl)
        simp only [mu] at hmu; omega
      | some lo =>
        simp only [btLoop]
        obtain ⟨a1, a2, a3⟩ := ih hi rfl
        obtain ⟨b1, b2, b3⟩ := il lo rfl
        exact noFail_of_good (btFinish_good hm b1 b2 a2 a1 b3 a3)
  | succ n ihn =>
    intro est high low ih il hest hmu
    have body : (high = none ∨ low = none) →
        NoFail (btBody ts (tSec * nsPerSec) tSec ts.length (btLoop ts (tSec * nsPerSec) tSec ts.length n) est high low) := by
      intro hnone
      obtain ⟨e1, e2⟩ := hest hnone
      unfold btBody
      rw [tsAt_of_range e1 e2]
      simp only
      have hb0 := hr est e1 e2
      by_cases hge : T ts est * nsPerSec ≥ tSec * nsPerSec
      · rw [if_pos hge]
        have hgap : 1 ≤ (if toUInt64 (T ts est - tSec) = 0 then 1 else toUInt64 (T ts est - tSec)) := by
          split <;> omega
        generalize (if toUInt64 (T ts est - tSec) = 0 then 1 else toUInt64 (T ts est - tSec)) = gap at hgap
        by_cases hle : est ≤ gap
        · rw [if_pos hle]
          have : est ≠ 1 := by intro h; rw [h] at hge; omega
          exact noFail_of_good (btFinish_good hm (by omega) hne e2 e1 hg hge)
        · rw [if_neg hle]
          apply ihn
          · intro hi hhi; cases hhi; exact ⟨e1, e2, hge⟩
          · exact il
          · intro _; omega
          · cases low with
            | some lo => simp only [mu]; omega
            | none =>
              cases high with
              | none => simp only [mu] at *; omega
              | some hi => simp only [mu] at *; omega
      · rw [if_neg hge]
        have hlt : T ts est < tSec := by simp only [nsPerSec] at hge; omega
        have hd : toUInt64 (tSec - T ts est) = (tSec - T ts est).toNat :=
          toUInt64_of_nonneg _ (by omega) (by simp only [two64i, two62] at *; omega)
        have hest' : (est + toUInt64 (tSec - T ts est)) % two64 = est + (tSec - T ts est).toNat := by
          rw [hd]
          apply Nat.mod_eq_of_lt
          simp only [two64, two62] at *
          omega
        rw [hest']
        apply ihn
        · intro hi hhi
          split at hhi
          · cases hhi; exact ⟨hne, Nat.le_refl _, hf⟩
          · exact ih hi hhi
        · intro lo hlo; cases hlo; exact ⟨e1, e2, by omega⟩
        · intro hnone'
          rcases hnone' with h' | h'
          · split at h'
            · cases h'
            · omega
          · cases h'
        · split
          · simp only [mu]; omega
          · rename_i hnot
            cases high with
            | some hi => simp only [mu]; omega
            | none =>
              cases low with
              | none => simp only [mu] at *; omega
              | some lo => simp only [mu] at *; omega
    cases high with
    | none => cases low <;> (simp only [btLoop]; exact body (Or.inl rfl))
    | some hi =>
      cases low with
      | none => simp only [btLoop]; exact body (Or.inr rfl)
      | some lo =>
        simp only [btLoop]
        obtain ⟨a1, a2, a3⟩ := ih hi rfl
        obtain ⟨b1, b2, b3⟩ := il lo rfl
        exact noFail_of_good (btFinish_good hm b1 b2 a2 a1 b3 a3)

theorem head?_eq_T {ts : List Int} {g : Int} (h : ts.head? = some g) : g = T ts 1 ∧ 1 ≤ ts.length := by
  cases ts with
  | nil => cases h
  | cons x xs => simp only [List.head?_cons, Option.some.injEq] at h; subst h; simp [T]

theorem getLast?_eq_T {ts : List Int} {f : Int} (h : ts.getLast? = some f) : f = T ts ts.length := by
  rw [List.getLast?_eq_getElem?] at h
  unfold T
  rw [List.getD_eq_getElem?_getD, h, Option.getD_some]

end ZV.Consensus
