import ZenonVerif.Model.Ledger
/-
Helper lemmas for the abstract ledger (C01 / C04 / C09): association lists (balances, token storage),
`findSend`, and the sums used by the conservation statement. Core Lean only.
-/
namespace ZV.Ledger

/-! ### balances -/

/-- Σ of the balance entries of token `t` -/
def sumBalL (b : List ((Addr × Tok) × Nat)) (t : Tok) : Nat :=
  (b.map (fun e => if e.1.2 = t then e.2 else 0)).sum

theorem getBal_setBal (b : List ((Addr × Tok) × Nat)) (a : Addr) (t : Tok) (v : Nat) (a' : Addr) (t' : Tok) :
    getBal (setBal b a t v) a' t' = if (a, t) = (a', t') then v else getBal b a' t' := by
  induction b with
  | nil => simp [setBal, getBal]
  | cons e r ih =>
    obtain ⟨k, w⟩ := e
    simp only [setBal, getBal]
    by_cases hk : k = (a, t)
    · subst hk
      simp only [if_true, getBal]
      by_cases h2 : (a, t) = (a', t')
      · simp [h2]
      · simp [h2]
    · simp only [hk, if_false, getBal, ih]
      by_cases h2 : (a, t) = (a', t')
      · have : k ≠ (a', t') := by rw [← h2]; exact hk
        simp [h2, this]
      · simp [h2]

theorem getBal_setBal_self (b : List ((Addr × Tok) × Nat)) (a : Addr) (t : Tok) (v : Nat) :
    getBal (setBal b a t v) a t = v := by
  simp [getBal_setBal]

/-- `setBal` replaces exactly the value that `getBal` reads (first match), so the per-token sum moves by the difference -/
theorem sumBalL_setBal (b : List ((Addr × Tok) × Nat)) (a : Addr) (t : Tok) (v : Nat) (t' : Tok) :
    sumBalL (setBal b a t v) t' + (if t = t' then getBal b a t else 0)
      = sumBalL b t' + (if t = t' then v else 0) := by
  induction b with
  | nil => simp [setBal, getBal, sumBalL]
  | cons e r ih =>
    obtain ⟨k, w⟩ := e
    simp only [setBal, getBal]
    by_cases hk : k = (a, t)
    · subst hk
      simp only [if_true, sumBalL, List.map_cons, List.sum_cons]
      by_cases h2 : t = t' <;> simp [h2] <;> omega
    · simp only [hk, if_false]
      simp only [sumBalL, List.map_cons, List.sum_cons] at ih ⊢
      omega

theorem getBal_le_sumBalL (b : List ((Addr × Tok) × Nat)) (a : Addr) (t : Tok) :
    getBal b a t ≤ sumBalL b t := by
  induction b with
  | nil => simp [getBal]
  | cons e r ih =>
    obtain ⟨k, w⟩ := e
    simp only [getBal, sumBalL, List.map_cons, List.sum_cons]
    simp only [sumBalL] at ih
    by_cases hk : k = (a, t)
    · subst hk; simp
    · simp only [hk, if_false]; omega

theorem keys_setBal (b : List ((Addr × Tok) × Nat)) (a : Addr) (t : Tok) (v : Nat) :
    (setBal b a t v).map (·.1) = if (a, t) ∈ b.map (·.1) then b.map (·.1) else b.map (·.1) ++ [(a, t)] := by
  induction b with
  | nil => simp [setBal]
  | cons e r ih =>
    obtain ⟨k, w⟩ := e
    simp only [setBal]
    by_cases hk : k = (a, t)
    · subst hk; simp
    · have hk' : ¬ (a, t) = k := fun h => hk h.symm
      simp only [hk, if_false, List.map_cons, ih, List.mem_cons, hk', false_or]
      split <;> simp

theorem nodup_keys_setBal (b : List ((Addr × Tok) × Nat)) (a : Addr) (t : Tok) (v : Nat)
    (h : (b.map (·.1)).Nodup) : ((setBal b a t v).map (·.1)).Nodup := by
  rw [keys_setBal]
  split
  · exact h
  · rename_i hn
    rw [List.nodup_append]
    refine ⟨h, by simp, ?_⟩
    intro x hx y hy
    simp only [List.mem_singleton] at hy
    subst hy
    intro he; subst he; exact hn hx

/-! ### token storage -/

theorem getTok_setTok (l : List (Tok × TokInfo)) (t : Tok) (i : TokInfo) (t' : Tok) :
    getTok (setTok l t i) t' = if t = t' then some i else getTok l t' := by
  induction l with
  | nil => simp [setTok, getTok]
  | cons e r ih =>
    obtain ⟨k, w⟩ := e
    simp only [setTok, getTok]
    by_cases hk : k = t
    · subst hk
      simp only [if_true, getTok]
      by_cases h2 : k = t' <;> simp [h2]
    · simp only [hk, if_false, getTok, ih]
      by_cases h2 : t = t'
      · have : k ≠ t' := by rw [← h2]; exact hk
        simp [h2, this]
      · simp [h2]

theorem keys_setTok (l : List (Tok × TokInfo)) (t : Tok) (i : TokInfo) :
    (setTok l t i).map (·.1) = if t ∈ l.map (·.1) then l.map (·.1) else l.map (·.1) ++ [t] := by
  induction l with
  | nil => simp [setTok]
  | cons e r ih =>
    obtain ⟨k, w⟩ := e
    simp only [setTok]
    by_cases hk : k = t
    · subst hk; simp
    · have hk' : ¬ t = k := fun h => hk h.symm
      simp only [hk, if_false, List.map_cons, ih, List.mem_cons, hk', false_or]
      split <;> simp

theorem nodup_keys_setTok (l : List (Tok × TokInfo)) (t : Tok) (i : TokInfo)
    (h : (l.map (·.1)).Nodup) : ((setTok l t i).map (·.1)).Nodup := by
  rw [keys_setTok]
  split
  · exact h
  · rename_i hn
    rw [List.nodup_append]
    refine ⟨h, by simp, ?_⟩
    intro x hx y hy
    simp only [List.mem_singleton] at hy
    subst hy
    intro he; subst he; exact hn hx

/-! ### confirmed sends -/

theorem findSend_some {l : List Send} {h : Hash} {x : Send} (hf : findSend l h = some x) :
    x ∈ l ∧ x.hash = h := by
  induction l with
  | nil => simp [findSend] at hf
  | cons y r ih =>
    simp only [findSend] at hf
    split at hf
    · cases hf; simp_all
    · have := ih hf; simp_all

theorem findSend_none {l : List Send} {h : Hash} : findSend l h = none ↔ h ∉ l.map (·.hash) := by
  induction l with
  | nil => simp [findSend]
  | cons y r ih =>
    simp only [findSend]
    split
    · rename_i he; simp [he]
    · rename_i he
      rw [ih]
      simp only [List.map_cons, List.mem_cons, not_or]
      constructor
      · intro h2; exact ⟨fun h3 => he h3.symm, h2⟩
      · intro h2; exact h2.2

theorem findSend_of_mem {l : List Send} {x : Send} (hnd : (l.map (·.hash)).Nodup) (hx : x ∈ l) :
    findSend l x.hash = some x := by
  induction l with
  | nil => simp at hx
  | cons y r ih =>
    simp only [List.map_cons, List.nodup_cons] at hnd
    simp only [findSend]
    rcases List.mem_cons.1 hx with rfl | hx'
    · simp
    · have hne : y.hash ≠ x.hash := by
        intro he
        apply hnd.1
        rw [he]
        exact List.mem_map.2 ⟨x, hx', rfl⟩
      simp only [hne, if_false]
      exact ih hnd.2 hx'

theorem findSend_append (l : List Send) (x : Send) (h : Hash) :
    findSend (l ++ [x]) h = (findSend l h).or (if x.hash = h then some x else none) := by
  induction l with
  | nil => simp [findSend]
  | cons y r ih =>
    simp only [List.cons_append, findSend]
    split
    · simp
    · exact ih

theorem findSend_append_of_some {l : List Send} {x y : Send} {h : Hash} (hf : findSend l h = some y) :
    findSend (l ++ [x]) h = some y := by
  rw [findSend_append, hf]; rfl

end ZV.Ledger
