import ZenonVerif.Lemmas.CodecPB
/-
Helper lemmas for C13: the protobuf decoder reads back what the encoder wrote.
-/
namespace ZV.Codec
open ZV

/-! ### records that fit: the encoded list is shorter than 2^64 bytes (true of every Go slice) -/

def Fits (fs : List WField) : Prop := (encFields fs).length < two64

/-- what remains to be checked of `WField.Valid` once the lengths are known to fit -/
def WField.Shape (f : WField) : Prop :=
  1 ≤ f.num ∧ f.num ≤ maxFieldNumber ∧
  match f.val with
  | .varint v => v < two64
  | .len _ => True
  | .fixed wt b => (wt = 1 ∧ b.length = 8) ∨ (wt = 5 ∧ b.length = 4)

theorem len_lt_encField (k : Nat) (b : Bytes) : b.length < (encField ⟨k, .len b⟩).length := by
  have := List.length_pos_iff.mpr (varint_ne_nil (k * 8 + 2))
  simp only [encField, tag, List.length_append]
  omega

/-- a length-delimited record is shorter than any record list that contains it -/
theorem len_lt_of_mem : ∀ (fs : List WField) (k : Nat) (b : Bytes), ⟨k, .len b⟩ ∈ fs →
    b.length < (encFields fs).length := by
  intro fs
  induction fs with
  | nil => intro k b h; simp at h
  | cons f fs ih =>
    intro k b h
    rw [encFields_cons, List.length_append]
    simp only [List.mem_cons] at h
    rcases h with rfl | h
    · have := len_lt_encField k b; omega
    · have := ih k b h; omega

theorem valid_of_fits (fs : List WField) (hfit : Fits fs) (hs : ∀ f ∈ fs, f.Shape) : ∀ f ∈ fs, f.Valid := by
  intro f hf
  obtain ⟨h1, h2, h3⟩ := hs f hf
  refine ⟨h1, h2, ?_⟩
  obtain ⟨k, v⟩ := f
  cases v with
  | varint v => exact h3
  | len b =>
    have := len_lt_of_mem fs k b hf
    simp only [Fits] at hfit
    simp only; omega
  | fixed wt b => exact h3

theorem parse_of_fits (fs : List WField) (hfit : Fits fs) (hs : ∀ f ∈ fs, f.Shape) :
    parseFields (encFields fs) = some fs :=
  parseFields_encFields fs (valid_of_fits fs hfit hs)

theorem fits_of_mem (fs : List WField) (hfit : Fits fs) (k : Nat) (r : List WField)
    (h : ⟨k, .len (encFields r)⟩ ∈ fs) : Fits r := by
  have := len_lt_of_mem fs k _ h
  simp only [Fits] at *; omega

/-! ### shapes of the pieces -/

def numOK (k : Nat) : Prop := 1 ≤ k ∧ k ≤ maxFieldNumber

instance (k : Nat) : Decidable (numOK k) := by unfold numOK; infer_instance

theorem shape_fVarint (k v : Nat) (hk : numOK k) (hv : v < two64) : ∀ f ∈ fVarint k v, f.Shape := by
  intro f hf
  unfold fVarint at hf
  split at hf
  · simp at hf
  · simp only [List.mem_singleton] at hf; subst hf; exact ⟨hk.1, hk.2, hv⟩

theorem shape_fBytes (k : Nat) (b : Bytes) (hk : numOK k) : ∀ f ∈ fBytes k b, f.Shape := by
  intro f hf
  unfold fBytes at hf
  split at hf
  · simp at hf
  · simp only [List.mem_singleton] at hf; subst hf; exact ⟨hk.1, hk.2, trivial⟩

theorem shape_fMsg (k : Nat) (m : Option (List WField)) (hk : numOK k) : ∀ f ∈ fMsg k m, f.Shape := by
  intro f hf
  cases m with
  | none => simp [fMsg] at hf
  | some r => simp only [fMsg, List.mem_singleton] at hf; subst hf; exact ⟨hk.1, hk.2, trivial⟩

/-! ### queries on the pieces -/

theorem lensOf_append (k : Nat) (xs ys : List WField) : lensOf k (xs ++ ys) = lensOf k xs ++ lensOf k ys := by
  simp [lensOf]

theorem varintsOf_append (k : Nat) (xs ys : List WField) :
    varintsOf k (xs ++ ys) = varintsOf k xs ++ varintsOf k ys := by
  simp [varintsOf]

theorem lensOf_fVarint (k j v : Nat) : lensOf k (fVarint j v) = [] := by
  unfold fVarint; split <;> simp [lensOf]

theorem varintsOf_fVarint_ne (k j v : Nat) (h : j ≠ k) : varintsOf k (fVarint j v) = [] := by
  unfold fVarint; split <;> simp [varintsOf, h]

theorem varintsOf_fVarint_eq (k v : Nat) : varintsOf k (fVarint k v) = if v = 0 then [] else [v] := by
  unfold fVarint; split <;> simp [varintsOf]

theorem varintsOf_fBytes (k j : Nat) (b : Bytes) : varintsOf k (fBytes j b) = [] := by
  unfold fBytes; split <;> simp [varintsOf]

theorem varintsOf_fMsg (k j : Nat) (m : Option (List WField)) : varintsOf k (fMsg j m) = [] := by
  cases m <;> simp [fMsg, varintsOf]

theorem lensOf_fBytes_ne (k j : Nat) (b : Bytes) (h : j ≠ k) : lensOf k (fBytes j b) = [] := by
  unfold fBytes; split <;> simp [lensOf, h]

theorem lensOf_fBytes_eq (k : Nat) (b : Bytes) : lensOf k (fBytes k b) = if b.isEmpty then [] else [b] := by
  unfold fBytes; split <;> simp [lensOf]

theorem lensOf_fMsg_ne (k j : Nat) (m : Option (List WField)) (h : j ≠ k) : lensOf k (fMsg j m) = [] := by
  cases m <;> simp [fMsg, lensOf, h]

theorem lensOf_fMsg_eq (k : Nat) (m : Option (List WField)) :
    lensOf k (fMsg k m) = (m.map encFields).toList := by
  cases m <;> simp [fMsg, lensOf]

theorem getVarint_of (k : Nat) (fs : List WField) (v : Nat) (h : varintsOf k fs = if v = 0 then [] else [v]) :
    getVarint k fs = v := by
  unfold getVarint; rw [h]; split <;> simp_all

theorem getBytes_of (k : Nat) (fs : List WField) (b : Bytes) (h : lensOf k fs = if b.isEmpty then [] else [b]) :
    getBytes k fs = b := by
  unfold getBytes; rw [h]
  split
  · next hb => simp at hb; simp [hb]
  · simp

theorem getMsg_of (k : Nat) (fs : List WField) (m : Option (List WField))
    (h : lensOf k fs = (m.map encFields).toList)
    (hp : ∀ r, m = some r → parseFields (encFields r) = some r) : getMsg k fs = some m := by
  unfold getMsg
  rw [h]
  cases m with
  | none => rfl
  | some r => simp [parseAll, hp r rfl]

theorem listMapM_map {α β : Type} (g : α → Option β) (e : β → α) :
    ∀ (l : List β), (∀ x ∈ l, g (e x) = some x) → listMapM g (l.map e) = some l := by
  intro l
  induction l with
  | nil => intro _; rfl
  | cons x xs ih =>
    intro h
    simp only [List.map_cons, listMapM, h x (by simp), ih (fun y hy => h y (by simp [hy]))]
    rfl

end ZV.Codec

namespace ZV.Codec
open ZV

/-! ### `HashProto` / `AddressProto` -/

theorem bytesMsg_parse (h : Bytes) (hfit : Fits (bytesMsgFields h)) :
    parseFields (encFields (bytesMsgFields h)) = some (bytesMsgFields h) :=
  parse_of_fits _ hfit (shape_fBytes 1 h (by decide))

theorem bytesMsgOf_fields (h : Bytes) : bytesMsgOf (bytesMsgFields h) = h :=
  getBytes_of 1 _ h (lensOf_fBytes_eq 1 h)

theorem map_bytesMsgOf (m : Option Bytes) : (m.map bytesMsgFields).map bytesMsgOf = m := by
  cases m <;> simp [bytesMsgOf_fields]

/-- an optional `HashProto`/`AddressProto` field `k` of a fitting record list is read back -/
theorem getMsg_bytesMsg (k : Nat) (fs : List WField) (m : Option Bytes) (hfit : Fits fs)
    (hl : lensOf k fs = ((m.map bytesMsgFields).map encFields).toList)
    (hmem : ∀ h, m = some h → ⟨k, .len (encFields (bytesMsgFields h))⟩ ∈ fs) :
    getMsg k fs = some (m.map bytesMsgFields) := by
  apply getMsg_of k fs _ hl
  intro r hr
  cases m with
  | none => simp at hr
  | some h =>
    simp only [Option.map_some, Option.some.injEq] at hr
    subst hr
    exact bytesMsg_parse h (fits_of_mem fs hfit k _ (hmem h rfl))

/-! ### `HashHeightProto` -/

theorem hashHeight_shape (p : HashHeightPB) (hn : p.height < two64) : ∀ f ∈ hashHeightFields p, f.Shape := by
  simp only [hashHeightFields, List.forall_mem_append]
  exact ⟨shape_fMsg 1 _ (by decide), shape_fVarint 2 _ (by decide) hn⟩

theorem hashHeight_parse (p : HashHeightPB) (hn : p.height < two64) (hfit : Fits (hashHeightFields p)) :
    parseFields (encFields (hashHeightFields p)) = some (hashHeightFields p) :=
  parse_of_fits _ hfit (hashHeight_shape p hn)

theorem hashHeightOf_fields (p : HashHeightPB) (hfit : Fits (hashHeightFields p)) :
    hashHeightOf (hashHeightFields p) = some p := by
  have h1 : getMsg 1 (hashHeightFields p) = some (p.hash.map bytesMsgFields) := by
    apply getMsg_bytesMsg 1 _ p.hash hfit
    · simp [hashHeightFields, lensOf_append, lensOf_fMsg_eq, lensOf_fVarint]
    · intro h hh; simp [hashHeightFields, fMsg, hh]
  have h2 : getVarint 2 (hashHeightFields p) = p.height := by
    apply getVarint_of
    simp [hashHeightFields, varintsOf_append, varintsOf_fMsg, varintsOf_fVarint_eq]
  simp only [hashHeightOf, h1, h2, Option.bind_eq_bind, Option.bind_some, map_bytesMsgOf]
  rfl

/-- an optional `HashHeightProto` field -/
theorem getMsg_hashHeight (k : Nat) (fs : List WField) (m : Option HashHeightPB) (hfit : Fits fs)
    (hn : ∀ p, m = some p → p.height < two64)
    (hl : lensOf k fs = ((m.map hashHeightFields).map encFields).toList)
    (hmem : ∀ p, m = some p → ⟨k, .len (encFields (hashHeightFields p))⟩ ∈ fs) :
    (getMsg k fs).bind (optMapM hashHeightOf) = some m := by
  have h1 : getMsg k fs = some (m.map hashHeightFields) := by
    apply getMsg_of k fs _ hl
    intro r hr
    cases m with
    | none => simp at hr
    | some p =>
      simp only [Option.map_some, Option.some.injEq] at hr
      subst hr
      exact hashHeight_parse p (hn p rfl) (fits_of_mem fs hfit k _ (hmem p rfl))
  rw [h1]
  cases m with
  | none => rfl
  | some p =>
    simp only [Option.map_some, Option.bind_some, optMapM]
    rw [hashHeightOf_fields p (fits_of_mem fs hfit k _ (hmem p rfl))]
    rfl

/-! ### `AccountHeaderProto` -/

theorem accountHeader_shape (p : AccountHeaderPB) : ∀ f ∈ accountHeaderFields p, f.Shape := by
  simp only [accountHeaderFields, List.forall_mem_append]
  exact ⟨shape_fMsg 1 _ (by decide), shape_fMsg 2 _ (by decide)⟩

theorem accountHeaderOf_fields (p : AccountHeaderPB) (hn : p.NatsOK) (hfit : Fits (accountHeaderFields p)) :
    accountHeaderOf (accountHeaderFields p) = some p := by
  have h1 : getMsg 1 (accountHeaderFields p) = some (p.address.map bytesMsgFields) := by
    apply getMsg_bytesMsg 1 _ p.address hfit
    · simp [accountHeaderFields, lensOf_append, lensOf_fMsg_eq, lensOf_fMsg_ne]
    · intro h hh; simp [accountHeaderFields, fMsg, hh]
  have h2 : (getMsg 2 (accountHeaderFields p)).bind (optMapM hashHeightOf) = some p.hashHeight := by
    apply getMsg_hashHeight 2 _ p.hashHeight hfit hn
    · simp [accountHeaderFields, lensOf_append, lensOf_fMsg_eq, lensOf_fMsg_ne]
    · intro q hq; simp [accountHeaderFields, fMsg, hq]
  simp only [accountHeaderOf, h1, Option.bind_eq_bind, Option.bind_some]
  cases hg : getMsg 2 (accountHeaderFields p) with
  | none => simp [hg] at h2
  | some g =>
    rw [hg] at h2
    simp only [Option.bind_some] at h2 ⊢
    rw [h2]
    simp only [Option.bind_some, map_bytesMsgOf]
    rfl

end ZV.Codec

namespace ZV.Codec
open ZV

/-! ### `MomentumProto` -/

def contentRecs (c : List AccountHeaderPB) : List WField :=
  c.map (fun h => ⟨8, .len (encFields (accountHeaderFields h))⟩)

theorem lensOf_contentRecs_ne (k : Nat) (c : List AccountHeaderPB) (h : 8 ≠ k) : lensOf k (contentRecs c) = [] := by
  induction c with
  | nil => rfl
  | cons x xs ih => simp only [contentRecs, List.map_cons, lensOf, List.filterMap_cons] at *; simp [h, ih]

theorem lensOf_contentRecs_eq (c : List AccountHeaderPB) :
    lensOf 8 (contentRecs c) = c.map (fun h => encFields (accountHeaderFields h)) := by
  induction c with
  | nil => rfl
  | cons x xs ih => simp only [contentRecs, List.map_cons, lensOf, List.filterMap_cons] at *; simp [ih]

theorem varintsOf_contentRecs (k : Nat) (c : List AccountHeaderPB) : varintsOf k (contentRecs c) = [] := by
  induction c with
  | nil => rfl
  | cons x xs ih =>
    simp only [contentRecs, List.map_cons, varintsOf, List.filterMap_cons] at *
    split <;> simp_all

theorem shape_contentRecs (c : List AccountHeaderPB) : ∀ f ∈ contentRecs c, f.Shape := by
  intro f hf
  simp only [contentRecs, List.mem_map] at hf
  obtain ⟨h, _, rfl⟩ := hf
  exact ⟨show 1 ≤ 8 by decide, show 8 ≤ maxFieldNumber by decide, trivial⟩

theorem momentumFields_eq (p : MomentumPB) : momentumFields p =
    fVarint 1 p.version ++ fVarint 2 p.chainIdentifier ++ fMsg 3 (p.hash.map bytesMsgFields) ++
    fMsg 4 (p.previousHash.map bytesMsgFields) ++ fVarint 5 p.height ++ fVarint 6 p.timestamp ++ fBytes 7 p.data ++
    contentRecs p.content ++
    fMsg 9 (p.changesHash.map bytesMsgFields) ++ fBytes 10 p.publicKey ++ fBytes 11 p.signature := rfl

theorem momentum_shape (p : MomentumPB) (hn : p.NatsOK) : ∀ f ∈ momentumFields p, f.Shape := by
  obtain ⟨h1, h2, h3, h4, _⟩ := hn
  simp only [momentumFields_eq, List.forall_mem_append]
  exact ⟨⟨⟨⟨⟨⟨⟨⟨⟨⟨shape_fVarint 1 _ (by decide) h1, shape_fVarint 2 _ (by decide) h2⟩,
    shape_fMsg 3 _ (by decide)⟩, shape_fMsg 4 _ (by decide)⟩, shape_fVarint 5 _ (by decide) h3⟩,
    shape_fVarint 6 _ (by decide) h4⟩, shape_fBytes 7 _ (by decide)⟩, shape_contentRecs _⟩,
    shape_fMsg 9 _ (by decide)⟩, shape_fBytes 10 _ (by decide)⟩, shape_fBytes 11 _ (by decide)⟩

section
attribute [local simp] lensOf_append varintsOf_append lensOf_fVarint varintsOf_fVarint_ne varintsOf_fVarint_eq
  varintsOf_fBytes varintsOf_fMsg lensOf_fBytes_ne lensOf_fBytes_eq lensOf_fMsg_ne lensOf_fMsg_eq
  lensOf_contentRecs_ne lensOf_contentRecs_eq varintsOf_contentRecs

theorem momentumOf_fields (p : MomentumPB) (hn : p.NatsOK) (hfit : Fits (momentumFields p)) :
    momentumOf (momentumFields p) = some p := by
  obtain ⟨_, _, _, _, hc⟩ := hn
  have g3 : getMsg 3 (momentumFields p) = some (p.hash.map bytesMsgFields) := by
    apply getMsg_bytesMsg 3 _ p.hash hfit
    · simp [momentumFields_eq]
    · intro h hh; simp [momentumFields_eq, fMsg, hh]
  have g4 : getMsg 4 (momentumFields p) = some (p.previousHash.map bytesMsgFields) := by
    apply getMsg_bytesMsg 4 _ p.previousHash hfit
    · simp [momentumFields_eq]
    · intro h hh; simp [momentumFields_eq, fMsg, hh]
  have g9 : getMsg 9 (momentumFields p) = some (p.changesHash.map bytesMsgFields) := by
    apply getMsg_bytesMsg 9 _ p.changesHash hfit
    · simp [momentumFields_eq]
    · intro h hh; simp [momentumFields_eq, fMsg, hh]
  have v1 : getVarint 1 (momentumFields p) = p.version := by
    apply getVarint_of; simp [momentumFields_eq]
  have v2 : getVarint 2 (momentumFields p) = p.chainIdentifier := by
    apply getVarint_of; simp [momentumFields_eq]
  have v5 : getVarint 5 (momentumFields p) = p.height := by
    apply getVarint_of; simp [momentumFields_eq]
  have v6 : getVarint 6 (momentumFields p) = p.timestamp := by
    apply getVarint_of; simp [momentumFields_eq]
  have b7 : getBytes 7 (momentumFields p) = p.data := by
    apply getBytes_of; simp [momentumFields_eq]
  have b10 : getBytes 10 (momentumFields p) = p.publicKey := by
    apply getBytes_of; simp [momentumFields_eq]
  have b11 : getBytes 11 (momentumFields p) = p.signature := by
    apply getBytes_of; simp [momentumFields_eq]
  have l8 : lensOf 8 (momentumFields p) = p.content.map (fun h => encFields (accountHeaderFields h)) := by
    simp [momentumFields_eq]
  have c8 : listMapM (fun b => (parseFields b).bind accountHeaderOf) (lensOf 8 (momentumFields p)) = some p.content := by
    rw [l8]
    apply listMapM_map
    intro x hx
    have hmem : ⟨8, .len (encFields (accountHeaderFields x))⟩ ∈ momentumFields p := by
      simp only [momentumFields_eq, List.mem_append, contentRecs, List.mem_map]
      exact Or.inl (Or.inl (Or.inl (Or.inr ⟨x, hx, rfl⟩)))
    have hf := fits_of_mem _ hfit 8 _ hmem
    rw [parse_of_fits _ hf (accountHeader_shape x)]
    exact accountHeaderOf_fields x (hc x hx) hf
  simp only [momentumOf, g3, g4, g9, c8, v1, v2, v5, v6, b7, b10, b11, Option.bind_eq_bind, Option.bind_some,
    map_bytesMsgOf]
  rfl

end

theorem decMomentumPB_enc (p : MomentumPB) (hn : p.NatsOK) (hfit : (encMomentumPB p).length < two64) :
    decMomentumPB (encMomentumPB p) = some p := by
  have hf : Fits (momentumFields p) := hfit
  simp only [decMomentumPB, encMomentumPB, parse_of_fits _ hf (momentum_shape p hn), Option.bind_some]
  exact momentumOf_fields p hn hf

end ZV.Codec

namespace ZV.Codec
open ZV

/-! ### `AccountBlockProto` -/

theorem lensOf_descFields_ne (k : Nat) (h : 13 ≠ k) : ∀ ds : List BlockPB, lensOf k (descFields ds) = [] := by
  intro ds
  induction ds with
  | nil => simp [descFields, lensOf]
  | cons d ds ih =>
    rw [descFields]
    simp only [lensOf, List.filterMap_cons] at *
    simp [h, ih]

theorem lensOf_descFields_eq : ∀ ds : List BlockPB, lensOf 13 (descFields ds) = ds.map encBlockPB := by
  intro ds
  induction ds with
  | nil => simp [descFields, lensOf]
  | cons d ds ih =>
    rw [descFields]
    simp only [lensOf, List.filterMap_cons] at *
    simp [ih, encBlockPB]

theorem varintsOf_descFields (k : Nat) : ∀ ds : List BlockPB, varintsOf k (descFields ds) = [] := by
  intro ds
  induction ds with
  | nil => simp [descFields, varintsOf]
  | cons d ds ih =>
    rw [descFields]
    simp only [varintsOf, List.filterMap_cons] at *
    split <;> simp_all

theorem mem_descFields : ∀ (ds : List BlockPB) (d : BlockPB), d ∈ ds →
    ⟨13, .len (encFields (blockFields d))⟩ ∈ descFields ds := by
  intro ds
  induction ds with
  | nil => intro d h; simp at h
  | cons x xs ih =>
    intro d h
    rw [descFields]
    simp only [List.mem_cons] at h ⊢
    rcases h with rfl | h
    · exact Or.inl rfl
    · exact Or.inr (ih d h)

theorem shape_descFields : ∀ (ds : List BlockPB), ∀ f ∈ descFields ds, f.Shape := by
  intro ds
  induction ds with
  | nil => intro f hf; simp [descFields] at hf
  | cons x xs ih =>
    intro f hf
    rw [descFields] at hf
    simp only [List.mem_cons] at hf
    rcases hf with rfl | hf
    · exact ⟨show 1 ≤ 13 by decide, show 13 ≤ maxFieldNumber by decide, trivial⟩
    · exact ih f hf

theorem blockFields_eq (body : ABodyPB) (ds : List BlockPB) : blockFields ⟨body, ds⟩ =
    (fVarint 1 body.version ++ fVarint 2 body.chainIdentifier ++ fVarint 3 body.blockType ++
    fMsg 4 (body.hash.map bytesMsgFields) ++ fMsg 5 (body.previousHash.map bytesMsgFields) ++ fVarint 6 body.height ++
    fMsg 7 (body.momentumAcknowledged.map hashHeightFields) ++ fMsg 8 (body.address.map bytesMsgFields) ++
    fMsg 9 (body.toAddress.map bytesMsgFields) ++ fBytes 10 body.amount ++ fBytes 11 body.tokenStandard ++
    fMsg 12 (body.fromBlockHash.map bytesMsgFields)) ++ descFields ds ++
    (fBytes 14 body.data ++ fVarint 15 body.fusedPlasma ++ fVarint 17 body.difficulty ++ fBytes 18 body.nonce ++
    fVarint 19 body.basePlasma ++ fVarint 20 body.totalPlasma ++ fMsg 21 (body.changesHash.map bytesMsgFields) ++
    fBytes 22 body.publicKey ++ fBytes 23 body.signature) := by
  rw [blockFields]; rfl

theorem block_shape (body : ABodyPB) (ds : List BlockPB) (hn : body.NatsOK) :
    ∀ f ∈ blockFields ⟨body, ds⟩, f.Shape := by
  obtain ⟨h1, h2, h3, h4, h5, h6, h7, h8, _⟩ := hn
  simp only [blockFields_eq, List.forall_mem_append]
  repeat' constructor
  all_goals first
    | exact shape_descFields ds
    | exact shape_fMsg _ _ (by decide)
    | exact shape_fBytes _ _ (by decide)
    | exact shape_fVarint _ _ (by decide) (by assumption)

section
attribute [local simp] lensOf_append varintsOf_append lensOf_fVarint varintsOf_fVarint_ne varintsOf_fVarint_eq
  varintsOf_fBytes varintsOf_fMsg lensOf_fBytes_ne lensOf_fBytes_eq lensOf_fMsg_ne lensOf_fMsg_eq
  lensOf_descFields_ne lensOf_descFields_eq varintsOf_descFields

theorem aBodyOf_fields (body : ABodyPB) (ds : List BlockPB) (hn : body.NatsOK)
    (hfit : Fits (blockFields ⟨body, ds⟩)) : aBodyOf (blockFields ⟨body, ds⟩) = some body := by
  obtain ⟨_, _, _, _, _, _, _, _, hma⟩ := hn
  have g4 : getMsg 4 (blockFields ⟨body, ds⟩) = some (body.hash.map bytesMsgFields) := by
    apply getMsg_bytesMsg 4 _ body.hash hfit
    · simp [blockFields_eq]
    · intro h hh; simp [blockFields_eq, fMsg, hh]
  have g5 : getMsg 5 (blockFields ⟨body, ds⟩) = some (body.previousHash.map bytesMsgFields) := by
    apply getMsg_bytesMsg 5 _ body.previousHash hfit
    · simp [blockFields_eq]
    · intro h hh; simp [blockFields_eq, fMsg, hh]
  have g7 : (getMsg 7 (blockFields ⟨body, ds⟩)).bind (optMapM hashHeightOf) = some body.momentumAcknowledged := by
    apply getMsg_hashHeight 7 _ body.momentumAcknowledged hfit hma
    · simp [blockFields_eq]
    · intro q hq; simp [blockFields_eq, fMsg, hq]
  have g8 : getMsg 8 (blockFields ⟨body, ds⟩) = some (body.address.map bytesMsgFields) := by
    apply getMsg_bytesMsg 8 _ body.address hfit
    · simp [blockFields_eq]
    · intro h hh; simp [blockFields_eq, fMsg, hh]
  have g9 : getMsg 9 (blockFields ⟨body, ds⟩) = some (body.toAddress.map bytesMsgFields) := by
    apply getMsg_bytesMsg 9 _ body.toAddress hfit
    · simp [blockFields_eq]
    · intro h hh; simp [blockFields_eq, fMsg, hh]
  have g12 : getMsg 12 (blockFields ⟨body, ds⟩) = some (body.fromBlockHash.map bytesMsgFields) := by
    apply getMsg_bytesMsg 12 _ body.fromBlockHash hfit
    · simp [blockFields_eq]
    · intro h hh; simp [blockFields_eq, fMsg, hh]
  have g21 : getMsg 21 (blockFields ⟨body, ds⟩) = some (body.changesHash.map bytesMsgFields) := by
    apply getMsg_bytesMsg 21 _ body.changesHash hfit
    · simp [blockFields_eq]
    · intro h hh; simp [blockFields_eq, fMsg, hh]
  have v1 : getVarint 1 (blockFields ⟨body, ds⟩) = body.version := by
    apply getVarint_of; simp [blockFields_eq]
  have v2 : getVarint 2 (blockFields ⟨body, ds⟩) = body.chainIdentifier := by
    apply getVarint_of; simp [blockFields_eq]
  have v3 : getVarint 3 (blockFields ⟨body, ds⟩) = body.blockType := by
    apply getVarint_of; simp [blockFields_eq]
  have v6 : getVarint 6 (blockFields ⟨body, ds⟩) = body.height := by
    apply getVarint_of; simp [blockFields_eq]
  have v15 : getVarint 15 (blockFields ⟨body, ds⟩) = body.fusedPlasma := by
    apply getVarint_of; simp [blockFields_eq]
  have v17 : getVarint 17 (blockFields ⟨body, ds⟩) = body.difficulty := by
    apply getVarint_of; simp [blockFields_eq]
  have v19 : getVarint 19 (blockFields ⟨body, ds⟩) = body.basePlasma := by
    apply getVarint_of; simp [blockFields_eq]
  have v20 : getVarint 20 (blockFields ⟨body, ds⟩) = body.totalPlasma := by
    apply getVarint_of; simp [blockFields_eq]
  have b10 : getBytes 10 (blockFields ⟨body, ds⟩) = body.amount := by
    apply getBytes_of; simp [blockFields_eq]
  have b11 : getBytes 11 (blockFields ⟨body, ds⟩) = body.tokenStandard := by
    apply getBytes_of; simp [blockFields_eq]
  have b14 : getBytes 14 (blockFields ⟨body, ds⟩) = body.data := by
    apply getBytes_of; simp [blockFields_eq]
  have b18 : getBytes 18 (blockFields ⟨body, ds⟩) = body.nonce := by
    apply getBytes_of; simp [blockFields_eq]
  have b22 : getBytes 22 (blockFields ⟨body, ds⟩) = body.publicKey := by
    apply getBytes_of; simp [blockFields_eq]
  have b23 : getBytes 23 (blockFields ⟨body, ds⟩) = body.signature := by
    apply getBytes_of; simp [blockFields_eq]
  cases hg : getMsg 7 (blockFields ⟨body, ds⟩) with
  | none => simp [hg] at g7
  | some g =>
    rw [hg] at g7
    simp only [Option.bind_some] at g7
    simp only [aBodyOf, g4, g5, hg, g7, g8, g9, g12, g21, v1, v2, v3, v6, v15, v17, v19, v20, b10, b11, b14, b18,
      b22, b23, Option.bind_eq_bind, Option.bind_some, map_bytesMsgOf]
    rfl

end

theorem natsOKList_mem : ∀ (ds : List BlockPB), NatsOKList ds → ∀ d ∈ ds, d.NatsOK := by
  intro ds
  induction ds with
  | nil => intro _ d hd; simp at hd
  | cons x xs ih =>
    intro h d hd
    rw [NatsOKList] at h
    simp only [List.mem_cons] at hd
    rcases hd with rfl | hd
    · exact h.1
    · exact ih h.2 d hd

theorem blockOf_fields (p : BlockPB) : ∀ f, p.NatsOK → Fits (blockFields p) →
    (encFields (blockFields p)).length < f → blockOf f (blockFields p) = some p := by
  refine BlockPB.rec
    (motive_1 := fun p => ∀ f, p.NatsOK → Fits (blockFields p) →
      (encFields (blockFields p)).length < f → blockOf f (blockFields p) = some p)
    (motive_2 := fun ds => ∀ d ∈ ds, ∀ f, d.NatsOK → Fits (blockFields d) →
      (encFields (blockFields d)).length < f → blockOf f (blockFields d) = some d)
    ?_ ?_ ?_ p
  · intro body ds ih f hn hfit hlen
    cases f with
    | zero => omega
    | succ f =>
      rw [BlockPB.NatsOK] at hn
      rw [blockOf, aBodyOf_fields body ds hn.1 hfit]
      have hl : lensOf 13 (blockFields ⟨body, ds⟩) = ds.map encBlockPB := by
        simp [blockFields_eq, lensOf_append, lensOf_fVarint, lensOf_fBytes_ne, lensOf_fMsg_ne, lensOf_descFields_eq]
      rw [hl]
      have hds : listMapM (fun b => (parseFields b).bind (blockOf f)) (ds.map encBlockPB) = some ds := by
        apply listMapM_map
        intro d hd
        have hmem : ⟨13, .len (encFields (blockFields d))⟩ ∈ blockFields ⟨body, ds⟩ := by
          rw [blockFields_eq]
          simp only [List.mem_append]
          exact Or.inl (Or.inr (mem_descFields ds d hd))
        have hdn := natsOKList_mem ds hn.2 d hd
        have hdf : Fits (blockFields d) := fits_of_mem _ hfit 13 _ hmem
        have hdl := len_lt_of_mem _ 13 _ hmem
        obtain ⟨dbody, dds⟩ := d
        have hdn' := hdn
        rw [BlockPB.NatsOK] at hdn'
        simp only [encBlockPB]
        rw [parse_of_fits _ hdf (block_shape dbody dds hdn'.1)]
        exact ih ⟨dbody, dds⟩ hd f hdn hdf (by omega)
      simp only [hds, Option.bind_eq_bind, Option.bind_some]
      rfl
  · intro d hd; simp at hd
  · intro d ds ihd ihds x hx
    simp only [List.mem_cons] at hx
    rcases hx with rfl | hx
    · exact ihd
    · exact ihds x hx

theorem decBlockPB_enc (p : BlockPB) (hn : p.NatsOK) (hfit : (encBlockPB p).length < two64) :
    decBlockPB (encBlockPB p) = some p := by
  have hf : Fits (blockFields p) := hfit
  obtain ⟨body, ds⟩ := p
  have hn' := hn
  rw [BlockPB.NatsOK] at hn'
  simp only [decBlockPB, encBlockPB, parse_of_fits _ hf (block_shape body ds hn'.1), Option.bind_some]
  exact blockOf_fields ⟨body, ds⟩ _ hn hf (by omega)

end ZV.Codec
