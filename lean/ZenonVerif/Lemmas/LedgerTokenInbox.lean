import ZenonVerif.Lemmas.LedgerInbox
import ZenonVerif.Lemmas.LedgerDemo
/-
The token contract's own inbox cannot be wedged either (C09), provided the zero token standard has no storage entry:
for whatever send is next in line there is an outcome (applied or refunded) that `crecv` accepts.
-/
namespace ZV.Ledger

/-! ### evaluating `crecv` for the token contract -/

theorem crecv_token_none {s : State} {h : Hash} {ds : List Desc} {nxt snd : Send}
    (hnext : nextInLine s tokenContract = some nxt) (hh : nxt.hash = h) (hchk : checkFrom s tokenContract h = .ok snd)
    (hm : tokenMethod s.toks snd (newTokOf ds) = none) (href : descShape ds = refundOf snd) :
    crecv s tokenContract h 2 ds = applyDescs (recvCore s tokenContract h snd) tokenContract ds := by
  unfold crecv
  simp only [hnext]
  have h1 : (nxt.hash != h) = false := by simp [hh]
  simp only [h1, Bool.false_eq_true, if_false, hchk, bind, Except.bind]
  have h2 : ((2 : Nat) != 1 && (2 : Nat) != 2) = false := rfl
  have h3 : (tokenContract == tokenContract) = true := rfl
  simp only [h2, h3, Bool.false_eq_true, if_false, if_true]
  split
  · have h5 : (descShape ds != refundOf snd) = false := by simp [href]
    have h6 : ((2 : Nat) != 2) = false := rfl
    simp only [h5, h6, Bool.or_self, Bool.false_eq_true, if_false]
    rfl
  · rename_i out heq
    have : (none : Option TokOutcome) = some out := hm.symm.trans heq
    cases this

theorem crecv_token_some {s : State} {h : Hash} {ds : List Desc} {nxt snd : Send} {out : TokOutcome}
    (hnext : nextInLine s tokenContract = some nxt) (hh : nxt.hash = h) (hchk : checkFrom s tokenContract h = .ok snd)
    (hm : tokenMethod s.toks snd (newTokOf ds) = some out) (hshape : descShape ds = out.descs)
    (hburn : out.burn ≤ getBal (tokMint (recvCore s tokenContract h snd) tokenContract out).bal tokenContract out.mintTok) :
    crecv s tokenContract h 1 ds
      = applyDescs (tokApply (recvCore s tokenContract h snd) tokenContract out) tokenContract ds := by
  unfold crecv
  simp only [hnext]
  have h1 : (nxt.hash != h) = false := by simp [hh]
  simp only [h1, Bool.false_eq_true, if_false, hchk, bind, Except.bind]
  have h2 : ((1 : Nat) != 1 && (1 : Nat) != 2) = false := rfl
  have h3 : (tokenContract == tokenContract) = true := rfl
  simp only [h2, h3, Bool.false_eq_true, if_false, if_true]
  split
  · rename_i heq
    have : (some out : Option TokOutcome) = none := hm.symm.trans heq
    cases this
  · rename_i out' heq
    have : some out = some out' := hm.symm.trans heq
    cases this
    have h4 : ((1 : Nat) == 2) = false := rfl
    have h5 : ((1 : Nat) != 1) = false := rfl
    have h6 : (descShape ds != out.descs) = false := by simp [hshape]
    simp only [h4, Bool.false_and, Bool.false_eq_true, if_false, h5, h6, Bool.or_self]
    have h7 : ¬ getBal (tokMint (recvCore s tokenContract h snd) tokenContract out).bal tokenContract out.mintTok < out.burn := by
      omega
    split
    · rename_i hlt; exact absurd hlt h7
    · rfl

/-! ### the refund descendants are always funded -/

theorem applyDescs_refund_ok {s : State} (hw : WF s) {c : Addr} {nxt : Send} (hmem : nxt ∈ s.sends) (h' : Hash) :
    ∃ s', applyDescs (recvCore s c nxt.hash nxt) c (refundDescs nxt h') = .ok s' := by
  unfold refundDescs
  split
  · have hz : nxt.tok = zeroTok → nxt.amt = 0 := hw.zeroAmt nxt hmem
    have hle : nxt.amt ≤ getBal (recvCore s c nxt.hash nxt).bal c nxt.tok := by
      rw [getBal_recvCore]; simp
    rw [applyDescs_cons_of (applySend_of (h := h') (dst := nxt.src) (call := TokCall.none) hz hle)]
    exact ⟨_, rfl⟩
  · exact ⟨_, rfl⟩

/-! ### shapes of a successful token method -/

theorem tokenMethod_shape {toks : List (Tok × TokInfo)} {snd : Send} {n : Tok} {out : TokOutcome}
    (hm : tokenMethod toks snd n = some out) :
    (out.descs = [] ∧ (out.burn = 0 ∨ (out.burn = snd.amt ∧ out.mintTok = snd.tok))) ∨
    (∃ dst, out.descs = [(dst, out.mintTok, out.mint)] ∧ out.burn = 0 ∧
       ((∃ i, getTok toks out.mintTok = some i) ∨ ((∃ t m a b, snd.call = .issue t m a b) ∧ out.mintTok = n))) := by
  unfold tokenMethod at hm
  split at hm
  · cases hm
  · rename_i hcl
    split at hm
    · cases hm
    · cases hm
      exact Or.inr ⟨_, rfl, rfl, Or.inr ⟨⟨_, _, _, _, hcl⟩, rfl⟩⟩
  · split at hm
    · cases hm
    · rename_i i hg
      split at hm
      · cases hm
      · split at hm
        · cases hm
        · split at hm
          · cases hm
          · split at hm
            · cases hm
            · cases hm
              exact Or.inr ⟨_, rfl, rfl, Or.inl ⟨i, hg⟩⟩
  · split at hm
    · cases hm
    · split at hm
      · cases hm
      · cases hm
        exact Or.inl ⟨rfl, Or.inr ⟨rfl, rfl⟩⟩
  · split at hm
    · cases hm
    · split at hm
      · cases hm
      · split at hm
        · cases hm
        · cases hm
          exact Or.inl ⟨rfl, Or.inl rfl⟩

/-- only `issue` looks at the proposed new token standard -/
theorem tokenMethod_newTok_irrelevant {toks : List (Tok × TokInfo)} {snd : Send} (n n' : Tok)
    (hni : ∀ t m a b, snd.call ≠ .issue t m a b) : tokenMethod toks snd n = tokenMethod toks snd n' := by
  unfold tokenMethod
  split
  · rfl
  · rename_i hcl; exact absurd hcl (hni _ _ _ _)
  · rfl
  · rfl
  · rfl

/-- some non-zero token standard has no storage entry -/
theorem exists_unused_tok (toks : List (Tok × TokInfo)) : ∃ n, n ≠ zeroTok ∧ getTok toks n = none := by
  have hb : ∀ (l : List (Tok × TokInfo)) (n : Tok), (l.map (·.1)).sum < n → getTok l n = none := by
    intro l
    induction l with
    | nil => intro n _; rfl
    | cons e r ih =>
      intro n hn
      obtain ⟨k, v⟩ := e
      have hn' : k + (r.map (·.1)).sum < n := by simpa using hn
      simp only [getTok]
      have hk : k ≠ n := by
        intro he; subst he
        exact absurd hn' (Nat.not_lt.2 (Nat.le_add_right k _))
      simp only [hk, if_false]
      exact ih n (Nat.lt_of_le_of_lt (Nat.le_add_left _ _) hn')
  refine ⟨(toks.map (·.1)).sum + 1, ?_, hb toks _ (Nat.lt_succ_self _)⟩
  simp [zeroTok]

/-! ### the token contract's inbox is not wedged -/

/-- a descendant list of at most one element with a fresh hash and no token call is admissible -/
theorem admissible_of_single {s : State} {c : Addr} {h : Hash} {st : Nat} {ds : List Desc} {h' : Hash}
    (hfresh : h' ∉ s.sends.map (·.hash)) (hlen : ds.length ≤ 1)
    (hall : ∀ d ∈ ds, d.hash = h' ∧ d.call = TokCall.none) : Admissible s (.crecv c h st ds) := by
  refine ⟨⟨?_, ?_⟩, ?_⟩
  · show (ds.map (·.hash)).Nodup
    match ds, hlen with
    | [], _ => simp
    | [d], _ => simp
  · intro x hx
    obtain ⟨d, hd, rfl⟩ := List.mem_map.1 hx
    rw [(hall d hd).1]; exact hfresh
  · intro cl hcl
    obtain ⟨d, hd, rfl⟩ := List.mem_map.1 hcl
    rw [(hall d hd).2]; trivial

theorem getBal_tokApply_self (s1 : State) (c : Addr) (out : TokOutcome) (hb : out.burn = 0) :
    getBal (tokApply s1 c out).bal c out.mintTok = getBal s1.bal c out.mintTok + out.mint := by
  have h3 : getBal (tokMint s1 c out).bal c out.mintTok
      = getBal s1.bal c out.mintTok + (if (c, out.mintTok) = (c, out.mintTok) then out.mint else 0) :=
    getBal_credit s1 c out.mintTok out.mint c out.mintTok
  have h4 : getBal (tokApply s1 c out).bal c out.mintTok + (if (c, out.mintTok) = (c, out.mintTok) then out.burn else 0)
      = getBal (tokMint s1 c out).bal c out.mintTok :=
    getBal_debit (tokMint s1 c out) c out.mintTok out.burn c out.mintTok (by rw [hb]; exact Nat.zero_le _)
  simp only [if_true] at h3 h4
  omega

theorem token_receive_possible {s : State} (hw : WF s) (hz : getTok s.toks zeroTok = none) {nxt : Send}
    (hnext : nextInLine s tokenContract = some nxt) (h' : Hash) :
    ∃ st ds s', crecv s tokenContract nxt.hash st ds = .ok s' ∧
      ds.length ≤ 1 ∧ ∀ d ∈ ds, d.hash = h' ∧ d.call = TokCall.none := by
  have hchk := nextInLine_checkFrom hw hnext
  obtain ⟨hmem, _, _⟩ := nextInLine_spec hnext
  -- the applied path for a method outcome with a single descendant
  have single : ∀ (out : TokOutcome) (dst : Addr),
      tokenMethod s.toks nxt out.mintTok = some out → out.descs = [(dst, out.mintTok, out.mint)] → out.burn = 0 →
      out.mintTok ≠ zeroTok →
      ∃ s', crecv s tokenContract nxt.hash 1 [⟨dst, out.mintTok, out.mint, h', TokCall.none⟩] = .ok s' := by
    intro out dst hm hd hb hnz
    have hburn : out.burn ≤ getBal (tokMint (recvCore s tokenContract nxt.hash nxt) tokenContract out).bal
        tokenContract out.mintTok := by rw [hb]; exact Nat.zero_le _
    rw [crecv_token_some (ds := [⟨dst, out.mintTok, out.mint, h', TokCall.none⟩]) hnext rfl hchk hm
      (by simp [descShape, hd]) hburn]
    have hle : out.mint ≤ getBal (tokApply (recvCore s tokenContract nxt.hash nxt) tokenContract out).bal
        tokenContract out.mintTok := by
      rw [getBal_tokApply_self _ _ _ hb]; omega
    rw [applyDescs_cons_of (applySend_of (h := h') (dst := dst) (call := TokCall.none)
      (fun h0 => absurd h0 hnz) hle)]
    exact ⟨_, rfl⟩
  by_cases hiss : ∃ t m a b, nxt.call = .issue t m a b
  · -- issue: propose an unused non-zero token standard
    obtain ⟨total, max, a, b, hcl⟩ := hiss
    obtain ⟨n, hn0, hn⟩ := exists_unused_tok s.toks
    have hm : tokenMethod s.toks nxt n
        = some ⟨setTok s.toks n ⟨total, max, a, b, nxt.src⟩, n, total, 0, [(nxt.src, n, total)]⟩ := by
      unfold tokenMethod
      simp only [hcl, hn]
    obtain ⟨s', hs'⟩ := single ⟨setTok s.toks n ⟨total, max, a, b, nxt.src⟩, n, total, 0, [(nxt.src, n, total)]⟩
      nxt.src hm rfl rfl hn0
    exact ⟨1, _, s', hs', by simp, by simp⟩
  · have hni : ∀ t m a b, nxt.call ≠ .issue t m a b := fun t m a b he => hiss ⟨t, m, a, b, he⟩
    cases hm : tokenMethod s.toks nxt zeroTok with
    | none =>
      -- the method fails: the refund is accepted
      have hm' : tokenMethod s.toks nxt (newTokOf (refundDescs nxt h')) = none := by
        rw [tokenMethod_newTok_irrelevant _ zeroTok hni]; exact hm
      obtain ⟨s', hs'⟩ := applyDescs_refund_ok (c := tokenContract) hw hmem h'
      refine ⟨2, refundDescs nxt h', s', ?_, ?_, ?_⟩
      · rw [crecv_token_none hnext rfl hchk hm' (descShape_refundDescs nxt h')]; exact hs'
      · unfold refundDescs; split <;> simp
      · unfold refundDescs; split <;> simp
    | some out =>
      rcases tokenMethod_shape hm with ⟨hd, hb⟩ | ⟨dst, hd, hb, hsrc⟩
      · -- burn / update: no descendants
        have hm' : tokenMethod s.toks nxt (newTokOf []) = some out := hm
        have hburn : out.burn ≤ getBal (tokMint (recvCore s tokenContract nxt.hash nxt) tokenContract out).bal
            tokenContract out.mintTok := by
          rcases hb with hb | ⟨hb, ht⟩
          · rw [hb]; exact Nat.zero_le _
          · have h3 : getBal (tokMint (recvCore s tokenContract nxt.hash nxt) tokenContract out).bal tokenContract out.mintTok
                = getBal (recvCore s tokenContract nxt.hash nxt).bal tokenContract out.mintTok
                  + (if (tokenContract, out.mintTok) = (tokenContract, out.mintTok) then out.mint else 0) :=
              getBal_credit _ tokenContract out.mintTok out.mint tokenContract out.mintTok
            have h2 := getBal_recvCore s tokenContract nxt.hash nxt tokenContract out.mintTok
            rw [ht] at h2 h3 ⊢
            simp only [if_true] at h2 h3
            omega
        refine ⟨1, [], tokApply (recvCore s tokenContract nxt.hash nxt) tokenContract out, ?_, by simp, by simp⟩
        rw [crecv_token_some hnext rfl hchk hm' (by simp [descShape, hd]) hburn]
        rfl
      · -- mint: one descendant of the minted amount
        have hnz : out.mintTok ≠ zeroTok := by
          rcases hsrc with ⟨i, hi⟩ | ⟨hi, _⟩
          · intro h0; rw [h0, hz] at hi; cases hi
          · exact absurd hi hiss
        have hm' : tokenMethod s.toks nxt out.mintTok = some out := by
          rw [tokenMethod_newTok_irrelevant _ zeroTok hni]; exact hm
        obtain ⟨s', hs'⟩ := single out dst hm' hd hb hnz
        exact ⟨1, _, s', hs', by simp, by simp⟩

/-! ### the hypothesis on the zero token standard is necessary in the model -/

/-- the model takes the new token standard of an `issue` from the observed descendant; it therefore accepts an issue of
    the zero token standard with total supply 0 (Go derives the standard from the send hash, never zero). After that, a
    mint of that "token" can be neither applied (a zero-token send must be empty) nor refunded (the method succeeds). -/
def wedgeEvents : List Ev :=
  [ .usend 16 tokenContract zeroTok 0 100 (.issue 0 10 true true),
    .crecv tokenContract 100 1 [⟨16, zeroTok, 0, 101, .none⟩],
    .usend 16 tokenContract zeroTok 0 102 (.mint zeroTok 5 17) ]

def wedgeState : State :=
  { bal := [((16, 0), 0), ((0, 0), 0)],
    sends := [⟨100, 16, 0, 0, 0, .issue 0 10 true true⟩, ⟨101, 0, 16, 0, 0, .none⟩, ⟨102, 16, 0, 0, 0, .mint 0 5 17⟩],
    recv := [(0, 100)],
    toks := [(0, ⟨0, 10, true, true, 16⟩)],
    gate := true }

theorem wedge_reachable : Reach (State.init true) wedgeState := reach_of_runAdm wedgeEvents _ _ (by rfl)

theorem wedge_no_outcome (st : Nat) (ds : List Desc) (s' : State) :
    crecv wedgeState tokenContract 102 st ds ≠ .ok s' := by
  intro hok
  have hsnd : ∀ snd, checkFrom wedgeState tokenContract 102 = .ok snd → snd = ⟨102, 16, 0, 0, 0, .mint 0 5 17⟩ := by
    intro snd h
    have h0 : checkFrom wedgeState tokenContract 102 = .ok ⟨102, 16, 0, 0, 0, .mint 0 5 17⟩ := rfl
    rw [h0] at h; cases h; rfl
  have hmeth : ∀ n, tokenMethod wedgeState.toks ⟨102, 16, 0, 0, 0, .mint 0 5 17⟩ n
      = some ⟨setTok wedgeState.toks 0 ⟨5, 10, true, true, 16⟩, 0, 5, 0, [(17, 0, 5)]⟩ := fun _ => rfl
  cases crecv_cases hok with
  | plain nxt snd _ _ hchk _ _ _ htm _ =>
    have := hsnd snd hchk
    subst this
    have := htm rfl _ (hmeth _)
    exact absurd this (by decide)
  | token nxt snd out _ _ hchk _ _ hm hshape _ hds =>
    have := hsnd snd hchk
    subst this
    rw [hmeth] at hm
    cases hm
    cases ds with
    | nil => simp [descShape] at hshape
    | cons d r =>
      obtain ⟨s1, h1, _⟩ := applyDescs_cons_ok hds
      simp only [descShape, List.map_cons, List.cons.injEq, Prod.mk.injEq] at hshape
      obtain ⟨⟨_, ht, ha⟩, _⟩ := hshape
      have := (applySend_ok h1).1 ht
      omega

end ZV.Ledger
